//! C17: no input in the documented domain makes the library panic or hang.
#![allow(dead_code)]
use crate::core::*;
use crate::gen::*;
use crate::ops::*;
use crate::runner::*;
use crate::simple::*;
use rspack_sources::SourceMap;
use std::collections::BTreeMap;

pub fn c17_tree() -> TreeProp {
  TreeProp {
    id: "C17",
    gen: Box::new(|rng, thorough| {
      // half of the trees with ASCII-only text: K4 (char vs byte columns) cannot occur there, so any trap is another defect
      let cfg = GenCfg { map_w: (2, 6, 0), mb: rng.chance(2), ..GenCfg::wild(if thorough { 4 } else { 3 }) };
      let t = TreeGen::new().tree(rng, &cfg, cfg.depth, false);
      let mut ops = vec![Op::Src, Op::Buffer, Op::Size, Op::Rope, Op::Writer(3), Op::Stream(true, false), Op::Stream(false, false), Op::Map(true), Op::Map(false), Op::Stream(true, true), Op::Stream(false, true), Op::Hash, Op::Stream(true, false), Op::Map(true)];
      if rng.chance(2) { ops.reverse(); }
      Case { trees: vec![t], script: ops.into_iter().map(|o| (0, o)).collect(), note: "C17".into() }
    }),
    oracle: Box::new(|c, outs| {
      let mut v = vec![];
      for ((i, op), o) in c.script.iter().zip(outs) { if let Out::Panic(m) = o { v.push(finding("no-panic", format!("A{i}.{:?} panicked: {}", op, trunc(&m, 200)))); break } }
      v
    }),
    project: Box::new(|_, outs| outs.iter().map(|o| if o.is_panic() { "trap".to_string() } else { "ok".to_string() }).collect()),
    nontrivial: Box::new(|c, _| c.trees[0].has(&|x| matches!(x, T::Sms { .. }))),
    stats: Box::new(|c, outs, d| {
      let mut k = BTreeMap::new(); c.trees[0].kinds(&mut k); for (n, v) in k { *d.entry(format!("node:{n}")).or_default() += v; }
      if outs.iter().any(|o| o.is_panic()) { *d.entry("impl-panic".into()).or_default() += 1; }
      if crate::refmodel::ref_src(&c.trees[0]).iter().any(|b| *b >= 128) { *d.entry("non-ascii-text".into()).or_default() += 1; }
    }),
    known: Box::new(|c, f, _| {
      // K4: char-vs-byte column units: a ReplaceSource/ConcatSource over a map-driven stream of non-ASCII text computes a negative column, which wraps
      // and overflows the column addition (debug builds only)
      let non_ascii = crate::refmodel::ref_src(&c.trees[0]).iter().any(|b| *b >= 128);
      let map_driven = c.trees[0].has(&|x| matches!(x, T::Sms { .. } | T::Cached(..)));
      if non_ascii && map_driven && f.detail.contains("attempt to add with overflow") { Some("K4".into()) } else { None }
    }),
    corpus: vec![],
  }
}

#[derive(Clone, Debug, Hash)]
pub enum RawCase {
  Dec(Vec<u8>), Json(Vec<u8>),
  /// `source()` of a ReplaceSource with arbitrary positions (inside and outside the documented domain): the checked model
  /// (Model/Checked.lean) must trap exactly when the crate panics
  Repl(String, Vec<ReplT>),
  /// a SourceMapSource over a completely wild map (unsorted, junk mappings string), streamed in one of the four modes
  Sm(String, SMapT, bool, bool),
}
impl RawCase {
  fn tree_ops(&self) -> Option<(T, Vec<Op>)> {
    match self {
      RawCase::Repl(t, rs) => Some((T::Replace(Box::new(T::RawStr(t.clone())), rs.clone()), vec![Op::Src])),
      RawCase::Sm(t, m, c, f) => Some((T::Sms { text: t.clone(), name: "g.js".into(), map: m.clone(), orig: None, inner: None, remove: false }, vec![Op::Stream(*c, *f)])),
      _ => None,
    }
  }
  fn show(o: &Out) -> String { match o { Out::Panic(_) => "trap".into(), Out::Text(t) => format!("src {}", hx(t)), Out::Stream(s) => format!("{:?}", s), o => format!("{:?}", o) } }
  /// every replacement position on a char boundary of the text or beyond its end
  fn repl_in_domain(t: &str, rs: &[ReplT]) -> bool { rs.iter().all(|r| [r.start, r.end].iter().all(|p| *p as usize >= t.len() || t.is_char_boundary(*p as usize))) }
}

impl SimpleCase for RawCase {
  fn reqs(&self) -> Vec<String> {
    match self {
      RawCase::Dec(s) => vec![format!("dec {}", hx(s))], RawCase::Json(_) => vec![],
      _ => { let (t, ops) = self.tree_ops().unwrap(); let mut v = vec!["reset".to_string(), format!("tree A {}", t.proto())]; for op in &ops { v.push(op_proto("A", op)); } v }
    }
  }
  fn run_impl(&self) -> Vec<String> {
    match self {
      RawCase::Dec(s) => { let st = String::from_utf8_lossy(s).to_string(); vec![match catch(|| crate::attr::decode(&st)) { Ok(ms) => { let mut x = ms.len().to_string(); for m in &ms { x.push(' '); x.push_str(&m.proto()); } x } Err(m) => format!("panic {}", panic_kind(&m)) }] }
      RawCase::Json(_) => vec![],
      _ => { let (t, ops) = self.tree_ops().unwrap(); let mut v = vec!["ok".to_string(), "ok".to_string()]; v.extend(run_impl(&t, &ops).iter().map(RawCase::show)); v }
    }
  }
  fn oracle(&self, outs: &[String]) -> Vec<Finding> {
    match self {
      RawCase::Dec(s) => if outs[0].starts_with("panic") { vec![finding("decoder-no-panic", format!("decode_mappings({:?}) panicked: {}", String::from_utf8_lossy(s), outs[0]))] } else { vec![] },
      RawCase::Json(b) => {
        // evaluated directly (no model): parsers return Ok or Err, the three entry points agree
        let r = catch(|| { let a = std::str::from_utf8(b).ok().map(|s| SourceMap::from_json(s).is_ok()); let c = SourceMap::from_slice(b).is_ok(); let d = SourceMap::from_reader(&b[..]).is_ok(); (a, c, d) });
        match r { Ok((a, c, d)) => if a.map_or(false, |a| a != c) || c != d { vec![finding("parsers-agree", format!("from_json/from_slice/from_reader disagree on {:?}: {:?} {c} {d}", String::from_utf8_lossy(b), a))] } else { vec![] },
          Err(m) => vec![finding("parser-no-panic", format!("parsing {:?} panicked: {m}", String::from_utf8_lossy(b)))] }
      }
      // source() must not panic when every position is on a char boundary or beyond the end (outside that domain a panic is allowed,
      // and the checked model must predict it: that is the correspondence part)
      RawCase::Repl(t, rs) => if outs.get(2).map_or(false, |o| o == "trap") && RawCase::repl_in_domain(t, rs) { vec![finding("source-no-panic", format!("ReplaceSource({:?}, {:?}).source() panicked", t, rs.iter().map(|r| (r.start, r.end)).collect::<Vec<_>>()))] } else { vec![] },
      // a lone SourceMapSource never panics while streaming, whatever the map
      RawCase::Sm(t, m, c, f) => if outs.get(2).map_or(false, |o| o == "trap") { vec![finding("splitter-no-panic", format!("SourceMapSource({:?}, mappings {:?}) panicked streaming columns={c} final={f}", t, m.mappings))] } else { vec![] },
    }
  }
  fn project(&self, outs: &[String]) -> Vec<String> {
    match self.tree_ops() {
      None => outs.to_vec(),
      // driver answers are parsed and shown in the same form as the implementation's
      Some((_, ops)) => outs.iter().enumerate().map(|(i, o)| if i < 2 || o == "trap" || o.starts_with("src ") || o.starts_with("SRes") { o.clone() } else { RawCase::show(&parse_out(&ops[i - 2], o)) }).collect(),
    }
  }
  fn nontrivial(&self) -> bool { match self { RawCase::Dec(s) => s.len() >= 3, RawCase::Json(b) => b.len() >= 3, RawCase::Repl(t, rs) => !rs.is_empty() && !t.is_ascii(), RawCase::Sm(_, m, ..) => m.mappings.len() >= 3 } }
  fn stats(&self, _o: &[String], d: &mut BTreeMap<String, u64>) { match self { RawCase::Dec(s) => { *d.entry("decoder-string".into()).or_default() += 1; if s.windows(13).any(|w| w.iter().all(|b| b"ghijklmnopqrstuvwxyz0123456789+/".contains(b))) { *d.entry("decoder:>=13-continuation-digits".into()).or_default() += 1; } } RawCase::Json(b) => { *d.entry("json-bytes".into()).or_default() += 1; if SourceMap::from_slice(b).is_ok() { *d.entry("json:accepted".into()).or_default() += 1; } }
    RawCase::Repl(t, rs) => { *d.entry("replace-source-any-positions".into()).or_default() += 1; if !RawCase::repl_in_domain(t, rs) { *d.entry("replace-source:off-boundary".into()).or_default() += 1; } if _o.get(2).map_or(false, |o| o == "trap") { *d.entry("replace-source:impl-panics (predicted by the checked model)".into()).or_default() += 1; } }
    RawCase::Sm(_, m, ..) => { *d.entry("splitter-wild-map".into()).or_default() += 1; let segs = crate::attr::decode(&m.mappings); if segs.windows(2).any(|w| (w[1].gl, w[1].gc) < (w[0].gl, w[0].gc)) { *d.entry("splitter:unsorted-map".into()).or_default() += 1; } if segs.iter().any(|x| x.gl > 1000) { *d.entry("splitter:line>1000".into()).or_default() += 1; } } } }
  fn shrink(&self) -> Vec<Self> { match self { RawCase::Dec(s) => (0..s.len()).map(|i| { let mut x = s.clone(); x.remove(i); RawCase::Dec(x) }).collect(), RawCase::Json(s) => (0..s.len()).map(|i| { let mut x = s.clone(); x.remove(i); RawCase::Json(x) }).collect(),
    RawCase::Repl(t, rs) => (0..rs.len()).map(|i| { let mut x = rs.clone(); x.remove(i); RawCase::Repl(t.clone(), x) }).collect(),
    RawCase::Sm(t, m, c, f) => { let b = m.mappings.as_bytes(); (0..b.len()).map(|i| { let mut x = b.to_vec(); x.remove(i); RawCase::Sm(t.clone(), SMapT { mappings: String::from_utf8_lossy(&x).to_string(), ..m.clone() }, *c, *f) }).collect() } } }
}

pub fn gen_raw(rng: &mut Rng, _thorough: bool) -> RawCase {
  let k = rng.below(4);
  if k == 2 {
    // multi-byte text, replacement positions anywhere (mostly small, sometimes far beyond the end), any order, end < start
    let t = text(rng, 10, true);
    let n = rng.below(4);
    let rs = (0..n).map(|_| { let p = |rng: &mut Rng| if rng.chance(8) { 1000 + rng.below(5) as u32 } else { rng.below(t.len() + 3) as u32 };
      ReplT { start: p(rng), end: p(rng), content: text(rng, 3, true), name: None, enforce: rng.below(3) as u8 } }).collect();
    return RawCase::Repl(t, rs)
  }
  if k == 3 {
    // junk mappings string: unsorted, huge lines / columns / indices
    let mb = rng.chance(2); let t = text(rng, 12, mb);
    let n = rng.below(24); let mut s = String::new();
    let structured = rng.chance(2);
    if structured {
      // structured but unsorted: segments of 1 / 4 / 5 fields with deltas of either sign, occasionally huge
      let vlq = |mut v: i64, out: &mut String| { let mut x: u64 = if v < 0 { v = -v; ((v as u64) << 1) | 1 } else { (v as u64) << 1 }; loop { let mut d = (x & 31) as usize; x >>= 5; if x != 0 { d |= 32; } out.push(b"ABCDEFGHIJKLMNOPQRSTUVWXYZabcdefghijklmnopqrstuvwxyz0123456789+/"[d] as char); if x == 0 { break } } };
      for i in 0..rng.below(8) {
        if i > 0 { s.push(if rng.chance(3) { ';' } else { ',' }); }
        let k = [1, 4, 4, 5][rng.below(4)];
        for _ in 0..k { let v = if rng.chance(12) { (rng.below(1 << 20) as i64) << rng.below(12) } else { rng.below(12) as i64 - 4 }; vlq(v, &mut s); }
      }
    }
    while !structured && s.len() < n {
      match rng.below(10) {
        0 => { for _ in 0..rng.below(6) { s.push(*rng.pick(b"ghijklmnopqrstuvwxyz0123456789+/") as char); } s.push(*rng.pick(b"ABCDEFGHIJKLMNOPQRSTUVWXYZabcdef") as char); }
        1 | 2 => s.push(*rng.pick(b",;;") as char),
        _ => s.push(*rng.pick(b"ABCDEFGHIJKLMNOPQRSTUVWXYZabcdefghijklmnopqrstuvwxyz0123456789+/") as char),
      }
    }
    let ns = rng.below(3);
    let m = SMapT { mappings: s, sources: (0..ns).map(|i| format!("s{i}.js")).collect(), contents: (0..rng.below(ns + 1)).map(|_| text(rng, 6, true)).collect(), names: (0..rng.below(3)).map(|i| format!("n{i}")).collect(), file: None, root: if rng.chance(3) { Some("r".into()) } else { None }, debug_id: None };
    return RawCase::Sm(t, m, rng.chance(2), rng.chance(2))
  }
  if k == 0 {
    // junk over base64 + separators + arbitrary bytes, long continuation runs, huge deltas
    // now and then one segment with very many fields (a counter of fields kept in a byte: seed S144; sizes near 2^16 would make shrinking quadratic in a 64 KiB case and are left to the thorough tier's fixed corpus)
    if rng.chance(25) {
      let n = *rng.pick(&[254usize, 255, 256, 257, 300]);
      let mut s: Vec<u8> = (0..n).map(|_| *rng.pick(b"ACDE")).collect();
      if rng.chance(2) { s.extend_from_slice(b",AAAA;AACA"); }
      return RawCase::Dec(s)
    }
    let n = rng.below(40); let mut s = vec![];
    while s.len() < n {
      match rng.below(8) {
        0 => { for _ in 0..rng.below(30) { s.push(*rng.pick(b"ghijklmnopqrstuvwxyz0123456789+/")); } s.push(*rng.pick(b"ABCDEFGHIJKLMNOPQRSTUVWXYZabcdef")); }
        1 => s.push(rng.below(256) as u8),
        2 => s.push(*rng.pick(b",;")),
        _ => s.push(*rng.pick(b"ABCDEFGHIJKLMNOPQRSTUVWXYZabcdefghijklmnopqrstuvwxyz0123456789+/")),
      }
    }
    RawCase::Dec(s)
  } else {
    // arbitrary bytes, and mutated valid documents
    if rng.chance(3) { let n = rng.below(30); return RawCase::Json((0..n).map(|_| rng.below(256) as u8).collect()) }
    let mut doc = format!("{{\"version\":3,\"mappings\":\"{}\",\"sources\":[\"a.js\",null],\"names\":[\"n\"],\"sourcesContent\":[\"x\\ny\\u00e9\",null],\"file\":\"f\",\"sourceRoot\":\"r\",\"debugId\":\"d\"}}", ["AAAA", "", ";;", "A,B"][rng.below(4)]).into_bytes();
    for _ in 0..rng.below(4) {
      if doc.is_empty() { break }
      let i = rng.below(doc.len());
      match rng.below(4) { 0 => { doc.remove(i); } 1 => doc.insert(i, rng.below(256) as u8), 2 => doc[i] = *rng.pick(b"{}[]\",:\\ntf0-9e.\x00\xff"), _ => { let j = rng.below(doc.len()); doc.truncate(j.max(1)); } }
    }
    RawCase::Json(doc)
  }
}
pub fn raw_corpus() -> Vec<RawCase> {
  vec![RawCase::Dec(b"ggggggggggggggA".to_vec()), RawCase::Dec(b"AADA".to_vec()), RawCase::Dec(b"hhhhhhhhhhhhhhhhhhhhhhhhhB,+/+/+/+/+/+/+/+/+/+/+/+/+/+/C".to_vec()), RawCase::Json(b"{}".to_vec()), RawCase::Json(b"{\"mappings\":1}".to_vec())]
}

// ---------------------------------------------------------------- C19
pub fn c19_tree() -> TreeProp {
  TreeProp {
    id: "C19",
    gen: Box::new(|rng, thorough| {
      let cfg = GenCfg { map_w: (3, 5, 1), ..GenCfg::wild(if thorough { 4 } else { 3 }) };
      let t = TreeGen::new().tree(rng, &cfg, cfg.depth, false);
      let ops = vec![Op::StreamKeep(true, false), Op::StreamKeep(false, false), Op::Map(true), Op::Map(false), Op::StreamKeep(true, true), Op::StreamKeep(false, true), Op::Rope, Op::Src, Op::StreamKeep(true, false), Op::Hash];
      Case { trees: vec![t], script: ops.into_iter().map(|o| (0, o)).collect(), note: "C19".into() }
    }),
    oracle: Box::new(|c, outs| {
      let mut v = vec![];
      for ((i, op), o) in c.script.iter().zip(outs) { if let Out::Panic(m) = o { if m.contains("unsafe precondition") { v.push(finding("unsafe-precondition", format!("A{i}.{:?}: {}", op, trunc(&m, 200)))); break } } }
      v
    }),
    // which operations violate an unsafe precondition: the model predicts none for trees
    project: Box::new(|_, outs| outs.iter().map(|o| match o { Out::Panic(m) if m.contains("unsafe precondition") => "unsafe".to_string(), _ => "-".to_string() }).collect()),
    nontrivial: Box::new(|c, _| c.trees[0].has(&|x| matches!(x, T::Sms { .. } | T::Replace(..) | T::Cached(..)))),
    stats: Box::new(|c, _, d| { let mut k = BTreeMap::new(); c.trees[0].kinds(&mut k); for (n, v) in k { *d.entry(format!("node:{n}")).or_default() += v; } }),
    known: Box::new(|_, _, _| None),
    corpus: vec![],
  }
}
