//! C17: no input in the documented domain makes the library panic or hang.
#![allow(dead_code)]
use crate::core::*;
use crate::gen::*;
use crate::ops::*;
use crate::runner::*;
use crate::simple::*;
use rspack_sources::SourceMap;
use std::collections::BTreeMap;

pub fn c17_tree() -> TreeProp {
  TreeProp {
    id: "C17",
    gen: Box::new(|rng, thorough| {
      let cfg = GenCfg { map_w: (2, 6, 0), ..GenCfg::wild(if thorough { 4 } else { 3 }) };
      let t = TreeGen::new().tree(rng, &cfg, cfg.depth, false);
      let mut ops = vec![Op::Src, Op::Buffer, Op::Size, Op::Rope, Op::Writer(3), Op::Stream(true, false), Op::Stream(false, false), Op::Map(true), Op::Map(false), Op::Stream(true, true), Op::Stream(false, true), Op::Hash, Op::Stream(true, false), Op::Map(true)];
      if rng.chance(2) { ops.reverse(); }
      Case { trees: vec![t], script: ops.into_iter().map(|o| (0, o)).collect(), note: "C17".into() }
    }),
    oracle: Box::new(|c, outs| {
      let mut v = vec![];
      for ((i, op), o) in c.script.iter().zip(outs) { if let Out::Panic(m) = o { v.push(finding("no-panic", format!("A{i}.{:?} panicked: {}", op, trunc(&m, 200)))); break } }
      v
    }),
    project: Box::new(|_, outs| outs.iter().map(|o| if o.is_panic() { "trap".to_string() } else { "ok".to_string() }).collect()),
    nontrivial: Box::new(|c, _| c.trees[0].has(&|x| matches!(x, T::Sms { .. }))),
    stats: Box::new(|c, outs, d| {
      let mut k = BTreeMap::new(); c.trees[0].kinds(&mut k); for (n, v) in k { *d.entry(format!("node:{n}")).or_default() += v; }
      if outs.iter().any(|o| o.is_panic()) { *d.entry("impl-panic".into()).or_default() += 1; }
      if crate::refmodel::ref_src(&c.trees[0]).iter().any(|b| *b >= 128) { *d.entry("non-ascii-text".into()).or_default() += 1; }
    }),
    known: Box::new(|c, f, _| {
      // K4: char-vs-byte column units: a ReplaceSource/ConcatSource over a map-driven stream of non-ASCII text computes a negative column, which wraps
      // and overflows the column addition (debug builds only)
      let non_ascii = crate::refmodel::ref_src(&c.trees[0]).iter().any(|b| *b >= 128);
      let map_driven = c.trees[0].has(&|x| matches!(x, T::Sms { .. } | T::Cached(..)));
      if non_ascii && map_driven && f.detail.contains("overflow") { Some("K4".into()) } else { None }
    }),
    corpus: vec![],
  }
}

#[derive(Clone, Debug, Hash)]
pub enum RawCase { Dec(Vec<u8>), Json(Vec<u8>) }

impl SimpleCase for RawCase {
  fn reqs(&self) -> Vec<String> { match self { RawCase::Dec(s) => vec![format!("dec {}", hx(s))], RawCase::Json(_) => vec![] } }
  fn run_impl(&self) -> Vec<String> {
    match self {
      RawCase::Dec(s) => { let st = String::from_utf8_lossy(s).to_string(); vec![match catch(|| crate::attr::decode(&st)) { Ok(ms) => { let mut x = ms.len().to_string(); for m in &ms { x.push(' '); x.push_str(&m.proto()); } x } Err(m) => format!("panic {}", panic_kind(&m)) }] }
      RawCase::Json(_) => vec![],
    }
  }
  fn oracle(&self, outs: &[String]) -> Vec<Finding> {
    match self {
      RawCase::Dec(s) => if outs[0].starts_with("panic") { vec![finding("decoder-no-panic", format!("decode_mappings({:?}) panicked: {}", String::from_utf8_lossy(s), outs[0]))] } else { vec![] },
      RawCase::Json(b) => {
        // evaluated directly (no model): parsers return Ok or Err, the three entry points agree
        let r = catch(|| { let a = std::str::from_utf8(b).ok().map(|s| SourceMap::from_json(s).is_ok()); let c = SourceMap::from_slice(b).is_ok(); let d = SourceMap::from_reader(&b[..]).is_ok(); (a, c, d) });
        match r { Ok((a, c, d)) => if a.map_or(false, |a| a != c) || c != d { vec![finding("parsers-agree", format!("from_json/from_slice/from_reader disagree on {:?}: {:?} {c} {d}", String::from_utf8_lossy(b), a))] } else { vec![] },
          Err(m) => vec![finding("parser-no-panic", format!("parsing {:?} panicked: {m}", String::from_utf8_lossy(b)))] }
      }
    }
  }
  fn project(&self, outs: &[String]) -> Vec<String> { outs.to_vec() }
  fn nontrivial(&self) -> bool { match self { RawCase::Dec(s) => s.len() >= 3, RawCase::Json(b) => b.len() >= 3 } }
  fn stats(&self, _o: &[String], d: &mut BTreeMap<String, u64>) { match self { RawCase::Dec(s) => { *d.entry("decoder-string".into()).or_default() += 1; if s.windows(13).any(|w| w.iter().all(|b| b"ghijklmnopqrstuvwxyz0123456789+/".contains(b))) { *d.entry("decoder:>=13-continuation-digits".into()).or_default() += 1; } } RawCase::Json(b) => { *d.entry("json-bytes".into()).or_default() += 1; if SourceMap::from_slice(b).is_ok() { *d.entry("json:accepted".into()).or_default() += 1; } } } }
  fn shrink(&self) -> Vec<Self> { match self { RawCase::Dec(s) => (0..s.len()).map(|i| { let mut x = s.clone(); x.remove(i); RawCase::Dec(x) }).collect(), RawCase::Json(s) => (0..s.len()).map(|i| { let mut x = s.clone(); x.remove(i); RawCase::Json(x) }).collect() } }
}

pub fn gen_raw(rng: &mut Rng, _thorough: bool) -> RawCase {
  if rng.chance(2) {
    // junk over base64 + separators + arbitrary bytes, long continuation runs, huge deltas
    let n = rng.below(40); let mut s = vec![];
    while s.len() < n {
      match rng.below(8) {
        0 => { for _ in 0..rng.below(30) { s.push(*rng.pick(b"ghijklmnopqrstuvwxyz0123456789+/")); } s.push(*rng.pick(b"ABCDEFGHIJKLMNOPQRSTUVWXYZabcdef")); }
        1 => s.push(rng.below(256) as u8),
        2 => s.push(*rng.pick(b",;")),
        _ => s.push(*rng.pick(b"ABCDEFGHIJKLMNOPQRSTUVWXYZabcdefghijklmnopqrstuvwxyz0123456789+/")),
      }
    }
    RawCase::Dec(s)
  } else {
    // arbitrary bytes, and mutated valid documents
    if rng.chance(3) { let n = rng.below(30); return RawCase::Json((0..n).map(|_| rng.below(256) as u8).collect()) }
    let mut doc = format!("{{\"version\":3,\"mappings\":\"{}\",\"sources\":[\"a.js\",null],\"names\":[\"n\"],\"sourcesContent\":[\"x\\ny\\u00e9\",null],\"file\":\"f\",\"sourceRoot\":\"r\",\"debugId\":\"d\"}}", ["AAAA", "", ";;", "A,B"][rng.below(4)]).into_bytes();
    for _ in 0..rng.below(4) {
      if doc.is_empty() { break }
      let i = rng.below(doc.len());
      match rng.below(4) { 0 => { doc.remove(i); } 1 => doc.insert(i, rng.below(256) as u8), 2 => doc[i] = *rng.pick(b"{}[]\",:\\ntf0-9e.\x00\xff"), _ => { let j = rng.below(doc.len()); doc.truncate(j.max(1)); } }
    }
    RawCase::Json(doc)
  }
}
pub fn raw_corpus() -> Vec<RawCase> {
  vec![RawCase::Dec(b"ggggggggggggggA".to_vec()), RawCase::Dec(b"AADA".to_vec()), RawCase::Dec(b"hhhhhhhhhhhhhhhhhhhhhhhhhB,+/+/+/+/+/+/+/+/+/+/+/+/+/+/C".to_vec()), RawCase::Json(b"{}".to_vec()), RawCase::Json(b"{\"mappings\":1}".to_vec())]
}

// ---------------------------------------------------------------- C19
pub fn c19_tree() -> TreeProp {
  TreeProp {
    id: "C19",
    gen: Box::new(|rng, thorough| {
      let cfg = GenCfg { map_w: (3, 5, 1), ..GenCfg::wild(if thorough { 4 } else { 3 }) };
      let t = TreeGen::new().tree(rng, &cfg, cfg.depth, false);
      let ops = vec![Op::StreamKeep(true, false), Op::StreamKeep(false, false), Op::Map(true), Op::Map(false), Op::StreamKeep(true, true), Op::StreamKeep(false, true), Op::Rope, Op::Src, Op::StreamKeep(true, false), Op::Hash];
      Case { trees: vec![t], script: ops.into_iter().map(|o| (0, o)).collect(), note: "C19".into() }
    }),
    oracle: Box::new(|c, outs| {
      let mut v = vec![];
      for ((i, op), o) in c.script.iter().zip(outs) { if let Out::Panic(m) = o { if m.contains("unsafe precondition") { v.push(finding("unsafe-precondition", format!("A{i}.{:?}: {}", op, trunc(&m, 200)))); break } } }
      v
    }),
    // which operations violate an unsafe precondition: the model predicts none for trees
    project: Box::new(|_, outs| outs.iter().map(|o| match o { Out::Panic(m) if m.contains("unsafe precondition") => "unsafe".to_string(), _ => "-".to_string() }).collect()),
    nontrivial: Box::new(|c, _| c.trees[0].has(&|x| matches!(x, T::Sms { .. } | T::Replace(..) | T::Cached(..)))),
    stats: Box::new(|c, _, d| { let mut k = BTreeMap::new(); c.trees[0].kinds(&mut k); for (n, v) in k { *d.entry(format!("node:{n}")).or_default() += v; } }),
    known: Box::new(|_, _, _| None),
    corpus: vec![],
  }
}
