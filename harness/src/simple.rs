//! Runner for properties whose cases are not source trees (codec, rope, json, ...).
//! The implementation side prints its observation in the same textual form as the driver.
#![allow(dead_code)]
use crate::core::*;
use crate::runner::{Finding, RunCfg};
use serde_json::json;
use std::collections::{BTreeMap, HashSet};
use std::hash::{Hash, Hasher};

pub trait SimpleCase: Clone + Hash + std::fmt::Debug + Send + Sync {
  /// protocol request lines for the model
  fn reqs(&self) -> Vec<String>;
  /// the implementation's answers, one per request, in the driver's output format
  fn run_impl(&self) -> Vec<String>;
  /// the property evaluated on an observation (implementation or model)
  fn oracle(&self, outs: &[String]) -> Vec<Finding>;
  /// projection compared between implementation and model (default: everything)
  fn project(&self, outs: &[String]) -> Vec<String> { outs.to_vec() }
  fn nontrivial(&self) -> bool;
  fn stats(&self, _outs: &[String], _d: &mut BTreeMap<String, u64>) {}
  fn shrink(&self) -> Vec<Self> { vec![] }
  fn known(&self, _f: &Finding) -> Option<String> { None }
  fn describe(&self) -> serde_json::Value { json!({ "requests": self.reqs(), "debug": format!("{:?}", self) }) }
}

#[derive(Default)]
pub struct SimpleResult {
  pub cases: u64, pub nontrivial: HashSet<u64>, pub samples: Vec<serde_json::Value>, pub dist: BTreeMap<String, u64>,
  pub failures: Vec<serde_json::Value>, pub impl_panics: u64, pub oracle_failures: u64, pub corr_failures: u64, pub model_oracle_failures: u64, pub driver_lines: u64,
  pub known_counts: BTreeMap<String, u64>, pub unknown_oracle_failures: u64,
}

fn h<C: Hash>(c: &C) -> u64 { let mut s = std::collections::hash_map::DefaultHasher::new(); c.hash(&mut s); s.finish() }

fn shrink_with<C: SimpleCase>(c: &C, pred: &mut dyn FnMut(&C) -> bool) -> C {
  let mut cur = c.clone(); let mut budget = 300;
  loop {
    let mut improved = false;
    for s in cur.shrink() { if budget == 0 { break } budget -= 1; if pred(&s) { cur = s; improved = true; break; } }
    if !improved || budget == 0 { return cur }
  }
}

fn worker<C: SimpleCase>(gen: &(dyn Fn(&mut Rng, bool) -> C + Sync), cfg: &RunCfg, w: usize, n: u64, corpus: &[C]) -> SimpleResult {
  let mut rng = Rng::new(cfg.seed.wrapping_add(0x1000 * w as u64 + 29));
  let mut d = Driver::spawn(&cfg.driver);
  let mut r = SimpleResult::default();
  let mut shrunk: HashSet<String> = HashSet::new();
  for k in 0..(corpus.len() as u64 + n) {
    let case = if (k as usize) < corpus.len() { corpus[k as usize].clone() } else { gen(&mut rng, cfg.thorough) };
    inflight(|| case.describe());
    let oi = case.run_impl();
    let om = d.ask(&case.reqs());
    r.cases += 1;
    if oi.iter().any(|o| o.starts_with("panic")) { r.impl_panics += 1; }
    case.stats(&oi, &mut r.dist);
    if case.nontrivial() { r.nontrivial.insert(h(&case)); if r.samples.len() < 3 { r.samples.push(case.describe()); } }
    if om.iter().any(|o| o == "bad-op") {
      r.failures.push(json!({ "kind": "broken", "clause": "driver", "detail": "bad-op", "known": null, "case": case.describe() }));
      continue;
    }
    let fi = case.oracle(&oi);
    for f in &fi {
      r.oracle_failures += 1;
      if let Some(k) = case.known(f) {
        *r.known_counts.entry(k.clone()).or_default() += 1;
        if r.failures.iter().filter(|x| x["known"] == k.as_str()).count() < 2 { r.failures.push(json!({ "kind": "oracle", "clause": f.clause, "detail": f.detail, "known": k, "case": case.describe() })); }
        continue;
      }
      r.unknown_oracle_failures += 1;
      let (c2, f2) = if shrunk.len() < cfg.max_shrink && shrunk.insert(format!("oracle:{}", f.clause)) {
        let clause = f.clause.clone();
        let c2 = shrink_with(&case, &mut |c| catch(|| c.oracle(&c.run_impl()).iter().any(|x| x.clause == clause && c.known(x).is_none())).unwrap_or(false));
        let f2 = c2.oracle(&c2.run_impl()).into_iter().find(|x| x.clause == clause && c2.known(x).is_none()).unwrap_or(f.clone());
        (c2, f2)
      } else { (case.clone(), f.clone()) };
      if r.failures.iter().filter(|x| x["kind"] == "oracle" && x["known"].is_null() && x["clause"] == f2.clause.as_str()).count() < 5 {
        r.failures.push(json!({ "kind": "oracle", "clause": f2.clause, "detail": f2.detail, "known": null, "case": c2.describe() }));
      }
    }
    if fi.is_empty() { for f in case.oracle(&om) {
      r.model_oracle_failures += 1;
      if r.failures.iter().filter(|x| x["kind"] == "model-oracle").count() < 3 { r.failures.push(json!({ "kind": "model-oracle", "clause": f.clause, "detail": f.detail, "known": null, "case": case.describe() })); }
    } }
    let known_case = !fi.is_empty() && fi.iter().all(|f| case.known(f).is_some());
    if !known_case && case.project(&oi) != case.project(&om) {
      r.corr_failures += 1;
      if shrunk.len() < cfg.max_shrink && shrunk.insert("corr".into()) {
        let c2 = shrink_with(&case, &mut |c| { let b = d.ask(&c.reqs()); !b.iter().any(|o| o == "bad-op") && c.project(&c.run_impl()) != c.project(&b) });
        let a = c2.project(&c2.run_impl()); let b = c2.project(&d.ask(&c2.reqs()));
        let idx = a.iter().zip(b.iter()).position(|(x, y)| x != y).unwrap_or(0);
        r.failures.push(json!({ "kind": "corr", "clause": "correspondence", "detail": format!("item {idx}: impl={:?} model={:?}", a.get(idx), b.get(idx)), "known": null, "case": c2.describe() }));
      } else if r.failures.iter().filter(|x| x["kind"] == "corr").count() < 3 {
        r.failures.push(json!({ "kind": "corr", "clause": "correspondence", "detail": "projection differs", "known": null, "case": case.describe() }));
      }
    }
  }
  r.driver_lines = d.lines;
  r
}

pub fn run_simple<C: SimpleCase>(id: &str, gen: &(dyn Fn(&mut Rng, bool) -> C + Sync), corpus: &[C], cfg: &RunCfg) -> serde_json::Value {
  let per = cfg.cases / cfg.threads as u64;
  let results: Vec<SimpleResult> = std::thread::scope(|s| {
    let hs: Vec<_> = (0..cfg.threads).map(|w| { let cp: &[C] = if w == 0 { corpus } else { &[] }; s.spawn(move || worker(gen, cfg, w, per, cp)) }).collect();
    hs.into_iter().map(|h| h.join().expect("worker")).collect()
  });
  let mut t = SimpleResult::default();
  for r in results {
    t.cases += r.cases; t.nontrivial.extend(r.nontrivial); for (k, v) in r.dist { *t.dist.entry(k).or_default() += v; }
    if t.samples.len() < 3 { t.samples.extend(r.samples.into_iter().take(3 - t.samples.len())); }
    t.failures.extend(r.failures); t.impl_panics += r.impl_panics; t.oracle_failures += r.oracle_failures; t.corr_failures += r.corr_failures;
    t.model_oracle_failures += r.model_oracle_failures; t.driver_lines += r.driver_lines;
    t.unknown_oracle_failures += r.unknown_oracle_failures; for (k, v) in r.known_counts { *t.known_counts.entry(k).or_default() += v; }
  }
  json!({ "property": id, "cases": t.cases, "distinct_nontrivial": t.nontrivial.len(), "samples": t.samples, "distribution": t.dist, "impl_panics": t.impl_panics,
    "oracle_failures": t.oracle_failures, "unknown_oracle_failures": t.unknown_oracle_failures, "known_counts": t.known_counts, "corr_failures": t.corr_failures, "model_oracle_failures": t.model_oracle_failures, "driver_lines": t.driver_lines, "failures": t.failures })
}
