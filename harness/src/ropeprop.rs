//! C16: Rope behaves exactly like the string it represents.
#![allow(dead_code)]
use crate::core::*;
use crate::runner::{finding, Finding};
use crate::simple::*;
use rspack_sources::Rope;
use std::collections::BTreeMap;
use std::result::Result;

pub const PIECES: &[&str] = &["", "a", "b", "ab", "\n", "a\n", "\nb", "é", "日", "😀", "a\n\n", "xé\n", "c", ""];

#[derive(Clone, Debug, Hash, PartialEq, Eq)]
pub enum RE { New, From(usize), Iter(Vec<usize>), Add(Box<RE>, usize), Append(Box<RE>, Box<RE>), Slice(Box<RE>, usize, usize), Line(Box<RE>, usize) }

impl RE {
  pub fn proto(&self) -> String {
    match self {
      RE::New => "new".into(),
      RE::From(p) => format!("from {}", hx(PIECES[*p].as_bytes())),
      RE::Iter(ps) => { let mut s = format!("iter {}", ps.len()); for p in ps { s.push(' '); s.push_str(&hx(PIECES[*p].as_bytes())); } s }
      RE::Add(e, p) => format!("add {} {}", e.proto(), hx(PIECES[*p].as_bytes())),
      RE::Append(a, b) => format!("append {} {}", a.proto(), b.proto()),
      RE::Slice(e, a, b) => format!("slice {} {a} {b}", e.proto()),
      RE::Line(e, k) => format!("line {} {k}", e.proto()),
    }
  }
  pub fn steps(&self) -> usize { match self { RE::Add(e, _) | RE::Slice(e, ..) | RE::Line(e, _) => 1 + e.steps(), RE::Append(a, b) => 1 + a.steps() + b.steps(), _ => 1 } }
  /// build the real rope; Err = the program panics / is out of domain
  pub fn build(&self) -> Result<Rope<'static>, String> {
    Ok(match self {
      RE::New => Rope::new(),
      RE::From(p) => Rope::from(PIECES[*p]),
      RE::Iter(ps) => ps.iter().map(|p| PIECES[*p]).collect::<Rope<'static>>(),
      // every second `add` / `append` happens while a clone of the receiver is alive (shared piece list: seed S119); the clone must
      // not change
      RE::Add(e, p) => { let mut r = e.build()?; let keep = if *p % 2 == 0 { Some((r.clone(), r.to_string())) } else { None }; r.add(PIECES[*p]);
        if let Some((k, t)) = keep { if k.to_string() != t || k.len() != t.len() { return Err("clone-changed-by-add".into()) } } r }
      RE::Append(a, b) => { let mut r = a.build()?; let keep = if a.steps() % 2 == 0 { Some((r.clone(), r.to_string())) } else { None }; r.append(b.build()?);
        if let Some((k, t)) = keep { if k.to_string() != t || k.len() != t.len() { return Err("clone-changed-by-append".into()) } } r }
      RE::Slice(e, a, b) => { let r = e.build()?; catch(|| r.get_byte_slice(*a..*b)).map_err(|m| panic_kind(&m).to_string())?.ok_or("slice".to_string())? }
      RE::Line(e, k) => { let r = e.build()?; let l = catch(|| r.lines().nth(*k)).map_err(|m| panic_kind(&m).to_string())?; l.ok_or("noline".to_string())? }
    })
  }
  /// the flat string the program denotes (independent of piece structure); None = out of domain
  pub fn flat(&self) -> Option<String> {
    Some(match self {
      RE::New => String::new(),
      RE::From(p) => PIECES[*p].to_string(),
      RE::Iter(ps) => ps.iter().map(|p| PIECES[*p]).collect(),
      RE::Add(e, p) => e.flat()? + PIECES[*p],
      RE::Append(a, b) => a.flat()? + &b.flat()?,
      RE::Slice(e, a, b) => { let s = e.flat()?; if a > b || *b > s.len() || !s.is_char_boundary(*a) || !s.is_char_boundary(*b) { return None } s[*a..*b].to_string() }
      RE::Line(e, k) => { let s = e.flat()?; flat_lines(&s).get(*k)?.clone() }
    })
  }
}
impl RE {
  /// a `from_iter` program over PIECES that renders to `s` when `s` can be tiled greedily by pieces (else `from_iter([])` appended with nothing: caller compares flat strings anyway)
  pub fn clone_with_text(&self, s: &str) -> RE {
    let mut out = vec![]; let mut rest = s;
    'outer: while !rest.is_empty() {
      for (i, p) in PIECES.iter().enumerate() { if !p.is_empty() && p.chars().count() == 1 && rest.starts_with(p) { out.push(i); rest = &rest[p.len()..]; continue 'outer; } }
      for (i, p) in PIECES.iter().enumerate() { if !p.is_empty() && rest.starts_with(p) { out.push(i); rest = &rest[p.len()..]; continue 'outer; } }
      break;
    }
    RE::Iter(out)
  }
}
pub fn flat_lines(s: &str) -> Vec<String> {
  let mut v: Vec<String> = s.split_inclusive('\n').map(|x| x.to_string()).collect();
  if s.is_empty() || s.ends_with('\n') { v.push(String::new()); }
  v
}
/// strings with the byte length of `s` that differ from it: each two-byte char replaced by "zz", each pair of ASCII chars by "é"
fn same_len_variants(s: &str) -> Vec<String> {
  let mut v = vec![];
  let cs: Vec<(usize, char)> = s.char_indices().collect();
  for (k, (i, c)) in cs.iter().enumerate() {
    if c.len_utf8() == 2 { let mut t = String::from(&s[..*i]); t.push_str("zz"); t.push_str(&s[*i + 2..]); if t != s { v.push(t); } }
    if c.len_utf8() == 1 && k + 1 < cs.len() && cs[k + 1].1.len_utf8() == 1 { let mut t = String::from(&s[..*i]); t.push('é'); t.push_str(&s[*i + 2..]); v.push(t); }
    if v.len() >= 6 { break }
  }
  v
}
fn b(x: bool) -> &'static str { if x { "1" } else { "0" } }

pub fn obs_impl(r: &Rope) -> String {
  let len = r.len();
  let text = r.to_string();
  let bytes: Vec<String> = (0..len + 2).map(|i| match catch(|| r.get_byte(i)) { Ok(Some(x)) => x.to_string(), Ok(None) => "-".into(), Err(_) => "!".into() }).collect();
  let ci: Vec<String> = r.char_indices().map(|(i, c)| format!("{i}:{}", c as u32)).collect();
  let lines: Vec<String> = r.lines().map(|l| hx(l.to_string().as_bytes())).collect();
  let slices: Vec<String> = (0..len + 2).map(|a| (0..len + 2).map(|e| match catch(|| r.get_byte_slice(a..e)) { Ok(Some(x)) => hx(x.to_string().as_bytes()), Ok(None) => "-".into(), Err(m) => if m.contains("unsafe precondition") { "U".into() } else { "!".into() } }).collect::<Vec<_>>().join(",")).collect();
  let eqstr = match catch(|| *r == text.as_str() && *r == *text.as_str()) { Ok(x) => b(x).to_string(), Err(_) => "panic".into() };
  // strings of the same byte length that differ from the text (a two-byte char where two one-byte chars were, and the other way
  // round), through both `PartialEq<&str>` and `PartialEq<str>` (seed S120): never equal, never a panic
  for alt in same_len_variants(&text) {
    match catch(|| (*r == alt.as_str()) || (*r == *alt.as_str())) { Ok(false) => {}, Ok(true) => return "eq-same-length-variant-true".into(), Err(_) => return "eq-same-length-variant-panic".into() }
  }
  if r.to_bytes().as_ref() != text.as_bytes() { return "to_bytes-differs".into() }
  // the other `RangeBounds` forms and the panicking accessors have to agree with the half-open form (C16 lists byte/get_byte and byte_slice)
  let sl = |x: Option<Rope>| x.map(|y| y.to_string());
  for a in 0..len + 2 {
    if catch(|| sl(r.get_byte_slice(a..))).ok() != catch(|| sl(r.get_byte_slice(a..len))).ok() { return format!("range-from-differs {a}") }
    if catch(|| sl(r.get_byte_slice(..a))).ok() != catch(|| sl(r.get_byte_slice(0..a))).ok() { return format!("range-to-differs {a}") }
    if catch(|| sl(r.get_byte_slice(..=a))).ok() != catch(|| sl(r.get_byte_slice(0..a + 1))).ok() { return format!("range-to-inclusive-differs {a}") }
    for e in a..len + 1 { if catch(|| sl(r.get_byte_slice(a..=e))).ok() != catch(|| sl(r.get_byte_slice(a..e + 1))).ok() { return format!("range-inclusive-differs {a} {e}") } }
    if a < len {
      if catch(|| r.byte(a)).ok() != catch(|| r.get_byte(a)).ok().flatten() { return format!("byte-differs {a}") }
      for e in a..len + 1 {
        if let Ok(Some(x)) = catch(|| r.get_byte_slice(a..e)) { if catch(|| r.byte_slice(a..e).to_string()).ok() != Some(x.to_string()) { return format!("byte_slice-differs {a} {e}") } }
      }
    }
  }
  if catch(|| sl(r.get_byte_slice(..))).ok() != Some(Some(text.clone())) { return "range-full-differs".into() }
  format!("len {len} empty {} text {} bytes {} ci {} lines {}{} endsnl {} endsa {} eqstr {eqstr} slices {}", b(r.is_empty()), hx(text.as_bytes()), bytes.join(" "), ci.join(","), lines.len(),
    lines.iter().map(|l| format!(" {l}")).collect::<String>(), b(r.ends_with('\n')), b(r.ends_with('a')), slices.join(" "))
}

#[derive(Clone, Debug, Hash)]
pub enum RopeCase { Obs(RE), Pair(RE, RE) }

impl SimpleCase for RopeCase {
  fn reqs(&self) -> Vec<String> { match self { RopeCase::Obs(e) => vec![format!("rope obs {}", e.proto())], RopeCase::Pair(a, c) => vec![format!("rope pair {} {}", a.proto(), c.proto())] } }
  fn run_impl(&self) -> Vec<String> {
    match self {
      RopeCase::Obs(e) => vec![match catch(|| e.build()) { Ok(Ok(r)) => catch(|| obs_impl(&r)).unwrap_or_else(|m| format!("panic observers {}", panic_kind(&m))), Ok(Err(m)) => format!("panic {}", if m == "unsafe-precondition" { "unsafe" } else if m == "noline" { "noline" } else { "slice" }), Err(m) => format!("panic {}", panic_kind(&m)) }],
      RopeCase::Pair(x, y) => vec![match (catch(|| x.build()), catch(|| y.build())) {
        (Ok(Ok(p)), Ok(Ok(q))) => {
          let f = |g: &dyn Fn() -> bool| match catch(|| g()) { Ok(v) => b(v).to_string(), Err(_) => "panic".to_string() };
          let qs = q.to_string();
          format!("eq {} sw {} ws {} eqs {}", f(&|| p == q), f(&|| p.starts_with(&q)), f(&|| q.starts_with(&p)), f(&|| p == qs.as_str()))
        }
        _ => "panic build".into() }],
    }
  }
  fn oracle(&self, outs: &[String]) -> Vec<Finding> {
    let mut v = vec![];
    let o = &outs[0];
    match self {
      RopeCase::Obs(e) => {
        let Some(flat) = e.flat() else { if !o.starts_with("panic") { v.push(finding("out-of-domain-accepted", format!("the program is out of domain (bad slice / missing line) but evaluated: {o}"))); } return v };
        if o.starts_with("panic") || o.contains('!') || o.contains(" U") || o.contains(",U") { v.push(finding("no-panic-in-domain", format!("in-domain program on {:?}: {}", flat, trunc(&o, 200)))); return v }
        // expected observation from the flat string
        let len = flat.len();
        let bytes: Vec<String> = (0..len + 2).map(|i| flat.as_bytes().get(i).map(|x| x.to_string()).unwrap_or("-".into())).collect();
        let ci: Vec<String> = flat.char_indices().map(|(i, c)| format!("{i}:{}", c as u32)).collect();
        let lines = flat_lines(&flat);
        let slices: Vec<String> = (0..len + 2).map(|a| (0..len + 2).map(|e| if a <= e && e <= len && flat.is_char_boundary(a) && flat.is_char_boundary(e) { hx(flat[a..e].as_bytes()) } else { "-".into() }).collect::<Vec<_>>().join(",")).collect();
        let want = format!("len {len} empty {} text {} bytes {} ci {} lines {}{} endsnl {} endsa {} eqstr 1 slices {}", b(flat.is_empty()), hx(flat.as_bytes()), bytes.join(" "), ci.join(","), lines.len(),
          lines.iter().map(|l| format!(" {}", hx(l.as_bytes()))).collect::<String>(), b(flat.ends_with('\n')), b(flat.ends_with('a')), slices.join(" "));
        if *o != want {
          let (a, w): (Vec<&str>, Vec<&str>) = (o.split(' ').collect(), want.split(' ').collect());
          let k = a.iter().zip(&w).position(|(x, y)| x != y).unwrap_or(a.len().min(w.len()));
          let field = w[..k.min(w.len())].iter().rev().find(|t| t.chars().all(|c| c.is_ascii_lowercase())).copied().unwrap_or("?");
          v.push(finding(&format!("flat-string:{field}"), format!("rope over {:?}: token {k} is {:?}, the flat string gives {:?}", flat, a.get(k), w.get(k))));
        }
      }
      RopeCase::Pair(x, y) => {
        let (Some(p), Some(q)) = (x.flat(), y.flat()) else { return v };
        let want = format!("eq {} sw {} ws {} eqs {}", b(p == q), b(p.starts_with(&q)), b(q.starts_with(&p)), b(p == q));
        if *o != want { v.push(finding("binary-observers", format!("{:?} vs {:?}: got {o}, flat strings give {want}", p, q))); }
      }
    }
    v
  }
  fn nontrivial(&self) -> bool {
    fn multi(e: &RE) -> bool { match e { RE::Iter(ps) => ps.len() > 1, RE::Add(..) | RE::Append(..) => true, RE::Slice(e, ..) | RE::Line(e, _) => multi(e), _ => false } }
    match self { RopeCase::Obs(e) => multi(e), RopeCase::Pair(a, c) => multi(a) || multi(c) }
  }
  fn stats(&self, outs: &[String], d: &mut BTreeMap<String, u64>) {
    fn walk(e: &RE, d: &mut BTreeMap<String, u64>) { let k = match e { RE::New => "new", RE::From(_) => "from", RE::Iter(_) => "from_iter", RE::Add(..) => "add", RE::Append(..) => "append", RE::Slice(..) => "byte_slice", RE::Line(..) => "lines" }; *d.entry(format!("op:{k}")).or_default() += 1;
      match e { RE::Add(x, _) | RE::Slice(x, ..) | RE::Line(x, _) => walk(x, d), RE::Append(a, c) => { walk(a, d); walk(c, d) } _ => {} } }
    match self { RopeCase::Obs(e) => { walk(e, d); *d.entry(if e.flat().is_some() { "in-domain".to_string() } else { "out-of-domain".to_string() }).or_default() += 1; } RopeCase::Pair(a, c) => { walk(a, d); walk(c, d); *d.entry("pair".into()).or_default() += 1; } }
    if outs[0].starts_with("panic") { *d.entry("impl-panic-or-rejected".into()).or_default() += 1; }
  }
  fn shrink(&self) -> Vec<Self> {
    fn sub(e: &RE) -> Vec<RE> { match e { RE::Add(x, p) => { let mut v = vec![(**x).clone()]; v.extend(sub(x).into_iter().map(|y| RE::Add(Box::new(y), *p))); v }
      RE::Append(a, c) => { let mut v = vec![(**a).clone(), (**c).clone()]; v.extend(sub(a).into_iter().map(|y| RE::Append(Box::new(y), c.clone()))); v.extend(sub(c).into_iter().map(|y| RE::Append(a.clone(), Box::new(y)))); v }
      RE::Slice(x, a, c) => { let mut v = vec![(**x).clone()]; v.extend(sub(x).into_iter().map(|y| RE::Slice(Box::new(y), *a, *c))); v }
      RE::Line(x, k) => { let mut v = vec![(**x).clone()]; v.extend(sub(x).into_iter().map(|y| RE::Line(Box::new(y), *k))); v }
      RE::Iter(ps) => (0..ps.len()).map(|i| { let mut q = ps.clone(); q.remove(i); RE::Iter(q) }).collect(), _ => vec![] } }
    match self { RopeCase::Obs(e) => sub(e).into_iter().map(RopeCase::Obs).collect(), RopeCase::Pair(a, c) => { let mut v: Vec<Self> = sub(a).into_iter().map(|x| RopeCase::Pair(x, c.clone())).collect(); v.extend(sub(c).into_iter().map(|y| RopeCase::Pair(a.clone(), y))); v } }
  }
}

pub fn gen_expr(rng: &mut Rng, steps: usize) -> RE {
  if steps <= 1 { return match rng.below(4) { 0 => RE::New, 1 | 2 => RE::From(rng.below(PIECES.len())), _ => RE::Iter((0..rng.below(4)).map(|_| rng.below(PIECES.len())).collect()) } }
  match rng.below(8) {
    0 | 1 => RE::Add(Box::new(gen_expr(rng, steps - 1)), rng.below(PIECES.len())),
    2 | 3 | 4 => { let k = 1 + rng.below(steps - 1); RE::Append(Box::new(gen_expr(rng, k)), Box::new(gen_expr(rng, steps - k))) }
    5 | 6 => { let e = gen_expr(rng, steps - 1); let len = e.flat().map(|s| s.len()).unwrap_or(4);
      // mostly valid ranges: char boundaries of the flat string
      let (a, c) = if let (Some(s), false) = (e.flat(), rng.chance(6)) { let bs: Vec<usize> = (0..=s.len()).filter(|i| s.is_char_boundary(*i)).collect(); let x = bs[rng.below(bs.len())]; let y = bs[rng.below(bs.len())]; (x.min(y), x.max(y)) } else { (rng.below(len + 2), rng.below(len + 3)) };
      RE::Slice(Box::new(e), a, c) }
    _ => { let e = gen_expr(rng, steps - 1); let n = e.flat().map(|s| flat_lines(&s).len()).unwrap_or(1); RE::Line(Box::new(e), if rng.chance(8) { n } else { rng.below(n.max(1)) }) }
  }
}
pub fn gen(rng: &mut Rng, thorough: bool) -> RopeCase {
  let max = if thorough { 9 } else { 6 };
  if rng.chance(3) {
    // pairs: often the same text chunked differently
    let a = { let k = 1 + rng.below(max); gen_expr(rng, k) };
    if rng.chance(4) {
      // prefixes cut out of a rope with empty pieces inside: the cut leaves leading / trailing empty pieces in the operand
      if let Some(s) = a.flat() {
        let pad = |e: RE, rng: &mut Rng| RE::Append(Box::new(e), Box::new(RE::Append(Box::new(RE::From(0)), Box::new(RE::From(1 + rng.below(PIECES.len() - 2))))));
        let padded = pad(a.clone(), rng);
        let bs: Vec<usize> = (0..=s.len()).filter(|i| s.is_char_boundary(*i)).collect();
        let k = if rng.chance(2) { s.len() } else { bs[rng.below(bs.len())] };
        let q = RE::Slice(Box::new(padded), 0, k);
        let p = match rng.below(3) { 0 => a.clone(), 1 => RE::Iter(vec![]).clone_with_text(&s), _ => RE::Append(Box::new(RE::Iter(vec![])), Box::new(a.clone())) };
        return if rng.chance(2) { RopeCase::Pair(p, q) } else { RopeCase::Pair(q, p) };
      }
    }
    let c = if rng.chance(2) { match a.flat() { Some(s) if !s.is_empty() => { let bs: Vec<usize> = (0..=s.len()).filter(|i| s.is_char_boundary(*i)).collect(); let k = bs[rng.below(bs.len())];
        // re-chunk through slicing the same rope
        RE::Append(Box::new(RE::Slice(Box::new(a.clone()), 0, k)), Box::new(RE::Slice(Box::new(a.clone()), k, s.len()))) } _ => { let k = 1 + rng.below(max); gen_expr(rng, k) } } } else { { let k = 1 + rng.below(max); gen_expr(rng, k) } };
    RopeCase::Pair(a, c)
  } else { RopeCase::Obs({ let k = 1 + rng.below(max); gen_expr(rng, k) }) }
}

pub fn corpus() -> Vec<RopeCase> {
  vec![
    // empty multi-piece rope (Rope::new().append(from_iter([]))) sliced
    RopeCase::Obs(RE::Slice(Box::new(RE::Append(Box::new(RE::New), Box::new(RE::Iter(vec![])))), 0, 0)),
    RopeCase::Obs(RE::Append(Box::new(RE::New), Box::new(RE::Iter(vec![])))),
    // Light.starts_with(Full) proper prefix
    RopeCase::Pair(RE::From(3), RE::Iter(vec![1])),
    // F14: Full.starts_with(Full whose last piece is empty): from_iter(["a"]) vs ("a" ++ ("" ++ "b")).byte_slice(0..1)
    RopeCase::Pair(RE::Iter(vec![1]), RE::Slice(Box::new(RE::Append(Box::new(RE::From(1)), Box::new(RE::Append(Box::new(RE::From(0)), Box::new(RE::From(2)))))), 0, 1)),
    // Full == Full with multi-byte pieces chunked differently
    RopeCase::Pair(RE::Iter(vec![7, 8]), RE::Append(Box::new(RE::Slice(Box::new(RE::Iter(vec![7, 8])), 0, 2)), Box::new(RE::Slice(Box::new(RE::Iter(vec![7, 8])), 2, 5)))),
  ]
}

/// exhaustive: every program of at most `steps` operations over the first `np` pieces (observed unary and in pairs with a fixed partner set)
pub fn exhaustive(steps: usize, np: usize, d: &mut Driver) -> (u64, Vec<Finding>) {
  fn all(steps: usize, np: usize) -> Vec<RE> {
    if steps == 1 { let mut v = vec![RE::New]; for p in 0..np { v.push(RE::From(p)); } v.push(RE::Iter(vec![])); for p in 0..np { for q in 0..np { v.push(RE::Iter(vec![p, q])); } } return v }
    let mut v = vec![];
    for e in all(steps - 1, np) {
      for p in 0..np { v.push(RE::Add(Box::new(e.clone()), p)); }
      if let Some(s) = e.flat() { for a in 0..=s.len() { for c in a..=s.len() { v.push(RE::Slice(Box::new(e.clone()), a, c)); } } for k in 0..flat_lines(&s).len() { v.push(RE::Line(Box::new(e.clone()), k)); } }
    }
    if steps == 2 { let base = all(1, np); for a in &base { for c in &base { v.push(RE::Append(Box::new(a.clone()), Box::new(c.clone()))); } } }
    v
  }
  let mut n = 0u64; let mut fails = vec![];
  let mut progs = vec![]; for s in 1..=steps { progs.extend(all(s, np)); }
  for chunk in progs.chunks(50) {
    let cases: Vec<RopeCase> = chunk.iter().map(|e| RopeCase::Obs(e.clone())).collect();
    let reqs: Vec<String> = cases.iter().flat_map(|c| c.reqs()).collect();
    let resp = d.ask(&reqs);
    for (c, m) in cases.iter().zip(resp) {
      let o = c.run_impl(); n += 1;
      for f in c.oracle(&o) { if fails.len() < 5 { fails.push(finding(&format!("exhaustive-{}", f.clause), format!("{:?}: {}", c, f.detail))); } }
      if o[0] != m && fails.len() < 5 { fails.push(finding("exhaustive-corr", format!("{:?}: impl {} model {}", c, trunc(&o[0], 120), trunc(&m, 120)))); }
    }
  }
  (n, fails)
}
