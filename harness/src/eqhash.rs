//! C14 (equality / hashing / cloning coherent and history independent) and C20 (hashes separate observably different sources).
#![allow(dead_code)]
use crate::attr::*;
use crate::core::*;
use crate::gen::*;
use crate::ops::*;
use crate::runner::*;
use std::collections::BTreeMap;

/// one edit of a listed kind somewhere in the tree; returns the edited tree and the kind
/// position of a byte that is invalid UTF-8 on its own whatever follows: a byte that can never occur (>= 0xF5), or a continuation byte
/// (0x80..=0xBF) at the start or after an ASCII byte — flipping its last bit gives another such byte and the same lossy decoding
fn invalid_at(b: &[u8]) -> Option<usize> {
  b.iter().enumerate().position(|(i, v)| *v >= 0xf5 || ((0x80..=0xbf).contains(v) && (i == 0 || b[i - 1] < 0x80)))
}

pub fn edit_tree(rng: &mut Rng, t: &T) -> Option<(T, &'static str)> {
  // descend with probability, else edit here
  match t {
    T::Concat(cs) if !cs.is_empty() && rng.chance(2) => {
      let i = rng.below(cs.len());
      let (e, k) = edit_tree(rng, &cs[i].1)?;
      let mut x = cs.clone(); x[i] = (cs[i].0 && matches!(e, T::Concat(_)), e); return Some((T::Concat(x), k))
    }
    T::Replace(i, rs) if rng.chance(2) => { let (e, k) = edit_tree(rng, i)?; if src_of(&e).len() != src_of(i).len() { return None } return Some((T::Replace(Box::new(e), rs.clone()), k)) }
    T::Cached(id, i) if rng.chance(2) => { let (e, k) = edit_tree(rng, i)?; return Some((T::Cached(*id + 500, Box::new(e)), k)) }
    _ => {}
  }
  let tweak = |s: &String, rng: &mut Rng| -> String { let mut x = s.clone(); if x.is_empty() || rng.chance(2) { x.push('q'); } else { x.pop(); x.push('Z'); } x };
  match t {
    // the same bytes through the other constructor (string-backed vs buffer-backed RawSource: `is_buffer()` differs)
    T::Raw(s) if rng.chance(4) => Some((T::RawB(s.clone().into_bytes()), "raw-variant")),
    T::Raw(s) => Some((T::Raw(tweak(s, rng)), "leaf-text")),
    T::RawStr(s) => Some((T::RawStr(tweak(s, rng)), "leaf-text")),
    // a different invalid byte in the same place: the lossy text stays the same, the buffer does not (seed S94)
    T::RawB(b) | T::RawBuf(b) if invalid_at(b).is_some() && rng.chance(2) => {
      let mut x = b.clone(); let i = invalid_at(b).unwrap();
      x[i] = if x[i] >= 0xf5 { if x[i] == 0xff { 0xfe } else { x[i] + 1 } } else { x[i] ^ 1 };
      Some((if matches!(t, T::RawB(_)) { T::RawB(x) } else { T::RawBuf(x) }, "leaf-invalid-byte"))
    }
    T::RawB(b) => { let mut x = b.clone(); x.push(b'q'); Some((T::RawB(x), "leaf-text")) }
    T::RawBuf(b) => { let mut x = b.clone(); x.push(b'q'); Some((T::RawBuf(x), "leaf-text")) }
    T::Orig(s, n) => if rng.chance(2) { Some((T::Orig(tweak(s, rng), n.clone()), "leaf-text")) } else { Some((T::Orig(s.clone(), tweak(n, rng)), "original-name")) },
    T::Sms { text, name, map, orig, inner, remove } => {
      let mk = |text: &String, map: &SMapT, orig: &Option<String>, inner: &Option<SMapT>, remove: bool| T::Sms { text: text.clone(), name: name.clone(), map: map.clone(), orig: orig.clone(), inner: inner.clone(), remove };
      let edit_map = |m: &SMapT, rng: &mut Rng| -> (SMapT, &'static str) {
        let mut x = m.clone();
        match rng.below(7) {
          0 => { x.mappings.push_str(";AAAA"); (x, "map-mappings") }
          1 => { x.sources.push("extra.js".into()); (x, "map-sources") }
          2 => { x.names.push("extra".into()); (x, "map-names") }
          3 => { x.contents.push("extra content".into()); (x, "map-contents") }
          4 => { x.file = Some(match &x.file { Some(f) => format!("{f}2"), None => "f".into() }); (x, "map-file") }
          5 => { x.root = Some(match &x.root { Some(f) => format!("{f}2"), None => "root".into() }); (x, "map-root") }
          _ => { x.debug_id = Some(match &x.debug_id { Some(f) => format!("{f}2"), None => "dbg".into() }); (x, "map-debugid") }
        }
      };
      if rng.chance(8) { return Some((T::Sms { text: text.clone(), name: tweak(name, rng), map: map.clone(), orig: orig.clone(), inner: inner.clone(), remove: *remove }, "sms-name")) }
      match rng.below(5) {
        0 => Some((mk(&tweak(text, rng), map, orig, inner, *remove), "leaf-text")),
        1 | 2 => { let (m2, k) = edit_map(map, rng); Some((mk(text, &m2, orig, inner, *remove), k)) }
        3 => match inner { Some(im) => { let (m2, _) = edit_map(im, rng); Some((mk(text, map, orig, &Some(m2), *remove), "inner-map")) } None => None },
        _ => match inner { Some(_) => if rng.chance(2) { Some((mk(text, map, &Some(match orig { Some(o) => format!("{o}x"), None => "x".into() }), inner, *remove), "original-source")) } else { Some((mk(text, map, orig, inner, !*remove), "remove-flag")) }, None => None },
      }
    }
    T::Concat(cs) => {
      let mut x = cs.clone();
      match rng.below(3) {
        0 => { x.insert(rng.below(cs.len() + 1), (false, T::Raw("new".into()))); Some((T::Concat(x), "child-added")) }
        1 if !cs.is_empty() => { let i = rng.below(cs.len()); if src_of(&cs[i].1).is_empty() && !matches!(cs[i].1, T::Orig(..) | T::Sms { .. }) { return None } x.remove(i); Some((T::Concat(x), "child-removed")) }
        _ => None,
      }
    }
    T::Replace(i, rs) => {
      let mut x = rs.clone();
      if rs.is_empty() || rng.chance(4) { x.push(ReplT { start: 0, end: 0, content: "ins".into(), name: None, enforce: 1 }); return Some((T::Replace(i.clone(), x), "replacement-added")) }
      // two replacements with the same (start, end, enforce) but different content: their insertion order decides source()
      if rng.chance(3) {
        for a in 0..rs.len() { for b in a + 1..rs.len() {
          if rs[a].start == rs[b].start && rs[a].end == rs[b].end && rs[a].enforce == rs[b].enforce && rs[a].content != rs[b].content { x.swap(a, b); return Some((T::Replace(i.clone(), x), "replacement-order-of-ties")) }
        } }
        // make a tie
        let mut y = rs[0].clone(); y.content.push('t'); x.insert(0, y);
        let mut z = x.clone(); z.swap(0, 1);
        return None.or(Some((T::Replace(i.clone(), z), "replacement-added")));
      }
      let k = rng.below(rs.len());
      let isrc = src_of(i);
      let ok = |p: u32| p as usize >= isrc.len() || isrc.is_char_boundary(p as usize);
      if !ok(rs[k].end + 1) || !ok(rs[k].start.saturating_sub(1)) { return None }
      match rng.below(5) {
        0 => { x[k].end += 1; Some((T::Replace(i.clone(), x), "replacement-range")) }
        1 => { x[k].content.push('w'); Some((T::Replace(i.clone(), x), "replacement-content")) }
        2 => { x[k].name = Some(match &x[k].name { Some(n) => format!("{n}x"), None => "nm".into() }); Some((T::Replace(i.clone(), x), "replacement-name")) }
        3 => { x[k].enforce = (x[k].enforce + 1) % 3; Some((T::Replace(i.clone(), x), "replacement-enforce")) }
        _ => { x[k].start = x[k].start.saturating_sub(1); if x[k].start == rs[k].start { return None } Some((T::Replace(i.clone(), x), "replacement-range")) }
      }
    }
    T::Cached(..) => None,
  }
}

fn observers(rng: &mut Rng, n: usize) -> Vec<Op> {
  let all = [Op::Src, Op::Map(true), Op::Map(false), Op::Stream(true, false), Op::Stream(false, false), Op::Hash, Op::Size, Op::Buffer, Op::Rope];
  (0..n).map(|_| all[rng.below(all.len())].clone()).collect()
}
fn s(b: &[u8]) -> String { String::from_utf8_lossy(b).to_string() }

fn stats(c: &Case, _o: &[Out], d: &mut BTreeMap<String, u64>) {
  let mut k = BTreeMap::new(); for t in &c.trees { t.kinds(&mut k); } for (n, v) in k { *d.entry(format!("node:{n}")).or_default() += v; }
  *d.entry(format!("case:{}", c.note)).or_default() += 1;
}

// ---------------------------------------------------------------- C14
fn stream_text(s: &SRes) -> Bytes { let mut v = vec![]; for e in &s.evs { if let Ev::Chunk(Some(t), _) = e { v.extend_from_slice(t); } } v }
/// do two answers of the same observer attribute every position identically (they may differ in representation)?
fn attribution_equal(src: &Bytes, op: &str, a: &Out, b: &Out) -> bool {
  match (a, b) {
    (Out::Map(x), Out::Map(y)) => {
      let f = |m: &Option<SMapT>| -> (Vec<Attr>, std::collections::BTreeMap<u32, (Bytes, u32)>) { match m { Some(m) => (attr_map(m, src).iter().map(no_content).collect(), attr_map_lines(m)), None => (vec![None; src.len()], Default::default()) } };
      if op.contains("true") { f(x).0 == f(y).0 } else { let e = end_pos(src); let nl = if e.1 == 0 { e.0 - 1 } else { e.0 }; let (mut p, mut q) = (f(x).1, f(y).1); p.retain(|l, _| *l <= nl); q.retain(|l, _| *l <= nl); p == q }
    }
    (Out::Stream(x), Out::Stream(y)) => (x.line, x.col) == (y.line, y.col) && stream_text(x) == stream_text(y) && if op.contains("true,") { attr_stream(x).iter().map(no_content).collect::<Vec<_>>() == attr_stream(y).iter().map(no_content).collect::<Vec<_>>() } else { attr_stream_lines(x) == attr_stream_lines(y) },
    _ => false,
  }
}
fn diff_clause(base: &str, src: &Bytes, op: &str, a: &Out, b: &Out) -> String { if attribution_equal(src, op, a, b) { format!("{base}-representation") } else { base.to_string() } }
fn c14_oracle(c: &Case, outs: &[Out]) -> Vec<Finding> {
  let mut v = vec![];
  for ((i, op), o) in c.script.iter().zip(outs) { if let Out::Panic(m) = o { v.push(finding("no-panic", format!("A{i}.{:?}: {m}", op))); } }
  if !v.is_empty() { return v }
  let equal_by_construction = c.note.starts_with("same");
  // every observer answer by (tree, op), in call order
  let mut answers: BTreeMap<(usize, String), Vec<&Out>> = BTreeMap::new();
  for ((i, op), o) in c.script.iter().zip(outs) { if !matches!(op, Op::Eq(_)) { answers.entry((*i, format!("{:?}", op))).or_default().push(o); } }
  // determinism / history independence: the same observer on an unchanged value answers the same each time
  let src: Bytes = c.script.iter().zip(outs).find_map(|((_, op), o)| if *op == Op::Src { o.text().cloned() } else { None }).unwrap_or_default();
  for ((i, op), outs) in &answers { if let Some(w) = outs.windows(2).find(|w| w[0] != w[1]) { v.push(finding(&diff_clause("same-answer-each-time", &src, op, w[0], w[1]), format!("A{i}.{op} gave different answers during one history"))); } }
  let eqs: Vec<bool> = c.script.iter().zip(outs).filter_map(|((_, op), o)| if let (Op::Eq(_), Out::Num(n)) = (op, o) { Some(*n == 1) } else { None }).collect();
  if eqs.windows(2).any(|w| w[0] != w[1]) { v.push(finding("eq-history-independent", format!("a == b changed during the history: {:?}", eqs))); }
  let eq = eqs.last().copied().unwrap_or(false);
  if equal_by_construction && !eqs.iter().all(|e| *e) { v.push(finding("same-constructor-equal", format!("sources built by the same constructor calls compare unequal ({:?})", eqs))); }
  if eq {
    for ((i, op), a) in &answers { if *i == 0 { if let Some(b) = answers.get(&(1, op.clone())) { if a.last() != b.last() {
      let clause = if op == "Hash" { "eq-implies-hash".to_string() } else { diff_clause("eq-implies-observers", &src, op, a.last().unwrap(), b.last().unwrap()) };
      v.push(finding(&clause, format!("a == b but {op} differs")));
    } } } }
  }
  for ((i, op), o) in c.script.iter().zip(outs) { if let (Op::CloneCheck, Out::Num(n)) = (op, o) { if *n != 15 { v.push(finding("clone", format!("A{i}: clone check bits {n:04b} (eq, hash, text views, maps)"))); } } }
  v
}

pub fn c14() -> TreeProp {
  TreeProp {
    id: "C14",
    gen: Box::new(|rng, thorough| {
      let cfg = GenCfg { binary: true, ..GenCfg::ascii(if thorough { 3 } else { 2 }) };
      let a = TreeGen::new().tree(rng, &cfg, cfg.depth, false);
      let (b, note) = if rng.chance(2) { (a.clone(), "same".to_string()) } else { match edit_tree(rng, &a) { Some((e, k)) => (e, format!("edit:{k}")), None => (a.clone(), "same".to_string()) } };
      // clones of a CachedSource share caches only inside one object graph: give b's cached nodes their own ids
      fn reid(t: &T) -> T { match t { T::Cached(id, i) => T::Cached(id + 10000, Box::new(reid(i))), T::Concat(cs) => T::Concat(cs.iter().map(|(ty, c)| (*ty, reid(c))).collect()), T::Replace(i, rs) => T::Replace(Box::new(reid(i)), rs.clone()), x => x.clone() } }
      let b = reid(&b);
      let mut script: Vec<(usize, Op)> = vec![(0, Op::Eq(1)), (0, Op::Hash), (1, Op::Hash)];
      let nobs = rng.below(5); for op in observers(rng, nobs) { script.push((0, op)); }           // history on one side only
      script.push((0, Op::Eq(1))); script.push((1, Op::Eq(0)));
      for op in [Op::Src, Op::Buffer, Op::Size, Op::Map(true), Op::Map(false), Op::Hash] { script.push((0, op.clone())); script.push((1, op)); }
      if rng.chance(2) { script.push((0, Op::CloneCheck)); }
      script.push((0, Op::Eq(1)));
      Case { trees: vec![a, b], script, note }
    }),
    oracle: Box::new(c14_oracle),
    project: Box::new(|c, outs| c.script.iter().zip(outs).map(|((_, op), o)| match (op, o) {
      (Op::Eq(_), Out::Num(n)) => format!("eq {n}"),
      (Op::Hash, Out::Calls(x)) => format!("calls {}", x.join(" ")),
      (Op::CloneCheck, Out::Num(n)) => format!("clone {n}"),
      _ => String::new() }).collect()),
    nontrivial: Box::new(|c, _| c.trees[0].depth() >= 2 || c.note.starts_with("edit")),
    stats: Box::new(stats),
    known: Box::new(|c, f, _| {
      // K3: a tree containing Cached(X) where X announces sources/names without a mapped chunk: first vs replayed answer differ in unused tables
      if f.clause.ends_with("-representation") && c.trees[0].has(&|x| matches!(x, T::Cached(..))) && (f.detail.contains("Map") || f.detail.contains("Stream")) { return Some("K3".into()) }
      // K4: non-ASCII text replayed from a cache: byte columns at fill time, char columns at replay time
      if f.clause.starts_with("same-answer-each-time") || f.clause.starts_with("eq-implies-observers") {
        let non_ascii = c.trees.iter().any(|t| crate::refmodel::ref_src(t).iter().any(|b| *b >= 128));
        if non_ascii && c.trees[0].has(&|x| matches!(x, T::Cached(..))) && (f.detail.contains("Map") || f.detail.contains("Stream")) { return Some("K4".into()) }
      }
      // K5: a CachedSource beneath a ReplaceSource replays coarser chunks than the call that filled it
      if f.clause == "same-answer-each-time" || f.clause == "eq-implies-observers" { return crate::treeprops::k5(c, f, &c14_oracle) }
      None
    }),
    corpus: vec![],
  }
}

// ---------------------------------------------------------------- C20
fn observably_different(a: &[&Out], b: &[&Out]) -> bool { a != b }

fn c20_oracle(c: &Case, outs: &[Out]) -> Vec<Finding> {
  let mut v = vec![];
  for ((i, op), o) in c.script.iter().zip(outs) { if let Out::Panic(m) = o { v.push(finding("no-panic", format!("A{i}.{:?}: {m}", op))); } }
  if !v.is_empty() { return v }
  let get = |ti: usize, op: &Op| c.script.iter().zip(outs).filter(|((i, o), _)| *i == ti && o == op).map(|(_, o)| o).last();
  let hashes: Vec<Option<&Out>> = (0..2).map(|i| get(i, &Op::Hash)).collect();
  let eq = matches!(get(0, &Op::Eq(1)), Some(Out::Num(1)));
  let obs_a: Vec<&Out> = [Op::Src, Op::Buffer, Op::Map(true), Op::Map(false)].iter().filter_map(|op| get(0, op)).collect();
  let obs_b: Vec<&Out> = [Op::Src, Op::Buffer, Op::Map(true), Op::Map(false)].iter().filter_map(|op| get(1, op)).collect();
  // edits that change no observer (the name of a SourceMapSource without inner map is deliberately not hashed; the same bytes through
  // the string or the buffer constructor of RawSource) need not change the hash
  let exempt = c.note.ends_with("sms-name") || c.note.ends_with("raw-variant");
  // (the quantifier of C20 excludes the name of a SourceMapSource even where it changes map(): with an inner map)
  // For the exempt kinds the two values differ in no observer by construction; where their observed answers still differ, that is the
  // cache-history dependence of map() (known finding K3, reported by C14), not a difference of the trees — it demands no other hash.
  // Likewise two independently generated trees that are the same tree up to cache ids.
  fn strip_ids(t: &T) -> T { match t { T::Cached(_, i) => T::Cached(0, Box::new(strip_ids(i))), T::Concat(cs) => T::Concat(cs.iter().map(|(b, x)| (*b, strip_ids(x))).collect()), T::Replace(i, rs) => T::Replace(Box::new(strip_ids(i)), rs.clone()), x => x.clone() } }
  let same_tree = c.trees.len() > 1 && strip_ids(&c.trees[0]) == strip_ids(&c.trees[1]);
  let must_differ = !exempt && !same_tree && (c.note.starts_with("edit") || obs_a != obs_b);
  if must_differ {
    if hashes[0] == hashes[1] { v.push(finding("hash-separates", format!("{}: the two trees feed the hasher identically ({})", c.note, if obs_a != obs_b { "source()/buffer()/map() differ" } else { "listed edit" }))); }
    if eq { v.push(finding("unequal", format!("{}: the two trees compare equal", c.note))); }
  }
  // history independence of the hash
  let all0: Vec<&Out> = c.script.iter().zip(outs).filter(|((i, o), _)| *i == 0 && *o == Op::Hash).map(|(_, o)| o).collect();
  if all0.windows(2).any(|w| w[0] != w[1]) { v.push(finding("hash-history-independent", "hash of one tree changed after observers were called".into())); }
  v
}

pub fn c20() -> TreeProp {
  TreeProp {
    id: "C20",
    gen: Box::new(|rng, thorough| {
      let cfg = GenCfg { binary: true, ..GenCfg::ascii(if thorough { 3 } else { 2 }) };
      let a = TreeGen::new().tree(rng, &cfg, cfg.depth, false);
      let (b, note) = if rng.chance(4) { (TreeGen { next_cached: 700 }.tree(rng, &cfg, cfg.depth, false), "independent".to_string()) }
        else { match edit_tree(rng, &a) { Some((e, k)) => (e, format!("edit:{k}")), None => (TreeGen { next_cached: 700 }.tree(rng, &cfg, cfg.depth, false), "independent".to_string()) } };
      let mut script: Vec<(usize, Op)> = vec![(0, Op::Hash)];
      let nobs = rng.below(4); for op in observers(rng, nobs) { script.push((0, op)); }
      for op in [Op::Hash, Op::Src, Op::Buffer, Op::Map(true), Op::Map(false)] { script.push((0, op.clone())); script.push((1, op)); }
      script.push((0, Op::Eq(1)));
      Case { trees: vec![a, b], script, note }
    }),
    oracle: Box::new(c20_oracle),
    project: Box::new(|c, outs| c.script.iter().zip(outs).map(|((_, op), o)| match (op, o) {
      (Op::Eq(_), Out::Num(n)) => format!("eq {n}"),
      (Op::Hash, Out::Calls(x)) => format!("calls {}", x.join(" ")),
      _ => String::new() }).collect()),
    nontrivial: Box::new(|c, _| c.note.starts_with("edit")),
    stats: Box::new(stats),
    known: Box::new(|_, _, _| None),
    corpus: vec![],
  }
}

/// hash values of `n` generated trees (for the cross-process reproducibility check)
pub fn hash_dump(seed: u64, n: usize) -> Vec<u64> {
  let mut rng = Rng::new(seed);
  let cfg = GenCfg { binary: true, ..GenCfg::ascii(2) };
  (0..n).map(|_| { let t = TreeGen::new().tree(&mut rng, &cfg, cfg.depth, false); let s = Ctx::default().build(&t); real_hash(s.as_ref()) }).collect()
}
