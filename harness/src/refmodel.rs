//! Independent reference functions used by oracles (written from the property statements).
#![allow(dead_code)]
use crate::core::*;

/// C05: apply replacements in order of (start, end, enforce, insertion order) with clamping.
pub fn apply_repls(inner: &[u8], rs: &[ReplT]) -> Vec<u8> {
  if rs.is_empty() { return inner.to_vec() }
  let mut idx: Vec<usize> = (0..rs.len()).collect();
  idx.sort_by_key(|i| (rs[*i].start, rs[*i].end, rs[*i].enforce, *i));
  let mut out = vec![];
  let mut pos = 0usize;
  for i in idx {
    let r = &rs[i];
    let start = (r.start as usize).min(inner.len());
    if pos < start { out.extend_from_slice(&inner[pos..start]); }
    out.extend_from_slice(r.content.as_bytes());
    pos = pos.max(r.end as usize).min(inner.len());
  }
  out.extend_from_slice(&inner[pos..]);
  out
}

/// provenance of every output byte of a replacement: inner offset or (replacement index, offset in content)
#[derive(Clone, Debug, PartialEq, Eq)]
pub enum Cell { Inner(usize), Repl(usize, usize) }
pub fn splice_cells(inner_len: usize, rs: &[ReplT]) -> Vec<Cell> {
  let mut idx: Vec<usize> = (0..rs.len()).collect();
  idx.sort_by_key(|i| (rs[*i].start, rs[*i].end, rs[*i].enforce, *i));
  let mut out = vec![]; let mut pos = 0usize;
  for i in idx {
    let r = &rs[i];
    let start = (r.start as usize).min(inner_len);
    if pos < start { for q in pos..start { out.push(Cell::Inner(q)); } }
    for j in 0..r.content.len() { out.push(Cell::Repl(i, j)); }
    pos = pos.max(r.end as usize).min(inner_len);
  }
  for q in pos..inner_len { out.push(Cell::Inner(q)); }
  out
}

pub fn ref_src(t: &T) -> Vec<u8> {
  match t {
    T::Raw(s) | T::RawStr(s) | T::Orig(s, _) => s.as_bytes().to_vec(),
    T::RawB(b) | T::RawBuf(b) => lossy(b).into_bytes(),
    T::Sms { text, .. } => text.as_bytes().to_vec(),
    T::Concat(cs) => cs.iter().flat_map(|c| ref_src(&c.1)).collect(),
    T::Replace(i, rs) => apply_repls(&ref_src(i), rs),
    T::Cached(_, i) => ref_src(i),
  }
}
pub fn ref_buf(t: &T) -> Vec<u8> {
  match t {
    T::RawB(b) | T::RawBuf(b) => b.clone(),
    T::Concat(cs) => cs.iter().flat_map(|c| ref_buf(&c.1)).collect(),
    T::Cached(_, i) => ref_buf(i),
    T::Replace(i, rs) => apply_repls(&ref_src(i), rs),
    t => ref_src(t),
  }
}
pub fn all_utf8_leaves(t: &T) -> bool { !t.has(&|x| matches!(x, T::RawB(b) | T::RawBuf(b) if std::str::from_utf8(b).is_err())) }
