//! Shared machinery: PRNG, case trees, building real sources, protocol encoding, driver process.
#![allow(dead_code)]
use rspack_sources::stream_chunks::*;
use rspack_sources::*;
use std::result::Result;
use std::collections::HashMap;
use std::io::{BufRead, BufReader, Write};
use std::process::{Child, ChildStdin, ChildStdout, Command, Stdio};

pub struct Rng(pub u64);
impl Rng {
  pub fn new(seed: u64) -> Self {
    let mut r = Rng(seed.wrapping_mul(0x9E3779B97F4A7C15) ^ 0xD1B54A32D192ED03);
    if r.0 == 0 { r.0 = 0x1234567 }
    for _ in 0..4 { r.next(); }
    r
  }
  pub fn next(&mut self) -> u64 { self.0 ^= self.0 << 13; self.0 ^= self.0 >> 7; self.0 ^= self.0 << 17; self.0 }
  pub fn below(&mut self, n: usize) -> usize { if n == 0 { 0 } else { (self.next() % n as u64) as usize } }
  pub fn chance(&mut self, n: usize) -> bool { self.below(n) == 0 }
  pub fn pick<'a, X>(&mut self, xs: &'a [X]) -> &'a X { &xs[self.below(xs.len())] }
}

pub type Bytes = Vec<u8>;

#[derive(Clone, Debug, PartialEq, Eq, Hash)]
pub struct SMapT {
  pub mappings: String,
  pub sources: Vec<String>,
  pub contents: Vec<String>,
  pub names: Vec<String>,
  pub file: Option<String>,
  pub root: Option<String>,
  pub debug_id: Option<String>,
}
impl SMapT {
  pub fn build(&self) -> SourceMap { self.used(self.build_plain()) }
  pub fn build_plain(&self) -> SourceMap {
    let mut m = SourceMap::new(self.mappings.clone(), self.sources.clone(), self.contents.clone(), self.names.clone());
    m.set_file(self.file.clone());
    m.set_source_root(self.root.clone());
    m.set_debug_id(self.debug_id.clone());
    m
  }
  /// Every third map value reaches its tables through a history instead of the constructor (seed S137): `m` (which already has this
  /// value's file / sourceRoot / debugId) is given other `sources` / `sourcesContent` / `names`, attached to a SourceMapSource, streamed in
  /// all four modes, handed back by `map()`, and only then given this value's tables through the setters — sourceRoot is not touched
  /// again.  Anything the crate memoises inside a SourceMap while streaming must not survive the setters.
  pub fn used(&self, m: SourceMap) -> SourceMap {
    if self.mappings.len() % 3 != 1 { return m }
    let fallback = m.clone();
    catch(|| {
      let mut d = m;
      let decoy: Vec<String> = self.sources.iter().map(|s| format!("old-{s}")).chain(["old-extra.js".to_string()]).collect();
      d.set_sources(decoy); d.set_sources_content(vec!["old content".to_string()]); d.set_names(vec!["oldname".to_string()]);
      let s = SourceMapSource::new(WithoutOriginalOptions { value: "ab;cd\nef\n", name: "used.js", source_map: d });
      for cols in [true, false] { for fin in [false, true] { let _ = run_stream(&s, cols, fin); } }
      let mut m = s.map(&MapOptions::default()).expect("a SourceMapSource without inner map returns its map");
      m.set_sources(self.sources.clone()); m.set_sources_content(self.contents.clone()); m.set_names(self.names.clone());
      m
    }).unwrap_or(fallback)
  }
  pub fn of(m: &SourceMap) -> SMapT {
    SMapT { mappings: m.mappings().to_string(), sources: m.sources().to_vec(), contents: m.sources_content().to_vec(), names: m.names().to_vec(),
      file: m.file().map(|s| s.to_string()), root: m.source_root().map(|s| s.to_string()), debug_id: m.get_debug_id().map(|s| s.to_string()) }
  }
  pub fn proto(&self) -> String {
    format!("{} {} {} {} {} {} {}", hx(self.mappings.as_bytes()), plist(&self.sources), plist(&self.contents), plist(&self.names),
      popt(&self.file), popt(&self.root), popt(&self.debug_id))
  }
}

#[derive(Clone, Debug, PartialEq, Eq, Hash)]
pub struct ReplT { pub start: u32, pub end: u32, pub content: String, pub name: Option<String>, pub enforce: u8 }

/// A case tree: exactly the constructor calls that build a source.
#[derive(Clone, Debug, PartialEq, Eq, Hash)]
pub enum T {
  Raw(String),
  RawB(Bytes),
  RawStr(String),
  RawBuf(Bytes),
  Orig(String, String),
  Sms { text: String, name: String, map: SMapT, orig: Option<String>, inner: Option<SMapT>, remove: bool },
  /// children with flag: true = handed over as typed ConcatSource (spliced), false = boxed / other
  Concat(Vec<(bool, T)>),
  Replace(Box<T>, Vec<ReplT>),
  Cached(u32, Box<T>),
}

pub fn hx(b: &[u8]) -> String {
  let mut s = String::with_capacity(1 + b.len() * 2);
  s.push('x');
  for x in b { s.push_str(&format!("{:02x}", x)); }
  s
}
pub fn unhx(s: &str) -> Option<Bytes> {
  let s = s.strip_prefix('x')?;
  if s.len() % 2 != 0 { return None }
  (0..s.len() / 2).map(|i| u8::from_str_radix(&s[2 * i..2 * i + 2], 16).ok()).collect()
}
pub fn plist(v: &[String]) -> String { let mut s = v.len().to_string(); for x in v { s.push(' '); s.push_str(&hx(x.as_bytes())); } s }
pub fn popt(v: &Option<String>) -> String { match v { None => "-".into(), Some(x) => format!("+ {}", hx(x.as_bytes())) } }
pub fn lossy(b: &[u8]) -> String { String::from_utf8_lossy(b).to_string() }

impl T {
  pub fn proto(&self) -> String {
    match self {
      T::Raw(s) => format!("raw {}", hx(s.as_bytes())),
      T::RawB(b) => format!("rawb {} {}", hx(b), hx(lossy(b).as_bytes())),
      T::RawStr(s) => format!("rawstr {}", hx(s.as_bytes())),
      T::RawBuf(b) => format!("rawbuf {} {}", hx(b), hx(lossy(b).as_bytes())),
      T::Orig(s, n) => format!("orig {} {}", hx(s.as_bytes()), hx(n.as_bytes())),
      T::Sms { text, name, map, orig, inner, remove } => format!("sms {} {} {} {} {} {}", hx(text.as_bytes()), hx(name.as_bytes()), map.proto(), popt(orig),
        match inner { None => "-".into(), Some(m) => format!("+ {}", m.proto()) }, if *remove { 1 } else { 0 }),
      T::Concat(cs) => { let mut s = format!("concat {}", cs.len()); for (typed, c) in cs { s.push_str(if *typed { " t " } else { " b " }); s.push_str(&c.proto()); } s }
      T::Replace(i, rs) => { let mut s = format!("replace {} {}", i.proto(), rs.len()); for r in rs { s.push_str(&format!(" {} {} {} {} {}", r.start, r.end, hx(r.content.as_bytes()), popt(&r.name), r.enforce)); } s }
      T::Cached(id, i) => format!("cached {} {}", id, i.proto()),
    }
  }
  pub fn depth(&self) -> usize { match self { T::Concat(cs) => 1 + cs.iter().map(|c| c.1.depth()).max().unwrap_or(0), T::Replace(i, _) | T::Cached(_, i) => 1 + i.depth(), _ => 0 } }
  pub fn nodes(&self) -> usize { match self { T::Concat(cs) => 1 + cs.iter().map(|c| c.1.nodes()).sum::<usize>(), T::Replace(i, _) | T::Cached(_, i) => 1 + i.nodes(), _ => 1 } }
  pub fn kinds(&self, out: &mut std::collections::BTreeMap<&'static str, u64>) {
    let k = match self { T::Raw(_) => "raw", T::RawB(_) => "rawb", T::RawStr(_) => "rawstr", T::RawBuf(_) => "rawbuf", T::Orig(..) => "orig",
      T::Sms { inner: None, .. } => "sms", T::Sms { .. } => "sms-combined", T::Concat(_) => "concat", T::Replace(..) => "replace", T::Cached(..) => "cached" };
    *out.entry(k).or_default() += 1;
    match self { T::Concat(cs) => for c in cs { c.1.kinds(out) }, T::Replace(i, _) | T::Cached(_, i) => i.kinds(out), _ => {} }
  }
  pub fn has(&self, f: &dyn Fn(&T) -> bool) -> bool {
    if f(self) { return true }
    match self { T::Concat(cs) => cs.iter().any(|c| c.1.has(f)), T::Replace(i, _) | T::Cached(_, i) => i.has(f), _ => false }
  }
}

pub fn enforce_of(e: u8) -> ReplacementEnforce { match e { 0 => ReplacementEnforce::Pre, 1 => ReplacementEnforce::Normal, _ => ReplacementEnforce::Post } }

/// Builds real sources; CachedSource nodes with the same id share their caches (clones).
#[derive(Default)]
pub struct Ctx {
  pub cached: HashMap<u32, CachedSource<BoxSource>>,
  /// SourceMaps with the same mappings / sources / sourcesContent / names are built as clones of one base value (plus setters for
  /// file, sourceRoot and debugId), as a program deriving one map from another would: they share their allocations
  pub maps: Vec<(SMapT, SourceMap)>,
  /// call observers (source, size) between the replace calls of every ReplaceSource that is built: the same value reached through
  /// another history
  pub observed: bool,
}
impl Ctx {
  pub fn build_map(&mut self, m: &SMapT) -> SourceMap {
    let key = SMapT { file: None, root: None, debug_id: None, ..m.clone() };
    let base = match self.maps.iter().find(|(k, _)| *k == key) { Some((_, b)) => b.clone(), None => { let b = key.build(); self.maps.push((key, b.clone())); b } };
    let mut x = base;
    if m.file.is_some() { x.set_file(m.file.clone()); }
    if m.root.is_some() { x.set_source_root(m.root.clone()); }
    if m.debug_id.is_some() { x.set_debug_id(m.debug_id.clone()); }
    m.used(x)
  }
  pub fn build(&mut self, t: &T) -> BoxSource {
    match t {
      T::Raw(s) => RawSource::from(s.clone()).boxed(),
      T::RawB(b) => RawSource::from(b.clone()).boxed(),
      T::RawStr(s) => RawStringSource::from(s.clone()).boxed(),
      T::RawBuf(b) => RawBufferSource::from(b.clone()).boxed(),
      T::Orig(s, n) => OriginalSource::new(s.clone(), n.clone()).boxed(),
      T::Sms { text, name, map, orig, inner, remove } => SourceMapSource::new(SourceMapSourceOptions {
        value: text.clone(), name: name.clone(), source_map: self.build_map(map), original_source: orig.clone(),
        inner_source_map: inner.as_ref().map(|m| self.build_map(m)), remove_original_source: *remove }).boxed(),
      T::Concat(_) => self.build_concat(t).boxed(),
      T::Replace(i, rs) => {
        let mut r = ReplaceSource::new(self.build(i));
        for x in rs { r.replace_with_enforce(x.start, x.end, &x.content, x.name.as_deref(), enforce_of(x.enforce)); if self.observed { let _ = r.source(); let _ = r.size(); } }
        r.boxed()
      }
      T::Cached(id, i) => {
        if let Some(c) = self.cached.get(id) { return c.clone().boxed() }
        let c = CachedSource::new(self.build(i));
        self.cached.insert(*id, c.clone());
        c.boxed()
      }
    }
  }
  pub fn build_concat(&mut self, t: &T) -> ConcatSource {
    let T::Concat(cs) = t else { panic!("not a concat") };
    // alternate between `new` with all items and `default` + `add`, deterministically from the shape
    let all_typed = !cs.is_empty() && cs.iter().all(|(typed, child)| *typed && matches!(child, T::Concat(_)));
    let none_typed = cs.iter().all(|(typed, child)| !(*typed && matches!(child, T::Concat(_))));
    let use_new = t.nodes() % 2 == 0;
    if use_new && all_typed {
      let items: Vec<ConcatSource> = cs.iter().map(|(_, child)| self.build_concat(child)).collect();
      return ConcatSource::new(items);
    }
    // (`new` over boxed items boxes each item once more, exactly like `add(x.boxed())`; a leaf that the `add` path hands over as its own
    // type must therefore not go through `new`, or two equal-by-construction trees of different node counts would be built by different
    // constructor calls and compare unequal — a false alarm of C20's thorough tier in round 14)
    let typed_leaf = |child: &T| matches!(child, T::Raw(_) | T::RawB(_) | T::RawStr(_) | T::RawBuf(_) | T::Orig(..)) && crate::refmodel::ref_buf(child).len() % 2 == 0;
    if use_new && none_typed && !cs.iter().any(|(_, child)| typed_leaf(child)) {
      let items: Vec<BoxSource> = cs.iter().map(|(_, child)| self.build(child)).collect();
      return ConcatSource::new(items);
    }
    let mut c = ConcatSource::default();
    for (typed, child) in cs {
      if *typed && matches!(child, T::Concat(_)) { c.add(self.build_concat(child)); }
      // leaves of even length are handed to `add` as their own types, not boxed (`add` is generic and may treat a typed RawSource /
      // OriginalSource specially: seed S117).  The choice depends on the child alone: `add(x)` and `add(x.boxed())` give values
      // that behave alike but compare unequal (the second is boxed twice), and the model does not distinguish them.
      else if crate::refmodel::ref_buf(child).len() % 2 == 0 { match child {
        T::Raw(s) => c.add(RawSource::from(s.clone())), T::RawB(b) => c.add(RawSource::from(b.clone())), T::RawStr(s) => c.add(RawStringSource::from(s.clone())),
        T::RawBuf(b) => c.add(RawBufferSource::from(b.clone())), T::Orig(s, n) => c.add(OriginalSource::new(s.clone(), n.clone())), _ => c.add(self.build(child)) } }
      else { c.add(self.build(child)); }
      if self.observed { let _ = c.source(); let _ = c.size(); }
    }
    c
  }
}

#[derive(Clone, Debug, PartialEq, Eq, Hash)]
pub struct OrigT { pub src: u32, pub line: u32, pub col: u32, pub name: Option<u32> }
#[derive(Clone, Debug, PartialEq, Eq, Hash)]
pub struct MapT { pub gl: u32, pub gc: u32, pub orig: Option<OrigT> }
impl MapT {
  pub fn of(m: &Mapping) -> MapT { MapT { gl: m.generated_line, gc: m.generated_column, orig: m.original.as_ref().map(|o| OrigT { src: o.source_index, line: o.original_line, col: o.original_column, name: o.name_index }) } }
  pub fn to(&self) -> Mapping { Mapping { generated_line: self.gl, generated_column: self.gc, original: self.orig.as_ref().map(|o| OriginalLocation { source_index: o.src, original_line: o.line, original_column: o.col, name_index: o.name }) } }
  pub fn proto(&self) -> String { match &self.orig { None => format!("{} {} -", self.gl, self.gc), Some(o) => format!("{} {} + {} {} {} {}", self.gl, self.gc, o.src, o.line, o.col, match o.name { None => "-".to_string(), Some(n) => format!("+ {}", n) }) } }
}

#[derive(Clone, Debug, PartialEq, Eq, Hash)]
pub enum Ev { Chunk(Option<Bytes>, MapT), Source(u32, Bytes, Option<Bytes>), Name(u32, Bytes) }
#[derive(Clone, Debug, PartialEq, Eq, Hash)]
pub struct SRes { pub line: u32, pub col: u32, pub evs: Vec<Ev> }

pub fn run_stream(s: &dyn Source, columns: bool, fin: bool) -> SRes {
  let evs = std::cell::RefCell::new(Vec::new());
  let info = s.stream_chunks(
    &verif::map_options(columns, fin),
    &mut |c, m| evs.borrow_mut().push(Ev::Chunk(c.map(|c| c.to_bytes().to_vec()), MapT::of(&m))),
    &mut |i, s, c| evs.borrow_mut().push(Ev::Source(i, s.as_bytes().to_vec(), c.map(|c| c.to_bytes().to_vec()))),
    &mut |i, n| evs.borrow_mut().push(Ev::Name(i, n.as_bytes().to_vec())),
  );
  SRes { line: info.generated_line, col: info.generated_column, evs: evs.into_inner() }
}

/// token cursor over a response line
pub struct Toks<'a> { it: std::str::SplitAsciiWhitespace<'a> }
impl<'a> Toks<'a> {
  pub fn new(s: &'a str) -> Self { Toks { it: s.split_ascii_whitespace() } }
  pub fn tok(&mut self) -> Result<&'a str, String> { self.it.next().ok_or_else(|| "unexpected end".to_string()) }
  pub fn num(&mut self) -> Result<u64, String> { let t = self.tok()?; t.parse::<u64>().map_err(|_| format!("bad number {t}")) }
  pub fn u32(&mut self) -> Result<u32, String> { Ok(self.num()? as u32) }
  pub fn bytes(&mut self) -> Result<Bytes, String> { let t = self.tok()?; unhx(t).ok_or_else(|| format!("bad hex {t}")) }
  pub fn string(&mut self) -> Result<String, String> { String::from_utf8(self.bytes()?).map_err(|_| "bad utf8".to_string()) }
  pub fn opt<X>(&mut self, f: impl FnOnce(&mut Self) -> Result<X, String>) -> Result<Option<X>, String> {
    match self.tok()? { "-" => Ok(None), "+" => Ok(Some(f(self)?)), t => Err(format!("bad option tag {t}")) }
  }
  pub fn list<X>(&mut self, mut f: impl FnMut(&mut Self) -> Result<X, String>) -> Result<Vec<X>, String> {
    let n = self.num()?; let mut v = Vec::new(); for _ in 0..n { v.push(f(self)?); } Ok(v)
  }
  pub fn mapping(&mut self) -> Result<MapT, String> {
    let gl = self.u32()?; let gc = self.u32()?;
    let orig = self.opt(|t| { let src = t.u32()?; let line = t.u32()?; let col = t.u32()?; let name = t.opt(|t| t.u32())?; Ok(OrigT { src, line, col, name }) })?;
    Ok(MapT { gl, gc, orig })
  }
  pub fn ev(&mut self) -> Result<Ev, String> {
    match self.tok()? {
      "c" => { let t = self.opt(|t| t.bytes())?; let m = self.mapping()?; Ok(Ev::Chunk(t, m)) }
      "s" => { let i = self.u32()?; let n = self.bytes()?; let c = self.opt(|t| t.bytes())?; Ok(Ev::Source(i, n, c)) }
      "n" => { let i = self.u32()?; let n = self.bytes()?; Ok(Ev::Name(i, n)) }
      t => Err(format!("bad event tag {t}")),
    }
  }
  pub fn sres(&mut self) -> Result<SRes, String> { let line = self.u32()?; let col = self.u32()?; let evs = self.list(|t| t.ev())?; Ok(SRes { line, col, evs }) }
  pub fn smap(&mut self) -> Result<SMapT, String> {
    let mappings = self.string()?; let sources = self.list(|t| t.string())?; let contents = self.list(|t| t.string())?; let names = self.list(|t| t.string())?;
    let file = self.opt(|t| t.string())?; let root = self.opt(|t| t.string())?; let debug_id = self.opt(|t| t.string())?;
    Ok(SMapT { mappings, sources, contents, names, file, root, debug_id })
  }
}

pub struct Driver { child: Child, stdin: ChildStdin, stdout: BufReader<ChildStdout>, pub lines: u64 }
impl Driver {
  pub fn spawn(path: &str) -> Driver {
    let mut child = Command::new(path).stdin(Stdio::piped()).stdout(Stdio::piped()).spawn().expect("cannot start rsdriver");
    let stdin = child.stdin.take().unwrap();
    let stdout = BufReader::new(child.stdout.take().unwrap());
    Driver { child, stdin, stdout, lines: 0 }
  }
  /// send request lines, read one response line per request
  pub fn ask(&mut self, reqs: &[String]) -> Vec<String> {
    let mut buf = String::new();
    for r in reqs { buf.push_str(r); buf.push('\n'); }
    let n = reqs.len();
    // requests can be long; write from this thread in pieces while responses are small enough for the pipe buffer
    self.stdin.write_all(buf.as_bytes()).expect("driver write");
    self.stdin.flush().expect("driver flush");
    let mut out = Vec::with_capacity(n);
    for _ in 0..n {
      let mut line = String::new();
      let k = self.stdout.read_line(&mut line).expect("driver read");
      if k == 0 { panic!("rsdriver closed its output (crashed?) after request {:?}", reqs); }
      while line.ends_with('\n') || line.ends_with('\r') { line.pop(); }
      out.push(line);
    }
    self.lines += n as u64;
    out
  }
  pub fn ask1(&mut self, req: String) -> String { self.ask(&[req]).pop().unwrap() }
}
impl Drop for Driver { fn drop(&mut self) { let _ = self.child.kill(); let _ = self.child.wait(); } }

/// classify a panic payload into the small enum of DESIGN section 2
pub fn panic_kind(msg: &str) -> &'static str {
  if msg.contains("unsafe precondition") { "unsafe-precondition" }
  else if msg.contains("overflow") { "overflow" }
  else if msg.contains("out of range") || msg.contains("out of bounds") || msg.contains("index") { "index" }
  else if msg.contains("unwrap") || msg.contains("None") { "unwrap" }
  else if msg.contains("char boundary") || msg.contains("byte_slice") { "charboundary" }
  else { "other" }
}

pub fn catch<X>(f: impl FnOnce() -> X) -> Result<X, String> {
  match std::panic::catch_unwind(std::panic::AssertUnwindSafe(f)) {
    Ok(x) => Ok(x),
    Err(e) => Err(if let Some(s) = e.downcast_ref::<String>() { s.clone() } else if let Some(s) = e.downcast_ref::<&str>() { s.to_string() } else { "panic".to_string() }),
  }
}

impl<'a> Toks<'a> {
  pub fn boolean(&mut self) -> Result<bool, String> { Ok(self.num()? == 1) }
  pub fn tree(&mut self) -> Result<T, String> {
    match self.tok()? {
      "raw" => Ok(T::Raw(self.string()?)),
      "rawb" => { let b = self.bytes()?; let _ = self.bytes()?; Ok(T::RawB(b)) }
      "rawstr" => Ok(T::RawStr(self.string()?)),
      "rawbuf" => { let b = self.bytes()?; let _ = self.bytes()?; Ok(T::RawBuf(b)) }
      "orig" => { let s = self.string()?; let n = self.string()?; Ok(T::Orig(s, n)) }
      "sms" => {
        let text = self.string()?; let name = self.string()?; let map = self.smap()?;
        let orig = self.opt(|t| t.string())?; let inner = self.opt(|t| t.smap())?; let remove = self.boolean()?;
        Ok(T::Sms { text, name, map, orig, inner, remove })
      }
      "concat" => { let n = self.num()?; let mut cs = vec![]; for _ in 0..n { let typed = match self.tok()? { "t" => true, "b" => false, x => return Err(format!("bad item tag {x}")) }; cs.push((typed, self.tree()?)); } Ok(T::Concat(cs)) }
      "replace" => {
        let inner = self.tree()?;
        let rs = self.list(|t| { let start = t.u32()?; let end = t.u32()?; let content = t.string()?; let name = t.opt(|t| t.string())?; let enforce = t.num()? as u8; Ok(ReplT { start, end, content, name, enforce }) })?;
        Ok(T::Replace(Box::new(inner), rs))
      }
      "cached" => { let id = self.u32()?; Ok(T::Cached(id, Box::new(self.tree()?))) }
      x => Err(format!("bad node tag {x}")),
    }
  }
}

/// like `run_stream_keep`, and additionally copies every borrowed piece at delivery time, calls `at_chunk` in each
/// chunk callback (a scheduling point for C18/C19), and after the stream call has returned compares what the kept
/// borrows show now with the copies: a difference means the borrowed data did not outlive the borrow
pub fn run_stream_keep_checked(s: &dyn Source, columns: bool, fin: bool, at_chunk: &dyn Fn()) -> (SRes, Option<String>) {
  enum Kept<'a> { Chunk(Option<Rope<'a>>, MapT), Source(u32, std::borrow::Cow<'a, str>, Option<Rope<'a>>), Name(u32, std::borrow::Cow<'a, str>) }
  let kept = std::cell::RefCell::new(Vec::new());
  let copies: std::cell::RefCell<Vec<Vec<u8>>> = std::cell::RefCell::new(Vec::new());
  let info = s.stream_chunks(
    &verif::map_options(columns, fin),
    &mut |c, m| { copies.borrow_mut().push(c.as_ref().map(|c| c.to_bytes().to_vec()).unwrap_or_default()); kept.borrow_mut().push(Kept::Chunk(c, MapT::of(&m))); at_chunk(); },
    &mut |i, s, c| { let mut v = s.as_bytes().to_vec(); v.push(0); if let Some(c) = &c { v.extend_from_slice(&c.to_bytes()); } copies.borrow_mut().push(v); kept.borrow_mut().push(Kept::Source(i, s, c)); },
    &mut |i, n| { copies.borrow_mut().push(n.as_bytes().to_vec()); kept.borrow_mut().push(Kept::Name(i, n)); },
  );
  let mut bad = None;
  let evs: Vec<Ev> = kept.into_inner().into_iter().zip(copies.into_inner()).enumerate().map(|(k, (kp, copy))| {
    let (ev, now) = match kp {
      Kept::Chunk(c, m) => { let b = c.map(|c| c.to_bytes().to_vec()); let now = b.clone().unwrap_or_default(); (Ev::Chunk(b, m), now) }
      Kept::Source(i, s, c) => { let cb = c.map(|c| c.to_bytes().to_vec()); let mut now = s.as_bytes().to_vec(); now.push(0); if let Some(c) = &cb { now.extend_from_slice(c); } (Ev::Source(i, s.as_bytes().to_vec(), cb), now) }
      Kept::Name(i, n) => (Ev::Name(i, n.as_bytes().to_vec()), n.as_bytes().to_vec()),
    };
    if now != copy && bad.is_none() { bad = Some(format!("event #{k}: borrowed bytes read {} when delivered and {} after the stream call returned", hx(&copy), hx(&now))); }
    if std::str::from_utf8(&now).is_err() && bad.is_none() { bad = Some(format!("event #{k}: kept str is not valid UTF-8: {}", hx(&now))); }
    ev
  }).collect();
  (SRes { line: info.generated_line, col: info.generated_column, evs }, bad)
}

/// like `run_stream`, but the callbacks keep the borrowed chunks, names and contents until the stream call has returned (C19)
pub fn run_stream_keep(s: &dyn Source, columns: bool, fin: bool) -> SRes {
  enum Kept<'a> { Chunk(Option<Rope<'a>>, MapT), Source(u32, std::borrow::Cow<'a, str>, Option<Rope<'a>>), Name(u32, std::borrow::Cow<'a, str>) }
  let kept = std::cell::RefCell::new(Vec::new());
  let info = s.stream_chunks(
    &verif::map_options(columns, fin),
    &mut |c, m| kept.borrow_mut().push(Kept::Chunk(c, MapT::of(&m))),
    &mut |i, s, c| kept.borrow_mut().push(Kept::Source(i, s, c)),
    &mut |i, n| kept.borrow_mut().push(Kept::Name(i, n)),
  );
  // only now look at what was borrowed
  let evs = kept.into_inner().into_iter().map(|k| match k {
    Kept::Chunk(c, m) => Ev::Chunk(c.map(|c| c.to_bytes().to_vec()), m),
    Kept::Source(i, s, c) => Ev::Source(i, s.as_bytes().to_vec(), c.map(|c| c.to_bytes().to_vec())),
    Kept::Name(i, n) => Ev::Name(i, n.as_bytes().to_vec()),
  }).collect();
  SRes { line: info.generated_line, col: info.generated_column, evs }
}


/// where the case being executed is recorded (so that a crash of the whole process — segfault, abort — still names its input)
pub static INFLIGHT: std::sync::Mutex<Option<String>> = std::sync::Mutex::new(None);
pub fn inflight(f: impl FnOnce() -> serde_json::Value) {
  let g = INFLIGHT.lock().unwrap_or_else(|e| e.into_inner());
  if let Some(p) = g.as_ref() { let _ = std::fs::write(p, f().to_string()); }
}

/// char-boundary-safe prefix
pub fn trunc(s: &str, n: usize) -> String { s.chars().take(n).collect() }
