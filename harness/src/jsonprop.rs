//! C15: SourceMap JSON serialisation is valid and round-trips.
#![allow(dead_code)]
use crate::core::*;
use crate::runner::{finding, Finding};
use crate::simple::*;
use rspack_sources::SourceMap;
use std::collections::BTreeMap;
use std::result::Result;

#[derive(Clone, Debug, Hash)]
pub enum JsonCase { Write(SMapT), Parse(Vec<u8>) }

fn show_smap_opt(m: Option<SMapT>) -> String { match m { Some(m) => format!("+ {}", m.proto()), None => "-".into() } }
fn pstr(r: Result<String, String>) -> String { match r { Ok(s) => s, Err(m) => format!("panic {}", panic_kind(&m)) } }

impl SimpleCase for JsonCase {
  fn reqs(&self) -> Vec<String> { match self { JsonCase::Write(m) => vec![format!("json-write {}", m.proto())], JsonCase::Parse(b) => vec![format!("json-parse {}", hx(b))] } }
  fn run_impl(&self) -> Vec<String> {
    match self {
      JsonCase::Write(m) => vec![pstr(catch(|| match m.build().to_json() { Ok(s) => hx(s.as_bytes()), Err(e) => format!("error {e}") }))],
      JsonCase::Parse(b) => vec![pstr(catch(|| show_smap_opt(SourceMap::from_slice(b).ok().map(|m| SMapT::of(&m)))))],
    }
  }
  fn oracle(&self, outs: &[String]) -> Vec<Finding> {
    let mut v = vec![];
    if outs[0].starts_with("panic") || outs[0].starts_with("error") { return vec![finding("no-panic", outs[0].clone())] }
    match self {
      JsonCase::Write(m) => {
        let Some(bytes) = unhx(&outs[0]) else { return vec![finding("format", "not hex".into())] };
        // to_writer writes the same bytes
        let mut w = vec![]; let wr = m.build().to_writer(&mut w);
        if wr.is_err() || w != bytes { v.push(finding("to_writer-identical", "to_writer and to_json differ".into())); }
        // an independent JSON parser (serde_json) accepts it as a version-3 source map with the same fields
        match serde_json::from_slice::<serde_json::Value>(&bytes) {
          Err(e) => v.push(finding("valid-json", format!("independent parser rejects {:?}: {e}", String::from_utf8_lossy(&bytes)))),
          Ok(doc) => {
            let arr = |k: &str| doc.get(k).and_then(|x| x.as_array()).map(|a| a.iter().map(|x| x.as_str().unwrap_or("\u{0}<non-string>").to_string()).collect::<Vec<_>>());
            let st = |k: &str| doc.get(k).and_then(|x| x.as_str()).map(|x| x.to_string());
            if doc.get("version").and_then(|x| x.as_u64()) != Some(3) { v.push(finding("version-3", format!("version is {:?}", doc.get("version")))); }
            if st("mappings").as_deref() != Some(m.mappings.as_str()) { v.push(finding("field-mappings", format!("{:?}", st("mappings")))); }
            if arr("sources") != Some(m.sources.clone()) { v.push(finding("field-sources", format!("{:?}", arr("sources")))); }
            if arr("names") != Some(m.names.clone()) { v.push(finding("field-names", format!("{:?}", arr("names")))); }
            if st("file") != m.file || st("sourceRoot") != m.root || st("debugId") != m.debug_id { v.push(finding("field-optional", format!("file {:?} sourceRoot {:?} debugId {:?}", st("file"), st("sourceRoot"), st("debugId")))); }
            let all_empty = m.contents.iter().all(|c| c.is_empty());
            if all_empty { if doc.get("sourcesContent").is_some() { v.push(finding("sourcesContent-omitted", "present although every entry is empty".into())); } }
            else if arr("sourcesContent") != Some(m.contents.clone()) { v.push(finding("field-sourcesContent", format!("{:?}", arr("sourcesContent")))); }
          }
        }
        // a value derived from another by clone() + setters serialises like a freshly built one, and leaves its origin alone — in
        // either order of serialisation (a serialisation memoised on the shared part of two clones would show here: seed S116)
        {
          let other = SMapT { file: Some(match &m.file { Some(f) => format!("{f}.2"), None => "derived.js".into() }), debug_id: Some("d-1".into()), ..m.clone() };
          let fresh_other = other.build().to_json().unwrap_or_default();
          let fresh_self = String::from_utf8_lossy(&bytes).to_string();
          for first_origin in [true, false] {
            // `to_json` consumes its receiver: serialise clones, as a caller who keeps the map does
            let a = m.build();
            if first_origin { let _ = a.clone().to_json(); let _ = format!("{:?}", a); }
            let mut b = a.clone();
            b.set_file(other.file.clone()); b.set_debug_id(other.debug_id.clone());
            let jb = b.clone().to_json().unwrap_or_default();
            let ja = a.clone().to_json().unwrap_or_default();
            let mut wb = vec![]; let _ = b.clone().to_writer(&mut wb);
            if jb != fresh_other || wb != fresh_other.as_bytes() { v.push(finding("clone-then-setters", format!("a clone changed by set_file / set_debug_id serialises as {:?}, a map built with those fields as {:?}", jb, fresh_other))); }
            if ja != fresh_self { v.push(finding("clone-then-setters", format!("after a clone of it was changed, the origin serialises as {:?} instead of {:?}", ja, fresh_self))); }
          }
        }
        // parsing it back with the three entry points
        let text = String::from_utf8_lossy(&bytes).to_string();
        let want = SMapT { contents: if m.contents.iter().all(|c| c.is_empty()) { vec![] } else { m.contents.clone() }, ..m.clone() };
        // a reader that hands out the bytes in short reads of varying size
        struct Chunky<'a> { data: &'a [u8], step: usize }
        impl std::io::Read for Chunky<'_> { fn read(&mut self, buf: &mut [u8]) -> std::io::Result<usize> { let n = self.step.min(buf.len()).min(self.data.len()); buf[..n].copy_from_slice(&self.data[..n]); self.data = &self.data[n..]; self.step = self.step % 13 + 1; Ok(n) } }
        for (name, r) in [("from_json", SourceMap::from_json(&text).ok()), ("from_slice", SourceMap::from_slice(&bytes).ok()), ("from_reader", SourceMap::from_reader(&bytes[..]).ok()),
                          ("from_reader(short reads)", SourceMap::from_reader(Chunky { data: &bytes, step: 3 }).ok())] {
          match r { Some(x) => if SMapT::of(&x) != want { v.push(finding("round-trip", format!("{name}: {:?} instead of {:?}", SMapT::of(&x), want))); }, None => v.push(finding("round-trip", format!("{name} rejects the document to_json produced"))) }
        }
        // … and whatever was parsed before on this thread: after failed parses (a truncated document through every entry point, a reader
        // that fails part-way) the same document still reads back the same
        struct Failing<'a> { data: &'a [u8] }
        impl std::io::Read for Failing<'_> { fn read(&mut self, buf: &mut [u8]) -> std::io::Result<usize> { if self.data.is_empty() { return Err(std::io::Error::new(std::io::ErrorKind::Other, "broken pipe")) } let n = 5.min(buf.len()).min(self.data.len()); buf[..n].copy_from_slice(&self.data[..n]); self.data = &self.data[n..]; Ok(n) } }
        let trunc = &bytes[..bytes.len() / 2];
        let _ = SourceMap::from_json(&String::from_utf8_lossy(trunc)); let _ = SourceMap::from_slice(trunc); let _ = SourceMap::from_reader(trunc); let _ = SourceMap::from_reader(Failing { data: trunc });
        for (name, r) in [("from_json", SourceMap::from_json(&text).ok()), ("from_slice", SourceMap::from_slice(&bytes).ok()), ("from_reader", SourceMap::from_reader(&bytes[..]).ok())] {
          match r { Some(x) => if SMapT::of(&x) != want { v.push(finding("round-trip-after-failed-parse", format!("{name}: {:?} instead of {:?}", SMapT::of(&x), want))); }, None => v.push(finding("round-trip-after-failed-parse", format!("{name} rejects the document to_json produced, after a failed parse on the same thread"))) }
        }
      }
      JsonCase::Parse(b) => {
        // expectation from the independent parser: nulls / missing arrays read as empty
        let got = { let mut t = Toks::new(&outs[0]); t.opt(|t| t.smap()).ok().flatten() };
        let Ok(doc) = serde_json::from_slice::<serde_json::Value>(b) else { return v };
        let Some(obj) = doc.as_object() else { return v };
        let arr = |k: &str| -> Option<Vec<String>> { match obj.get(k) { None | Some(serde_json::Value::Null) => Some(vec![]), Some(serde_json::Value::Array(a)) => a.iter().map(|x| match x { serde_json::Value::Null => Some(String::new()), serde_json::Value::String(s) => Some(s.clone()), _ => None }).collect(), _ => None } };
        let st = |k: &str| -> Option<Option<String>> { match obj.get(k) { None | Some(serde_json::Value::Null) => Some(None), Some(serde_json::Value::String(s)) => Some(Some(s.clone())), _ => None } };
        let want = (|| Some(SMapT { mappings: obj.get("mappings")?.as_str()?.to_string(), sources: arr("sources")?, contents: arr("sourcesContent")?, names: arr("names")?, file: st("file")?, root: st("sourceRoot")?, debug_id: st("debugId")? }))();
        // serde_json keeps the last of duplicate keys, serde's derive rejects duplicates of known fields: skip documents with duplicate keys
        let text = String::from_utf8_lossy(b);
        let dup = ["file", "sources", "sourceRoot", "sourcesContent", "names", "mappings", "debugId"].iter().any(|k| text.matches(&format!("\"{k}\"")).count() > 1);
        if !dup && got != want { v.push(finding("parse-fields", format!("document {:?}: parsed {:?}, the document says {:?}", text, got, want))); }
      }
    }
    v
  }
  fn nontrivial(&self) -> bool {
    let needs_escape = |s: &str| s.chars().any(|c| c == '"' || c == '\\' || (c as u32) < 32 || (c as u32) > 127);
    match self { JsonCase::Write(m) => needs_escape(&m.mappings) || m.sources.iter().chain(&m.contents).chain(&m.names).any(|s| needs_escape(s)), JsonCase::Parse(b) => b.contains(&b'\\') || b.iter().any(|x| *x > 127) }
  }
  fn stats(&self, _o: &[String], d: &mut BTreeMap<String, u64>) {
    match self { JsonCase::Write(m) => { *d.entry("write".into()).or_default() += 1; if m.contents.iter().all(|c| c.is_empty()) { *d.entry("write:sourcesContent-all-empty".into()).or_default() += 1; } if m.debug_id.is_some() { *d.entry("write:debugId".into()).or_default() += 1; } }
      JsonCase::Parse(b) => { *d.entry("parse".into()).or_default() += 1; if b.windows(4).any(|w| w == b"null") { *d.entry("parse:null".into()).or_default() += 1; } if b.windows(2).any(|w| w == b"\\u") { *d.entry("parse:\\u-escape".into()).or_default() += 1; } } }
  }
  fn shrink(&self) -> Vec<Self> {
    match self {
      JsonCase::Write(m) => { let mut v = vec![];
        for (i, _) in m.sources.iter().enumerate() { let mut x = m.clone(); x.sources.remove(i); v.push(JsonCase::Write(x)); }
        for (i, _) in m.contents.iter().enumerate() { let mut x = m.clone(); x.contents.remove(i); v.push(JsonCase::Write(x)); }
        for (i, _) in m.names.iter().enumerate() { let mut x = m.clone(); x.names.remove(i); v.push(JsonCase::Write(x)); }
        if m.file.is_some() { let mut x = m.clone(); x.file = None; v.push(JsonCase::Write(x)); }
        let cut = |s: &String| -> Vec<String> { let cs: Vec<char> = s.chars().collect(); (0..cs.len()).map(|i| cs.iter().enumerate().filter(|(j, _)| *j != i).map(|(_, c)| *c).collect()).collect() };
        for c in cut(&m.mappings) { let mut x = m.clone(); x.mappings = c; v.push(JsonCase::Write(x)); }
        for (i, s) in m.sources.iter().enumerate() { for c in cut(s) { let mut x = m.clone(); x.sources[i] = c; v.push(JsonCase::Write(x)); } }
        v }
      JsonCase::Parse(_) => vec![],
    }
  }
}

const SCALARS: &[char] = &['a', 'b', ' ', '"', '\\', '/', '\n', '\r', '\t', '\u{8}', '\u{c}', '\u{0}', '\u{1f}', '\u{7f}', '\u{80}', 'é', '\u{2028}', '\u{2029}', '日', '\u{ffff}', '😀', '\u{10ffff}', '{', ',', ':', '[', 'u'];
pub fn ustr(rng: &mut Rng, max: usize) -> String { (0..rng.below(max + 1)).map(|_| if rng.chance(6) { char::from_u32(rng.below(0xD7FF) as u32).unwrap_or('x') } else { *rng.pick(SCALARS) }).collect() }
/// a long string of mixed 1-4 byte characters (documents beyond typical I/O buffer sizes)
fn long_str(rng: &mut Rng) -> String { let n = 2000 + rng.below(4000); (0..n).map(|_| *rng.pick(&['a', 'é', '日', '😀', ' ', 'z'])).collect() }
pub fn gen_smap(rng: &mut Rng) -> SMapT {
  if rng.chance(40) {
    let pad = "p".repeat(rng.below(9));
    return SMapT { mappings: "AAAA".into(), sources: vec![format!("{pad}a.js")], contents: vec![long_str(rng), long_str(rng)], names: vec![long_str(rng)], file: None, root: None, debug_id: None }
  }
  let list = |rng: &mut Rng, all_empty: bool| -> Vec<String> { (0..rng.below(4)).map(|_| if all_empty || rng.chance(4) { String::new() } else { ustr(rng, 6) }).collect() };
  let ae = rng.chance(3);
  SMapT { mappings: if rng.chance(2) { "AAAA;ACDE".into() } else { ustr(rng, 6) }, sources: list(rng, false), contents: list(rng, ae), names: list(rng, false),
    file: if rng.chance(2) { Some(ustr(rng, 5)) } else { None }, root: if rng.chance(3) { Some(ustr(rng, 5)) } else { None }, debug_id: if rng.chance(3) { Some(ustr(rng, 5)) } else { None } }
}
/// a JSON spelling of a string: random escapes (\uXXXX incl. surrogate pairs, \/, short escapes) for the same scalar values
fn jstr(rng: &mut Rng, s: &str) -> String {
  let mut o = String::from("\"");
  for c in s.chars() {
    let cp = c as u32;
    if c == '"' { o.push_str("\\\""); } else if c == '\\' { o.push_str("\\\\"); }
    else if cp < 32 { match (c, rng.chance(2)) { ('\n', true) => o.push_str("\\n"), ('\r', true) => o.push_str("\\r"), ('\t', true) => o.push_str("\\t"), ('\u{8}', true) => o.push_str("\\b"), ('\u{c}', true) => o.push_str("\\f"), _ => o.push_str(&format!("\\u{:04x}", cp)) } }
    else if rng.chance(5) { if cp < 0x10000 { o.push_str(&format!("\\u{:04X}", cp)); } else { let v = cp - 0x10000; o.push_str(&format!("\\u{:04x}\\u{:04x}", 0xD800 + (v >> 10), 0xDC00 + (v & 0x3ff))); } }
    else if c == '/' && rng.chance(2) { o.push_str("\\/"); }
    else { o.push(c); }
  }
  o.push('"'); o
}
pub fn gen_doc(rng: &mut Rng) -> Vec<u8> {
  let m = gen_smap(rng);
  let ws = |rng: &mut Rng| -> &'static str { *rng.pick(&["", "", " ", "\n", "\t ", "\r\n"]) };
  let arr = |rng: &mut Rng, v: &Vec<String>| -> String { if rng.chance(6) { return "null".into() } let items: Vec<String> = v.iter().map(|s| if s.is_empty() && rng.chance(2) { "null".to_string() } else { jstr(rng, s) }).collect(); format!("[{}{}]", ws(rng), items.join(&format!("{},{}", ws(rng), ws(rng)))) };
  let mut fields: Vec<(String, String)> = vec![("mappings".into(), jstr(rng, &m.mappings))];
  if !rng.chance(5) { let a = arr(rng, &m.sources); fields.push(("sources".into(), a)); }
  if !rng.chance(3) { let a = arr(rng, &m.contents); fields.push(("sourcesContent".into(), a)); }
  if !rng.chance(5) { let a = arr(rng, &m.names); fields.push(("names".into(), a)); }
  for (k, v) in [("file", &m.file), ("sourceRoot", &m.root), ("debugId", &m.debug_id)] { match v { Some(s) => fields.push((k.into(), jstr(rng, s))), None => if rng.chance(4) { fields.push((k.into(), "null".into())) } } }
  if rng.chance(2) { fields.push(("version".into(), "3".into())); }
  if rng.chance(3) { fields.push(("x_unknown".into(), ["{\"a\":[1,2.5e3,true,false,null,{\"b\":\"c\"}]}", "[]", "-0.5", "\"s\\u00e9\""][rng.below(4)].to_string())); }
  // reorder keys
  for i in (1..fields.len()).rev() { let j = rng.below(i + 1); fields.swap(i, j); }
  let body: Vec<String> = fields.iter().map(|(k, v)| format!("{}\"{k}\"{}:{}{v}", ws(rng), ws(rng), ws(rng))).collect();
  format!("{}{{{}{}}}{}", ws(rng), body.join(","), ws(rng), ws(rng)).into_bytes()
}
pub fn gen(rng: &mut Rng, _thorough: bool) -> JsonCase { if rng.chance(2) { JsonCase::Write(gen_smap(rng)) } else { JsonCase::Parse(gen_doc(rng)) } }
pub fn corpus() -> Vec<JsonCase> {
  vec![JsonCase::Parse(br#"{"version":3,"mappings":"AAAA","sources":[null,"a"],"names":null,"sourcesContent":[null]}"#.to_vec()),
       JsonCase::Parse("{\"mappings\":\"\u{1F600} \",\"x\":{\"y\":[1e5]}}".as_bytes().to_vec()),
       JsonCase::Write(SMapT { mappings: "A\"\\\u{0}\u{1f}\u{2028}😀".into(), sources: vec!["".into()], contents: vec!["".into(), "".into()], names: vec![], file: None, root: Some("".into()), debug_id: Some("id".into()) })]
}
