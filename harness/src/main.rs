mod attr;
mod core;
mod gen;
mod ops;
mod refmodel;
mod runner;
mod simple;
mod codec;
mod replhist;
mod eqhash;
mod attrprops;
mod ropeprop;
mod safety;
mod jsonprop;
mod conc;
mod treeprops;

use runner::*;
use serde_json::json;

fn arg(args: &[String], name: &str) -> Option<String> { args.iter().position(|a| a == name).and_then(|i| args.get(i + 1).cloned()) }

fn main() {
  let args: Vec<String> = std::env::args().collect();
  if args.len() < 2 { eprintln!("usage: rsverif <Cxx> [--cases N] [--seed S] [--threads T] [--thorough] [--driver path] [--out file] [--replay file]"); std::process::exit(2); }
  let id = args[1].clone();
  let seed: u64 = arg(&args, "--seed").and_then(|s| s.parse().ok()).unwrap_or(1);
  let cases: u64 = arg(&args, "--cases").and_then(|s| s.parse().ok()).unwrap_or(2000);
  let threads: usize = arg(&args, "--threads").and_then(|s| s.parse().ok()).unwrap_or(8);
  let driver = arg(&args, "--driver").unwrap_or("/verif/lean/.lake/build/bin/rsdriver".into());
  let out = arg(&args, "--out");
  let thorough = args.iter().any(|a| a == "--thorough");
  // quiet panics: they are caught and classified per case
  if std::env::var("VERIF_DEBUG").is_err() { std::panic::set_hook(Box::new(|_| {})); }
  // the in-flight record is only meaningful with one worker, or in the (single-worker) scheduler harness
  if let Some(p) = arg(&args, "--inflight") { if threads == 1 || id == "C18" { *core::INFLIGHT.lock().unwrap() = Some(p); } }
  let cfg = RunCfg { seed, cases, threads, driver, thorough, max_shrink: 4 };
  let t0 = std::time::Instant::now();
  if id == "dump" {
    // debug: print implementation and model observations of a case file (protocol request lines)
    let f = arg(&args, "--case").expect("--case file");
    let reqs: Vec<String> = std::fs::read_to_string(&f).unwrap().lines().filter(|l| !l.trim().is_empty() && !l.starts_with('#')).map(|l| l.to_string()).collect();
    let c = case_of_reqs(&reqs).expect("case");
    let oi = run_case_impl(&c);
    let mut d = core::Driver::spawn(&cfg.driver);
    let om = run_case_model(&mut d, &c);
    for (k, ((i, op), (a, b))) in c.script.iter().zip(oi.iter().zip(om.iter())).enumerate() { println!("--- step {k} A{i}.{:?}\n impl : {:?}\n model: {:?}", op, a, b); }
    return;
  }
  if id == "hashdump" { for h in eqhash::hash_dump(seed, cases as usize) { println!("{h}"); } return; }
  let result = if let Some(p) = treeprops::by_id(&id).or_else(|| match id.as_str() { "C14" => Some(eqhash::c14()), "C20" => Some(eqhash::c20()), "C04" => Some(attrprops::c04()), "C06" => Some(attrprops::c06()), "C08" => Some(attrprops::c08()), "C09" => Some(attrprops::c09()), _ => None }) {
    let mut p = p;
    if let Some(dir) = arg(&args, "--corpus") { p.corpus.extend(load_corpus(&dir)); }
    if let Some(f) = arg(&args, "--replay") {
      let v: serde_json::Value = serde_json::from_str(&std::fs::read_to_string(&f).expect("replay file")).expect("replay json");
      let reqs: Vec<String> = v["case"]["requests"].as_array().map(|a| a.iter().map(|x| x.as_str().unwrap_or("").to_string()).collect()).unwrap_or_default();
      p.corpus = vec![case_of_reqs(&reqs).expect("replay case")];
      let cfg = RunCfg { cases: 0, threads: 1, ..cfg };
      tree_json(&p, &run_tree_prop(&p, &cfg))
    } else {
      let mut j = tree_json(&p, &run_tree_prop(&p, &cfg));
      if id == "C20" || id == "C14" {
        // reproducibility across processes and threads: the same generated trees hash identically in two fresh processes and here
        let exe = std::env::current_exe().unwrap();
        let run = || std::process::Command::new(&exe).args(["hashdump", "--seed", &seed.to_string(), "--cases", "300"]).output().map(|o| String::from_utf8_lossy(&o.stdout).to_string()).unwrap_or_default();
        let (a, b) = (run(), run());
        let here: String = std::thread::spawn(move || eqhash::hash_dump(seed, 300)).join().unwrap().iter().map(|h| format!("{h}\n")).collect();
        j["extra"] = json!({ "cross_process_hashes_compared": 300, "cross_process_equal": a == b && a == here && !a.is_empty() });
        if !(a == b && a == here && !a.is_empty()) { j["failures"].as_array_mut().unwrap().push(json!({ "kind": "oracle", "clause": "hash-reproducible-across-processes", "detail": "hash values of the same trees differ between processes/threads", "known": null, "case": {"requests": []} })); }
      }
      if id == "C07" || id == "C14" || id == "C20" {
        // views of a ReplaceSource that is mutated between observations (size / buffer / rope / to_writer against source() at every
        // observation point of the histories of C05)
        let r2 = simple::run_simple(&id, &replhist::gen, &[], &cfg);
        for k in ["cases", "impl_panics", "oracle_failures", "unknown_oracle_failures", "corr_failures", "model_oracle_failures", "driver_lines"] { j[k] = json!(j[k].as_u64().unwrap_or(0) + r2[k].as_u64().unwrap_or(0)); }
        j["distinct_nontrivial"] = json!(j["distinct_nontrivial"].as_u64().unwrap_or(0) + r2["distinct_nontrivial"].as_u64().unwrap_or(0));
        for f in r2["failures"].as_array().unwrap() { j["failures"].as_array_mut().unwrap().push(f.clone()); }
        for (k, v) in r2["distribution"].as_object().unwrap() { j["distribution"][format!("hist:{k}")] = v.clone(); }
      }
      j
    }
  } else if id == "C12" {
    let mut r = simple::run_simple("C12", &codec::gen, &codec::corpus(), &cfg);
    let mut d = core::Driver::spawn(&cfg.driver);
    let limit = if thorough { 1 << 20 } else { 1 << 14 };
    let (n, fails) = codec::exhaustive_deltas(limit, &mut d);
    r["extra"] = json!({ "exhaustive_single_field_deltas": n, "exhaustive_limit": limit });
    for f in fails { r["failures"].as_array_mut().unwrap().push(json!({ "kind": if f.clause.ends_with("corr") { "corr" } else { "oracle" }, "clause": f.clause, "detail": f.detail, "known": null, "case": {"requests": []} })); }
    r
  } else if id == "C17" {
    let mut p = safety::c17_tree();
    if let Some(dir) = arg(&args, "--corpus") { p.corpus.extend(load_corpus(&dir)); }
    let mut j = tree_json(&p, &run_tree_prop(&p, &cfg));
    let r2 = simple::run_simple("C17", &safety::gen_raw, &safety::raw_corpus(), &cfg);
    for k in ["cases", "impl_panics", "oracle_failures", "unknown_oracle_failures", "corr_failures", "model_oracle_failures", "driver_lines"] { j[k] = json!(j[k].as_u64().unwrap_or(0) + r2[k].as_u64().unwrap_or(0)); }
    j["distinct_nontrivial"] = json!(j["distinct_nontrivial"].as_u64().unwrap_or(0) + r2["distinct_nontrivial"].as_u64().unwrap_or(0));
    for f in r2["failures"].as_array().unwrap() { j["failures"].as_array_mut().unwrap().push(f.clone()); }
    for (k, v) in r2["distribution"].as_object().unwrap() { j["distribution"][k] = v.clone(); }
    j["extra"] = json!({ "build_profile": if cfg!(debug_assertions) { "debug (overflow-checked)" } else { "release" } });
    j
  } else if id == "C19" {
    let _ = rspack_sources::verif::take_unsafe_violations();
    let p = safety::c19_tree();
    let mut j = tree_json(&p, &run_tree_prop(&p, &cfg));
    // all rope programs of C16 with the guarded assertions on
    let r2 = simple::run_simple("C19", &ropeprop::gen, &ropeprop::corpus(), &cfg);
    for k in ["cases", "impl_panics", "corr_failures", "model_oracle_failures", "driver_lines"] { j[k] = json!(j[k].as_u64().unwrap_or(0) + r2[k].as_u64().unwrap_or(0)); }
    j["distinct_nontrivial"] = json!(j["distinct_nontrivial"].as_u64().unwrap_or(0) + r2["distinct_nontrivial"].as_u64().unwrap_or(0));
    for f in r2["failures"].as_array().unwrap() { if f["kind"] != "oracle" || f["detail"].as_str().map_or(false, |d| d.contains(" U") || d.contains(",U") || d.contains("unsafe")) { j["failures"].as_array_mut().unwrap().push(f.clone()); } }
    let violated = rspack_sources::verif::take_unsafe_violations();
    let reached: std::collections::BTreeMap<String, u64> = rspack_sources::verif::unsafe_reached().into_iter().map(|(k, v)| (k.to_string(), v)).collect();
    if !violated.is_empty() && !j["failures"].as_array().unwrap().iter().any(|f| f["kind"] == "oracle") {
      j["failures"].as_array_mut().unwrap().push(json!({ "kind": "oracle", "clause": "unsafe-precondition", "detail": format!("violated sites: {:?}", violated), "known": null, "case": {"requests": []} }));
    }
    if !violated.is_empty() { j["oracle_failures"] = json!(j["oracle_failures"].as_u64().unwrap_or(0) + violated.len() as u64); j["unknown_oracle_failures"] = json!(j["unknown_oracle_failures"].as_u64().unwrap_or(0) + violated.len() as u64); }
    j["extra"] = json!({ "unsafe_sites_reached": reached, "unsafe_sites_violated": violated });
    // the schedules of C18, with stream callbacks that are schedule points and keep what they borrow
    let nsched = std::env::var("VERIF_C19_SCHEDULES").ok().and_then(|s| s.parse().ok()).unwrap_or(if thorough { 3000 } else { 160 });
    let r3 = conc::run(seed, nsched, &cfg.driver, thorough, "C19");
    for k in ["cases", "oracle_failures", "unknown_oracle_failures", "corr_failures", "driver_lines"] { j[k] = json!(j[k].as_u64().unwrap_or(0) + r3[k].as_u64().unwrap_or(0)); }
    j["distinct_nontrivial"] = json!(j["distinct_nontrivial"].as_u64().unwrap_or(0) + r3["distinct_nontrivial"].as_u64().unwrap_or(0));
    for f in r3["failures"].as_array().unwrap() { j["failures"].as_array_mut().unwrap().push(f.clone()); }
    for (k, v) in r3["distribution"].as_object().unwrap() { j["distribution"][format!("conc:{k}")] = v.clone(); }
    j["extra"]["concurrent"] = r3["extra"].clone();
    j
  } else if id == "C18" {
    conc::run(seed, cases, &cfg.driver, thorough, "C18")
  } else if id == "C15" {
    simple::run_simple("C15", &jsonprop::gen, &jsonprop::corpus(), &cfg)
  } else if id == "C16" {
    let mut r = simple::run_simple("C16", &ropeprop::gen, &ropeprop::corpus(), &cfg);
    let mut d = core::Driver::spawn(&cfg.driver);
    let (n, fails) = if thorough { ropeprop::exhaustive(3, 5, &mut d) } else { ropeprop::exhaustive(2, 5, &mut d) };
    r["extra"] = json!({ "exhaustive_programs": n });
    for f in fails { r["failures"].as_array_mut().unwrap().push(json!({ "kind": if f.clause.ends_with("corr") { "corr" } else { "oracle" }, "clause": f.clause, "detail": f.detail, "known": null, "case": {"requests": []} })); }
    r
  } else if id == "C05" {
    let mut r = simple::run_simple("C05", &replhist::gen, &[], &cfg);
    let mut d = core::Driver::spawn(&cfg.driver);
    let (n, fails) = if thorough { replhist::exhaustive(3, 2, &mut d) } else { replhist::exhaustive(2, 2, &mut d) };
    r["extra"] = json!({ "exhaustive_micro_scope_cases": n });
    for f in fails { r["failures"].as_array_mut().unwrap().push(json!({ "kind": if f.clause.ends_with("corr") { "corr" } else { "oracle" }, "clause": f.clause, "detail": f.detail, "known": null, "case": {"requests": []} })); }
    r
  } else { eprintln!("unknown property {id}"); std::process::exit(2); };
  let mut result = result;
  result["wall_s"] = json!(t0.elapsed().as_secs_f64());
  result["seed"] = json!(seed);
  let text = serde_json::to_string_pretty(&result).unwrap();
  match out { Some(f) => std::fs::write(f, text).expect("write out"), None => println!("{text}") }
}

fn load_corpus(dir: &str) -> Vec<Case> {
  let mut v = vec![];
  let Ok(rd) = std::fs::read_dir(dir) else { return v };
  let mut files: Vec<_> = rd.filter_map(|e| e.ok()).map(|e| e.path()).filter(|p| p.extension().map_or(false, |x| x == "case")).collect();
  files.sort();
  for f in files {
    let reqs: Vec<String> = std::fs::read_to_string(&f).unwrap_or_default().lines().filter(|l| !l.trim().is_empty() && !l.starts_with('#')).map(|l| l.to_string()).collect();
    match case_of_reqs(&reqs) { Ok(mut c) => { c.note = format!("corpus:{}", f.file_name().unwrap().to_string_lossy()); v.push(c) } Err(e) => eprintln!("corpus file {:?}: {e}", f) }
  }
  v
}

fn tree_json(p: &TreeProp, r: &RunResult) -> serde_json::Value {
  json!({
    "property": p.id,
    "cases": r.cases,
    "distinct_nontrivial": r.nontrivial.len(),
    "samples": r.samples.iter().map(case_json).collect::<Vec<_>>(),
    "distribution": r.dist,
    "impl_panics": r.impl_panics,
    "oracle_failures": r.oracle_failures,
    "unknown_oracle_failures": r.unknown_oracle_failures,
    "known_counts": r.known_counts,
    "corr_failures": r.corr_failures,
    "model_oracle_failures": r.model_oracle_failures,
    "driver_lines": r.driver_lines,
    "failures": r.failures.iter().map(|f| json!({ "kind": f.kind, "clause": f.clause, "detail": f.detail, "known": f.known, "case": case_json(&f.case) })).collect::<Vec<_>>(),
  })
}
