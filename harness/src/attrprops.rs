//! C04, C06, C08, C09: attribution properties with reference oracles.
#![allow(dead_code)]
use crate::attr::*;
use crate::core::*;
use crate::gen::*;
use crate::ops::*;
use crate::refmodel::*;
use crate::runner::*;
use std::collections::BTreeMap;

fn s(b: &[u8]) -> String { String::from_utf8_lossy(b).to_string() }
fn stream_text(st: &SRes) -> Bytes { let mut v = vec![]; for e in &st.evs { if let Ev::Chunk(Some(t), _) = e { v.extend_from_slice(t); } } v }
fn stats(c: &Case, _o: &[Out], d: &mut BTreeMap<String, u64>) {
  let mut k = BTreeMap::new(); for t in &c.trees { t.kinds(&mut k); } for (n, v) in k { *d.entry(format!("node:{n}")).or_default() += v; }
  *d.entry(format!("case:{}", c.note)).or_default() += 1;
}
fn panics(c: &Case, outs: &[Out], v: &mut Vec<Finding>) { for ((i, op), o) in c.script.iter().zip(outs) { if let Out::Panic(m) = o { v.push(finding("no-panic", format!("A{i}.{:?}: {m}", op))); } } }
fn get<'a>(c: &Case, outs: &'a [Out], ti: usize, op: &Op) -> Option<&'a Out> { c.script.iter().zip(outs).find(|((i, o), _)| *i == ti && o == op).map(|(_, o)| o) }
fn nlines(src: &[u8]) -> u32 { let e = end_pos(src); if e.1 == 0 { e.0 - 1 } else { e.0 } }
fn apply_root(root: &Option<String>, f: &str) -> String { match root.as_deref() { None | Some("") => f.to_string(), Some(r) if r.ends_with('/') => format!("{r}{f}"), Some(r) => format!("{r}/{f}") } }

/// chunks of a normal-mode stream: (start offset, end offset, resolved attribution incl. content)
fn chunks_of(st: &SRes) -> Vec<(usize, usize, Attr)> {
  let t = tables_of(&st.evs); let mut off = 0; let mut v = vec![];
  for e in &st.evs { if let Ev::Chunk(Some(text), m) = e { v.push((off, off + text.len(), resolve(&t, &m.orig))); off += text.len(); } }
  v
}
/// final-mode stream as a segment list resolved through its own tables: lookup of every position of `src`
fn lookup_final(st: &SRes, src: &[u8]) -> Vec<Attr> {
  let t = tables_of(&st.evs);
  let segs: Vec<&MapT> = st.evs.iter().filter_map(|e| if let Ev::Chunk(_, m) = e { Some(m) } else { None }).collect();
  positions(src).into_iter().map(|(l, c)| { let mut best: Option<&MapT> = None; for sg in &segs { if sg.gl == l && sg.gc <= c { best = Some(sg); } } best.and_then(|sg| resolve(&t, &sg.orig)) }).collect()
}

// ---------------------------------------------------------------- C08
fn lookup_m(map: &SMapT, src: &[u8]) -> Vec<Attr> {
  // the attribution the given map defines: greatest segment at or before the position, resolved with sourceRoot applied
  attr_map(map, src)
}
fn c08_oracle(c: &Case, outs: &[Out]) -> Vec<Finding> {
  let mut v = vec![];
  panics(c, outs, &mut v);
  let T::Sms { text, map, .. } = &c.trees[0] else { return v };
  let src = text.as_bytes().to_vec();
  let want = lookup_m(map, &src);
  let want_lines: BTreeMap<u32, (Bytes, u32)> = { let mut m = attr_map_lines(map); let n = nlines(&src); m.retain(|l, _| *l <= n); m };
  let end = end_pos(&src);
  for ((i, op), o) in c.script.iter().zip(outs) {
    match (op, o) {
      (Op::Stream(cols, fin), Out::Stream(st)) | (Op::CustomStream(cols, fin), Out::Stream(st)) if *i == 0 => {
        let what = format!("{:?}", op);
        if (st.line, st.col) != end { v.push(finding("info", format!("{what}: info {}:{} text ends {}:{}", st.line, st.col, end.0, end.1))); }
        if !*fin && stream_text(st) != src { v.push(finding("text", format!("{what}: text differs"))); continue }
        if *cols {
          let got: Vec<Attr> = if *fin { lookup_final(st, &src) } else { attr_stream(st) };
          if let Some(k) = (0..src.len()).find(|k| got.get(*k) != want.get(*k)) { let p = positions(&src)[k]; v.push(finding("attribution", format!("{what}: position {}:{} stream {} — the map says {}", p.0, p.1, show_attr(&got[k]), show_attr(&want[k])))); }
        } else {
          let mut got = attr_stream_lines(st); got.retain(|l, _| *l <= nlines(&src));
          if got != want_lines { v.push(finding("attribution-lines", format!("{what}: lines {:?} — the map says {:?}", got, want_lines))); }
          if st.evs.iter().any(|e| matches!(e, Ev::Chunk(_, m) if m.orig.as_ref().map_or(false, |o| o.name.is_some())) || matches!(e, Ev::Name(..))) { v.push(finding("lines-drop-names", format!("{what}: a name survived"))); }
        }
        // declared tables are exactly those of M
        if !src.is_empty() {
          let t = tables_of(&st.evs);
          let ws: Vec<(Bytes, Option<Bytes>)> = map.sources.iter().enumerate().map(|(k, f)| (apply_root(&map.root, f).into_bytes(), map.contents.get(k).map(|x| x.clone().into_bytes()))).collect();
          let gs: Vec<(Bytes, Option<Bytes>)> = t.sources.values().cloned().collect();
          if gs != ws || t.sources.keys().copied().collect::<Vec<_>>() != (0..ws.len() as u32).collect::<Vec<_>>() { v.push(finding("declared-sources", format!("{what}: announced {:?}", gs.iter().map(|x| s(&x.0)).collect::<Vec<_>>()))); }
          if *cols { let wn: Vec<Bytes> = map.names.iter().map(|n| n.clone().into_bytes()).collect(); if t.names.values().cloned().collect::<Vec<_>>() != wn { v.push(finding("declared-names", format!("{what}: announced names differ"))); } }
        }
      }
      _ => {}
    }
  }
  // the custom source behaves exactly like the SourceMapSource
  for cols in [true, false] { for fin in [true, false] {
    if let (Some(a), Some(b)) = (get(c, outs, 0, &Op::Stream(cols, fin)), get(c, outs, 0, &Op::CustomStream(cols, fin))) { if a != b { v.push(finding("custom-source", format!("columns={cols} final={fin}: the user-defined source streams differently"))); } }
  } }
  // through map() of an enclosing source: tree 1 = Concat[prefix raw, sms]
  if c.trees.len() > 1 {
    if let T::Concat(cs) = &c.trees[1] {
      let pre = ref_src(&cs[0].1);
      let all: Bytes = [pre.clone(), src.clone()].concat();
      let shift = pre.len();
      if let Some(Out::Map(m)) = get(c, outs, 1, &Op::Map(true)) {
        let got: Vec<Attr> = match m { Some(m) => attr_map(m, &all), None => vec![None; all.len()] };
        let strip = |a: &Attr| a.as_ref().map(|a| RAttr { content: None, ..a.clone() });
        if let Some(k) = (0..src.len()).find(|k| strip(&got[shift + *k]) != strip(&want[*k])) { v.push(finding("enclosing-map", format!("byte {k}: enclosing map() says {} — the map says {}", show_attr(&got[shift + k]), show_attr(&want[k])))); }
      }
      if let Some(Out::Map(m)) = get(c, outs, 1, &Op::Map(false)) {
        let plines = end_pos(&pre).0 - 1; // prefix ends with a line break
        let got: BTreeMap<u32, (Bytes, u32)> = match m { Some(m) => attr_map_lines(m), None => BTreeMap::new() };
        let want2: BTreeMap<u32, (Bytes, u32)> = want_lines.iter().map(|(l, x)| (l + plines, x.clone())).collect();
        let mut got2 = got.clone(); got2.retain(|l, _| *l > plines && *l <= plines + nlines(&src));
        if got2 != want2 { v.push(finding("enclosing-map-lines", format!("enclosing map(columns=false): {:?} — the map says {:?}", got2, want2))); }
      }
    }
  }
  v
}
pub fn c08() -> TreeProp {
  TreeProp {
    id: "C08",
    gen: Box::new(|rng, thorough| {
      let t = text(rng, if thorough { 16 } else { 12 }, false);
      let map = gen_map(rng, &t, true, &default_content);
      let sms = T::Sms { text: t, name: "sms.js".into(), map, orig: None, inner: None, remove: false };
      let pre = if rng.chance(2) { "pre;\n".to_string() } else { "\n\n".to_string() };
      let enclosing = T::Concat(vec![(false, T::Raw(pre)), (false, sms.clone())]);
      let mut script = vec![];
      for cols in [true, false] { for fin in [false, true] { script.push((0, Op::Stream(cols, fin))); script.push((0, Op::CustomStream(cols, fin))); } }
      script.push((1, Op::Map(true))); script.push((1, Op::Map(false)));
      Case { trees: vec![sms, enclosing], script, note: "C08".into() }
    }),
    oracle: Box::new(c08_oracle),
    project: Box::new(|c, outs| {
      let src = if let T::Sms { text, .. } = &c.trees[0] { text.as_bytes().to_vec() } else { vec![] };
      c.script.iter().zip(outs).map(|((_, op), o)| match (op, o) {
        (Op::Stream(true, false), Out::Stream(st)) | (Op::CustomStream(true, false), Out::Stream(st)) => format!("{}:{} attr {:?} tables {:?}", st.line, st.col, attr_stream(st).iter().map(show_attr).collect::<Vec<_>>(), tables_of(&st.evs).sources),
        (Op::Stream(true, true), Out::Stream(st)) | (Op::CustomStream(true, true), Out::Stream(st)) => format!("{}:{} attr {:?} tables {:?}", st.line, st.col, lookup_final(st, &src).iter().map(show_attr).collect::<Vec<_>>(), tables_of(&st.evs).sources),
        (Op::Stream(false, _), Out::Stream(st)) | (Op::CustomStream(false, _), Out::Stream(st)) => format!("{}:{} lines {:?} tables {:?}", st.line, st.col, attr_stream_lines(st), tables_of(&st.evs).sources),
        (Op::Map(_), Out::Map(m)) => format!("map {:?}", m.as_ref().map(|m| (decode(&m.mappings), m.sources.clone(), m.names.clone()))),
        (_, Out::Panic(_)) => "panic".into(),
        (_, o) => format!("{:?}", o) }).collect()
    }),
    nontrivial: Box::new(|c, _| if let T::Sms { map, text, .. } = &c.trees[0] { let segs = decode(&map.mappings); let mut per: BTreeMap<u32, usize> = BTreeMap::new(); for sg in &segs { *per.entry(sg.gl).or_default() += 1; } per.values().any(|n| *n >= 2) || (1..=nlines(text.as_bytes())).any(|l| !per.contains_key(&l)) } else { false }),
    stats: Box::new(|c, o, d| { stats(c, o, d); if let T::Sms { map, .. } = &c.trees[0] { *d.entry(format!("root:{:?}", map.root)).or_default() += 1; *d.entry(format!("segments:{}", decode(&map.mappings).len().min(8))).or_default() += 1; } }),
    known: Box::new(|_, _, _| None),
    corpus: vec![],
  }
}

// ---------------------------------------------------------------- C06
fn c06_cfg(depth: usize) -> GenCfg { GenCfg { fixed_files: true, ..GenCfg::ascii(depth) } }

fn c06_concat_oracle(c: &Case, outs: &[Out], v: &mut Vec<Finding>) {
  let n = c.trees.len() - 1;
  // the case must still be "composite + its children" (shrinking may only simplify children)
  match &c.trees[0] { T::Concat(cs) if cs.len() == n && cs.iter().zip(&c.trees[1..]).all(|(a, b)| a.1 == *b) => {}, _ => return }
  let (Some(Out::Stream(comp)), Some(Out::Stream(compl))) = (get(c, outs, 0, &Op::Stream(true, false)), get(c, outs, 0, &Op::Stream(false, false))) else { return };
  let got = attr_stream(comp);
  let mut off = 0usize; let mut line_off = 0u32;
  let mut want_lines: BTreeMap<u32, (Bytes, u32)> = BTreeMap::new();
  for k in 1..=n {
    let (Some(Out::Stream(ch)), Some(Out::Stream(chl))) = (get(c, outs, k, &Op::Stream(true, false)), get(c, outs, k, &Op::Stream(false, false))) else { return };
    let a = attr_stream(ch);
    // an absent sourcesContent entry and an empty one are the same thing (a SourceMap cannot tell them apart per entry)
    let norm = |x: &Attr| x.as_ref().map(|r| RAttr { content: r.content.clone().filter(|c| !c.is_empty()), ..r.clone() });
    for j in 0..a.len() { if got.get(off + j).map(norm) != Some(norm(&a[j])) { v.push(finding("concat-attribution", format!("child {k} byte {j}: composite {} child {}", got.get(off + j).map(show_attr).unwrap_or("<missing>".into()), show_attr(&a[j])))); return } }
    off += a.len();
    for (l, x) in attr_stream_lines(chl) { want_lines.entry(l + line_off).or_insert(x); }
    line_off += chl.line - 1;
  }
  let src = stream_text(comp);
  let mut gl = attr_stream_lines(compl); gl.retain(|l, _| *l <= nlines(&src)); want_lines.retain(|l, _| *l <= nlines(&src));
  if gl != want_lines { v.push(finding("concat-attribution-lines", format!("columns=false: composite {:?} children {:?}", gl, want_lines))); }
  // the same law seen through map(): resolving a position of child k's text through the composite's map gives what
  // resolving it through child k's own map gives
  if let (Some(Out::Map(cm)), Some(Out::Text(csrc))) = (get(c, outs, 0, &Op::Map(true)), get(c, outs, 0, &Op::Src)) {
    let got: Vec<Attr> = match cm { Some(m) => attr_map(m, csrc), None => vec![None; csrc.len()] };
    let mut off = 0usize;
    for k in 1..=n {
      let (Some(Out::Map(km)), Some(Out::Text(ksrc))) = (get(c, outs, k, &Op::Map(true)), get(c, outs, k, &Op::Src)) else { return };
      let a: Vec<Attr> = match km { Some(m) => attr_map(m, ksrc), None => vec![None; ksrc.len()] };
      let norm = |x: &Attr| x.as_ref().map(|r| RAttr { content: r.content.clone().filter(|c| !c.is_empty()), ..r.clone() });
      for j in 0..a.len() { if got.get(off + j).map(norm) != Some(norm(&a[j])) { v.push(finding("concat-attribution-map", format!("child {k} byte {j}: composite map {} child map {}", got.get(off + j).map(show_attr).unwrap_or("<missing>".into()), show_attr(&a[j])))); return } }
      off += a.len();
    }
  }
}

/// content lines of a file as announced by a stream
fn content_line(content: &Option<Bytes>, line: u32) -> Option<Vec<u8>> {
  let c = content.as_ref()?; if line == 0 { return None }
  c.split_inclusive(|b| *b == b'\n').nth(line as usize - 1).map(|l| l.to_vec())
}

fn c06_replace_oracle(c: &Case, outs: &[Out], v: &mut Vec<Finding>) {
  let T::Replace(i0, rs) = &c.trees[0] else { return };
  if c.trees.len() != 2 || **i0 != c.trees[1] { return }
  let (Some(Out::Stream(comp)), Some(Out::Stream(inner))) = (get(c, outs, 0, &Op::Stream(true, false)), get(c, outs, 1, &Op::Stream(true, false))) else { return };
  let inner_text = stream_text(inner);
  let ich = chunks_of(inner);
  let cells = splice_cells(inner_text.len(), rs);
  if stream_text(comp).len() != cells.len() { return } // C01/C05's business
  let got = attr_stream(comp);
  let cch = chunks_of(comp);
  let chunk_start = |b: usize| cch.iter().find(|x| x.0 <= b && b < x.1).map(|x| x.0).unwrap_or(b);
  let inner_chunk = |q: usize| ich.iter().find(|x| x.0 <= q && q < x.1);
  // position at which each replacement's content is spliced in: max(start, running end of earlier replacements)
  let mut idx: Vec<usize> = (0..rs.len()).collect(); idx.sort_by_key(|i| (rs[*i].start, rs[*i].end, rs[*i].enforce, *i));
  let mut p_of: BTreeMap<usize, usize> = BTreeMap::new(); let mut re = 0usize;
  for i in idx { p_of.insert(i, (rs[i].start as usize).max(re)); re = re.max(rs[i].end as usize); }
  let mut first_of_repl: BTreeMap<usize, Attr> = BTreeMap::new();
  for (b, cell) in cells.iter().enumerate() {
    match cell {
      Cell::Inner(q) => {
        let Some(k) = inner_chunk(*q) else { continue };
        match (&k.2, &got[b]) {
          (None, None) => {}
          (None, Some(_)) => { v.push(finding("replace-unmapped-stays-unmapped", format!("byte {b}: inner chunk unmapped, composite says {}", show_attr(&got[b])))); return }
          (Some(_), None) => { v.push(finding("replace-keeps-file-line-name", format!("byte {b}: inner says {}, composite unmapped", show_attr(&k.2)))); return }
          (Some(a), Some(g)) => {
            if a.file != g.file || a.line != g.line || a.name != g.name || a.content != g.content { v.push(finding("replace-keeps-file-line-name", format!("byte {b}: inner says {} composite {}", show_attr(&k.2), show_attr(&got[b])))); return }
            let cs = chunk_start(b);
            let q0 = match cells[cs] { Cell::Inner(q0) if q0 >= k.0 && q0 <= *q => q0, _ => { v.push(finding("replace-chunking", format!("byte {b}: composite chunk mixes text of several origins"))); return } };
            let max_adv = (q0 - k.0) as u32;
            if g.col < a.col || g.col - a.col > max_adv { v.push(finding("replace-column-range", format!("byte {b}: inner column {} composite {} (preceding text of the segment: {max_adv} bytes)", a.col, g.col))); return }
            let d = g.col - a.col;
            let line = content_line(&a.content, a.line);
            let skipped = &inner_text[k.0..q0];
            let full_match = line.as_ref().map_or(false, |l| l.get(a.col as usize..).map_or(false, |rest| rest.starts_with(skipped)));
            if full_match && d != max_adv { v.push(finding("replace-column-advance", format!("byte {b}: the recorded content equals the preceding text {:?} but the column was advanced by {d} instead of {max_adv}", s(skipped)))); return }
            if line.is_none() && d != 0 { v.push(finding("replace-column-advance", format!("byte {b}: no recorded content for {} line {}, yet the column was advanced by {d}", s(&a.file), a.line))); return }
            // (which of the preceding pieces advanced the column is fixed by the Lean model; the correspondence check compares it exactly)
          }
        }
      }
      Cell::Repl(i, j) => {
        let p = p_of[i];
        let k = if p < inner_text.len() { inner_chunk(p) } else { None };
        let want_base: Attr = k.and_then(|k| k.2.clone());
        if *j == 0 {
          first_of_repl.insert(*i, got[b].clone());
          match (&want_base, &got[b]) {
            (None, None) => {}
            (None, Some(_)) | (Some(_), None) => { v.push(finding("replacement-location", format!("replacement {i} (spliced at inner offset {p}): inner location {} composite {}", show_attr(&want_base), show_attr(&got[b])))); return }
            (Some(a), Some(g)) => {
              let kk = k.unwrap();
              if a.file != g.file || a.line != g.line || g.col < a.col || (g.col - a.col) as usize > p - kk.0 { v.push(finding("replacement-location", format!("replacement {i}: inner location {} composite {}", show_attr(&want_base), show_attr(&got[b])))); return }
              let want_name = match &rs[*i].name { Some(n) => Some(n.clone().into_bytes()), None => a.name.clone() };
              if g.name != want_name { v.push(finding("replacement-name", format!("replacement {i}: name {:?}, expected {:?}", g.name.as_ref().map(|x| s(x)), want_name.as_ref().map(|x| s(x))))); return }
            }
          }
        } else if let Some(f0) = first_of_repl.get(i) {
          let same = match (f0, &got[b]) { (None, None) => true, (Some(x), Some(y)) => x.file == y.file && x.line == y.line && x.col == y.col, _ => false };
          if !same { v.push(finding("replacement-location", format!("replacement {i} byte {j}: {} but its start {}", show_attr(&got[b]), show_attr(f0)))); return }
        }
      }
    }
  }
}
fn c06_oracle(c: &Case, outs: &[Out]) -> Vec<Finding> {
  let mut v = vec![];
  panics(c, outs, &mut v);
  if !v.is_empty() { return v }
  if c.note.contains("concat") { c06_concat_oracle(c, outs, &mut v) } else { c06_replace_oracle(c, outs, &mut v) }
  v
}
pub fn c06() -> TreeProp {
  TreeProp {
    id: "C06",
    gen: Box::new(|rng, thorough| {
      FIXED_CONTENT_POLICY.with(|c| c.set(true));
      let cfg = c06_cfg(if thorough { 3 } else { 2 });
      let mut g = TreeGen::new();
      if rng.chance(2) {
        let n = 2 + rng.below(3);
        // no CachedSource beneath a ReplaceSource: composite and stand-alone child share the cache, one sees it cold and the other warm, and a
        // replay under a ReplaceSource is coarser than the fill (finding K5, a C10/C03 matter) — C06 compares like with like
        let kcfg = GenCfg { cached_under_replace: false, ..cfg.clone() };
        let kids: Vec<T> = (0..n).map(|_| g.tree(rng, &kcfg, kcfg.depth, false)).collect();
        let mut trees = vec![T::Concat(kids.iter().map(|k| (false, k.clone())).collect())]; trees.extend(kids);
        let mut script = vec![]; for i in 0..trees.len() { script.push((i, Op::Stream(true, false))); script.push((i, Op::Stream(false, false))); script.push((i, Op::Src)); script.push((i, Op::Map(true))); }
        Case { trees, script, note: "C06 concat".into() }
      } else {
        let inner = g.tree(rng, &GenCfg { cached_under_replace: false, cached: false, ..cfg.clone() }, cfg.depth, true);
        let rs = loop { let r = gen_repls(rng, &cfg, &src_of(&inner)); if !r.is_empty() || rng.chance(4) { break r } };
        let trees = vec![T::Replace(Box::new(inner.clone()), rs), inner];
        Case { trees, script: vec![(0, Op::Stream(true, false)), (1, Op::Stream(true, false))], note: "C06 replace".into() }
      }
    }),
    oracle: Box::new(c06_oracle),
    project: Box::new(|c, outs| c.script.iter().zip(outs).map(|((_, op), o)| match (op, o) {
      (Op::Stream(true, _), Out::Stream(st)) => format!("attr {:?} chunks {:?}", attr_stream(st).iter().map(show_attr).collect::<Vec<_>>(), chunks_of(st).iter().map(|x| x.0).collect::<Vec<_>>()),
      (Op::Stream(false, _), Out::Stream(st)) => format!("lines {:?}", attr_stream_lines(st)),
      (_, Out::Panic(_)) => "panic".into(),
      (_, o) => format!("{:?}", o) }).collect()),
    nontrivial: Box::new(|c, _| c.trees.iter().skip(1).any(|t| t.has(&|x| matches!(x, T::Sms { map, .. } if map.sources.len() >= 2 || !map.names.is_empty())))),
    stats: Box::new(stats),
    known: Box::new(|_, _, _| None),
    corpus: vec![],
  }
}

// ---------------------------------------------------------------- C04
#[derive(Clone, Debug, PartialEq)]
struct Prov { orig: Option<(String, u32, u32, usize)>, repl: bool } // (file, line, col, offset in the original text)
fn prov(t: &T) -> Vec<Prov> {
  match t {
    T::Orig(text, name) => positions(text.as_bytes()).into_iter().enumerate().map(|(i, (l, c))| Prov { orig: Some((name.clone(), l, c, i)), repl: false }).collect(),
    T::Concat(cs) => cs.iter().flat_map(|c| prov(&c.1)).collect(),
    T::Cached(_, i) => prov(i),
    T::Replace(i, rs) => { let p = prov(i); splice_cells(p.len(), rs).into_iter().map(|c| match c { Cell::Inner(q) => p[q].clone(), Cell::Repl(..) => Prov { orig: None, repl: true } }).collect() }
    other => ref_src(other).iter().map(|_| Prov { orig: None, repl: false }).collect(),
  }
}
fn stmt_start(t: &[u8], i: usize) -> bool {
  if i == 0 || t[i - 1] == b'\n' { return true }
  let tail = |b: u8| matches!(b, b';' | b'{' | b'}' | b' ' | b'\r' | b'\t');
  if tail(t[i]) || t[i] == b'\n' { return false }
  let mut j = i; let mut seen_stop = false;
  while j > 0 && tail(t[j - 1]) { if matches!(t[j - 1], b';' | b'{' | b'}') { seen_stop = true; } j -= 1; }
  seen_stop
}
fn file_text(name: &str) -> Option<&'static str> { FILES.iter().find(|f| f.0 == name).map(|f| f.1) }
fn empty_line_break(text: &[u8], off: usize) -> bool { text[off] == b'\n' && (off == 0 || text[off - 1] == b'\n') }

fn c04_oracle(c: &Case, outs: &[Out]) -> Vec<Finding> {
  let mut v = vec![];
  panics(c, outs, &mut v);
  let t = &c.trees[0];
  let Some(Out::Text(src)) = get(c, outs, 0, &Op::Src) else { return v };
  let p = prov(t);
  if p.len() != src.len() { return v }
  let pos = positions(src);
  if let Some(Out::Map(m)) = get(c, outs, 0, &Op::Map(true)) {
    let look: Vec<Attr> = match m { Some(m) => attr_map(m, src), None => vec![None; src.len()] };
    if let Some(m) = m {
      // (i) mapped segments start on characters whose true origin is the segment's location
      for sg in decode(&m.mappings) {
        let Some(o) = &sg.orig else { continue };
        let Some(b) = pos.iter().position(|x| *x == (sg.gl, sg.gc)) else { v.push(finding("segment-on-text", format!("segment {}:{} is not on a character", sg.gl, sg.gc))); break };
        if p[b].repl { continue }
        let file = m.sources.get(o.src as usize).cloned().unwrap_or_default();
        match &p[b].orig { Some((f, l, cl, _)) if *f == file && *l == o.line && *cl == o.col => {}, other => { v.push(finding("segment-truthful", format!("segment at {}:{} claims {}:{}:{} but the character comes from {:?}", sg.gl, sg.gc, file, o.line, o.col, other.as_ref().map(|x| (&x.0, x.1, x.2))))); break } }
      }
      // (v) sources / sourcesContent
      let mut seen = std::collections::BTreeSet::new();
      for (k, f) in m.sources.iter().enumerate() {
        if !seen.insert(f.clone()) { v.push(finding("sources-once", format!("{f} listed twice"))); }
        if let Some(want) = file_text(f) { if m.contents.get(k).map(|x| x.as_str()) != Some(want) { v.push(finding("sources-content", format!("{f}: sourcesContent {:?}", m.contents.get(k)))); } }
      }
    }
    for b in 0..src.len() {
      match &p[b] {
        Prov { repl: true, .. } => {}
        Prov { orig: None, .. } => if look[b].is_some() { v.push(finding("raw-unmapped", format!("byte {b} ({}:{}) is raw text but resolves to {}", pos[b].0, pos[b].1, show_attr(&look[b])))); break },
        Prov { orig: Some((f, l, cl, off)), .. } => {
          let text = file_text(f).map(|x| x.as_bytes()).unwrap_or(&[]);
          if *off < text.len() && empty_line_break(text, *off) { continue } // an empty line has no text (see DESIGN, C04)
          match &look[b] {
            Some(a) if s(&a.file) == *f && a.line == *l && a.col <= *cl => {
              if *off < text.len() && stmt_start(text, *off) && a.col != *cl { v.push(finding("statement-start-exact", format!("byte {b}: begins a statement at {f}:{l}:{cl} but resolves to column {}", a.col))); break }
            }
            other => { v.push(finding("original-covered", format!("byte {b} ({}:{}) comes from {f}:{l}:{cl} but resolves to {}", pos[b].0, pos[b].1, show_attr(&other.clone())))); break }
          }
        }
      }
    }
  }
  // (vi) columns=false in trees without ReplaceSource
  if !t.has(&|x| matches!(x, T::Replace(..))) {
    if let Some(Out::Map(m)) = get(c, outs, 0, &Op::Map(false)) {
      let mut got = match m { Some(m) => attr_map_lines(m), None => BTreeMap::new() }; got.retain(|l, _| *l <= nlines(src));
      let mut want: BTreeMap<u32, (Bytes, u32)> = BTreeMap::new();
      for b in 0..src.len() { if let Some((f, l, _, _)) = &p[b].orig { want.entry(pos[b].0).or_insert((f.clone().into_bytes(), *l)); } }
      if got != want { v.push(finding("lines-first-original", format!("columns=false: map says {:?}, first original text per line {:?}", got, want))); }
    }
  }
  v
}
pub fn c04() -> TreeProp {
  TreeProp {
    id: "C04",
    gen: Box::new(|rng, thorough| {
      let cfg = GenCfg { sms: false, combined: false, fixed_files: true, cached_under_replace: false, repl_names: true, ..GenCfg::ascii(if thorough { 4 } else { 3 }) };
      let t = TreeGen::new().tree(rng, &cfg, cfg.depth, false);
      let ops = if rng.chance(2) { vec![Op::Src, Op::Map(true), Op::Map(false)] } else { vec![Op::Src, Op::Stream(true, false), Op::Map(true), Op::Stream(false, false), Op::Map(false)] };
      Case { trees: vec![t], script: ops.into_iter().map(|o| (0, o)).collect(), note: "C04".into() }
    }),
    oracle: Box::new(c04_oracle),
    project: Box::new(|_, outs| outs.iter().map(|o| match o {
      Out::Text(t) => format!("src {}", hx(t)),
      Out::Map(m) => format!("map {:?}", m.as_ref().map(|m| (decode(&m.mappings), m.sources.clone(), m.contents.clone()))),
      Out::Stream(_) => "stream".into(),
      Out::Panic(_) => "panic".into(),
      o => format!("{:?}", o) }).collect()),
    nontrivial: Box::new(|c, _| c.trees[0].has(&|x| matches!(x, T::Replace(i, rs) if !rs.is_empty() && i.has(&|y| matches!(y, T::Orig(..))))) ),
    stats: Box::new(stats),
    known: Box::new(|_, _, _| None),
    corpus: vec![],
  }
}

// ---------------------------------------------------------------- C09
fn c09_oracle(c: &Case, outs: &[Out]) -> Vec<Finding> {
  let mut v = vec![];
  panics(c, outs, &mut v);
  if !v.is_empty() { return v }
  let T::Sms { name: inner_name, orig, map: outer_map, remove, .. } = &c.trees[0] else { return v };
  for cols in [true, false] {
    let (Some(Out::Stream(comb)), Some(Out::Stream(outer)), Some(Out::Stream(inner))) = (get(c, outs, 0, &Op::Stream(cols, false)), get(c, outs, 1, &Op::Stream(cols, false)), get(c, outs, 2, &Op::Stream(cols, false))) else { continue };
    let (tc, to, ti) = (tables_of(&comb.evs), tables_of(&outer.evs), tables_of(&inner.evs));
    let cc: Vec<(&Option<Bytes>, &MapT)> = comb.evs.iter().filter_map(|e| if let Ev::Chunk(t, m) = e { Some((t, m)) } else { None }).collect();
    let oc: Vec<(&Option<Bytes>, &MapT)> = outer.evs.iter().filter_map(|e| if let Ev::Chunk(t, m) = e { Some((t, m)) } else { None }).collect();
    if cc.len() != oc.len() || cc.iter().zip(&oc).any(|(a, b)| a.0 != b.0 || (a.1.gl, a.1.gc) != (b.1.gl, b.1.gc)) { v.push(finding("same-chunks-as-outer", format!("columns={cols}: the combined stream's chunks differ from the outer map's in text or position"))); continue }
    // inner chunks per generated line
    let mut ilines: BTreeMap<u32, Vec<(&Option<Bytes>, &MapT)>> = BTreeMap::new();
    for e in &inner.evs { if let Ev::Chunk(t, m) = e { ilines.entry(m.gl).or_default().push((t, m)); } }
    let inner_content: Option<Bytes> = orig.clone().map(|x| x.into_bytes()).or_else(|| outer_map.sources.iter().position(|x| x == inner_name).and_then(|k| outer_map.contents.get(k).map(|x| x.clone().into_bytes())));
    for (k, ((_, gm), (_, om))) in cc.iter().zip(&oc).enumerate() {
      let got = resolve(&tc, &gm.orig);
      let oa = resolve(&to, &om.orig);
      let what = format!("columns={cols} chunk {k} at {}:{}", gm.gl, gm.gc);
      let Some(oa) = oa else { if got.is_some() { v.push(finding("unmapped-stays", format!("{what}: outer unmapped, combined {}", show_attr(&got)))); } continue };
      if s(&oa.file) != *inner_name {
        // other sources pass through unchanged
        if got.as_ref() != Some(&oa) { v.push(finding("passthrough", format!("{what}: outer {} combined {}", show_attr(&Some(oa.clone())), show_attr(&got)))); }
        continue
      }
      let (l, cl) = (oa.line, oa.col);
      let ic = ilines.get(&l).and_then(|v| v.iter().filter(|x| x.1.gc <= cl).last());
      let inner_attr = ic.and_then(|x| resolve(&ti, &x.1.orig));
      match (ic, inner_attr) {
        (Some(ic), Some(ia)) => {
          let Some(g) = &got else { v.push(finding("compose", format!("{what}: inner map assigns {} but combined is unmapped", show_attr(&Some(ia))))); continue };
          let off = cl - ic.1.gc;
          if g.file != ia.file || g.line != ia.line || g.col < ia.col || g.col > ia.col + off { v.push(finding("compose", format!("{what}: inner segment {} (offset into it {off}) but combined {}", show_attr(&Some(ia.clone())), show_attr(&got)))); continue }
          if g.content != ia.content { v.push(finding("content", format!("{what}: file {} reported with content {:?}, inner sourcesContent has {:?}", s(&g.file), g.content.as_ref().map(|x| s(x)), ia.content.as_ref().map(|x| s(x))))); }
          // names: inner name, else outer name only if it matches the original text, else none
          if g.col == ia.col && ia.name.is_some() { if g.name != ia.name { v.push(finding("name", format!("{what}: inner name {:?} but combined {:?}", ia.name.as_ref().map(|x| s(x)), g.name.as_ref().map(|x| s(x))))); } }
          else if let Some(n) = &g.name {
            let line = content_line(&ia.content, ia.line);
            let matches_text = line.map_or(false, |ln| ln.get(g.col as usize..).map_or(false, |r| r.len() >= n.len() && &r[..n.len()] == n.as_slice() || (r.len() < n.len() && r == n.as_slice())));
            if Some(n) != oa.name.as_ref() || !matches_text { v.push(finding("name", format!("{what}: combined name {:?} is neither the inner name nor an outer name matching the original text", s(n)))); }
          }
        }
        _ => {
          // no inner mapping: the inner source itself, or unmapped when removal is requested
          if *remove { if got.is_some() { v.push(finding("remove-original", format!("{what}: no inner mapping and removal requested, but combined {}", show_attr(&got)))); } }
          else {
            let want = RAttr { file: inner_name.clone().into_bytes(), content: inner_content.clone(), line: l, col: cl, name: oa.name.clone() };
            match &got { Some(g) if g.file == want.file && g.line == l && g.col == cl && g.name == want.name => { if g.content != want.content { v.push(finding("content", format!("{what}: the inner source itself is reported with content {:?}", g.content.as_ref().map(|x| s(x))))); } }
              _ => v.push(finding("fallback-inner-source", format!("{what}: expected the inner source itself {} but combined {}", show_attr(&Some(want)), show_attr(&got)))) }
          }
        }
      }
    }
  }
  v
}
pub fn c09() -> TreeProp {
  TreeProp {
    id: "C09",
    gen: Box::new(|rng, _thorough| {
      let cfg = GenCfg::ascii(0);
      let t = loop { if let t @ T::Sms { .. } = gen_combined(rng, &cfg) { break t } };
      let T::Sms { text, name, map, orig, inner, .. } = &t else { unreachable!() };
      let outer_only = T::Sms { text: text.clone(), name: name.clone(), map: map.clone(), orig: None, inner: None, remove: false };
      let orig_text = orig.clone().or_else(|| map.sources.iter().position(|x| x == name).and_then(|k| map.contents.get(k).cloned())).unwrap_or_default();
      let inner_only = T::Sms { text: orig_text, name: "x".into(), map: inner.clone().unwrap(), orig: None, inner: None, remove: false };
      let mut script = vec![];
      for cols in [true, false] { for i in 0..3 { script.push((i, Op::Stream(cols, false))); } }
      Case { trees: vec![t, outer_only, inner_only], script, note: "C09".into() }
    }),
    oracle: Box::new(c09_oracle),
    project: Box::new(|c, outs| c.script.iter().zip(outs).map(|((i, op), o)| match (op, o) {
      (Op::Stream(..), Out::Stream(st)) if *i == 0 => { let t = tables_of(&st.evs); format!("{}:{} {:?} tables {:?} {:?}", st.line, st.col, st.evs.iter().filter_map(|e| if let Ev::Chunk(_, m) = e { Some((m.gl, m.gc, show_attr(&resolve(&t, &m.orig)))) } else { None }).collect::<Vec<_>>(), t.sources, t.names) }
      (_, Out::Panic(_)) => "panic".into(),
      _ => String::new() }).collect()),
    nontrivial: Box::new(|c, outs| {
      // at least one chunk resolved through the inner map and one fallback / passthrough
      let (Some(Out::Stream(comb)), Some(Out::Stream(outer))) = (get(c, outs, 0, &Op::Stream(true, false)), get(c, outs, 1, &Op::Stream(true, false))) else { return false };
      let (tc, to) = (tables_of(&comb.evs), tables_of(&outer.evs));
      let a: Vec<Attr> = comb.evs.iter().filter_map(|e| if let Ev::Chunk(_, m) = e { Some(resolve(&tc, &m.orig)) } else { None }).collect();
      let b: Vec<Attr> = outer.evs.iter().filter_map(|e| if let Ev::Chunk(_, m) = e { Some(resolve(&to, &m.orig)) } else { None }).collect();
      a.len() == b.len() && a.iter().zip(&b).any(|(x, y)| x != y) && a.iter().zip(&b).any(|(x, y)| x == y && x.is_some())
    }),
    stats: Box::new(stats),
    known: Box::new(|_, _, _| None),
    corpus: vec![],
  }
}
