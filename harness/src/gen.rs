//! Case generators. Every random choice comes from the one `Rng` handed in.
#![allow(dead_code)]
use crate::core::*;
use rspack_sources::*;
use std::result::Result;

pub const ALPH: &[&str] = &["a", "b", "c", ";", "{", "}", " ", "\n", "\n", "x", "\t", "\r"];
pub const MB: &[&str] = &["é", "日", "😀"];
pub const ALPH_NO_NL: &[&str] = &["a", "b", "c", ";", "{", "}", " ", "x", "\t"];

/// a line whose byte length sits on a block boundary (64, 128, …) while its character count does not: multi-byte characters in
/// the last block, optionally after whole blocks of ASCII (index tables kept per block of characters or bytes: seed S139)
pub fn boundary_line(rng: &mut Rng) -> String {
  let mut s = String::new();
  for _ in 0..*rng.pick(&[0usize, 0, 64, 128]) { s.push_str(ALPH_NO_NL[rng.below(ALPH_NO_NL.len())]); }
  let target = s.len() + *rng.pick(&[64usize, 64, 63, 65, 128]);
  while s.len() < target {
    let left = target - s.len();
    let c = if left >= 4 && rng.chance(2) { MB[rng.below(3)] } else if left >= 2 && rng.chance(2) { MB[0] } else { ALPH_NO_NL[rng.below(ALPH_NO_NL.len())] };
    if c.len() <= left { s.push_str(c); }
  }
  s
}
pub fn text(rng: &mut Rng, maxlen: usize, mb: bool) -> String {
  if mb && maxlen >= 8 && rng.chance(40) {
    let mut s = boundary_line(rng);
    if rng.chance(2) { s.push('\n'); s.push_str(&text(rng, 4, false)); }
    return s
  }
  let n = rng.below(maxlen + 1);
  let mut s = String::new();
  for _ in 0..n { if mb && rng.chance(5) { s.push_str(MB[rng.below(3)]) } else { s.push_str(ALPH[rng.below(ALPH.len())]) } }
  s
}

#[derive(Clone, Copy, PartialEq, Eq, Debug)]
pub enum MapClass { Consistent, Wild, Backwards }

#[derive(Clone)]
pub struct GenCfg {
  pub depth: usize,
  pub maxlen: usize,
  pub mb: bool,
  /// weights consistent : wild : backwards
  pub map_w: (usize, usize, usize),
  pub sms: bool,
  pub combined: bool,
  pub binary: bool,
  pub replace: bool,
  pub cached: bool,
  /// allow Cached beneath Replace
  pub cached_under_replace: bool,
  pub repl_names: bool,
  pub max_repl: usize,
  /// original sources: fixed name -> content table (one content per name)
  pub fixed_files: bool,
  pub zero_width_eol: bool,
}
impl GenCfg {
  pub fn ascii(depth: usize) -> Self {
    GenCfg { depth, maxlen: 10, mb: false, map_w: (1, 0, 0), sms: true, combined: true, binary: false, replace: true, cached: true, cached_under_replace: true, repl_names: true, max_repl: 4, fixed_files: false, zero_width_eol: false }
  }
  pub fn wild(depth: usize) -> Self {
    GenCfg { mb: true, map_w: (6, 3, 1), binary: true, ..Self::ascii(depth) }
  }
}

pub const FILES: &[(&str, &str)] = &[
  ("f0.js", "ab;cd\nef {gh}\n\nlast"),
  ("f1.js", "x;\ny;\nz;\n"),
  ("f2.js", "a b c\n;;{}\n"),
  ("f3.js", "one line no break"),
  // lines that begin with separators and go on with statement text on the same line (seed S105), CR LF line ends, a line of blanks
  ("f4.js", "} else {\n;x = 1;\n{y}z\n"),
  ("f5.js", "a;\r\n} b\r\n \t\r\n;;c"),
];

/// a map consistent with `t`: sorted, every segment on a character of `t` (or zero-width at EOL when allowed)
pub fn gen_map(rng: &mut Rng, t: &str, zero_width_eol: bool, content_for: &dyn Fn(&str) -> String) -> SMapT {
  let nsrc = 1 + rng.below(3);
  let nnames = rng.below(4);
  let sources: Vec<String> = (0..nsrc).map(|i| format!("s{}.js", i)).collect();
  let mut names: Vec<String> = (0..nnames).map(|i| format!("n{}", i)).collect();
  if nnames >= 2 && rng.chance(4) { names[1] = names[0].clone(); } // duplicate name strings
  let mut ms: Vec<Mapping> = vec![];
  for (li, l) in t.split_inclusive('\n').enumerate() {
    let width = l.trim_end_matches('\n').len();
    let has_nl = l.ends_with('\n');
    let mut col = 0usize;
    let mut first = true;
    loop {
      if rng.chance(3) { break; }
      col += rng.below(3) + if first { 0 } else { 1 };
      first = false;
      // a segment must start on a character: the '\n' itself counts as a character of the line
      let limit = if has_nl { width + 1 } else { width };
      if zero_width_eol { if col > limit { break; } } else if col >= limit { break; }
      let orig = if rng.chance(5) { None } else {
        Some(OriginalLocation { source_index: rng.below(nsrc) as u32, original_line: 1 + rng.below(4) as u32, original_column: rng.below(6) as u32,
          name_index: if nnames > 0 && rng.chance(3) { Some(rng.below(nnames) as u32) } else { None } })
      };
      ms.push(Mapping { generated_line: li as u32 + 1, generated_column: col as u32, original: orig });
    }
  }
  let with_content = rng.chance(2);
  let fixed = FIXED_CONTENT_POLICY.with(|c| c.get());
  // fixed policy: whether a file has content depends on its name only (s2.js never has), so a name shared by several maps carries the same content everywhere
  let contents = if fixed { sources.iter().take(2).map(|s| content_for(s)).collect() } else if with_content {
    // now and then fewer contents than sources (non-empty but shorter: the crate produces that shape itself, e.g. ConcatSource[OriginalSource, SourceMapSource without contents].map())
    let mut c: Vec<String> = sources.iter().map(|s| content_for(s)).collect(); if nsrc >= 2 && rng.chance(3) { c.truncate(1 + rng.below(nsrc - 1)); } c } else { vec![] };
  // sourceRoot: absent, empty, without / with one / with several trailing slashes, a bare slash, a scheme
  let root = match rng.below(9) { 0 => Some("".to_string()), 1 => Some("r".to_string()), 2 => Some("r/".to_string()), 3 => Some(["r//", "webpack://", "/", "//", "a/b", "file:///"][rng.below(6)].to_string()), _ => None };
  SMapT { mappings: encode_any(rng, ms), sources, contents, names, file: if rng.chance(2) { Some("x".into()) } else { None }, root, debug_id: if rng.chance(5) { Some(["dbg", "0a1b"][rng.below(2)].to_string()) } else { None } }
}

thread_local! { pub static FIXED_CONTENT_POLICY: std::cell::Cell<bool> = std::cell::Cell::new(false); }
/// a plain source-map v3 encoder that writes EVERY segment (the crate's encoder drops leading 1-field segments and repeats,
/// so maps it produced never start a line with an unmapped segment)
pub fn raw_encode(ms: &[Mapping]) -> String {
  const ALPHA: &[u8] = b"ABCDEFGHIJKLMNOPQRSTUVWXYZabcdefghijklmnopqrstuvwxyz0123456789+/";
  fn vlq(out: &mut String, v: i64) { let mut n: u64 = if v < 0 { (((-v) as u64) << 1) | 1 } else { (v as u64) << 1 }; loop { let mut d = (n & 31) as u8; n >>= 5; if n > 0 { d |= 32; } out.push(ALPHA[d as usize] as char); if n == 0 { break } } }
  let mut out = String::new();
  let (mut line, mut gc, mut src, mut ol, mut oc, mut name) = (1u32, 0i64, 0i64, 1i64, 0i64, 0i64);
  let mut first = true;
  for m in ms {
    while line < m.generated_line { out.push(';'); line += 1; gc = 0; first = true; }
    if !first { out.push(','); }
    first = false;
    vlq(&mut out, m.generated_column as i64 - gc); gc = m.generated_column as i64;
    if let Some(o) = &m.original {
      vlq(&mut out, o.source_index as i64 - src); src = o.source_index as i64;
      vlq(&mut out, o.original_line as i64 - ol); ol = o.original_line as i64;
      vlq(&mut out, o.original_column as i64 - oc); oc = o.original_column as i64;
      if let Some(n) = o.name_index { vlq(&mut out, n as i64 - name); name = n as i64; }
    }
  }
  out
}
pub fn encode_any(rng: &mut Rng, ms: Vec<Mapping>) -> String { if rng.chance(2) { raw_encode(&ms) } else { encode_mappings(ms.into_iter()) } }

pub fn default_content(s: &str) -> String { format!("content of {s}\nline2 abc;\nline3\nline4\n") }

/// sorted (or not) segments anywhere, indices possibly outside the tables
pub fn gen_wild_map(rng: &mut Rng, sorted: bool) -> SMapT {
  let nsrc = rng.below(3);
  let nnames = rng.below(3);
  let sources: Vec<String> = (0..nsrc).map(|i| format!("s{}.js", i)).collect();
  let names: Vec<String> = (0..nnames).map(|i| format!("n{}", i)).collect();
  let mut ms = vec![];
  let mut gl = 1u32;
  let mut gc = 0u32;
  for _ in 0..rng.below(6) {
    if rng.chance(3) { let d = rng.below(3) as u32; gl += d; if d > 0 || !sorted { gc = 0; } }
    if sorted { gc = gc.saturating_add(rng.below(5) as u32); } else { gc = rng.below(8) as u32; }
    // extremes of the u32 fields (a small mappings string can carry any column / original position / index; lines only grow by ';')
    let big = |rng: &mut Rng| [u32::MAX, u32::MAX - 1, u32::MAX - 7, 1 << 31, (1 << 31) - 1, 70000][rng.below(6)];
    if rng.chance(10) { gc = big(rng); }
    let orig = if rng.chance(4) { None } else {
      let mut o = OriginalLocation { source_index: rng.below(4) as u32, original_line: rng.below(4) as u32, original_column: rng.below(12) as u32,
        name_index: if rng.chance(3) { Some(rng.below(4) as u32) } else { None } };
      if rng.chance(12) { o.original_line = big(rng); }
      if rng.chance(12) { o.original_column = big(rng); }
      if rng.chance(16) { o.source_index = big(rng); }
      if rng.chance(16) && o.name_index.is_some() { o.name_index = Some(big(rng)); }
      Some(o)
    };
    ms.push(Mapping { generated_line: gl, generated_column: gc, original: orig });
  }
  let contents = if rng.chance(2) { sources.iter().map(|s| default_content(s)).collect() } else { vec![] };
  SMapT { mappings: encode_any(rng, ms), sources, contents, names, file: None, root: None, debug_id: None }
}

pub fn gen_any_map(rng: &mut Rng, cfg: &GenCfg, t: &str) -> (SMapT, MapClass) {
  let (a, b, c) = cfg.map_w;
  let k = rng.below(a + b + c);
  if k < a { (gen_map(rng, t, cfg.zero_width_eol, &default_content), MapClass::Consistent) }
  else if k < a + b { (gen_wild_map(rng, true), MapClass::Wild) }
  else { (gen_wild_map(rng, false), MapClass::Backwards) }
}

pub fn align(s: &str, mut p: usize) -> usize { while p < s.len() && !s.is_char_boundary(p) { p += 1; } p }

pub fn gen_repls(rng: &mut Rng, cfg: &GenCfg, inner_src: &str) -> Vec<ReplT> {
  let len = inner_src.len();
  let n = rng.below(cfg.max_repl + 1);
  // interesting positions: 0, line borders, len, len+k
  let mut borders: Vec<usize> = vec![0, len, len + 1, len + 3];
  for (i, b) in inner_src.bytes().enumerate() { if b == b'\n' { borders.push(i); borders.push(i + 1); } }
  let mut rs: Vec<ReplT> = vec![];
  for _ in 0..n {
    let mut a = if rng.chance(3) { *rng.pick(&borders) } else { rng.below(len + 3) };
    if !rs.is_empty() && rng.chance(5) { a = rs[rng.below(rs.len())].start as usize; } // colliding keys
    a = align(inner_src, a);
    // far beyond the end, up to the largest u32
    if rng.chance(16) { a = [u32::MAX as usize - 2, (1usize << 31) - 1, 70000][rng.below(3)]; }
    let mut b = a + if rng.chance(2) { 0 } else { rng.below(3) };
    if !rs.is_empty() && rng.chance(8) { b = (rs[rng.below(rs.len())].end as usize).max(a); }
    b = align(inner_src, b).max(a);
    let content = if rng.chance(6) { String::new() } else { text(rng, 4, cfg.mb) };
    rs.push(ReplT { start: a as u32, end: b as u32, content, name: if cfg.repl_names && rng.chance(3) { Some(format!("rn{}", rng.below(2))) } else { None }, enforce: if rng.chance(3) { rng.below(3) as u8 } else { 1 } });
  }
  rs
}

pub struct TreeGen { pub next_cached: u32 }

impl TreeGen {
  pub fn new() -> Self { TreeGen { next_cached: 0 } }
  pub fn leaf(&mut self, rng: &mut Rng, cfg: &GenCfg) -> T {
    loop {
      match rng.below(7) {
        0 => return T::Raw(text(rng, cfg.maxlen, cfg.mb)),
        1 => return T::RawStr(text(rng, cfg.maxlen, cfg.mb)),
        2 => {
          if cfg.fixed_files { let f = rng.pick(FILES); return T::Orig(f.1.to_string(), f.0.to_string()) }
          return T::Orig(text(rng, cfg.maxlen + 2, cfg.mb), format!("f{}.js", rng.below(3)))
        }
        3 => {
          let t = text(rng, cfg.maxlen, cfg.mb);
          if cfg.binary && rng.chance(3) { let mut b = t.into_bytes(); if !b.is_empty() { let i = rng.below(b.len()); b[i] = 0xC3; } if rng.chance(2) { b.push(0xFF); } return T::RawBuf(b) }
          return T::RawBuf(t.into_bytes())
        }
        4 => {
          let t = text(rng, cfg.maxlen, cfg.mb);
          if cfg.binary && rng.chance(2) { let mut b = t.into_bytes(); b.push(0x80); return T::RawB(b) }
          return T::RawB(t.into_bytes())
        }
        5 if cfg.sms => {
          let t = text(rng, cfg.maxlen + 2, cfg.mb);
          let (m, _) = gen_any_map(rng, cfg, &t);
          return T::Sms { text: t, name: "sms.js".into(), map: m, orig: None, inner: None, remove: false }
        }
        6 if cfg.sms && cfg.combined => return gen_combined(rng, cfg),
        _ => continue,
      }
    }
  }
  pub fn tree(&mut self, rng: &mut Rng, cfg: &GenCfg, depth: usize, under_replace: bool) -> T {
    if depth == 0 || rng.chance(4) { return self.leaf(rng, cfg) }
    loop {
      match rng.below(4) {
        0 | 1 => {
          let n = rng.below(4);
          let cs = (0..n).map(|_| { let c = self.tree(rng, cfg, depth - 1, under_replace); (matches!(c, T::Concat(_)) && rng.chance(2), c) }).collect();
          return T::Concat(cs)
        }
        2 if cfg.replace => {
          let inner = self.tree(rng, cfg, depth - 1, true);
          let s = src_of(&inner);
          let rs = gen_repls(rng, cfg, &s);
          return T::Replace(Box::new(inner), rs)
        }
        3 if cfg.cached && (cfg.cached_under_replace || !under_replace) => {
          let id = self.next_cached; self.next_cached += 1;
          return T::Cached(id, Box::new(self.tree(rng, cfg, depth - 1, under_replace)))
        }
        _ => continue,
      }
    }
  }
}

/// the text a tree denotes, computed by the independent reference (never by the crate, whose defects must not derail generation)
pub fn src_of(t: &T) -> String { String::from_utf8_lossy(&crate::refmodel::ref_src(t)).to_string() }

/// a SourceMapSource with inner map: outer map points (partly) into the inner source `name`
pub fn gen_combined(rng: &mut Rng, cfg: &GenCfg) -> T {
  let orig_text = text(rng, cfg.maxlen + 4, false);
  let gen_text = text(rng, cfg.maxlen + 2, false);
  let inner_name_owned = if cfg.fixed_files { format!("inner{}.js", rng.below(1 << 20)) } else { "inner.js".to_string() };
  let inner_name: &str = &inner_name_owned;
  // inner map over orig_text
  let mut inner = if cfg.fixed_files { gen_map(rng, &orig_text, false, &default_content) } else { gen_map(rng, &orig_text, false, &|s| format!("ab;cd {s}\nsecond line;\nthird\n")) };
  // the inner map's files live in their own name space (a name shared with the outer map would have to carry the same content)
  for (k, sname) in inner.sources.iter_mut().enumerate() { *sname = format!("in{k}.js"); }
  let self_named = rng.chance(if cfg.mb { 3 } else { 8 }); // inner source also named like the inner file (see below)
  // outer map over gen_text, one of the sources is the inner source name
  let mut outer = gen_map(rng, &gen_text, false, &default_content);
  let k = rng.below(outer.sources.len());
  outer.sources[k] = inner_name.to_string();
  // outer names that really occur in the inner map's file contents at the composed locations (the "outer name only if it matches the
  // original text" branch is otherwise never taken: seed S55)
  if !cfg.fixed_files && rng.chance(2) {
    const POOL: &[&str] = &["a", "ab", "b", "b;", ";", "c", "cd", "d", "s", "se", "e", "t", "th", "h", "ab;cd", "second", "third"];
    for nm in outer.names.iter_mut() { if rng.chance(2) { *nm = POOL[rng.below(POOL.len())].to_string(); } }
  }
  // a file named like the generated text (such a name once served as de-duplication key for the inner source: F15)
  if !cfg.fixed_files && !gen_text.is_empty() && rng.chance(8) {
    if outer.sources.len() > 1 && rng.chance(2) { let k2 = (k + 1) % outer.sources.len(); outer.sources[k2] = gen_text.clone(); }
    else { let n = inner.sources.len(); inner.sources[rng.below(n)] = gen_text.clone(); }
  }
  // make the outer locations point into orig_text
  let lines: Vec<&str> = orig_text.split_inclusive('\n').collect();
  let mut ms: Vec<Mapping> = SourceMap::new(outer.mappings.clone(), vec![], vec![], vec![]).decoded_mappings().collect();
  for m in ms.iter_mut() {
    if let Some(o) = m.original.as_mut() {
      if o.source_index as usize == k && !lines.is_empty() && !rng.chance(6) {
        let l = rng.below(lines.len());
        o.original_line = l as u32 + 1;
        o.original_column = rng.below(lines[l].len().max(1)) as u32;
      }
    }
  }
  // name rule: give some outer segments a name that is exactly the original text at the location the inner map assigns (seed S55)
  if !cfg.fixed_files && !self_named && rng.chance(3) {
    let ims: Vec<Mapping> = SourceMap::new(inner.mappings.clone(), vec![], vec![], vec![]).decoded_mappings().collect();
    for m in ms.iter_mut() {
      let Some(o) = m.original.as_mut() else { continue };
      if o.source_index as usize != k || rng.chance(3) { continue }
      let Some(seg) = ims.iter().filter(|x| x.generated_line == o.original_line && x.generated_column <= o.original_column).last() else { continue };
      let Some(io) = &seg.original else { continue };
      let Some(content) = inner.contents.get(io.source_index as usize) else { continue };
      let Some(line) = content.split_inclusive('\n').nth(io.original_line.saturating_sub(1) as usize) else { continue };
      let start = io.original_column as usize;
      let len = 1 + rng.below(2);
      let Some(sub) = line.get(start..(start + len).min(line.len())) else { continue };
      if sub.is_empty() || sub.contains('\n') { continue }
      if outer.names.is_empty() { outer.names.push("n0".into()); }
      let j = rng.below(outer.names.len());
      outer.names[j] = sub.to_string();
      o.name_index = Some(j as u32);
    }
  }
  outer.mappings = encode_mappings(ms.into_iter());
  let give_orig = rng.chance(2) || (!outer.contents.is_empty() && k >= outer.contents.len());
  if !give_orig && !outer.contents.is_empty() { outer.contents[k] = orig_text.clone(); }
  if !give_orig && outer.contents.is_empty() { outer.contents = outer.sources.iter().map(|s| if s == inner_name { orig_text.clone() } else { default_content(s) }).collect(); }
  outer.root = None;
  // (with fixed file contents every name has one content across the whole case: only maps that list all contents take part)
  if self_named && (!cfg.fixed_files || inner.contents.len() >= inner.sources.len()) {
    // the same file under the same name: it has to carry the same content wherever it is listed
    inner.sources[0] = inner_name.to_string();
    if inner.contents.len() < inner.sources.len() { inner.contents = inner.sources.iter().map(|s| format!("ab;cd {s}\nsecond line;\nthird\n")).collect(); }
    inner.contents[0] = orig_text.clone();
  }
  T::Sms { text: gen_text, name: inner_name.into(), map: outer, orig: if give_orig { Some(orig_text) } else { None }, inner: Some(inner), remove: rng.chance(3) }
}
