//! Operations on a built source and on its model; observations.
#![allow(dead_code)]
use crate::core::*;
use rspack_sources::*;
use std::result::Result;
use std::hash::Hasher;

#[derive(Clone, Debug, PartialEq, Eq, Hash)]
pub enum Op { Src, Buffer, Size, Rope, Writer(usize), Stream(bool, bool), Map(bool), Hash, Eq(usize), CloneCheck, CustomStream(bool, bool), StreamKeep(bool, bool) }

#[derive(Clone, Debug, PartialEq, Eq, Hash)]
pub enum Out {
  Text(Bytes),
  Num(u64),
  Rope(Option<Bytes>),
  Writer(bool, Bytes),
  Stream(SRes),
  Map(Option<SMapT>),
  Calls(Vec<String>),
  Panic(String),
  Bad(String),
}
impl Out {
  pub fn stream(&self) -> Option<&SRes> { if let Out::Stream(s) = self { Some(s) } else { None } }
  pub fn map(&self) -> Option<&Option<SMapT>> { if let Out::Map(s) = self { Some(s) } else { None } }
  pub fn text(&self) -> Option<&Bytes> { if let Out::Text(s) = self { Some(s) } else { None } }
  pub fn is_panic(&self) -> bool { matches!(self, Out::Panic(_)) }
}

pub struct FailWriter { pub budget: usize, pub written: Vec<u8> }
impl std::io::Write for FailWriter {
  fn write(&mut self, buf: &[u8]) -> std::io::Result<usize> {
    if self.budget == 0 && !buf.is_empty() { return Err(std::io::Error::new(std::io::ErrorKind::Other, "budget")) }
    let n = buf.len().min(self.budget);
    self.written.extend_from_slice(&buf[..n]);
    self.budget -= n;
    Ok(n)
  }
  fn flush(&mut self) -> std::io::Result<()> { Ok(()) }
}

/// records every `write*` call with its kind
pub struct RecHasher { pub calls: Vec<String> }
impl Hasher for RecHasher {
  fn finish(&self) -> u64 { 0 }
  fn write(&mut self, bytes: &[u8]) { self.calls.push(format!("b{}", hx(bytes))); }
  fn write_u8(&mut self, i: u8) { self.calls.push(format!("u8:{i}")); }
  fn write_u32(&mut self, i: u32) { self.calls.push(format!("u32:{i}")); }
  fn write_u64(&mut self, i: u64) { self.calls.push(format!("u64:{i}")); }
  fn write_usize(&mut self, i: usize) { self.calls.push(format!("us:{i}")); }
  fn write_isize(&mut self, i: isize) { self.calls.push(format!("is:{i}")); }
}
pub fn rec_calls(s: &dyn Source) -> Vec<String> { let mut h = RecHasher { calls: vec![] }; s.dyn_hash(&mut h); h.calls }
pub fn real_hash(s: &dyn Source) -> u64 { let mut h = std::collections::hash_map::DefaultHasher::new(); s.dyn_hash(&mut h); h.finish() }

pub fn run_op_impl(s: &(dyn Source + 'static), op: &Op) -> Out {
  let r = catch(|| match op {
    Op::Src => Out::Text(s.source().as_bytes().to_vec()),
    Op::Buffer => Out::Text(s.buffer().to_vec()),
    Op::Size => Out::Num(s.size() as u64),
    Op::Rope => Out::Rope(Some(s.rope().to_bytes().to_vec())),
    Op::Writer(k) => { let mut w = FailWriter { budget: *k, written: vec![] }; let ok = s.to_writer(&mut w).is_ok(); Out::Writer(ok, w.written) }
    Op::Stream(c, f) => Out::Stream(run_stream(s, *c, *f)),
    Op::StreamKeep(c, f) => Out::Stream(run_stream_keep(s, *c, *f)),
    Op::Map(c) => Out::Map(s.map(&MapOptions::new(*c)).map(|m| SMapT::of(&m))),
    Op::Hash => Out::Calls(rec_calls(s)),
    Op::Eq(_) => Out::Bad("Eq needs two trees".into()),
    Op::CustomStream(..) => Out::Bad("CustomStream needs the case tree".into()),
    Op::CloneCheck => {
      let c: Box<dyn Source> = dyn_clone::clone_box(s);
      let eq = (c.as_ref() == s) as u64;
      let hash = (rec_calls(c.as_ref()) == rec_calls(s)) as u64;
      let src = (c.source() == s.source() && c.buffer() == s.buffer() && c.size() == s.size()) as u64;
      let map = (c.map(&MapOptions::default()) == s.map(&MapOptions::default()) && c.map(&MapOptions::new(false)) == s.map(&MapOptions::new(false))) as u64;
      Out::Num(eq | hash << 1 | src << 2 | map << 3)
    }
  });
  match r { Ok(o) => o, Err(m) => Out::Panic(panic_kind(&m).to_string() + ": " + &m) }
}

pub fn op_proto(name: &str, op: &Op) -> String {
  let b = |x: &bool| if *x { 1 } else { 0 };
  match op {
    Op::Src => format!("src {name}"),
    Op::Buffer => format!("buffer {name}"),
    Op::Size => format!("size {name}"),
    Op::Rope => format!("rope {name}"),
    Op::Writer(k) => format!("writer {name} {k}"),
    // a build with overflow checks (the debug profile) is compared with the model in which ConcatSource's u32 additions are partial too
    Op::Stream(c, f) => format!("{} {name} {} {}", if cfg!(debug_assertions) { "chkstream" } else { "stream" }, b(c), b(f)),
    Op::Map(c) => format!("map {name} {} 0", b(c)),
    Op::Hash => format!("feed {name} 0"),
    Op::Eq(j) => format!("eq {name} A{j}"),
    Op::CloneCheck => format!("clonecheck {name}"),
    Op::CustomStream(c, f) | Op::StreamKeep(c, f) => format!("{} {name} {} {}", if cfg!(debug_assertions) { "chkstream" } else { "stream" }, b(c), b(f)),
  }
}

pub fn parse_out(op: &Op, resp: &str) -> Out {
  if resp == "bad-op" { return Out::Bad("bad-op".into()) }
  // the checked model (Model/Checked.lean) reached a site where the Rust panics
  if resp == "trap" { return Out::Panic("trap: checked model".into()) }
  let mut t = Toks::new(resp);
  let r: Result<Out, String> = (|| Ok(match op {
    Op::Src | Op::Buffer => Out::Text(t.bytes()?),
    Op::Hash => Out::Calls(t.list(|t| Ok(t.tok()?.to_string()))?),
    Op::Size | Op::Eq(_) | Op::CloneCheck => Out::Num(t.num()?),
    Op::Rope => match t.tok()? { "ok" => Out::Rope(Some(t.bytes()?)), _ => Out::Panic("charboundary: model".into()) },
    Op::Writer(_) => { let ok = t.num()? == 1; Out::Writer(ok, t.bytes()?) }
    Op::Stream(..) | Op::CustomStream(..) | Op::StreamKeep(..) => Out::Stream(t.sres()?),
    Op::Map(_) => Out::Map(t.opt(|t| t.smap())?),
  }))();
  match r { Ok(o) => o, Err(e) => Out::Bad(format!("{e}: {resp}")) }
}

/// run tree + ops on the real crate
pub fn run_impl(t: &T, ops: &[Op]) -> Vec<Out> {
  let built = catch(|| Ctx::default().build(t));
  match built {
    Ok(s) => ops.iter().map(|op| run_op_impl(s.as_ref(), op)).collect(),
    Err(m) => ops.iter().map(|_| Out::Panic(format!("build: {m}"))).collect(),
  }
}

/// run tree + ops on the model
pub fn run_model(d: &mut Driver, t: &T, ops: &[Op]) -> Vec<Out> {
  let mut reqs = vec!["reset".to_string(), format!("tree A {}", t.proto())];
  for op in ops { reqs.push(op_proto("A", op)); }
  let resp = d.ask(&reqs);
  if resp[0] != "ok" || resp[1] != "ok" { return ops.iter().map(|_| Out::Bad(format!("tree rejected: {}", resp[1]))).collect() }
  ops.iter().zip(resp[2..].iter()).map(|(op, r)| parse_out(op, r)).collect()
}

/// a user-defined source served through the public default streaming helper (C08)
#[derive(Clone, Debug, PartialEq, Eq, Hash)]
pub struct Custom { pub text: String, pub map: Option<SourceMap> }
impl Source for Custom {
  fn source(&self) -> std::borrow::Cow<str> { std::borrow::Cow::Borrowed(&self.text) }
  fn rope(&self) -> Rope<'_> { Rope::from(&self.text) }
  fn buffer(&self) -> std::borrow::Cow<[u8]> { std::borrow::Cow::Borrowed(self.text.as_bytes()) }
  fn size(&self) -> usize { self.text.len() }
  fn map(&self, _: &MapOptions) -> Option<SourceMap> { self.map.clone() }
  fn to_writer(&self, w: &mut dyn std::io::Write) -> std::io::Result<()> { w.write_all(self.text.as_bytes()) }
}
impl rspack_sources::stream_chunks::StreamChunks for Custom {
  fn stream_chunks<'a>(&'a self, options: &MapOptions, on_chunk: rspack_sources::stream_chunks::OnChunk<'_, 'a>, on_source: rspack_sources::stream_chunks::OnSource<'_, 'a>, on_name: rspack_sources::stream_chunks::OnName<'_, 'a>) -> rspack_sources::stream_chunks::GeneratedInfo {
    rspack_sources::stream_chunks::stream_chunks_default(self.text.as_str(), self.map.as_ref(), options, on_chunk, on_source, on_name)
  }
}
