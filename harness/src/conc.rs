//! C18: real threads under a token-passing controller at the library's schedule points.
#![allow(dead_code)]
use crate::attr::*;
use crate::core::*;
use rspack_sources::*;
use serde_json::json;
use std::cell::Cell;
use std::collections::BTreeMap;
use std::hash::Hasher;
use std::sync::{Arc, Condvar, Mutex};
use std::time::{Duration, Instant};

#[derive(Clone, Copy, Debug, PartialEq, Eq, Hash)]
pub enum COp { Sorted, Clone, CMap, CStream, Once, CStreamKeep }
impl COp { fn tok(&self) -> &'static str { match self { COp::Sorted => "s", COp::Clone => "c", COp::CMap => "m", COp::CStream | COp::CStreamKeep => "t", COp::Once => "o" } } }

#[derive(Clone, Copy, PartialEq, Eq, Debug)]
enum St { NotStarted, AtPoint, Running, Done }

struct CtlState { status: Vec<St>, site: Vec<&'static str>, granted: Option<usize>, log: Vec<(usize, &'static str)>, free_run: bool }
pub struct Ctl { st: Mutex<CtlState>, cv: Condvar }

thread_local! { static TID: Cell<Option<usize>> = Cell::new(None); static PRIVATE: Cell<bool> = Cell::new(false); }
static CTL: Mutex<Option<Arc<Ctl>>> = Mutex::new(None);
/// identity (address of the shared `mappings` allocation) of every map handed out by `CachedSource::map` during a scheduled run
static MAP_PTRS: Mutex<Vec<usize>> = Mutex::new(Vec::new());

fn hook(site: &'static str) {
  let Some(tid) = TID.with(|t| t.get()) else { return };
  if PRIVATE.with(|p| p.get()) { return }
  let ctl = CTL.lock().unwrap_or_else(|e| e.into_inner()).clone();
  if let Some(ctl) = ctl { ctl.at_point(tid, site); }
}

impl Ctl {
  /// called by a worker before a shared-state access: wait for the turn
  fn at_point(&self, tid: usize, site: &'static str) {
    let mut g = self.st.lock().unwrap_or_else(|e| e.into_inner());
    g.status[tid] = St::AtPoint; g.site[tid] = site;
    self.cv.notify_all();
    while !(g.granted == Some(tid) || g.free_run) { g = self.cv.wait(g).unwrap_or_else(|e| e.into_inner()); }
    if g.granted == Some(tid) { g.granted = None; }
    g.status[tid] = St::Running;
    g.log.push((tid, site));
    self.cv.notify_all();
  }
  fn done(&self, tid: usize) { let mut g = self.st.lock().unwrap_or_else(|e| e.into_inner()); g.status[tid] = St::Done; self.cv.notify_all(); }
}

#[derive(Clone, Debug)]
pub struct Config { pub progs: Vec<Vec<COp>>, pub nrepl: usize, pub cached_sms: bool }

fn shared_objects(cfg: &Config) -> (ReplaceSource<BoxSource>, CachedSource<BoxSource>) {
  let mut r = ReplaceSource::new(RawSource::from("abc\ndef;ghi\n").boxed());
  for k in 0..cfg.nrepl { r.replace((7 - 2 * k) as u32, (8 - 2 * k) as u32, &format!("<{k}>"), None); }
  let inner: BoxSource = if cfg.cached_sms {
    SourceMapSource::new(WithoutOriginalOptions { value: "ab;cd\nef", name: "x.js", source_map: SourceMap::new("AAAA,GAAG;AACA", vec!["o.js".to_string()], vec!["ab;cd\nef".to_string()], vec![]) }).boxed()
  } else { ConcatSource::new([OriginalSource::new("ab;cd\nef", "o.js").boxed(), RawSource::from("tail").boxed()]).boxed() };
  (r, CachedSource::new(inner))
}

/// canonical answer of one operation (compared with the single-threaded answer)
fn do_op(op: COp, r: &ReplaceSource<BoxSource>, c: &CachedSource<BoxSource>) -> String {
  match op {
    COp::Sorted => hx(r.source().as_bytes()),
    COp::Clone => { let cl = r.clone(); PRIVATE.with(|p| p.set(true)); let s = hx(cl.source().as_bytes()); PRIVATE.with(|p| p.set(false)); s }
    COp::CMap => { let m = c.map(&MapOptions::new(true));
      if TID.with(|t| t.get()).is_some() { if let Some(m) = &m { MAP_PTRS.lock().unwrap_or_else(|e| e.into_inner()).push(m.mappings().as_ptr() as usize); } }
      let src = c.source().as_bytes().to_vec(); format!("{:?}", m.map(|m| attr_map(&SMapT::of(&m), &src).iter().map(|a| show_attr(&no_content(a))).collect::<Vec<_>>())) }
    COp::CStream => { let st = run_stream(c, true, false); format!("{}:{} {:?}", st.line, st.col, attr_stream(&st).iter().map(|a| show_attr(&no_content(a))).collect::<Vec<_>>()) }
    // streaming with callbacks that are schedule points themselves and that keep what they borrow (C19)
    COp::CStreamKeep => {
      let (st, bad) = run_stream_keep_checked(c, true, false, &|| hook("cb.chunk"));
      let a = format!("{}:{} {:?}", st.line, st.col, attr_stream(&st).iter().map(|a| show_attr(&no_content(a))).collect::<Vec<_>>());
      match bad { Some(b) => format!("KEPT-BORROW-CHANGED {b} // {a}"), None => a }
    }
    COp::Once => { let mut h = std::collections::hash_map::DefaultHasher::new(); { use std::hash::Hash; c.hash(&mut h); } h.finish().to_string() }
  }
}

pub struct RunOut { pub map_ptrs: Vec<usize>, pub answers: Vec<Vec<String>>, pub log: Vec<(usize, &'static str)>, pub deadlock: bool, pub timeouts: u64, pub violations: Vec<&'static str>, pub panics: Vec<String> }

/// run `cfg` with real threads following `schedule` (thread ids), then let everything finish
pub fn run_scheduled(cfg: &Config, schedule: &[usize]) -> RunOut {
  let n = cfg.progs.len();
  let ctl = Arc::new(Ctl { st: Mutex::new(CtlState { status: vec![St::NotStarted; n], site: vec![""; n], granted: None, log: vec![], free_run: false }), cv: Condvar::new() });
  *CTL.lock().unwrap_or_else(|e| e.into_inner()) = Some(ctl.clone());
  let _ = verif::take_unsafe_violations();
  MAP_PTRS.lock().unwrap_or_else(|e| e.into_inner()).clear();
  let (r, c) = shared_objects(cfg);
  let (r, c) = (Arc::new(r), Arc::new(c));
  let mut handles = vec![];
  for (tid, prog) in cfg.progs.iter().enumerate() {
    let (r, c, ctl, prog) = (r.clone(), c.clone(), ctl.clone(), prog.clone());
    handles.push(std::thread::spawn(move || {
      TID.with(|t| t.set(Some(tid)));
      let mut out = vec![];
      for op in prog { out.push(match catch(|| do_op(op, &r, &c)) { Ok(s) => s, Err(m) => format!("panic {m}") }); }
      TID.with(|t| t.set(None));
      ctl.done(tid);
      out
    }));
  }
  let mut timeouts = 0u64;
  let wait_step = Duration::from_millis(15);
  // follow the schedule
  for &t in schedule {
    let mut g = ctl.st.lock().unwrap_or_else(|e| e.into_inner());
    // wait until the thread is at a point (or done / busy)
    let t0 = Instant::now();
    while g.status[t] == St::NotStarted && t0.elapsed() < Duration::from_millis(200) { g = ctl.cv.wait_timeout(g, Duration::from_millis(5)).unwrap_or_else(|e| e.into_inner()).0; }
    if g.status[t] != St::AtPoint { continue }   // done, or still running (blocked on a real lock)
    g.granted = Some(t);
    ctl.cv.notify_all();
    let t1 = Instant::now();
    // wait until it reaches its next point or finishes; a thread that does not is blocked on a real lock
    loop {
      g = ctl.cv.wait_timeout(g, Duration::from_millis(2)).unwrap_or_else(|e| e.into_inner()).0;
      if g.granted.is_none() && g.status[t] != St::Running { break }
      if t1.elapsed() > wait_step { if g.granted.is_none() { timeouts += 1; } break }
    }
  }
  // free run
  { let mut g = ctl.st.lock().unwrap_or_else(|e| e.into_inner()); g.free_run = true; ctl.cv.notify_all(); }
  let t2 = Instant::now();
  let mut deadlock = false;
  loop {
    let g = ctl.st.lock().unwrap_or_else(|e| e.into_inner());
    if g.status.iter().all(|s| *s == St::Done) { break }
    drop(g);
    if t2.elapsed() > Duration::from_secs(5) { deadlock = true; break }
    std::thread::sleep(Duration::from_millis(1));
  }
  let mut answers = vec![]; let mut panics = vec![];
  if deadlock { answers = vec![vec!["deadlock".to_string()]; n]; std::mem::forget(handles); }
  else { for h in handles { match h.join() { Ok(v) => answers.push(v), Err(_) => { answers.push(vec!["panic".into()]); panics.push("thread panicked".into()); } } } }
  let log = ctl.st.lock().unwrap_or_else(|e| e.into_inner()).log.clone();
  *CTL.lock().unwrap_or_else(|e| e.into_inner()) = None;
  RunOut { map_ptrs: std::mem::take(&mut *MAP_PTRS.lock().unwrap_or_else(|e| e.into_inner())), answers, log, deadlock, timeouts, violations: verif::take_unsafe_violations(), panics }
}

pub fn sequential_answers(cfg: &Config) -> BTreeMap<COp, String> {
  let mut m = BTreeMap::new();
  for op in [COp::Sorted, COp::Clone, COp::CMap, COp::CStream, COp::Once] { let (r, c) = shared_objects(cfg); m.insert(op, do_op(op, &r, &c)); }
  let t = m[&COp::CStream].clone(); m.insert(COp::CStreamKeep, t);
  m
}
impl PartialOrd for COp { fn partial_cmp(&self, o: &Self) -> Option<std::cmp::Ordering> { Some(self.cmp(o)) } }
impl Ord for COp { fn cmp(&self, o: &Self) -> std::cmp::Ordering { (*self as u8).cmp(&(*o as u8)) } }

/// the observed order of shared-state accesses as a model schedule (one model step per schedule point)
fn model_schedule(log: &[(usize, &'static str)]) -> Vec<usize> { log.iter().filter(|(_, s)| !s.starts_with("cb.")).map(|(t, _)| *t).collect() }

pub fn gen_config(rng: &mut Rng) -> Config {
  let n = 2 + rng.below(2);
  let ops = [COp::Sorted, COp::Clone, COp::CMap, COp::CStream, COp::Once, COp::CStreamKeep];
  // mostly ops on one of the two shared objects so that threads collide
  let family = rng.below(4);
  let progs = (0..n).map(|_| (0..1 + rng.below(3)).map(|_| match family { 0 => ops[rng.below(2)], 1 => ops[2 + rng.below(4)], 2 => [COp::CStream, COp::CStreamKeep, COp::CStreamKeep, COp::CMap][rng.below(4)], _ => ops[rng.below(6)] }).collect()).collect();
  Config { progs, nrepl: 1 + rng.below(3), cached_sms: rng.chance(2) }
}

pub fn run(seed: u64, nsched: u64, driver: &str, thorough: bool, prop: &str) -> serde_json::Value {
  verif::set_sched_hook(Some(Arc::new(hook)));
  let mut rng = Rng::new(seed);
  let mut d = Driver::spawn(driver);
  let mut failures: Vec<serde_json::Value> = vec![];
  let (mut runs, mut validated, mut timeouts, mut switches_in_window) = (0u64, 0u64, 0u64, 0u64);
  let mut dist: BTreeMap<String, u64> = BTreeMap::new();
  let mut samples = vec![]; let mut distinct = std::collections::HashSet::new();
  let mut configs: Vec<Config> = vec![
    Config { progs: vec![vec![COp::Clone], vec![COp::Sorted]], nrepl: 2, cached_sms: false },
    Config { progs: vec![vec![COp::CMap], vec![COp::CStream]], nrepl: 1, cached_sms: false },
    Config { progs: vec![vec![COp::CMap, COp::CMap], vec![COp::CStream, COp::CMap], vec![COp::Once, COp::CStream]], nrepl: 1, cached_sms: true },
    // a cold stream parked in its callbacks while another thread fills the cache and replays from it
    Config { progs: vec![vec![COp::CStreamKeep], vec![COp::CStream, COp::CStreamKeep]], nrepl: 1, cached_sms: true },
    Config { progs: vec![vec![COp::CStreamKeep, COp::CStreamKeep], vec![COp::CStreamKeep, COp::CMap]], nrepl: 1, cached_sms: false },
  ];
  let mut k = 0u64;
  while runs < nsched {
    let cfg = if (k as usize) < configs.len() { configs[k as usize].clone() } else { gen_config(&mut rng) };
    if (k as usize) >= configs.len() { configs.push(cfg.clone()); }
    k += 1;
    let seq = sequential_answers(&cfg);
    let per_cfg = if thorough { 40 } else { 8 };
    for j in 0..per_cfg {
      if runs >= nsched { break }
      // schedules: fixed critical ones first, then random
      let total_steps: usize = cfg.progs.iter().map(|p| p.iter().map(|o| if *o == COp::CStreamKeep { 12 } else { 4 }).sum::<usize>() + 1).sum();
      let schedule: Vec<usize> = if j == 0 { (0..total_steps).map(|i| i % cfg.progs.len()).collect() }
        else if j == 1 { let mut v = vec![0usize]; for _ in 0..total_steps { v.push(1 % cfg.progs.len()); } v.extend((0..total_steps).map(|i| i % cfg.progs.len())); v }
        else if j % 2 == 0 {
          // runs of the same thread: parks one thread deep inside an operation while another completes whole operations
          let mut v = vec![]; while v.len() < total_steps { let t = rng.below(cfg.progs.len()); for _ in 0..1 + rng.below(8) { v.push(t); } } v
        }
        else { (0..total_steps).map(|_| rng.below(cfg.progs.len())).collect() };
      inflight(|| json!({ "config": format!("{:?}", cfg), "schedule": schedule, "requests": [] }));
      let out = run_scheduled(&cfg, &schedule);
      runs += 1; timeouts += out.timeouts;
      for p in &cfg.progs { for op in p { *dist.entry(format!("op:{:?}", op)).or_default() += 1; } }
      *dist.entry(format!("threads:{}", cfg.progs.len())).or_default() += 1;
      let case = json!({ "config": format!("{:?}", cfg), "schedule": schedule, "observed": out.log.iter().map(|(t, s)| format!("{t}:{s}")).collect::<Vec<_>>(), "requests": [] });
      // a context switch inside a critical window: two threads interleave between the first and last access of one operation
      let sw = out.log.windows(2).filter(|w| w[0].0 != w[1].0).count();
      if sw >= 2 { switches_in_window += 1; distinct.insert(format!("{:?}{:?}", cfg.progs, out.log)); if samples.len() < 3 { samples.push(case.clone()); } }
      if out.deadlock { failures.push(json!({ "kind": "oracle", "clause": "no-deadlock", "detail": "threads did not finish within 5 s", "known": null, "case": case })); continue }
      if !out.violations.is_empty() { failures.push(json!({ "kind": "oracle", "clause": "cached-map-never-replaced", "detail": format!("{:?}", out.violations), "known": null, "case": case })); }
      // every map() on one cache and option set hands out (a clone of) the one cached object: clones share the `mappings` allocation
      if out.map_ptrs.windows(2).any(|w| w[0] != w[1]) { failures.push(json!({ "kind": "oracle", "clause": "cached-map-never-replaced", "detail": format!("map() handed out {} different cached objects for the same options during one run (addresses of their mappings: {:x?})", { let mut v = out.map_ptrs.clone(); v.sort(); v.dedup(); v.len() }, out.map_ptrs), "known": null, "case": case })); }
      for (t, (prog, ans)) in cfg.progs.iter().zip(&out.answers).enumerate() {
        for (op, a) in prog.iter().zip(ans) {
          if Some(a) != seq.get(op) { failures.push(json!({ "kind": "oracle", "clause": "sequential-answer", "detail": format!("thread {t} {:?}: got {} — single-threaded answer {}", op, trunc(a, 300), seq.get(op).map(|s| trunc(s, 300)).unwrap_or_default()), "known": null, "case": case })); }
        }
      }
      // validate the trace against the model: replay the observed order of accesses
      let ms = model_schedule(&out.log);
      let mut req = format!("conc {}", cfg.progs.len());
      for p in &cfg.progs { req.push_str(&format!(" {}", p.len())); for op in p { req.push(' '); req.push_str(op.tok()); } }
      req.push_str(&format!(" {}", ms.len())); for t in &ms { req.push_str(&format!(" {t}")); }
      let resp = d.ask1(req);
      let all_done_ok = resp.starts_with("ok ") && !resp.contains("0d") && !resp.contains("u ") && resp.ends_with("pending 0") && resp.contains("lock -");
      if all_done_ok { validated += 1; } else {
        failures.push(json!({ "kind": "corr", "clause": "trace-not-a-model-trace", "detail": format!("the observed order of shared-state accesses is not an execution of the model: {resp}"), "known": null, "case": case }));
      }
    }
  }
  failures.truncate(20);
  json!({ "property": prop, "cases": runs, "distinct_nontrivial": distinct.len(), "samples": samples, "distribution": dist, "impl_panics": 0,
    "oracle_failures": failures.iter().filter(|f| f["kind"] == "oracle").count(), "unknown_oracle_failures": failures.iter().filter(|f| f["kind"] == "oracle").count(), "known_counts": {},
    "corr_failures": failures.iter().filter(|f| f["kind"] == "corr").count(), "model_oracle_failures": 0, "driver_lines": d.lines, "failures": failures,
    "extra": { "traces_validated_against_impl": validated, "schedules_run": runs, "configs": configs.len(), "grants_that_blocked_on_a_real_lock": timeouts, "schedules_with_context_switch_in_window": switches_in_window } })
}
