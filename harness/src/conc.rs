//! C18: real threads under a token-passing controller at the library's schedule points.
#![allow(dead_code)]
use crate::attr::*;
use crate::core::*;
use crate::ops::Out;
use rspack_sources::*;
use serde_json::json;
use std::cell::Cell;
use std::collections::BTreeMap;
use std::hash::Hasher;
use std::sync::{Arc, Condvar, Mutex};
use std::time::{Duration, Instant};

#[derive(Clone, Copy, Debug, PartialEq, Eq, Hash)]
pub enum COp { Sorted, Clone, CMap, CStream, Once, CStreamKeep, CMapL, CStreamL }
impl COp { fn tok(&self) -> &'static str { match self { COp::Sorted => "s", COp::Clone => "c", COp::CMap => "m", COp::CStream | COp::CStreamKeep => "t", COp::Once => "o", COp::CMapL => "n", COp::CStreamL => "u" } }
  /// the abstract protocol model (`Model/Conc.lean`) has one cache key
  fn one_key(&self) -> bool { !matches!(self, COp::CMapL | COp::CStreamL) } }

#[derive(Clone, Copy, PartialEq, Eq, Debug)]
enum St { NotStarted, AtPoint, Running, Done }

struct CtlState { status: Vec<St>, site: Vec<&'static str>, granted: Option<usize>, log: Vec<(usize, &'static str)>, free_run: bool }
pub struct Ctl { st: Mutex<CtlState>, cv: Condvar }

thread_local! { static TID: Cell<Option<usize>> = Cell::new(None); static PRIVATE: Cell<bool> = Cell::new(false); }
static CTL: Mutex<Option<Arc<Ctl>>> = Mutex::new(None);
/// identity (address of the shared `mappings` allocation) of every map handed out by `CachedSource::map` during a scheduled run
static MAP_PTRS: Mutex<Vec<usize>> = Mutex::new(Vec::new());

fn hook(site: &'static str) {
  let Some(tid) = TID.with(|t| t.get()) else { return };
  if PRIVATE.with(|p| p.get()) { return }
  let ctl = CTL.lock().unwrap_or_else(|e| e.into_inner()).clone();
  if let Some(ctl) = ctl { ctl.at_point(tid, site); }
}

impl Ctl {
  /// called by a worker before a shared-state access: wait for the turn
  fn at_point(&self, tid: usize, site: &'static str) {
    let mut g = self.st.lock().unwrap_or_else(|e| e.into_inner());
    g.status[tid] = St::AtPoint; g.site[tid] = site;
    self.cv.notify_all();
    while !(g.granted == Some(tid) || g.free_run) { g = self.cv.wait(g).unwrap_or_else(|e| e.into_inner()); }
    if g.granted == Some(tid) { g.granted = None; }
    g.status[tid] = St::Running;
    g.log.push((tid, site));
    self.cv.notify_all();
  }
  fn done(&self, tid: usize) { let mut g = self.st.lock().unwrap_or_else(|e| e.into_inner()); g.status[tid] = St::Done; self.cv.notify_all(); }
}

#[derive(Clone, Debug)]
pub struct Config { pub progs: Vec<Vec<COp>>, pub nrepl: usize, pub cached_sms: bool }

/// the two shared objects as protocol trees (what `shared_objects` builds, for the value-carrying model `Model/ConcV.lean`)
fn shared_trees(cfg: &Config) -> (T, T) {
  let repls = (0..cfg.nrepl).map(|k| ReplT { start: (7 - 2 * k) as u32, end: (8 - 2 * k) as u32, content: format!("<{k}>"), name: None, enforce: 1 }).collect();
  let r = T::Replace(Box::new(T::Raw("abc\ndef;ghi\n".into())), repls);
  let inner = if cfg.cached_sms {
    T::Sms { text: "ab;cd\nef".into(), name: "x.js".into(), map: SMapT { mappings: "AAAA,GAAG;AACA".into(), sources: vec!["o.js".into()], contents: vec!["ab;cd\nef".into()], names: vec![], file: None, root: None, debug_id: None }, orig: None, inner: None, remove: false }
  } else { T::Concat(vec![(false, T::Orig("ab;cd\nef".into(), "o.js".into())), (false, T::Raw("tail".into()))]) };
  (r, T::Cached(0, Box::new(inner)))
}

fn shared_objects(cfg: &Config) -> (ReplaceSource<BoxSource>, CachedSource<BoxSource>) {
  let mut r = ReplaceSource::new(RawSource::from("abc\ndef;ghi\n").boxed());
  for k in 0..cfg.nrepl { r.replace((7 - 2 * k) as u32, (8 - 2 * k) as u32, &format!("<{k}>"), None); }
  let inner: BoxSource = if cfg.cached_sms {
    SourceMapSource::new(WithoutOriginalOptions { value: "ab;cd\nef", name: "x.js", source_map: SourceMap::new("AAAA,GAAG;AACA", vec!["o.js".to_string()], vec!["ab;cd\nef".to_string()], vec![]) }).boxed()
  } else { ConcatSource::new([OriginalSource::new("ab;cd\nef", "o.js").boxed(), RawSource::from("tail").boxed()]).boxed() };
  (r, CachedSource::new(inner))
}

/// canonical answer of one operation (compared with the single-threaded answer)
fn do_op(op: COp, r: &ReplaceSource<BoxSource>, c: &CachedSource<BoxSource>) -> String { do_op_v(op, r, c).0 }
/// … and the value itself (compared with what the value-carrying model predicts for the observed schedule)
fn do_op_v(op: COp, r: &ReplaceSource<BoxSource>, c: &CachedSource<BoxSource>) -> (String, Option<Out>) {
  match op {
    COp::Sorted => { let t = r.source().as_bytes().to_vec(); (hx(&t), Some(Out::Text(t))) }
    COp::Clone => { let cl = r.clone(); PRIVATE.with(|p| p.set(true)); let t = cl.source().as_bytes().to_vec(); PRIVATE.with(|p| p.set(false)); (hx(&t), Some(Out::Text(t))) }
    COp::CMap => { let m = c.map(&MapOptions::new(true));
      if TID.with(|t| t.get()).is_some() { if let Some(m) = &m { MAP_PTRS.lock().unwrap_or_else(|e| e.into_inner()).push(m.mappings().as_ptr() as usize); } }
      let src = c.source().as_bytes().to_vec(); let v = Out::Map(m.as_ref().map(SMapT::of));
      (format!("{:?}", m.map(|m| attr_map(&SMapT::of(&m), &src).iter().map(|a| show_attr(&no_content(a))).collect::<Vec<_>>())), Some(v)) }
    COp::CMapL => { let m = c.map(&MapOptions::new(false)); let v = Out::Map(m.as_ref().map(SMapT::of)); (format!("{:?}", m.map(|m| attr_map_lines(&SMapT::of(&m)))), Some(v)) }
    COp::CStream => { let st = run_stream(c, true, false); (format!("{}:{} {:?}", st.line, st.col, attr_stream(&st).iter().map(|a| show_attr(&no_content(a))).collect::<Vec<_>>()), Some(Out::Stream(st))) }
    COp::CStreamL => { let st = run_stream(c, false, false); (format!("{}:{} {:?}", st.line, st.col, attr_stream_lines(&st)), Some(Out::Stream(st))) }
    // streaming with callbacks that are schedule points themselves and that keep what they borrow (C19)
    COp::CStreamKeep => {
      let (st, bad) = run_stream_keep_checked(c, true, false, &|| hook("cb.chunk"));
      let a = format!("{}:{} {:?}", st.line, st.col, attr_stream(&st).iter().map(|a| show_attr(&no_content(a))).collect::<Vec<_>>());
      match bad { Some(b) => (format!("KEPT-BORROW-CHANGED {b} // {a}"), Some(Out::Stream(st))), None => (a, Some(Out::Stream(st))) }
    }
    COp::Once => { let mut h = std::collections::hash_map::DefaultHasher::new(); { use std::hash::Hash; c.hash(&mut h); } (h.finish().to_string(), None) }
  }
}
/// what of a value the comparison with the model looks at: texts exactly; streams by end position and per-byte (per-line) attribution;
/// maps by decoded segments and tables (not by spelling)
fn proj_v(op: COp, o: &Out) -> String {
  match o {
    Out::Text(b) => format!("text {}", hx(b)),
    Out::Stream(st) => if op == COp::CStreamL { format!("stream {}:{} {:?}", st.line, st.col, attr_stream_lines(st)) } else { format!("stream {}:{} {:?}", st.line, st.col, attr_stream(st).iter().map(show_attr).collect::<Vec<_>>()) },
    Out::Map(m) => format!("map {:?}", m.as_ref().map(|m| (decode(&m.mappings), m.sources.clone(), m.contents.clone(), m.names.clone()))),
    x => format!("{:?}", x),
  }
}

pub struct RunOut { pub map_ptrs: Vec<usize>, pub values: Vec<Vec<Option<Out>>>, pub answers: Vec<Vec<String>>, pub log: Vec<(usize, &'static str)>, pub deadlock: bool, pub timeouts: u64, pub violations: Vec<&'static str>, pub panics: Vec<String> }

/// run `cfg` with real threads following `schedule` (thread ids), then let everything finish
pub fn run_scheduled(cfg: &Config, schedule: &[usize]) -> RunOut {
  let n = cfg.progs.len();
  let ctl = Arc::new(Ctl { st: Mutex::new(CtlState { status: vec![St::NotStarted; n], site: vec![""; n], granted: None, log: vec![], free_run: false }), cv: Condvar::new() });
  *CTL.lock().unwrap_or_else(|e| e.into_inner()) = Some(ctl.clone());
  let _ = verif::take_unsafe_violations();
  MAP_PTRS.lock().unwrap_or_else(|e| e.into_inner()).clear();
  let (r, c) = shared_objects(cfg);
  let (r, c) = (Arc::new(r), Arc::new(c));
  let mut handles = vec![];
  for (tid, prog) in cfg.progs.iter().enumerate() {
    let (r, c, ctl, prog) = (r.clone(), c.clone(), ctl.clone(), prog.clone());
    handles.push(std::thread::spawn(move || {
      TID.with(|t| t.set(Some(tid)));
      let mut out = vec![];
      for op in prog { out.push(match catch(|| do_op_v(op, &r, &c)) { Ok(s) => s, Err(m) => (format!("panic {m}"), None) }); }
      TID.with(|t| t.set(None));
      ctl.done(tid);
      out
    }));
  }
  let mut timeouts = 0u64;
  let wait_step = Duration::from_millis(15);
  // follow the schedule
  for &t in schedule {
    let mut g = ctl.st.lock().unwrap_or_else(|e| e.into_inner());
    // wait until the thread is at a point (or done / busy)
    let t0 = Instant::now();
    while g.status[t] == St::NotStarted && t0.elapsed() < Duration::from_millis(200) { g = ctl.cv.wait_timeout(g, Duration::from_millis(5)).unwrap_or_else(|e| e.into_inner()).0; }
    if g.status[t] != St::AtPoint { continue }   // done, or still running (blocked on a real lock)
    g.granted = Some(t);
    ctl.cv.notify_all();
    let t1 = Instant::now();
    // wait until it reaches its next point or finishes; a thread that does not is blocked on a real lock
    loop {
      g = ctl.cv.wait_timeout(g, Duration::from_millis(2)).unwrap_or_else(|e| e.into_inner()).0;
      if g.granted.is_none() && g.status[t] != St::Running { break }
      if t1.elapsed() > wait_step { if g.granted.is_none() { timeouts += 1; } break }
    }
  }
  // free run
  { let mut g = ctl.st.lock().unwrap_or_else(|e| e.into_inner()); g.free_run = true; ctl.cv.notify_all(); }
  let t2 = Instant::now();
  let mut deadlock = false;
  loop {
    let g = ctl.st.lock().unwrap_or_else(|e| e.into_inner());
    if g.status.iter().all(|s| *s == St::Done) { break }
    drop(g);
    if t2.elapsed() > Duration::from_secs(5) { deadlock = true; break }
    std::thread::sleep(Duration::from_millis(1));
  }
  let mut answers = vec![]; let mut values = vec![]; let mut panics = vec![];
  if deadlock { answers = vec![vec!["deadlock".to_string()]; n]; values = vec![vec![]; n]; std::mem::forget(handles); }
  else { for h in handles { match h.join() { Ok(v) => { answers.push(v.iter().map(|x| x.0.clone()).collect()); values.push(v.into_iter().map(|x| x.1).collect()); } Err(_) => { answers.push(vec!["panic".into()]); values.push(vec![]); panics.push("thread panicked".into()); } } } }
  let log = ctl.st.lock().unwrap_or_else(|e| e.into_inner()).log.clone();
  *CTL.lock().unwrap_or_else(|e| e.into_inner()) = None;
  RunOut { map_ptrs: std::mem::take(&mut *MAP_PTRS.lock().unwrap_or_else(|e| e.into_inner())), values, answers, log, deadlock, timeouts, violations: verif::take_unsafe_violations(), panics }
}

pub fn sequential_answers(cfg: &Config) -> BTreeMap<COp, String> {
  let mut m = BTreeMap::new();
  for op in [COp::Sorted, COp::Clone, COp::CMap, COp::CStream, COp::Once, COp::CMapL, COp::CStreamL] { let (r, c) = shared_objects(cfg); m.insert(op, do_op(op, &r, &c)); }
  let t = m[&COp::CStream].clone(); m.insert(COp::CStreamKeep, t);
  m
}
impl PartialOrd for COp { fn partial_cmp(&self, o: &Self) -> Option<std::cmp::Ordering> { Some(self.cmp(o)) } }
impl Ord for COp { fn cmp(&self, o: &Self) -> std::cmp::Ordering { (*self as u8).cmp(&(*o as u8)) } }

/// the observed order of shared-state accesses as a model schedule (one model step per schedule point)
fn model_schedule(log: &[(usize, &'static str)]) -> Vec<usize> { log.iter().filter(|(_, s)| !s.starts_with("cb.")).map(|(t, _)| *t).collect() }

pub fn gen_config(rng: &mut Rng) -> Config {
  let n = 2 + rng.below(2);
  let ops = [COp::Sorted, COp::Clone, COp::CMap, COp::CStream, COp::Once, COp::CStreamKeep, COp::CMapL, COp::CStreamL];
  // mostly ops on one of the two shared objects so that threads collide
  let family = rng.below(5);
  let progs = (0..n).map(|_| (0..1 + rng.below(3)).map(|_| match family { 0 => ops[rng.below(2)], 1 => ops[2 + rng.below(4)], 2 => [COp::CStream, COp::CStreamKeep, COp::CStreamKeep, COp::CMap][rng.below(4)], 3 => [COp::CMap, COp::CStream, COp::CMapL, COp::CStreamL][rng.below(4)], _ => ops[rng.below(8)] }).collect()).collect();
  Config { progs, nrepl: 1 + rng.below(3), cached_sms: rng.chance(2) }
}

pub fn run(seed: u64, nsched: u64, driver: &str, thorough: bool, prop: &str) -> serde_json::Value {
  verif::set_sched_hook(Some(Arc::new(hook)));
  let mut rng = Rng::new(seed);
  let mut d = Driver::spawn(driver);
  let mut failures: Vec<serde_json::Value> = vec![];
  let (mut runs, mut validated, mut timeouts, mut switches_in_window, mut values_compared) = (0u64, 0u64, 0u64, 0u64, 0u64);
  let mut dist: BTreeMap<String, u64> = BTreeMap::new();
  let mut samples = vec![]; let mut distinct = std::collections::HashSet::new();
  let mut configs: Vec<Config> = vec![
    Config { progs: vec![vec![COp::Clone], vec![COp::Sorted]], nrepl: 2, cached_sms: false },
    Config { progs: vec![vec![COp::CMap], vec![COp::CStream]], nrepl: 1, cached_sms: false },
    Config { progs: vec![vec![COp::CMap, COp::CMap], vec![COp::CStream, COp::CMap], vec![COp::Once, COp::CStream]], nrepl: 1, cached_sms: true },
    // a cold stream parked in its callbacks while another thread fills the cache and replays from it
    Config { progs: vec![vec![COp::CStreamKeep], vec![COp::CStream, COp::CStreamKeep]], nrepl: 1, cached_sms: true },
    Config { progs: vec![vec![COp::CStreamKeep, COp::CStreamKeep], vec![COp::CStreamKeep, COp::CMap]], nrepl: 1, cached_sms: false },
    // both column settings on one cache: two entries, two entry locks
    Config { progs: vec![vec![COp::CStreamL, COp::CMap], vec![COp::CStream, COp::CMapL]], nrepl: 1, cached_sms: false },
  ];
  let mut k = 0u64;
  while runs < nsched {
    let cfg = if (k as usize) < configs.len() { configs[k as usize].clone() } else { gen_config(&mut rng) };
    if (k as usize) >= configs.len() { configs.push(cfg.clone()); }
    k += 1;
    let seq = sequential_answers(&cfg);
    let per_cfg = if thorough { 40 } else { 8 };
    for j in 0..per_cfg {
      if runs >= nsched { break }
      // schedules: fixed critical ones first, then random
      let total_steps: usize = cfg.progs.iter().map(|p| p.iter().map(|o| if *o == COp::CStreamKeep { 12 } else { 4 }).sum::<usize>() + 1).sum();
      let schedule: Vec<usize> = if j == 0 { (0..total_steps).map(|i| i % cfg.progs.len()).collect() }
        else if j == 1 { let mut v = vec![0usize]; for _ in 0..total_steps { v.push(1 % cfg.progs.len()); } v.extend((0..total_steps).map(|i| i % cfg.progs.len())); v }
        else if j % 2 == 0 {
          // runs of the same thread: parks one thread deep inside an operation while another completes whole operations
          let mut v = vec![]; while v.len() < total_steps { let t = rng.below(cfg.progs.len()); for _ in 0..1 + rng.below(8) { v.push(t); } } v
        }
        else { (0..total_steps).map(|_| rng.below(cfg.progs.len())).collect() };
      inflight(|| json!({ "config": format!("{:?}", cfg), "schedule": schedule, "requests": [] }));
      let out = run_scheduled(&cfg, &schedule);
      runs += 1; timeouts += out.timeouts;
      for p in &cfg.progs { for op in p { *dist.entry(format!("op:{:?}", op)).or_default() += 1; } }
      *dist.entry(format!("threads:{}", cfg.progs.len())).or_default() += 1;
      let case = json!({ "config": format!("{:?}", cfg), "schedule": schedule, "observed": out.log.iter().map(|(t, s)| format!("{t}:{s}")).collect::<Vec<_>>(), "requests": [] });
      // a context switch inside a critical window: two threads interleave between the first and last access of one operation
      let sw = out.log.windows(2).filter(|w| w[0].0 != w[1].0).count();
      if sw >= 2 { switches_in_window += 1; distinct.insert(format!("{:?}{:?}", cfg.progs, out.log)); if samples.len() < 3 { samples.push(case.clone()); } }
      if out.deadlock { failures.push(json!({ "kind": "oracle", "clause": "no-deadlock", "detail": "threads did not finish within 5 s", "known": null, "case": case })); continue }
      if !out.violations.is_empty() { failures.push(json!({ "kind": "oracle", "clause": "cached-map-never-replaced", "detail": format!("{:?}", out.violations), "known": null, "case": case })); }
      // every map() on one cache and option set hands out (a clone of) the one cached object: clones share the `mappings` allocation
      if out.map_ptrs.windows(2).any(|w| w[0] != w[1]) { failures.push(json!({ "kind": "oracle", "clause": "cached-map-never-replaced", "detail": format!("map() handed out {} different cached objects for the same options during one run (addresses of their mappings: {:x?})", { let mut v = out.map_ptrs.clone(); v.sort(); v.dedup(); v.len() }, out.map_ptrs), "known": null, "case": case })); }
      for (t, (prog, ans)) in cfg.progs.iter().zip(&out.answers).enumerate() {
        for (op, a) in prog.iter().zip(ans) {
          if Some(a) != seq.get(op) { failures.push(json!({ "kind": "oracle", "clause": "sequential-answer", "detail": format!("thread {t} {:?}: got {} — single-threaded answer {}", op, trunc(a, 300), seq.get(op).map(|s| trunc(s, 300)).unwrap_or_default()), "known": null, "case": case })); }
        }
      }
      // the value-carrying model (Model/ConcV.lean) on the observed order of accesses: it must finish every call, and each call's
      // value must be the one the crate returned
      let ms = model_schedule(&out.log);
      {
        let (tr, tc) = shared_trees(&cfg);
        let mut req = format!("concv R C {}", cfg.progs.len());
        for p in &cfg.progs { req.push_str(&format!(" {}", p.len())); for op in p { req.push(' '); req.push_str(op.tok()); } }
        req.push_str(&format!(" {}", ms.len())); for t in &ms { req.push_str(&format!(" {t}")); }
        let resp = d.ask(&["reset".to_string(), format!("tree R {}", tr.proto()), format!("tree C {}", tc.proto()), req]);
        let r = resp.last().cloned().unwrap_or_default();
        let mut parts = r.split(" # ");
        let head = parts.next().unwrap_or("");
        if !(head.starts_with("ok done 1 pending 0 locks - -")) {
          failures.push(json!({ "kind": "corr", "clause": "trace-not-a-run-of-the-value-model", "detail": format!("the observed order of shared-state accesses is not a complete run of the value-carrying model: {head}"), "known": null, "case": case }));
        } else {
          let model_vals: Vec<&str> = parts.collect();
          let ops_flat: Vec<COp> = cfg.progs.iter().flatten().copied().collect();
          let impl_flat: Vec<&Option<Out>> = out.values.iter().flatten().collect();
          if model_vals.len() != ops_flat.len() || impl_flat.len() != ops_flat.len() {
            failures.push(json!({ "kind": "corr", "clause": "value-model-answer-count", "detail": format!("model returned {} answers, the crate {}, for {} calls", model_vals.len(), impl_flat.len(), ops_flat.len()), "known": null, "case": case }));
          } else {
            for (k, op) in ops_flat.iter().enumerate() {
              let Some(iv) = impl_flat[k] else { continue };
              let mv = model_vals[k];
              let mo = if let Some(x) = mv.strip_prefix("text ") { crate::ops::parse_out(&crate::ops::Op::Src, x) } else if let Some(x) = mv.strip_prefix("stream ") { crate::ops::parse_out(&crate::ops::Op::Stream(true, false), x) } else if let Some(x) = mv.strip_prefix("map ") { crate::ops::parse_out(&crate::ops::Op::Map(true), x) } else { Out::Bad(mv.to_string()) };
              values_compared += 1;
              if proj_v(*op, &mo) != proj_v(*op, iv) {
                failures.push(json!({ "kind": "corr", "clause": "concurrent-value-differs-from-model", "detail": format!("call {k} ({:?}): the crate returned {} — the model, on the observed schedule, {}", op, trunc(&proj_v(*op, iv), 300), trunc(&proj_v(*op, &mo), 300)), "known": null, "case": case }));
              }
            }
          }
        }
      }
      if !cfg.progs.iter().flatten().all(|o| o.one_key()) { validated += 1; continue }
      // validate the trace against the model: replay the observed order of accesses
      let mut req = format!("conc {}", cfg.progs.len());
      for p in &cfg.progs { req.push_str(&format!(" {}", p.len())); for op in p { req.push(' '); req.push_str(op.tok()); } }
      req.push_str(&format!(" {}", ms.len())); for t in &ms { req.push_str(&format!(" {t}")); }
      let resp = d.ask1(req);
      let all_done_ok = resp.starts_with("ok ") && !resp.contains("0d") && !resp.contains("u ") && resp.ends_with("pending 0") && resp.contains("lock -");
      if all_done_ok { validated += 1; } else {
        failures.push(json!({ "kind": "corr", "clause": "trace-not-a-model-trace", "detail": format!("the observed order of shared-state accesses is not an execution of the model: {resp}"), "known": null, "case": case }));
      }
    }
  }
  failures.truncate(20);
  json!({ "property": prop, "cases": runs, "distinct_nontrivial": distinct.len(), "samples": samples, "distribution": dist, "impl_panics": 0,
    "oracle_failures": failures.iter().filter(|f| f["kind"] == "oracle").count(), "unknown_oracle_failures": failures.iter().filter(|f| f["kind"] == "oracle").count(), "known_counts": {},
    "corr_failures": failures.iter().filter(|f| f["kind"] == "corr").count(), "model_oracle_failures": 0, "driver_lines": d.lines, "failures": failures,
    "extra": { "traces_validated_against_impl": validated, "values_compared_with_value_model": values_compared, "schedules_run": runs, "configs": configs.len(), "grants_that_blocked_on_a_real_lock": timeouts, "schedules_with_context_switch_in_window": switches_in_window } })
}
