//! Generic runner for tree-script properties: generate, run implementation and model, oracle, correspondence, shrink.
#![allow(dead_code)]
use crate::core::*;
use crate::ops::*;
use std::collections::{BTreeMap, HashSet};
use std::hash::{Hash, Hasher};

#[derive(Clone, Debug, PartialEq, Eq, Hash)]
pub struct Case { pub trees: Vec<T>, pub script: Vec<(usize, Op)>, pub note: String }

#[derive(Clone, Debug)]
pub struct Finding { pub clause: String, pub detail: String }
pub fn finding(clause: &str, detail: String) -> Finding { Finding { clause: clause.to_string(), detail } }

#[derive(Clone, Debug)]
pub struct Failure { pub kind: &'static str, pub clause: String, pub detail: String, pub case: Case, pub known: Option<String> }

pub struct TreeProp {
  pub id: &'static str,
  pub gen: Box<dyn Fn(&mut Rng, bool) -> Case + Send + Sync>,
  /// the property evaluated on an observation (of the implementation, or of the model)
  pub oracle: Box<dyn Fn(&Case, &[Out]) -> Vec<Finding> + Send + Sync>,
  /// canonical projection compared between implementation and model
  pub project: Box<dyn Fn(&Case, &[Out]) -> Vec<String> + Send + Sync>,
  pub nontrivial: Box<dyn Fn(&Case, &[Out]) -> bool + Send + Sync>,
  /// distribution counters
  pub stats: Box<dyn Fn(&Case, &[Out], &mut BTreeMap<String, u64>) + Send + Sync>,
  /// matcher for known findings: Some(id) when the (shrunk) failing case is a listed finding
  pub known: Box<dyn Fn(&Case, &Finding, &[Out]) -> Option<String> + Send + Sync>,
  pub corpus: Vec<Case>,
}

pub fn run_case_impl(c: &Case) -> Vec<Out> {
  let mut ctx = Ctx::default();
  // every second value of a case is built through another history (observers between the replace calls)
  let built: Vec<Result<rspack_sources::BoxSource, String>> = c.trees.iter().enumerate().map(|(i, t)| { ctx.observed = i % 2 == 1; catch(|| ctx.build(t)) }).collect();
  c.script.iter().map(|(i, op)| match (&built[*i], op) {
    (Ok(s), Op::Eq(j)) => match &built[*j] { Ok(o) => match catch(|| s.as_ref() == o.as_ref()) { Ok(b) => Out::Num(b as u64), Err(m) => Out::Panic(m) }, Err(m) => Out::Panic(format!("build: {m}")) },
    (Ok(_), Op::CustomStream(cl, f)) => match &c.trees[*i] {
      T::Sms { text, map, inner: None, .. } => { let cu = Custom { text: text.clone(), map: Some(map.build()) }; match catch(|| run_stream(&cu, *cl, *f)) { Ok(r) => Out::Stream(r), Err(m) => Out::Panic(m) } }
      T::Raw(text) => { let cu = Custom { text: text.clone(), map: None }; match catch(|| run_stream(&cu, *cl, *f)) { Ok(r) => Out::Stream(r), Err(m) => Out::Panic(m) } }
      _ => Out::Bad("CustomStream on a non-leaf".into()) },
    (Ok(s), op) => run_op_impl(s.as_ref(), op),
    (Err(m), _) => Out::Panic(format!("build: {m}")) }).collect()
}

pub fn case_reqs(c: &Case) -> Vec<String> {
  let mut reqs = vec!["reset".to_string()];
  for (i, t) in c.trees.iter().enumerate() { reqs.push(format!("tree A{} {}", i, t.proto())); }
  for (i, op) in &c.script {
    if *op == Op::Hash { reqs.push(format!("feed A{i} {}", fx_table(&c.trees[*i]))); } else { reqs.push(op_proto(&format!("A{i}"), op)); }
  }
  reqs
}

pub fn run_case_model(d: &mut Driver, c: &Case) -> Vec<Out> {
  let reqs = case_reqs(c);
  let resp = d.ask(&reqs);
  let nt = c.trees.len();
  for r in &resp[..1 + nt] { if r != "ok" { return c.script.iter().map(|_| Out::Bad(format!("setup rejected: {r}"))).collect() } }
  c.script.iter().zip(resp[1 + nt..].iter()).map(|((_, op), r)| parse_out(op, r)).collect()
}

#[derive(Default)]
pub struct RunResult {
  pub cases: u64,
  pub nontrivial: HashSet<u64>,
  pub samples: Vec<Case>,
  pub dist: BTreeMap<String, u64>,
  pub failures: Vec<Failure>,
  pub impl_panics: u64,
  pub oracle_failures: u64,
  pub corr_failures: u64,
  pub model_oracle_failures: u64,
  pub driver_lines: u64,
  pub known_counts: BTreeMap<String, u64>,
  pub unknown_oracle_failures: u64,
}

fn hash_case(c: &Case) -> u64 { let mut h = std::collections::hash_map::DefaultHasher::new(); c.hash(&mut h); h.finish() }

/// smaller variants of a tree
pub fn shrink_tree(t: &T) -> Vec<T> {
  let mut v = vec![];
  let cut = |s: &String| -> Vec<String> { let cs: Vec<char> = s.chars().collect(); (0..cs.len()).map(|i| cs.iter().enumerate().filter(|(j, _)| *j != i).map(|(_, c)| *c).collect()).collect() };
  match t {
    T::Raw(s) => for x in cut(s) { v.push(T::Raw(x)) },
    T::RawStr(s) => { v.push(T::Raw(s.clone())); for x in cut(s) { v.push(T::RawStr(x)) } }
    T::RawB(b) => { for i in 0..b.len() { let mut x = b.clone(); x.remove(i); v.push(T::RawB(x)) } }
    T::RawBuf(b) => { for i in 0..b.len() { let mut x = b.clone(); x.remove(i); v.push(T::RawBuf(x)) } }
    T::Orig(s, n) => { v.push(T::Raw(s.clone())); for x in cut(s) { v.push(T::Orig(x, n.clone())) } }
    T::Sms { text, name, map, orig, inner, remove } => {
      v.push(T::Raw(text.clone()));
      if inner.is_some() { v.push(T::Sms { text: text.clone(), name: name.clone(), map: map.clone(), orig: None, inner: None, remove: false }); }
      let segs = crate::attr::decode(&map.mappings);
      for i in 0..segs.len() { let mut s2 = segs.clone(); s2.remove(i); let mut m2 = map.clone(); m2.mappings = rspack_sources::encode_mappings(s2.iter().map(|m| m.to())); v.push(T::Sms { text: text.clone(), name: name.clone(), map: m2, orig: orig.clone(), inner: inner.clone(), remove: *remove }); }
      if let Some(im) = inner { let segs = crate::attr::decode(&im.mappings); for i in 0..segs.len() { let mut s2 = segs.clone(); s2.remove(i); let mut m2 = im.clone(); m2.mappings = rspack_sources::encode_mappings(s2.iter().map(|m| m.to())); v.push(T::Sms { text: text.clone(), name: name.clone(), map: map.clone(), orig: orig.clone(), inner: Some(m2), remove: *remove }); } }
      if map.root.is_some() { let mut m2 = map.clone(); m2.root = None; v.push(T::Sms { text: text.clone(), name: name.clone(), map: m2, orig: orig.clone(), inner: inner.clone(), remove: *remove }); }
      if !map.contents.is_empty() { let mut m2 = map.clone(); m2.contents = vec![]; v.push(T::Sms { text: text.clone(), name: name.clone(), map: m2, orig: orig.clone(), inner: inner.clone(), remove: *remove }); }
      for x in cut(text) { v.push(T::Sms { text: x, name: name.clone(), map: map.clone(), orig: orig.clone(), inner: inner.clone(), remove: *remove }) }
    }
    T::Concat(cs) => {
      for (_, c) in cs { v.push(c.clone()); }
      for i in 0..cs.len() { let mut x = cs.clone(); x.remove(i); v.push(T::Concat(x)); }
      for i in 0..cs.len() { for s in shrink_tree(&cs[i].1) { let mut x = cs.clone(); x[i] = (cs[i].0 && matches!(s, T::Concat(_)), s); v.push(T::Concat(x)); } }
    }
    T::Replace(i, rs) => {
      v.push((**i).clone());
      for k in 0..rs.len() { let mut x = rs.clone(); x.remove(k); v.push(T::Replace(i.clone(), x)); }
      for k in 0..rs.len() {
        for c in cut(&rs[k].content) { let mut x = rs.clone(); x[k].content = c; v.push(T::Replace(i.clone(), x)); }
        if rs[k].name.is_some() { let mut x = rs.clone(); x[k].name = None; v.push(T::Replace(i.clone(), x)); }
        if rs[k].enforce != 1 { let mut x = rs.clone(); x[k].enforce = 1; v.push(T::Replace(i.clone(), x)); }
        if rs[k].end > rs[k].start { let mut x = rs.clone(); x[k].end -= 1; let isrc = crate::gen::src_of(i); if x[k].end as usize >= isrc.len() || isrc.is_char_boundary(x[k].end as usize) { v.push(T::Replace(i.clone(), x)); } }
      }
      for s in shrink_tree(i) {
        // keep replacement positions on char boundaries of the new inner text
        let ns = match catch(|| crate::gen::src_of(&s)) { Ok(x) => x, Err(_) => continue };
        if rs.iter().all(|r| (r.start as usize >= ns.len() || ns.is_char_boundary(r.start as usize)) && (r.end as usize >= ns.len() || ns.is_char_boundary(r.end as usize))) {
          v.push(T::Replace(Box::new(s), rs.clone()));
        }
      }
    }
    T::Cached(id, i) => { v.push((**i).clone()); for s in shrink_tree(i) { v.push(T::Cached(*id, Box::new(s))); } }
  }
  v
}

pub fn shrink_case(c: &Case, still_fails: &mut dyn FnMut(&Case) -> bool) -> Case {
  let mut cur = c.clone();
  let mut budget = 400;
  loop {
    let mut improved = false;
    // drop script steps
    let mut i = 0;
    while i < cur.script.len() && budget > 0 {
      let mut c2 = cur.clone(); c2.script.remove(i);
      budget -= 1;
      if !c2.script.is_empty() && still_fails(&c2) { cur = c2; improved = true; } else { i += 1; }
    }
    for ti in 0..cur.trees.len() {
      if cur.trees.len() > 1 && (cur.note.starts_with("C06") || cur.note.starts_with("C09") || cur.note.starts_with("C13")) { continue } // composite and children / reference and variants must stay in step
      let mut progress = true;
      while progress && budget > 0 {
        progress = false;
        for s in shrink_tree(&cur.trees[ti]) {
          if budget == 0 { break }
          budget -= 1;
          let mut c2 = cur.clone(); c2.trees[ti] = s;
          if still_fails(&c2) { cur = c2; progress = true; improved = true; break; }
        }
      }
    }
    if !improved || budget == 0 { break }
  }
  cur
}

pub struct RunCfg { pub seed: u64, pub cases: u64, pub threads: usize, pub driver: String, pub thorough: bool, pub max_shrink: usize }

/// oracles are written for well-formed cases; a shrunk case may not be one — a panicking oracle then counts as "does not fail"
fn safe_oracle(p: &TreeProp, c: &Case, o: &[Out]) -> Vec<Finding> { catch(|| (p.oracle)(c, o)).unwrap_or_default() }
fn safe_project(p: &TreeProp, c: &Case, o: &[Out]) -> Vec<String> { catch(|| (p.project)(c, o)).unwrap_or_else(|_| vec!["<projection panicked>".into()]) }

fn run_worker(p: &TreeProp, cfg: &RunCfg, w: usize, n: u64, corpus: &[Case]) -> RunResult {
  let mut rng = Rng::new(cfg.seed.wrapping_add(0x1000 * w as u64 + 17));
  let mut d = Driver::spawn(&cfg.driver);
  let mut r = RunResult::default();
  let mut shrunk_clauses: HashSet<String> = HashSet::new();
  let total = corpus.len() as u64 + n;
  for k in 0..total {
    let case = if (k as usize) < corpus.len() { corpus[k as usize].clone() } else { (p.gen)(&mut rng, cfg.thorough) };
    inflight(|| case_json(&case));
    let oi = run_case_impl(&case);
    let om = run_case_model(&mut d, &case);
    r.cases += 1;
    if oi.iter().any(|o| o.is_panic()) { r.impl_panics += 1; }
    (p.stats)(&case, &oi, &mut r.dist);
    if (p.nontrivial)(&case, &oi) { r.nontrivial.insert(hash_case(&case)); }
    if r.samples.len() < 3 && (p.nontrivial)(&case, &oi) { r.samples.push(case.clone()); }
    if let Some(Out::Bad(b)) = om.iter().find(|o| matches!(o, Out::Bad(_))) {
      r.failures.push(Failure { kind: "broken", clause: "driver".into(), detail: b.clone(), case: case.clone(), known: None });
      continue;
    }
    let fi = (p.oracle)(&case, &oi);
    let fm = (p.oracle)(&case, &om);
    // a case that exhibits a listed known finding is not held against the correspondence as well
    let known_case = !fi.is_empty() && fi.iter().all(|f| (p.known)(&case, f, &oi).is_some());
    let corr = !known_case && (p.project)(&case, &oi) != (p.project)(&case, &om);
    for f in &fi {
      r.oracle_failures += 1;
      if let Some(k) = (p.known)(&case, f, &oi) {
        *r.known_counts.entry(k.clone()).or_default() += 1;
        if r.failures.iter().filter(|x| x.known.as_deref() == Some(k.as_str())).count() < 2 {
          r.failures.push(Failure { kind: "oracle", clause: f.clause.clone(), detail: f.detail.clone(), case: case.clone(), known: Some(k) });
        }
        continue;
      }
      r.unknown_oracle_failures += 1;
      let key = format!("oracle:{}", f.clause);
      let (c2, f2) = if shrunk_clauses.len() < cfg.max_shrink && shrunk_clauses.insert(key) {
        let clause = f.clause.clone();
        let c2 = shrink_case(&case, &mut |c| { let o = run_case_impl(c); safe_oracle(p, c, &o).iter().any(|x| x.clause == clause && (p.known)(c, x, &o).is_none()) });
        let o2 = run_case_impl(&c2);
        let f2 = safe_oracle(p, &c2, &o2).into_iter().find(|x| x.clause == clause && (p.known)(&c2, x, &o2).is_none()).unwrap_or(f.clone());
        (c2, f2)
      } else { (case.clone(), f.clone()) };
      if r.failures.iter().filter(|x| x.kind == "oracle" && x.known.is_none() && x.clause == f2.clause).count() < 5 {
        r.failures.push(Failure { kind: "oracle", clause: f2.clause.clone(), detail: f2.detail.clone(), case: c2, known: None });
      }
    }
    if fi.is_empty() { for f in &fm {
      r.model_oracle_failures += 1;
      if r.failures.iter().filter(|x| x.kind == "model-oracle" && x.clause == f.clause).count() < 3 {
        r.failures.push(Failure { kind: "model-oracle", clause: f.clause.clone(), detail: f.detail.clone(), case: case.clone(), known: None });
      }
    } }
    if corr {
      r.corr_failures += 1;
      if shrunk_clauses.len() < cfg.max_shrink && shrunk_clauses.insert("corr".into()) {
        let c2 = shrink_case(&case, &mut |c| { let a = run_case_impl(c); let b = run_case_model(&mut d, c); !b.iter().any(|o| matches!(o, Out::Bad(_))) && { let (x, y) = (safe_project(p, c, &a), safe_project(p, c, &b)); x != y && !x.iter().any(|s| s.contains("panicked")) } });
        let a = safe_project(p, &c2, &run_case_impl(&c2)); let b = safe_project(p, &c2, &run_case_model(&mut d, &c2));
        let idx = a.iter().zip(b.iter()).position(|(x, y)| x != y).unwrap_or(a.len().min(b.len()));
        let detail = format!("projection item {idx}: impl={:?} model={:?}", a.get(idx), b.get(idx));
        r.failures.push(Failure { kind: "corr", clause: "correspondence".into(), detail, case: c2, known: None });
      } else if r.failures.iter().filter(|x| x.kind == "corr").count() < 3 {
        r.failures.push(Failure { kind: "corr", clause: "correspondence".into(), detail: "projection differs".into(), case: case.clone(), known: None });
      }
    }
  }
  r.driver_lines = d.lines;
  r
}

pub fn run_tree_prop(p: &TreeProp, cfg: &RunCfg) -> RunResult {
  let per = cfg.cases / cfg.threads as u64;
  let results: Vec<RunResult> = std::thread::scope(|s| {
    let hs: Vec<_> = (0..cfg.threads).map(|w| { let corpus: &[Case] = if w == 0 { &p.corpus } else { &[] }; s.spawn(move || run_worker(p, cfg, w, per, corpus)) }).collect();
    hs.into_iter().map(|h| h.join().expect("worker")).collect()
  });
  let mut t = RunResult::default();
  for r in results {
    t.cases += r.cases; t.nontrivial.extend(r.nontrivial); for (k, v) in r.dist { *t.dist.entry(k).or_default() += v; }
    if t.samples.len() < 3 { t.samples.extend(r.samples.into_iter().take(3 - t.samples.len())); }
    t.failures.extend(r.failures); t.impl_panics += r.impl_panics; t.oracle_failures += r.oracle_failures; t.corr_failures += r.corr_failures;
    t.model_oracle_failures += r.model_oracle_failures; t.driver_lines += r.driver_lines;
    t.unknown_oracle_failures += r.unknown_oracle_failures; for (k, v) in r.known_counts { *t.known_counts.entry(k).or_default() += v; }
  }
  t
}

pub fn case_json(c: &Case) -> serde_json::Value {
  serde_json::json!({ "note": c.note, "requests": case_reqs(c), "trees": c.trees.iter().map(|t| format!("{:?}", t)).collect::<Vec<_>>(), "script": c.script.iter().map(|(i, op)| format!("A{i}.{:?}", op)).collect::<Vec<_>>() })
}

/// rebuild a case from its protocol request lines (replay files, corpus files)
pub fn case_of_reqs(reqs: &[String]) -> Result<Case, String> {
  let mut trees = vec![]; let mut script = vec![];
  for r in reqs {
    let mut t = Toks::new(r);
    match t.tok()? {
      "reset" => {}
      "tree" => { let _ = t.tok()?; trees.push(t.tree()?); }
      verb => {
        let name = t.tok()?; let idx: usize = name.trim_start_matches('A').parse().map_err(|_| format!("bad tree name {name}"))?;
        let op = match verb {
          "src" => Op::Src, "buffer" => Op::Buffer, "size" => Op::Size, "rope" => Op::Rope, "feed" => Op::Hash, "clonecheck" => Op::CloneCheck,
          "eq" => { let o = t.tok()?; Op::Eq(o.trim_start_matches('A').parse().map_err(|_| "bad eq".to_string())?) }
          "writer" => Op::Writer(t.num()? as usize),
          "stream" | "chkstream" => { let c = t.boolean()?; let f = t.boolean()?; Op::Stream(c, f) }
          "map" => Op::Map(t.boolean()?),
          v => return Err(format!("unknown verb {v}")),
        };
        script.push((idx, op));
      }
    }
  }
  Ok(Case { trees, script, note: "replayed".into() })
}

/// the memoised FxHasher value of every CachedSource node (computed with the real rustc-hash), as `n (id value)*`
pub fn fx_table(t: &T) -> String {
  fn go(t: &T, out: &mut Vec<(u32, u64)>) {
    match t {
      T::Cached(id, i) => {
        use std::hash::Hasher;
        if let Ok(v) = catch(|| { let s = Ctx::default().build(i); let mut h = rustc_hash::FxHasher::default(); s.dyn_hash(&mut h); h.finish() }) { if !out.iter().any(|e| e.0 == *id) { out.push((*id, v)); } }
        go(i, out);
      }
      T::Concat(cs) => for c in cs { go(&c.1, out) },
      T::Replace(i, _) => go(i, out),
      _ => {}
    }
  }
  let mut v = vec![]; go(t, &mut v);
  let mut s = v.len().to_string(); for (i, x) in v { s.push_str(&format!(" {i} {x}")); } s
}
