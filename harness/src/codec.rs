//! C12: mappings codec.
#![allow(dead_code)]
use crate::attr::decode;
use crate::core::*;
use crate::runner::{finding, Finding};
use crate::simple::*;
use rspack_sources::*;
use std::collections::BTreeMap;

#[derive(Clone, Debug, Hash)]
pub enum CodecCase {
  /// a sorted mapping list: encode with both encoders, decode, re-encode
  Enc(Vec<MapT>),
  /// a string of the v3 grammar (possibly with redundant spellings): decode
  Dec(String),
}

fn show_list(ms: &[MapT]) -> String { let mut s = ms.len().to_string(); for m in ms { s.push(' '); s.push_str(&m.proto()); } s }
pub fn catch_str(f: impl FnOnce() -> String) -> String { match catch(f) { Ok(s) => s, Err(m) => format!("panic {}", panic_kind(&m)) } }

/// an independent implementation of the source-map v3 `mappings` format (written from the spec, no crate code):
/// lines separated by ';', segments by ',', fields base64-VLQ with sign in bit 0, running sums, 1/4/5 fields.
pub fn v3_decode(s: &str) -> Option<Vec<MapT>> {
  const ALPHA: &str = "ABCDEFGHIJKLMNOPQRSTUVWXYZabcdefghijklmnopqrstuvwxyz0123456789+/";
  let mut out = vec![];
  let (mut src, mut ol, mut oc, mut name) = (0i64, 1i64, 0i64, 0i64);
  for (li, line) in s.split(';').enumerate() {
    let mut gc = 0i64;
    for seg in line.split(',') {
      if seg.is_empty() { continue }
      let mut fields: Vec<i64> = vec![];
      let (mut val, mut shift) = (0i128, 0u32);
      let mut pending = false;
      for ch in seg.chars() {
        let d = ALPHA.find(ch)? as i128;
        if shift < 120 { val |= (d & 31) << shift; }
        if d & 32 != 0 { shift += 5; pending = true; } else {
          let v = if val & 1 == 1 { -(val >> 1) } else { val >> 1 };
          fields.push(v as i64); val = 0; shift = 0; pending = false;
        }
      }
      if pending { return None }
      match fields.len() {
        1 => { gc += fields[0]; out.push(MapT { gl: li as u32 + 1, gc: gc as u32, orig: None }); }
        4 | 5 => {
          gc += fields[0]; src += fields[1]; ol += fields[2]; oc += fields[3];
          let n = if fields.len() == 5 { name += fields[4]; Some(name as u32) } else { None };
          out.push(MapT { gl: li as u32 + 1, gc: gc as u32, orig: Some(OrigT { src: src as u32, line: ol as u32, col: oc as u32, name: n }) });
        }
        _ => return None,
      }
    }
  }
  Some(out)
}

fn lookup(segs: &[MapT], l: u32, c: u32) -> Option<OrigT> {
  let mut best: Option<&MapT> = None;
  for s in segs { if s.gl == l && s.gc <= c { best = Some(s); } }
  best.and_then(|s| s.orig.clone())
}
fn parse_list(s: &str) -> Option<Vec<MapT>> { let mut t = Toks::new(s); t.list(|t| t.mapping()).ok() }

impl SimpleCase for CodecCase {
  fn reqs(&self) -> Vec<String> {
    match self {
      CodecCase::Enc(ms) => {
        let full = encode_mappings(ms.iter().map(|m| m.to()));
        vec![format!("enc 1 {}", show_list(ms)), format!("enc 0 {}", show_list(ms)), format!("dec {}", hx(full.as_bytes())),
             format!("dec {}", hx(verif::encode_mappings_with(false, ms.iter().map(|m| m.to())).as_bytes()))]
      }
      CodecCase::Dec(s) => vec![format!("dec {}", hx(s.as_bytes()))],
    }
  }
  fn run_impl(&self) -> Vec<String> {
    match self {
      CodecCase::Enc(ms) => {
        let full = catch_str(|| hx(encode_mappings(ms.iter().map(|m| m.to())).as_bytes()));
        let lines = catch_str(|| hx(verif::encode_mappings_with(false, ms.iter().map(|m| m.to())).as_bytes()));
        let d1 = match unhx(&full) { Some(b) => catch_str(|| show_list(&decode(std::str::from_utf8(&b).unwrap_or("")))), None => full.clone() };
        let d2 = match unhx(&lines) { Some(b) => catch_str(|| show_list(&decode(std::str::from_utf8(&b).unwrap_or("")))), None => lines.clone() };
        vec![full, lines, d1, d2]
      }
      CodecCase::Dec(s) => vec![catch_str(|| show_list(&decode(s)))],
    }
  }
  fn oracle(&self, outs: &[String]) -> Vec<Finding> {
    let mut v = vec![];
    for o in outs { if o.starts_with("panic") { v.push(finding("no-panic", o.clone())); } }
    if !v.is_empty() { return v }
    match self {
      CodecCase::Enc(ms) => {
        let (Some(full), Some(lines)) = (unhx(&outs[0]), unhx(&outs[1])) else { return vec![finding("format", "not hex".into())] };
        let full = String::from_utf8_lossy(&full).to_string(); let lines = String::from_utf8_lossy(&lines).to_string();
        let (Some(d1), Some(d2)) = (parse_list(&outs[2]), parse_list(&outs[3])) else { return vec![finding("format", "bad list".into())] };
        // independent decoder agrees with the crate's decoder on the encoder's output
        if v3_decode(&full).as_ref() != Some(&d1) { v.push(finding("v3-agrees-full", format!("{full:?}: v3 {:?} vs decode_mappings {:?}", v3_decode(&full), d1))); }
        if v3_decode(&lines).as_ref() != Some(&d2) { v.push(finding("v3-agrees-lines", format!("{lines:?}"))); }
        // attribution of every position preserved (positions: every segment start and the column after it)
        let mut pts: Vec<(u32, u32)> = vec![];
        for m in ms { pts.push((m.gl, m.gc)); pts.push((m.gl, m.gc + 1)); if m.gc > 0 { pts.push((m.gl, m.gc - 1)); } }
        for (l, c) in pts { if lookup(ms, l, c) != lookup(&d1, l, c) { v.push(finding("lookup-preserved", format!("position {l}:{c}: input {:?} decoded {:?} (string {full:?})", lookup(ms, l, c), lookup(&d1, l, c)))); break; } }
        // only repeats of the active location / unmapped-with-nothing-active are dropped: decoded is a subsequence of the input
        let mut it = ms.iter();
        for d in &d1 { if !it.any(|m| m == d) { v.push(finding("kept-subsequence", format!("decoded segment {:?} is not from the input, string {full:?}", d))); break; } }
        // re-encoding
        let re = encode_mappings(d1.iter().map(|m| m.to()));
        if re != full { v.push(finding("reencode", format!("{full:?} re-encodes to {re:?}"))); }
        // lines-only encoder: first mapped segment of each line at column 0 without name
        let mut want: Vec<MapT> = vec![]; let mut seen = std::collections::BTreeSet::new();
        for m in ms { if let Some(o) = &m.orig { if seen.insert(m.gl) { want.push(MapT { gl: m.gl, gc: 0, orig: Some(OrigT { name: None, ..o.clone() }) }); } } }
        // the lines-only encoder never writes an original column (always delta 'A'): compared at (file, line) granularity
        let d2: Vec<MapT> = d2.into_iter().map(|m| MapT { orig: m.orig.map(|o| OrigT { col: 0, ..o }), ..m }).collect();
        let want: Vec<MapT> = want.into_iter().map(|m| MapT { orig: m.orig.map(|o| OrigT { col: 0, ..o }), ..m }).collect();
        if d2 != want { v.push(finding("lines-encoder", format!("lines string {lines:?} decodes to {:?}, want {:?}", d2, want))); }
      }
      CodecCase::Dec(s) => {
        let Some(d) = parse_list(&outs[0]) else { return vec![finding("format", "bad list".into())] };
        match v3_decode(s) { Some(w) => if w != d { v.push(finding("decoder-v3", format!("{s:?}: decode_mappings {:?}, the format defines {:?}", d, w))); }, None => {} }
      }
    }
    v
  }
  fn nontrivial(&self) -> bool {
    match self { CodecCase::Enc(ms) => ms.len() >= 2, CodecCase::Dec(s) => s.len() >= 2 }
  }
  fn stats(&self, _o: &[String], d: &mut BTreeMap<String, u64>) {
    match self {
      CodecCase::Enc(ms) => { *d.entry("enc-case".into()).or_default() += 1; for m in ms { *d.entry(match &m.orig { None => "seg:1-field", Some(o) if o.name.is_some() => "seg:5-field", _ => "seg:4-field" }.into()).or_default() += 1; if m.gc >= 1 << 20 { *d.entry("big-delta".into()).or_default() += 1; } } }
      CodecCase::Dec(s) => { *d.entry("dec-case".into()).or_default() += 1; if s.contains(";;") { *d.entry("dec:empty-lines".into()).or_default() += 1; } }
    }
  }
  fn shrink(&self) -> Vec<Self> {
    match self {
      CodecCase::Enc(ms) => (0..ms.len()).map(|i| { let mut x = ms.clone(); x.remove(i); CodecCase::Enc(x) }).collect(),
      CodecCase::Dec(s) => { let cs: Vec<char> = s.chars().collect(); (0..cs.len()).map(|i| CodecCase::Dec(cs.iter().enumerate().filter(|(j, _)| *j != i).map(|(_, c)| *c).collect())).collect() }
    }
  }
}

const BORDERS: &[u32] = &[0, 1, 15, 16, 31, 32, 511, 512, 1023, 1024, 16383, 16384, 32767, 32768, 1 << 20, (1 << 20) + 1, (1 << 25) - 1, 1 << 25, (1 << 30) - 1, 1 << 30];
fn num(rng: &mut Rng, small: usize) -> u32 { if rng.chance(4) { let b = *rng.pick(BORDERS); if rng.chance(3) && b > 0 { b - 1 } else { b } } else { rng.below(small) as u32 } }

pub fn gen_sorted(rng: &mut Rng, maxlen: usize) -> Vec<MapT> {
  let n = rng.below(maxlen + 1);
  let mut ms = vec![]; let mut gl = 1u32; let mut gc = 0u32;
  for _ in 0..n {
    if rng.chance(3) { gl += 1 + if rng.chance(3) { rng.below(3) as u32 } else { 0 }; gc = 0; }
    gc = gc.saturating_add(if rng.chance(5) { 0 } else { num(rng, 6) }).min(1 << 30);
    let orig = if rng.chance(4) { None } else {
      // repeat the previous original location now and then (the encoder's de-duplication)
      if let (true, Some(MapT { orig: Some(p), .. })) = (rng.chance(4), ms.last()) { Some(OrigT { name: if rng.chance(2) { None } else { p.name }, ..p.clone() }) }
      else { Some(OrigT { src: num(rng, 3), line: 1 + num(rng, 5), col: num(rng, 8), name: if rng.chance(3) { Some(num(rng, 3)) } else { None } }) }
    };
    ms.push(MapT { gl, gc, orig });
  }
  ms
}

fn vlq(mut v: i64, redundant: usize) -> String {
  const ALPHA: &[u8] = b"ABCDEFGHIJKLMNOPQRSTUVWXYZabcdefghijklmnopqrstuvwxyz0123456789+/";
  let mut n: u64 = if v < 0 { v = -v; ((v as u64) << 1) | 1 } else { (v as u64) << 1 };
  let mut digits = vec![];
  loop { let d = (n & 31) as u8; n >>= 5; if n > 0 || redundant > digits.len() { digits.push(d | 32); if n == 0 && redundant <= digits.len() { digits.push(0); break; } } else { digits.push(d); break; } }
  digits.iter().map(|d| ALPHA[*d as usize] as char).collect()
}

/// strings of the v3 grammar with non-negative running values, redundant continuation digits, empty segments, backwards columns
pub fn gen_grammar(rng: &mut Rng) -> String {
  let mut s = String::new();
  let (mut src, mut ol, mut oc, mut name) = (0i64, 1i64, 0i64, 0i64);
  for li in 0..rng.below(5) {
    if li > 0 { s.push(';'); if rng.chance(5) { s.push(';'); } }
    let mut gc = 0i64; let mut first = true;
    for _ in 0..rng.below(4) {
      if !first { s.push(','); if rng.chance(8) { s.push(','); } }
      first = false;
      let red = |rng: &mut Rng| if rng.chance(6) { 1 + rng.below(10) } else { 0 };
      let pick = |rng: &mut Rng, cur: i64| -> i64 { let d = if rng.chance(3) { -(rng.below(4) as i64) } else if rng.chance(6) { *rng.pick(BORDERS) as i64 } else { rng.below(6) as i64 }; if cur + d < 0 || cur + d > (1 << 31) { 0 } else { d } };
      let d0 = pick(rng, gc); gc += d0; let r = red(rng); s.push_str(&vlq(d0, r));
      match rng.below(3) {
        0 => {}
        k => {
          let d1 = pick(rng, src); src += d1; let d2 = pick(rng, ol); ol += d2; let d3 = pick(rng, oc); oc += d3;
          let r1 = red(rng); s.push_str(&vlq(d1, r1)); let r2 = red(rng); s.push_str(&vlq(d2, r2)); let r3 = red(rng); s.push_str(&vlq(d3, r3));
          if k == 2 { let d4 = pick(rng, name); name += d4; let r4 = red(rng); s.push_str(&vlq(d4, r4)); }
        }
      }
    }
  }
  s
}

pub fn gen(rng: &mut Rng, thorough: bool) -> CodecCase {
  match rng.below(10) {
    0..=5 => CodecCase::Enc(gen_sorted(rng, if thorough { 16 } else { 10 })),
    6..=8 => CodecCase::Dec(gen_grammar(rng)),
    _ => { // junk over base64 + separators + arbitrary ASCII
      let n = rng.below(24); let cs = b"ABCDgh+/09,;;, !~zZ"; CodecCase::Dec((0..n).map(|_| cs[rng.below(cs.len())] as char).collect())
    }
  }
}

pub fn corpus() -> Vec<CodecCase> {
  let o = |s, l, c, n| Some(OrigT { src: s, line: l, col: c, name: n });
  vec![
    CodecCase::Enc(vec![MapT { gl: 1, gc: 0, orig: o(0, 1, 0, None) }, MapT { gl: 1, gc: 2, orig: None }, MapT { gl: 2, gc: 2, orig: o(1, 3, 4, Some(2)) }, MapT { gl: 2, gc: 4, orig: o(1, 3, 4, Some(2)) }, MapT { gl: 4, gc: 0, orig: o(0, 1, 7, None) }, MapT { gl: 4, gc: 3, orig: o(0, 1, 7, None) }]),
    CodecCase::Dec("AAAA,E;ACEIE,KAAA".into()),
    CodecCase::Dec("ggggggggggggggA".into()),
    CodecCase::Dec(";;;".into()),
  ]
}

/// exhaustive single-field deltas: every |d| < limit as the generated-column delta of a 1-field segment after a mapped one
pub fn exhaustive_deltas(limit: u32, d: &mut Driver) -> (u64, Vec<Finding>) {
  let mut fails = vec![]; let mut n = 0u64;
  let mut batch: Vec<(Vec<MapT>, String)> = vec![];
  let flush = |batch: &mut Vec<(Vec<MapT>, String)>, d: &mut Driver, fails: &mut Vec<Finding>| {
    let reqs: Vec<String> = batch.iter().flat_map(|(ms, s)| vec![format!("enc 1 {}", show_list(ms)), format!("dec {}", hx(s.as_bytes()))]).collect();
    let resp = d.ask(&reqs);
    for (i, (ms, s)) in batch.iter().enumerate() {
      if resp[2 * i] != hx(s.as_bytes()) && fails.len() < 5 { fails.push(finding("exhaustive-enc-corr", format!("{:?}: impl {s:?} model {}", ms, resp[2 * i]))); }
      let di = decode(s);
      if resp[2 * i + 1] != show_list(&di) && fails.len() < 5 { fails.push(finding("exhaustive-dec-corr", format!("{s:?}"))); }
      if di != *ms && fails.len() < 5 { fails.push(finding("exhaustive-roundtrip", format!("{:?} -> {s:?} -> {:?}", ms, di))); }
    }
    batch.clear();
  };
  for delta in 0..limit {
    // positive delta in the column field, and as a negative delta in the original column field
    let ms = vec![MapT { gl: 1, gc: delta, orig: Some(OrigT { src: 0, line: 1, col: limit, name: None }) }, MapT { gl: 1, gc: delta + 1, orig: Some(OrigT { src: 0, line: 2, col: limit - delta, name: None }) }];
    let s = encode_mappings(ms.iter().map(|m| m.to()));
    batch.push((ms, s)); n += 1;
    if batch.len() >= 200 { flush(&mut batch, d, &mut fails); }
  }
  flush(&mut batch, d, &mut fails);
  (n, fails)
}
