//! C05: ReplaceSource histories — mutators interleaved with observers, on the object and on clones.
#![allow(dead_code)]

use crate::core::*;
use crate::gen::*;
use crate::refmodel::*;
use crate::runner::{finding, Finding};
use crate::simple::*;
use rspack_sources::*;
use std::collections::BTreeMap;
use std::hash::{Hash, Hasher};

#[derive(Clone, Debug, Hash, PartialEq, Eq)]
pub enum Obs { Source, Map, Hash, Size, Buffer, Rope, Writer, Debug, Stream }
#[derive(Clone, Debug, Hash, PartialEq, Eq)]
pub enum Step {
  /// replace/insert (insert = start == end) via replace_with_enforce, or via replace/insert when enforce is Normal
  Mut(ReplT, bool),
  /// call an observer on the current object
  Obs(Obs),
  /// continue on a clone of the current object
  Clone,
  /// clone, observe the clone, continue on the original
  CloneObserve(Obs),
  /// keep a clone alive beside the current object (a second object derived from the first; both go on living)
  Fork,
  /// replace/insert on the kept clone
  MutSide(ReplT, bool),
  /// observe the kept clone
  ObsSide(Obs),
}
#[derive(Clone, Debug, Hash)]
pub struct ReplHist { pub inner: String, pub original: bool, pub steps: Vec<Step> }

fn observe(r: &ReplaceSource<BoxSource>, o: &Obs) {
  match o {
    Obs::Source => { let _ = r.source(); }
    Obs::Map => { let _ = r.map(&MapOptions::default()); }
    Obs::Hash => { let mut h = std::collections::hash_map::DefaultHasher::new(); r.hash(&mut h); let _ = h.finish(); }
    Obs::Size => { let _ = r.size(); }
    Obs::Buffer => { let _ = r.buffer().len(); }
    Obs::Rope => { let _ = r.rope().len(); }
    Obs::Writer => { let mut v = vec![]; let _ = r.to_writer(&mut v); }
    Obs::Debug => { let _ = format!("{:?}", r); }
    Obs::Stream => { let _ = crate::core::run_stream(r, true, false); }
  }
}

/// source() of the object, or a complaint when size / buffer / rope / to_writer do not describe the same bytes
fn src_checked(r: &ReplaceSource<BoxSource>) -> String {
  let s = r.source().to_string();
  let b = s.as_bytes();
  let size = r.size(); let buf = r.buffer(); let rope = r.rope().to_string(); let mut w = vec![]; let wr = r.to_writer(&mut w);
  if size != b.len() || &*buf != b || rope.as_bytes() != b || wr.is_err() || w != b {
    return format!("views-disagree source {} bytes, size() {}, buffer() {} bytes, rope() {} bytes, to_writer {} bytes", b.len(), size, buf.len(), rope.len(), w.len())
  }
  hx(b)
}

impl ReplHist {
  fn main_list(&self) -> Vec<ReplT> { self.steps.iter().filter_map(|s| if let Step::Mut(r, _) = s { Some(r.clone()) } else { None }).collect() }
  fn side_list(&self) -> Option<Vec<ReplT>> {
    let mut cur: Vec<ReplT> = vec![]; let mut side: Option<Vec<ReplT>> = None;
    for s in &self.steps { match s { Step::Mut(r, _) => cur.push(r.clone()), Step::Fork => side = Some(cur.clone()), Step::MutSide(r, _) => if let Some(sd) = side.as_mut() { sd.push(r.clone()) }, _ => {} } }
    side
  }
  fn inner_tree(&self) -> T { if self.original { T::Orig(self.inner.clone(), "a.js".into()) } else { T::Raw(self.inner.clone()) } }
  /// replacement list after each step (the model is asked at every observation point and at the end)
  fn points(&self) -> Vec<Vec<ReplT>> {
    let mut cur: Vec<ReplT> = vec![]; let mut side: Option<Vec<ReplT>> = None; let mut pts = vec![];
    for s in &self.steps { match s {
      Step::Mut(r, _) => cur.push(r.clone()), Step::Obs(_) | Step::CloneObserve(_) => pts.push(cur.clone()), Step::Clone => {}
      Step::Fork => side = Some(cur.clone()),
      Step::MutSide(r, _) => if let Some(sd) = side.as_mut() { sd.push(r.clone()) },
      Step::ObsSide(_) => if let Some(sd) = &side { pts.push(sd.clone()) },
    } }
    pts.push(cur);
    if let Some(sd) = side { pts.push(sd); }
    pts
  }
}

impl SimpleCase for ReplHist {
  fn reqs(&self) -> Vec<String> {
    let mut v = vec![];
    for rs in self.points() { v.push(format!("tree A {}", T::Replace(Box::new(self.inner_tree()), rs).proto())); v.push("src A".into()); }
    v
  }
  fn run_impl(&self) -> Vec<String> {
    let mut out = vec![];
    let r = catch(|| {
      let mut out = vec![];
      let mut r = ReplaceSource::new(Ctx::default().build(&self.inner_tree()));
      let mut side: Option<ReplaceSource<BoxSource>> = None;
      fn apply(r: &mut ReplaceSource<BoxSource>, x: &ReplT, plain: bool) {
        if plain && x.enforce == 1 { if x.start == x.end { r.insert(x.start, &x.content, x.name.as_deref()) } else { r.replace(x.start, x.end, &x.content, x.name.as_deref()) } }
        else if x.start == x.end && plain { r.insert_with_enforce(x.start, &x.content, x.name.as_deref(), enforce_of(x.enforce)) }
        else { r.replace_with_enforce(x.start, x.end, &x.content, x.name.as_deref(), enforce_of(x.enforce)) }
      }
      for s in &self.steps {
        match s {
          Step::Mut(x, plain) => apply(&mut r, x, *plain),
          Step::Fork => { side = Some(r.clone()); }
          Step::MutSide(x, plain) => { if let Some(sd) = side.as_mut() { apply(sd, x, *plain); } }
          Step::ObsSide(o) => { if let Some(sd) = &side { observe(sd, o); out.push("ok".to_string()); out.push(src_checked(sd)); } }
          Step::Obs(o) => { observe(&r, o); out.push("ok".to_string()); out.push(src_checked(&r)); }
          Step::Clone => { r = r.clone(); }
          Step::CloneObserve(o) => { let c = r.clone(); observe(&c, o); out.push("ok".to_string()); out.push(src_checked(&c)); }
        }
      }
      out.push("ok".to_string()); out.push(src_checked(&r));
      if let Some(sd) = &side {
        out.push("ok".to_string());
        // two values derived from one another: equal exactly when their replacement lists are (seed S122), and then they hash alike
        let want_eq = self.main_list() == self.side_list().unwrap_or_default();
        let eq = r == *sd; let eq2 = *sd == r;
        let h = |x: &ReplaceSource<BoxSource>| { let mut h = std::collections::hash_map::DefaultHasher::new(); x.hash(&mut h); h.finish() };
        if eq != want_eq || eq2 != want_eq { out.push(format!("eq-after-divergence: a value and its clone, edited to {} replacement lists, compare {}", if want_eq { "the same" } else { "different" }, if eq { "equal" } else { "unequal" })); }
        else if want_eq && h(&r) != h(sd) { out.push("eq-after-divergence: equal values hash differently".to_string()); }
        else { out.push(src_checked(sd)); }
      }
      out
    });
    match r { Ok(v) => out = v, Err(m) => { let n = self.reqs().len(); out = (0..n).map(|_| format!("panic {}", panic_kind(&m))).collect(); } }
    out
  }
  fn oracle(&self, outs: &[String]) -> Vec<Finding> {
    let mut v = vec![];
    for (k, rs) in self.points().iter().enumerate() {
      let got = &outs[2 * k + 1];
      if got.starts_with("panic") { v.push(finding("no-panic", got.clone())); break }
      if got.starts_with("views-disagree") { v.push(finding("views-coherent", format!("observation point {k}: {got}"))); break }
      if got.starts_with("eq-after-divergence") { v.push(finding("eq-after-divergence", got.clone())); break }
      let want = apply_repls(self.inner.as_bytes(), rs);
      if *got != hx(&want) { v.push(finding("reference-model", format!("observation point {k}: source() {:?}, reference {:?}", unhx(got).map(|b| lossy(&b)), lossy(&want)))); break }
    }
    v
  }
  fn nontrivial(&self) -> bool {
    let muts: Vec<&ReplT> = self.steps.iter().filter_map(|s| if let Step::Mut(r, _) = s { Some(r) } else { None }).collect();
    let eq = muts.iter().enumerate().any(|(i, a)| muts[i + 1..].iter().any(|b| a.start == b.start && a.end == b.end));
    let mut seen_mut = false; let mut obs_between = false; let mut obs_seen = false;
    for s in &self.steps { match s { Step::Mut(..) => { if obs_seen { obs_between = true } seen_mut = true; } Step::Obs(_) | Step::CloneObserve(_) => { if seen_mut { obs_seen = true } } _ => {} } }
    eq || obs_between
  }
  fn stats(&self, _o: &[String], d: &mut BTreeMap<String, u64>) {
    *d.entry(format!("steps:{}", self.steps.len())).or_default() += 1;
    for s in &self.steps { let k = match s { Step::Mut(r, _) => format!("mut:enforce{}", r.enforce), Step::Obs(o) => format!("obs:{:?}", o), Step::Clone => "clone".into(), Step::CloneObserve(_) => "clone-observe".into(), Step::Fork => "fork".into(), Step::MutSide(..) => "mut-side".into(), Step::ObsSide(_) => "obs-side".into() }; *d.entry(k).or_default() += 1; }
  }
  fn shrink(&self) -> Vec<Self> {
    let mut v = vec![];
    for i in 0..self.steps.len() { let mut x = self.clone(); x.steps.remove(i); v.push(x); }
    let cs: Vec<char> = self.inner.chars().collect();
    if self.steps.iter().all(|s| !matches!(s, Step::Mut(..))) { for i in 0..cs.len() { let mut x = self.clone(); x.inner = cs.iter().enumerate().filter(|(j, _)| *j != i).map(|(_, c)| *c).collect(); v.push(x); } }
    for (i, s) in self.steps.iter().enumerate() { if let Step::Mut(r, p) = s { if !r.content.is_empty() { let mut x = self.clone(); let mut r2 = r.clone(); r2.content.pop(); x.steps[i] = Step::Mut(r2, *p); v.push(x); } } }
    v
  }
}

pub fn gen(rng: &mut Rng, thorough: bool) -> ReplHist {
  let inner = text(rng, 10, true);
  let cfg = GenCfg { max_repl: 1, ..GenCfg::wild(0) };
  // now and then a long history: more than 20 replacements exercise the sort beyond small-input fast paths
  let n = if rng.chance(12) { 22 + rng.below(20) } else { 1 + rng.below(if thorough { 12 } else { 8 }) };
  let obs = [Obs::Source, Obs::Map, Obs::Hash, Obs::Size, Obs::Buffer, Obs::Rope, Obs::Writer, Obs::Debug, Obs::Stream];
  let mut steps = vec![]; let mut made: Vec<ReplT> = vec![];
  for _ in 0..n {
    match rng.below(10) {
      0..=5 => {
        let mut r = loop { let mut v = gen_repls(rng, &GenCfg { max_repl: 3, ..cfg.clone() }, &inner); if let Some(x) = v.pop() { break x } };
        if !made.is_empty() && rng.chance(3) { let p = &made[rng.below(made.len())]; r.start = p.start; r.end = p.end; if rng.chance(2) { r.enforce = p.enforce; } }
        made.push(r.clone());
        steps.push(Step::Mut(r, rng.chance(2)));
      }
      6 | 7 => steps.push(Step::Obs(obs[rng.below(obs.len())].clone())),
      8 => steps.push(Step::Clone),
      _ => steps.push(Step::CloneObserve(obs[rng.below(obs.len())].clone())),
    }
    // two values derived from one another that both go on living: fork once, then edit and observe either
    if rng.chance(6) {
      if !steps.iter().any(|s| matches!(s, Step::Fork)) { steps.push(Step::Fork); }
      else if rng.chance(2) { let r = loop { let mut v = gen_repls(rng, &GenCfg { max_repl: 3, ..cfg.clone() }, &inner); if let Some(x) = v.pop() { break x } }; steps.push(Step::MutSide(r, rng.chance(2))); }
      else { steps.push(Step::ObsSide(obs[rng.below(obs.len())].clone())); }
    }
  }
  ReplHist { inner, original: rng.chance(2), steps }
}

/// exhaustive micro-scope: inner over {a, b, \n}^{<=maxlen}, up to `maxr` replacements with positions <= maxlen+1,
/// one observer placed at every point of the history
pub fn exhaustive(maxlen: usize, maxr: usize, d: &mut Driver) -> (u64, Vec<Finding>) {
  let alpha = ['a', 'b', '\n'];
  let mut inners = vec![String::new()];
  let mut frontier = vec![String::new()];
  for _ in 0..maxlen { let mut next = vec![]; for s in &frontier { for c in alpha { let mut t = s.clone(); t.push(c); next.push(t); } } inners.extend(next.iter().cloned()); frontier = next; }
  let mut repls = vec![];
  for a in 0..=(maxlen as u32 + 1) { for b in a..=(maxlen as u32 + 1).min(a + 2) { for (content, enforce) in [("", 1u8), ("X", 1), ("Y", 0), ("\n", 2)] { repls.push(ReplT { start: a, end: b, content: content.to_string(), name: None, enforce }); } } }
  let mut n = 0u64; let mut fails = vec![];
  let mut lists: Vec<Vec<ReplT>> = vec![vec![]];
  for r1 in &repls { lists.push(vec![r1.clone()]); if maxr >= 2 { for r2 in repls.iter().step_by(3) { lists.push(vec![r1.clone(), r2.clone()]); } } }
  for inner in &inners {
    for rs in &lists {
      for obs_at in 0..=rs.len() {
        let mut steps: Vec<Step> = vec![];
        for (i, r) in rs.iter().enumerate() { if i == obs_at { steps.push(Step::Obs(Obs::Source)); } steps.push(Step::Mut(r.clone(), false)); }
        if obs_at == rs.len() { steps.push(Step::Obs(Obs::Hash)); }
        let case = ReplHist { inner: inner.clone(), original: false, steps };
        let oi = case.run_impl();
        n += 1;
        let f = case.oracle(&oi);
        if !f.is_empty() && fails.len() < 5 { fails.push(finding("exhaustive-reference-model", format!("{:?}: {}", case, f[0].detail))); }
        if n % 7 == 0 { let om = d.ask(&case.reqs()); if om != oi && fails.len() < 5 { fails.push(finding("exhaustive-corr", format!("{:?}", case))); } }
      }
    }
  }
  (n, fails)
}
