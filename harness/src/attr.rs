//! Attribution of positions: through a chunk stream and through a SourceMap (Spec: Attr.lean).
#![allow(dead_code)]
use crate::core::*;
use rspack_sources::*;
use std::result::Result;
use std::collections::BTreeMap;

#[derive(Clone, Debug, PartialEq, Eq, Hash)]
pub struct RAttr { pub file: Bytes, pub content: Option<Bytes>, pub line: u32, pub col: u32, pub name: Option<Bytes> }
pub type Attr = Option<RAttr>;

pub struct Tables { pub sources: BTreeMap<u32, (Bytes, Option<Bytes>)>, pub names: BTreeMap<u32, Bytes> }

pub fn tables_of(evs: &[Ev]) -> Tables {
  let mut t = Tables { sources: BTreeMap::new(), names: BTreeMap::new() };
  for e in evs { match e { Ev::Source(i, n, c) => { t.sources.insert(*i, (n.clone(), c.clone())); } Ev::Name(i, n) => { t.names.insert(*i, n.clone()); } _ => {} } }
  t
}

pub fn resolve(t: &Tables, o: &Option<OrigT>) -> Attr {
  o.as_ref().map(|o| {
    let (file, content) = t.sources.get(&o.src).cloned().unwrap_or((format!("?undeclared-source-{}", o.src).into_bytes(), None));
    RAttr { file, content, line: o.line, col: o.col, name: o.name.map(|n| t.names.get(&n).cloned().unwrap_or(format!("?undeclared-name-{n}").into_bytes())) }
  })
}

/// (line, col) of every byte of `text` (1-based line, 0-based byte column)
pub fn positions(text: &[u8]) -> Vec<(u32, u32)> {
  let mut v = Vec::with_capacity(text.len());
  let (mut l, mut c) = (1u32, 0u32);
  for b in text { v.push((l, c)); if *b == b'\n' { l += 1; c = 0 } else { c += 1 } }
  v
}
pub fn end_pos(text: &[u8]) -> (u32, u32) { let (mut l, mut c) = (1u32, 0u32); for b in text { if *b == b'\n' { l += 1; c = 0 } else { c += 1 } } (l, c) }

/// columns=true, normal mode: attribution of every byte by the chunk covering it
pub fn attr_stream(s: &SRes) -> Vec<Attr> {
  let t = tables_of(&s.evs);
  let mut v = vec![];
  for e in &s.evs { if let Ev::Chunk(Some(text), m) = e { let a = resolve(&t, &m.orig); for _ in 0..text.len() { v.push(a.clone()); } } }
  v
}

/// per output line: (file, line) of the first mapped chunk on it (by reported generated line)
pub fn attr_stream_lines(s: &SRes) -> BTreeMap<u32, (Bytes, u32)> {
  let t = tables_of(&s.evs);
  let mut m = BTreeMap::new();
  for e in &s.evs { if let Ev::Chunk(_, mp) = e { if let Some(a) = resolve(&t, &mp.orig) { m.entry(mp.gl).or_insert((a.file, a.line)); } } }
  m
}

pub fn decode(mappings: &str) -> Vec<MapT> {
  SourceMap::new(mappings.to_string(), vec![], vec![], vec![]).decoded_mappings().map(|m| MapT::of(&m)).collect()
}

pub fn resolve_map(map: &SMapT, o: &Option<OrigT>) -> Attr {
  o.as_ref().map(|o| {
    let file0 = match map.sources.get(o.src as usize) {
      // a consumer applies `sourceRoot` to the entries of `sources`
      Some(f) => match map.root.as_deref() { None | Some("") => f.clone(), Some(r) if r.ends_with('/') => format!("{r}{f}"), Some(r) => format!("{r}/{f}") },
      None => format!("?undeclared-source-{}", o.src),
    };
    RAttr { file: file0.into_bytes(), content: map.contents.get(o.src as usize).map(|c| c.clone().into_bytes()), line: o.line, col: o.col,
      name: o.name.map(|n| map.names.get(n as usize).cloned().unwrap_or(format!("?undeclared-name-{n}")).into_bytes()) }
  })
}

/// columns=true: greatest segment at or before each position on its line
pub fn attr_map(map: &SMapT, text: &[u8]) -> Vec<Attr> {
  let segs = decode(&map.mappings);
  let mut by_line: BTreeMap<u32, Vec<&MapT>> = BTreeMap::new();
  for s in &segs { by_line.entry(s.gl).or_default().push(s); }
  positions(text).into_iter().map(|(l, c)| {
    let mut best: Option<&MapT> = None;
    if let Some(v) = by_line.get(&l) { for s in v { if s.gc <= c { if best.map_or(true, |b| s.gc >= b.gc) { best = Some(s); } } } }
    best.and_then(|s| resolve_map(map, &s.orig))
  }).collect()
}

/// columns=false: the line's first mapped segment → (file, line)
pub fn attr_map_lines(map: &SMapT) -> BTreeMap<u32, (Bytes, u32)> {
  let mut m = BTreeMap::new();
  for s in decode(&map.mappings) { if let Some(a) = resolve_map(map, &s.orig) { m.entry(s.gl).or_insert((a.file, a.line)); } }
  m
}

/// strip what C03 does not compare (content)
pub fn no_content(a: &Attr) -> Attr { a.as_ref().map(|a| RAttr { content: None, ..a.clone() }) }

pub fn show_attr(a: &Attr) -> String {
  match a { None => "-".into(), Some(a) => format!("{}:{}:{}{}", String::from_utf8_lossy(&a.file), a.line, a.col, a.name.as_ref().map(|n| format!("({})", String::from_utf8_lossy(n))).unwrap_or_default()) }
}
