//! The tree-script properties: generators, oracles, projections.
#![allow(dead_code)]
use crate::attr::*;
use crate::core::*;
use crate::gen::*;
use crate::ops::*;
use crate::refmodel::*;
use crate::runner::*;
use std::collections::BTreeMap;

fn s(b: &[u8]) -> String { String::from_utf8_lossy(b).to_string() }
fn single(t: T, ops: Vec<Op>, note: &str) -> Case { Case { trees: vec![t], script: ops.into_iter().map(|o| (0, o)).collect(), note: note.into() } }
fn kind_stats(c: &Case, outs: &[Out], d: &mut BTreeMap<String, u64>) {
  let mut k = BTreeMap::new();
  for t in &c.trees { t.kinds(&mut k); }
  for (n, v) in k { *d.entry(format!("node:{n}")).or_default() += v; }
  *d.entry(format!("depth:{}", c.trees.iter().map(|t| t.depth()).max().unwrap_or(0))).or_default() += 1;
  if outs.iter().any(|o| o.is_panic()) { *d.entry("impl-panic".into()).or_default() += 1; }
  for t in &c.trees { count_repl_shapes(t, d); }
}
fn count_repl_shapes(t: &T, d: &mut BTreeMap<String, u64>) {
  match t {
    T::Replace(i, rs) => {
      let src = catch(|| src_of(i)).unwrap_or_default();
      for r in rs {
        let a = (r.start as usize).min(src.len()); let b = (r.end as usize).min(src.len());
        if src.as_bytes()[a..b].contains(&b'\n') { *d.entry("repl:deletes-newline".into()).or_default() += 1; }
        if r.content.contains('\n') { *d.entry("repl:inserts-newline".into()).or_default() += 1; }
        if r.start as usize >= src.len() { *d.entry("repl:beyond-end".into()).or_default() += 1; }
        if r.content.is_empty() { *d.entry("repl:empty-content".into()).or_default() += 1; }
      }
      for (i, a) in rs.iter().enumerate() { for b in &rs[i + 1..] { if a.start == b.start && a.end == b.end { *d.entry("repl:equal-key".into()).or_default() += 1; } else if a.start < b.end && b.start < a.end { *d.entry("repl:overlap".into()).or_default() += 1; } } }
      count_repl_shapes(i, d);
    }
    T::Concat(cs) => for c in cs { count_repl_shapes(&c.1, d) },
    T::Cached(_, i) => count_repl_shapes(i, d),
    _ => {}
  }
}
fn no_known(_: &Case, _: &Finding, _: &[Out]) -> Option<String> { None }

/// remove CachedSource nodes that sit beneath a ReplaceSource
fn uncache_under_replace(t: &T, under: bool) -> T {
  match t {
    T::Cached(id, i) => if under { uncache_under_replace(i, under) } else { T::Cached(*id, Box::new(uncache_under_replace(i, under))) },
    T::Replace(i, rs) => T::Replace(Box::new(uncache_under_replace(i, true)), rs.clone()),
    T::Concat(cs) => T::Concat(cs.iter().map(|(ty, c)| { let c2 = uncache_under_replace(c, under); (*ty && matches!(c2, T::Concat(_)), c2) }).collect()),
    x => x.clone(),
  }
}
fn has_cached_under_replace(t: &T) -> bool { t.has(&|x| matches!(x, T::Replace(i, _) if i.has(&|y| matches!(y, T::Cached(..))))) }
/// K5: a CachedSource beneath a ReplaceSource replays coarser chunks than its first fill; the failure
/// is this finding exactly when it disappears once those CachedSource wrappers are removed.
pub(crate) fn k5(c: &Case, f: &Finding, oracle: &(dyn Fn(&Case, &[Out]) -> Vec<Finding> + std::panic::RefUnwindSafe)) -> Option<String> {
  k5x(c, f, oracle, &|_, _, _| false)
}
/// the same with another listed finding taken into account: what remains of the failure once the CachedSource wrappers are removed may
/// itself be that other finding (e.g. K2 for C13: the wrapper variant refines columns) — then the cached case shows K5 on top of it
pub(crate) fn k5x(c: &Case, f: &Finding, oracle: &(dyn Fn(&Case, &[Out]) -> Vec<Finding> + std::panic::RefUnwindSafe),
                  other: &(dyn Fn(&Case, &Finding, &[Out]) -> bool + std::panic::RefUnwindSafe)) -> Option<String> {
  if !c.trees.iter().any(has_cached_under_replace) { return None }
  let c2 = Case { trees: c.trees.iter().map(|t| uncache_under_replace(t, false)).collect(), script: c.script.clone(), note: c.note.clone() };
  // the same failure = same clause and, where the detail names one of several variants, the same variant (another variant may fail for another, separately listed reason)
  let key = |x: &Finding| -> String { if x.detail.starts_with("variant ") { format!("{} {}", x.clause, x.detail.split(' ').take(2).collect::<Vec<_>>().join(" ")) } else { x.clause.clone() } };
  let still = catch(|| { let o2 = run_case_impl(&c2); oracle(&c2, &o2).iter().any(|x| key(x) == key(f) && !other(&c2, x, &o2)) }).unwrap_or(true);
  if still { None } else { Some("K5".into()) }
}
/// K2: a ReplaceSource with only empty replacements refines columns at its split points
fn k2(c: &Case, f: &Finding, outs: &[Out]) -> bool {
  if c.note.contains("wrappers") && f.clause == "attribution" && f.detail.starts_with("variant 6 ") {
    let get = |ti: usize, op: &Op| c.script.iter().zip(outs).find(|((i, o), _)| *i == ti && o == op).map(|(_, o)| o);
    if let (Some(Out::Text(src)), Some(Out::Map(m)), Some(Out::Map(n))) = (get(0, &Op::Src), get(0, &Op::Map(true)), get(6, &Op::Map(true))) {
      let (a, b) = (per_pos_attr(src, m), per_pos_attr(src, n));
      return (0..src.len()).all(|i| a[i] == b[i] || match (&a[i], &b[i]) { (Some(x), Some(y)) => x.file == y.file && x.line == y.line && x.name == y.name && y.col > x.col, _ => false });
    }
  }
  false
}
fn has_composite(c: &Case) -> bool { c.trees.iter().any(|t| t.has(&|x| matches!(x, T::Replace(..) | T::Concat(_) | T::Cached(..)))) }

fn stream_text(s: &SRes) -> Bytes { let mut v = vec![]; for e in &s.evs { if let Ev::Chunk(Some(t), _) = e { v.extend_from_slice(t); } } v }
fn any_textless(s: &SRes) -> bool { s.evs.iter().any(|e| matches!(e, Ev::Chunk(None, _))) }
fn any_mapped(s: &SRes) -> bool { s.evs.iter().any(|e| matches!(e, Ev::Chunk(_, m) if m.orig.is_some())) }

fn panics(c: &Case, outs: &[Out], v: &mut Vec<Finding>) {
  for ((i, op), o) in c.script.iter().zip(outs) { if let Out::Panic(m) = o { v.push(finding("no-panic", format!("A{i}.{:?} panicked: {m}", op))); } }
}

// ---------------------------------------------------------------- C01
pub fn c01() -> TreeProp {
  TreeProp {
    id: "C01",
    gen: Box::new(|rng, thorough| {
      let cfg = GenCfg::wild(if thorough { 4 } else { 3 });
      let t = TreeGen::new().tree(rng, &cfg, cfg.depth, false);
      // every stream twice: the second pass of a CachedSource replays from its cache
      single(t, vec![Op::Src, Op::Stream(true, false), Op::Stream(false, false), Op::Stream(true, false), Op::Stream(false, false)], "C01")
    }),
    oracle: Box::new(|c, outs| {
      let mut v = vec![];
      panics(c, outs, &mut v);
      let Some(src) = outs[0].text() else { return v };
      for (k, o) in outs.iter().enumerate().skip(1) {
        if let Some(st) = o.stream() {
          let txt = stream_text(st);
          if &txt != src { v.push(finding("reassemble", format!("{:?}: chunks give {:?}, source() is {:?}", c.script[k].1, s(&txt), s(src)))); }
          if any_textless(st) { v.push(finding("has-text", format!("{:?}: a chunk without text was delivered", c.script[k].1))); }
        }
      }
      v
    }),
    project: Box::new(|_, outs| outs.iter().map(|o| match o {
      Out::Text(t) => format!("src {}", hx(t)),
      Out::Stream(st) => format!("text {} textless {}", hx(&stream_text(st)), any_textless(st)),
      Out::Panic(_) => "panic".into(),
      o => format!("{:?}", o) }).collect()),
    nontrivial: Box::new(|c, _| has_composite(c)),
    stats: Box::new(kind_stats),
    known: Box::new(no_known),
    corpus: vec![],
  }
}

// ---------------------------------------------------------------- C02
fn ascii_cfg(depth: usize) -> GenCfg { GenCfg::ascii(depth) }

fn chunk_positions(st: &SRes) -> Vec<(usize, u32, u32)> {
  let mut off = 0usize; let mut v = vec![];
  for e in &st.evs { if let Ev::Chunk(t, m) = e { v.push((off, m.gl, m.gc)); if let Some(t) = t { off += t.len(); } } }
  v
}

pub fn c02() -> TreeProp {
  TreeProp {
    id: "C02",
    gen: Box::new(|rng, thorough| {
      let cfg = ascii_cfg(if thorough { 4 } else { 3 });
      let t = TreeGen::new().tree(rng, &cfg, cfg.depth, false);
      single(t, vec![Op::Src, Op::Stream(true, false), Op::Stream(false, false), Op::Stream(true, true), Op::Stream(false, true), Op::Stream(true, false), Op::Stream(false, false), Op::Stream(true, true), Op::Stream(false, true)], "C02")
    }),
    oracle: Box::new(|c, outs| {
      let mut v = vec![];
      panics(c, outs, &mut v);
      let Some(src) = outs[0].text() else { return v };
      let end = end_pos(src);
      let pos = positions(src);
      for (k, o) in outs.iter().enumerate().skip(1) {
        let Op::Stream(cols, fin) = c.script[k].1 else { continue };
        let Some(st) = o.stream() else { continue };
        if (st.line, st.col) != end { v.push(finding(if fin { "final-info" } else { "info" }, format!("columns={cols} final={fin}: info {}:{} but text ends at {}:{}", st.line, st.col, end.0, end.1))); }
        if !fin {
          if stream_text(st) != *src { continue } // C01's business
          for (off, gl, gc) in chunk_positions(st) {
            let want = if off < pos.len() { pos[off] } else { end };
            if (gl, gc) != want { v.push(finding("chunk-pos", format!("columns={cols}: chunk at byte {off} reported {gl}:{gc}, really starts at {}:{}", want.0, want.1))); break; }
          }
        } else {
          for (_, gl, gc) in chunk_positions(st) {
            if !(pos.contains(&(gl, gc)) || (gl, gc) == end) { v.push(finding("final-pos-in-text", format!("columns={cols}: reported position {gl}:{gc} is no position of the text {:?}", s(src)))); break; }
          }
        }
      }
      v
    }),
    project: Box::new(|_, outs| outs.iter().map(|o| match o {
      Out::Text(t) => format!("src {}", hx(t)),
      Out::Stream(st) => format!("info {}:{} pos {:?}", st.line, st.col, chunk_positions(st)),
      Out::Panic(_) => "panic".into(),
      o => format!("{:?}", o) }).collect()),
    nontrivial: Box::new(|c, _| {
      let mut d = BTreeMap::new(); for t in &c.trees { count_repl_shapes(t, &mut d); }
      d.contains_key("repl:deletes-newline") || d.contains_key("repl:inserts-newline") || c.trees[0].has(&|x| matches!(x, T::Concat(cs) if cs.len() > 1))
    }),
    stats: Box::new(kind_stats),
    known: Box::new(no_known),
    corpus: vec![],
  }
}

// ---------------------------------------------------------------- C03
fn c03_findings(src: &Bytes, st: &SRes, map: &Option<SMapT>, cols: bool, v: &mut Vec<Finding>) {
  if stream_text(st) != *src { return }
  let mapped = any_mapped(st);
  if map.is_some() != mapped { v.push(finding("presence", format!("columns={cols}: map() is {} but the stream {} a mapped chunk", if map.is_some() { "Some" } else { "None" }, if mapped { "has" } else { "has not" }))); }
  if cols {
    let a: Vec<Attr> = attr_stream(st).iter().map(no_content).collect();
    let b: Vec<Attr> = match map { Some(m) => attr_map(m, src).iter().map(no_content).collect(), None => vec![None; src.len()] };
    if let Some(i) = (0..src.len()).find(|i| a.get(*i) != b.get(*i)) {
      let p = positions(src)[i];
      v.push(finding("attribution", format!("columns=true: position {}:{} (byte {i}) stream says {} map says {}", p.0, p.1, show_attr(&a[i]), show_attr(&b[i]))));
    }
  } else {
    let a = attr_stream_lines(st);
    let b = match map { Some(m) => attr_map_lines(m), None => BTreeMap::new() };
    let last = end_pos(src); let nlines = if last.1 == 0 { last.0 - 1 } else { last.0 };
    for l in 1..=nlines { if a.get(&l) != b.get(&l) { v.push(finding("attribution-lines", format!("columns=false: line {l} stream says {:?} map says {:?}", a.get(&l).map(|x| (s(&x.0), x.1)), b.get(&l).map(|x| (s(&x.0), x.1))))); break; } }
  }
}

fn c03_oracle(c: &Case, outs: &[Out]) -> Vec<Finding> {
  let mut v = vec![];
  panics(c, outs, &mut v);
  let Some(src) = outs.iter().find_map(|o| o.text()) else { return v };
  for cols in [true, false] {
    let st = c.script.iter().zip(outs).find_map(|((_, op), o)| if *op == Op::Stream(cols, false) { o.stream() } else { None });
    let mp = c.script.iter().zip(outs).find_map(|((_, op), o)| if *op == Op::Map(cols) { o.map() } else { None });
    if let (Some(st), Some(mp)) = (st, mp) { c03_findings(src, st, mp, cols, &mut v); }
  }
  v
}

pub fn c03() -> TreeProp {
  TreeProp {
    id: "C03",
    gen: Box::new(|rng, thorough| {
      let cfg = ascii_cfg(if thorough { 4 } else { 3 });
      let t = TreeGen::new().tree(rng, &cfg, cfg.depth, false);
      // both orders: stream first (fills caches by streaming) or map first (fills caches by map())
      let ops = if rng.chance(2) { vec![Op::Src, Op::Stream(true, false), Op::Map(true), Op::Stream(false, false), Op::Map(false)] }
                else { vec![Op::Src, Op::Map(true), Op::Stream(true, false), Op::Map(false), Op::Stream(false, false)] };
      single(t, ops, "C03")
    }),
    oracle: Box::new(c03_oracle),
    project: Box::new(|c, outs| {
      let src = outs[0].text().cloned().unwrap_or_default();
      c.script.iter().zip(outs).map(|((_, op), o)| match (op, o) {
        (_, Out::Text(t)) => format!("src {}", hx(t)),
        (Op::Stream(true, _), Out::Stream(st)) => format!("attr {:?}", attr_stream(st).iter().map(|a| show_attr(&no_content(a))).collect::<Vec<_>>()),
        (Op::Stream(false, _), Out::Stream(st)) => format!("attr-lines {:?}", attr_stream_lines(st)),
        (Op::Map(true), Out::Map(m)) => format!("map {} {:?}", m.is_some(), m.as_ref().map(|m| attr_map(m, &src).iter().map(|a| show_attr(&no_content(a))).collect::<Vec<_>>())),
        (Op::Map(false), Out::Map(m)) => format!("map-lines {} {:?}", m.is_some(), m.as_ref().map(attr_map_lines)),
        (_, Out::Panic(_)) => "panic".into(),
        (_, o) => format!("{:?}", o) }).collect()
    }),
    nontrivial: Box::new(|_, outs| outs.iter().any(|o| o.stream().map_or(false, |st| {
      // a mapped and an unmapped chunk on one line
      let mut m: BTreeMap<u32, (bool, bool)> = BTreeMap::new();
      for e in &st.evs { if let Ev::Chunk(_, mp) = e { let x = m.entry(mp.gl).or_default(); if mp.orig.is_some() { x.0 = true } else { x.1 = true } } }
      m.values().any(|x| x.0 && x.1) }))),
    stats: Box::new(kind_stats),
    known: Box::new(|c, f, _| {
      // K1: SourceMapSource without inner map returns its map verbatim although it maps nothing
      if f.clause == "presence" && c.trees[0].has(&|x| matches!(x, T::Sms { inner: None, .. })) && f.detail.contains("is Some") { return Some("K1".into()) }
      if f.clause.starts_with("attribution") || f.clause == "presence" { return k5(c, f, &c03_oracle) }
      None
    }),
    corpus: vec![],
  }
}

// ---------------------------------------------------------------- C11
fn c11_map(src: &Bytes, m: &SMapT, cols: bool, v: &mut Vec<Finding>) {
  let ok = |b: u8| b.is_ascii_alphanumeric() || b == b'+' || b == b'/' || b == b',' || b == b';';
  if !m.mappings.bytes().all(ok) { v.push(finding("map-charset", format!("columns={cols}: mappings {:?}", m.mappings))); }
  let segs = decode(&m.mappings);
  let end = end_pos(src);
  let mut prev: Option<(u32, u32)> = None;
  for sg in &segs {
    if sg.gl < 1 { v.push(finding("map-line-ge-1", format!("columns={cols}: segment on line {}", sg.gl))); }
    if let Some(p) = prev { if (sg.gl, sg.gc) <= p { v.push(finding("map-increasing", format!("columns={cols}: segment {}:{} after {}:{}", sg.gl, sg.gc, p.0, p.1))); break; } }
    prev = Some((sg.gl, sg.gc));
    if (sg.gl, sg.gc) >= end { v.push(finding("map-before-end", format!("columns={cols}: segment {}:{} not before end {}:{} of {:?}", sg.gl, sg.gc, end.0, end.1, s(src)))); break; }
    if let Some(o) = &sg.orig {
      if o.src as usize >= m.sources.len() { v.push(finding("map-source-index", format!("columns={cols}: source index {} of {}", o.src, m.sources.len()))); break; }
      if let Some(n) = o.name { if n as usize >= m.names.len() { v.push(finding("map-name-index", format!("columns={cols}: name index {} of {}", n, m.names.len()))); break; } }
    }
  }
}
fn c11_stream(st: &SRes, what: &str, v: &mut Vec<Finding>) {
  let mut srcs: Vec<u32> = vec![]; let mut names: Vec<u32> = vec![];
  for e in &st.evs {
    match e {
      Ev::Source(i, _, _) => srcs.push(*i),
      Ev::Name(i, _) => names.push(*i),
      Ev::Chunk(_, m) => if let Some(o) = &m.orig {
        if !srcs.contains(&o.src) { v.push(finding("declared-before-use", format!("{what}: chunk uses source {} before it is announced", o.src))); return }
        if let Some(n) = o.name { if !names.contains(&n) { v.push(finding("declared-before-use", format!("{what}: chunk uses name {} before it is announced", n))); return } }
      }
    }
  }
  for (k, l) in [("source", &srcs), ("name", &names)] {
    // dense from zero, each index announced once, in order (the `DeclOK` of the theorems: an index announced twice — under two
    // names — is the defect F15 / seed S90)
    if l.iter().enumerate().any(|(i, x)| *x != i as u32) { v.push(finding("dense", format!("{what}: announced {k} indices {:?}", l))); }
  }
}
/// per announced index: ordinal of the last chunk before its announcement, ordinal of the first chunk using it
fn announce_profile(st: &SRes) -> String {
  let mut out = vec![]; let mut k = 0usize;
  let mut first_use: BTreeMap<(u8, u32), usize> = BTreeMap::new();
  let mut ann: BTreeMap<(u8, u32), usize> = BTreeMap::new();
  for e in &st.evs {
    match e {
      Ev::Source(i, _, _) => { ann.entry((0, *i)).or_insert(k); }
      Ev::Name(i, _) => { ann.entry((1, *i)).or_insert(k); }
      Ev::Chunk(_, m) => { if let Some(o) = &m.orig { first_use.entry((0, o.src)).or_insert(k); if let Some(n) = o.name { first_use.entry((1, n)).or_insert(k); } } k += 1; }
    }
  }
  for (key, a) in &ann { out.push(format!("{:?}@{}<{:?}", key, a, first_use.get(key).map(|u| a <= u))); }
  out.join(",")
}

pub fn c11() -> TreeProp {
  TreeProp {
    id: "C11",
    gen: Box::new(|rng, thorough| {
      let cfg = ascii_cfg(if thorough { 4 } else { 3 });
      let mut t = TreeGen::new().tree(rng, &cfg, cfg.depth, false);
      // every fourth case is a combined SourceMapSource (inner source map) with the shapes of C09's generator — self-named inner
      // sources, files named like the generated text —, bare or under a ReplaceSource / CachedSource (seed S90)
      if rng.chance(4) {
        let c0 = GenCfg::ascii(0);
        let leaf = loop { if let x @ T::Sms { .. } = crate::gen::gen_combined(rng, &c0) { break x } };
        t = match rng.below(3) { 0 => leaf, 1 => T::Replace(Box::new(leaf), vec![]), _ => T::Cached(900, Box::new(leaf)) };
      }
      // maps and streams once more at the end: by then every CachedSource in the tree answers from its cache
      single(t, vec![Op::Src, Op::Map(true), Op::Map(false), Op::Stream(true, false), Op::Stream(false, false), Op::Stream(true, true), Op::Stream(false, true), Op::Map(true), Op::Map(false), Op::Stream(true, false), Op::Stream(true, true)], "C11")
    }),
    oracle: Box::new(|c, outs| {
      let mut v = vec![];
      panics(c, outs, &mut v);
      let Some(src) = outs[0].text() else { return v };
      for ((_, op), o) in c.script.iter().zip(outs) {
        match (op, o) {
          (Op::Map(cols), Out::Map(Some(m))) => c11_map(src, m, *cols, &mut v),
          (Op::Stream(cl, f), Out::Stream(st)) => c11_stream(st, &format!("columns={cl} final={f}"), &mut v),
          _ => {}
        }
      }
      v
    }),
    project: Box::new(|c, outs| c.script.iter().zip(outs).map(|((_, _op), o)| match o {
      Out::Text(t) => format!("src {}", hx(t)),
      Out::Map(m) => format!("map {:?}", m.as_ref().map(|m| (decode(&m.mappings), m.sources.len(), m.names.len()))),
      Out::Stream(st) => format!("ann {}", announce_profile(st)),
      Out::Panic(_) => "panic".into(),
      o => format!("{:?}", o) }).collect()),
    nontrivial: Box::new(|_, outs| outs.iter().any(|o| matches!(o, Out::Map(Some(_))))),
    stats: Box::new(kind_stats),
    known: Box::new(no_known),
    corpus: vec![],
  }
}

// ---------------------------------------------------------------- C07
pub fn c07() -> TreeProp {
  TreeProp {
    id: "C07",
    gen: Box::new(|rng, thorough| {
      let cfg = GenCfg { max_repl: 3, ..GenCfg::wild(if thorough { 4 } else { 3 }) };
      let mut t = TreeGen::new().tree(rng, &cfg, cfg.depth, false);
      // now and then children at the sizes where I/O code switches strategy (a child of 8 KiB or more after and before small ones,
      // also beneath a ReplaceSource / CachedSource: seed S118)
      let big_case = rng.chance(40);
      if big_case {
        let n = [8191usize, 8192, 8193, 9000, 16384][rng.below(5)];
        let big: String = (0..n).map(|i| if i % 61 == 60 { '\n' } else { (b'a' + (i % 26) as u8) as char }).collect();
        let kids = vec![(false, T::Raw("head;".into())), (false, if rng.chance(2) { T::Raw(big) } else { T::Orig(big, "big.js".into()) }), (false, T::RawStr("tail".into()))];
        t = match rng.below(3) { 0 => T::Concat(kids), 1 => T::Replace(Box::new(T::Concat(kids)), vec![]), _ => T::Cached(901, Box::new(T::Concat(kids))) };
      }
      // … and byte-backed raw children that cut a multi-byte text at arbitrary byte positions (the lossy decoding of a concatenation
      // is not the concatenation of the lossy decodings: seed S117)
      if !big_case && rng.chance(25) {
        let text = ["a€b😀c", "é日x", "😀😀", "x€"][rng.below(4)].as_bytes().to_vec();
        let mut cuts: Vec<usize> = (0..1 + rng.below(3)).map(|_| rng.below(text.len() + 1)).collect(); cuts.push(0); cuts.push(text.len()); cuts.sort(); cuts.dedup();
        let kids: Vec<(bool, T)> = cuts.windows(2).map(|w| (false, if rng.chance(2) { T::RawB(text[w[0]..w[1]].to_vec()) } else { T::RawBuf(text[w[0]..w[1]].to_vec()) })).collect();
        t = T::Concat(kids);
      }
      let len = ref_buf(&t).len();
      let mut ops = vec![Op::Src, Op::Buffer, Op::Size, Op::Rope];
      if big_case { for k in [0usize, 4, 5, 6, 8190, 8191, 8192, 8196, 8197, 8198, len - 1, len, len + 1] { ops.push(Op::Writer(k.min(len + 1))); } return single(t, ops, "C07") }
      let maxk = if thorough { len + 1 } else { (len + 1).min(40) };
      if len + 1 <= maxk { for k in 0..=len { ops.push(Op::Writer(k)); } } else { for _ in 0..maxk { ops.push(Op::Writer(rng.below(len + 2))); } ops.push(Op::Writer(len)); }
      single(t, ops, "C07")
    }),
    oracle: Box::new(|c, outs| {
      let mut v = vec![];
      panics(c, outs, &mut v);
      let t = &c.trees[0];
      let (Some(src), Some(buf)) = (outs[0].text(), outs[1].text()) else { return v };
      if let Out::Num(n) = &outs[2] { if *n as usize != buf.len() { v.push(finding("size", format!("size() {n} but buffer().len() {}", buf.len()))); } }
      if let Out::Rope(Some(r)) = &outs[3] { if r != src { v.push(finding("rope", format!("rope() renders {:?}, source() {:?}", s(r), s(src)))); } }
      if *src != ref_src(t) { v.push(finding("source-concat", format!("source() {:?}, children/reference give {:?}", s(src), s(&ref_src(t))))); }
      if *buf != ref_buf(t) { v.push(finding("buffer-concat", format!("buffer() {:?}, children/reference give {:?}", buf, ref_buf(t)))); }
      if all_utf8_leaves(t) && buf != src { v.push(finding("buffer-utf8", "buffer() is not the bytes of source()".into())); }
      for ((_, op), o) in c.script.iter().zip(outs) {
        if let (Op::Writer(k), Out::Writer(ok, w)) = (op, o) {
          if *k >= buf.len() { if !*ok || w != buf { v.push(finding("to-writer", format!("writer with budget {k}: ok={ok}, wrote {} of {} bytes", w.len(), buf.len()))); } }
          else { if *ok { v.push(finding("to-writer-error", format!("writer failing after {k} bytes: to_writer returned Ok"))); } if !buf.starts_with(w) { v.push(finding("to-writer-prefix", format!("writer failing after {k} bytes: wrote {:?}, not a prefix of buffer()", w))); } }
        }
      }
      v
    }),
    project: Box::new(|_, outs| outs.iter().map(|o| format!("{:?}", o)).collect()),
    nontrivial: Box::new(|c, _| c.trees[0].has(&|x| matches!(x, T::Concat(cs) if cs.iter().any(|c| matches!(c.1, T::Concat(_)))) || matches!(x, T::Replace(i, _) if i.has(&|y| matches!(y, T::RawB(_) | T::RawBuf(_)))))),
    stats: Box::new(kind_stats),
    known: Box::new(no_known),
    corpus: vec![],
  }
}

// ---------------------------------------------------------------- C13
fn per_pos_attr(src: &Bytes, m: &Option<SMapT>) -> Vec<Attr> { match m { Some(m) => attr_map(m, src).iter().map(no_content).collect(), None => vec![None; src.len()] } }
fn line_attr(m: &Option<SMapT>) -> BTreeMap<u32, (Bytes, u32)> { match m { Some(m) => attr_map_lines(m), None => BTreeMap::new() } }

fn c13_oracle(c: &Case, outs: &[Out]) -> Vec<Finding> {
  let mut v = vec![];
  panics(c, outs, &mut v);
  let get = |ti: usize, op: &Op| c.script.iter().zip(outs).find(|((i, o), _)| *i == ti && o == op).map(|(_, o)| o);
  let (Some(Out::Text(src0)), Some(Out::Map(m1)), Some(Out::Map(m0))) = (get(0, &Op::Src), get(0, &Op::Map(true)), get(0, &Op::Map(false))) else { return v };
  for ti in 1..c.trees.len() {
    let (Some(Out::Text(src)), Some(Out::Map(n1)), Some(Out::Map(n0))) = (get(ti, &Op::Src), get(ti, &Op::Map(true)), get(ti, &Op::Map(false))) else { continue };
    if src != src0 { v.push(finding("text", format!("variant {ti}: source() {:?} vs {:?}", s(src), s(src0)))); continue }
    let (a, b) = (per_pos_attr(src0, m1), per_pos_attr(src, n1));
    if let Some(i) = (0..src0.len()).find(|i| a[*i] != b[*i]) { v.push(finding("attribution", format!("variant {ti} byte {i}: reference {} variant {}", show_attr(&a[i]), show_attr(&b[i])))); }
    if line_attr(m0) != line_attr(n0) {
      // only lines of the text count
      let e = end_pos(src0); let nl = if e.1 == 0 { e.0 - 1 } else { e.0 };
      let (x, y) = (line_attr(m0), line_attr(n0));
      if let Some(l) = (1..=nl).find(|l| x.get(l) != y.get(l)) { v.push(finding("attribution-lines", format!("variant {ti} line {l}: reference {:?} variant {:?}", x.get(&l), y.get(&l)))); }
    }
  }
  v
}

pub fn c13() -> TreeProp {
  TreeProp {
    id: "C13",
    gen: Box::new(|rng, thorough| {
      let cfg = ascii_cfg(if thorough { 3 } else { 2 });
      let mut g = TreeGen::new();
      let a = g.tree(rng, &cfg, cfg.depth, false); let b = g.tree(rng, &cfg, cfg.depth, false); let cc = g.tree(rng, &cfg, cfg.depth, false);
      let f = |t: &T| (false, t.clone());
      let (trees, note) = if rng.chance(2) {
        (vec![
          T::Concat(vec![f(&a), f(&b), f(&cc)]),
          T::Concat(vec![(true, T::Concat(vec![f(&a), f(&b)])), f(&cc)]),
          T::Concat(vec![(false, T::Concat(vec![f(&a), f(&b)])), f(&cc)]),
          T::Concat(vec![f(&a), (true, T::Concat(vec![f(&b), f(&cc)]))]),
          T::Concat(vec![f(&a), (false, T::Concat(vec![f(&b), (false, T::Concat(vec![f(&cc)]))]))]),
          T::Concat(vec![(false, T::Raw(String::new())), f(&a), (false, T::Concat(vec![])), f(&b), (true, T::Concat(vec![])), f(&cc), (false, T::RawStr(String::new()))]),
        ], "C13 grouping")
      } else {
        let len = src_of(&a).len() as u32;
        let empties: Vec<ReplT> = (0..1 + rng.below(2)).map(|_| { let p = crate::gen::align(&src_of(&a), rng.below(len as usize + 2)) as u32; ReplT { start: p, end: p, content: String::new(), name: None, enforce: 1 } }).collect();
        (vec![
          a.clone(),
          T::Concat(vec![f(&a)]),
          T::Concat(vec![(false, T::Raw(String::new())), f(&a)]),
          T::Replace(Box::new(a.clone()), vec![]),
          T::Cached(900, Box::new(a.clone())),
          T::Concat(vec![(true, T::Concat(vec![f(&a)]))]),
          T::Replace(Box::new(a.clone()), empties),
        ], "C13 wrappers")
      };
      let mut script = vec![];
      for i in 0..trees.len() { script.push((i, Op::Src)); script.push((i, Op::Map(true))); script.push((i, Op::Map(false))); }
      Case { trees, script, note: note.into() }
    }),
    oracle: Box::new(c13_oracle),
    project: Box::new(|c, outs| {
      let mut srcs: BTreeMap<usize, Bytes> = BTreeMap::new();
      for ((i, op), o) in c.script.iter().zip(outs) { if let (Op::Src, Out::Text(t)) = (op, o) { srcs.insert(*i, t.clone()); } }
      c.script.iter().zip(outs).map(|((i, op), o)| match (op, o) {
        (_, Out::Text(t)) => format!("src {}", hx(t)),
        (Op::Map(true), Out::Map(m)) => format!("attr {:?}", per_pos_attr(srcs.get(i).unwrap_or(&vec![]), m).iter().map(show_attr).collect::<Vec<_>>()),
        (Op::Map(false), Out::Map(m)) => format!("attr-lines {:?}", line_attr(m)),
        (_, Out::Panic(_)) => "panic".into(),
        (_, o) => format!("{:?}", o) }).collect()
    }),
    nontrivial: Box::new(|_, outs| outs.iter().any(|o| matches!(o, Out::Map(Some(_))))),
    stats: Box::new(kind_stats),
    known: Box::new(|c, f, outs| {
      if k2(c, f, outs) { return Some("K2".into()) }
      // K5, possibly on top of K2: without the CachedSource wrappers the failure is gone, or is K2
      k5x(c, f, &c13_oracle, &|c2, f2, o2| k2(c2, f2, o2))
    }),
    corpus: vec![],
  }
}

// ---------------------------------------------------------------- C10
fn c10_obs(src: &Bytes, op: &Op, o: &Out) -> String {
  match (op, o) {
    (_, Out::Text(t)) => format!("text {}", hx(t)),
    (_, Out::Num(n)) => format!("num {n}"),
    (Op::Stream(true, _), Out::Stream(st)) => format!("stream info {}:{} text {} attr {:?}", st.line, st.col, hx(&stream_text(st)), attr_stream(st).iter().map(|a| show_attr(&no_content(a))).collect::<Vec<_>>()),
    (Op::Stream(false, _), Out::Stream(st)) => format!("stream info {}:{} text {} attr-lines {:?}", st.line, st.col, hx(&stream_text(st)), attr_stream_lines(st)),
    (Op::Map(true), Out::Map(m)) => format!("map attr {:?}", per_pos_attr(src, m).iter().map(show_attr).collect::<Vec<_>>()),
    (Op::Map(false), Out::Map(m)) => { let e = end_pos(src); let nl = if e.1 == 0 { e.0 - 1 } else { e.0 }; let mut x = line_attr(m); x.retain(|l, _| *l <= nl); format!("map attr-lines {:?}", x) }
    (_, Out::Panic(_)) => "panic".into(),
    (_, o) => format!("{:?}", o),
  }
}
fn c10_oracle(c: &Case, outs: &[Out]) -> Vec<Finding> {
  let mut v = vec![];
  panics(c, outs, &mut v);
  let refi = c.trees.len() - 1;
  let Some(src) = c.script.iter().zip(outs).find_map(|((i, op), o)| if *i == refi && *op == Op::Src { o.text() } else { None }) else { return v };
  let mut want: BTreeMap<String, String> = BTreeMap::new();
  for ((i, op), o) in c.script.iter().zip(outs) { if *i == refi { want.insert(format!("{:?}", op), c10_obs(src, op, o)); } }
  for (k, ((i, op), o)) in c.script.iter().zip(outs).enumerate() {
    if *i == refi { continue }
    let got = c10_obs(src, op, o);
    if let Some(w) = want.get(&format!("{:?}", op)) { if *w != got { v.push(finding("transparent", format!("step {k} A{i}.{:?}: cached answers {} — wrapped source answers {}", op, trunc(&got, 300), trunc(&w, 300)))); break; } }
  }
  v
}
pub fn c10() -> TreeProp {
  TreeProp {
    id: "C10",
    gen: Box::new(|rng, thorough| {
      let cfg = ascii_cfg(if thorough { 3 } else { 2 });
      let x = TreeGen { next_cached: 0 }.tree(rng, &cfg, cfg.depth, false);
      let w = T::Cached(1000, Box::new(x.clone()));
      let all = [Op::Src, Op::Buffer, Op::Size, Op::Map(true), Op::Map(false), Op::Stream(true, false), Op::Stream(false, false)];
      let n = 1 + rng.below(if thorough { 10 } else { 6 });
      let mut script: Vec<(usize, Op)> = (0..n).map(|_| (rng.below(2), all[rng.below(all.len())].clone())).collect();
      // observe everything once more at the end, on both handles
      for op in &all { if rng.chance(2) { script.push((rng.below(2), op.clone())); } }
      for op in &all { script.push((2, op.clone())); }
      Case { trees: vec![w.clone(), w, x], script, note: "C10".into() }
    }),
    oracle: Box::new(c10_oracle),
    project: Box::new(|c, outs| {
      let refi = c.trees.len() - 1;
      let src = c.script.iter().zip(outs).find_map(|((i, op), o)| if *i == refi && *op == Op::Src { o.text().cloned() } else { None }).unwrap_or_default();
      c.script.iter().zip(outs).map(|((_, op), o)| c10_obs(&src, op, o)).collect()
    }),
    nontrivial: Box::new(|c, _| { let fills_map = c.script.iter().any(|(i, op)| *i < 2 && matches!(op, Op::Map(_))); let fills_stream = c.script.iter().any(|(i, op)| *i < 2 && matches!(op, Op::Stream(..))); fills_map && fills_stream }),
    stats: Box::new(|c, o, d| { kind_stats(c, o, d); *d.entry(format!("history-len:{}", c.script.iter().filter(|(i, _)| *i < 2).count())).or_default() += 1; }),
    known: Box::new(|c, f, _| k5(c, f, &c10_oracle)),
    corpus: vec![],
  }
}

pub fn by_id(id: &str) -> Option<TreeProp> {
  match id { "C01" => Some(c01()), "C02" => Some(c02()), "C03" => Some(c03()), "C11" => Some(c11()), "C07" => Some(c07()), "C13" => Some(c13()), "C10" => Some(c10()), _ => None }
}
