import RsModel.Model.Composite
/-!
# Source trees: `Source` / `StreamChunks` per node kind (raw_source.rs, original_source.rs,
source_map_source.rs, concat_source.rs, replace_source.rs, cached_source.rs)

A `CachedSource` node carries an id into a store of cached maps (shared by its clones), so streaming
and `map()` are state-passing.
-/
namespace Rs

mutual
inductive Src where
  /-- `RawSource`: `isBuf` ⇒ `RawValue::Buffer(bytes)` with `lossy = String::from_utf8_lossy(bytes)` (std, a
  parameter); otherwise `RawValue::String` with `bytes = lossy = text` -/
  | raw (isBuf : Bool) (bytes lossy : Text)
  | rawStr (t : Text)
  | rawBuf (bytes lossy : Text)
  | orig (t name : Text)
  | sms (t name : Text) (map : SMap) (origSrc : Option Text) (inner : Option SMap) (remove : Bool)
  /-- children after the constructor's flattening (`mkConcat`) -/
  | concat (cs : SrcList)
  /-- replacements in insertion order -/
  | replace (inner : Src) (rs : List Repl)
  | cached (id : Nat) (inner : Src)
inductive SrcList where
  | nil
  | cons (s : Src) (rest : SrcList)
end

def SrcList.toList : SrcList → List Src
  | .nil => []
  | .cons s r => s :: r.toList

def SrcList.ofList : List Src → SrcList
  | [] => .nil
  | s :: r => .cons s (SrcList.ofList r)

def SrcList.length : SrcList → Nat
  | .nil => 0
  | .cons _ r => r.length + 1

/-- an item handed to `ConcatSource::new` / `add`: a typed `ConcatSource` is spliced, anything else
(including a boxed `ConcatSource`) is kept as one child -/
inductive CItem where
  | typed (children : List Src)
  | other (s : Src)

def mkConcat (items : List CItem) : Src :=
  .concat (SrcList.ofList (items.map fun | .typed cs => cs | .other s => [s]).flatten)

/-! ## text views -/
mutual
def Src.src : Src → Text
  | .raw _ _ lossy => lossy
  | .rawStr t => t
  | .rawBuf _ lossy => lossy
  | .orig t _ => t
  | .sms t _ _ _ _ _ => t
  | .concat cs => cs.srcs
  | .replace inner rs => replaceSource inner.src rs
  | .cached _ inner => inner.src
def SrcList.srcs : SrcList → Text
  | .nil => []
  | .cons s r => s.src ++ r.srcs
end

mutual
def Src.buffer : Src → Text
  | .raw _ bytes _ => bytes
  | .rawStr t => t
  | .rawBuf bytes _ => bytes
  | .orig t _ => t
  | .sms t _ _ _ _ _ => t
  | .concat cs => cs.buffers
  | .replace inner rs => replaceSource inner.src rs
  | .cached _ inner => inner.buffer
def SrcList.buffers : SrcList → Text
  | .nil => []
  | .cons s r => s.buffer ++ r.buffers
end

mutual
def Src.size : Src → Nat
  | .raw _ bytes _ => bytes.length
  | .rawStr t => t.length
  | .rawBuf bytes _ => bytes.length
  | .orig t _ => t.length
  | .sms t _ _ _ _ _ => t.length
  | .concat cs => cs.sizes
  | .replace inner rs => (replaceSource inner.src rs).length
  | .cached _ inner => inner.size
def SrcList.sizes : SrcList → Nat
  | .nil => 0
  | .cons s r => s.size + r.sizes
end

/-- `ReplaceSource::rope()` loop -/
def ropeSplice (inner : Rope) : Nat → List Repl → Rope → Except Rope.SliceErr Rope
  | pos, [], acc => (inner.byteSlice pos inner.len).map acc.append
  | pos, r :: rs, acc =>
    let step : Except Rope.SliceErr Rope :=
      if pos < r.start then (inner.byteSlice pos (min r.start inner.len)).map acc.append else .ok acc
    step.bind fun acc1 => ropeSplice inner (min (max pos r.stop) inner.len) rs (acc1.add r.content)

mutual
/-- `Source::rope()`; `.error` = the `byte_slice` panic -/
def Src.rope : Src → Except Rope.SliceErr Rope
  | .raw _ _ lossy => .ok (.light lossy)
  | .rawStr t => .ok (.light t)
  | .rawBuf _ lossy => .ok (.light lossy)
  | .orig t _ => .ok (.light t)
  | .sms t _ _ _ _ _ => .ok (.light t)
  | .concat .nil => .ok Rope.new
  | .concat (.cons s rest) =>
    match rest with
    | .nil => s.rope                                      -- `children.len() == 1`
    | rest => s.rope.bind fun x => rest.ropes (Rope.new.append x)
  | .replace inner rs =>
    inner.rope.bind fun ir => if rs.isEmpty then .ok ir else ropeSplice ir 0 (sortRepls rs) Rope.new
  | .cached _ inner => inner.rope
def SrcList.ropes : SrcList → Rope → Except Rope.SliceErr Rope
  | .nil, acc => .ok acc
  | .cons s r, acc => s.rope.bind fun x => r.ropes (acc.append x)
end

/-- a writer accepting `budget` more bytes, then failing; `write_all` of `data` -/
def writeAll (budget : Nat) (written : Text) (data : Text) : Bool × Nat × Text :=
  if data.length ≤ budget then (true, budget - data.length, written ++ data)
  else (false, 0, written ++ data.take budget)

mutual
/-- `to_writer` against a writer failing after `budget` bytes: (ok?, remaining budget, bytes written) -/
def Src.toWriter : Src → Nat → Text → Bool × Nat × Text
  | .raw _ bytes _, b, w => writeAll b w bytes
  | .rawStr t, b, w => writeAll b w t
  | .rawBuf bytes _, b, w => writeAll b w bytes
  | .orig t _, b, w => writeAll b w t
  | .sms t _ _ _ _ _, b, w => writeAll b w t
  | .concat cs, b, w => cs.toWriters b w
  | .replace inner rs, b, w => writeAll b w (replaceSource inner.src rs)
  | .cached _ inner, b, w => inner.toWriter b w
def SrcList.toWriters : SrcList → Nat → Text → Bool × Nat × Text
  | .nil, b, w => (true, b, w)
  | .cons s r, b, w =>
    match s.toWriter b w with
    | (true, b', w') => r.toWriters b' w'
    | e => e
end

/-! ## streaming and `map()` -/

/-- cached maps: `(id, options) ↦ Option<SourceMap>` -/
abbrev Store := List ((Nat × Opts) × Option SMap)

def Store.get? (σ : Store) (k : Nat × Opts) : Option (Option SMap) := (σ.find? (·.1 == k)).map (·.2)
/-- `entry(k).or_insert(v)` / insert into a vacant entry -/
def Store.insertNew (σ : Store) (k : Nat × Opts) (v : Option SMap) : Store :=
  if (σ.get? k).isSome then σ else σ ++ [(k, v)]

mutual
/-- `stream_chunks(options, …)` -/
def Src.stream : Src → Opts → Store → SResult × Store
  | .raw _ _ lossy, o, σ => (streamRaw lossy o, σ)
  | .rawStr t, o, σ => (streamRaw t o, σ)
  | .rawBuf _ lossy, o, σ => (streamRaw lossy o, σ)
  | .orig t name, o, σ => (streamOriginal t name o, σ)
  | .sms t name map origSrc inner remove, o, σ =>
    match inner with
    | some im => (streamCombined t map name origSrc im remove o, σ)
    | none => (streamSM t map o, σ)
  | .concat .nil, o, σ => (concatStream o.final [], σ)
  | .concat (.cons s rest), o, σ =>
    match rest with
    | .nil => s.stream o σ                                -- `children.len() == 1`
    | rest =>
      let r := s.stream o σ
      let r2 := rest.streams o r.2
      (concatStream o.final (r.1 :: r2.1), r2.2)
  | .replace inner rs, o, σ =>
    let r := inner.stream ⟨o.columns, false⟩ σ
    (replaceStream (sortRepls rs) r.1, r.2)
  | .cached id inner, o, σ =>
    match σ.get? (id, o) with
    | some (some m) => (streamSM inner.src m o, σ)
    | some none => (streamRaw inner.src o, σ)
    | none =>
      let r := inner.stream o σ
      (r.1, r.2.insertNew (id, o) (mapOfEvs o.columns r.1.evs))
def SrcList.streams : SrcList → Opts → Store → List SResult × Store
  | .nil, _, σ => ([], σ)
  | .cons s rest, o, σ =>
    let r := s.stream o σ
    let r2 := rest.streams o r.2
    (r.1 :: r2.1, r2.2)
end

/-- `get_map(self, options)` -/
def getMap (s : Src) (o : Opts) (σ : Store) : Option SMap × Store :=
  let r := s.stream ⟨o.columns, true⟩ σ
  (mapOfEvs o.columns r.1.evs, r.2)

/-- `Source::map(options)` -/
def Src.map : Src → Opts → Store → Option SMap × Store
  | .raw _ _ _, _, σ => (none, σ)
  | .rawStr _, _, σ => (none, σ)
  | .rawBuf _ _, _, σ => (none, σ)
  | .orig t name, o, σ => getMap (.orig t name) o σ
  | .sms t name map origSrc inner remove, o, σ =>
    match inner with
    | none => (some map, σ)
    | some _ => getMap (.sms t name map origSrc inner remove) o σ
  | .concat cs, o, σ => getMap (.concat cs) o σ
  | .replace inner rs, o, σ => if rs.isEmpty then inner.map o σ else getMap (.replace inner rs) o σ
  | .cached id inner, o, σ =>
    match σ.get? (id, o) with
    | some m => (m, σ)
    | none => let r := inner.map o σ; (r.1, r.2.insertNew (id, o) r.1)

end Rs
