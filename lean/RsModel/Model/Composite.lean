import RsModel.Model.Combined
import RsModel.Model.Rope
/-!
# Composites, parametric in their children's event streams
`ConcatSource::stream_chunks` (concat_source.rs:185-352), `ReplaceSource::stream_chunks`
(replace_source.rs:343-759), `get_map` / `stream_and_get_source_and_map` (helpers.rs).
-/
namespace Rs

/-! ## get_map -/

/-- `sources.resize(i + 1, ""); sources[i] = v` -/
def tblSet (tbl : List Text) (i : Nat) (v : Text) : List Text := lmInsert [] tbl i v

structure MapAcc where
  ms : List Mapping := []       -- chunk mappings in delivery order (reversed)
  sources : List Text := []
  contents : List Text := []
  names : List Text := []
deriving Repr

def mapAccEv (a : MapAcc) : Ev → MapAcc
  | .chunk _ m => { a with ms := m :: a.ms }
  | .source i s c =>
    { a with sources := tblSet a.sources i s
             contents := match c with | some c => tblSet a.contents i c | none => a.contents }
  | .name i n => { a with names := tblSet a.names i n }

/-- the map built from an event stream by `get_map` / `stream_and_get_source_and_map` -/
def mapOfEvs (columns : Bool) (evs : List Ev) : Option SMap :=
  let a := evs.foldl mapAccEv {}
  let mappings := encodeWith columns a.ms.reverse
  if mappings.isEmpty then none
  else some { mappings, sources := a.sources, sourcesContent := a.contents, names := a.names }

/-! ## ConcatSource -/

structure CSt where
  lineOff : Nat := 0
  colOff : Nat := 0
  sourceMapping : Assoc := []
  nameMapping : Assoc := []
  needClose : Bool := false
  -- per child
  sim : List Nat := []
  nim : List Nat := []
  lastMappingLine : Nat := 0
deriving Repr, Inhabited

def concatEv (final : Bool) (st : CSt) : Ev → CSt × List Ev
  | .chunk text m =>
    let line := m.gl + st.lineOff
    let column := if m.gl == 1 then m.gc + st.colOff else m.gc
    let close : List Ev :=
      if st.needClose && (m.gl != 1 || m.gc != 0) then [.chunk none ⟨st.lineOff + 1, st.colOff, none⟩] else []
    let rsi : Option Nat := m.orig.bind fun o => st.sim[o.src]?
    let rni : Option Nat := (m.orig.bind (·.name)).bind fun n => st.nim[n]?
    let st' := { st with needClose := false, lastMappingLine := if rsi.isNone then 0 else m.gl }
    let out : Ev :=
      match rsi, m.orig with
      | some si, some o => .chunk (if final then none else text) ⟨line, column, some ⟨si, o.line, o.col, rni⟩⟩
      | _, _ => .chunk (if final then none else text) ⟨line, column, none⟩   -- final mode: fix F1
    (st', close ++ [out])
  | .source i source content =>
    let (sm, evs, g) := globalSource st.sourceMapping source content
    ({ st with sourceMapping := sm, sim := lmInsert 0 st.sim i g }, evs)
  | .name i name =>
    let (nm, evs, g) := globalName st.nameMapping name
    ({ st with nameMapping := nm, nim := lmInsert 0 st.nim i g }, evs)

def concatEvs (final : Bool) : CSt → List Ev → CSt × List Ev
  | st, [] => (st, [])
  | st, e :: es =>
    let r := concatEv final st e
    let r2 := concatEvs final r.1 es
    (r2.1, r.2 ++ r2.2)

/-- one iteration of `for item in self.children()` given the child's stream result -/
def concatChild (final : Bool) (st : CSt) (child : SResult) : CSt × List Ev :=
  let st0 := { st with sim := [], nim := [], lastMappingLine := 0 }
  let (st1, evs) := concatEvs final st0 child.evs
  let gi := child.info
  let close := st1.needClose && (gi.line != 1 || gi.col != 0)
  let closeEv : List Ev := if close then [.chunk none ⟨st1.lineOff + 1, st1.colOff, none⟩] else []
  let nc := if close then false else st1.needClose
  ({ st1 with colOff := if gi.line > 1 then gi.col else st1.colOff + gi.col
              needClose := nc || (final && st1.lastMappingLine == gi.line)
              lineOff := st1.lineOff + (gi.line - 1) }, evs ++ closeEv)

def concatGo (final : Bool) : CSt → List SResult → CSt × List Ev
  | st, [] => (st, [])
  | st, c :: cs =>
    let r := concatChild final st c
    let r2 := concatGo final r.1 cs
    (r2.1, r.2 ++ r2.2)

/-- `ConcatSource::stream_chunks` over already-streamed children (more than one child, or none) -/
def concatStream (final : Bool) (children : List SResult) : SResult :=
  let r := concatGo final {} children
  ⟨r.2, ⟨r.1.lineOff + 1, r.1.colOff⟩⟩

/-! ## ReplaceSource -/

structure Repl where
  start : Nat
  stop : Nat
  content : Text
  name : Option Text
  enforce : Nat          -- Pre = 0, Normal = 1, Post = 2 (declaration order, `Generated.enforceOrder`)
deriving DecidableEq, Repr, Inhabited

/-- `(a.start, a.end, a.enforce).cmp(..)` is `≤` -/
def Repl.le (a b : Repl) : Bool :=
  a.start < b.start || (a.start == b.start && (a.stop < b.stop || (a.stop == b.stop && a.enforce ≤ b.enforce)))

/-- stable insertion sort (`itertools::sorted_by` = `Vec::sort_by`, stable) -/
def insertSorted (r : Repl) : List Repl → List Repl
  | [] => [r]
  | x :: xs => if r.le x && !(x.le r) then r :: x :: xs else x :: insertSorted r xs

/-- sorted replacements: stable w.r.t. insertion order -/
def sortRepls (rs : List Repl) : List Repl := rs.foldr (fun r acc => insertSortedStable r acc) []
where
  /-- insert `r` (which comes *before* everything in `acc` in insertion order) -/
  insertSortedStable (r : Repl) : List Repl → List Repl
    | [] => [r]
    | x :: xs => if r.le x then r :: x :: xs else x :: insertSortedStable r xs

/-- `ReplaceSource::source()` splice loop on the not-yet-consumed suffix `rest = inner[pos..]` -/
def specGo : Nat → Text → List Repl → Text
  | _, rest, [] => rest
  | pos, rest, r :: rs =>
    rest.take (r.start - pos) ++ r.content ++
      specGo (pos + min (max pos r.stop - pos) rest.length) (rest.drop (max pos r.stop - pos)) rs

/-- `ReplaceSource::source()` -/
def replaceSource (inner : Text) (rs : List Repl) : Text :=
  if rs.isEmpty then inner else specGo 0 inner (sortRepls rs)

def u32 (x : Int) : Nat := (x % 2 ^ 32).toNat

structure RSt where
  pos : Nat := 0
  rest : List Repl             -- `repls[i..]`
  re : Option Nat := none      -- `replacement_end`
  lineOff : Int := 0
  colOff : Int := 0
  colOffLine : Int := 0
  contents : List (Option Text) := []   -- `source_content_lines`
  nameMapping : Assoc := []
  nim : List Nat := []                  -- `name_index_mapping`
deriving Repr, Inhabited

/-- `check_original_content` -/
def checkContent (contents : List (Option Text)) (o : Orig) (expected : Text) : Bool :=
  match contents[o.src]? with
  | some (some c) =>
    if o.line = 0 then false    -- `checked_sub(1)`: fix F5
    else match (splitLines c)[o.line - 1]? with
      | some ln => expected.isPrefixOf (csub ln o.col USIZE_MAX)
      | none => false
  | _ => false

def advOrig (contents : List (Option Text)) (orig : Option Orig) (skipped : Text) (by_ : Nat) : Option Orig :=
  match orig with
  | some o => if checkContent contents o skipped then some { o with col := o.col + by_ } else some o
  | none => none

def gcolOf (st : RSt) (line : Int) (gc : Nat) : Nat :=
  u32 ((gc : Int) + (if line == st.colOffLine then st.colOff else 0))

def mapName (nim : List Nat) (o : Option Orig) : Option Orig :=
  o.map fun o => { o with name := o.name.bind fun n => nim[n]? }

/-- skip the (rest of the) chunk: the two "Skip over whole chunk" blocks.  `remain` = bytes skipped -/
def skipWhole (st : RSt) (chunk : Text) (gl gc : Nat) (remain : Nat) (endPos : Nat) : RSt :=
  let line : Int := (gl : Int) + st.lineOff
  if endsWithNL chunk then
    if st.colOffLine == line then { st with lineOff := st.lineOff - 1, colOff := st.colOff + gc, pos := endPos }
    else { st with lineOff := st.lineOff - 1, colOff := gc, colOffLine := line, pos := endPos }   -- fix F2
  else if st.colOffLine == line then { st with colOff := st.colOff - remain, pos := endPos }
  else { st with colOff := -(remain : Int), colOffLine := line, pos := endPos }

def colShift (st : RSt) (line : Int) (by_ : Int) : RSt :=
  if st.colOffLine == line then { st with colOff := st.colOff - by_ } else { st with colOff := -by_, colOffLine := line }

/-- emit the lines of a replacement's content -/
def emitContent (gc : Nat) (orig : Option Orig) : List Text → Option Nat → RSt → Int → RSt × List Ev × Int
  | [], _, st, line => (st, [], line)
  | cl :: cls, nameIdx, st, line =>
    let ev := Ev.chunk (some cl) ⟨u32 line, gcolOf st line gc, orig.map fun o => { o with name := nameIdx }⟩
    let (st', line') : RSt × Int :=
      if cls.isEmpty && !endsWithNL cl then
        (if st.colOffLine == line then { st with colOff := st.colOff + cl.length }
         else { st with colOff := cl.length, colOffLine := line }, line)
      else ({ st with lineOff := st.lineOff + 1, colOff := -(gc : Int), colOffLine := line + 1 }, line + 1)
    let r := emitContent gc orig cls none st' line'
    (r.1, ev :: r.2.1, r.2.2)

/-- mutable locals of one callback invocation -/
structure LSt where
  chunkPos : Nat
  gc : Nat
  orig : Option Orig
deriving Repr, Inhabited

def reOf (st : RSt) : Nat := st.re.getD 0

/-- "Emit chunk until replacement" (replace_source.rs:477-519) -/
def rBefore (chunk : Text) (line : Int) (r : Repl) (st : RSt) (l : LSt) : RSt × LSt × List Ev :=
  if r.start > st.pos then
    let offset := r.start - st.pos
    let slice := bsub chunk l.chunkPos (l.chunkPos + offset)
    let ev := Ev.chunk (some slice) ⟨u32 line, gcolOf st line l.gc, mapName st.nim l.orig⟩
    ({ st with pos := r.start },
     { chunkPos := l.chunkPos + offset, gc := l.gc + offset, orig := advOrig st.contents l.orig slice slice.length }, [ev])
  else (st, l, [])

/-- the name carried by the first line of the replacement content (replace_source.rs:529-545, fix F7) -/
def rName (r : Repl) (st1 : RSt) (l1 : LSt) : RSt × List Ev × Option Nat :=
  match r.name, l1.orig with
  | some nm, some _ =>
    let g := globalName st1.nameMapping nm
    ({ st1 with nameMapping := g.1 }, g.2.1, some g.2.2)
  | _, _ => (st1, [], (l1.orig.bind (·.name)).bind fun n => st1.nim[n]?)

/-- how one iteration of the `while let` loop ends -/
inductive RNext where
  | done (st : RSt)                 -- "Skip over whole chunk": the callback returns
  | cont (st : RSt) (l : LSt)       -- next iteration
deriving Inhabited

/-- one iteration of the `while let Some(next_replacement_pos)` loop for the replacement `r` (its start lies
before the end of the chunk); `rs` = the replacements after it -/
def rIter (chunk : Text) (gl endPos : Nat) (r : Repl) (rs : List Repl) (st : RSt) (l : LSt) : List Ev × RNext :=
  let line : Int := (gl : Int) + st.lineOff
  let b := rBefore chunk line r st l
  let n := rName r b.1 b.2.1
  let c := emitContent b.2.1.gc b.2.1.orig (splitLines r.content) n.2.2 n.1 line
  let re' : Nat := max (reOf c.1) r.stop
  let st4 := { c.1 with re := some re', rest := rs }
  let offset : Int := (chunk.length : Int) - endPos + re' - b.2.1.chunkPos
  let evs := b.2.2 ++ n.2.1 ++ c.2.1
  if offset > 0 then
    if re' ≥ endPos then
      (evs, .done (skipWhole st4 chunk gl b.2.1.gc (chunk.length - b.2.1.chunkPos) endPos))
    else
      let off := offset.toNat
      let line2 : Int := (gl : Int) + st4.lineOff
      let skipped := bsub chunk b.2.1.chunkPos (b.2.1.chunkPos + off)
      let l2 : LSt := { chunkPos := b.2.1.chunkPos + off, gc := b.2.1.gc + off, orig := advOrig st4.contents b.2.1.orig skipped off }
      (evs, .cont (colShift { st4 with pos := st4.pos + off } line2 offset) l2)
  else (evs, .cont st4 b.2.1)

/-- the `while let Some(next_replacement_pos)` loop; `none` in the last component = returned early -/
def rLoop (chunk : Text) (gl endPos : Nat) : List Repl → RSt → LSt → RSt × List Ev × Option LSt
  | [], st, l => ({ st with rest := [] }, [], some l)
  | r :: rs, st, l =>
    if r.start < endPos then
      match rIter chunk gl endPos r rs st l with
      | (evs, .done st') => (st', evs, none)
      | (evs, .cont st' l') =>
        let r' := rLoop chunk gl endPos rs st' l'
        (r'.1, evs ++ r'.2.1, r'.2.2)
    else ({ st with rest := r :: rs }, [], some l)

/-- the `on_chunk` closure -/
def rOnChunk (st : RSt) (chunk : Text) (m : Mapping) : RSt × List Ev :=
  let endPos := st.pos + chunk.length
  let skip : Option Nat := match st.re with | some e => if e > st.pos then some e else none | none => none
  let start : Option (RSt × LSt) :=
    match skip with
    | some e =>
      if e ≥ endPos then none
      else
        let cp := e - st.pos
        let line : Int := (m.gl : Int) + st.lineOff
        let orig := advOrig st.contents m.orig (bsub chunk 0 cp) cp
        some (colShift { st with pos := st.pos + cp } line cp, { chunkPos := cp, gc := m.gc + cp, orig })
    | none => some (st, { chunkPos := 0, gc := m.gc, orig := m.orig })
  match start with
  | none => (skipWhole st chunk m.gl m.gc chunk.length endPos, [])
  | some (st1, l1) =>
    match rLoop chunk m.gl endPos st1.rest st1 l1 with
    | (st2, evs, none) => (st2, evs)
    | (st2, evs, some l2) =>
      let tail : List Ev :=
        if l2.chunkPos < chunk.length then
          let line : Int := (m.gl : Int) + st2.lineOff
          [.chunk (some (chunk.drop l2.chunkPos)) ⟨u32 line, gcolOf st2 line l2.gc, mapName st2.nim l2.orig⟩]
        else []
      ({ st2 with pos := endPos }, evs ++ tail)

def rEv (st : RSt) : Ev → RSt × List Ev
  | .chunk text m => rOnChunk st (text.getD []) m
  | .source i s c => ({ st with contents := lmInsert none st.contents i c }, [.source i s c])
  | .name i n =>
    let (m, evs, g) := globalName st.nameMapping n
    ({ st with nameMapping := m, nim := lmInsert 0 st.nim i g }, evs)

def rEvs : RSt → List Ev → RSt × List Ev
  | st, [] => (st, [])
  | st, e :: es => let r := rEv st e; let r2 := rEvs r.1 es; (r2.1, r.2 ++ r2.2)

/-- remaining replacements after the inner stream ended -/
def rRemainder (gcInfo : Nat) : List Text → RSt → Int → RSt × List Ev × Int
  | [], st, line => (st, [], line)
  | cl :: cls, st, line =>
    let ev := Ev.chunk (some cl) ⟨u32 line, gcolOf st line gcInfo, none⟩
    let (st', line') : RSt × Int :=
      if cls.isEmpty && !endsWithNL cl then
        (if st.colOffLine == line then { st with colOff := st.colOff + cl.length }
         else { st with colOff := cl.length, colOffLine := line }, line)
      else ({ st with lineOff := st.lineOff + 1, colOff := -(gcInfo : Int), colOffLine := line + 1 }, line + 1)
    let r := rRemainder gcInfo cls st' line'
    (r.1, ev :: r.2.1, r.2.2)

/-- `ReplaceSource::stream_chunks` given the inner stream (always requested with `final_source: false`)
and the *sorted* replacements -/
def replaceStream (sorted : List Repl) (inner : SResult) : SResult :=
  let (st, evs) := rEvs { rest := sorted } inner.evs
  let remainder : Text := (st.rest.map (·.content)).flatten
  let line0 : Int := (inner.info.line : Int) + st.lineOff
  let (st', evR, line) := rRemainder inner.info.col (splitLines remainder) st line0
  ⟨evs ++ evR, ⟨u32 line, gcolOf st' line inner.info.col⟩⟩

end Rs
