import RsModel.Model.Conc
import RsModel.Spec.RootCalls
import RsModel.Spec.ReplRef
/-!
# Shared-state protocol of concurrent readers, with the values (C18)

`Model/Conc.lean` models the shared cells only and keeps the values abstract (`stale`/`sorted`, `M`/`S`).  This file is the same
protocol — the same operations, the same schedule points, the same program counters — carrying the *values* the crate computes:

* the shared `ReplaceSource` is an `RState` (`Spec/ReplRef.lean`): the replacement list (immutable while readers run: mutators need
  `&mut self`), `sorted` = the replacements `sorted_index` points at, `isSorted` = `is_sorted`.  `sort_replacement` stores
  `sortRepls repls`; `sorted_replacement` returns what it reads from the index; `clone` returns the `RState` it assembles from the flag
  and the index it read.
* the shared `CachedSource` is the `Store` of the sequential model (`Model/Tree.lean`).  A call whose answer one access decides
  (`map()` hitting at its `get`, `stream_chunks` finding its entry occupied) acts through the sequential function `rootCall3`
  (`Lemmas/RootNested.lean`).  A `map()` that missed ends with `entry().or_insert(inner.map())` (`mapStore`); a `stream_chunks` that
  found its entry vacant keeps the entry lock, streams the wrapped source and ends with `VacantEntry::insert` (`streamStore`, an
  unconditional store).  That these two, at the moment they happen, coincide with the sequential call is *proved* from the lock
  invariant (`Lemmas/ConcV.lean`), not built in.  Between a miss and the store the call computes on the wrapped source alone; the
  theorems take the wrapped tree cache-free, so that computation is a pure function and its place in the interleaving is immaterial.
* the memoised hash is `OnceLock<u64>`: `get_or_init` with the one value `hv` every caller computes.

`log` is a ghost variable: the CachedSource calls in the order of those deciding accesses, with the answers they returned.
-/
namespace Rs.ConcV
open Rs

/-- operations of a reader thread -/
inductive Op where
  | sorted                 -- `sorted_replacement()` (source, hash, map, stream, … of the shared ReplaceSource)
  | clone                  -- `ReplaceSource::clone`
  | call (c : RCall3)      -- on the shared CachedSource: `map(columns)`, `stream_chunks(columns)`, `source`, `buffer`, `size`
  | once                   -- `OnceLock::get_or_init` (the memoised hash)

/-- what a completed call returned -/
inductive Ans where
  | sorted (rs : List Repl)
  | cloned (c : RState)
  | call (c : RCall3) (a : RAns3)
  | once (v : Nat)

/-- the fixed data of one concurrent phase -/
structure Params where
  id : Nat            -- cache id of the shared CachedSource
  inner : Src         -- the source it wraps
  hv : Nat            -- the hash every `get_or_init` caller computes

structure Shared where
  r : RState
  σ : Store
  lockT : Option Nat := none        -- holder of the entry lock for key (true, false)
  lockF : Option Nat := none        -- … for key (false, false)
  once : Option Nat := none
  log : List (RCall3 × RAns3) := []

def Shared.lockOf (sh : Shared) (c : Bool) : Option Nat := if c then sh.lockT else sh.lockF
def Shared.setLock (sh : Shared) (c : Bool) (v : Option Nat) : Shared := if c then { sh with lockT := v } else { sh with lockF := v }

structure Thread where
  ops : List Op
  pc : Nat := 0
  sawFlag : Bool := false
  gotIdx : List Repl := []
  outs : List Ans := []

structure Sys where
  sh : Shared
  ths : List Thread

def Thread.finish (t : Thread) (a : Ans) : Thread := { t with ops := t.ops.tail, pc := 0, outs := t.outs ++ [a] }

/-- a call whose answer is decided by one access to the shared map — `map()` that hits at its `get`, `stream_chunks` that finds its
entry occupied, the text views — acts through the sequential function -/
def perform (P : Params) (sh : Shared) (c : RCall3) : Shared × RAns3 :=
  let r := rootCall3 P.id P.inner c sh.σ
  ({ sh with σ := r.2, log := sh.log ++ [(c, r.1)] }, r.1)

/-- unconditional store (`VacantEntry::insert`; on an occupied key it would replace the value) -/
def _root_.Rs.Store.insertForce (σ : Store) (k : Nat × Opts) (v : Option SMap) : Store :=
  σ.filter (fun e => !(e.1 == k)) ++ [(k, v)]

/-- the end of a `map()` that missed: `entry(options).or_insert(inner.map(options))`, answer = what the entry holds afterwards -/
def mapStore (P : Params) (sh : Shared) (col : Bool) : Shared × RAns3 :=
  let r := P.inner.map ⟨col, false⟩ sh.σ
  let σ' := r.2.insertNew (P.id, ⟨col, false⟩) r.1
  let a : RAns3 := .io (.map ((σ'.get? (P.id, ⟨col, false⟩)).getD r.1))
  ({ sh with σ := σ', log := sh.log ++ [(.io (col, .map), a)] }, a)

/-- the end of a `stream_chunks` that found its entry vacant: the wrapped source was streamed (its chunks went to the caller),
the map built from them is stored with `VacantEntry::insert` -/
def streamStore (P : Params) (sh : Shared) (col : Bool) : Shared × RAns3 :=
  let r := P.inner.stream ⟨col, false⟩ sh.σ
  let a : RAns3 := .io (.stream r.1)
  ({ sh with σ := r.2.insertForce (P.id, ⟨col, false⟩) (mapOfEvs col r.1.evs), log := sh.log ++ [(.io (col, .stream), a)] }, a)

/-- blocked on an entry lock another thread holds (DashMap: `get` / `entry` wait for the shard lock) -/
def blocked (sh : Shared) (i : Nat) (c : Bool) : Bool := (sh.lockOf c).isSome && sh.lockOf c != some i

/-- one atomic step of thread `i`; `none` = finished or blocked -/
def stepThread (P : Params) (sh : Shared) (i : Nat) (t : Thread) : Option (Shared × Thread) :=
  match t.ops with
  | [] => none
  | .sorted :: _ =>
    match t.pc with
    | 0 => some (sh, { t with pc := if sh.r.isSorted then 3 else 1, sawFlag := sh.r.isSorted })
    | 1 => some ({ sh with r := { sh.r with sorted := sortRepls sh.r.repls } }, { t with pc := 2 })
    | 2 => some ({ sh with r := { sh.r with isSorted := true } }, { t with pc := 3 })
    | _ => some (sh, t.finish (.sorted sh.r.sorted))
  | .clone :: _ =>
    match t.pc with
    | 0 => some (sh, { t with pc := 1, sawFlag := sh.r.isSorted })
    | 1 => some (sh, { t with pc := 2, gotIdx := sh.r.sorted })
    | _ => some (sh, t.finish (.cloned { repls := sh.r.repls, sorted := t.gotIdx, isSorted := t.sawFlag }))
  | .call (.io (col, .map)) :: _ =>
    if blocked sh i col then none else
    match t.pc with
    | 0 => match sh.σ.get? (P.id, ⟨col, false⟩) with
      | some _ => let r := perform P sh (.io (col, .map)); some (r.1, t.finish (.call (.io (col, .map)) r.2))
      | none => some (sh, { t with pc := 1 })
    | 1 => some (sh, { t with pc := 2 })
    | _ => let r := mapStore P sh col; some (r.1, t.finish (.call (.io (col, .map)) r.2))
  | .call (.io (col, .stream)) :: _ =>
    if blocked sh i col then none else
    match t.pc with
    | 0 => match sh.σ.get? (P.id, ⟨col, false⟩) with
      | some _ => let r := perform P sh (.io (col, .stream)); some (r.1, t.finish (.call (.io (col, .stream)) r.2))
      | none => some (sh.setLock col (some i), { t with pc := 1 })
    | 1 => some (sh, { t with pc := 2 })
    | _ => let r := streamStore P sh col; some (r.1.setLock col none, t.finish (.call (.io (col, .stream)) r.2))
  | .call c :: _ => let r := perform P sh c; some (r.1, t.finish (.call c r.2))     -- source / buffer / size: no shared cell
  | .once :: _ =>
    match t.pc with
    | 0 => match sh.once with
      | some v => some (sh, t.finish (.once v))
      | none => some (sh, { t with pc := 1 })
    | _ => some ({ sh with once := some (sh.once.getD P.hv) }, t.finish (.once (sh.once.getD P.hv)))

def step (P : Params) (s : Sys) (i : Nat) : Option Sys :=
  match s.ths[i]? with
  | none => none
  | some t => (stepThread P s.sh i t).map fun (sh', t') => { sh := sh', ths := s.ths.set i t' }

/-- run a schedule; a step of a finished or blocked thread is skipped -/
def run (P : Params) (s : Sys) : List Nat → Sys
  | [] => s
  | i :: is => run P ((step P s i).getD s) is

/-- fresh threads over a shared ReplaceSource in state `r` and a shared CachedSource whose caches are in state `σ` -/
def initSys (r : RState) (σ : Store) (progs : List (List Op)) : Sys :=
  { sh := { r := r, σ := σ }, ths := progs.map fun ops => { ops := ops } }

/-! ## the abstraction to the value-free protocol of `Model/Conc.lean` (one key) -/

def Op.abs : Op → Conc.Op
  | .sorted => .sorted
  | .clone => .clone
  | .call (.io (_, .map)) => .cmap
  | .call (.io (_, .stream)) => .cstream
  | .call _ => .once
  | .once => .once

end Rs.ConcV
