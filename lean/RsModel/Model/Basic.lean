/-!
# Basic vocabulary of the model

One text representation everywhere: `Text = List UInt8`, the UTF-8 bytes of a Rust `str`/`String`.
Byte offsets (ReplaceSource positions, rope offsets, `len()`) are list indices; char indices
(what `WithIndices::substring` counts) are indices into `charStarts`.
-/
namespace Rs

abbrev Text := List UInt8

def NL : UInt8 := 10

/-- a UTF-8 continuation byte `10xxxxxx` -/
def isCont (b : UInt8) : Bool := 128 ≤ b.toNat && b.toNat < 192

/-- `str::is_char_boundary(i)` for a valid UTF-8 text -/
def isBoundary (t : Text) (i : Nat) : Bool :=
  if i = 0 then true
  else match t[i]? with
    | none => i == t.length
    | some b => !isCont b

def IsAscii (t : Text) : Prop := ∀ b ∈ t, b.toNat < 128
instance (t : Text) : Decidable (IsAscii t) := by unfold IsAscii; infer_instance

/-- `&s[a..b]` for byte offsets (plain take/drop; the char-boundary test is separate) -/
def bsub (t : Text) (a b : Nat) : Text := (t.drop a).take (b - a)

/-- `str::get(a..b)`: `none` when reversed, out of range or off a char boundary -/
def bget (t : Text) (a b : Nat) : Option Text :=
  if a ≤ b ∧ b ≤ t.length ∧ isBoundary t a ∧ isBoundary t b then some (bsub t a b) else none

def endsWithNL (t : Text) : Bool := t.getLast? == some NL

structure Pos where
  line : Nat
  col : Nat
deriving DecidableEq, Repr, Inhabited

/-- position reached after writing `t` from `p` (columns count bytes) -/
def adv (p : Pos) : Text → Pos
  | [] => p
  | c :: cs => if c = NL then adv ⟨p.line + 1, 0⟩ cs else adv ⟨p.line, p.col + 1⟩ cs

structure Orig where
  src : Nat
  line : Nat
  col : Nat
  name : Option Nat
deriving DecidableEq, Repr, Inhabited

structure Mapping where
  gl : Nat
  gc : Nat
  orig : Option Orig
deriving DecidableEq, Repr, Inhabited

/-- `GeneratedInfo` -/
abbrev Info := Pos

/-- the `SourceMap` struct -/
structure SMap where
  mappings : Text
  sources : List Text
  sourcesContent : List Text
  names : List Text
  file : Option Text := none
  sourceRoot : Option Text := none
  debugId : Option Text := none
deriving DecidableEq, Repr, Inhabited

end Rs
