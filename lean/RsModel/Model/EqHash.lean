import RsModel.Model.Tree
/-!
# Equality and hashing (`PartialEq` / `Hash` impls of every source type, `dyn Source`, `SourceMap`,
`Replacement`).  `calls` is the exact sequence of `Hasher::write*` calls a value makes.
-/
namespace Rs

inductive HCall where
  | bytes (b : Text)     -- `write(&[u8])`
  | u8 (n : Nat)
  | u32 (n : Nat)
  | u64 (n : Nat)
  | usize (n : Nat)
  | isize (n : Nat)
deriving DecidableEq, Repr, Inhabited

/-- `str::hash`: `write(bytes); write_u8(0xff)` -/
def hStr (s : Text) : List HCall := [.bytes s, .u8 255]
/-- `[u8]::hash`: length prefix, then the bytes -/
def hBytes (b : Text) : List HCall := [.usize b.length, .bytes b]
def hOpt {α} (f : α → List HCall) : Option α → List HCall
  | none => [.isize 0]
  | some a => .isize 1 :: f a
def hStrList (l : List Text) : List HCall := .usize l.length :: (l.map hStr).flatten

/-- `impl Hash for SourceMap` (debugId hashed when present: fix F10) -/
def hSMap (m : SMap) : List HCall :=
  hOpt hStr m.file ++ hStr m.mappings ++ hStrList m.sources ++ hStrList m.sourcesContent ++ hStrList m.names
    ++ hOpt hStr m.sourceRoot ++ (match m.debugId with | some d => hStr d | none => [])

/-- `#[derive(Hash)] struct Replacement` -/
def hRepl (r : Repl) : List HCall :=
  [.u32 r.start, .u32 r.stop] ++ hStr r.content ++ hOpt hStr r.name ++ [.isize r.enforce]

mutual
/-- the hasher calls of `source.hash(state)`; `fxh` is rustc-hash's `FxHasher` as a function of the calls it
receives (never computed by the model; theorems quantify over it) -/
def Src.calls (fxh : List HCall → Nat) : Src → List HCall
  | .raw _ bytes _ => hStr Generated.tagRawSource ++ hBytes bytes
  | .rawStr t => hStr Generated.tagRawStringSource ++ hBytes t
  | .rawBuf bytes _ => hStr Generated.tagRawBufferSource ++ hBytes bytes
  | .orig t name => hStr Generated.tagOriginalSource ++ hBytes t ++ hStr name
  | .sms t _ map origSrc inner remove =>
    hStr Generated.tagSourceMapSource ++ hBytes t ++ hSMap map ++ hOpt hStr origSrc ++ hOpt hSMap inner
      ++ [.u8 (if remove then 1 else 0)]
  | .concat cs => hStr Generated.tagConcatSource ++ cs.callsL fxh
  | .replace inner rs => hStr Generated.tagReplaceSource ++ ((sortRepls rs).map hRepl).flatten ++ inner.calls fxh
  | .cached _ inner => [.u64 (fxh (inner.calls fxh))]
def SrcList.callsL (fxh : List HCall → Nat) : SrcList → List HCall
  | .nil => []
  | .cons s r => s.calls fxh ++ r.callsL fxh
end

mutual
/-- the same with the memoised hash of every CachedSource supplied per id (what the driver runs) -/
def Src.callsT (tbl : Nat → Nat) : Src → List HCall
  | .raw _ bytes _ => hStr Generated.tagRawSource ++ hBytes bytes
  | .rawStr t => hStr Generated.tagRawStringSource ++ hBytes t
  | .rawBuf bytes _ => hStr Generated.tagRawBufferSource ++ hBytes bytes
  | .orig t name => hStr Generated.tagOriginalSource ++ hBytes t ++ hStr name
  | .sms t _ map origSrc inner remove =>
    hStr Generated.tagSourceMapSource ++ hBytes t ++ hSMap map ++ hOpt hStr origSrc ++ hOpt hSMap inner
      ++ [.u8 (if remove then 1 else 0)]
  | .concat cs => hStr Generated.tagConcatSource ++ cs.callsTL tbl
  | .replace inner rs => hStr Generated.tagReplaceSource ++ ((sortRepls rs).map hRepl).flatten ++ inner.callsT tbl
  | .cached id _ => [.u64 (tbl id)]
def SrcList.callsTL (tbl : Nat → Nat) : SrcList → List HCall
  | .nil => []
  | .cons s r => s.callsT tbl ++ r.callsTL tbl
end

mutual
/-- `PartialEq` of two sources behind `dyn Source`: same concrete type and the type's own `eq` -/
def Src.eqv : Src → Src → Bool
  | .raw b1 x1 _, .raw b2 x2 _ => b1 == b2 && x1 == x2
  | .rawStr t1, .rawStr t2 => t1 == t2
  | .rawBuf x1 _, .rawBuf x2 _ => x1 == x2                       -- fix F3: the decode cache is not compared
  | .orig t1 n1, .orig t2 n2 => t1 == t2 && n1 == n2
  | .sms t1 n1 m1 o1 i1 r1, .sms t2 n2 m2 o2 i2 r2 => t1 == t2 && n1 == n2 && m1 == m2 && o1 == o2 && i1 == i2 && r1 == r2
  | .concat c1, .concat c2 => c1.eqvL c2
  | .replace i1 r1, .replace i2 r2 => i1.eqv i2 && r1 == r2
  | .cached _ i1, .cached _ i2 => i1.eqv i2
  | _, _ => false
def SrcList.eqvL : SrcList → SrcList → Bool
  | .nil, .nil => true
  | .cons a r, .cons b s => a.eqv b && r.eqvL s
  | _, _ => false
end

end Rs
