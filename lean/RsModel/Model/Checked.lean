import RsModel.Model.Tree
/-!
# Trap-aware ("checked") versions of the streaming code

The model functions in `Stream.lean` / `Composite.lean` are total: `lines.getD (l - 1) []`, natural-number subtraction, unbounded
`Nat`.  The Rust they model is not: `lines[(current_generated_line - 1) as usize]` panics when the index is out of range, the `u32`
subtraction panics below zero and `current_generated_line += 1` panics at `u32::MAX` in builds with overflow checks, `&s[a..b]`
panics off a char boundary.  This file restates the same functions with every such operation *checked* — the result is `none`
exactly where the Rust would panic — keeping the source line of each site.  `Lemmas/Traps*.lean` prove that on the documented domain
(C17) the checked function returns `some` of what the total model returns: no site can trap, and the totalised model loses nothing.

The checked functions are executable and are compared with the crate on every run as well (driver request `chk…`).
-/
namespace Rs
namespace Chk

/-- `a - b` on `u32` / `usize`: panics below zero (overflow checks) -/
def sub (a b : Nat) : Option Nat := if b ≤ a then some (a - b) else none
/-- `a + b` on `u32`: panics on overflow (overflow checks) -/
def add32 (a b : Nat) : Option Nat := if a + b < 2 ^ 32 then some (a + b) else none
/-- `v[i]` on a `Vec` / slice: panics out of range -/
def idx {α : Type} (l : List α) (i : Nat) : Option α := l[i]?

/-! ## `ReplaceSource::source` (replace_source.rs:196-229) -/

/-- the splice loop with `&inner_source_code[inner_pos as usize..end_pos]` checked (`bget` = `str::get`, `none` when reversed, out
of range or off a char boundary); `inner_source_code.len() as u32` is a truncating cast -/
def spliceC (inner : Text) : Nat → List Repl → Option Text
  | pos, [] => bget inner pos inner.length                                            -- :225
  | pos, r :: rs =>
    match (if pos < r.start then bget inner pos (min r.start inner.length) else some []) with   -- :214-216
    | none => none
    | some piece =>
      match spliceC inner (min (max pos r.stop) (inner.length % 2 ^ 32)) rs with       -- :221-223
      | none => none
      | some tail => some (piece ++ r.content ++ tail)

def replaceSourceC (inner : Text) (rs : List Repl) : Option Text :=
  if rs.isEmpty then some inner else spliceC inner 0 (sortRepls rs)

/-! ## `stream_chunks_of_source_map_full` (helpers.rs:414-573) -/

/-- 1. close the active mapping (:466-497) -/
def smStep1C (lines : List Text) (s : FullSt) (m : Mapping) : Option (FullSt × List Ev) :=
  if s.active && s.line ≤ lines.length then
    match sub s.line 1 with                                   -- :473 `current_generated_line - 1`
    | none => none
    | some i =>
      match idx lines i with                                  -- :473 `line_with_indices_list[..]`
      | none => none
      | some ln =>
        if m.gl != s.line then
          let ch := csub ln s.col USIZE_MAX
          match add32 s.line 1 with                           -- :476 `current_generated_line += 1`
          | none => none
          | some l' =>
            some ({ s with line := l', col := 0, active := false },
              if ch.isEmpty then [] else [.chunk (some ch) ⟨s.line, s.col, s.orig⟩])
        else
          let ch := csub ln s.col m.gc
          some ({ s with col := m.gc, active := false },
            if ch.isEmpty then [] else [.chunk (some ch) ⟨s.line, s.col, s.orig⟩])
  else some (s, [])

/-- 2. rest of a partially emitted line (:498-515) -/
def smStep2C (lines : List Text) (s1 : FullSt) (m : Mapping) : Option (FullSt × List Ev) :=
  if m.gl > s1.line && s1.col > 0 then
    match (if s1.line ≤ lines.length then
        match sub s1.line 1 with                              -- :502
        | none => none
        | some i =>
          match idx lines i with                              -- :501
          | none => none
          | some ln => some [Ev.chunk (some (csub ln s1.col USIZE_MAX)) ⟨s1.line, s1.col, none⟩]
      else some []) with
    | none => none
    | some evs =>
      match add32 s1.line 1 with                              -- :513
      | none => none
      | some l' => some ({ s1 with line := l', col := 0 }, evs)
  else some (s1, [])

/-- 3. `while mapping.generated_line > current_generated_line` (:516-530); `fuel` bounds the iterations -/
def smWholeC (lines : List Text) (to_ : Nat) : Nat → Nat → Option (Nat × List Ev)
  | 0, cur => some (cur, [])
  | fuel + 1, cur =>
    if to_ > cur then
      match (if cur ≤ lines.length then
          match sub cur 1 with                                -- :519 `(current_generated_line as usize) - 1`
          | none => none
          | some i =>
            match idx lines i with                            -- :519
            | none => none
            | some ln => some [Ev.chunk (some ln) ⟨cur, 0, none⟩]
        else some []) with
      | none => none
      | some ev =>
        match add32 cur 1 with                                -- :529
        | none => none
        | some cur' =>
          match smWholeC lines to_ fuel cur' with
          | none => none
          | some r => some (r.1, ev ++ r.2)
    else some (cur, [])

/-- 4. unmapped text before the mapping's column (:531-549) -/
def smStep4C (lines : List Text) (s3 : FullSt) (m : Mapping) : Option (FullSt × List Ev) :=
  if m.gc > s3.col then
    match (if s3.line ≤ lines.length then
        match sub s3.line 1 with                              -- :534
        | none => none
        | some i =>
          match idx lines i with                              -- :533
          | none => none
          | some ln => some [Ev.chunk (some (csub ln s3.col m.gc)) ⟨s3.line, s3.col, none⟩]
      else some []) with
    | none => none
    | some evs => some ({ s3 with col := m.gc }, evs)
  else some (s3, [])

def smFullStepC (lines : List Text) (fl fc : Nat) (s : FullSt) (m : Mapping) : Option (FullSt × List Ev) :=
  if m.gl < s.line || (m.gl == s.line && m.gc < s.col) then some (s, [])
  else
    match smStep1C lines s m with
    | none => none
    | some r1 =>
      match smStep2C lines r1.1 m with
      | none => none
      | some r2 =>
        match smWholeC lines m.gl (m.gl - r2.1.line) r2.1.line with
        | none => none
        | some r3 =>
          match smStep4C lines { r2.1 with line := r3.1 } m with
          | none => none
          | some r4 => some (smStep5 fl fc r4.1 m, r1.2 ++ r2.2 ++ r3.2 ++ r4.2)

def smFullGoC (lines : List Text) (fl fc : Nat) : FullSt → List Mapping → Option (List Ev)
  | _, [] => some []
  | s, m :: ms =>
    match smFullStepC lines fl fc s m with
    | none => none
    | some r =>
      match smFullGoC lines fl fc r.1 ms with
      | none => none
      | some evs => some (r.2 ++ evs)

def streamSMFullC (t : Text) (sm : SMap) : Option SResult :=
  let lines := splitLines t
  if lines.isEmpty then some ⟨[], ⟨1, 0⟩⟩
  else
    match sub lines.length 1 with                             -- :445 `line_with_indices_list.len() - 1`
    | none => none
    | some i =>
      match idx lines i with                                  -- :445
      | none => none
      | some last =>
        let lastNL := endsWithNL last
        let fl := (if lastNL then lines.length + 1 else lines.length) % 2 ^ 32      -- :447-451 `as u32`
        let fc := (if lastNL then 0 else last.length) % 2 ^ 32                      -- :452-453
        match smFullGoC lines fl fc {} (decode sm.mappings ++ [⟨fl, fc, none⟩]) with
        | none => none
        | some evs => some ⟨smSourceEvs sm ++ smNameEvs sm ++ evs, ⟨fl, fc⟩⟩

/-! ## `stream_chunks_of_source_map_lines_full` (helpers.rs:623-708) -/

def smLinesFullGoC (lines : List Text) : Nat → List Mapping → Option (List Ev × Nat)
  | cur, [] => some ([], cur)
  | cur, m :: ms =>
    match m.orig with
    | none => smLinesFullGoC lines cur ms
    | some o =>
      if m.gl < cur || m.gl > lines.length then smLinesFullGoC lines cur ms
      else
        match smWholeC lines m.gl (m.gl - cur) cur with       -- :654-667 (same loop shape as :516-530)
        | none => none
        | some r3 =>
          match sub r3.1 1 with                               -- :673 `current_generated_line as usize - 1`
          | none => none
          | some i =>
            match idx lines i with                            -- :673
            | none => none
            | some ln =>
              match add32 r3.1 1 with                         -- :677
              | none => none
              | some cur' =>
                match smLinesFullGoC lines cur' ms with
                | none => none
                | some r => some (r3.2 ++ Ev.chunk (some ln) ⟨m.gl, 0, some { o with name := none }⟩ :: r.1, r.2)

def streamSMLinesFullC (t : Text) (sm : SMap) : Option SResult :=
  let lines := splitLines t
  if lines.isEmpty then some ⟨[], ⟨1, 0⟩⟩
  else
    match smLinesFullGoC lines 1 (decode sm.mappings) with
    | none => none
    | some r =>
      match smWholeC lines (lines.length + 1) (lines.length + 1 - r.2) r.2 with      -- :682-694
      | none => none
      | some rest =>
        match sub lines.length 1 with                         -- :695
        | none => none
        | some i =>
          match idx lines i with
          | none => none
          | some last =>
            let lastNL := endsWithNL last
            some ⟨smSourceEvs sm ++ r.1 ++ rest.2,
              ⟨(if lastNL then lines.length + 1 else lines.length) % 2 ^ 32, (if lastNL then 0 else last.length) % 2 ^ 32⟩⟩

/-! ## `stream_chunks_of_source_map_lines_final` (helpers.rs:575-621) -/

def smLinesFinalGoC (finalLine : Nat) : Nat → List Mapping → Option (List Ev)
  | _, [] => some []
  | cur, m :: ms =>
    match m.orig with
    | some o =>
      if cur ≤ m.gl && m.gl ≤ finalLine then
        match add32 m.gl 1 with                               -- :612 `mapping.generated_line + 1`
        | none => none
        | some cur' =>
          match smLinesFinalGoC finalLine cur' ms with
          | none => none
          | some r => some (.chunk none ⟨m.gl, 0, some { o with name := none }⟩ :: r)
      else smLinesFinalGoC finalLine cur ms
    | none => smLinesFinalGoC finalLine cur ms

def streamSMLinesFinalC (t : Text) (sm : SMap) : Option SResult :=
  let r := genInfo t
  if r.line == 1 && r.col == 0 then some ⟨[], ⟨1, 0⟩⟩
  else
    match (if r.col == 0 then sub r.line 1 else some r.line) with      -- :598-602 `result.generated_line - 1`
    | none => none
    | some fl =>
      match smLinesFinalGoC fl 1 (decode sm.mappings) with
      | none => none
      | some evs => some ⟨smSourceEvs sm ++ evs, r⟩

/-! ## raw source (helpers.rs:262-303) -/

def rawChunksC : Nat → List Text → Option (List Ev × Nat)
  | l, [] => some ([], l)
  | l, t :: ts =>
    match add32 l 1 with                                      -- :287 `line += 1`
    | none => none
    | some l' =>
      match rawChunksC l' ts with
      | none => none
      | some r => some (.chunk (some t) ⟨l, 0, none⟩ :: r.1, r.2)

def streamRawC (t : Text) (o : Opts) : Option SResult :=
  if o.final then some ⟨[], genInfo t⟩
  else
    let ls := splitLines t
    match rawChunksC 1 ls with
    | none => none
    | some r =>
      match ls.getLast? with
      | some last =>
        if !endsWithNL last then
          match sub r.2 1 with                                -- :294 `line - 1`
          | none => none
          | some l => some ⟨r.1, ⟨l, last.length % 2 ^ 32⟩⟩
        else some ⟨r.1, ⟨r.2, 0⟩⟩
      | none => some ⟨r.1, ⟨r.2, 0⟩⟩

/-! ## `OriginalSource::stream_chunks` (original_source.rs:107-232) -/

/-- columns = true: `line += 1` (:146) and `column += token.len() as u32` (:149, a truncating cast then a checked addition) -/
def origTokChunksC (final : Bool) : Nat → Nat → List Text → Option (List Ev × Info)
  | l, c, [] => some ([], ⟨l, c⟩)
  | l, c, tok :: toks =>
    let eol := endsWithNL tok
    let ev : List Ev :=
      if eol && tok.length == 1 then
        (if final then [] else [.chunk (some tok) ⟨l, c, none⟩])
      else [.chunk (if final then none else some tok) ⟨l, c, some ⟨0, l, c, none⟩⟩]
    if eol then
      match add32 l 1 with                                      -- :146 `line += 1`
      | none => none
      | some l' =>
        match origTokChunksC final l' 0 toks with
        | none => none
        | some r => some (ev ++ r.1, r.2)
    else
      match add32 c (tok.length % 2 ^ 32) with                  -- :149 `column += token.len() as u32`
      | none => none
      | some c' =>
        match origTokChunksC final l c' toks with
        | none => none
        | some r => some (ev ++ r.1, r.2)

/-- columns = false, normal mode: `line += 1` (:213) -/
def origLineChunksC : Nat → List Text → Option (List Ev × Nat)
  | l, [] => some ([], l)
  | l, t :: ts =>
    match add32 l 1 with                                        -- :213 `line += 1`
    | none => none
    | some l' =>
      match origLineChunksC l' ts with
      | none => none
      | some r => some (.chunk (some t) ⟨l, 0, some ⟨0, l, 0, none⟩⟩ :: r.1, r.2)

def streamOriginalC (t name : Text) (o : Opts) : Option SResult :=
  let hd := Ev.source 0 name (some t)
  if o.columns then
    match origTokChunksC o.final 1 0 (tokens t) with
    | none => none
    | some r => some ⟨hd :: r.1, r.2⟩
  else if o.final then
    let gi := genInfo t
    if gi.col == 0 then some ⟨hd :: origFinalLines 1 gi.line, gi⟩
    else some ⟨hd :: origFinalLines 1 (gi.line + 1), gi⟩
  else
    let ls := splitLines t
    match origLineChunksC 1 ls with
    | none => none
    | some r =>
      match ls.getLast? with
      | some last =>
        if !endsWithNL last then
          match sub r.2 1 with                                  -- :220 `line - 1`
          | none => none
          | some l => some ⟨hd :: r.1, ⟨l, last.length % 2 ^ 32⟩⟩
        else some ⟨hd :: r.1, ⟨r.2, 0⟩⟩
      | none => some ⟨hd :: r.1, ⟨r.2, 0⟩⟩

/-- the four map-driven splitters, checked (`stream_chunks_of_source_map_final` has no partial operation: comparisons only) -/
def streamSMC (t : Text) (sm : SMap) (o : Opts) : Option SResult :=
  match o.columns, o.final with
  | true, true => some (streamSMFinal t sm)
  | true, false => streamSMFullC t sm
  | false, true => streamSMLinesFinalC t sm
  | false, false => streamSMLinesFullC t sm

/-! ## ConcatSource with the crate's `u32` column arithmetic (concat_source.rs:222-226, fix F16)

`mapping.generated_column.saturating_add(current_column_offset)`: the total model (`concatEv`) adds in `Nat`; the two agree
whenever the sum stays below 2³² (`Lemmas/TrapsConcat.lean`). -/

def satAdd32 (a b : Nat) : Nat := min (a + b) (2 ^ 32 - 1)

def concatEvS (final : Bool) (st : CSt) : Ev → CSt × List Ev
  | .chunk text m =>
    let line := m.gl + st.lineOff
    let column := if m.gl == 1 then satAdd32 m.gc st.colOff else m.gc
    let close : List Ev :=
      if st.needClose && (m.gl != 1 || m.gc != 0) then [.chunk none ⟨st.lineOff + 1, st.colOff, none⟩] else []
    let rsi : Option Nat := m.orig.bind fun o => st.sim[o.src]?
    let rni : Option Nat := (m.orig.bind (·.name)).bind fun n => st.nim[n]?
    let st' := { st with needClose := false, lastMappingLine := if rsi.isNone then 0 else m.gl }
    let out : Ev :=
      match rsi, m.orig with
      | some si, some o => .chunk (if final then none else text) ⟨line, column, some ⟨si, o.line, o.col, rni⟩⟩
      | _, _ => .chunk (if final then none else text) ⟨line, column, none⟩
    (st', close ++ [out])
  | e => concatEv final st e

def concatEvsS (final : Bool) : CSt → List Ev → CSt × List Ev
  | st, [] => (st, [])
  | st, e :: es =>
    let r := concatEvS final st e
    let r2 := concatEvsS final r.1 es
    (r2.1, r.2 ++ r2.2)

def concatChildS (final : Bool) (st : CSt) (child : SResult) : CSt × List Ev :=
  let st0 := { st with sim := [], nim := [], lastMappingLine := 0 }
  let (st1, evs) := concatEvsS final st0 child.evs
  let gi := child.info
  let close := st1.needClose && (gi.line != 1 || gi.col != 0)
  let closeEv : List Ev := if close then [.chunk none ⟨st1.lineOff + 1, st1.colOff, none⟩] else []
  let nc := if close then false else st1.needClose
  ({ st1 with colOff := if gi.line > 1 then gi.col else st1.colOff + gi.col
              needClose := nc || (final && st1.lastMappingLine == gi.line)
              lineOff := st1.lineOff + (gi.line - 1) }, evs ++ closeEv)

def concatGoS (final : Bool) : CSt → List SResult → CSt × List Ev
  | st, [] => (st, [])
  | st, c :: cs =>
    let r := concatChildS final st c
    let r2 := concatGoS final r.1 cs
    (r2.1, r.2 ++ r2.2)

def concatStreamS (final : Bool) (children : List SResult) : SResult :=
  let r := concatGoS final {} children
  ⟨r.2, ⟨r.1.lineOff + 1, r.1.colOff⟩⟩

/-! ### … and with its `u32` line / column bookkeeping checked (concat_source.rs:221, 230, 340, 347-352, 355)

`mapping.generated_line + current_line_offset`, `current_line_offset + 1`, `current_column_offset += generated_column`,
`current_line_offset += generated_line - 1`: plain `u32` arithmetic (panics under overflow checks).  Each function is `none`
where one of them would overflow and otherwise the saturating model above. -/

def concatEvC (final : Bool) (st : CSt) : Ev → Option (CSt × List Ev)
  | .chunk text m =>
    if m.gl + st.lineOff < 2 ^ 32                                                       -- :221
        ∧ ((st.needClose && (m.gl != 1 || m.gc != 0)) = true → st.lineOff + 1 < 2 ^ 32)  -- :230
    then some (concatEvS final st (.chunk text m)) else none
  | e => some (concatEvS final st e)

def concatEvsC (final : Bool) : CSt → List Ev → Option (CSt × List Ev)
  | st, [] => some (st, [])
  | st, e :: es =>
    match concatEvC final st e with
    | none => none
    | some r =>
      match concatEvsC final r.1 es with
      | none => none
      | some r2 => some (r2.1, r.2 ++ r2.2)

def concatChildC (final : Bool) (st : CSt) (child : SResult) : Option (CSt × List Ev) :=
  let st0 := { st with sim := [], nim := [], lastMappingLine := 0 }
  match concatEvsC final st0 child.evs with
  | none => none
  | some (st1, evs) =>
    let gi := child.info
    let close := st1.needClose && (gi.line != 1 || gi.col != 0)
    if (close = true → st1.lineOff + 1 < 2 ^ 32)                         -- :340
        ∧ (¬ gi.line > 1 → st1.colOff + gi.col < 2 ^ 32)                  -- :350 `current_column_offset += generated_column`
        ∧ 1 ≤ gi.line ∧ st1.lineOff + (gi.line - 1) < 2 ^ 32              -- :354 `current_line_offset += generated_line - 1`
    then
      let closeEv : List Ev := if close then [.chunk none ⟨st1.lineOff + 1, st1.colOff, none⟩] else []
      let nc := if close then false else st1.needClose
      some ({ st1 with colOff := if gi.line > 1 then gi.col else st1.colOff + gi.col
                       needClose := nc || (final && st1.lastMappingLine == gi.line)
                       lineOff := st1.lineOff + (gi.line - 1) }, evs ++ closeEv)
    else none

def concatGoC (final : Bool) : CSt → List SResult → Option (CSt × List Ev)
  | st, [] => some (st, [])
  | st, c :: cs =>
    match concatChildC final st c with
    | none => none
    | some r =>
      match concatGoC final r.1 cs with
      | none => none
      | some r2 => some (r2.1, r.2 ++ r2.2)

def concatStreamC (final : Bool) (children : List SResult) : Option SResult :=
  match concatGoC final {} children with
  | none => none
  | some r => if r.1.lineOff + 1 < 2 ^ 32 then some ⟨r.2, ⟨r.1.lineOff + 1, r.1.colOff⟩⟩ else none   -- :357

/-! ## whole trees: `source()` and `stream_chunks` with the checked pieces in place

Nodes whose arithmetic is not restated in checked form (OriginalSource's tokenizer, the combined map, the position bookkeeping of
ReplaceSource streaming) pass through the total model; ConcatSource uses the crate's saturating column addition, and with
`ovf = true` (a build with overflow checks) its `u32` line / column bookkeeping is checked as well — in a release build those
additions wrap silently, so `ovf = false` leaves them unchecked. -/

mutual
def _root_.Rs.Src.srcC : Src → Option Text
  | .raw _ _ lossy => some lossy
  | .rawStr t => some t
  | .rawBuf _ lossy => some lossy
  | .orig t _ => some t
  | .sms t _ _ _ _ _ => some t
  | .concat cs => cs.srcsC
  | .replace inner rs =>
    match inner.srcC with
    | none => none
    | some t => replaceSourceC t rs
  | .cached _ inner => inner.srcC
def _root_.Rs.SrcList.srcsC : SrcList → Option Text
  | .nil => some []
  | .cons s r =>
    match s.srcC with
    | none => none
    | some a =>
      match r.srcsC with
      | none => none
      | some b => some (a ++ b)
end

mutual
def _root_.Rs.Src.streamC (ovf : Bool) : Src → Opts → Store → Option (SResult × Store)
  | .raw _ _ lossy, o, σ => (streamRawC lossy o).map (·, σ)
  | .rawStr t, o, σ => (streamRawC t o).map (·, σ)
  | .rawBuf _ lossy, o, σ => (streamRawC lossy o).map (·, σ)
  | .orig t name, o, σ => (streamOriginalC t name o).map (·, σ)
  | .sms t name map origSrc inner remove, o, σ =>
    match inner with
    | some im => some (streamCombined t map name origSrc im remove o, σ)
    | none => (streamSMC t map o).map (·, σ)
  | .concat .nil, o, σ => ((if ovf then concatStreamC o.final [] else some (concatStreamS o.final []))).map (·, σ)
  | .concat (.cons s rest), o, σ =>
    match rest with
    | .nil => s.streamC ovf o σ
    | rest =>
      match s.streamC ovf o σ with
      | none => none
      | some r =>
        match rest.streamsC ovf o r.2 with
        | none => none
        | some r2 => ((if ovf then concatStreamC o.final (r.1 :: r2.1) else some (concatStreamS o.final (r.1 :: r2.1)))).map (·, r2.2)
  | .replace inner rs, o, σ =>
    match inner.streamC ovf ⟨o.columns, false⟩ σ with
    | none => none
    | some r => some (replaceStream (sortRepls rs) r.1, r.2)
  | .cached id inner, o, σ =>
    match σ.get? (id, o) with
    | some (some m) => (streamSMC inner.src m o).map (·, σ)
    | some none => (streamRawC inner.src o).map (·, σ)
    | none =>
      match inner.streamC ovf o σ with
      | none => none
      | some r => some (r.1, r.2.insertNew (id, o) (mapOfEvs o.columns r.1.evs))
def _root_.Rs.SrcList.streamsC (ovf : Bool) : SrcList → Opts → Store → Option (List SResult × Store)
  | .nil, _, σ => some ([], σ)
  | .cons s rest, o, σ =>
    match s.streamC ovf o σ with
    | none => none
    | some r =>
      match rest.streamsC ovf o r.2 with
      | none => none
      | some r2 => some (r.1 :: r2.1, r2.2)
end

end Chk
end Rs
