import RsModel.Model.Basic
/-!
# SourceMap JSON (source.rs:189-239, 356-459): the serde shape of `SourceMap` / `RawSourceMap`,
a writer with the escapes `simd_json` uses, and an RFC 8259 parser for the subset needed.
`simd_json` itself is third-party code: it is *validated* against this model, not verified.
-/
namespace Rs.Json

inductive JVal where
  | null
  | bool (b : Bool)
  | num (lit : Text)
  | str (t : Text)
  | arr (l : List JVal)
  | obj (kvs : List (Text × JVal))
deriving Repr, Inhabited

def hexDigit (n : Nat) : UInt8 := if n < 10 then UInt8.ofNat (48 + n) else UInt8.ofNat (87 + n)

/-- escape one byte of a JSON string the way `simd_json` writes it: `"` `\` and C0 controls; everything
else (including non-ASCII bytes, U+2028/2029) verbatim -/
def escByte (b : UInt8) : Text :=
  if b = 34 then [92, 34] else if b = 92 then [92, 92]
  else if b = 8 then [92, 98] else if b = 12 then [92, 102] else if b = 10 then [92, 110]
  else if b = 13 then [92, 114] else if b = 9 then [92, 116]
  else if b.toNat < 32 then [92, 117, 48, 48, hexDigit (b.toNat / 16), hexDigit (b.toNat % 16)]
  else [b]

def writeStr (t : Text) : Text := [34] ++ (t.map escByte).flatten ++ [34]

def sepBy (sep : Text) : List Text → Text
  | [] => []
  | [x] => x
  | x :: xs => x ++ sep ++ sepBy sep xs

def writeStrArr (l : List Text) : Text := [91] ++ sepBy [44] (l.map writeStr) ++ [93]

/-! field names as byte lists (string literals do not reduce in the kernel) -/
def k_version : Text := [118, 101, 114, 115, 105, 111, 110]
def k_file : Text := [102, 105, 108, 101]
def k_sources : Text := [115, 111, 117, 114, 99, 101, 115]
def k_sourcesContent : Text := [115, 111, 117, 114, 99, 101, 115, 67, 111, 110, 116, 101, 110, 116]
def k_names : Text := [110, 97, 109, 101, 115]
def k_mappings : Text := [109, 97, 112, 112, 105, 110, 103, 115]
def k_sourceRoot : Text := [115, 111, 117, 114, 99, 101, 82, 111, 111, 116]
def k_debugId : Text := [100, 101, 98, 117, 103, 73, 100]

def key (k : Text) : Text := writeStr k ++ [58]

/-- `is_all_empty` -/
def allEmpty (l : List Text) : Bool := l.all (·.isEmpty)

/-- `simd_json::serde::to_string(&SourceMap)`: fields in declaration order, `Option`s and an all-empty
`sourcesContent` skipped, no whitespace -/
def writeSMap (m : SMap) : Text :=
  let fields : List Text :=
    [key k_version ++ [51]] ++
    (match m.file with | some f => [key k_file ++ writeStr f] | none => []) ++
    [key k_sources ++ writeStrArr m.sources] ++
    (if allEmpty m.sourcesContent then [] else [key k_sourcesContent ++ writeStrArr m.sourcesContent]) ++
    [key k_names ++ writeStrArr m.names, key k_mappings ++ writeStr m.mappings] ++
    (match m.sourceRoot with | some f => [key k_sourceRoot ++ writeStr f] | none => []) ++
    (match m.debugId with | some f => [key k_debugId ++ writeStr f] | none => [])
  [123] ++ sepBy [44] fields ++ [125]

/-! ## parser -/

def isWs (b : UInt8) : Bool := b = 32 || b = 10 || b = 13 || b = 9

def skipWs : Text → Text
  | [] => []
  | b :: bs => if isWs b then skipWs bs else b :: bs

def hexVal (b : UInt8) : Option Nat :=
  let n := b.toNat
  if 48 ≤ n ∧ n ≤ 57 then some (n - 48) else if 97 ≤ n ∧ n ≤ 102 then some (n - 87) else if 65 ≤ n ∧ n ≤ 70 then some (n - 55) else none

def hex4 (bs : Text) : Option (Nat × Text) :=
  match bs with
  | a :: b :: c :: d :: rest => do
    let a ← hexVal a; let b ← hexVal b; let c ← hexVal c; let d ← hexVal d
    pure (((a * 16 + b) * 16 + c) * 16 + d, rest)
  | _ => none

/-- UTF-8 encoding of a Unicode scalar value -/
def utf8 (c : Nat) : Text :=
  if c < 0x80 then [UInt8.ofNat c]
  else if c < 0x800 then [UInt8.ofNat (0xC0 + c / 64), UInt8.ofNat (0x80 + c % 64)]
  else if c < 0x10000 then [UInt8.ofNat (0xE0 + c / 4096), UInt8.ofNat (0x80 + c / 64 % 64), UInt8.ofNat (0x80 + c % 64)]
  else [UInt8.ofNat (0xF0 + c / 262144), UInt8.ofNat (0x80 + c / 4096 % 64), UInt8.ofNat (0x80 + c / 64 % 64), UInt8.ofNat (0x80 + c % 64)]

/-- string body after the opening quote: returns the decoded bytes and the rest after the closing quote -/
def parseStrBody : Nat → Text → Text → Option (Text × Text)
  | 0, _, _ => none
  | _ + 1, _, [] => none
  | fuel + 1, acc, b :: bs =>
    if b = 34 then some (acc.reverse, bs)
    else if b = 92 then
      match bs with
      | [] => none
      | e :: rest =>
        if e = 34 then parseStrBody fuel (34 :: acc) rest
        else if e = 92 then parseStrBody fuel (92 :: acc) rest
        else if e = 47 then parseStrBody fuel (47 :: acc) rest
        else if e = 98 then parseStrBody fuel (8 :: acc) rest
        else if e = 102 then parseStrBody fuel (12 :: acc) rest
        else if e = 110 then parseStrBody fuel (10 :: acc) rest
        else if e = 114 then parseStrBody fuel (13 :: acc) rest
        else if e = 116 then parseStrBody fuel (9 :: acc) rest
        else if e = 117 then
          match hex4 rest with
          | none => none
          | some (u, rest') =>
            if 0xD800 ≤ u ∧ u < 0xDC00 then
              -- high surrogate: a low surrogate escape must follow
              match rest' with
              | 92 :: 117 :: r2 =>
                match hex4 r2 with
                | some (lo, r3) =>
                  if 0xDC00 ≤ lo ∧ lo < 0xE000 then
                    parseStrBody fuel ((utf8 (0x10000 + (u - 0xD800) * 1024 + (lo - 0xDC00))).reverse ++ acc) r3
                  else none
                | none => none
              | _ => none
            else if 0xDC00 ≤ u ∧ u < 0xE000 then none
            else parseStrBody fuel ((utf8 u).reverse ++ acc) rest'
        else none
    else if b.toNat < 32 then none
    else parseStrBody fuel (b :: acc) bs

def isNumChar (b : UInt8) : Bool := (48 ≤ b.toNat && b.toNat ≤ 57) || b = 45 || b = 43 || b = 46 || b = 101 || b = 69

def takeNum : Text → Text → Text × Text
  | acc, [] => (acc.reverse, [])
  | acc, b :: bs => if isNumChar b then takeNum (b :: acc) bs else (acc.reverse, b :: bs)

mutual
def parseVal : Nat → Text → Option (JVal × Text)
  | 0, _ => none
  | fuel + 1, bs =>
    match skipWs bs with
    | [] => none
    | 110 :: 117 :: 108 :: 108 :: rest => some (.null, rest)
    | 116 :: 114 :: 117 :: 101 :: rest => some (.bool true, rest)
    | 102 :: 97 :: 108 :: 115 :: 101 :: rest => some (.bool false, rest)
    | 34 :: rest => (parseStrBody (rest.length + 1) [] rest).map fun (s, r) => (.str s, r)
    | 91 :: rest =>
      match skipWs rest with
      | 93 :: r => some (.arr [], r)
      | _ => (parseElems fuel rest).map fun (l, r) => (.arr l, r)
    | 123 :: rest =>
      match skipWs rest with
      | 125 :: r => some (.obj [], r)
      | _ => (parseMembers fuel rest).map fun (l, r) => (.obj l, r)
    | b :: rest =>
      if isNumChar b && b ≠ 43 && b ≠ 46 && b ≠ 101 && b ≠ 69 then
        let (lit, r) := takeNum [] (b :: rest)
        some (.num lit, r)
      else none
def parseElems : Nat → Text → Option (List JVal × Text)
  | 0, _ => none
  | fuel + 1, bs =>
    match parseVal fuel bs with
    | none => none
    | some (v, r) =>
      match skipWs r with
      | 44 :: r2 => (parseElems fuel r2).map fun (l, r3) => (v :: l, r3)
      | 93 :: r2 => some ([v], r2)
      | _ => none
def parseMembers : Nat → Text → Option (List (Text × JVal) × Text)
  | 0, _ => none
  | fuel + 1, bs =>
    match skipWs bs with
    | 34 :: rest =>
      match parseStrBody (rest.length + 1) [] rest with
      | none => none
      | some (k, r) =>
        match skipWs r with
        | 58 :: r2 =>
          match parseVal fuel r2 with
          | none => none
          | some (v, r3) =>
            match skipWs r3 with
            | 44 :: r4 => (parseMembers fuel r4).map fun (l, r5) => ((k, v) :: l, r5)
            | 125 :: r4 => some ([(k, v)], r4)
            | _ => none
        | _ => none
    | _ => none
end

/-- a complete document: one value, then only whitespace -/
def parse (bs : Text) : Option JVal :=
  match parseVal (bs.length + 2) bs with
  | some (v, rest) => if (skipWs rest).isEmpty then some v else none
  | none => none

/-! ## `RawSourceMap` → `SourceMap` -/

def optStr : JVal → Option (Option Text)
  | .null => some none
  | .str s => some (some s)
  | _ => none

/-- `Option<Vec<Option<String>>>`: null entries read as empty strings; `null`/missing as empty -/
def optStrArr : JVal → Option (List Text)
  | .null => some []
  | .arr l => l.mapM fun v => match v with | .null => some [] | .str s => some s | _ => none
  | _ => none

def field (kvs : List (Text × JVal)) (k : Text) : Option JVal := (kvs.find? (·.1 == k)).map (·.2)

def knownKeys : List Text := [k_file, k_sources, k_sourceRoot, k_sourcesContent, k_names, k_mappings, k_debugId]

/-- serde's derived `Deserialize` rejects a known field that occurs twice -/
def dupKnown (kvs : List (Text × JVal)) : Bool :=
  knownKeys.any fun k => (kvs.filter (·.1 == k)).length > 1

/-- `SourceMap::from_json` on a parsed document -/
def smapOfJson : JVal → Option SMap
  | .obj kvs =>
    if dupKnown kvs then none else
    match field kvs k_mappings with
    | some (.str mappings) => do
      let file ← match field kvs k_file with | some v => optStr v | none => some none
      let sourceRoot ← match field kvs k_sourceRoot with | some v => optStr v | none => some none
      let debugId ← match field kvs k_debugId with | some v => optStr v | none => some none
      let sources ← match field kvs k_sources with | some v => optStrArr v | none => some []
      let sourcesContent ← match field kvs k_sourcesContent with | some v => optStrArr v | none => some []
      let names ← match field kvs k_names with | some v => optStrArr v | none => some []
      pure { mappings, sources, sourcesContent, names, file, sourceRoot, debugId }
    | _ => none
  | _ => none

def fromJson (bs : Text) : Option SMap := (parse bs).bind smapOfJson

end Rs.Json
