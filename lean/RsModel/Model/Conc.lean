/-!
# Shared-state protocol of concurrent readers (C18)

Only the shared cells are modelled, at the granularity of the schedule points in the source
(`verif::sched_point`): `is_sorted` (SeqCst atomic), `sorted_index` (mutex), one `cached_maps`
entry with its shard lock, one `OnceLock`.  Values are abstract: the index is `stale` or `sorted`,
a cached map is the one `map()` computes (`M`) or the one streaming computes (`S`) — both correct.
Mutators need `&mut self`, so only readers run concurrently (Rust's borrow rules).
-/
namespace Rs.Conc

inductive Val where | M | S
deriving DecidableEq, Repr

/-- operations a reader thread performs on the shared object -/
inductive Op where
  | sorted    -- `sorted_replacement()` (source, hash, map, stream, … of a ReplaceSource)
  | clone     -- `ReplaceSource::clone`, then `sorted_replacement()` on the clone
  | cmap      -- `CachedSource::map`
  | cstream   -- `CachedSource::stream_chunks`
  | once      -- `OnceLock::get_or_init` (cached hash, lazily decoded buffer)
deriving DecidableEq, Repr

structure Shared where
  flag : Bool := false          -- is_sorted
  idxSorted : Bool := false     -- sorted_index holds the sorted order (false = stale/empty)
  entry : Option Val := none    -- cached_maps[key]
  lock : Option Nat := none     -- shard lock holder (held across a vacant `stream_chunks`)
  once : Bool := false          -- OnceLock initialised
deriving DecidableEq, Repr

structure Thread where
  ops : List Op
  pc : Nat := 0
  sawFlag : Bool := false       -- local: value read from is_sorted
  gotIdx : Bool := false        -- local: index read was the sorted one
  /-- every completed call returned the sequential answer so far -/
  ok : Bool := true
deriving DecidableEq, Repr

structure Sys where
  sh : Shared
  ths : List Thread
deriving Repr

def Thread.done (t : Thread) : Bool := t.ops.isEmpty

/-- finish the current operation with verdict `good` -/
def Thread.finish (t : Thread) (good : Bool) : Thread :=
  { t with ops := t.ops.tail, pc := 0, ok := t.ok && good }

/-- one atomic step of thread `i`; `none` = finished or blocked on the shard lock -/
def stepThread (sh : Shared) (i : Nat) (t : Thread) : Option (Shared × Thread) :=
  match t.ops with
  | [] => none
  | .sorted :: _ =>
    match t.pc with
    | 0 => some (sh, { t with pc := if sh.flag then 3 else 1, sawFlag := sh.flag })      -- load flag
    | 1 => some ({ sh with idxSorted := true }, { t with pc := 2 })                         -- store index (always the sorted order)
    | 2 => some ({ sh with flag := true }, { t with pc := 3 })                              -- store flag
    | _ => some (sh, t.finish sh.idxSorted)                                                -- read index: must be the sorted one
  | .clone :: _ =>
    match t.pc with
    | 0 => some (sh, { t with pc := 1, sawFlag := sh.flag })                               -- load flag (first: fix F8)
    | 1 => some (sh, { t with pc := 2, gotIdx := sh.idxSorted })                           -- read index
    | _ => some (sh, t.finish (!t.sawFlag || t.gotIdx))   -- the clone sorts itself unless its flag is set; then its index must be sorted
  | .cmap :: _ =>
    if sh.lock.isSome ∧ sh.lock ≠ some i then none else
    match t.pc with
    | 0 => match sh.entry with
      | some _ => some (sh, t.finish true)                                                 -- hit: the stored (correct) value
      | none => some (sh, { t with pc := 1 })                                              -- miss
    | 1 => some (sh, { t with pc := 2 })                                                   -- inner.map()
    | _ => some ({ sh with entry := some (sh.entry.getD .M) }, t.finish true)              -- entry().or_insert(M) (fix F9)
  | .cstream :: _ =>
    if sh.lock.isSome ∧ sh.lock ≠ some i then none else
    match t.pc with
    | 0 => match sh.entry with
      | some _ => some (sh, t.finish true)                                                 -- occupied: replay
      | none => some ({ sh with lock := some i }, { t with pc := 1 })                      -- vacant: shard lock stays held
    | 1 => some (sh, { t with pc := 2 })                                                   -- stream the inner source
    | _ => some ({ sh with entry := some .S, lock := none }, t.finish true)                -- entry.insert(S); unlock
  | .once :: _ =>
    match t.pc with
    | 0 => if sh.once then some (sh, t.finish true) else some (sh, { t with pc := 1 })
    | _ => some ({ sh with once := true }, t.finish true)                                  -- first writer wins; all write the same value

def step (s : Sys) (i : Nat) : Option Sys :=
  match s.ths[i]? with
  | none => none
  | some t => (stepThread s.sh i t).map fun (sh', t') => { sh := sh', ths := s.ths.set i t' }

/-- run a schedule; a step of a finished or blocked thread is skipped -/
def run (s : Sys) : List Nat → Sys
  | [] => s
  | i :: is => run ((step s i).getD s) is

/-- fresh threads over a fresh object -/
def initSys (progs : List (List Op)) : Sys := { sh := {}, ths := progs.map fun ops => { ops := ops } }

end Rs.Conc
