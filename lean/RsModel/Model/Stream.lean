import RsModel.Model.Codec
/-!
# Chunk-stream vocabulary, line splitting, token splitting, leaf streams
(helpers.rs: `split_into_lines`, `split_into_potential_tokens`, `get_generated_source_info`,
`stream_chunks_of_raw_source`, the four `stream_chunks_of_source_map_*`; original_source.rs).

`stream_chunks(options, on_chunk, on_source, on_name) -> GeneratedInfo` becomes a function returning
the ordered list of callback invocations plus the returned info.
-/
namespace Rs

inductive Ev where
  | chunk (text : Option Text) (m : Mapping)
  | source (i : Nat) (name : Text) (content : Option Text)
  | name (i : Nat) (n : Text)
deriving DecidableEq, Repr, Inhabited

structure SResult where
  evs : List Ev
  info : Info
deriving DecidableEq, Repr, Inhabited

structure Opts where
  columns : Bool
  final : Bool
deriving DecidableEq, Repr, Inhabited

def Ev.text : Ev → Text
  | .chunk (some t) _ => t
  | _ => []

/-- concatenation of the texts of all chunks, in delivery order -/
def evsText (evs : List Ev) : Text := (evs.map Ev.text).flatten

def Ev.isChunk : Ev → Bool
  | .chunk _ _ => true
  | _ => false

/-- a chunk was delivered without text -/
def Ev.textless : Ev → Bool
  | .chunk none _ => true
  | _ => false

def Ev.mapped : Ev → Bool
  | .chunk _ m => m.orig.isSome
  | _ => false

/-! ## split_into_lines (`split(haystack, b'\n')` and `Rope::lines_impl(false)`) -/

def splitLinesAux : Text → Text → List Text
  | acc, [] => if acc.isEmpty then [] else [acc.reverse]
  | acc, c :: cs => if c = NL then (c :: acc).reverse :: splitLinesAux [] cs else splitLinesAux (c :: acc) cs

def splitLines (t : Text) : List Text := splitLinesAux [] t

/-- `get_generated_source_info` -/
def genInfo (t : Text) : Info :=
  let ls := splitLines t
  if endsWithNL t then ⟨ls.length + 1, 0⟩
  else ⟨max ls.length 1, (ls.getLast?.getD []).length⟩

/-! ## split_into_potential_tokens -/

def isStop (c : UInt8) : Bool := Generated.tokenStop.contains c
def isTail (c : UInt8) : Bool := Generated.tokenTail.contains c

/-- `PotentialTokens::next` unrolled over the byte list; `inTail` = the second `while` loop is running,
`acc` = bytes of the current token, reversed -/
def tokAux : Bool → Text → Text → List Text
  | _, acc, [] => if acc.isEmpty then [] else [acc.reverse]
  | false, acc, c :: cs =>
    if !isStop c then tokAux false (c :: acc) cs
    else if isTail c then tokAux true (c :: acc) cs
    else (c :: acc).reverse :: tokAux false [] cs      -- `c == '\n'` (the only stop byte that is no tail byte)
  | true, acc, c :: cs =>
    if isTail c then tokAux true (c :: acc) cs
    else if c = NL then (c :: acc).reverse :: tokAux false [] cs
    else acc.reverse :: tokAux false [c] cs            -- token ends before `c`; `c` is no stop byte

def tokens (t : Text) : List Text := tokAux false [] t

/-! ## raw leaf -/

def rawChunks : Nat → List Text → List Ev
  | _, [] => []
  | l, t :: ts => .chunk (some t) ⟨l, 0, none⟩ :: rawChunks (l + 1) ts

/-- the `GeneratedInfo` computed at the end of the line loops of raw / original (columns=false) streaming -/
def lineLoopInfo (ls : List Text) : Info :=
  match ls.getLast? with
  | some last => if endsWithNL last then ⟨ls.length + 1, 0⟩ else ⟨ls.length, last.length⟩
  | none => ⟨1, 0⟩

/-- `stream_chunks_of_raw_source` -/
def streamRaw (t : Text) (o : Opts) : SResult :=
  if o.final then ⟨[], genInfo t⟩
  else let ls := splitLines t; ⟨rawChunks 1 ls, lineLoopInfo ls⟩

/-! ## OriginalSource -/

/-- columns = true: one chunk per potential token -/
def origTokChunks (final : Bool) : Nat → Nat → List Text → List Ev × Info
  | l, c, [] => ([], ⟨l, c⟩)
  | l, c, tok :: toks =>
    let eol := endsWithNL tok
    let ev : List Ev :=
      if eol && tok.length == 1 then
        (if final then [] else [.chunk (some tok) ⟨l, c, none⟩])
      else [.chunk (if final then none else some tok) ⟨l, c, some ⟨0, l, c, none⟩⟩]
    let r := if eol then origTokChunks final (l + 1) 0 toks else origTokChunks final l (c + tok.length) toks
    (ev ++ r.1, r.2)

def origLineChunks : Nat → List Text → List Ev
  | _, [] => []
  | l, t :: ts => .chunk (some t) ⟨l, 0, some ⟨0, l, 0, none⟩⟩ :: origLineChunks (l + 1) ts

def origFinalLines (from_ to_ : Nat) : List Ev :=
  (List.range (to_ - from_)).map fun k => .chunk none ⟨from_ + k, 0, some ⟨0, from_ + k, 0, none⟩⟩

/-- `OriginalSource::stream_chunks` -/
def streamOriginal (t name : Text) (o : Opts) : SResult :=
  let hd := Ev.source 0 name (some t)
  if o.columns then
    let r := origTokChunks o.final 1 0 (tokens t)
    ⟨hd :: r.1, r.2⟩
  else if o.final then
    let gi := genInfo t
    if gi.col == 0 then ⟨hd :: origFinalLines 1 gi.line, gi⟩
    else ⟨hd :: origFinalLines 1 (gi.line + 1), gi⟩
  else
    let ls := splitLines t
    ⟨hd :: origLineChunks 1 ls, lineLoopInfo ls⟩

/-! ## WithIndices::substring -/

def USIZE_MAX : Nat := 2 ^ 64 - 1

/-- byte offsets of the chars of `t` (`char_indices().map(|(i, _)| i)`), for valid UTF-8 -/
def charStartsFrom : Nat → Text → List Nat
  | _, [] => []
  | i, b :: bs => if isCont b then charStartsFrom (i + 1) bs else i :: charStartsFrom (i + 1) bs

def charStarts (t : Text) : List Nat := charStartsFrom 0 t

/-- `WithIndices::substring(start_index, end_index)` (char indices, clamped to the end) -/
def csub (line : Text) (a b : Nat) : Text :=
  if b ≤ a then []
  else
    let idx := charStarts line
    bsub line (idx.getD a line.length) (idx.getD b line.length)

/-! ## SourceMapSource leaf streams -/

/-- `get_source` -/
def applyRoot (root : Option Text) (source : Text) : Text :=
  match root with
  | none => source
  | some [] => source
  | some r => if r.getLast? == some 47 then r ++ source else r ++ [47] ++ source

def smSourceEvs (m : SMap) : List Ev :=
  (List.range m.sources.length).map fun i =>
    .source i (applyRoot m.sourceRoot (m.sources.getD i [])) (m.sourcesContent[i]?)

def smNameEvs (m : SMap) : List Ev :=
  (List.range m.names.length).map fun i => .name i (m.names.getD i [])

/-- `stream_chunks_of_source_map_final` -/
def smFinalGo (r : Info) : Nat → List Mapping → List Ev
  | _, [] => []
  | act, m :: ms =>
    if m.gl ≥ r.line && (m.gc ≥ r.col || m.gl > r.line) then smFinalGo r act ms
    else match m.orig with
      | some _ => .chunk none m :: smFinalGo r m.gl ms
      | none => if act == m.gl then .chunk none ⟨m.gl, m.gc, none⟩ :: smFinalGo r act ms else smFinalGo r act ms

def streamSMFinal (t : Text) (sm : SMap) : SResult :=
  let r := genInfo t
  if r.line == 1 && r.col == 0 then ⟨[], r⟩
  else ⟨smSourceEvs sm ++ smNameEvs sm ++ smFinalGo r 0 (decode sm.mappings), r⟩

/-- state of the `on_mapping` closure of `stream_chunks_of_source_map_full` -/
structure FullSt where
  line : Nat := 1
  col : Nat := 0
  active : Bool := false
  orig : Option Orig := none
deriving Repr, DecidableEq

/-- whole unmapped lines `from_ .. to_-1` (the `while mapping.generated_line > current_generated_line` loop) -/
def smWholeLines (lines : List Text) (from_ to_ : Nat) : List Ev :=
  ((List.range (to_ - from_)).map fun k =>
    let l := from_ + k
    if l ≤ lines.length then [Ev.chunk (some (lines.getD (l - 1) [])) ⟨l, 0, none⟩] else []).flatten

/-- 1. close the active mapping -/
def smStep1 (lines : List Text) (s : FullSt) (m : Mapping) : FullSt × List Ev :=
  if s.active && s.line ≤ lines.length then
    let ln := lines.getD (s.line - 1) []
    if m.gl != s.line then
      let ch := csub ln s.col USIZE_MAX
      ({ s with line := s.line + 1, col := 0, active := false },
        if ch.isEmpty then [] else [.chunk (some ch) ⟨s.line, s.col, s.orig⟩])
    else
      let ch := csub ln s.col m.gc
      ({ s with col := m.gc, active := false },
        if ch.isEmpty then [] else [.chunk (some ch) ⟨s.line, s.col, s.orig⟩])
  else (s, [])

/-- 2. rest of a partially emitted line -/
def smStep2 (lines : List Text) (s1 : FullSt) (m : Mapping) : FullSt × List Ev :=
  if m.gl > s1.line && s1.col > 0 then
    ({ s1 with line := s1.line + 1, col := 0 },
      if s1.line ≤ lines.length then
        [.chunk (some (csub (lines.getD (s1.line - 1) []) s1.col USIZE_MAX)) ⟨s1.line, s1.col, none⟩]
      else [])
  else (s1, [])

/-- 4. unmapped text before the mapping's column -/
def smStep4 (lines : List Text) (s3 : FullSt) (m : Mapping) : FullSt × List Ev :=
  if m.gc > s3.col then
    ({ s3 with col := m.gc },
      if s3.line ≤ lines.length then
        [.chunk (some (csub (lines.getD (s3.line - 1) []) s3.col m.gc)) ⟨s3.line, s3.col, none⟩]
      else [])
  else (s3, [])

/-- 5. activate -/
def smStep5 (finalLine finalCol : Nat) (s4 : FullSt) (m : Mapping) : FullSt :=
  match m.orig with
  | some o =>
    if m.gl < finalLine || (m.gl == finalLine && m.gc < finalCol) then { s4 with active := true, orig := some o } else s4
  | none => s4

def smFullStep (lines : List Text) (finalLine finalCol : Nat) (s : FullSt) (m : Mapping) : FullSt × List Ev :=
  -- fix F11: ignore mappings that go backwards
  if m.gl < s.line || (m.gl == s.line && m.gc < s.col) then (s, [])
  else
  let r1 := smStep1 lines s m
  let r2 := smStep2 lines r1.1 m
  -- 3. whole unmapped lines
  let o3 := smWholeLines lines r2.1.line m.gl
  let s3 : FullSt := { r2.1 with line := max r2.1.line m.gl }
  let r4 := smStep4 lines s3 m
  (smStep5 finalLine finalCol r4.1 m, r1.2 ++ r2.2 ++ o3 ++ r4.2)

def smFullGo (lines : List Text) (fl fc : Nat) : FullSt → List Mapping → List Ev
  | _, [] => []
  | s, m :: ms => let r := smFullStep lines fl fc s m; r.2 ++ smFullGo lines fl fc r.1 ms

/-- `stream_chunks_of_source_map_full` -/
def streamSMFull (t : Text) (sm : SMap) : SResult :=
  let lines := splitLines t
  if lines.isEmpty then ⟨[], ⟨1, 0⟩⟩
  else
    let last := lines.getLast?.getD []
    let lastNL := endsWithNL last
    let fl := if lastNL then lines.length + 1 else lines.length
    let fc := if lastNL then 0 else last.length
    ⟨smSourceEvs sm ++ smNameEvs sm ++ smFullGo lines fl fc {} (decode sm.mappings ++ [⟨fl, fc, none⟩]), ⟨fl, fc⟩⟩

/-- `stream_chunks_of_source_map_lines_final` -/
def smLinesFinalGo (finalLine : Nat) : Nat → List Mapping → List Ev
  | _, [] => []
  | cur, m :: ms =>
    match m.orig with
    | some o =>
      if cur ≤ m.gl && m.gl ≤ finalLine then
        .chunk none ⟨m.gl, 0, some { o with name := none }⟩ :: smLinesFinalGo finalLine (m.gl + 1) ms
      else smLinesFinalGo finalLine cur ms
    | none => smLinesFinalGo finalLine cur ms

def streamSMLinesFinal (t : Text) (sm : SMap) : SResult :=
  let r := genInfo t
  if r.line == 1 && r.col == 0 then ⟨[], ⟨1, 0⟩⟩
  else
    let fl := if r.col == 0 then r.line - 1 else r.line
    ⟨smSourceEvs sm ++ smLinesFinalGo fl 1 (decode sm.mappings), r⟩

/-- `stream_chunks_of_source_map_lines_full`: returns the events and the final `current_generated_line` -/
def smLinesFullGo (lines : List Text) : Nat → List Mapping → List Ev × Nat
  | cur, [] => ([], cur)
  | cur, m :: ms =>
    match m.orig with
    | none => smLinesFullGo lines cur ms
    | some o =>
      if m.gl < cur || m.gl > lines.length then smLinesFullGo lines cur ms
      else
        let o3 := smWholeLines lines cur m.gl
        let cur1 := max cur m.gl
        let ev := Ev.chunk (some (lines.getD (cur1 - 1) [])) ⟨m.gl, 0, some { o with name := none }⟩
        let r := smLinesFullGo lines (cur1 + 1) ms
        (o3 ++ ev :: r.1, r.2)

def streamSMLinesFull (t : Text) (sm : SMap) : SResult :=
  let lines := splitLines t
  if lines.isEmpty then ⟨[], ⟨1, 0⟩⟩
  else
    let r := smLinesFullGo lines 1 (decode sm.mappings)
    let rest := smWholeLines lines r.2 (lines.length + 1)
    ⟨smSourceEvs sm ++ r.1 ++ rest, lineLoopInfo lines⟩

/-- `stream_chunks_of_source_map` -/
def streamSM (t : Text) (sm : SMap) (o : Opts) : SResult :=
  match o.columns, o.final with
  | true, true => streamSMFinal t sm
  | true, false => streamSMFull t sm
  | false, true => streamSMLinesFinal t sm
  | false, false => streamSMLinesFull t sm

/-- `stream_chunks_default` -/
def streamDefault (t : Text) (sm : Option SMap) (o : Opts) : SResult :=
  match sm with
  | some m => streamSM t m o
  | none => streamRaw t o

end Rs
