import RsModel.Model.Stream
/-!
# `stream_chunks_of_combined_source_map` (helpers.rs:712-1192)

The thirteen `RefCell`s captured by the three closures become one record; the closures become
step functions folded over the outer stream's events (callbacks are synchronous and never re-enter).
`LinearMap<V>` is a list with default fill; `FxHashMap<Cow<str>, u32>` is an association list (only
`get` / `insert` / `len` are used, so iteration order is never observed).
-/
namespace Rs

/-- `LinearMap::insert` -/
def lmInsert {α} (dflt : α) (m : List α) (k : Nat) (v : α) : List α :=
  if k < m.length then m.set k v else m ++ List.replicate (k - m.length) dflt ++ [v]

abbrev Assoc := List (Text × Nat)
def Assoc.get? (m : Assoc) (k : Text) : Option Nat := (m.find? (·.1 == k)).map (·.2)
def Assoc.insert (m : Assoc) (k : Text) (v : Nat) : Assoc :=
  if m.any (·.1 == k) then m.map (fun e => if e.1 == k then (k, v) else e) else m ++ [(k, v)]

/-- one 5-tuple of `mappings_data` -/
structure InnerSeg where
  gc : Int
  src : Int
  line : Int
  col : Int
  name : Int
deriving Repr, DecidableEq, Inhabited

structure LineData where
  segs : List InnerSeg := []
  chunks : List Text := []
deriving Repr, DecidableEq, Inhabited

structure CombSt where
  sourceMapping : Assoc := []
  nameMapping : Assoc := []
  sourceIndexMapping : List Int := []
  nameIndexMapping : List Int := []
  nameIndexValueMapping : List Text := []
  innerSourceIndex : Int := -2
  innerSource : Option Text := none
  innerSourceIndexMapping : List Int := []
  innerSourceIndexValueMapping : List (Text × Option Text) := []
  innerSourceContents : List (Option Text) := []
  innerNameIndexMapping : List Int := []
  innerNameIndexValueMapping : List Text := []
  lineData : List LineData := []
deriving Repr, Inhabited

/-- the hand-written binary search of `find_inner_mapping`: number of leading segments with `gc ≤ column`
as found by bisection (`l`), fuel = length -/
def bisect (segs : List InnerSeg) (column : Int) : Nat → Nat → Nat → Nat
  | 0, l, _ => l
  | fuel + 1, l, r =>
    if l < r then
      let m := (l + r) / 2
      if (segs.getD m default).gc ≤ column then bisect segs column fuel (m + 1) r else bisect segs column fuel l m
    else l

def findInner (st : CombSt) (line column : Int) : Option Nat :=
  if line ≤ 0 ∨ line.toNat > st.lineData.length then none   -- `line <= 0`: fix F5
  else
    let segs := (st.lineData.getD (line.toNat - 1) default).segs
    let l := bisect segs column (segs.length + 1) 0 segs.length
    if l = 0 then none else some (l - 1)

/-- lines of the content registered for inner source `i` (the lazily filled `inner_source_content_lines`) -/
def innerContentLines (st : CombSt) (i : Nat) : Option (List Text) :=
  match st.innerSourceContents[i]? with
  | some (some c) => some (splitLines c)
  | _ => none

/-- register `name` in the global name table when new; returns new table, the events, the global index -/
def globalName (nm : Assoc) (name : Text) : Assoc × List Ev × Nat :=
  match nm.get? name with
  | some g => (nm, [], g)
  | none => let len := nm.length; (nm.insert name len, [.name len name], len)

def globalSource (sm : Assoc) (source : Text) (content : Option Text) : Assoc × List Ev × Nat :=
  match sm.get? source with
  | some g => (sm, [], g)
  | none => let len := sm.length; (sm.insert source len, [.source len source content], len)

/-- the inner stream's callbacks (helpers.rs:1100-1166) -/
def combInnerEv (st : CombSt) : Ev → CombSt
  | .chunk text m =>
    let need := m.gl + 1
    let ld := if st.lineData.length ≤ m.gl then st.lineData ++ List.replicate (need - st.lineData.length) {} else st.lineData
    let seg : InnerSeg :=
      { gc := m.gc
        src := match m.orig with | some o => o.src | none => -1
        line := match m.orig with | some o => o.line | none => -1
        col := match m.orig with | some o => o.col | none => -1
        name := match m.orig with | some o => (match o.name with | some n => (n : Int) | none => -1) | none => -1 }
    let cur := ld.getD (m.gl - 1) {}
    { st with lineData := ld.set (m.gl - 1) { segs := cur.segs ++ [seg], chunks := cur.chunks ++ [text.getD []] } }
  | .source i source content =>
    { st with innerSourceContents := lmInsert none st.innerSourceContents i content
              innerSourceIndexMapping := lmInsert 0 st.innerSourceIndexMapping i (-2)
              innerSourceIndexValueMapping := lmInsert ([], none) st.innerSourceIndexValueMapping i (source, content) }
  | .name i name =>
    { st with innerNameIndexMapping := lmInsert 0 st.innerNameIndexMapping i (-2)
              innerNameIndexValueMapping := lmInsert [] st.innerNameIndexValueMapping i name }

structure CombCfg where
  /-- the generated text (`source`); before fix F15 it was used as the de-duplication key at helpers.rs:1023 -/
  genText : Text
  innerName : Text
  innerMap : SMap
  remove : Bool
  columns : Bool

/-- the outer `on_source` closure (helpers.rs:1087-1185) -/
def combOnSource (cfg : CombCfg) (st : CombSt) (i : Nat) (source : Text) (content : Option Text) : CombSt × List Ev :=
  if source == cfg.innerName then
    let content' := st.innerSource.or content
    let st1 := { st with innerSourceIndex := i
                         innerSource := st.innerSource.or content
                         sourceIndexMapping := lmInsert 0 st.sourceIndexMapping i (-2) }
    -- `source_content.unwrap_or_default()`: fix F5
    let inner := streamSM (content'.getD []) cfg.innerMap ⟨cfg.columns, false⟩
    (inner.evs.foldl combInnerEv st1, [])
  else
    let r := globalSource st.sourceMapping source content
    ({ st with sourceMapping := r.1, sourceIndexMapping := lmInsert 0 st.sourceIndexMapping i r.2.2 }, r.2.1)

def combOnName (st : CombSt) (i : Nat) (name : Text) : CombSt :=
  { st with nameIndexMapping := lmInsert 0 st.nameIndexMapping i (-2)
            nameIndexValueMapping := lmInsert [] st.nameIndexValueMapping i name }

/-- the pass-through tail of the outer `on_chunk` closure (helpers.rs:1028-1085) -/
def combPass (st : CombSt) (chunk : Option Text) (m : Mapping) (sourceIndex origLine origCol nameIndex : Int) : CombSt × List Ev :=
  let finalSourceIndex : Int :=
    if sourceIndex < 0 then -1 else (st.sourceIndexMapping[sourceIndex.toNat]?).getD (-1)
  if finalSourceIndex < 0 then (st, [.chunk chunk ⟨m.gl, m.gc, none⟩])
  else
    let fni0 : Int := if nameIndex ≥ 0 then (st.nameIndexMapping[nameIndex.toNat]?).getD (-1) else -1
    if fni0 == -2 then
      let name := st.nameIndexValueMapping.getD nameIndex.toNat []
      let r := globalName st.nameMapping name
      let st' := { st with nameMapping := r.1, nameIndexMapping := lmInsert 0 st.nameIndexMapping nameIndex.toNat r.2.2 }
      (st', r.2.1 ++ [.chunk chunk ⟨m.gl, m.gc, some ⟨finalSourceIndex.toNat, origLine.toNat, origCol.toNat, some r.2.2⟩⟩])
    else
      (st, [.chunk chunk ⟨m.gl, m.gc, some ⟨finalSourceIndex.toNat, origLine.toNat, origCol.toNat,
              if fni0 ≥ 0 then some fni0.toNat else none⟩⟩])

/-- "We have a mapping to the inner source, but no inner mapping" (helpers.rs:995-1026), then pass-through -/
def combNoInner (cfg : CombCfg) (st : CombSt) (chunk : Option Text) (m : Mapping) (sourceIndex origLine origCol nameIndex : Int) : CombSt × List Ev :=
  if cfg.remove then (st, [.chunk chunk ⟨m.gl, m.gc, none⟩])
  else
    if st.sourceIndexMapping[sourceIndex.toNat]? == some (-2) then
      match st.sourceMapping.get? cfg.innerName with
      | some g =>
        combPass { st with sourceIndexMapping := lmInsert 0 st.sourceIndexMapping sourceIndex.toNat g } chunk m sourceIndex origLine origCol nameIndex
      | none =>
        let len := st.sourceMapping.length
        -- helpers.rs:1023 registers the inner source name as key (fix F15; the pinned tree registered the generated text)
        let st' := { st with sourceMapping := st.sourceMapping.insert cfg.innerName len
                             sourceIndexMapping := lmInsert 0 st.sourceIndexMapping sourceIndex.toNat len }
        let r := combPass st' chunk m sourceIndex origLine origCol nameIndex
        (r.1, .source len cfg.innerName st.innerSource :: r.2)
    else combPass st chunk m sourceIndex origLine origCol nameIndex

/-- identity-mapping check (helpers.rs:818-859): may the original column be advanced by `loc`? -/
def combAdj (st : CombSt) (seg : InnerSeg) (innerChunk : Text) (loc : Int) : Bool :=
  if loc > 0 then
    match innerContentLines st seg.src.toNat with
    | some lines =>
      -- `(inner_original_line as usize).wrapping_sub(1)`: fix F5
      if seg.line ≤ 0 then false else
      match lines[seg.line.toNat - 1]? with
      | some ln =>
        let oc := csub ln seg.col.toNat (seg.col.toNat + loc.toNat)
        oc.length ≤ innerChunk.length && bget innerChunk 0 oc.length == some oc
      | none => false
    | none => false
  else false

/-- "emit source when needed and compute global source index" (helpers.rs:863-887) -/
def combSrcResolve (st : CombSt) (isi : Nat) : CombSt × List Ev × Int :=
  let si0 : Int := (st.innerSourceIndexMapping[isi]?).getD (-2)
  if si0 == -2 then
    let sc := (st.innerSourceIndexValueMapping[isi]?).getD ([], none)
    let r := globalSource st.sourceMapping sc.1 sc.2
    ({ st with sourceMapping := r.1, innerSourceIndexMapping := lmInsert 0 st.innerSourceIndexMapping isi r.2.2 }, r.2.1, (r.2.2 : Int))
  else (st, [], si0)

/-- the original text at the composed location, as long as the outer name (helpers.rs:929-947) -/
def combOrigName (lines : List Text) (seg : InnerSeg) (ioc : Int) (len : Nat) : Text :=
  if seg.line ≤ 0 then [] else
  match lines[seg.line.toNat - 1]? with
  | some ln => csub ln ioc.toNat (ioc.toNat + len)
  | none => []

/-- "emit name when needed and compute global name index" (helpers.rs:889-976) -/
def combNameResolve (st1 : CombSt) (isi : Nat) (seg : InnerSeg) (ini nameIndex ioc : Int) : CombSt × List Ev × Int :=
  if ini ≥ 0 then
    let f0 : Int := (st1.innerNameIndexMapping[ini.toNat]?).getD (-2)
    if f0 == -2 then
      match st1.innerNameIndexValueMapping[ini.toNat]? with
      | some name =>
        let r := globalName st1.nameMapping name
        ({ st1 with nameMapping := r.1, innerNameIndexMapping := lmInsert 0 st1.innerNameIndexMapping ini.toNat r.2.2 }, r.2.1, (r.2.2 : Int))
      | none =>
        ({ st1 with innerNameIndexMapping := lmInsert 0 st1.innerNameIndexMapping ini.toNat (-1) }, [], -1)
    else (st1, [], f0)
  else if nameIndex ≥ 0 then
    match innerContentLines st1 isi with
    | some lines =>
      -- `unwrap_or_default()`: fix F5
      let name := st1.nameIndexValueMapping.getD nameIndex.toNat []
      if name == combOrigName lines seg ioc name.length then
        let f0 : Int := (st1.nameIndexMapping[nameIndex.toNat]?).getD (-2)
        if f0 == -2 then
          match st1.nameIndexValueMapping[nameIndex.toNat]? with
          | some name =>
            let r := globalName st1.nameMapping name
            ({ st1 with nameMapping := r.1, nameIndexMapping := lmInsert 0 st1.nameIndexMapping nameIndex.toNat r.2.2 }, r.2.1, (r.2.2 : Int))
          | none =>
            ({ st1 with nameIndexMapping := lmInsert 0 st1.nameIndexMapping nameIndex.toNat (-1) }, [], -1)
        else (st1, [], f0)
      else (st1, [], -1)
    | none => (st1, [], -1)
  else (st1, [], -1)

/-- "We have a inner mapping to original source" (helpers.rs:816-992) -/
def combFound (st : CombSt) (chunk : Option Text) (m : Mapping) (seg : InnerSeg) (innerChunk : Text)
    (origCol nameIndex : Int) : CombSt × List Ev :=
  let isi := seg.src.toNat
  let loc := origCol - seg.gc
  let adj := combAdj st seg innerChunk loc
  let ioc : Int := if adj then seg.col + loc else seg.col
  let ini : Int := if adj then -1 else seg.name
  let rS := combSrcResolve st isi
  let rN := combNameResolve rS.1 isi seg ini nameIndex ioc
  (rN.1, rS.2.1 ++ rN.2.1 ++ [.chunk chunk ⟨m.gl, m.gc,
      if rS.2.2 ≥ 0 then some ⟨rS.2.2.toNat, seg.line.toNat, ioc.toNat, if rN.2.2 ≥ 0 then some rN.2.2.toNat else none⟩ else none⟩])

/-- the outer `on_chunk` closure (helpers.rs:780-1086) -/
def combOnChunk (cfg : CombCfg) (st : CombSt) (chunk : Option Text) (m : Mapping) : CombSt × List Ev :=
  let sourceIndex : Int := match m.orig with | some o => o.src | none => -1
  let origLine : Int := match m.orig with | some o => o.line | none => -1
  let origCol : Int := match m.orig with | some o => o.col | none => -1
  let nameIndex : Int := match m.orig with | some o => (match o.name with | some n => (n : Int) | none => -1) | none => -1
  if sourceIndex == st.innerSourceIndex then
    match findInner st origLine origCol with
    | none => combNoInner cfg st chunk m sourceIndex origLine origCol nameIndex
    | some idx =>
      let ld := st.lineData.getD (origLine.toNat - 1) {}
      let seg := ld.segs.getD idx default
      if seg.src ≥ 0 then combFound st chunk m seg (ld.chunks.getD idx []) origCol nameIndex
      else combNoInner cfg st chunk m sourceIndex origLine origCol nameIndex
  else combPass st chunk m sourceIndex origLine origCol nameIndex

def combStep (cfg : CombCfg) (st : CombSt) : Ev → CombSt × List Ev
  | .chunk text m => combOnChunk cfg st text m
  | .source i s c => combOnSource cfg st i s c
  | .name i n => (combOnName st i n, [])

def combFold (cfg : CombCfg) : CombSt → List Ev → List Ev
  | _, [] => []
  | st, e :: es => let r := combStep cfg st e; r.2 ++ combFold cfg r.1 es

/-- `stream_chunks_of_combined_source_map` -/
def streamCombined (t : Text) (sm : SMap) (innerName : Text) (innerSource : Option Text) (innerMap : SMap)
    (remove : Bool) (o : Opts) : SResult :=
  let outer := streamSM t sm o
  let cfg : CombCfg := { genText := t, innerName, innerMap, remove, columns := o.columns }
  ⟨combFold cfg { innerSource := innerSource } outer.evs, outer.info⟩

end Rs
