import RsModel.Model.Basic
import RsModel.Generated.Consts
/-!
# Mappings codec: `encode_vlq`, `FullMappingsEncoder`, `LinesOnlyMappingsEncoder`, `MappingsDecoder`
(encoder.rs, decoder.rs).  Machine widths are explicit: the encoder computes in `u32`, the decoder
accumulates in `i64` and stores fields `as u32`.
-/
namespace Rs

def COMMA : UInt8 := 44
def SEMI : UInt8 := 59
def CH_A : UInt8 := 65

/-- `B64_CHARS[d]` -/
def b64At (d : Nat) : UInt8 := Generated.b64Chars.getD d 0

/-- digits (5-bit groups, least significant first, continuation flag) of `num`: the `loop` in `encode_vlq` -/
def vlqDigits (num : Nat) : List Nat :=
  if h : num < 32 then [num] else (num % 32 + 32) :: vlqDigits (num / 32)
termination_by num
decreasing_by omega

/-- the `u32` value `encode_vlq(out, a, b)` serialises: sign in bit 0, `<< 1` wraps in `u32` -/
def vlqNum (a b : Nat) : Nat :=
  if a ≥ b then ((a - b) * 2) % 2 ^ 32 else ((b - a) * 2) % 2 ^ 32 + 1

/-- bytes written by `encode_vlq(out, a, b)` -/
def vlqChars (a b : Nat) : Text := (vlqDigits (vlqNum a b)).map b64At

/-! ## FullMappingsEncoder -/
structure EncSt where
  curLine : Nat := 1
  curCol : Nat := 0
  curOL : Nat := 1
  curOC : Nat := 0
  curSrc : Nat := 0
  curName : Nat := 0
  activeMapping : Bool := false
  activeName : Bool := false
  initial : Bool := true
deriving Repr, DecidableEq

/-- the two early `return`s of `encode` -/
def encSkip (s : EncSt) (m : Mapping) : Bool :=
  if s.activeMapping && s.curLine == m.gl then
    match m.orig with
    | some o => o.src == s.curSrc && o.line == s.curOL && o.col == s.curOC && !s.activeName && o.name.isNone
    | none => false
  else m.orig.isNone

def encSep (s : EncSt) (m : Mapping) : Text :=
  if s.curLine < m.gl then List.replicate (m.gl - s.curLine) SEMI
  else if s.initial then [] else [COMMA]

def encFields (s : EncSt) (m : Mapping) : Text :=
  let col0 := if s.curLine < m.gl then 0 else s.curCol
  vlqChars m.gc col0 ++
  match m.orig with
  | none => []
  | some o =>
    (if o.src == s.curSrc then [CH_A] else vlqChars o.src s.curSrc) ++ vlqChars o.line s.curOL ++
    (if o.col == s.curOC then [CH_A] else vlqChars o.col s.curOC) ++
    match o.name with
    | none => []
    | some n => vlqChars n s.curName

def encNext (s : EncSt) (m : Mapping) : EncSt :=
  let line := if s.curLine < m.gl then m.gl else s.curLine
  match m.orig with
  | none => { s with curLine := line, curCol := m.gc, initial := false, activeMapping := false }
  | some o =>
    { s with curLine := line, curCol := m.gc, initial := false, activeMapping := true,
             curSrc := o.src, curOL := o.line, curOC := o.col,
             curName := (match o.name with | some n => n | none => s.curName),
             activeName := o.name.isSome }

/-- one call of `FullMappingsEncoder::encode`: new state and bytes appended -/
def encStep (s : EncSt) (m : Mapping) : EncSt × Text :=
  if encSkip s m then (s, []) else (encNext s m, encSep s m ++ encFields s m)

def encodeFrom : EncSt → List Mapping → Text
  | _, [] => []
  | s, m :: ms => if encSkip s m then encodeFrom s ms else encSep s m ++ encFields s m ++ encodeFrom (encNext s m) ms

/-- the mappings the encoder actually writes -/
def keptFrom : EncSt → List Mapping → List Mapping
  | _, [] => []
  | s, m :: ms => if encSkip s m then keptFrom s ms else m :: keptFrom (encNext s m) ms

/-- `encode_mappings` -/
def encodeFull (ms : List Mapping) : Text := encodeFrom {} ms

/-! ## LinesOnlyMappingsEncoder -/
structure LEncSt where
  lastWritten : Nat := 0
  curLine : Nat := 1
  curSrc : Nat := 0
  curOL : Nat := 1
deriving Repr, DecidableEq

def lencStep (s : LEncSt) (m : Mapping) : LEncSt × Text :=
  match m.orig with
  | none => (s, [])
  | some o =>
    if s.lastWritten == m.gl then (s, [])
    else
      -- `mapping.generated_line - self.current_line` is a u32 subtraction: guard `curLine ≤ gl`
      let semis := List.replicate (m.gl - s.curLine) SEMI
      let body :=
        if o.src == s.curSrc then
          if o.line == s.curOL + 1 then Generated.linesLitNext
          else Generated.linesLitSame ++ vlqChars o.line s.curOL ++ Generated.linesLitCol
        else Generated.linesLitCol ++ vlqChars o.src s.curSrc ++ vlqChars o.line s.curOL ++ Generated.linesLitCol
      ({ lastWritten := m.gl, curLine := m.gl, curSrc := o.src, curOL := o.line }, semis ++ body)

def lencodeFrom : LEncSt → List Mapping → Text
  | _, [] => []
  | s, m :: ms => (lencStep s m).2 ++ lencodeFrom (lencStep s m).1 ms

def encodeLines (ms : List Mapping) : Text := lencodeFrom {} ms

/-- `create_encoder(columns)` then encode all, then `drain` -/
def encodeWith (columns : Bool) (ms : List Mapping) : Text :=
  if columns then encodeFull ms else encodeLines ms

/-! ## MappingsDecoder -/
structure DecSt where
  d0 : Nat := 0
  d1 : Nat := 0
  d2 : Nat := 1
  d3 : Nat := 0
  d4 : Nat := 0
  dataPos : Nat := 0
  /-- `current_value` as the unbounded sum of the sextets seen so far; only its low 64 bits exist in
  the `i64` (bits shifted beyond 63 are ignored), which `finalValue` accounts for -/
  value : Nat := 0
  valuePos : Nat := 0
  genLine : Nat := 1
deriving Repr, DecidableEq

def DecSt.pending (s : DecSt) : List Mapping :=
  if s.dataPos = 1 then [⟨s.genLine, s.d0, none⟩]
  else if s.dataPos = 4 then [⟨s.genLine, s.d0, some ⟨s.d1, s.d2, s.d3, none⟩⟩]
  else if s.dataPos = 5 then [⟨s.genLine, s.d0, some ⟨s.d1, s.d2, s.d3, some s.d4⟩⟩]
  else []

/-- `final_value` of the `i64` `current_value` whose unbounded sextet sum is `v` -/
def finalValue (v : Nat) : Int :=
  let v64 : Nat := v % 2 ^ 64
  let sv : Int := if v64 < 2 ^ 63 then (v64 : Int) else (v64 : Int) - 2 ^ 64
  if v64 % 2 = 1 then -(sv / 2) else sv / 2

/-- `(current_data[k] as i64 + final_value) as u32` -/
def addField (cur : Nat) (v : Nat) : Nat := (((cur : Int) + finalValue v) % 2 ^ 32).toNat

def DecSt.setField (s : DecSt) (v : Nat) : DecSt :=
  { d0 := if s.dataPos = 0 then addField s.d0 v else s.d0
    d1 := if s.dataPos = 1 then addField s.d1 v else s.d1
    d2 := if s.dataPos = 2 then addField s.d2 v else s.d2
    d3 := if s.dataPos = 3 then addField s.d3 v else s.d3
    d4 := if s.dataPos = 4 then addField s.d4 v else s.d4
    dataPos := s.dataPos + 1, value := 0, valuePos := 0, genLine := s.genLine }

/-- `B64[c]` -/
def b64Val (c : UInt8) : UInt8 := Generated.b64Table.getD c.toNat Generated.ERR

/-- one iteration of the `for c in &mut self.mappings_iter` loop -/
def decByte (s : DecSt) (c : UInt8) : DecSt × List Mapping :=
  let v := b64Val c
  if v = Generated.ERR then (s, [])
  else if (v &&& Generated.COM) ≠ 0 then
    if v = Generated.SEM then ({ s with dataPos := 0, genLine := s.genLine + 1, d0 := 0 }, s.pending)
    else ({ s with dataPos := 0 }, s.pending)
  else if (v &&& Generated.CONTINUATION_BIT) = 0 then
    (s.setField (s.value + v.toNat * 2 ^ s.valuePos), [])
  else
    ({ s with value := s.value + (v &&& Generated.DATA_MASK).toNat * 2 ^ s.valuePos, valuePos := s.valuePos + 5 }, [])

def decBytes : DecSt → Text → DecSt × List Mapping
  | s, [] => (s, [])
  | s, c :: cs => let r := decByte s c; let r2 := decBytes r.1 cs; (r2.1, r.2 ++ r2.2)

def decInitSt : DecSt :=
  { d0 := Generated.decInit.getD 0 0, d1 := Generated.decInit.getD 1 0, d2 := Generated.decInit.getD 2 0,
    d3 := Generated.decInit.getD 3 0, d4 := Generated.decInit.getD 4 0 }

/-- `decode_mappings(..).collect()` -/
def decode (bs : Text) : List Mapping := let r := decBytes decInitSt bs; r.2 ++ r.1.pending

end Rs
