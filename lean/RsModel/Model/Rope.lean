import RsModel.Model.Stream
/-!
# `Rope` (rope.rs), operation by operation, branch by branch.

`Repr::Light(&str)` / `Repr::Full(Rc<Vec<(&str, usize)>>)`.  Pieces are byte lists; the second
component of a piece is its recorded start offset.
-/
namespace Rs

inductive Rope where
  | light (s : Text)
  | full (ps : List (Text × Nat))
deriving DecidableEq, Repr, Inhabited

namespace Rope

def new : Rope := .light []

/-- the flat string a rope stands for -/
def render : Rope → Text
  | .light s => s
  | .full ps => (ps.map (·.1)).flatten

/-- `data.last().map_or(0, |(chunk, start)| start + chunk.len())` -/
def endOf (ps : List (Text × Nat)) : Nat :=
  match ps.getLast? with
  | some (c, s) => s + c.length
  | none => 0

def len : Rope → Nat
  | .light s => s.length
  | .full ps => endOf ps

def isEmpty : Rope → Bool
  | .light s => s.isEmpty
  | .full ps => ps.all (·.1.isEmpty)

/-- push pieces with running offsets (`for &(chunk, _) in other.iter() { cur.push((chunk, len)); len += chunk.len() }`) -/
def pushAll (acc : List (Text × Nat)) (l : Nat) : List (Text × Nat) → List (Text × Nat)
  | [] => acc
  | (c, _) :: rest => pushAll (acc ++ [(c, l)]) (l + c.length) rest

def add (r : Rope) (v : Text) : Rope :=
  if v.isEmpty then r
  else match r with
    | .light s => .full [(s, 0), (v, s.length)]
    | .full ps => .full (ps ++ [(v, endOf ps)])

def append (r v : Rope) : Rope :=
  match r, v with
  | .light s, .light o => if o.isEmpty then r else .full [(s, 0), (o, s.length)]
  | .full ps, .full os => if os.isEmpty then r else .full (pushAll ps (endOf ps) os)
  | .full ps, .light o => if o.isEmpty then r else .full (ps ++ [(o, endOf ps)])
  | .light s, .full os => if s.isEmpty then .full os else .full (pushAll [(s, 0)] s.length os)

/-- `FromIterator<&str>`: empty pieces are dropped -/
def fromIterGo (l : Nat) : List Text → List (Text × Nat)
  | [] => []
  | c :: cs => if c.isEmpty then fromIterGo l cs else (c, l) :: fromIterGo (l + c.length) cs

def fromIter (cs : List Text) : Rope := .full (fromIterGo 0 cs)

/-! ### `slice::binary_search_by` (the branch-free algorithm of the pinned std) -/

def bsLoop {α} (f : α → Ordering) (xs : List α) (dflt : α) : Nat → Nat → Nat → Nat
  | 0, base, _ => base
  | fuel + 1, base, size =>
    if size > 1 then
      let half := size / 2
      let mid := base + half
      let base' := if f (xs.getD mid dflt) == .gt then base else mid
      bsLoop f xs dflt fuel base' (size - half)
    else base

/-- `Ok i` ↦ `.inl i`, `Err i` ↦ `.inr i` -/
def binSearch {α} [Inhabited α] (f : α → Ordering) (xs : List α) : Nat ⊕ Nat :=
  if xs.length = 0 then .inr 0
  else
    let base := bsLoop f xs default xs.length 0 xs.length
    let c := f (xs.getD base default)
    if c == .eq then .inl base else .inr (base + (if c == .lt then 1 else 0))

/-- `binary_search_by(|(_, start)| start.cmp(&i)).unwrap_or_else(|p| p.saturating_sub(1))` -/
def startChunk (ps : List (Text × Nat)) (i : Nat) : Nat :=
  match binSearch (fun p => compare p.2 i) ps with
  | .inl k => k
  | .inr k => k - 1

/-- `binary_search_by(|(c, start)| (start + c.len()).cmp(&e)).unwrap_or_else(|p| p)` -/
def endChunk (ps : List (Text × Nat)) (e : Nat) : Nat :=
  match binSearch (fun p => compare (p.2 + p.1.length) e) ps with
  | .inl k => k
  | .inr k => k

inductive Trap where
  | index | charBoundary | unsafePre | overflow | unwrap | other
deriving DecidableEq, Repr, Inhabited

/-- `get_byte`: `Except` models the indexing panics -/
def getByte (r : Rope) (i : Nat) : Except Trap (Option UInt8) :=
  if i ≥ r.len then .ok none
  else match r with
    | .light s => match s[i]? with | some b => .ok (some b) | none => .error .index
    | .full ps =>
      let k := startChunk ps i
      match ps[k]? with
      | none => .ok none
      | some (s, st) =>
        if i < st then .error .overflow
        else match s[i - st]? with | some b => .ok (some b) | none => .error .index

inductive SliceErr where
  | reversed | endOOB | startOOB | boundary
deriving DecidableEq, Repr, Inhabited

/-- pieces `[k0 ..= k1]` cut at `a` (first) and `b` (last), as in the `try_for_each` of `get_byte_slice_impl` -/
def sliceGo (ps : List (Text × Nat)) (k0 k1 a b : Nat) : Nat → Nat → Nat → Except SliceErr (List (Text × Nat))
  | 0, _, _ => .ok []
  | n + 1, i, l =>
    match ps[i]? with
    | none => .ok []     -- unreachable under the unsafe precondition (checked separately)
    | some (c, st) =>
      if i = k0 then
        match bget c (a - st) c.length with
        | some x => (sliceGo ps k0 k1 a b n (i + 1) (l + x.length)).map ((x, l) :: ·)
        | none => .error .boundary
      else if i = k1 then
        match bget c 0 (b - st) with
        | some x => (sliceGo ps k0 k1 a b n (i + 1) (l + x.length)).map ((x, l) :: ·)
        | none => .error .boundary
      else (sliceGo ps k0 k1 a b n (i + 1) (l + c.length)).map ((c, l) :: ·)

/-- `get_byte_slice_impl(a..b)` with both bounds given -/
def byteSlice (r : Rope) (a b : Nat) : Except SliceErr Rope :=
  if a > b then .error .reversed
  else if b > r.len then .error .endOOB
  else match r with
    | .light s => match bget s a b with | some x => .ok (.light x) | none => .error .boundary
    | .full ps =>
      if ps.isEmpty then .ok new     -- fix F6
      else
      let k0 := startChunk ps a
      let k1 := endChunk ps b
      if k0 = k1 then
        match ps[k0]? with
        | none => .ok new  -- unsafe precondition violated; recorded by `sliceUnsafeOK`
        | some (c, st) =>
          match bget c (a - st) (b - st) with
          | some x => .ok (.light x)
          | none => .error .boundary
      else if k1 < k0 then .ok new
      else (sliceGo ps k0 k1 a b (k1 + 1 - k0) k0 0).map .full

/-- the precondition of the `get_unchecked(i)` calls in `get_byte_slice_impl` -/
def sliceUnsafeOK (r : Rope) (a b : Nat) : Bool :=
  match r with
  | .light _ => true
  | .full ps =>
    if ps.isEmpty then true else
    let k0 := startChunk ps a
    let k1 := endChunk ps b
    if k0 = k1 then k0 < ps.length else if k1 < k0 then true else k1 < ps.length

def endsWith (r : Rope) (c : UInt8) : Bool :=
  match r with
  | .light s => s.getLast? == some c
  | .full ps =>
    -- the last piece that has text (fix F13: trailing empty pieces are skipped)
    match ps.reverse.find? (fun p => !p.1.isEmpty) with | some (l, _) => l.getLast? == some c | none => false

def toBytes (r : Rope) : Text := r.render

/-! ### `starts_with` -/

def swLightFull : Text → List (Text × Nat) → Bool
  | _, [] => true                                        -- fix F6 (`true`, was `remaining.is_empty()`)
  | rem, (c, _) :: cs => if c.isPrefixOf rem then swLightFull (rem.drop c.length) cs else false

def swFullLight : List (Text × Nat) → Text → Bool
  | [], ro => ro.isEmpty
  | (c, _) :: cs, ro =>
    if ro.isEmpty then true
    else if ro.isPrefixOf c then true
    else if c.isPrefixOf ro then swFullLight cs (ro.drop c.length)
    else false

/-- the `while remaining_other.is_empty()` refill: the next non-empty piece of the argument (fix F14) -/
def nextNonEmpty : List (Text × Nat) → Option (Text × List (Text × Nat))
  | [] => none
  | (c, _) :: os' => if c.isEmpty then nextNonEmpty os' else some (c, os')

/-- Full × Full: compares bytes (fix F6), skipping empty pieces of the argument (fix F14) -/
def swFullFull : Nat → Text → Text → List (Text × Nat) → List (Text × Nat) → Bool
  | 0, _, _, _, _ => false
  | fuel + 1, rs, ro, ss, os =>
    match (if ro.isEmpty then nextNonEmpty os else some (ro, os)) with
    | none => true
    | some (ro, os) =>
      match (if rs.isEmpty then (match ss with | [] => none | (c, _) :: ss' => some (c, ss')) else some (rs, ss)) with
      | none => false
      | some (rs, ss) =>
        let n := min rs.length ro.length
        if rs.take n != ro.take n then false
        else swFullFull fuel (rs.drop n) (ro.drop n) ss os

def startsWith (r v : Rope) : Bool :=
  match r, v with
  | .light s, .light o => o.isPrefixOf s
  | .light s, .full os => swLightFull s os
  | .full ps, .light o => swFullLight ps o
  | .full ps, .full os =>
    swFullFull (2 * (ps.length + os.length) + (ps.map (·.1.length)).sum + (os.map (·.1.length)).sum + 4) [] [] ps os

/-! ### equality -/

/-- the chunk-walking loop of `PartialEq<Rope> for Rope` (bytes, fix F6) -/
def eqLoop : Nat → List Text → Nat → List Text → Nat → Nat → Nat → Except Trap Bool
  | 0, _, _, _, _, _, _ => .ok true
  | fuel + 1, cs, ic, os, io, bi, total =>
    if bi = total then .ok true
    else match cs, os with
      | c :: cs', o :: os' =>
        let cr := c.length - ic
        let orr := o.length - io
        if cr < orr then
          if bsub o io (io + cr) != c.drop ic then .ok false
          else eqLoop fuel cs' 0 (o :: os') (io + cr) (bi + cr) total
        else if cr = orr then
          if c.drop ic != o.drop io then .ok false
          else eqLoop fuel cs' 0 os' 0 (bi + cr) total
        else
          if bsub c ic (ic + orr) != o.drop io then .ok false
          else eqLoop fuel (c :: cs') (ic + orr) os' 0 (bi + orr) total
      | _, _ => .error .index

def pieces : Rope → List Text
  | .light s => [s]
  | .full ps => ps.map (·.1)

def eqRope (a b : Rope) : Except Trap Bool :=
  if a.len != b.len then .ok false
  else match a, b with
    | .light s, .light o => .ok (s == o)
    | _, _ => eqLoop (a.pieces.length + b.pieces.length + 2) a.pieces 0 b.pieces 0 0 a.len

/-- `PartialEq<str>` / `PartialEq<&str>` -/
def eqStrGo : List (Text × Nat) → Text → Nat → Except Trap Bool
  | [], _, _ => .ok true
  | (c, _) :: cs, o, idx =>
    if idx + c.length > o.length then .error .index
    else if c != bsub o idx (idx + c.length) then .ok false
    else eqStrGo cs o (idx + c.length)

def eqStr (r : Rope) (o : Text) : Except Trap Bool :=
  if r.len != o.length then .ok false
  else match r with
    | .light s => .ok (s == o)
    | .full ps => eqStrGo ps o 0

/-! ### `char_indices` -/

/-- decode the UTF-8 scalar starting with lead byte `b` followed by `rest` (valid UTF-8 assumed) -/
def utf8Decode (b : UInt8) (rest : Text) : Nat × Nat :=
  let n := b.toNat
  if n < 128 then (n, 1)
  else if n < 224 then ((n % 32) * 64 + ((rest.getD 0 0).toNat % 64), 2)
  else if n < 240 then ((n % 16) * 4096 + ((rest.getD 0 0).toNat % 64) * 64 + ((rest.getD 1 0).toNat % 64), 3)
  else ((n % 8) * 262144 + ((rest.getD 0 0).toNat % 64) * 4096 + ((rest.getD 1 0).toNat % 64) * 64 + ((rest.getD 2 0).toNat % 64), 4)

/-- `str::char_indices` shifted by `off` -/
def strCharIndices (off : Nat) : Nat → Text → List (Nat × Nat)
  | _, [] => []
  | i, b :: bs =>
    if isCont b then strCharIndices off (i + 1) bs
    else (off + i, (utf8Decode b bs).1) :: strCharIndices off (i + 1) bs

def charIndices : Rope → List (Nat × Nat)
  | .light s => strCharIndices 0 0 s
  | .full ps => (ps.map fun p => strCharIndices p.2 0 p.1).flatten

/-! ### `lines` / `lines_impl` -/

/-! ### `Lines` iterator (rope.rs:546-735), state machine -/

/-- offset (relative to `from_`) of the first line break in `t[from_..]` (`memchr`) -/
def findNL (t : Text) (from_ : Nat) : Option Nat := (t.drop from_).idxOf? NL

structure LSt where
  byteIdx : Nat := 0
  chunkIdx : Nat := 0
  inChunk : Nat := 0
  ended : Bool := false
deriving Repr

/-- the `loop` looking for the end of the line: returns `(end_chunk_idx, end_in_chunk_byte_idx)` -/
def scanNL (chunks : List (Text × Nat)) : Nat → Nat → Nat → Option (Nat × Nat)
  | 0, _, _ => none
  | fuel + 1, ci, ic =>
    match chunks[ci]? with
    | none => none
    | some (c, _) =>
      match findNL c ic with
      | some idx => some (ci, ic + idx + 1)
      | none => scanNL chunks fuel (ci + 1) 0

/-- pieces `[k0 ..= k1]` of a line spanning several chunks -/
def linePieces (chunks : List (Text × Nat)) (k0 start k1 : Nat) (stop : Option Nat) : Nat → Nat → Nat → List (Text × Nat)
  | 0, _, _ => []
  | n + 1, i, l =>
    match chunks[i]? with
    | none => []
    | some (c, _) =>
      let piece := if i = k0 then c.drop start else if i = k1 then (match stop with | some e => c.take e | none => c) else c
      (piece, l) :: linePieces chunks k0 start k1 stop n (i + 1) (l + piece.length)

/-- one call of `Lines::next` on a `Full` rope -/
def linesNextFull (chunks : List (Text × Nat)) (total : Nat) (trailing : Bool) : Nat → LSt → Option (Rope × LSt)
  | 0, _ => none
  | fuel + 1, s =>
    if s.ended then none
    else if s.byteIdx = total then (if trailing then some (.light [], { s with ended := true }) else none)
    else if chunks.isEmpty then none
    else
      let c := (chunks.getD s.chunkIdx ([], 0)).1
      if s.inChunk = c.length ∧ s.chunkIdx < chunks.length - 1 then
        linesNextFull chunks total trailing fuel { s with chunkIdx := s.chunkIdx + 1, inChunk := 0 }
      else
        match scanNL chunks (chunks.length + 1) s.chunkIdx s.inChunk with
        | some (ei, ein) =>
          if s.chunkIdx = ei then
            some (.light (bsub c s.inChunk ein), { s with byteIdx := s.byteIdx + (ein - s.inChunk), inChunk := ein })
          else
            let raw := linePieces chunks s.chunkIdx s.inChunk ei (some ein) (ei + 1 - s.chunkIdx) s.chunkIdx 0
            let len := (raw.map (·.1.length)).sum
            some (.full raw, { s with byteIdx := s.byteIdx + len, chunkIdx := ei, inChunk := ein })
        | none =>
          if chunks.length - s.chunkIdx = 1 then
            some (.light (c.drop s.inChunk), { s with byteIdx := s.byteIdx + (c.length - s.inChunk), ended := true })
          else
            let raw := linePieces chunks s.chunkIdx s.inChunk chunks.length none (chunks.length - s.chunkIdx) s.chunkIdx 0
            let len := (raw.map (·.1.length)).sum
            some (.full raw, { s with byteIdx := s.byteIdx + len, ended := true })

def linesCollectFull (chunks : List (Text × Nat)) (total : Nat) (trailing : Bool) : Nat → LSt → List Rope
  | 0, _ => []
  | fuel + 1, s =>
    match linesNextFull chunks total trailing (chunks.length + 2) s with
    | none => []
    | some (r, s') => r :: linesCollectFull chunks total trailing fuel s'

/-- `Lines::next` on a `Light` rope, collected -/
def linesCollectLight (s : Text) (trailing : Bool) : Nat → Nat → Bool → List Rope
  | 0, _, _ => []
  | fuel + 1, byteIdx, ended =>
    if ended then []
    else if byteIdx = s.length then (if trailing then [.light []] else [])
    else match findNL s byteIdx with
      | some idx => .light (bsub s byteIdx (byteIdx + idx + 1)) :: linesCollectLight s trailing fuel (byteIdx + idx + 1) false
      | none => [.light (s.drop byteIdx)]

/-- every item yielded by `lines_impl(trailing)`, as ropes with their piece structure -/
def linesR (r : Rope) (trailing : Bool) : List Rope :=
  match r with
  | .light s => linesCollectLight s trailing (s.length + 2) 0 false
  | .full ps => linesCollectFull ps (endOf ps) trailing (endOf ps + ps.length + 2) {}

/-! text-level view of `lines`: what the items render to -/
/-- text of every item yielded by `lines_impl(flag)` -/
def lines (r : Rope) (trailing : Bool) : List Text :=
  let t := r.render
  let ls := splitLines t
  if trailing then
    (if t.isEmpty || endsWithNL t then ls ++ [[]] else ls)
  else ls

end Rope
end Rs
