import RsModel.Model.Stream
/-! # Spec: looking a position up in a list of segments -/
namespace Rs

/-- scan the segments in order; the answer is the last one on line `l` at or before column `c`.
`none` = no segment governs the position, `some none` = an unmapped (1-field) segment does. -/
def lookupGo (l c : Nat) : Option (Option Orig) → List Mapping → Option (Option Orig)
  | acc, [] => acc
  | acc, m :: ms => lookupGo l c (if m.gl = l ∧ m.gc ≤ c then some m.orig else acc) ms

/-- original location a source-map consumer finds for generated position `(l, c)` -/
def lookupCols (segs : List Mapping) (l c : Nat) : Option Orig := (lookupGo l c none segs).join

/-- generated positions do not go backwards -/
def sortedFrom : Nat → Nat → List Mapping → Prop
  | _, _, [] => True
  | l, c, m :: ms => (l < m.gl ∨ (l = m.gl ∧ c ≤ m.gc)) ∧ sortedFrom m.gl m.gc ms

/-- `columns = false`: the line's first mapped segment, at (file, line) granularity -/
def lookupLines (segs : List Mapping) (l : Nat) : Option (Nat × Nat) :=
  match segs.find? (fun m => m.gl == l && m.orig.isSome) with
  | some m => m.orig.map fun o => (o.src, o.line)
  | none => none

end Rs
