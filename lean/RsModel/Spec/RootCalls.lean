import RsModel.Model.Tree
/-!
# Spec: the calls an outside caller can make on a CachedSource wrapper, as functions on the cache store

Sequential semantics of `map(columns)` / `stream_chunks(columns)` / `source` / `buffer` / `size` on `CachedSource(inner)` with cache
id `id` (used by the call-history theorems of C10 and, through `Model/ConcV.lean`, by the concurrent protocol of C18).
-/
namespace Rs

/-- the calls an outside caller can make on the wrapper with columns = true -/
inductive RCall where
  | stream
  | map
deriving DecidableEq

inductive RAns where
  | stream (r : SResult)
  | map (m : Option SMap)

def rootKey (id : Nat) : Nat × Opts := (id, ⟨true, false⟩)

def rootCall (id : Nat) (inner : Src) (c : RCall) (σ : Store) : RAns × Store :=
  match c with
  | .stream => (.stream ((Src.cached id inner).stream ⟨true, false⟩ σ).1, ((Src.cached id inner).stream ⟨true, false⟩ σ).2)
  | .map => (.map ((Src.cached id inner).map ⟨true, false⟩ σ).1, ((Src.cached id inner).map ⟨true, false⟩ σ).2)

def runRoot (id : Nat) (inner : Src) : List RCall → Store → List RAns × Store
  | [], σ => ([], σ)
  | c :: cs, σ => ((rootCall id inner c σ).1 :: (runRoot id inner cs (rootCall id inner c σ).2).1, (runRoot id inner cs (rootCall id inner c σ).2).2)

/-- `(columns, kind)` -/
abbrev RCall2 := Bool × RCall

def rootCall2 (id : Nat) (inner : Src) (c : RCall2) (σ : Store) : RAns × Store :=
  match c.2 with
  | .stream => (.stream ((Src.cached id inner).stream ⟨c.1, false⟩ σ).1, ((Src.cached id inner).stream ⟨c.1, false⟩ σ).2)
  | .map => (.map ((Src.cached id inner).map ⟨c.1, false⟩ σ).1, ((Src.cached id inner).map ⟨c.1, false⟩ σ).2)

def runRoot2 (id : Nat) (inner : Src) : List RCall2 → Store → List (RCall2 × RAns) × Store
  | [], σ => ([], σ)
  | c :: cs, σ => ((c, (rootCall2 id inner c σ).1) :: (runRoot2 id inner cs (rootCall2 id inner c σ).2).1, (runRoot2 id inner cs (rootCall2 id inner c σ).2).2)

/-- every call of the property's history alphabet that the model's store distinguishes: `map` / `stream_chunks` with a column setting,
and the text views (which never touch the caches) -/
inductive RCall3 where
  | io (c : RCall2)
  | src
  | buffer
  | size

inductive RAns3 where
  | io (a : RAns)
  | text (t : Text)
  | num (n : Nat)

def rootCall3 (id : Nat) (inner : Src) (c : RCall3) (σ : Store) : RAns3 × Store :=
  match c with
  | .io c2 => (.io (rootCall2 id inner c2 σ).1, (rootCall2 id inner c2 σ).2)
  | .src => (.text (Src.cached id inner).src, σ)
  | .buffer => (.text (Src.cached id inner).buffer, σ)
  | .size => (.num (Src.cached id inner).size, σ)

def runRoot3 (id : Nat) (inner : Src) : List RCall3 → Store → List (RCall3 × RAns3) × Store
  | [], σ => ([], σ)
  | c :: cs, σ => ((c, (rootCall3 id inner c σ).1) :: (runRoot3 id inner cs (rootCall3 id inner c σ).2).1, (runRoot3 id inner cs (rootCall3 id inner c σ).2).2)

end Rs
