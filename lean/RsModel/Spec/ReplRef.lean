import RsModel.Model.Composite
/-! # Spec: the reference replacement model of C05 -/
namespace Rs

/-- apply replacements (already in application order) to `inner`: copy the not-yet-consumed text up
to the replacement's start, emit its content, count everything up to its end as consumed; positions
beyond the end are clamped. `pos` = number of inner bytes consumed so far. -/
def applyGo (inner : Text) : Nat → List Repl → Text
  | pos, [] => inner.drop pos
  | pos, r :: rs =>
    (if pos < r.start then bsub inner pos (min r.start inner.length) else []) ++ r.content ++
      applyGo inner (min (max pos r.stop) inner.length) rs

/-- order of application: (start, end, enforce), ties broken by insertion order — Lean's stable merge sort -/
def applyRepls (inner : Text) (rs : List Repl) : Text := applyGo inner 0 (rs.mergeSort Repl.le)

/-! ## the lazily sorted state of a `ReplaceSource` (replace_source.rs:43-131) -/

structure RState where
  repls : List Repl := []
  /-- `sorted_index` resolved to the replacements it points at -/
  sorted : List Repl := []
  isSorted : Bool := true
deriving Repr

inductive ROp where
  | replace (r : Repl)      -- replace / insert / *_with_enforce: push + `is_sorted = false`
  | observe                 -- source / rope / buffer / size / to_writer / map / hash / debug / stream: `sorted_replacement()`
  | clone                   -- `Clone`: copies replacements, index and flag

/-- `sort_replacement` -/
def RState.sort (s : RState) : RState :=
  if s.isSorted then s else { s with sorted := sortRepls s.repls, isSorted := true }

def RState.step (s : RState) : ROp → RState
  | .replace r => { s with repls := s.repls ++ [r], isSorted := false }
  | .observe => s.sort
  | .clone => s

/-- what `source()` returns in state `s` -/
def RState.source (inner : Text) (s : RState) : Text :=
  let s' := s.sort
  if s'.sorted.isEmpty then inner else specGo 0 inner s'.sorted

def ROp.repl? : ROp → Option Repl
  | .replace r => some r
  | _ => none

end Rs
