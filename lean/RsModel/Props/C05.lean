import RsModel.Lemmas.Replace
/-!
# C05 — ReplaceSource text equals the reference replacement model
-/
namespace Rs

/-- the order in which replacements are applied: (start, end, enforce), ties by insertion order
(Lean's stable `mergeSort`; `List.mergeSort_zipIdx` says breaking ties by index changes nothing) -/
theorem c05_sort (rs : List Repl) : sortRepls rs = rs.mergeSort Repl.le := sortRepls_eq_mergeSort rs

/-- `source()` of a ReplaceSource over inner text `inner` with replacements `rs` (in call order) is the
reference model applied to `inner` -/
theorem c05_source (inner : Text) (rs : List Repl) : replaceSource inner rs = applyRepls inner rs :=
  replaceSource_eq_applyRepls inner rs

/-- history independence: after any sequence of mutating calls, observer calls and clones,
`source()` is the reference model applied to the mutating calls alone -/
theorem c05_history (inner : Text) (ops : List ROp) :
    (ops.foldl RState.step {}).source inner = applyRepls inner (histRepls ops) := by
  have hinit : ({} : RState).Inv := fun _ => rfl
  obtain ⟨h1, h2⟩ := RState.run_inv ops {} hinit
  rw [RState.source_of_inv inner _ h1, h2, replaceSource_eq_applyRepls]
  simp

/-- in particular two histories with the same mutating calls give the same text -/
theorem c05_observers_irrelevant (inner : Text) (ops₁ ops₂ : List ROp) (h : histRepls ops₁ = histRepls ops₂) :
    (ops₁.foldl RState.step {}).source inner = (ops₂.foldl RState.step {}).source inner := by
  rw [c05_history, c05_history, h]

/-! non-vacuity: colliding keys, an observer between two mutators, a clone -/
def c05_r1 : Repl := ⟨1, 2, [88], none, 1⟩
def c05_r2 : Repl := ⟨1, 2, [89], none, 0⟩
example : histRepls [.replace c05_r1, .observe, .replace c05_r2, .clone, .observe] = [c05_r1, c05_r2] := by decide
example : sortRepls [c05_r1, c05_r2] = [c05_r2, c05_r1] := by decide
example : replaceSource [97, 98, 99] [c05_r1, c05_r2] = [97, 89, 88, 99] := by decide

end Rs
