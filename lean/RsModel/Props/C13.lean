import RsModel.Model.Tree
import RsModel.Props.C01
import RsModel.Lemmas.AttrTree
import RsModel.Lemmas.ModeCold
import RsModel.Lemmas.LeavesAttr
import RsModel.Lemmas.ColdStrip
import RsModel.Lemmas.WarmTree
import RsModel.Lemmas.HistoryAnswers
import RsModel.Lemmas.LeavesLines
/-!
# C13 — composition laws: nesting, neutral elements and wrappers change nothing
-/
namespace Rs

theorem SrcList.ofList_append_srcs (a b : List Src) :
    (SrcList.ofList (a ++ b)).srcs = (SrcList.ofList a).srcs ++ (SrcList.ofList b).srcs := by
  induction a with
  | nil => simp [SrcList.ofList, SrcList.srcs]
  | cons x xs ih => simp [SrcList.ofList, SrcList.srcs, ih]

/-- nesting a *typed* ConcatSource is the flat concatenation — the very same value, hence equal under
every observer (text, buffer, map, stream, hash, equality) -/
theorem c13_typed_nesting (as bs : List Src) (cs : List CItem) :
    mkConcat (.typed as :: .typed bs :: cs) = mkConcat (.typed (as ++ bs) :: cs) := by
  simp [mkConcat]

theorem c13_typed_is_flat (as : List Src) (cs : List CItem) :
    mkConcat (.typed as :: cs) = mkConcat (as.map .other ++ cs) := by
  simp only [mkConcat, List.map_cons, List.flatten_cons, List.map_append, List.flatten_append, List.map_map]
  congr 2
  induction as with
  | nil => rfl
  | cons a as ih => simp [ih]

def citemFlat (c : CItem) : List Src := match c with | .typed cs => cs | .other s => [s]

theorem flat_others (l : List Src) : ((l.map CItem.other).map citemFlat).flatten = l := by
  induction l with
  | nil => rfl
  | cons a as ih => simp only [List.map_cons, List.flatten_cons, citemFlat, ih]; rfl

theorem mkConcat_eq (items : List CItem) : mkConcat items = .concat (SrcList.ofList (items.map citemFlat).flatten) := rfl

/-- nesting a *boxed* ConcatSource keeps the text of the flat concatenation -/
theorem c13_boxed_nesting_text (as bs : List Src) :
    (mkConcat [.other (mkConcat (as.map .other)), .other (mkConcat (bs.map .other))]).src
      = (mkConcat ((as ++ bs).map .other)).src := by
  simp only [mkConcat_eq, flat_others, Src.src, List.map_cons, List.map_nil, List.flatten_cons, List.flatten_nil,
    citemFlat, List.singleton_append, SrcList.ofList, SrcList.srcs, List.append_nil]
  rw [SrcList.ofList_append_srcs]

/-- a single-child ConcatSource streams, maps and renders exactly like its child -/
theorem c13_single_child (s : Src) (o : Opts) (σ : Store) :
    (Src.concat (.cons s .nil)).stream o σ = s.stream o σ ∧ (Src.concat (.cons s .nil)).src = s.src
    ∧ (Src.concat (.cons s .nil)).rope = s.rope := by
  refine ⟨by simp [Src.stream], by simp [Src.src, SrcList.srcs], by simp [Src.rope]⟩

/-- a ReplaceSource without replacements has the text and the map of the wrapped source -/
theorem c13_replace_nil (s : Src) (o : Opts) (σ : Store) :
    (Src.replace s []).src = s.src ∧ (Src.replace s []).map o σ = s.map o σ := by
  exact ⟨by simp [Src.src, replaceSource], by simp [Src.map]⟩

/-- a CachedSource has the text, buffer and size of the wrapped source -/
theorem c13_cached_views (id : Nat) (s : Src) :
    (Src.cached id s).src = s.src ∧ (Src.cached id s).buffer = s.buffer ∧ (Src.cached id s).size = s.size :=
  ⟨by simp [Src.src], by simp [Src.buffer], by simp [Src.size]⟩

/-- concatenation with empty sources keeps the text -/
theorem c13_empty_children_text (s : Src) :
    (mkConcat [.other (.raw false [] []), .other s, .other (mkConcat [])]).src = s.src := by
  simp [mkConcat, Src.src, SrcList.ofList, SrcList.srcs]

/-- any two trees with the same `source()` stream the same text, whatever their grouping, wrappers and cache
contents (both are well formed): the text half of every law of this property -/
theorem c13_stream_text_of_src (a b : Src) (c : Bool) (σ σ' : Store) (ha : a.WF) (hb : b.WF) (h : a.src = b.src) :
    evsText (a.stream ⟨c, false⟩ σ).1.evs = evsText (b.stream ⟨c, false⟩ σ').1.evs := by
  rw [(c01 a c σ ha).1, (c01 b c σ' hb).1, h]

/-- boxed nesting streams the text of the flat concatenation -/
theorem c13_boxed_nesting_stream_text (as bs : List Src) (c : Bool) (σ σ' : Store)
    (h1 : (mkConcat [.other (mkConcat (as.map .other)), .other (mkConcat (bs.map .other))]).WF)
    (h2 : (mkConcat ((as ++ bs).map .other)).WF) :
    evsText ((mkConcat [.other (mkConcat (as.map .other)), .other (mkConcat (bs.map .other))]).stream ⟨c, false⟩ σ).1.evs
      = evsText ((mkConcat ((as ++ bs).map .other)).stream ⟨c, false⟩ σ').1.evs :=
  c13_stream_text_of_src _ _ c σ σ' h1 h2 (c13_boxed_nesting_text as bs)

/-! ## boxed nesting and single child, at attribution level (from C06's ConcatSource theorem) -/

/-- a boxed `ConcatSource` used as a child attributes like its children spliced in place -/
theorem c13_boxed_nesting_attribution (cons : Text → Option Text) (as bs : List SResult)
    (ha : ∀ c ∈ as, WellDecl cons emptyS emptyN c.evs ∧ evsTL c.evs = false)
    (hb : ∀ c ∈ bs, WellDecl cons emptyS emptyN c.evs ∧ evsTL c.evs = false) :
    attrN emptyS emptyN (concatStream false (concatStream false as :: bs)).evs
      = attrN emptyS emptyN (concatStream false (as ++ bs)).evs := by
  rw [concatStream_attrN cons (concatStream false as :: bs) (by
        intro c hc
        simp only [List.mem_cons] at hc
        rcases hc with rfl | hc
        · exact ⟨concatStream_wellDecl cons as ha, concatStream_tl as (fun c hc => (ha c hc).2)⟩
        · exact hb c hc),
      concatStream_attrN cons (as ++ bs) (by
        intro c hc
        simp only [List.mem_append] at hc
        rcases hc with hc | hc
        · exact ha c hc
        · exact hb c hc)]
  simp only [List.map_cons, List.flatten_cons, List.map_append, List.flatten_append]
  rw [concatStream_attrN cons as ha]

/-- a ConcatSource of one child attributes like the child -/
theorem c13_single_child_attribution (cons : Text → Option Text) (a : SResult)
    (ha : WellDecl cons emptyS emptyN a.evs ∧ evsTL a.evs = false) :
    attrN emptyS emptyN (concatStream false [a]).evs = attrN emptyS emptyN a.evs := by
  rw [concatStream_attrN cons [a] (by intro c hc; simp only [List.mem_singleton] at hc; subst hc; exact ha)]
  simp

/-- an empty child contributes nothing to the attribution -/
theorem c13_empty_child_attribution (cons : Text → Option Text) (as bs : List SResult) (e : SResult)
    (ha : ∀ c ∈ as, WellDecl cons emptyS emptyN c.evs ∧ evsTL c.evs = false)
    (hb : ∀ c ∈ bs, WellDecl cons emptyS emptyN c.evs ∧ evsTL c.evs = false) (he : e.evs = []) :
    attrN emptyS emptyN (concatStream false (as ++ e :: bs)).evs = attrN emptyS emptyN (concatStream false (as ++ bs)).evs := by
  have hmem : ∀ c ∈ as ++ e :: bs, WellDecl cons emptyS emptyN c.evs ∧ evsTL c.evs = false := by
    intro c hc
    simp only [List.mem_append, List.mem_cons] at hc
    rcases hc with hc | rfl | hc
    · exact ha c hc
    · rw [he]; exact ⟨trivial, rfl⟩
    · exact hb c hc
  have hmem2 : ∀ c ∈ as ++ bs, WellDecl cons emptyS emptyN c.evs ∧ evsTL c.evs = false := by
    intro c hc
    simp only [List.mem_append] at hc
    rcases hc with hc | hc
    · exact ha c hc
    · exact hb c hc
  rw [concatStream_attrN cons _ hmem, concatStream_attrN cons _ hmem2]
  simp [he, attrN]

/-! ## the CachedSource wrapper, first call -/

/-- wrapping a source in a CachedSource whose cache is cold for the option set changes neither the chunk stream nor `map()` -/
theorem c13_cached_cold (id : Nat) (s : Src) (o : Opts) (σ : Store) (h : σ.get? (id, o) = none) :
    ((Src.cached id s).stream o σ).1 = (s.stream o σ).1 ∧ ((Src.cached id s).map o σ).1 = (s.map o σ).1 := by
  simp only [Src.stream, Src.map, h]
  exact ⟨by first | rfl | trivial, by first | rfl | trivial⟩

/-! ## every regrouping at once: only the sequence of leaves matters -/

/-- `leaves` flattens every nesting of ConcatSource (typed or boxed), including single-child wrappers; a child that is an empty
ConcatSource contributes nothing.  **Two ConcatSource trees with the same sequence of leaves attribute every byte alike in the chunk
stream** (file name, content, line, column, name) — for leaves that announce before use with one content per file name (`Src.WD`). -/
theorem c13_same_leaves_stream (cons : Text → Option Text) (a b : Src) (ha : Src.WD cons true a) (hb : Src.WD cons true b)
    (h : a.leaves = b.leaves) (σ : Store) : a.attr true σ = b.attr true σ :=
  attr_same_leaves cons a b ha hb h σ

/-- … **and through `map()`**: resolving every position of the (common) text through the two SourceMaps and their own tables gives
the same file name, original line, original column and name (columns = true; chain C03 ∘ C06) -/
theorem c13_same_leaves_map (cons : Text → Option Text) (a b : Src) (ha : Src.WD cons true a) (hb : Src.WD cons true b) (h : a.leaves = b.leaves)
    (hma : a.ModeHypC) (hmb : b.ModeHypC) (hsrc : a.src = b.src) (final : Bool)
    (hsa : ∀ m ∈ chunkMs (a.stream ⟨true, true⟩ []).1.evs, m.small) (hsb : ∀ m ∈ chunkMs (b.stream ⟨true, true⟩ []).1.evs, m.small)
    (sma smb : SMap) (h1 : (getMap a ⟨true, final⟩ []).1 = some sma) (h2 : (getMap b ⟨true, final⟩ []).1 = some smb) :
    (attrFrom (decode sma.mappings) startPos a.src).map (Option.map (resolveMF sma))
      = (attrFrom (decode smb.mappings) startPos a.src).map (Option.map (resolveMF smb)) :=
  map_same_leaves cons a b ha hb h hma hmb hsrc final hsa hsb sma smb h1 h2

/-- non-vacuity: boxed nesting, a single-child wrapper and an empty ConcatSource child leave the sequence of leaves unchanged -/
example : (Src.concat (.cons (.concat (.cons (.orig [97] [102]) (.cons (.rawStr [59]) .nil))) (.cons (.concat .nil) (.cons (.concat (.cons (.orig [98] [103]) .nil)) .nil)))).leaves
    = (Src.concat (.cons (.orig [97] [102]) (.cons (.rawStr [59]) (.cons (.orig [98] [103]) .nil)))).leaves := by
  simp [Src.leaves, SrcList.leavesL]

/-- **ReplaceSource nodes may sit below the regrouped ConcatSources**: a ReplaceSource over a well-declared cache-free tree whose
attached maps reference existing entries is itself a well-declared leaf, so `c13_same_leaves_stream` / `c13_same_leaves_map` apply to trees
whose leaves are Raw / Original / SourceMapSource / ReplaceSource(…) in any grouping -/
theorem c13_replace_leaf (cons : Text → Option Text) (inner : Src) (rs : List Repl) (hw : Src.WD cons true inner) (hi : inner.IdxHyp) :
    Src.WD cons true (.replace inner rs) := Src.wd_replace cons inner rs hw hi

/-- non-vacuity: `Concat[Replace(Original "a;b" f, [(0,1,"X")]), Concat[Raw ";"]]` and its flat regrouping are in the domain -/
example : Src.WD (fun _ => some [97, 59, 98]) true
      (Src.concat (.cons (.replace (.orig [97, 59, 98] [102]) [⟨0, 1, [88], none, 1⟩]) (.cons (.concat (.cons (.rawStr [59]) .nil)) .nil)))
    ∧ (Src.concat (.cons (.replace (.orig [97, 59, 98] [102]) [⟨0, 1, [88], none, 1⟩]) (.cons (.concat (.cons (.rawStr [59]) .nil)) .nil))).leaves
      = (Src.concat (.cons (.replace (.orig [97, 59, 98] [102]) [⟨0, 1, [88], none, 1⟩]) (.cons (.rawStr [59]) .nil))).leaves := by
  refine ⟨⟨Src.wd_replace _ _ _ rfl trivial, ⟨trivial, trivial⟩, trivial⟩, ?_⟩
  simp [Src.leaves, SrcList.leavesL]


/-- **CachedSource wrappers on cold caches change nothing, at any depth and in any number**: streams (every mode), `get_map` and
text of the tree equal those of the tree without the wrappers -/
theorem c13_cached_cold_any_depth (s : Src) (o : Opts) (σ : Store) (hn : s.ids.Nodup) (hc : Cold σ s.ids) :
    (s.stream o σ).1 = (s.strip.stream o []).1 ∧ (getMap s o σ).1 = (getMap s.strip o []).1 ∧ s.src = s.strip.src :=
  ⟨Src.stream_strip s o σ hn hc, getMap_strip s o σ hn hc, (Src.strip_src s).symm⟩


/-- **every regrouping at once, at name level, for any leaves**: two trees with the same sequence of leaves — whatever the leaves are
(SourceMapSource with any map whose indices lie inside its tables, with or without inner map; ReplaceSource nodes; raw; original)
and however ConcatSource groups them (typed or boxed, single-child wrappers, empty ConcatSources) — resolve every byte of the
stream to the same file name, original line, original column and name.  No "one content per file name" is needed
(`c13_same_leaves_stream` compares the embedded contents as well and needs it). -/
theorem c13_same_leaves_names (a b : Src) (ha : a.NoCached) (hb : b.NoCached) (ia : a.IdxHyp) (ib : b.IdxHyp) (h : a.leaves = b.leaves) :
    NA (a.stream ⟨true, false⟩ []).1.evs = NA (b.stream ⟨true, false⟩ []).1.evs :=
  NA_same_leaves a b ha hb ia ib h

/-- … and with CachedSource wrappers on cold caches anywhere in the two trees (strip them first: `c13_cached_cold_any_depth`) -/
theorem c13_same_leaves_names_cold (a b : Src) (σa σb : Store) (hna : a.ids.Nodup) (hnb : b.ids.Nodup) (hca : Cold σa a.ids) (hcb : Cold σb b.ids)
    (ia : a.strip.IdxHyp) (ib : b.strip.IdxHyp) (h : a.strip.leaves = b.strip.leaves) :
    NA (a.stream ⟨true, false⟩ σa).1.evs = NA (b.stream ⟨true, false⟩ σb).1.evs := by
  rw [Src.stream_strip a _ σa hna hca, Src.stream_strip b _ σb hnb hcb]
  exact NA_same_leaves _ _ (Src.strip_nc a) (Src.strip_nc b) ia ib h

/-- **… and on warm caches, after arbitrary call histories**: `a` and `b` have the same sequence of leaves once their CachedSource
wrappers are taken off (any grouping by ConcatSource nodes, CachedSource wrappers at any depth and in any number, none beneath a
ReplaceSource), each on its own caches, cold at the start, and each is observed through its OWN history of streaming / `get_map`
calls — any lengths, any option orders.  Any normal-mode stream (columns = true) of `a`'s history and any of `b`'s history resolve
every byte to the same file name, original line, original column and name.  `c10_every_history_stream` ∘ `c13_same_leaves_names`
on the cache-free forms. -/
theorem c13_same_leaves_every_history (a b : Src) (σa σb : Store) (hna : a.ids.Nodup) (hnb : b.ids.Nodup)
    (hca : Cold σa a.ids) (hcb : Cold σb b.ids) (hka : a.NoCR) (hkb : b.NoCR) (hwa : a.WarmHyp) (hwb : b.WarmHyp)
    (ia : a.strip.IdxHyp) (ib : b.strip.IdxHyp) (h : a.strip.leaves = b.strip.leaves)
    (callsA callsB : List Opts) (ka kb : Nat) (h1 : callsA[ka]? = some ⟨true, false⟩) (h2 : callsB[kb]? = some ⟨true, false⟩) :
    ∃ ra rb, (runCalls a callsA σa).1[ka]? = some ra ∧ (runCalls b callsB σb).1[kb]? = some rb ∧ NA ra.evs = NA rb.evs := by
  obtain ⟨ra, a1, a2⟩ := history_stream_NA a hka hna σa hca hwa callsA ka h1
  obtain ⟨rb, b1, b2⟩ := history_stream_NA b hkb hnb σb hcb hwb callsB kb h2
  exact ⟨ra, rb, a1, b1, by rw [a2, b2]; exact NA_same_leaves _ _ (Src.strip_nc a) (Src.strip_nc b) ia ib h⟩

/-! ## columns = false -/

/-- **every regrouping at once, columns = false, for any leaves**: two cache-free trees with the same sequence of leaves, however
ConcatSource groups them, resolve every byte of the normal-mode stream with columns = false to the same file name, original line,
column and name — and hence the first mapped chunk of every generated line to the same file name and original line. -/
theorem c13_same_leaves_lines (a b : Src) (ha : a.NoCached) (hb : b.NoCached) (ia : a.IdxHyp) (ib : b.IdxHyp)
    (wa : a.WF) (wb : b.WF) (pa : a.PosHyp false) (pb : b.PosHyp false) (h : a.leaves = b.leaves) :
    NA (a.stream ⟨false, false⟩ []).1.evs = NA (b.stream ⟨false, false⟩ []).1.evs
    ∧ ∀ L, LNameOf (a.stream ⟨false, false⟩ []).1.evs L = LNameOf (b.stream ⟨false, false⟩ []).1.evs L :=
  ⟨NA_same_leaves' false a b ha hb ia ib h, lname_same_leaves a b ha hb ia ib wa wb pa pb h⟩

/-- **… and with CachedSource wrappers, after arbitrary call histories** (columns = false, file and line granularity): `a` and `b`
have the same sequence of leaves once their CachedSource wrappers are taken off, each is observed through its own history; any
normal-mode stream with columns = false of the one and of the other resolve the first mapped chunk of every generated line to the
same file name and original line. -/
theorem c13_same_leaves_every_history_lines (a b : Src) (σa σb : Store) (hna : a.ids.Nodup) (hnb : b.ids.Nodup)
    (hca : Cold σa a.ids) (hcb : Cold σb b.ids) (hka : a.NoCR) (hkb : b.NoCR)
    (wa : a.WF) (wb : b.WF) (pa : a.PosHyp false) (pb : b.PosHyp false) (hwa : a.WarmHypL) (hwb : b.WarmHypL)
    (ia : a.strip.IdxHyp) (ib : b.strip.IdxHyp) (h : a.strip.leaves = b.strip.leaves)
    (callsA callsB : List Opts) (ka kb : Nat) (h1 : callsA[ka]? = some ⟨false, false⟩) (h2 : callsB[kb]? = some ⟨false, false⟩) :
    ∃ ra rb, (runCalls a callsA σa).1[ka]? = some ra ∧ (runCalls b callsB σb).1[kb]? = some rb
      ∧ ∀ L, LNameOf ra.evs L = LNameOf rb.evs L := by
  obtain ⟨ra, a1, a2⟩ := history_stream_lname a hka hna σa hca wa pa hwa callsA ka h1
  obtain ⟨rb, b1, b2⟩ := history_stream_lname b hkb hnb σb hcb wb pb hwb callsB kb h2
  refine ⟨ra, rb, a1, b1, fun L => ?_⟩
  rw [a2 L, b2 L]
  exact lname_same_leaves _ _ (Src.strip_nc a) (Src.strip_nc b) ia ib (Src.strip_wf a wa) (Src.strip_wf b wb)
    (Src.strip_posHyp false a pa) (Src.strip_posHyp false b pb) h L

/-! ## the boundary: a ReplaceSource with only empty replacements refines columns (known finding K2) -/

/-- `ReplaceSource(OriginalSource("ab", "f"))` with the empty string inserted at 1 -/
def k2Witness : Src := .replace (.orig [97, 98] [102]) [⟨1, 1, [], none, 1⟩]

/-- **"a ReplaceSource with only empty replacements behaves exactly like the wrapped source" fails at column granularity** (known
finding K2; replayed against the crate on every run: `corpus/C13/k2-wrappers.case`): the text is the wrapped text, but the chunk is split at
the insertion point and — the recorded content spelling the chunk — the second piece reports the original column advanced to the
split: byte 1 resolves to column 1 instead of the wrapped source's column 0 (same file, line and name). -/
theorem c13_k2_witness :
    k2Witness.src = (Src.orig [97, 98] [102]).src
    ∧ NA (k2Witness.stream ⟨true, false⟩ []).1.evs = [some ⟨some [102], 1, 0, none⟩, some ⟨some [102], 1, 1, none⟩]
    ∧ NA ((Src.orig [97, 98] [102]).stream ⟨true, false⟩ []).1.evs = [some ⟨some [102], 1, 0, none⟩, some ⟨some [102], 1, 0, none⟩] := by
  refine ⟨by decide +kernel, by decide +kernel, by decide +kernel⟩

end Rs
