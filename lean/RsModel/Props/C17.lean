import RsModel.Lemmas.Vlq
/-!
# C17 — no input in the documented domain makes the library panic or hang

Termination: every model function is accepted by Lean's termination checker (structural recursion over
the input list, or explicit fuel bounded by the input size), so the modelled loops cannot hang.
The theorems below are about the decoder's arithmetic on *every* byte string.
-/
namespace Rs

/-- `(current_data[k] as i64 + final_value) as u32` always lands in the `u32` range -/
theorem c17_addField_u32 (cur v : Nat) : addField cur v < 2 ^ 32 := by
  unfold addField
  have h : (0 : Int) ≤ ((cur : Int) + finalValue v) % 2 ^ 32 := Int.emod_nonneg _ (by decide)
  have h2 : ((cur : Int) + finalValue v) % 2 ^ 32 < 2 ^ 32 := Int.emod_lt_of_pos _ (by decide)
  omega

/-- all five running fields stay within `u32` -/
def DecSt.Bounded (s : DecSt) : Prop :=
  s.d0 < 2 ^ 32 ∧ s.d1 < 2 ^ 32 ∧ s.d2 < 2 ^ 32 ∧ s.d3 < 2 ^ 32 ∧ s.d4 < 2 ^ 32

theorem setField_bounded (s : DecSt) (v : Nat) (h : s.Bounded) : (s.setField v).Bounded := by
  obtain ⟨h0, h1, h2, h3, h4⟩ := h
  unfold DecSt.setField DecSt.Bounded
  refine ⟨?_, ?_, ?_, ?_, ?_⟩ <;> (simp only; split <;> first | exact c17_addField_u32 _ _ | assumption)

/-- one decoder step on an arbitrary byte keeps the fields in range (no state can make it trap) -/
theorem c17_decByte_bounded (s : DecSt) (c : UInt8) (h : s.Bounded) : (decByte s c).1.Bounded := by
  unfold decByte
  simp only
  split
  · exact h
  · split
    · split
      · obtain ⟨_, h1, h2, h3, h4⟩ := h; exact ⟨by show (0 : Nat) < 2 ^ 32; omega, h1, h2, h3, h4⟩
      · exact h
    · split
      · exact setField_bounded s _ h
      · exact h

theorem c17_decBytes_bounded : ∀ (bs : Text) (s : DecSt), s.Bounded → (decBytes s bs).1.Bounded := by
  intro bs
  induction bs with
  | nil => intro s h; exact h
  | cons c cs ih => intro s h; exact ih _ (c17_decByte_bounded s c h)

/-- on *every* byte string the decoder ends in a state whose fields fit `u32` -/
theorem c17_decode_total (bs : Text) : (decBytes decInitSt bs).1.Bounded := by
  apply c17_decBytes_bounded
  rw [decInit_eq]
  exact ⟨by decide, by decide, by decide, by decide, by decide⟩

/-- non-vacuity: a long run of continuation digits (the input that used to overflow the shift) -/
example : (decBytes decInitSt (List.replicate 14 103 ++ [65])).1.dataPos = 1 := by decide

end Rs
