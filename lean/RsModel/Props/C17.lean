import RsModel.Lemmas.Vlq
import RsModel.Lemmas.TrapsTree
/-!
# C17 — no input in the documented domain makes the library panic or hang

Termination: every model function is accepted by Lean's termination checker (structural recursion over
the input list, or explicit fuel bounded by the input size), so the modelled loops cannot hang.
The first group of theorems is about the decoder's arithmetic on *every* byte string.  The second group (`Model/Checked.lean`,
`Lemmas/Traps*.lean`) restates the streaming code with every partial operation of the Rust *checked* — `v[i]`, `u32`/`usize`
subtraction and `+= 1` under overflow checks, `&s[a..b]` on a `str` — so that the checked function is `none` exactly where the Rust
would panic, and proves that on the documented domain it is `some` of what the total model computes: no site can fire.  Which
sites exist is read off the source (each carries its line number in `Checked.lean`); the checked functions are executable and
the driver answers `stream` / `src` requests through them (`trap` when `none`), so they are compared with the crate on every run.
-/
namespace Rs

/-- `(current_data[k] as i64 + final_value) as u32` always lands in the `u32` range -/
theorem c17_addField_u32 (cur v : Nat) : addField cur v < 2 ^ 32 := by
  unfold addField
  have h : (0 : Int) ≤ ((cur : Int) + finalValue v) % 2 ^ 32 := Int.emod_nonneg _ (by decide)
  have h2 : ((cur : Int) + finalValue v) % 2 ^ 32 < 2 ^ 32 := Int.emod_lt_of_pos _ (by decide)
  omega

/-- all five running fields stay within `u32` -/
def DecSt.Bounded (s : DecSt) : Prop :=
  s.d0 < 2 ^ 32 ∧ s.d1 < 2 ^ 32 ∧ s.d2 < 2 ^ 32 ∧ s.d3 < 2 ^ 32 ∧ s.d4 < 2 ^ 32

theorem setField_bounded (s : DecSt) (v : Nat) (h : s.Bounded) : (s.setField v).Bounded := by
  obtain ⟨h0, h1, h2, h3, h4⟩ := h
  unfold DecSt.setField DecSt.Bounded
  refine ⟨?_, ?_, ?_, ?_, ?_⟩ <;> (simp only; split <;> first | exact c17_addField_u32 _ _ | assumption)

/-- one decoder step on an arbitrary byte keeps the fields in range (no state can make it trap) -/
theorem c17_decByte_bounded (s : DecSt) (c : UInt8) (h : s.Bounded) : (decByte s c).1.Bounded := by
  unfold decByte
  simp only
  split
  · exact h
  · split
    · split
      · obtain ⟨_, h1, h2, h3, h4⟩ := h; exact ⟨by show (0 : Nat) < 2 ^ 32; omega, h1, h2, h3, h4⟩
      · exact h
    · split
      · exact setField_bounded s _ h
      · exact h

theorem c17_decBytes_bounded : ∀ (bs : Text) (s : DecSt), s.Bounded → (decBytes s bs).1.Bounded := by
  intro bs
  induction bs with
  | nil => intro s h; exact h
  | cons c cs ih => intro s h; exact ih _ (c17_decByte_bounded s c h)

/-- on *every* byte string the decoder ends in a state whose fields fit `u32` -/
theorem c17_decode_total (bs : Text) : (decBytes decInitSt bs).1.Bounded := by
  apply c17_decBytes_bounded
  rw [decInit_eq]
  exact ⟨by decide, by decide, by decide, by decide, by decide⟩

/-- non-vacuity: a long run of continuation digits (the input that used to overflow the shift) -/
example : (decBytes decInitSt (List.replicate 14 103 ++ [65])).1.dataPos = 1 := by decide

/-! ## streaming and `source()`: no checked site can fire -/

/-- **the four map-driven splitters cannot panic, whatever the map**: for every text (below 4 GiB − 2) and every SourceMap whose
`mappings` string is below 4 GiB — segments unsorted or sorted, outside the text, source and name indices outside the tables,
any `sourceRoot` — in both column settings and both modes every checked site (the `line_with_indices_list[current_generated_line
- 1]` / `lines[current_generated_line as usize - 1]` accesses, the `u32` `- 1` and `+= 1`, `len() - 1`, `result.generated_line
- 1`, `mapping.generated_line + 1`) succeeds and the result is the total model's. -/
theorem c17_splitters_total (t : Text) (sm : SMap) (o : Opts) (ht : t.length + 2 < 2 ^ 32) (hm : sm.mappings.length + 1 < 2 ^ 32) :
    Chk.streamSMC t sm o = some (streamSM t sm o) :=
  Chk.streamSMC_total t sm o ht hm

/-- the raw stream (`line += 1`, `line - 1`) -/
theorem c17_raw_total (t : Text) (o : Opts) (ht : t.length + 1 < 2 ^ 32) : Chk.streamRawC t o = some (streamRaw t o) :=
  Chk.streamRawC_total t o ht

/-- **`OriginalSource::stream_chunks` cannot panic** (`line += 1`, `column += token.len() as u32`, `line - 1`), every text below
4 GiB — multi-byte included —, all four modes: the `u32` counters stay below the text length plus one (`Lemmas/TrapsOrig.lean`) -/
theorem c17_original_total (t name : Text) (o : Opts) (ht : t.length + 1 < 2 ^ 32) :
    Chk.streamOriginalC t name o = some (streamOriginal t name o) :=
  Chk.streamOriginalC_total t name o ht

/-- **`source()` of every tree cannot panic** when each replacement position is on a char boundary of the text it edits or beyond
its end (`Src.ReplDom`; multi-byte text, any order, overlap, `end < start`): every `&inner[a..b]` of the splice, evaluated with
`str::get`'s rule, succeeds. -/
theorem c17_source_total (s : Src) (h : s.ReplDom) : s.srcC = some s.src := Src.srcC_eq s h

/-- **streaming a tree without CachedSource cannot trap in the checked parts** (raw leaves, map-driven leaves at any depth
under ConcatSource / ReplaceSource), any store, with (`ovf = true`, a build with overflow checks: ConcatSource's `u32` bookkeeping
checked) or without overflow checks; `streamC` runs ConcatSource with the crate's saturating column addition (fix F16),
and `s.NoSat o` says no ConcatSource node of the tree overflows or saturates.  PARTIAL: the combined-map lookup and
the position bookkeeping of ReplaceSource are not restated in checked form (they pass through the total model; K4 lives there). -/
theorem c17_tree_stream_total_partial (ovf : Bool) (s : Src) (o : Opts) (σ : Store) (hn : s.NoCached) (h : s.SizeOK) (hs : s.NoSat o) :
    s.streamC ovf o σ = some (s.stream o σ) := Src.streamC_eq ovf s o σ hn h hs

/-- **ConcatSource cannot trap and is the model's ConcatSource** on children that report true positions (C02) and whose texts
total less than 2 GiB: the checked stream — `mapping.generated_line + current_line_offset`, `current_line_offset + 1`,
`current_column_offset += generated_column`, `current_line_offset += generated_line - 1` as partial `u32` operations, the chunk
column with the crate's `saturating_add` (fix F16) — succeeds and equals the unbounded model every other theorem is about -/
theorem c17_concat_total (final : Bool) (cs : List SResult) (hp : ∀ c ∈ cs, PosOK c ∧ evsTL c.evs = false)
    (hlen : 2 * Chk.sumText cs + 2 < 2 ^ 32) : Chk.concatStreamC final cs = some (concatStream final cs) :=
  Chk.concatStreamC_eq_of_posOK final cs hp hlen

/-- the saturating form alone (no hypothesis on lines) -/
theorem c17_concat_saturation_free (final : Bool) (cs : List SResult) (hp : ∀ c ∈ cs, PosOK c ∧ evsTL c.evs = false)
    (hlen : 2 * Chk.sumText cs < 2 ^ 32) : Chk.concatStreamS final cs = concatStream final cs :=
  Chk.concatStreamS_eq_of_posOK final cs hp hlen

/-- **normal mode, trees in the domain of C02**: the checked tree stream — checked splitters, the crate's saturating ConcatSource —
is the model's stream: nothing traps and nothing saturates -/
theorem c17_tree_stream_total_normal (ovf : Bool) (s : Src) (c : Bool) (σ : Store) (hn : s.NoCached) (hsz : s.SizeOK) (hw : s.WF)
    (hp : s.PosHyp c) (hh : s.HalfOK) : s.streamC ovf ⟨c, false⟩ σ = some (s.stream ⟨c, false⟩ σ) :=
  Src.streamC_eq ovf s ⟨c, false⟩ σ hn hsz (Src.noSat_normal s c hn hw hp hh)

/-- … and it does differ beyond `u32` (a chunk at column `u32::MAX` behind a one-byte sibling) -/
example : Chk.concatStreamS false [⟨[.chunk (some [97]) ⟨1, 0, none⟩], ⟨1, 1⟩⟩, ⟨[.chunk (some []) ⟨1, 4294967295, none⟩], ⟨1, 1⟩⟩]
    ≠ concatStream false [⟨[.chunk (some [97]) ⟨1, 0, none⟩], ⟨1, 1⟩⟩, ⟨[.chunk (some []) ⟨1, 4294967295, none⟩], ⟨1, 1⟩⟩] := by decide

/-- … and a CachedSource answering from its cache replays whatever map an earlier call stored through the same splitters -/
theorem c17_cached_replay_total (ovf : Bool) (id : Nat) (inner : Src) (o : Opts) (σ : Store) (x : Option SMap) (hx : σ.get? (id, o) = some x)
    (hlen : inner.src.length + 2 < 2 ^ 32) (hm : ∀ m, x = some m → m.mappings.length + 1 < 2 ^ 32) :
    (Src.cached id inner).streamC ovf o σ = some ((Src.cached id inner).stream o σ) :=
  Src.cached_replayC_eq ovf id inner o σ x hx hlen hm

/-- the checked functions do trap outside the domain (so the theorems are not vacuous): a replacement inside `é`, … -/
example : Chk.replaceSourceC [195, 169] [⟨1, 1, [120], none, 1⟩] = none := by decide
/-- … and a closure state that `current_generated_line ≥ 1` rules out -/
example : Chk.smStep1C [[97]] { line := 0, active := true } ⟨1, 0, none⟩ = none := by decide
/-- a wild map on a two-line text: segment on line 7, column 40, source 9, name 9 -/
example : (Chk.streamSMFullC [97, 10, 98] { mappings := [77, 65, 65, 65, 59, 59, 59, 59, 59, 59, 119, 67, 83, 65, 65, 83], sources := [], sourcesContent := [], names := [] }).isSome = true := by
  decide

end Rs
