import RsModel.Model.Stream
import RsModel.Lemmas.AttrSM
import RsModel.Lemmas.ModeLeaves
import RsModel.Lemmas.LinesSM
import RsModel.Lemmas.SMNames
import RsModel.Lemmas.AttrConcat
/-!
# C08 — a SourceMapSource reproduces the attribution of the map it was given
(declared tables and `sourceRoot` handling; the splitter attribution itself is tied by correspondence)
-/
namespace Rs

/-- `sourceRoot` is applied in exactly three ways: absent or empty → unchanged, ending in '/' → prefixed,
otherwise → prefixed with a '/' in between -/
theorem c08_apply_root (root source : Text) :
    applyRoot none source = source ∧ applyRoot (some []) source = source
    ∧ (root ≠ [] → root.getLast? = some 47 → applyRoot (some root) source = root ++ source)
    ∧ (root ≠ [] → root.getLast? ≠ some 47 → applyRoot (some root) source = root ++ [47] ++ source) := by
  refine ⟨rfl, rfl, ?_, ?_⟩
  · intro h1 h2
    cases root with
    | nil => exact absurd rfl h1
    | cons a as => simp [applyRoot, h2]
  · intro h1 h2
    cases root with
    | nil => exact absurd rfl h1
    | cons a as =>
      have : ((a :: as).getLast? == some 47) = false := by simpa using h2
      simp [applyRoot, this]

/-- the sources announced are exactly those of the map, in order, with `sourceRoot` applied and with the
map's `sourcesContent` entry (absent when the map has none for that index) -/
theorem c08_declared_sources (m : SMap) :
    (smSourceEvs m).length = m.sources.length ∧
    ∀ i, i < m.sources.length →
      (smSourceEvs m)[i]? = some (.source i (applyRoot m.sourceRoot (m.sources.getD i [])) (m.sourcesContent[i]?)) := by
  constructor
  · simp [smSourceEvs]
  · intro i hi
    simp [smSourceEvs, hi]

/-- the names announced are exactly those of the map, in order -/
theorem c08_declared_names (m : SMap) :
    (smNameEvs m).length = m.names.length ∧
    ∀ i, i < m.names.length → (smNameEvs m)[i]? = some (.name i (m.names.getD i [])) := by
  constructor
  · simp [smNameEvs]
  · intro i hi
    simp [smNameEvs, hi]

/-- the user-defined source served by `stream_chunks_default` takes the very same code path -/
theorem c08_custom_source (t : Text) (m : SMap) (o : Opts) : streamDefault t (some m) o = streamSM t m o := rfl

example : applyRoot (some [114]) [97] = [114, 47, 97] := by decide


/-- **C08, columns = true**: streaming a SourceMapSource (no inner map) built from an ASCII text `T` and a map `M` whose segments are
sorted and lie inside `T` attributes *every byte* of `T` — through the `orig` of the chunk that covers it — to exactly the original
location (source index, line, column, name index) that looking the byte's position up in `M` gives ("greatest segment at or before
the position on that line"; unmapped 1-field segments, several segments per line or per position, empty lines, maps covering only
part of `T` and zero-width segments at the end of a line included).  Together with `c08_declared_sources` / `c08_declared_names`
(the indices are announced exactly as `M` declares them, `sourceRoot` applied) this is the attribution clause of the property. -/
theorem c08_attribution (t : Text) (sm : SMap) (ha : IsAscii t) (hl : t.length ≤ USIZE_MAX) (hsorted : sortedFrom 1 0 (decode sm.mappings))
    (hseg : ∀ m ∈ decode sm.mappings, SegOK (splitLines t) (adv startPos t).line (adv startPos t).col m) :
    attrOf (streamSM t sm ⟨true, false⟩).evs = attrFrom (decode sm.mappings) startPos t :=
  streamSMFull_attr t sm ha hl hsorted hseg

/-- non-vacuity: `"ab;cd\nef"` with `AAAA,GAAG;AACA`: the hypotheses hold and the middle segment attributes `cd` -/
example : let t : Text := [97, 98, 59, 99, 100, 10, 101, 102]
    sortedFrom 1 0 (decode [65, 65, 65, 65, 44, 71, 65, 65, 71, 59, 65, 65, 67, 65])
    ∧ (∀ m ∈ decode [65, 65, 65, 65, 44, 71, 65, 65, 71, 59, 65, 65, 67, 65], SegOK (splitLines t) (adv startPos t).line (adv startPos t).col m)
    ∧ attrFrom (decode [65, 65, 65, 65, 44, 71, 65, 65, 71, 59, 65, 65, 67, 65]) startPos t
        = [some ⟨0, 1, 0, none⟩, some ⟨0, 1, 0, none⟩, some ⟨0, 1, 0, none⟩, some ⟨0, 1, 3, none⟩, some ⟨0, 1, 3, none⟩, some ⟨0, 1, 3, none⟩,
           some ⟨0, 2, 3, none⟩, some ⟨0, 2, 3, none⟩] := by
  intro t
  have hdec : decode [65, 65, 65, 65, 44, 71, 65, 65, 71, 59, 65, 65, 67, 65]
      = [⟨1, 0, some ⟨0, 1, 0, none⟩⟩, ⟨1, 3, some ⟨0, 1, 3, none⟩⟩, ⟨2, 0, some ⟨0, 2, 3, none⟩⟩] := by decide
  rw [hdec]
  refine ⟨by simp [sortedFrom], ?_, by decide⟩
  intro m hm
  simp only [List.mem_cons, List.not_mem_nil, or_false] at hm
  rcases hm with rfl | rfl | rfl <;> exact ⟨⟨by decide, fun _ => by decide⟩, fun _ => by decide, by decide⟩


/-! ## the text-less (final_source) variant, columns = true -/

/-- **C08, columns = true, final_source = true**: in the text-less stream (what `map()` of the source itself and of every
enclosing source consumes) the chunk mappings, read as segments, resolve the position of *every character* of `T` to exactly what
looking that position up in `M` gives.  Segments at or beyond the end of `T` are not delivered; an unmapped segment is delivered
only after a mapped one on its line — neither changes any lookup.  Only sortedness of `M` is needed. -/
theorem c08_final_attribution (t : Text) (sm : SMap) (hs : sortedFrom 1 0 (decode sm.mappings)) :
    ∀ j, j < t.length →
      lookupCols (chunkMs (streamSM t sm ⟨true, true⟩).evs) (adv startPos (t.take j)).line (adv startPos (t.take j)).col
        = lookupCols (decode sm.mappings) (adv startPos (t.take j)).line (adv startPos (t.take j)).col :=
  streamSMFinal_lookEq t sm hs

/-- text-less and normal stream of a SourceMapSource attribute every character alike (columns = true) -/
theorem c08_modes_agree (t : Text) (sm : SMap) (ha : IsAscii t) (hl : t.length ≤ USIZE_MAX) (hs : sortedFrom 1 0 (decode sm.mappings))
    (hseg : ∀ m ∈ decode sm.mappings, SegOK (splitLines t) (adv startPos t).line (adv startPos t).col m) :
    LookEq t (chunkMs (streamSM t sm ⟨true, true⟩).evs) (chunkMs (streamSM t sm ⟨true, false⟩).evs) :=
  streamSM_lookEq t sm ha hl hs hseg


/-! ## columns = false: (file, line) granularity, first mapped segment of each line, names dropped -/

/-- **C08, columns = false, both modes**: for every generated line `L` of the text, the first mapped chunk the splitter delivers on
`L` points to the source index and original line of the first mapped segment of `M` on `L` — and no chunk on `L` is mapped when
`M` has no mapped segment there; for every sorted map, whatever its columns. -/
theorem c08_lines (t : Text) (sm : SMap) (final : Bool) (hs : sortedFrom 1 0 (decode sm.mappings)) (L : Nat) (h1 : 1 ≤ L) (hL : L ≤ (splitLines t).length) :
    lookupLines (chunkMs (streamSM t sm ⟨false, final⟩).evs) L = lookupLines (decode sm.mappings) L := by
  cases final
  · exact streamSMLinesFull_lines t sm hs L h1 hL
  · exact streamSMLinesFinal_lines t sm hs L h1 hL

/-- … and names are dropped -/
theorem c08_lines_no_names (t : Text) (sm : SMap) (final : Bool) :
    ∀ m ∈ chunkMs (streamSM t sm ⟨false, final⟩).evs, ∀ o, m.orig = some o → o.name = none :=
  smLines_noNames t sm final


/-! ## name level, and through an enclosing ConcatSource -/

/-- **C08 at name level** (columns = true, normal mode): every byte of the stream of a SourceMapSource resolves — through the
sources and names the stream itself announces — to the file name with `sourceRoot` applied, the file's content, the original line
and column and the name that looking the byte's position up in `M` and resolving the indices through `M`'s own tables gives -/
theorem c08_names (t : Text) (sm : SMap) (ha : IsAscii t) (hl : t.length ≤ USIZE_MAX) (hsorted : sortedFrom 1 0 (decode sm.mappings))
    (hseg : ∀ m ∈ decode sm.mappings, SegOK (splitLines t) (adv startPos t).line (adv startPos t).col m) (hidx : MapIdxOK sm) :
    attrN emptyS emptyN (streamSM t sm ⟨true, false⟩).evs = (attrFrom (decode sm.mappings) startPos t).map (Option.map (resolveSM sm)) :=
  streamSM_attrN t sm ha hl hsorted hseg hidx

/-- **… and through an enclosing ConcatSource**: in the stream of a ConcatSource whose children are `pre`, the SourceMapSource,
and `post` (any streams, each announcing before use, one content per file name), the bytes contributed by the SourceMapSource are
attributed — file name, content, line, column, name — exactly as looking their positions up in `M` gives, and the bytes of the
other children as those children attribute them.  (C06 ∘ `c08_names`; `map()` of the ConcatSource then resolves them alike: C03,
`getMap_names`.) -/
theorem c08_through_concat (cons : Text → Option Text) (pre post : List SResult) (t : Text) (sm : SMap)
    (ha : IsAscii t) (hl : t.length ≤ USIZE_MAX) (hsorted : sortedFrom 1 0 (decode sm.mappings))
    (hseg : ∀ m ∈ decode sm.mappings, SegOK (splitLines t) (adv startPos t).line (adv startPos t).col m) (hidx : MapIdxOK sm)
    (hwd : ∀ c ∈ pre ++ [streamSM t sm ⟨true, false⟩] ++ post, WellDecl cons emptyS emptyN c.evs ∧ evsTL c.evs = false) :
    attrN emptyS emptyN (concatStream false (pre ++ [streamSM t sm ⟨true, false⟩] ++ post)).evs
      = (pre.map fun c => attrN emptyS emptyN c.evs).flatten
        ++ (attrFrom (decode sm.mappings) startPos t).map (Option.map (resolveSM sm))
        ++ (post.map fun c => attrN emptyS emptyN c.evs).flatten := by
  rw [concatStream_attrN cons _ hwd]
  simp only [List.map_append, List.map_cons, List.map_nil, List.flatten_append, List.flatten_cons, List.flatten_nil, List.append_nil]
  rw [streamSM_attrN t sm ha hl hsorted hseg hidx]

end Rs
