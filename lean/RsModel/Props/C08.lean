import RsModel.Model.Stream
/-!
# C08 — a SourceMapSource reproduces the attribution of the map it was given
(declared tables and `sourceRoot` handling; the splitter attribution itself is tied by correspondence)
-/
namespace Rs

/-- `sourceRoot` is applied in exactly three ways: absent or empty → unchanged, ending in '/' → prefixed,
otherwise → prefixed with a '/' in between -/
theorem c08_apply_root (root source : Text) :
    applyRoot none source = source ∧ applyRoot (some []) source = source
    ∧ (root ≠ [] → root.getLast? = some 47 → applyRoot (some root) source = root ++ source)
    ∧ (root ≠ [] → root.getLast? ≠ some 47 → applyRoot (some root) source = root ++ [47] ++ source) := by
  refine ⟨rfl, rfl, ?_, ?_⟩
  · intro h1 h2
    cases root with
    | nil => exact absurd rfl h1
    | cons a as => simp [applyRoot, h2]
  · intro h1 h2
    cases root with
    | nil => exact absurd rfl h1
    | cons a as =>
      have : ((a :: as).getLast? == some 47) = false := by simpa using h2
      simp [applyRoot, this]

/-- the sources announced are exactly those of the map, in order, with `sourceRoot` applied and with the
map's `sourcesContent` entry (absent when the map has none for that index) -/
theorem c08_declared_sources (m : SMap) :
    (smSourceEvs m).length = m.sources.length ∧
    ∀ i, i < m.sources.length →
      (smSourceEvs m)[i]? = some (.source i (applyRoot m.sourceRoot (m.sources.getD i [])) (m.sourcesContent[i]?)) := by
  constructor
  · simp [smSourceEvs]
  · intro i hi
    simp [smSourceEvs, hi]

/-- the names announced are exactly those of the map, in order -/
theorem c08_declared_names (m : SMap) :
    (smNameEvs m).length = m.names.length ∧
    ∀ i, i < m.names.length → (smNameEvs m)[i]? = some (.name i (m.names.getD i [])) := by
  constructor
  · simp [smNameEvs]
  · intro i hi
    simp [smNameEvs, hi]

/-- the user-defined source served by `stream_chunks_default` takes the very same code path -/
theorem c08_custom_source (t : Text) (m : SMap) (o : Opts) : streamDefault t (some m) o = streamSM t m o := rfl

example : applyRoot (some [114]) [97] = [114, 47, 97] := by decide

end Rs
