import RsModel.Lemmas.CodecLookup
import RsModel.Lemmas.Replay
import RsModel.Lemmas.PosTree
import RsModel.Lemmas.ModeTree2
import RsModel.Lemmas.ModeMap
import RsModel.Lemmas.ModeCold
import RsModel.Lemmas.NameLevel
import RsModel.Lemmas.LinesTree
import RsModel.Lemmas.WarmMap
import RsModel.Lemmas.HistoryAnswers
import RsModel.Lemmas.WarmLinesF
/-!
# C03 — `map()` attributes every position exactly as the chunk stream does
(T1 of DESIGN: the codec step of the chain.)
-/
namespace Rs

/-- T1: what `get_map` encodes and a consumer decodes attributes every position as the encoded
final-mode stream did -/
theorem c03_codec_step (ms : List Mapping) (hs : ∀ m ∈ ms, m.small) (h : sortedFrom 1 0 ms) (l c : Nat) :
    lookupCols (decode (encodeFull ms)) l c = lookupCols ms l c := by
  rw [decode_encode ms hs ?_]
  · unfold lookupCols
    exact kept_lookupGo l c ms {} none none h ⟨rfl, fun _ => rfl, fun _ => rfl, fun _ => rfl, fun h => by simp at h⟩
  · have : ∀ (ms : List Mapping) (l c : Nat), sortedFrom l c ms → linesOK l ms := by
      intro ms
      induction ms with
      | nil => intros; trivial
      | cons m ms ih => intro l c ⟨h1, h2⟩; exact ⟨by omega, ih _ _ h2⟩
    exact this ms 1 0 h


/-- **T2: map built from a stream ⇒ same attribution.**  For any stream `r` that honours the stream contract (true positions, tokens,
texts present — C02, `ChunksTok`, C01), resolving every position of the text through the SourceMap that `get_map` builds from `r`
("greatest segment at or before the position on that line") gives exactly the original location of the chunk that covers the
position; and when `get_map` returns no map, no byte of the stream is mapped. -/
theorem c03_map_of_stream (r : SResult) (hp : PosOK r) (hT : ChunksTok r.evs) (hTL : evsTL r.evs = false)
    (hsmall : ∀ m ∈ chunkMs r.evs, m.small) :
    (∀ sm, mapOfEvs true r.evs = some sm → attrFrom (decode sm.mappings) startPos (evsText r.evs) = attrOf r.evs)
    ∧ (mapOfEvs true r.evs = none → attrOf r.evs = List.replicate (evsText r.evs).length none) := by
  have hsorted : sortedFrom 1 0 (chunkMs r.evs) := chunkMs_sorted r.evs [] hp.1 hTL
  constructor
  · intro sm hm
    rw [mapOfEvs_mappings _ sm hm, ← attr_of_stream r hp hT hTL]
    apply attrFrom_congr
    intro q _ _
    exact c03_codec_step _ hsmall hsorted q.line q.col
  · intro hm
    have := replay_none r hp hT hTL hsmall (mapOfEvs_none _ hm)
    rw [← this]
    simp only [streamRaw, Bool.false_eq_true, if_false, rawChunks_eq, attrOf_lineEvs_none, splitLines_join]

/-- **C03 for a ReplaceSource** (columns = true).  `map()` of a ReplaceSource with replacements is `get_map` over the very stream an
outside caller obtains (it always streams its inner source in normal mode), so by T2 its map resolves every position of `source()`
to the original location of the streamed chunk covering it, for every inner tree in the domain of C02. -/
theorem c03_replace (inner : Src) (rs : List Repl) (σ : Store) (hne : rs ≠ [])
    (hw : (Src.replace inner rs).WF) (hp : (Src.replace inner rs).PosHyp true) (hn : (Src.replace inner rs).ids.Nodup)
    (hs : StoreHyp true σ (Src.replace inner rs).cachedNodes)
    (hsmall : ∀ m ∈ chunkMs ((Src.replace inner rs).stream ⟨true, false⟩ σ).1.evs, m.small) :
    ((Src.replace inner rs).map ⟨true, false⟩ σ).1 = mapOfEvs true ((Src.replace inner rs).stream ⟨true, false⟩ σ).1.evs
    ∧ (∀ sm, ((Src.replace inner rs).map ⟨true, false⟩ σ).1 = some sm →
        attrFrom (decode sm.mappings) startPos (Src.replace inner rs).src = attrOf ((Src.replace inner rs).stream ⟨true, false⟩ σ).1.evs) := by
  have he : rs.isEmpty = false := by cases rs <;> simp_all
  have hmap : ((Src.replace inner rs).map ⟨true, false⟩ σ).1 = mapOfEvs true ((Src.replace inner rs).stream ⟨true, false⟩ σ).1.evs := by
    simp only [Src.map, he, Bool.false_eq_true, if_false, getMap, Src.stream]
  refine ⟨hmap, fun sm hsm => ?_⟩
  rw [hmap] at hsm
  have hpos := Src.stream_posOK (.replace inner rs) true σ hw hp hn hs
  have := (c03_map_of_stream _ hpos (Src.stream_tok _ true σ) (Src.stream_tl _ true σ) hsmall).1 sm hsm
  rw [Src.stream_text _ true σ hw] at this
  exact this


/-! ## T3: `map()` is built from the text-less stream — and that stream attributes like the normal one -/

/-- **T3** (columns = true): for every tree of Raw / Original / SourceMapSource leaves (ASCII text, sorted map inside the text;
*with or without an inner map* — for the combinator the outer map's positions have to increase strictly, `InnerHyp`) under
ConcatSource and ReplaceSource nodes to any depth (`ModeHyp`; no CachedSource), the text-less stream
that `map()` consumes (i) is sorted by generated position, (ii) announces exactly the sources and names the normal stream
announces, in the same order, and (iii) resolves the position of every character of `source()` — last chunk mapping on that line
at or before the column — to the same original location as the normal stream an outside caller obtains. -/
theorem c03_modes (s : Src) (h : s.ModeHyp) :
    sortedFrom 1 0 (chunkMs (s.stream ⟨true, true⟩ []).1.evs)
    ∧ declsOf (s.stream ⟨true, true⟩ []).1.evs = declsOf (s.stream ⟨true, false⟩ []).1.evs
    ∧ LookEq s.src (chunkMs (s.stream ⟨true, true⟩ []).1.evs) (chunkMs (s.stream ⟨true, false⟩ []).1.evs) :=
  ⟨(Src.m3 s h).sorted, (Src.m3 s h).decls, (Src.m3 s h).look⟩

/-- **C03 for every such tree whose `map()` is `get_map`** (OriginalSource, ConcatSource, ReplaceSource roots; columns = true):
resolving every position of `source()` through the returned SourceMap gives exactly the original location carried by the chunk
that covers the position in the normal-mode stream, and no map is returned exactly when no streamed chunk is mapped.
Chain: T1 (codec) ∘ T3 (modes) ∘ `attr_of_stream` (C02 + tokens). `small` = values below 2³¹ (the codec's domain). -/
theorem c03_tree (s : Src) (h : s.ModeHyp) (final : Bool) (hsmall : ∀ m ∈ chunkMs (s.stream ⟨true, true⟩ []).1.evs, m.small) :
    (∀ sm, (getMap s ⟨true, final⟩ []).1 = some sm → attrFrom (decode sm.mappings) startPos s.src = attrOf (s.stream ⟨true, false⟩ []).1.evs)
    ∧ ((getMap s ⟨true, final⟩ []).1 = none → attrOf (s.stream ⟨true, false⟩ []).1.evs = List.replicate s.src.length none) :=
  getMap_attr s h final hsmall

/-- `map()` of a ConcatSource or an OriginalSource is `get_map` -/
theorem c03_map_is_getMap (cs : SrcList) (t name : Text) (o : Opts) (σ : Store) :
    (Src.concat cs).map o σ = getMap (.concat cs) o σ ∧ (Src.orig t name).map o σ = getMap (.orig t name) o σ := ⟨rfl, rfl⟩

/-- non-vacuity: a ConcatSource of an OriginalSource, raw text and a SourceMapSource (map `AAAA` on "ab") is in the domain -/
example : (Src.concat (.cons (.orig [120, 59, 10, 121] [102]) (.cons (.rawStr [59]) (.cons
    (.sms [97, 98] [103] (SMap.mk [65, 65, 65, 65] [[104]] [] [] none none none) none none false) .nil)))).ModeHyp := by
  have hdec : decode [65, 65, 65, 65] = [⟨1, 0, some ⟨0, 1, 0, none⟩⟩] := by decide
  refine ⟨trivial, trivial, ⟨trivial, by decide, by decide, ?_, ?_, ?_⟩, trivial⟩
  · rw [hdec]; exact ⟨Or.inr ⟨rfl, Nat.le_refl _⟩, trivial⟩
  · intro m hm
    rw [hdec] at hm
    simp only [List.mem_singleton] at hm
    subst hm
    exact ⟨⟨by decide, fun _ => by decide⟩, fun _ => by decide, by decide⟩
  · intro m hm o ho
    rw [hdec] at hm
    simp only [List.mem_singleton] at hm
    subst hm
    simp only [Option.some.injEq] at ho
    subst ho
    exact ⟨by decide, fun k hk => by cases hk⟩


/-- non-vacuity for the combinator: a SourceMapSource *with an inner map* (both maps `AAAA`) is in the domain, and its `get_map` result
is the one-segment map of the composed attribution -/
example : (Src.sms [97, 98] [103] (SMap.mk [65, 65, 65, 65] [[103]] [] [] none none none) (some [120, 121])
    (some (SMap.mk [65, 65, 65, 65] [[104]] [] [] none none none)) false).ModeHyp := by
  have hdec : decode [65, 65, 65, 65] = [⟨1, 0, some ⟨0, 1, 0, none⟩⟩] := by decide
  have hidx : ∀ (srcs : List Text), srcs.length = 1 → MapIdxOK (SMap.mk [65, 65, 65, 65] srcs [] [] none none none) := by
    intro srcs hl m hm o ho
    simp only [hdec, List.mem_singleton] at hm
    subst hm
    simp only [Option.some.injEq] at ho
    subst ho
    exact ⟨by simp only [hl]; decide, fun k hk => by cases hk⟩
  refine ⟨⟨?_, hidx _ rfl⟩, by decide, by decide, ?_, ?_, hidx _ rfl⟩
  · simp only [hdec]; exact List.pairwise_singleton _ _
  · rw [hdec]; exact ⟨Or.inr ⟨rfl, Nat.le_refl _⟩, trivial⟩
  · intro m hm
    rw [hdec] at hm
    simp only [List.mem_singleton] at hm
    subst hm
    exact ⟨⟨by decide, fun _ => by decide⟩, fun _ => by decide, by decide⟩

/-! ## … including CachedSource nodes, on cold caches -/

/-- **C03 with CachedSource nodes** (columns = true): the same statement for trees that also contain CachedSource nodes
(`ModeHypC`), for a call that finds the caches of the tree's CachedSource nodes cold (`Cold`; distinct nodes own distinct caches,
`Nodup`) — whatever else the two stores hold: `get_map` resolves every position of `source()` to the original location of the
chunk covering it in the stream an outside caller obtains (itself on cold caches).  Warm caches are C10's business (and K5). -/
theorem c03_tree_cached (s : Src) (h : s.ModeHypC) (hn : s.ids.Nodup) (σF σN : Store) (hcF : Cold σF s.ids) (hcN : Cold σN s.ids) (final : Bool)
    (hsmall : ∀ m ∈ chunkMs (s.stream ⟨true, true⟩ σF).1.evs, m.small) :
    (∀ sm, (getMap s ⟨true, final⟩ σF).1 = some sm → attrFrom (decode sm.mappings) startPos s.src = attrOf (s.stream ⟨true, false⟩ σN).1.evs)
    ∧ ((getMap s ⟨true, final⟩ σF).1 = none → attrOf (s.stream ⟨true, false⟩ σN).1.evs = List.replicate s.src.length none) :=
  getMap_attrC s h hn σF σN hcF hcN final hsmall

/-- on cold caches the stream of a tree does not depend on what else the store holds -/
theorem c03_cold_store_irrelevant (s : Src) (o : Opts) (σ σ' : Store) (hn : s.ids.Nodup) (hc : Cold σ s.ids) (hc' : Cold σ' s.ids) :
    (s.stream o σ).1 = (s.stream o σ').1 := Src.stream_cold s o σ σ' hn hc hc'


/-! ## the statement of the property itself: file *names*, lines, columns and *names* -/

/-- **C03, name level** (columns = true): for every tree in the domain (all node kinds except the combinator; CachedSource nodes on
cold caches), resolving the position of every character of `source()` through the SourceMap returned by `get_map` — greatest
segment at or before the position on its line, then the map's own `sources` and `names` tables — gives the same original file
name, line, column and name as the chunk that covers the position in the stream an outside caller obtains resolves to through
the announcements of that stream (`attrN`); positions the stream leaves unmapped resolve to nothing. -/
theorem c03_names (s : Src) (h : s.ModeHypC) (hn : s.ids.Nodup) (σF σN : Store) (hcF : Cold σF s.ids) (hcN : Cold σN s.ids) (final : Bool)
    (hsmall : ∀ m ∈ chunkMs (s.stream ⟨true, true⟩ σF).1.evs, m.small) (sm : SMap) (hm : (getMap s ⟨true, final⟩ σF).1 = some sm) :
    (attrFrom (decode sm.mappings) startPos s.src).map (Option.map (resolveMF sm))
      = (attrN emptyS emptyN (s.stream ⟨true, false⟩ σN).1.evs).map (Option.map RLoc.toN) :=
  getMap_names s h hn σF σN hcF hcN final hsmall sm hm


/-! ## columns = false -/

/-- **C03, columns = false** ("the line's first mapped segment", compared at (file, original line) granularity): for every tree of
the domain (`ModeHypL`: all node kinds except the combinator; sorted leaf maps; CachedSource nodes on cold caches) and every
generated line, the first mapped segment of the SourceMap `get_map` returns points to the same source index and original line as
the first mapped chunk on that line of the stream an outside caller obtains; the sources are announced alike (`c03_lines_decls`),
so the index is the same file.  Chain: lines-only codec (C12) ∘ text-less = normal per line (`Src.m3l`; for ConcatSource only the
line offsets and the index translation matter — unmapped closing mappings play no role). -/
theorem c03_lines (s : Src) (h : s.ModeHypL) (hn : s.ids.Nodup) (σF σN : Store) (hcF : Cold σF s.ids) (hcN : Cold σN s.ids) (final : Bool)
    (hsmall : ∀ m ∈ chunkMs (s.stream ⟨false, true⟩ σF).1.evs, ∀ o, m.orig = some o → o.src < U31 ∧ o.line < U31)
    (sm : SMap) (hm : (getMap s ⟨false, final⟩ σF).1 = some sm) (L : Nat) (hL : 0 < L) :
    lookupLines (decode sm.mappings) L = lookupLines (chunkMs (s.stream ⟨false, false⟩ σN).1.evs) L :=
  getMap_lines s h hn σF σN hcF hcN final hsmall sm hm L hL

theorem c03_lines_decls (s : Src) (h : s.ModeHypL) (hn : s.ids.Nodup) (σF σN : Store) (hcF : Cold σF s.ids) (hcN : Cold σN s.ids) :
    declsOf (s.stream ⟨false, true⟩ σF).1.evs = declsOf (s.stream ⟨false, false⟩ σN).1.evs :=
  (Src.m3l s h hn σF σN hcF hcN).decls


/-- **`map()` twice on a tree with warm caches** (columns = true): `s` is a tree of the domain of C03 with CachedSource nodes at any
depth and in any number (none beneath a ReplaceSource — K5), on cold caches.  The first `get_map` stores, in every CachedSource, the
map built from its subtree's text-less stream; the second `get_map` finds those entries, and every outermost CachedSource replays its
text through the stored map.  Resolving every position of `source()` through the second map and its own `sources` / `names` tables
gives the same file name, original line, original column and name as through the first.  Chain: C03 name level on the cold tree
(`getMap_names`) ∘ the second call is the stream of the replay tree (`Src.stream_fills`, `Src.stream_warm`) ∘ the replay tree is in
the domain of C03 (`stored_map_ok`: a stored map is sorted, inside its text, with indices inside its tables) ∘ C03 name level on the
replay tree ∘ the replay of a subtree attributes like the subtree (C08 name level `streamSM_attrN` ∘ C03 on the subtree) ∘
ConcatSource composes at name level (`concatStream_NA`).  Mapping values below 2³¹ (`SmallF`, `hsmall*`: the codec's domain). -/
theorem c03_map_twice_warm (s : Src) (σ : Store) (h : s.ModeHypC) (hk : s.CachedOK) (hs : s.SmallF) (hn : s.ids.Nodup) (hc : Cold σ s.ids)
    (f1 f2 : Bool)
    (hsmall1 : ∀ m ∈ chunkMs (s.stream ⟨true, true⟩ σ).1.evs, m.small)
    (hsmall2 : ∀ m ∈ chunkMs ((s.warm ⟨true, true⟩).stream ⟨true, true⟩ []).1.evs, m.small)
    (sm1 sm2 : SMap) (h1 : (getMap s ⟨true, f1⟩ σ).1 = some sm1) (h2 : (getMap s ⟨true, f2⟩ (getMap s ⟨true, f1⟩ σ).2).1 = some sm2) :
    (attrFrom (decode sm2.mappings) startPos s.src).map (Option.map (resolveMF sm2))
      = (attrFrom (decode sm1.mappings) startPos s.src).map (Option.map (resolveMF sm1)) :=
  getMap_twice s σ h hk hs hn hc f1 f2 hsmall1 hsmall2 sm1 sm2 h1 h2

/-- **C03 over every call history** (columns = true): in any history of streaming and `get_map` calls on a tree with CachedSource
nodes (none beneath a ReplaceSource), of any length and in any order of options, starting on cold caches — ANY normal-mode stream
`k₁` of the history and the map built by ANY `get_map` `k₂` of the history attribute every byte of `source()` alike: to the same
file name, original line, original column and name (each through its own tables).  `c10_every_history` ∘ the two-call theorems. -/
theorem c03_every_history (s : Src) (hk : s.NoCR) (hn : s.ids.Nodup) (σ : Store) (hc : Cold σ s.ids) (h : s.ModeHypC) (hs : s.SmallF)
    (hw : s.WarmHyp)
    (hsmall1 : ∀ m ∈ chunkMs (s.strip.stream ⟨true, true⟩ []).1.evs, m.small)
    (hsmall2 : ∀ m ∈ chunkMs ((s.warm ⟨true, true⟩).stream ⟨true, true⟩ []).1.evs, m.small)
    (calls : List Opts) (k1 k2 : Nat) (hc1 : calls[k1]? = some ⟨true, false⟩) (hc2 : calls[k2]? = some ⟨true, true⟩) :
    ∃ r1 r2, (runCalls s calls σ).1[k1]? = some r1 ∧ (runCalls s calls σ).1[k2]? = some r2 ∧ ∀ sm, mapOfEvs true r2.evs = some sm →
      (attrFrom (decode sm.mappings) startPos s.src).map (Option.map (resolveMF sm)) = NA r1.evs := by
  obtain ⟨r1, a1, a2⟩ := history_stream_NA s hk hn σ hc hw calls k1 hc1
  obtain ⟨r2, b1, b2⟩ := history_map_NA s hk hn σ hc h hs hsmall1 hsmall2 calls k2 hc2
  exact ⟨r1, r2, a1, b1, fun sm hsm => by rw [b2 sm hsm, a2]⟩

/-- **C03 over every call history, columns = false** (file and line granularity): in any history of streaming and `get_map` calls on
a tree with CachedSource nodes (none beneath a ReplaceSource), starting on cold caches — ANY normal-mode stream `k₁` with
columns = false and the map of ANY `get_map(columns = false)` `k₂` of the history resolve every generated line `L ≥ 1` alike: the
line's first mapped segment of the map (through the map's `sources`) names the same file and original line as the first mapped
chunk on `L` of the stream (through the stream's announcements). -/
theorem c03_every_history_lines (s : Src) (hk : s.NoCR) (hn : s.ids.Nodup) (σ : Store) (hc : Cold σ s.ids) (h : s.ModeHypL) (hs : s.SmallFL)
    (hw : s.WarmHypL)
    (hsmall1 : ∀ m ∈ chunkMs (s.strip.stream ⟨false, true⟩ []).1.evs, ∀ o, m.orig = some o → o.src < U31 ∧ o.line < U31)
    (hsmall2 : ∀ m ∈ chunkMs ((s.warm ⟨false, true⟩).stream ⟨false, true⟩ []).1.evs, ∀ o, m.orig = some o → o.src < U31 ∧ o.line < U31)
    (calls : List Opts) (k1 k2 : Nat) (hc1 : calls[k1]? = some ⟨false, false⟩) (hc2 : calls[k2]? = some ⟨false, true⟩) :
    ∃ r1 r2, (runCalls s calls σ).1[k1]? = some r1 ∧ (runCalls s calls σ).1[k2]? = some r2 ∧ ∀ sm, mapOfEvs false r2.evs = some sm →
      ∀ L, 0 < L → LNameM sm L = LNameOf r1.evs L := by
  obtain ⟨hwf, hp, _⟩ := Src.modeHypL_base s h
  obtain ⟨r1, a1, a2⟩ := history_stream_lname s hk hn σ hc hwf hp hw calls k1 hc1
  obtain ⟨r2, b1, b2⟩ := history_map_lname s hk hn σ hc h hs hsmall1 hsmall2 calls k2 hc2
  exact ⟨r1, r2, a1, b1, fun sm hsm L hL => by rw [b2 sm hsm L hL, a2 L]⟩

/-! ## the boundary: `map()` of a SourceMapSource is its attached map, verbatim (known finding K1) -/

/-- `SourceMapSource("a", "f")` with an attached map that has a source but no segment -/
def k1Witness : Src := .sms [97] [102] ⟨[], [[120]], [], [], none, none, none⟩ none none false

/-- **"`map()` returns no map exactly when no streamed chunk is mapped" fails for a SourceMapSource without inner map** (known
finding K1; the same witness is replayed against the crate on every run: `corpus/C03/k1.case`): `map()` returns the attached map
although the stream delivers one chunk, unmapped.  The theorems of C03 are therefore stated for `get_map` (every other node kind's
`map()`), not for this shortcut. -/
theorem c03_k1_witness :
    (k1Witness.map ⟨true, false⟩ []).1.isSome = true
    ∧ chunkMs (k1Witness.stream ⟨true, false⟩ []).1.evs = [⟨1, 0, none⟩]
    ∧ (getMap k1Witness ⟨true, false⟩ []).1 = none := by
  refine ⟨by decide +kernel, by decide +kernel, by decide +kernel⟩

end Rs
