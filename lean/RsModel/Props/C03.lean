import RsModel.Lemmas.CodecLookup
/-!
# C03 — `map()` attributes every position exactly as the chunk stream does
(T1 of DESIGN: the codec step of the chain.)
-/
namespace Rs

/-- T1: what `get_map` encodes and a consumer decodes attributes every position as the encoded
final-mode stream did -/
theorem c03_codec_step (ms : List Mapping) (hs : ∀ m ∈ ms, m.small) (h : sortedFrom 1 0 ms) (l c : Nat) :
    lookupCols (decode (encodeFull ms)) l c = lookupCols ms l c := by
  rw [decode_encode ms hs ?_]
  · unfold lookupCols
    exact kept_lookupGo l c ms {} none none h ⟨rfl, fun _ => rfl, fun _ => rfl, fun _ => rfl, fun h => by simp at h⟩
  · have : ∀ (ms : List Mapping) (l c : Nat), sortedFrom l c ms → linesOK l ms := by
      intro ms
      induction ms with
      | nil => intros; trivial
      | cons m ms ih => intro l c ⟨h1, h2⟩; exact ⟨by omega, ih _ _ h2⟩
    exact this ms 1 0 h

end Rs
