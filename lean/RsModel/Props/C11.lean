import RsModel.Lemmas.Codec
/-!
# C11 — produced source maps and chunk streams are well-formed
-/
namespace Rs

def isMapChar (b : UInt8) : Bool := Generated.b64Chars.contains b || b == COMMA || b == SEMI

theorem b64At_isMapChar : ∀ d, d < 64 → isMapChar (b64At d) = true := by decide +kernel

theorem vlqChars_charset (a b : Nat) : ∀ x ∈ vlqChars a b, isMapChar x = true := by
  intro x hx
  simp only [vlqChars, List.mem_map] at hx
  obtain ⟨d, hd, rfl⟩ := hx
  exact b64At_isMapChar d (vlqDigits_lt _ d hd)

theorem encFields_charset (e : EncSt) (m : Mapping) : ∀ x ∈ encFields e m, isMapChar x = true := by
  intro x hx
  rw [encFields_eq] at hx
  unfold encFields' at hx
  simp only [List.mem_append] at hx
  rcases hx with hx | hx
  · exact vlqChars_charset _ _ x hx
  · cases ho : m.orig with
    | none => simp [ho] at hx
    | some o =>
      simp only [ho, List.mem_append] at hx
      rcases hx with ((hx | hx) | hx) | hx
      · exact vlqChars_charset _ _ x hx
      · exact vlqChars_charset _ _ x hx
      · exact vlqChars_charset _ _ x hx
      · cases hn : o.name with
        | none => simp [hn] at hx
        | some n => simp only [hn] at hx; exact vlqChars_charset _ _ x hx

/-- the mappings string written by the full encoder consists of base64 characters, ',' and ';' only -/
theorem c11_encode_charset (ms : List Mapping) : ∀ e, ∀ x ∈ encodeFrom e ms, isMapChar x = true := by
  induction ms with
  | nil => intro e x hx; simp [encodeFrom] at hx
  | cons m ms ih =>
    intro e x hx
    simp only [encodeFrom] at hx
    split at hx
    · exact ih e x hx
    · simp only [List.mem_append] at hx
      rcases hx with (hx | hx) | hx
      · unfold encSep at hx
        split at hx
        · simp only [List.mem_replicate] at hx; rw [hx.2]; decide
        · split at hx
          · simp at hx
          · simp at hx; rw [hx]; decide
      · exact encFields_charset e m x hx
      · exact ih _ x hx

end Rs
