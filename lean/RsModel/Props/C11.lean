import RsModel.Lemmas.Codec
import RsModel.Lemmas.DeclMap
import RsModel.Lemmas.ModeCold
import RsModel.Lemmas.StrictIn
import RsModel.Lemmas.StrictOrder
import RsModel.Lemmas.LinesTree
import RsModel.Lemmas.ReplaceOrig
import RsModel.Lemmas.WarmStrict
import RsModel.Lemmas.ProvWarm
import RsModel.Lemmas.WarmLinesF
import RsModel.Lemmas.HistoryDecl
/-!
# C11 — produced source maps and chunk streams are well-formed
-/
namespace Rs

def isMapChar (b : UInt8) : Bool := Generated.b64Chars.contains b || b == COMMA || b == SEMI

theorem b64At_isMapChar : ∀ d, d < 64 → isMapChar (b64At d) = true := by decide +kernel

theorem vlqChars_charset (a b : Nat) : ∀ x ∈ vlqChars a b, isMapChar x = true := by
  intro x hx
  simp only [vlqChars, List.mem_map] at hx
  obtain ⟨d, hd, rfl⟩ := hx
  exact b64At_isMapChar d (vlqDigits_lt _ d hd)

theorem encFields_charset (e : EncSt) (m : Mapping) : ∀ x ∈ encFields e m, isMapChar x = true := by
  intro x hx
  rw [encFields_eq] at hx
  unfold encFields' at hx
  simp only [List.mem_append] at hx
  rcases hx with hx | hx
  · exact vlqChars_charset _ _ x hx
  · cases ho : m.orig with
    | none => simp [ho] at hx
    | some o =>
      simp only [ho, List.mem_append] at hx
      rcases hx with ((hx | hx) | hx) | hx
      · exact vlqChars_charset _ _ x hx
      · exact vlqChars_charset _ _ x hx
      · exact vlqChars_charset _ _ x hx
      · cases hn : o.name with
        | none => simp [hn] at hx
        | some n => simp only [hn] at hx; exact vlqChars_charset _ _ x hx

/-- the mappings string written by the full encoder consists of base64 characters, ',' and ';' only -/
theorem c11_encode_charset (ms : List Mapping) : ∀ e, ∀ x ∈ encodeFrom e ms, isMapChar x = true := by
  induction ms with
  | nil => intro e x hx; simp [encodeFrom] at hx
  | cons m ms ih =>
    intro e x hx
    simp only [encodeFrom] at hx
    split at hx
    · exact ih e x hx
    · simp only [List.mem_append] at hx
      rcases hx with (hx | hx) | hx
      · unfold encSep at hx
        split at hx
        · simp only [List.mem_replicate] at hx; rw [hx.2]; decide
        · split at hx
          · simp at hx
          · simp at hx; rw [hx]; decide
      · exact encFields_charset e m x hx
      · exact ih _ x hx


/-! ## the stream clause: announced before use, densely from zero

`DeclOK ns nn evs`: with `ns` sources and `nn` names announced so far, every source / name event of `evs` announces exactly the
next index (so the announced indices are 0, 1, 2, … without gaps or repeats), and every chunk uses only indices announced
earlier in the same stream. -/

/-- **C11, stream clause, every source tree, all four modes** (`columns × final_source`).  Hypotheses = the property's
quantifier: attached maps reference existing sources and names (`IdxHyp`: "consistent leaf maps"), and so do the maps an earlier
call left in the caches of this tree (`StoreIdx`; vacuous on cold caches); distinct CachedSource nodes own distinct caches.
A SourceMapSource *with an inner map* (the combinator of C09) is covered like every other node (`c11_combined_decl`). -/
theorem c11_stream_decl (s : Src) (o : Opts) (σ : Store) (hp : s.IdxHyp) (hn : s.ids.Nodup) (hs : StoreIdx σ s.cachedNodes) :
    DeclOK 0 0 (s.stream o σ).1.evs := Src.stream_declOK s o σ hp hn hs

/-- a ConcatSource needs nothing from its children: an index a child never announced is reported as unmapped, and the gaps of
its translation tables alias only announced entries -/
theorem c11_concat_decl (final : Bool) (children : List SResult) : DeclOK 0 0 (concatStream final children).evs :=
  concatStream_declOK final children

/-- a ReplaceSource keeps the property of its inner stream (names are renumbered densely, also those added by replacements) -/
theorem c11_replace_decl (sorted : List Repl) (inner : SResult) (h : DeclOK 0 0 inner.evs) : DeclOK 0 0 (replaceStream sorted inner).evs :=
  replaceStream_declOK sorted inner h

/-- the map-driven splitters, all four modes, for every map that references existing sources / names -/
theorem c11_sourcemap_decl (t : Text) (sm : SMap) (o : Opts) (h : MapIdxOK sm) : DeclOK 0 0 (streamSM t sm o).evs :=
  streamSM_declOK t sm o h

/-- the combinator (a SourceMapSource with an inner map), all four modes: its nine translation tables keep "announced densely,
once, before use" whenever the outer and the inner map reference existing entries of their own tables.  The proof is the table
invariant `KInv` (CombTables.lean); it needs the de-duplication key of the inner source to be its name (fix F15) -/
theorem c11_combined_decl (t : Text) (sm : SMap) (n : Text) (os : Option Text) (im : SMap) (rm : Bool) (o : Opts)
    (h1 : MapIdxOK sm) (h2 : MapIdxOK im) : DeclOK 0 0 (streamCombined t sm n os im rm o).evs :=
  streamCombined_declOK t sm n os im rm o h1 h2

/-! ## the map clause: indices inside the tables -/

/-- **every source and name index of a map built by `get_map` lies inside its `sources` / `names` tables**, for any stream that
announces before use (hence, by `c11_stream_decl`, for the final-mode stream of every tree); `small` / `linesOK` are the value
range and line monotonicity under which the codec round trip of C12 holds. -/
theorem c11_map_indices (evs : List Ev) (hd : DeclOK 0 0 evs) (hs : ∀ m ∈ chunkMs evs, m.small) (hl : linesOK 1 (chunkMs evs))
    (sm : SMap) (h : mapOfEvs true evs = some sm) :
    ∀ m ∈ decode sm.mappings, ∀ o, m.orig = some o → o.src < sm.sources.length ∧ ∀ k, o.name = some k → k < sm.names.length :=
  mapOfEvs_idxOK evs hd hs hl sm h

/-- non-vacuity: a stream that announces one source and one name and uses them; and one that uses a name it never announced -/
example : DeclOK 0 0 [.source 0 [97] none, .name 0 [110], .chunk (some [120]) ⟨1, 0, some ⟨0, 1, 0, some 0⟩⟩] := by
  simp [DeclOK]
example : ¬ DeclOK 0 0 [.source 0 [97] none, .chunk (some [120]) ⟨1, 0, some ⟨0, 1, 0, some 0⟩⟩] := by
  simp [DeclOK]


/-! ## the map clause: positions -/

/-- **segments of `map()` are sorted by generated position and lie on positions of `source()`** (columns = true): for every tree of
the domain of C03 (`ModeHypC`, cold caches) the decoded segments of the SourceMap `get_map` returns are in non-decreasing
generated position — on lines ≥ 1 — and each stands at a position of `source()` (reached after some prefix of it: never beyond the
end of a line or of the text).  PARTIAL w.r.t. the property text: *strictly* increasing needs strictly sorted leaf maps and is
decided by the oracle. -/
theorem c11_map_positions (s : Src) (h : s.ModeHypC) (hn : s.ids.Nodup) (σ : Store) (hc : Cold σ s.ids) (final : Bool)
    (hsmall : ∀ m ∈ chunkMs (s.stream ⟨true, true⟩ σ).1.evs, m.small) (sm : SMap) (hm : (getMap s ⟨true, final⟩ σ).1 = some sm) :
    sortedFrom 1 0 (decode sm.mappings) ∧ ∀ m ∈ decode sm.mappings, IsPos s.src ⟨m.gl, m.gc⟩ := by
  have hm3 := Src.m3c s h hn σ σ hc hc
  obtain ⟨_, _, _, _, _, _, b7⟩ := Src.base_factsC s h hn σ σ hc hc
  simp only [getMap] at hm
  rw [mapOfEvs_mappings _ sm hm, decode_encode _ hsmall (linesOK_of_sorted _ 1 0 hm3.sorted)]
  have hsub := keptFrom_sublist (chunkMs (s.stream ⟨true, true⟩ σ).1.evs) {}
  exact ⟨sortedFrom_sublist _ _ 1 0 hm3.sorted hsub, fun m hmem => finOK_ms _ _ b7 m (hsub.subset hmem)⟩


/-- **mapped segments of `map()` lie strictly before the end of `source()`** (columns = true, domain of C03, cold caches): every
decoded segment that carries an original location stands at the position of a *character* of `source()` — the position reached
after a proper prefix — so it governs at least one character and none stands at or after the end.  (Unmapped 1-field segments
only close a mapping; for them `c11_map_positions` gives a position of `source()`, possibly its end.) -/
theorem c11_map_before_end (s : Src) (h : s.ModeHypC) (hn : s.ids.Nodup) (σ : Store) (hc : Cold σ s.ids) (final : Bool)
    (hsmall : ∀ m ∈ chunkMs (s.stream ⟨true, true⟩ σ).1.evs, m.small) (sm : SMap) (hm : (getMap s ⟨true, final⟩ σ).1 = some sm) :
    ∀ m ∈ decode sm.mappings, m.orig.isSome = true → ∃ k, k < s.src.length ∧ adv startPos (s.src.take k) = ⟨m.gl, m.gc⟩ := by
  have hm3 := Src.m3c s h hn σ σ hc hc
  simp only [getMap] at hm
  rw [mapOfEvs_mappings _ sm hm, decode_encode _ hsmall (linesOK_of_sorted _ 1 0 hm3.sorted)]
  intro m hmem ho
  have hsub := keptFrom_sublist (chunkMs (s.stream ⟨true, true⟩ σ).1.evs) {}
  obtain ⟨t, ht⟩ := chunkMs_mem_ev _ m (hsub.subset hmem)
  exact Src.strictC s h hn σ hc t m ht ho


/-- **segments of `map()` are in *strictly* increasing generated position, each on a character of `source()`** (columns = true):
for every tree of the domain of C03 on cold caches whose attached maps (outside ReplaceSource nodes, which re-chunk what they
wrap) are strictly sorted (`Src.StrictMaps`), the decoded segments of the SourceMap `get_map` returns — mapped and unmapped
alike — stand at the positions of characters `k₁ < k₂ < …` of `source()`: strictly increasing, all before the end.
Chain: the text-less stream delivers its chunks at increasing characters (`Src.incC`: OriginalSource tokens; the map-driven
splitter forwards a sublist of a strictly sorted map and drops what lies at or beyond the end; ConcatSource shifts each child and
closes a mapping only where the next child does not begin with a chunk; ReplaceSource delivers only non-empty chunks at their
true positions; the combinator keeps the outer positions) ∘ the encoder writes a sublist (`keptFrom`) ∘ C12 (decode ∘ encode). -/
theorem c11_map_strict (s : Src) (h : s.ModeHypC) (hs : s.StrictMaps) (hn : s.ids.Nodup) (σ : Store) (hc : Cold σ s.ids) (final : Bool)
    (hsmall : ∀ m ∈ chunkMs (s.stream ⟨true, true⟩ σ).1.evs, m.small) (sm : SMap) (hm : (getMap s ⟨true, final⟩ σ).1 = some sm) :
    (decode sm.mappings).Pairwise mlt
    ∧ ∀ m ∈ decode sm.mappings, ∃ k, k < s.src.length ∧ adv startPos (s.src.take k) = ⟨m.gl, m.gc⟩ :=
  getMap_strict s h hs hn σ hc final hsmall sm hm

/-- non-vacuity: an OriginalSource in front of a SourceMapSource with a strictly sorted two-segment map -/
example : (Src.concat (.cons (.orig [97, 59, 10, 98] [102]) (.cons (.sms [120, 32, 121] [103] ⟨[65, 65, 65, 65, 44, 69, 65, 65, 69], [[115]], [], [], none, none, none⟩ none none false) .nil))).StrictMaps := by
  simp only [Src.StrictMaps, SrcList.StrictMapsL]
  exact ⟨trivial, by decide, trivial⟩


/-- **… and on warm caches** (the two-call history `map(); map()`, columns = true): `s` is a tree of the domain of C03 with
CachedSource nodes at any depth and in any number (none beneath a ReplaceSource — K5), attached maps strictly sorted, the first
`get_map` running on cold caches.  The second `get_map` — every outermost CachedSource answering from the map the first call stored,
replayed through the map-driven splitter — returns a map whose decoded segments again stand at the positions of characters
`k₁ < k₂ < …` of `source()`: strictly increasing, all before the end.  Chain: the second call is the `get_map` of the replay tree
(`getMap_second`) ∘ the stored maps are strictly sorted because they were produced by `c11_map_strict` on the subtrees
(`Src.warm_strict`) ∘ the replay tree is in the domain of C03 (`Src.warmF_NA`) ∘ `c11_map_strict` on the replay tree. -/
theorem c11_map_twice_strict (s : Src) (σ : Store) (h : s.ModeHypC) (hst : s.StrictMaps) (hk : s.CachedOK) (hs : s.SmallF)
    (hn : s.ids.Nodup) (hc : Cold σ s.ids) (f1 f2 : Bool)
    (hsmall2 : ∀ m ∈ chunkMs ((s.warm ⟨true, true⟩).stream ⟨true, true⟩ []).1.evs, m.small)
    (sm2 : SMap) (h2 : (getMap s ⟨true, f2⟩ (getMap s ⟨true, f1⟩ σ).2).1 = some sm2) :
    (decode sm2.mappings).Pairwise mlt
    ∧ ∀ m ∈ decode sm2.mappings, ∃ k, k < s.src.length ∧ adv startPos (s.src.take k) = ⟨m.gl, m.gc⟩ :=
  getMap_twice_strict s σ h hst hk hs hn hc f1 f2 hsmall2 sm2 h2

/-- non-vacuity: `ConcatSource[CachedSource(OriginalSource("a;b", "f")), RawSource("x")]` meets the structural hypotheses -/
example : (Src.concat (.cons (.cached 0 (.orig [97, 59, 98] [102])) (.cons (.rawStr [120]) .nil))).ModeHypC
    ∧ (Src.concat (.cons (.cached 0 (.orig [97, 59, 98] [102])) (.cons (.rawStr [120]) .nil))).StrictMaps
    ∧ (Src.concat (.cons (.cached 0 (.orig [97, 59, 98] [102])) (.cons (.rawStr [120]) .nil))).CachedOK
    ∧ (Src.concat (.cons (.cached 0 (.orig [97, 59, 98] [102])) (.cons (.rawStr [120]) .nil))).SmallF := by
  simp only [Src.ModeHypC, SrcList.ModeHypsC, Src.StrictMaps, SrcList.StrictMapsL, Src.CachedOK, SrcList.CachedOKs, Src.SmallF, SrcList.SmallFs,
    Src.strip, Src.src]
  refine ⟨⟨⟨trivial, by decide, by decide⟩, trivial, trivial⟩, ⟨trivial, trivial, trivial⟩, ⟨trivial, trivial, trivial⟩, ?_, trivial, trivial⟩
  have e : chunkMs ((Src.orig [97, 59, 98] [102]).stream { columns := true, final := true } []).fst.evs
      = [⟨1, 0, some ⟨0, 1, 0, none⟩⟩, ⟨1, 2, some ⟨0, 1, 2, none⟩⟩] := by decide
  rw [e]
  intro m hm
  simp only [List.mem_cons, List.mem_nil_iff, or_false] at hm
  rcases hm with rfl | rfl <;> exact ⟨by decide, fun o ho => by cases ho; exact ⟨by decide, by decide, by decide, fun k hk => by cases hk⟩⟩


/-- **… and for every `get_map` of every call history** (columns = true): in any history of streaming / `get_map` calls — any
length, options in any order, cold caches at the start — on a tree with CachedSource nodes (none beneath a ReplaceSource) and
strictly sorted attached maps, the map every `get_map` of the history returns has its decoded segments at strictly increasing
characters of `source()`, all before the end.  `c10_every_history` ∘ `c11_map_strict` on the cache-free tree and on the replay tree. -/
theorem c11_every_history_map_strict (s : Src) (hk : s.NoCR) (hn : s.ids.Nodup) (σ : Store) (hc : Cold σ s.ids)
    (h : s.ModeHypC) (hst : s.StrictMaps) (hs : s.SmallF)
    (hsmall1 : ∀ m ∈ chunkMs (s.strip.stream ⟨true, true⟩ []).1.evs, m.small)
    (hsmall2 : ∀ m ∈ chunkMs ((s.warm ⟨true, true⟩).stream ⟨true, true⟩ []).1.evs, m.small)
    (calls : List Opts) (k : Nat) (hcall : calls[k]? = some ⟨true, true⟩) :
    ∃ r, (runCalls s calls σ).1[k]? = some r ∧ ∀ sm, mapOfEvs true r.evs = some sm →
      (decode sm.mappings).Pairwise mlt
      ∧ ∀ m ∈ decode sm.mappings, ∃ j, j < s.src.length ∧ adv startPos (s.src.take j) = ⟨m.gl, m.gc⟩ :=
  history_map_strict s hk hn σ hc h hst hs hsmall1 hsmall2 calls k hcall


/-! ## the map clause, columns = false -/

/-- **segments of `map()` with columns = false**: for every tree of the domain of C03 (lines variant, cold caches) the decoded
segments of the SourceMap `get_map` returns stand on *strictly increasing generated lines* ≥ 1, each at column 0, each on a line on
which the text-less stream delivers a mapped chunk — a line of `source()` (`c02_final`: that chunk stands at a position of
`source()`).  Chain: C03 lines (`Src.m3l`: the stream is sorted) ∘ the lines-only encoder writes the first mapped chunk of each
line once (`keptLines`) ∘ C12 lines (`decode_lencode`). -/
theorem c11_map_lines_strict (s : Src) (h : s.ModeHypL) (hn : s.ids.Nodup) (σ : Store) (hc : Cold σ s.ids) (final : Bool)
    (hsmall : ∀ m ∈ chunkMs (s.stream ⟨false, true⟩ σ).1.evs, ∀ o, m.orig = some o → o.src < U31 ∧ o.line < U31)
    (sm : SMap) (hm : (getMap s ⟨false, final⟩ σ).1 = some sm) :
    (decode sm.mappings).Pairwise (fun a b => a.gl < b.gl)
    ∧ ∀ x ∈ decode sm.mappings, x.gc = 0 ∧ 1 ≤ x.gl
        ∧ ∃ m ∈ chunkMs (s.stream ⟨false, true⟩ σ).1.evs, m.orig.isSome = true ∧ x.gl = m.gl ∧ IsPos s.src ⟨m.gl, m.gc⟩ := by
  have hm3 := Src.m3l s h hn σ σ hc hc
  obtain ⟨_, _, _, _, _, _, b7⟩ := Src.base_factsL s h hn σ σ hc hc
  simp only [getMap] at hm
  rw [mapOfEvs_mappings_lines _ sm hm, decode_lencode _ hsmall (linesOK_of_sorted _ 1 0 hm3.sorted)]
  have hl0 : linesOK ({} : LEncSt).lastWritten (chunkMs (s.stream ⟨false, true⟩ σ).1.evs) :=
    linesOK_mono (Nat.zero_le 1) _ (linesOK_of_sorted _ 1 0 hm3.sorted)
  obtain ⟨a, b⟩ := keptLines_facts _ {} hl0
  refine ⟨b, fun x hx => ?_⟩
  obtain ⟨x1, x2, m, hm', x3, x4⟩ := a x hx
  have h0 : ({} : LEncSt).lastWritten = 0 := rfl
  exact ⟨x1, by omega, m, hm', x3, x4, finOK_ms s.src _ b7 m hm'⟩

/-- **… and for every `get_map(columns = false)` of every call history**: on a tree with CachedSource nodes (none beneath a
ReplaceSource), cold at the start, the map every `get_map(columns = false)` of any history returns has its decoded segments on
strictly increasing generated lines ≥ 1, each at column 0, each on a line on which the text-less stream that built it delivers a
mapped chunk at a position of `source()`.  `c10_every_history` ∘ `c11_map_lines_strict` on the cache-free tree and on the replay
tree (which is again in the domain: `Src.warmFL`). -/
theorem c11_every_history_map_lines_strict (s : Src) (hk : s.NoCR) (hn : s.ids.Nodup) (σ : Store) (hc : Cold σ s.ids)
    (h : s.ModeHypL) (hs : s.SmallFL)
    (hsmall1 : ∀ m ∈ chunkMs (s.strip.stream ⟨false, true⟩ []).1.evs, ∀ o, m.orig = some o → o.src < U31 ∧ o.line < U31)
    (hsmall2 : ∀ m ∈ chunkMs ((s.warm ⟨false, true⟩).stream ⟨false, true⟩ []).1.evs, ∀ o, m.orig = some o → o.src < U31 ∧ o.line < U31)
    (calls : List Opts) (k : Nat) (hcall : calls[k]? = some ⟨false, true⟩) :
    ∃ r, (runCalls s calls σ).1[k]? = some r ∧ ∀ sm, mapOfEvs false r.evs = some sm →
      (decode sm.mappings).Pairwise (fun a b => a.gl < b.gl)
      ∧ ∀ x ∈ decode sm.mappings, x.gc = 0 ∧ 1 ≤ x.gl
          ∧ ∃ m ∈ chunkMs r.evs, m.orig.isSome = true ∧ x.gl = m.gl ∧ IsPos s.src ⟨m.gl, m.gc⟩ := by
  refine ⟨_, runCalls_results s hk hn σ hc calls k _ hcall, ?_⟩
  intro sm hsm
  unfold answerOf at hsm ⊢
  have hck := Src.noCR_cachedOK s hk
  split at hsm
  · rename_i hmem
    simp only [hmem, if_true]
    obtain ⟨_, a2⟩ := Src.warmFL s h hck hs
    have hwnc := Src.warm_nc s ⟨false, true⟩ hck
    obtain ⟨hwn, _, _⟩ := nc_facts _ hwnc
    have := c11_map_lines_strict (s.warm ⟨false, true⟩) a2 hwn [] (cold_nil _) true hsmall2 sm (by simp only [getMap]; exact hsm)
    rw [Src.warm_src] at this
    exact this
  · rename_i hmem
    simp only [hmem, if_false]
    have hsn := Src.strip_nc s
    obtain ⟨hn', _, _⟩ := nc_facts _ hsn
    have := c11_map_lines_strict s.strip (Src.strip_modeHypL s h) hn' [] (cold_nil _) true hsmall1 sm (by simp only [getMap]; exact hsm)
    rw [Src.strip_src] at this
    exact this

/-- **the stream clause over every call history**: on a tree with CachedSource nodes (none beneath a ReplaceSource), cold at the
start, every call of every history of streaming calls — all four option sets, replays from stored maps included — announces every
source and name index before use and densely (`DeclOK`): a stored map's indices lie inside its own tables
(`mapOfEvs_idxOK`, `mapOfEvs_idxOK_lines`), so the replay announces what it uses.  Hypotheses per option set as in the
every-history theorems of C10. -/
theorem c11_every_history_decl (s : Src) (hk : s.NoCR) (hn : s.ids.Nodup) (σ : Store) (hc : Cold σ s.ids)
    (calls : List Opts) (k : Nat) (o : Opts) (hcall : calls[k]? = some o) :
    ∃ r, (runCalls s calls σ).1[k]? = some r
      ∧ (o = ⟨true, false⟩ → s.WarmHyp → DeclOK 0 0 r.evs)
      ∧ (o = ⟨true, true⟩ → s.ModeHypC → s.SmallF → DeclOK 0 0 r.evs)
      ∧ (o = ⟨false, false⟩ → s.WF → s.WarmHypL → DeclOK 0 0 r.evs)
      ∧ (o = ⟨false, true⟩ → s.ModeHypL → s.SmallFL → DeclOK 0 0 r.evs) :=
  history_decl s hk hn σ hc calls k o hcall

end Rs
