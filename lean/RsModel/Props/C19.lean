import RsModel.Props.C11
import RsModel.Lemmas.CharStarts
import RsModel.Props.C10
import RsModel.Props.C16
import RsModel.Lemmas.CposBoundary
import RsModel.Lemmas.ConcV
/-!
# C19 — unsafe code never acts outside its preconditions
One theorem per kind of unsafe operation: the stated precondition holds whenever the model reaches it.
-/
namespace Rs

/-- `String::from_utf8_unchecked` in `drain` (full encoder): the bytes are ASCII, for every mapping list -/
theorem c19_full_encoder_ascii (ms : List Mapping) (e : EncSt) : ∀ x ∈ encodeFrom e ms, x.toNat < 128 := by
  intro x hx
  have h := c11_encode_charset ms e x hx
  have : ∀ b : UInt8, isMapChar b = true → b.toNat < 128 := by apply forall_u8; decide +kernel
  exact this x h

theorem lits_ascii : (∀ x ∈ Generated.linesLitNext, x.toNat < 128) ∧ (∀ x ∈ Generated.linesLitSame, x.toNat < 128)
    ∧ (∀ x ∈ Generated.linesLitCol, x.toNat < 128) := by decide

theorem vlqChars_ascii (a b : Nat) : ∀ x ∈ vlqChars a b, x.toNat < 128 := by
  intro x hx
  have h := vlqChars_charset a b x hx
  have : ∀ b : UInt8, isMapChar b = true → b.toNat < 128 := by apply forall_u8; decide +kernel
  exact this x h

/-- `String::from_utf8_unchecked` in `drain` (lines-only encoder) -/
theorem c19_lines_encoder_ascii (ms : List Mapping) : ∀ (s : LEncSt), ∀ x ∈ lencodeFrom s ms, x.toNat < 128 := by
  induction ms with
  | nil => intro s x hx; simp [lencodeFrom] at hx
  | cons m ms ih =>
    intro s x hx
    simp only [lencodeFrom, List.mem_append] at hx
    rcases hx with hx | hx
    · unfold lencStep at hx
      cases ho : m.orig with
      | none => simp [ho] at hx
      | some o =>
        simp only [ho] at hx
        split at hx
        · simp at hx
        · simp only [List.mem_append, List.mem_replicate] at hx
          rcases hx with hx | hx
          · rw [hx.2]; decide
          · split at hx
            · split at hx
              · exact lits_ascii.1 x hx
              · simp only [List.mem_append] at hx
                rcases hx with (hx | hx) | hx
                · exact lits_ascii.2.1 x hx
                · exact vlqChars_ascii _ _ x hx
                · exact lits_ascii.2.2 x hx
            · simp only [List.mem_append] at hx
              rcases hx with ((hx | hx) | hx) | hx
              · exact lits_ascii.2.2 x hx
              · exact vlqChars_ascii _ _ x hx
              · exact vlqChars_ascii _ _ x hx
              · exact lits_ascii.2.2 x hx
    · exact ih _ x hx

/-- `WithIndices::substring(a, b)` with `a < b`: `start ≤ end ≤ len`, so the byte range handed to
`byte_slice_unchecked` is ordered and in range -/
theorem c19_substring_range (line : Text) (a b : Nat) (h : a < b) :
    (charStarts line).getD a line.length ≤ (charStarts line).getD b line.length
    ∧ (charStarts line).getD b line.length ≤ line.length := substring_range line a b h

/-- the lifetime-extended reference into the cached maps: an entry, once stored, is never replaced -/
theorem c19_cached_map_write_once (σ : Store) (k : Nat × Opts) (v w : Option SMap) (h : σ.get? k = some v) :
    (σ.insertNew k w).get? k = some v := c10_write_once σ k v w h

/-- `get_unchecked(start_chunk_index)` / `get_unchecked(end_chunk_index)` in `Rope::get_byte_slice_impl`: for every
rope built by constructors and slices from `&str`s, and every in-range window, the indices found by the two binary
searches are inside the piece vector -/
theorem c19_rope_slice_indices_in_range (p : RProgS) (h : p.TextsOK) (r : Rope) (hr : p.eval = .ok r) (a b : Nat)
    (hab : a ≤ b) (hb : b ≤ r.render.length) : Rope.sliceUnsafeOK r a b = true :=
  Rope.sliceUnsafeOK_spec r ((c16_program p h).2 r hr) a b hab hb

/-- `get_byte` never indexes outside the found piece -/
theorem c19_rope_get_byte_in_range (p : RProgS) (h : p.TextsOK) (r : Rope) (hr : p.eval = .ok r) (i : Nat) :
    ∃ v, r.getByte i = .ok v :=
  ⟨_, Rope.getByte_spec r ((c16_program p h).2 r hr).inv i⟩

/-- `WithIndices::substring` hands `byte_slice_unchecked` offsets that are char boundaries (besides being ordered and in range,
`c19_substring_range`): both for a `&str` line and for a rope line -/
theorem c19_substring_boundaries (line : Text) (a b : Nat) :
    isBoundary line (cpos line a) = true ∧ isBoundary line (cpos line b) = true := ⟨cpos_boundary line a, cpos_boundary line b⟩

/-- … hence the unchecked `str::get_unchecked` calls inside `Rope::byte_slice_unchecked` (first / last / same chunk, Light) are
reached exactly where the *checked* slicing succeeds: on every rope a program can build, slicing between two char offsets of
its text returns `Ok` (no out-of-range index, no cut inside a character) and yields that window -/
theorem c19_rope_unchecked_ok (p : RProgS) (h : p.TextsOK) (r : Rope) (hr : p.eval = .ok r) (a b : Nat) (hab : a ≤ b) :
    ∃ r', r.byteSlice (cpos r.render a) (cpos r.render b) = .ok r' ∧ r'.render = bsub r.render (cpos r.render a) (cpos r.render b) := by
  have hw := (c16_program p h).2 r hr
  obtain ⟨s1, _⟩ := Rope.byteSlice_spec r hw (cpos r.render a) (cpos r.render b) (cpos_mono _ a b hab) (cpos_le _ b)
  obtain ⟨r', e1, e2, _⟩ := s1 (by rw [cpos_boundary, cpos_boundary]; rfl)
  exact ⟨r', e1, e2⟩

/-- **the lifetime-extended reference into the cache** (`transmute::<&SourceMap, &'a SourceMap>` in `CachedSource::stream_chunks`):
under concurrent use as in C18 — any number of threads, any operations on the shared CachedSource and its clones, every interleaving —
a map that is in the cache at some point of an execution is that very entry at every later point of every continuation of the
execution: never removed, never replaced (not even by an equal value computed by a racing call).  So the referent of the extended
borrow outlives every borrow taken from it while the cache lives.  (`Model/ConcV.lean`; the `map()` that missed stores with
`or_insert`, the racing `stream_chunks` stores only into an entry it has kept locked and vacant.) -/
theorem c19_cached_map_outlives_borrow (P : ConcV.Params) (hnc : P.inner.NoCached) (r : RState) (hr : r.Inv) (σ : Store)
    (progs : List (List ConcV.Op)) (sched later : List Nat) (k : Nat × Opts) (v : Option SMap)
    (hv : (ConcV.run P (ConcV.initSys r σ progs) sched).sh.σ.get? k = some v) :
    (ConcV.run P (ConcV.initSys r σ progs) (sched ++ later)).sh.σ.get? k = some v := by
  rw [ConcV.run_append]
  exact ConcV.entry_run P hnc r.repls σ later _ (ConcV.inv_run P hnc r.repls σ sched _ (ConcV.inv_init P r hr σ progs)) k v hv

end Rs
