import RsModel.Lemmas.Lines
import RsModel.Model.Tree
import RsModel.Lemmas.TreeText
import RsModel.Lemmas.HasText
/-!
# C01 — streamed chunks reassemble exactly to `source()`
-/
namespace Rs

/-- raw leaves (RawSource / RawStringSource / RawBufferSource), both column settings -/
theorem c01_raw (t : Text) (c : Bool) :
    evsText (streamRaw t ⟨c, false⟩).evs = t ∧ ∀ e ∈ (streamRaw t ⟨c, false⟩).evs, e.textless = false :=
  ⟨streamRaw_text t c, by simpa [streamRaw] using rawChunks_hasText 1 (splitLines t)⟩

/-- OriginalSource, both column settings -/
theorem c01_original (t name : Text) (c : Bool) : evsText (streamOriginal t name ⟨c, false⟩).evs = t :=
  streamOriginal_text t name c

/-- line and token splitting lose nothing (what every leaf stream is built on) -/
theorem c01_split_join (t : Text) : (splitLines t).flatten = t ∧ (tokens t).flatten = t :=
  ⟨splitLines_join t, tokens_join t⟩

/-- **C01, full statement.**  For every source tree (all eight node kinds, any depth), either column setting and
any store of previously cached maps, streaming with `final_source = false` delivers chunks whose texts concatenate
to `source()`, and every delivered chunk carries its text.

`s.WF` is exactly what the property's quantifier and Rust's types provide: replacements have `start ≤ end`; the
text of a `SourceMapSource` and the text a `CachedSource` replays from are Rust `String`s (each line starts on a
character boundary and the length fits `usize`).  Attached maps, inner maps, the cache contents and the inner
stream's chunking are arbitrary. -/
theorem c01 (s : Src) (c : Bool) (σ : Store) (h : s.WF) :
    evsText (s.stream ⟨c, false⟩ σ).1.evs = s.src ∧ ∀ e ∈ (s.stream ⟨c, false⟩ σ).1.evs, e.textless = false :=
  ⟨Src.stream_text s c σ h, (evsTL_false_iff _).1 (Src.stream_tl s c σ)⟩

/-- the splice performed while streaming equals the splice of `source()` for ANY inner stream (any chunking, any
mappings): the heart of the ReplaceSource case -/
theorem c01_replace (sorted : List Repl) (inner : SResult) (hwf : ∀ r ∈ sorted, r.start ≤ r.stop) :
    evsText (replaceStream sorted inner).evs = specGo 0 (evsText inner.evs) sorted :=
  replaceStream_text sorted inner hwf

/-- map-driven splitting loses no text whatever the map says (segments outside the text, backwards, …) -/
theorem c01_sourcemap (t : Text) (sm : SMap) (c : Bool) (h : TextOK t) : evsText (streamSM t sm ⟨c, false⟩).evs = t :=
  streamSM_text t sm c h

/-- the hypotheses of `c01` are satisfiable by a tree using every composite: Cached(Replace(Concat(SourceMapSource
with a map, Original))) with a multi-byte character and a replacement reaching beyond the end -/
example : (Src.cached 0 (.replace (.concat (.cons (.sms [97, 10, 0xC3, 0xA9] [102] { mappings := [65, 65, 65, 65], sources := [[120]], sourcesContent := [], names := [] } none none false)
      (.cons (.orig [98, 59] [103]) .nil))) [⟨1, 2, [122], none, 1⟩, ⟨5, 99, [], none, 1⟩])).WF := by
  have hs : splitLines [97, 10, 0xC3, 0xA9] = [[97, 10], [0xC3, 0xA9]] := by decide
  have hT : TextOK [97, 10, 0xC3, 0xA9] := by
    refine ⟨?_, by decide⟩
    rw [hs]; intro ln hl
    simp only [List.mem_cons, List.not_mem_nil, or_false] at hl
    rcases hl with rfl | rfl <;> (intro b rest hb; cases hb; decide)
  have hsrc : (Src.replace (.concat (.cons (.sms [97, 10, 0xC3, 0xA9] [102] { mappings := [65, 65, 65, 65], sources := [[120]], sourcesContent := [], names := [] } none none false)
      (.cons (.orig [98, 59] [103]) .nil))) [⟨1, 2, [122], none, 1⟩, ⟨5, 99, [], none, 1⟩]).src = [97, 122, 0xC3, 0xA9, 98] := by decide
  refine ⟨⟨⟨hT, trivial, trivial⟩, ?_⟩, ?_⟩
  · intro r hr
    simp only [List.mem_cons, List.not_mem_nil, or_false] at hr
    rcases hr with rfl | rfl <;> decide
  · rw [hsrc]
    have hs2 : splitLines [97, 122, 0xC3, 0xA9, 98] = [[97, 122, 0xC3, 0xA9, 98]] := by decide
    refine ⟨?_, by decide⟩
    rw [hs2]; intro ln hl
    simp only [List.mem_cons, List.not_mem_nil, or_false] at hl
    subst hl; intro b rest hb; cases hb; decide

example : evsText (streamOriginal [97, 59, 98, 10, 99] [102] ⟨true, false⟩).evs = [97, 59, 98, 10, 99] := by decide

end Rs
