import RsModel.Lemmas.Lines
import RsModel.Model.Tree
/-!
# C01 — streamed chunks reassemble exactly to `source()`
-/
namespace Rs

/-- raw leaves (RawSource / RawStringSource / RawBufferSource), both column settings -/
theorem c01_raw (t : Text) (c : Bool) :
    evsText (streamRaw t ⟨c, false⟩).evs = t ∧ ∀ e ∈ (streamRaw t ⟨c, false⟩).evs, e.textless = false :=
  ⟨streamRaw_text t c, by simpa [streamRaw] using rawChunks_hasText 1 (splitLines t)⟩

/-- OriginalSource, both column settings -/
theorem c01_original (t name : Text) (c : Bool) : evsText (streamOriginal t name ⟨c, false⟩).evs = t :=
  streamOriginal_text t name c

/-- line and token splitting lose nothing (what every leaf stream is built on) -/
theorem c01_split_join (t : Text) : (splitLines t).flatten = t ∧ (tokens t).flatten = t :=
  ⟨splitLines_join t, tokens_join t⟩

example : evsText (streamOriginal [97, 59, 98, 10, 99] [102] ⟨true, false⟩).evs = [97, 59, 98, 10, 99] := by decide

end Rs
