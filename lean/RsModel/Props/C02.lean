import RsModel.Lemmas.PosTree
import RsModel.Lemmas.PosFinalTree
import RsModel.Lemmas.HistoryPos
/-!
# C02 — reported generated positions are the true positions

`posOKT pre evs`: every chunk of `evs` that carries text is reported at the position (1-based line, 0-based byte column) reached
after writing `pre` and the texts of the chunks before it.  `PosOK r` = `posOKT [] r.evs` and `r.info` is the position after the
last character.
-/
namespace Rs

/-- the line/column calculus every position claim rests on -/
theorem c02_adv_append (p : Pos) (a b : Text) : adv p (a ++ b) = adv (adv p a) b := adv_append p a b

/-- **C02, normal mode, every source tree** (all eight node kinds, any depth, either column setting).  Every streamed chunk is
reported at the line and column at which its text really starts in the reassembled output, and the returned generated-end
information is the position just after the last character — which, by C01, is the end of `source()`.

Hypotheses = the property's quantifier:
* `s.WF`: replacements have `start ≤ end`; texts of SourceMapSource / CachedSource nodes are Rust `String`s;
* `s.PosHyp c`: SourceMapSource texts (and the texts a CachedSource replays) are ASCII, so that byte, char and UTF-16 columns
  coincide, and with columns the segments of an attached map lie inside its text ("maps consistent with their text"); the output
  of each ReplaceSource is shorter than `2^32` bytes (positions are `u32`);
* the cache contents `σ` are arbitrary except that a map already cached for a node of this tree lies inside the text it will be
  replayed on (`StoreHyp`), and distinct CachedSource nodes own distinct caches (`Nodup`).
Replacement sets are arbitrary (overlapping, nested, deleting or inserting line breaks, beyond the end). -/
theorem c02 (s : Src) (c : Bool) (σ : Store) (hw : s.WF) (hp : s.PosHyp c) (hn : s.ids.Nodup) (hs : StoreHyp c σ s.cachedNodes) :
    posOKT [] (s.stream ⟨c, false⟩ σ).1.evs
    ∧ (s.stream ⟨c, false⟩ σ).1.info = adv startPos (evsText (s.stream ⟨c, false⟩ σ).1.evs)
    ∧ (s.stream ⟨c, false⟩ σ).1.info = adv startPos s.src := by
  obtain ⟨h1, h2⟩ := Src.stream_posOK s c σ hw hp hn hs
  refine ⟨h1, h2, ?_⟩
  rw [h2, Src.stream_text s c σ hw]

/-- the heart of the ReplaceSource case: whatever the inner stream (any chunking into tokens, any mappings), if it reports true
positions then so does the spliced stream -/
theorem c02_replace (sorted : List Repl) (inner : SResult) (hp : PosOK inner) (hT : ChunksTok inner.evs) (hTL : evsTL inner.evs = false)
    (hb : (evsText (replaceStream sorted inner).evs).length + 1 < 2 ^ 32) : PosOK (replaceStream sorted inner) :=
  replaceStream_posOK sorted inner hp hT hTL hb

/-- a ConcatSource shifts each child's positions by the position where the child starts -/
theorem c02_concat (children : List SResult) (hc : ∀ c ∈ children, PosOK c) : PosOK (concatStream false children) :=
  concatStream_posOK children hc

/-- the map-driven splitters report true positions for every map whose segments lie inside the (ASCII) text; without columns for
every map whatsoever -/
theorem c02_sourcemap (t : Text) (sm : SMap) (c : Bool) (ha : IsAscii t) (hl : t.length ≤ USIZE_MAX) (hm : c = true → MapInside t sm) :
    PosOK (streamSM t sm ⟨c, false⟩) := streamSM_posOK t sm c ha hl hm

/-- non-vacuity: the hypotheses of `c02` are met by a tree with a SourceMapSource (map `AAAA;AACA` on a two-line text), a
concatenation, a replacement deleting a line break and a CachedSource, on a cold cache -/
example : let t : Src := .cached 0 (.replace (.concat (.cons (.sms [97, 10, 98, 99] [102] (SMap.mk [65, 65, 65, 65, 59, 65, 65, 67, 65] [[120]] [] [] none none none) none none false)
      (.cons (.orig [99, 59, 100] [103]) .nil))) [⟨1, 2, [], none, 1⟩])
    t.PosHyp true ∧ t.ids.Nodup ∧ StoreHyp true [] t.cachedNodes := by
  intro t
  have hdec : decode [65, 65, 65, 65, 59, 65, 65, 67, 65] = [⟨1, 0, some ⟨0, 1, 0, none⟩⟩, ⟨2, 0, some ⟨0, 2, 0, none⟩⟩] := by decide
  refine ⟨⟨⟨⟨⟨by decide, by decide, fun _ => ?_⟩, trivial, trivial⟩, by decide⟩, by decide, by decide⟩, by decide, ?_⟩
  · intro m hm
    simp only [hdec, List.mem_cons, List.not_mem_nil, or_false] at hm
    rcases hm with rfl | rfl
    · exact ⟨by decide, fun _ => by decide⟩
    · exact ⟨by decide, fun _ => by decide⟩
  · intro p _ m hm; simp [Store.get?] at hm

/-! ## text-less (final_source) mode

`IsPos T p`: `p` is the (line, column) reached after writing some prefix of `T` — "a position of the text".
`FinOK T r`: every chunk of `r` is reported at a position of `T` and `r.info` is the position after the whole of `T`. -/

/-- **C02, text-less mode, every source tree**: with `final_source = true` (what `map()` and enclosing sources use) every
reported position is a position of `source()`, and the returned generated-end information is the position after its last
character.  Same hypotheses as `c02`; `StoreHypB` is `StoreHyp` for the cache entries of either mode (a ReplaceSource streams
its child with text even in this mode). -/
theorem c02_final (s : Src) (c : Bool) (σ : Store) (hw : s.WF) (hp : s.PosHyp c) (hn : s.ids.Nodup) (hs : StoreHypB c σ s.cachedNodes) :
    (∀ k ∈ evsKeys (s.stream ⟨c, true⟩ σ).1.evs, IsPos s.src ⟨k.2.1, k.2.2⟩)
    ∧ (s.stream ⟨c, true⟩ σ).1.info = adv startPos s.src :=
  Src.stream_finOK s c σ hw hp hn hs

/-- … and it is the same end information the normal mode returns (whatever the two cache states) -/
theorem c02_same_info (s : Src) (c : Bool) (σ σ' : Store) (hw : s.WF) (hp : s.PosHyp c) (hn : s.ids.Nodup)
    (hs : StoreHypB c σ s.cachedNodes) (hs' : StoreHypB c σ' s.cachedNodes) :
    (s.stream ⟨c, true⟩ σ).1.info = (s.stream ⟨c, false⟩ σ').1.info :=
  Src.stream_info_modes s c σ σ' hw hp hn hs hs'

/-- on cold caches there is no hypothesis about the store: both modes, one statement -/
theorem c02_cold (s : Src) (c : Bool) (hw : s.WF) (hp : s.PosHyp c) (hn : s.ids.Nodup) :
    PosOK (s.stream ⟨c, false⟩ []).1
    ∧ FinOK s.src (s.stream ⟨c, true⟩ []).1
    ∧ (s.stream ⟨c, true⟩ []).1.info = (s.stream ⟨c, false⟩ []).1.info := by
  have h0 : StoreHypB c [] s.cachedNodes := fun p _ f m hm => by simp [Store.get?] at hm
  exact ⟨Src.stream_posOK s c [] hw hp hn (storeHypB_normal c [] _ h0), Src.stream_finOK s c [] hw hp hn h0,
    Src.stream_info_modes s c [] [] hw hp hn h0 h0⟩

/-- ConcatSource in either mode, from the children's contracts -/
theorem c02_concat_final (final : Bool) (children : List SResult) (Ts : List Text) (h : FinAll children Ts) :
    FinOK Ts.flatten (concatStream final children) := concatStream_finOK final children Ts h

/-- non-vacuity of `IsPos`: (2, 1) is a position of "a\nbc" and (2, 3) is not -/
example : IsPos [97, 10, 98, 99] ⟨2, 1⟩ := ⟨3, by decide, by decide⟩
example : ¬ IsPos [97, 10, 98, 99] ⟨2, 3⟩ := by
  rintro ⟨k, hk, he⟩
  simp only [List.length_cons, List.length_nil] at hk
  have : k = 0 ∨ k = 1 ∨ k = 2 ∨ k = 3 ∨ k = 4 := by omega
  rcases this with rfl | rfl | rfl | rfl | rfl <;> revert he <;> decide

/-- **C02 over every call history**: `s` is any tree with CachedSource nodes (none beneath a ReplaceSource — `Src.NoCR`; distinct
caches), cold at the start; `runCalls s calls σ` threads the store through ANY history `calls` of streaming calls (any length, the
four option sets in any order; a `get_map` is the text-less call).  Whatever the `k`-th call is, the positions it reports are true:
in normal mode every chunk stands where its text starts in `source()` and the returned end information is the position after the
last character (`PosOK`, `info = adv startPos s.src`); in text-less mode every reported position is a position of `source()` and
the end information likewise (`FinOK`).  No hypothesis on the store: that every map a CachedSource stored lies inside the text it
is replayed on is proved (`stored_inside_normal`, `stored_map_ok`), not assumed as in `c02` / `c02_final` (`StoreHyp`).
Hypotheses per option set as in the two-call theorems: columns = false needs `PosHyp false` only; (true, false) the domain of C02
and of `c10_warm_tree` (`WarmHyp`); (true, true) the domain of C03 (`ModeHypC`, values below 2³¹ in cached subtrees). -/
theorem c02_every_history (s : Src) (hk : s.NoCR) (hn : s.ids.Nodup) (σ : Store) (hc : Cold σ s.ids) (hw : s.WF)
    (calls : List Opts) (k : Nat) (o : Opts) (hcall : calls[k]? = some o) :
    ∃ r, (runCalls s calls σ).1[k]? = some r
      ∧ (o.columns = false → s.PosHyp false →
          (o.final = false → PosOK r ∧ r.info = adv startPos s.src) ∧ (o.final = true → FinOK s.src r))
      ∧ (o = ⟨true, false⟩ → s.PosHyp true → s.WarmHyp → PosOK r ∧ r.info = adv startPos s.src)
      ∧ (o = ⟨true, true⟩ → s.ModeHypC → s.SmallF → FinOK s.src r) :=
  history_positions s hk hn σ hc hw calls k o hcall

end Rs
