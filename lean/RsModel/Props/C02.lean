import RsModel.Lemmas.Lines
/-!
# C02 — reported generated positions are the true positions
-/
namespace Rs

/-- position calculus: the position after `a ++ b` is the position after `b` started where `a` ended -/
theorem c02_adv_append (p : Pos) (a b : Text) : adv p (a ++ b) = adv (adv p a) b := adv_append p a b

example : adv ⟨1, 0⟩ [97, 10, 98] = ⟨2, 1⟩ := by decide

end Rs
