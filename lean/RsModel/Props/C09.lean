import RsModel.Model.Combined
import RsModel.Lemmas.PosComb
import RsModel.Lemmas.CombInner
import RsModel.Lemmas.ModeLeaves
import RsModel.Lemmas.CombTables
import RsModel.Lemmas.CombCompose
import RsModel.Lemmas.CombComposeL
/-!
# C09 — combined source maps compose outer and inner attribution
(the pass-through and removal branches; the composition through the inner map is tied by correspondence)
-/
namespace Rs

/-- an unmapped outer chunk stays unmapped and keeps its text and position -/
theorem c09_unmapped_passthrough (cfg : CombCfg) (st : CombSt) (text : Option Text) (gl gc : Nat)
    (h : st.innerSourceIndex ≠ -1) :
    (combOnChunk cfg st text ⟨gl, gc, none⟩).2 = [.chunk text ⟨gl, gc, none⟩] := by
  simp [combOnChunk, h.symm, combPass]

/-- a chunk pointing to a source other than the inner one is passed through with the same original line and
column, under the globally announced index of that source -/
theorem c09_other_source_passthrough (cfg : CombCfg) (st : CombSt) (text : Option Text) (gl gc : Nat) (o : Orig)
    (hother : (o.src : Int) ≠ st.innerSourceIndex) (g : Int) (hg : st.sourceIndexMapping[o.src]? = some g) (hg0 : 0 ≤ g)
    (hn : o.name = none) :
    (combOnChunk cfg st text ⟨gl, gc, some o⟩).2 = [.chunk text ⟨gl, gc, some ⟨g.toNat, o.line, o.col, none⟩⟩] := by
  have h1 : ((o.src : Int) == st.innerSourceIndex) = false := by simpa using hother
  have h2 : ¬ ((o.src : Int) < 0) := by omega
  have h3 : ¬ (g < 0) := by omega
  simp [combOnChunk, h1, combPass, h2, hg, h3, hn]

/-- the hand-written bisection never returns an index beyond the segment list -/
theorem c09_bisect_le (segs : List InnerSeg) (col : Int) : ∀ (fuel l r : Nat), l ≤ r → r ≤ segs.length →
    bisect segs col fuel l r ≤ segs.length := by
  intro fuel
  induction fuel with
  | zero => intro l r h1 h2; simp [bisect]; omega
  | succ n ih =>
    intro l r h1 h2
    simp only [bisect]
    split
    · split
      · exact ih _ _ (by omega) h2
      · exact ih _ _ (by omega) (by omega)
    · omega


theorem globalSource_noChunk' (sm : Assoc) (s : Text) (c : Option Text) : ∀ e ∈ (globalSource sm s c).2.1, e.isChunk = false := by
  unfold globalSource; split <;> simp [Ev.isChunk]

theorem globalName_noChunk' (nm : Assoc) (n : Text) : ∀ e ∈ (globalName nm n).2.1, e.isChunk = false := by
  unfold globalName; split <;> simp [Ev.isChunk]

/-! ## the search for the inner segment -/

/-- **the hand-written bisection of `find_inner_mapping` is correct**: on a sorted line it returns the number of segments whose
generated column is at or before `col` — so `l - 1` is the greatest such segment -/
theorem c09_bisect_spec (segs : List InnerSeg) (col : Int) (hs : SegsSorted segs) : ∀ (fuel l r : Nat), l ≤ r → r ≤ segs.length → r - l < fuel →
    (∀ i, i < l → (segs.getD i default).gc ≤ col) → (∀ i, r ≤ i → i < segs.length → col < (segs.getD i default).gc) →
    (∀ i, i < bisect segs col fuel l r → (segs.getD i default).gc ≤ col)
    ∧ (∀ i, bisect segs col fuel l r ≤ i → i < segs.length → col < (segs.getD i default).gc) :=
  bisect_spec segs col hs

/-- `find_inner_mapping` returns the greatest segment of the line at or before the column, and none exactly when there is none -/
theorem c09_findInner_spec (st : CombSt) (line column : Int) (h1 : 0 < line) (h2 : line.toNat ≤ st.lineData.length)
    (hs : SegsSorted (st.lineData.getD (line.toNat - 1) default).segs) :
    (∀ idx, findInner st line column = some idx →
        idx < (st.lineData.getD (line.toNat - 1) default).segs.length
        ∧ ((st.lineData.getD (line.toNat - 1) default).segs.getD idx default).gc ≤ column
        ∧ ∀ j, idx < j → j < (st.lineData.getD (line.toNat - 1) default).segs.length → column < ((st.lineData.getD (line.toNat - 1) default).segs.getD j default).gc)
    ∧ (findInner st line column = none → ∀ j, j < (st.lineData.getD (line.toNat - 1) default).segs.length → column < ((st.lineData.getD (line.toNat - 1) default).segs.getD j default).gc) := by
  have hcond : ¬ (line ≤ 0 ∨ line.toNat > st.lineData.length) := by omega
  have hsp := c09_bisect_spec (st.lineData.getD (line.toNat - 1) default).segs column hs
    ((st.lineData.getD (line.toNat - 1) default).segs.length + 1) 0 (st.lineData.getD (line.toNat - 1) default).segs.length
    (Nat.zero_le _) (Nat.le_refl _) (by omega) (fun i hi => by omega) (fun i hi hlen => by omega)
  have hle := c09_bisect_le (st.lineData.getD (line.toNat - 1) default).segs column
    ((st.lineData.getD (line.toNat - 1) default).segs.length + 1) 0 (st.lineData.getD (line.toNat - 1) default).segs.length (Nat.zero_le _) (Nat.le_refl _)
  unfold findInner
  simp only [hcond, if_false]
  constructor
  · intro idx h
    split at h
    · cases h
    · rename_i hne
      simp only [Option.some.injEq] at h
      subst h
      exact ⟨by omega, hsp.1 _ (by omega), fun j hj hlen => hsp.2 j (by omega) hlen⟩
  · intro h j hj
    split at h
    · rename_i h0
      exact hsp.2 j (by omega) hj
    · cases h

/-! ## composition -/

/-- **composition**: an outer chunk that points into the inner source at `(o.line, o.col)`, for which the search finds the inner
segment `seg` (mapped: `seg.src ≥ 0`), is delivered — same text, same generated position — attributed to the file the inner
segment names (translated to its global index), to the inner segment's original line, and to a column that is the inner
segment's column or that column plus the offset `o.col - seg.gc` into the segment (the latter only when the recorded content
matches, `combAdj`) -/
theorem c09_compose_chunk (cfg : CombCfg) (st : CombSt) (text : Option Text) (m : Mapping) (o : Orig) (ho : m.orig = some o)
    (hsrc : (o.src : Int) = st.innerSourceIndex) (idx : Nat) (hfind : findInner st o.line o.col = some idx)
    (hmapped : ((st.lineData.getD (o.line - 1) {}).segs.getD idx default).src ≥ 0) :
    ∃ pre out, (combOnChunk cfg st text m).2 = pre ++ [Ev.chunk text ⟨m.gl, m.gc, out⟩] ∧ evsKeys pre = []
      ∧ ∀ y, out = some y →
          y.line = ((st.lineData.getD (o.line - 1) {}).segs.getD idx default).line.toNat
          ∧ (y.col = ((st.lineData.getD (o.line - 1) {}).segs.getD idx default).col.toNat
             ∨ y.col = (((st.lineData.getD (o.line - 1) {}).segs.getD idx default).col
                          + ((o.col : Int) - ((st.lineData.getD (o.line - 1) {}).segs.getD idx default).gc)).toNat) := by
  have e1 : ((o.line : Int)).toNat - 1 = o.line - 1 := by simp
  simp only [combOnChunk, ho, hsrc, beq_self_eq_true, if_true, hfind, e1]
  rw [if_pos hmapped]
  simp only [combFound]
  refine ⟨_, _, rfl, ?_, ?_⟩
  · rw [evsKeys_append, combSrcResolve_keys, combNameResolve_keys]; rfl
  · intro y hy
    split at hy
    · simp only [Option.some.injEq] at hy
      subst hy
      refine ⟨rfl, ?_⟩
      simp only
      split
      · exact Or.inr rfl
      · exact Or.inl rfl
    · cases hy

/-- where the inner map has no mapping and removal of the original source is requested, the chunk is left unmapped -/
theorem c09_no_inner_removed (cfg : CombCfg) (st : CombSt) (text : Option Text) (m : Mapping) (a b c d : Int) (h : cfg.remove = true) :
    (combNoInner cfg st text m a b c d).2 = [Ev.chunk text ⟨m.gl, m.gc, none⟩] := by
  simp [combNoInner, h]


/-! ## what is recorded, and what the search finds in it -/

/-- **the inner line data**: after the inner stream has been consumed (`combInnerEv` over its events), generated line `L` holds the
chunk mappings of the inner stream on line `L`, in stream order, appended to what was there -/
theorem c09_recorded (evs : List Ev) (st : CombSt) (L : Nat) (hL : 1 ≤ L) (h1 : ∀ m ∈ chunkMs evs, 1 ≤ m.gl) :
    segsAt (evs.foldl combInnerEv st).lineData L = segsAt st.lineData L ++ ((chunkMs evs).filter fun m => m.gl == L).map toSeg :=
  fold_segs evs st L hL h1

/-- **the search answers the lookup**: `find_inner_mapping (L, C)` finds the segment recorded for exactly the mapping that the
lookup "last chunk mapping of the inner stream on line `L` at or before column `C`" finds, and nothing exactly when that lookup
finds nothing (`ms` = the inner stream's chunk mappings, sorted by C02).  With C08 (`c08_attribution`: the inner stream's chunks
attribute like lookups in the inner map) this is "attributed to what the inner map assigns to that position". -/
theorem c09_search_is_lookup (st : CombSt) (ms : List Mapping) (hsort : ms.Pairwise mle) (L C : Nat) (hL : 1 ≤ L)
    (hseg : segsAt st.lineData L = (ms.filter fun m => m.gl == L).map toSeg)
    (hlen : st.lineData.length < L → (ms.filter fun m => m.gl == L) = []) :
    match findInner st L C with
    | some idx => idx < (ms.filter fun m => m.gl == L).length
        ∧ (st.lineData.getD (L - 1) default).segs.getD idx default = toSeg ((ms.filter fun m => m.gl == L).getD idx default)
        ∧ lookupGo L C none ms = some ((ms.filter fun m => m.gl == L).getD idx default).orig
    | none => lookupGo L C none ms = none :=
  findInner_lookup st ms hsort L C hL hseg hlen


/-- **C09, per outer chunk, in terms of the inner map itself.**  Let the inner line data be what `combInnerEv` recorded from the
stream of the inner source (text `Tin`, ASCII, map `Min` sorted and inside `Tin`, columns = true).  For an outer chunk that
points into the inner source at `(o.line, o.col)` — the position of a character of `Tin`:
* if the inner map assigns `o'` to that position (greatest segment at or before it on that line), the chunk is delivered with the
  same text and generated position, attributed to `o'`'s original line and to `o'`'s column or that column plus the offset from
  the covering inner segment's start (at or before `o.col`);
* if the inner map assigns nothing there, the search finds no mapped segment (the chunk then takes the "no inner mapping" path:
  the inner source itself, or unmapped when removal is requested — `c09_no_inner_removed`). -/
theorem c09_compose_inner_map (cfg : CombCfg) (st : CombSt) (Tin : Text) (Min : SMap) (text : Option Text) (m : Mapping) (o : Orig)
    (ha : IsAscii Tin) (hl : Tin.length ≤ USIZE_MAX) (hs : sortedFrom 1 0 (decode Min.mappings))
    (hsegok : ∀ x ∈ decode Min.mappings, SegOK (splitLines Tin) (adv startPos Tin).line (adv startPos Tin).col x)
    (hrec : ∀ L, 1 ≤ L → segsAt st.lineData L = ((chunkMs (streamSM Tin Min ⟨true, false⟩).evs).filter fun x => x.gl == L).map toSeg)
    (ho : m.orig = some o) (hsrc : (o.src : Int) = st.innerSourceIndex)
    (j : Nat) (hj : j < Tin.length) (hpos : adv startPos (Tin.take j) = ⟨o.line, o.col⟩) :
    (∀ o', lookupCols (decode Min.mappings) o.line o.col = some o' →
      ∃ pre out g, (combOnChunk cfg st text m).2 = pre ++ [Ev.chunk text ⟨m.gl, m.gc, out⟩] ∧ evsKeys pre = [] ∧ g ≤ o.col
        ∧ ∀ y, out = some y → y.line = o'.line ∧ (y.col = o'.col ∨ y.col = o'.col + (o.col - g)))
    ∧ (lookupCols (decode Min.mappings) o.line o.col = none →
        ∀ idx, findInner st o.line o.col = some idx → ((st.lineData.getD (o.line - 1) {}).segs.getD idx default).src < 0) := by
  -- the inner stream and its chunk mappings
  have hin : MapInside Tin Min := fun x hx => (hsegok x hx).1
  have hp : PosOK (streamSM Tin Min ⟨true, false⟩) := streamSM_posOK Tin Min true ha hl (fun _ => hin)
  have hTL := streamSM_tl Tin Min true
  have hsorted := chunkMs_sorted _ [] hp.1 hTL
  have hpw := ((sortedFrom_iff _ _ _).1 hsorted).2
  have hlk0 := streamSMFull_lookEq Tin Min ha hl hs hsegok j hj
  rw [hpos] at hlk0
  have hcm : lookupCols (chunkMs (streamSMFull Tin Min).evs) o.line o.col = lookupCols (decode Min.mappings) o.line o.col := hlk0
  simp only [streamSM] at hrec hpw
  have hL : 1 ≤ o.line := by
    have e1 : startPos.line = 1 := rfl
    have := adv_ge (Tin.take j) startPos
    rw [hpos] at this
    rcases this with g | g <;> simp only at g <;> omega
  have hlen : st.lineData.length < o.line → ((chunkMs (streamSMFull Tin Min).evs).filter fun x => x.gl == o.line) = [] := by
    intro hlt
    have := hrec o.line hL
    unfold segsAt at this
    rw [List.getD_eq_getElem?_getD, List.getElem?_eq_none (by omega)] at this
    simp only [Option.getD_none] at this
    exact List.map_eq_nil_iff.1 this.symm
  have hfind := findInner_lookup st (chunkMs (streamSMFull Tin Min).evs) hpw o.line o.col hL (hrec o.line hL) hlen
  constructor
  · intro o' ho'
    cases hf : findInner st o.line o.col with
    | none =>
      rw [hf] at hfind
      simp only at hfind
      have : lookupCols (chunkMs (streamSMFull Tin Min).evs) o.line o.col = none := by unfold lookupCols; rw [hfind]; rfl
      rw [← hcm, this] at ho'
      cases ho'
    | some idx =>
      rw [hf] at hfind
      obtain ⟨hidx, hsegeq, hlook⟩ := hfind
      have hlk : lookupCols (chunkMs (streamSMFull Tin Min).evs) o.line o.col
          = (((chunkMs (streamSMFull Tin Min).evs).filter fun x => x.gl == o.line).getD idx default).orig := by
        unfold lookupCols; rw [hlook]; rfl
      rw [← hcm, hlk] at ho'
      -- the segment found is the recorded form of a mapping whose original location is `o'`
      have hdefeq : (st.lineData.getD (o.line - 1) {}).segs.getD idx default
          = toSeg (((chunkMs (streamSMFull Tin Min).evs).filter fun x => x.gl == o.line).getD idx default) := hsegeq
      have hmapped : ((st.lineData.getD (o.line - 1) {}).segs.getD idx default).src ≥ 0 := by
        rw [hdefeq]; simp only [toSeg, ho']; omega
      obtain ⟨pre, out, e1, e2, e3⟩ := c09_compose_chunk cfg st text m o ho hsrc idx hf hmapped
      refine ⟨pre, out, (((chunkMs (streamSMFull Tin Min).evs).filter fun x => x.gl == o.line).getD idx default).gc, e1, e2, ?_, ?_⟩
      · -- the covering segment starts at or before the column
        have hmem : ((chunkMs (streamSMFull Tin Min).evs).filter fun x => x.gl == o.line).getD idx default ∈ (chunkMs (streamSMFull Tin Min).evs).filter fun x => x.gl == o.line := by
          rw [List.getD_eq_getElem?_getD, List.getElem?_eq_getElem hidx]; exact List.getElem_mem hidx
        -- it is the mapping the lookup selected, which matches `(o.line, o.col)`
        have hsel : ∀ (ms : List Mapping) (acc : Option (Option Orig)) (x : Mapping), lookupGo o.line o.col acc ms = some x.orig → True := fun _ _ _ _ => trivial
        -- use the bisection spec through `findInner_lookup`'s first component: index below the count of segments with gc ≤ col
        have hfs := (c09_findInner_spec st o.line o.col (by omega) (by
            rcases Nat.lt_or_ge st.lineData.length o.line with h | h
            · have := hlen h; rw [this] at hidx; simp at hidx
            · simpa using h) (by
            have := hrec o.line hL
            unfold segsAt at this
            have e : (Int.toNat (o.line : Int)) - 1 = o.line - 1 := by simp
            rw [e]
            have hd : (default : LineData) = {} := rfl
            rw [hd, this]
            exact filter_sorted _ _ hpw)).1 idx hf
        have hgc := hfs.2.1
        have e : (Int.toNat (o.line : Int)) - 1 = o.line - 1 := by simp
        rw [e] at hgc
        have hd : (default : LineData) = {} := rfl
        rw [hd, hdefeq] at hgc
        simp only [toSeg] at hgc
        exact Int.ofNat_le.1 hgc
      · intro y hy
        obtain ⟨h1, h2⟩ := e3 y hy
        rw [hdefeq] at h1 h2
        simp only [toSeg, ho'] at h1 h2
        refine ⟨by simpa using h1, ?_⟩
        rcases h2 with h2 | h2
        · exact Or.inl (by simpa using h2)
        · refine Or.inr ?_
          rw [h2]
          have hg : (((chunkMs (streamSMFull Tin Min).evs).filter fun x => x.gl == o.line).getD idx default).gc ≤ o.col := by
            have hfs := (c09_findInner_spec st o.line o.col (by omega) (by
                rcases Nat.lt_or_ge st.lineData.length o.line with h | h
                · have := hlen h; rw [this] at hidx; simp at hidx
                · simpa using h) (by
                have := hrec o.line hL
                unfold segsAt at this
                have e : (Int.toNat (o.line : Int)) - 1 = o.line - 1 := by simp
                rw [e]
                have hd : (default : LineData) = {} := rfl
                rw [hd, this]
                exact filter_sorted _ _ hpw)).1 idx hf
            have hgc := hfs.2.1
            have e : (Int.toNat (o.line : Int)) - 1 = o.line - 1 := by simp
            rw [e] at hgc
            have hd : (default : LineData) = {} := rfl
            rw [hd, hdefeq] at hgc
            simp only [toSeg] at hgc
            exact Int.ofNat_le.1 hgc
          omega
  · intro hnone idx hf
    rw [hf] at hfind
    obtain ⟨_, hsegeq, hlook⟩ := hfind
    have hlk : lookupCols (chunkMs (streamSMFull Tin Min).evs) o.line o.col
        = (((chunkMs (streamSMFull Tin Min).evs).filter fun x => x.gl == o.line).getD idx default).orig := by
      unfold lookupCols; rw [hlook]; rfl
    rw [← hcm, hlk] at hnone
    have hdefeq : (st.lineData.getD (o.line - 1) {}).segs.getD idx default
        = toSeg (((chunkMs (streamSMFull Tin Min).evs).filter fun x => x.gl == o.line).getD idx default) := hsegeq
    rw [hdefeq]
    simp only [toSeg, hnone]
    omega

/-! ## the translation tables, at name level, for the whole stream -/

/-- **C09, pass-through and fall-back, whole stream, at name level**: every chunk of the combined stream comes from one chunk of
the outer map's stream with the same text at the same generated position, and — unless it was composed with a segment recorded
from the inner map (second alternative: the outer chunk points into the inner source, the line is the segment's and the column is
the segment's start or that start plus the offset into it) — a mapped chunk names, through the announcements of the combined
stream, the same file as the outer chunk does through the outer stream's announcements, at the same original line and column, and
a name it carries is the outer chunk's name.  For an outer chunk that points into the inner source where the inner map has no
mapping this is "attributed to the inner source itself"; for the others "pass through unchanged".  The proof is the invariant
`KInv` on the nine translation tables; it fails for the pinned tree's de-duplication key (fix F15). -/
theorem c09_tables_pass (t : Text) (sm : SMap) (n : Text) (os : Option Text) (im : SMap) (rm : Bool) (o : Opts)
    (h1 : MapIdxOK sm) (h2 : MapIdxOK im) :
    ∀ t' mm, Ev.chunk t' mm ∈ (streamCombined t sm n os im rm o).evs →
      ∃ m, Ev.chunk t' m ∈ (streamSM t sm o).evs ∧ mm.gl = m.gl ∧ mm.gc = m.gc ∧
        ((∀ y, mm.orig = some y → ∃ a, m.orig = some a
            ∧ (annS (streamCombined t sm n os im rm o).evs)[y.src]? = (annS (streamSM t sm o).evs)[a.src]? ∧ a.src < (annS (streamSM t sm o).evs).length
            ∧ y.line = a.line ∧ y.col = a.col
            ∧ ∀ k, y.name = some k → ∃ k', a.name = some k' ∧ (annN (streamCombined t sm n os im rm o).evs)[k]? = (annN (streamSM t sm o).evs)[k']?
                ∧ k' < (annN (streamSM t sm o).evs).length)
         ∨ (∃ (a : Orig) (seg : InnerSeg), m.orig = some a ∧ (annS (streamSM t sm o).evs)[a.src]? = some n ∧ 0 ≤ seg.src ∧ ∀ y, mm.orig = some y →
              y.line = seg.line.toNat ∧ (y.col = seg.col.toNat ∨ (seg.gc < a.col ∧ y.col = (seg.col + ((a.col : Int) - seg.gc)).toNat)))) :=
  streamCombined_pass t sm n os im rm o h1 h2

/-- the invariant is about a real state: on the witness of F15 (generated text `"abc"`, outer sources `abc` and `in.js`, inner source
`z.js`; the chunk at column 1 falls back to the inner source, the one at column 2 is composed) three files are announced, each once
— the pinned tree announced `z.js` under the index already given to `in.js` -/
example : annS (streamCombined [97, 98, 99] ⟨[65, 65, 65, 65, 44, 67, 67, 65, 65, 44, 67, 65, 65, 75], [[97, 98, 99], [105, 110, 46, 106, 115]], [], [], none, none, none⟩
      [105, 110, 46, 106, 115] (some [104, 101, 108, 108, 111, 32, 119, 111, 114, 108, 100])
      ⟨[75, 65, 65, 65], [[122, 46, 106, 115]], [], [], none, none, none⟩ false ⟨true, false⟩).evs
    = [[97, 98, 99], [105, 110, 46, 106, 115], [122, 46, 106, 115]] := by decide

/-! ## composed chunks, for the whole stream, in terms of the inner map -/

/-- **C09, composition, whole stream (columns = true, the stream an outside caller obtains).**  `Tin` is the text the inner map is
streamed over (the supplied original source, else the content the outer map lists for the inner source); the inner source is listed
once among the outer map's sources (`OnceInner`); both maps reference existing entries of their own tables; the inner map is
sorted with every mapped segment on a character of `Tin`.  Every chunk of the combined stream comes from one chunk of the outer
map's stream, with the same text at the same generated position, and when that outer chunk points into the inner source at the
position of a character of `Tin`:
* where the inner map assigns `o'` (greatest segment at or before the position on its line), a mapped delivered chunk names —
  through the announcements of the combined stream — the file the inner map's own stream announces under `o'.src`, at `o'`'s
  original line, at `o'`'s column or that column plus an offset into the segment (smaller than the outer column);
* where the inner map assigns nothing, the chunk is unmapped when removal of the original source is requested, and otherwise
  names the inner source itself at the outer chunk's own line and column.
Together with `c09_tables_pass` (all other chunks pass through unchanged) and C03-T3 for the combinator (`map()` = this stream) this is
the property's attribution clause; the content clause and the name rule are decided by the oracle. -/
theorem c09_stream_compose (t : Text) (sm : SMap) (n : Text) (os : Option Text) (im : SMap) (rm : Bool) (Tin : Text)
    (h1 : MapIdxOK sm) (h2 : MapIdxOK im) (honce : OnceInner n (smSourceEvs sm ++ smNameEvs sm))
    (hTin : ∀ k c, Ev.source k n c ∈ smSourceEvs sm ++ smNameEvs sm → (os.or c).getD [] = Tin)
    (ha : IsAscii Tin) (hl : Tin.length ≤ USIZE_MAX) (hs : sortedFrom 1 0 (decode im.mappings))
    (hseg : ∀ x ∈ decode im.mappings, SegOK (splitLines Tin) (adv startPos Tin).line (adv startPos Tin).col x) :
    ∀ t' mm, Ev.chunk t' mm ∈ (streamCombined t sm n os im rm ⟨true, false⟩).evs →
      ∃ m, Ev.chunk t' m ∈ (streamSM t sm ⟨true, false⟩).evs ∧ mm.gl = m.gl ∧ mm.gc = m.gc ∧
        ∀ a, m.orig = some a → (annS (streamSM t sm ⟨true, false⟩).evs)[a.src]? = some n →
          ∀ j, j < Tin.length → adv startPos (Tin.take j) = ⟨a.line, a.col⟩ →
            (∀ o', lookupCols (decode im.mappings) a.line a.col = some o' → ∀ y, mm.orig = some y →
                (annS (streamCombined t sm n os im rm ⟨true, false⟩).evs)[y.src]? = (annS (streamSM Tin im ⟨true, false⟩).evs)[o'.src]?
                ∧ o'.src < (annS (streamSM Tin im ⟨true, false⟩).evs).length
                ∧ y.line = o'.line ∧ (y.col = o'.col ∨ ∃ g, g < a.col ∧ y.col = o'.col + (a.col - g)))
            ∧ (lookupCols (decode im.mappings) a.line a.col = none →
                (rm = true → mm.orig = none)
                ∧ ∀ y, mm.orig = some y → (annS (streamCombined t sm n os im rm ⟨true, false⟩).evs)[y.src]? = some n ∧ y.line = a.line ∧ y.col = a.col) :=
  streamCombined_compose t sm n os im rm Tin h1 h2 honce hTin ha hl hs hseg

/-- **C09, contents, whole stream.**  Every file the combined stream reports carries a matching content: a file of the outer map other
than the inner source with the content the outer map's stream announces for it; the inner source itself with the supplied original
source (else the content the outer map lists for it); or a file of the inner map with the content the inner map's own stream
announces (its `sourcesContent`) -/
theorem c09_contents (t : Text) (sm : SMap) (n : Text) (os : Option Text) (im : SMap) (rm : Bool) (Tin : Text)
    (h1 : MapIdxOK sm) (h2 : MapIdxOK im) (honce : OnceInner n (smSourceEvs sm ++ smNameEvs sm))
    (hTin : ∀ k c, Ev.source k n c ∈ smSourceEvs sm ++ smNameEvs sm → (os.or c).getD [] = Tin)
    (ha : IsAscii Tin) (hl : Tin.length ≤ USIZE_MAX) (hseg : MapInside Tin im) :
    ∀ i s cc, Ev.source i s cc ∈ (streamCombined t sm n os im rm ⟨true, false⟩).evs →
      (∃ j, Ev.source j s cc ∈ (streamSM t sm ⟨true, false⟩).evs ∧ s ≠ n)
      ∨ (s = n ∧ ∃ k c, Ev.source k n c ∈ (streamSM t sm ⟨true, false⟩).evs ∧ cc = os.or c)
      ∨ (∃ j, Ev.source j s cc ∈ (streamSM Tin im ⟨true, false⟩).evs) :=
  streamCombined_contents t sm n os im rm Tin h1 h2 honce hTin ha hl hseg

/-- **C09, the name rule of composed chunks, whole stream**: "the inner name, else the outer name only if it matches the original text".
In the situation of `c09_stream_compose` with the inner map assigning `o'`: a name the delivered chunk carries is the name the inner
map's own stream announces for `o'` (then the column was not advanced), or the outer chunk's name — and the latter only if it equals
the original text, of the name's length, at the delivered location in the content the inner map's stream announces for `o'`'s file -/
theorem c09_names (t : Text) (sm : SMap) (n : Text) (os : Option Text) (im : SMap) (rm : Bool) (Tin : Text)
    (h1 : MapIdxOK sm) (h2 : MapIdxOK im) (honce : OnceInner n (smSourceEvs sm ++ smNameEvs sm))
    (hTin : ∀ k c, Ev.source k n c ∈ smSourceEvs sm ++ smNameEvs sm → (os.or c).getD [] = Tin)
    (ha : IsAscii Tin) (hl : Tin.length ≤ USIZE_MAX) (hs : sortedFrom 1 0 (decode im.mappings))
    (hseg : ∀ x ∈ decode im.mappings, SegOK (splitLines Tin) (adv startPos Tin).line (adv startPos Tin).col x) :
    ∀ t' mm, Ev.chunk t' mm ∈ (streamCombined t sm n os im rm ⟨true, false⟩).evs →
      ∃ m, Ev.chunk t' m ∈ (streamSM t sm ⟨true, false⟩).evs ∧ mm.gl = m.gl ∧ mm.gc = m.gc ∧
        ∀ a, m.orig = some a → (annS (streamSM t sm ⟨true, false⟩).evs)[a.src]? = some n →
          ∀ j, j < Tin.length → adv startPos (Tin.take j) = ⟨a.line, a.col⟩ →
            ∀ o', lookupCols (decode im.mappings) a.line a.col = some o' → ∀ y, mm.orig = some y → ∀ k, y.name = some k →
              (∃ i, o'.name = some i ∧ y.col = o'.col
                  ∧ (annN (streamCombined t sm n os im rm ⟨true, false⟩).evs)[k]? = (annN (streamSM Tin im ⟨true, false⟩).evs)[i]?
                  ∧ i < (annN (streamSM Tin im ⟨true, false⟩).evs).length)
              ∨ (∃ i nm c, a.name = some i ∧ (annN (streamSM t sm ⟨true, false⟩).evs)[i]? = some nm
                  ∧ (annN (streamCombined t sm n os im rm ⟨true, false⟩).evs)[k]? = some nm
                  ∧ ((annSC (streamSM Tin im ⟨true, false⟩).evs)[o'.src]?).map (·.2) = some (some c)
                  ∧ nm = origTextAt (splitLines c) o'.line y.col nm.length) :=
  streamCombined_names t sm n os im rm Tin h1 h2 honce hTin ha hl hs hseg

/-! ## columns = false -/

/-- **C09, composition, whole stream, columns = false** ((file, line) granularity).  Every chunk of the combined stream comes from one
chunk of the outer map's line-granular stream, with the same text at the same generated position.  When that outer chunk points
into the inner source at a line `L` of the inner text: if the inner map has a mapped segment on generated line `L` — the first one,
`p` = (source index, original line) — a mapped delivered chunk names the file the inner map's own stream announces under `p.1`, at
original line `p.2`; otherwise the chunk is unmapped when removal is requested, and else names the inner source itself at the outer
location. -/
theorem c09_stream_compose_lines (t : Text) (sm : SMap) (n : Text) (os : Option Text) (im : SMap) (rm : Bool) (Tin : Text)
    (h1 : MapIdxOK sm) (h2 : MapIdxOK im) (honce : OnceInner n (smSourceEvs sm))
    (hTin : ∀ k c, Ev.source k n c ∈ smSourceEvs sm → (os.or c).getD [] = Tin)
    (hs : sortedFrom 1 0 (decode im.mappings)) :
    ∀ t' mm, Ev.chunk t' mm ∈ (streamCombined t sm n os im rm ⟨false, false⟩).evs →
      ∃ m, Ev.chunk t' m ∈ (streamSM t sm ⟨false, false⟩).evs ∧ mm.gl = m.gl ∧ mm.gc = m.gc ∧
        ∀ a, m.orig = some a → (annS (streamSM t sm ⟨false, false⟩).evs)[a.src]? = some n → 1 ≤ a.line → a.line ≤ (splitLines Tin).length →
          (∀ p, lookupLines (decode im.mappings) a.line = some p → ∀ y, mm.orig = some y →
              (annS (streamCombined t sm n os im rm ⟨false, false⟩).evs)[y.src]? = (annS (streamSM Tin im ⟨false, false⟩).evs)[p.1]?
              ∧ p.1 < (annS (streamSM Tin im ⟨false, false⟩).evs).length ∧ y.line = p.2)
          ∧ (lookupLines (decode im.mappings) a.line = none →
              (rm = true → mm.orig = none)
              ∧ ∀ y, mm.orig = some y → (annS (streamCombined t sm n os im rm ⟨false, false⟩).evs)[y.src]? = some n ∧ y.line = a.line ∧ y.col = a.col) :=
  streamCombined_composeL t sm n os im rm Tin h1 h2 honce hTin hs

/-- contents, columns = false -/
theorem c09_contents_lines (t : Text) (sm : SMap) (n : Text) (os : Option Text) (im : SMap) (rm : Bool) (Tin : Text)
    (h1 : MapIdxOK sm) (h2 : MapIdxOK im) (honce : OnceInner n (smSourceEvs sm))
    (hTin : ∀ k c, Ev.source k n c ∈ smSourceEvs sm → (os.or c).getD [] = Tin) :
    ∀ i s cc, Ev.source i s cc ∈ (streamCombined t sm n os im rm ⟨false, false⟩).evs →
      (∃ j, Ev.source j s cc ∈ (streamSM t sm ⟨false, false⟩).evs ∧ s ≠ n)
      ∨ (s = n ∧ ∃ k c, Ev.source k n c ∈ (streamSM t sm ⟨false, false⟩).evs ∧ cc = os.or c)
      ∨ (∃ j, Ev.source j s cc ∈ (streamSM Tin im ⟨false, false⟩).evs) :=
  streamCombined_contentsL t sm n os im rm Tin h1 h2 honce hTin

/-- names, columns = false: dropped -/
theorem c09_names_lines (t : Text) (sm : SMap) (n : Text) (os : Option Text) (im : SMap) (rm : Bool) (Tin : Text)
    (h1 : MapIdxOK sm) (h2 : MapIdxOK im) (honce : OnceInner n (smSourceEvs sm))
    (hTin : ∀ k c, Ev.source k n c ∈ smSourceEvs sm → (os.or c).getD [] = Tin) :
    ∀ t' mm, Ev.chunk t' mm ∈ (streamCombined t sm n os im rm ⟨false, false⟩).evs → ∀ y, mm.orig = some y → y.name = none :=
  streamCombined_namesL t sm n os im rm Tin h1 h2 honce hTin

/-- non-vacuity: the hypotheses hold for the witness of F15 (outer sources `abc`, `in.js`; inner map `KAAA` over `"hello world"`) -/
example : OnceInner [105, 110, 46, 106, 115]
      (smSourceEvs ⟨[65, 65, 65, 65, 44, 67, 67, 65, 65, 44, 67, 65, 65, 75], [[97, 98, 99], [105, 110, 46, 106, 115]], [], [], none, none, none⟩
        ++ smNameEvs ⟨[65, 65, 65, 65, 44, 67, 67, 65, 65, 44, 67, 65, 65, 75], [[97, 98, 99], [105, 110, 46, 106, 115]], [], [], none, none, none⟩)
    ∧ sortedFrom 1 0 (decode [75, 65, 65, 65])
    ∧ (∀ x ∈ decode [75, 65, 65, 65], SegOK (splitLines [104, 101, 108, 108, 111, 32, 119, 111, 114, 108, 100])
        (adv startPos [104, 101, 108, 108, 111, 32, 119, 111, 114, 108, 100]).line (adv startPos [104, 101, 108, 108, 111, 32, 119, 111, 114, 108, 100]).col x) := by
  have hdec : decode [75, 65, 65, 65] = [⟨1, 5, some ⟨0, 1, 0, none⟩⟩] := by decide
  refine ⟨?_, ?_, ?_⟩
  · simp [smSourceEvs, smNameEvs, OnceInner, List.range, List.range.loop, applyRoot]
  · rw [hdec]; exact ⟨Or.inr ⟨rfl, by decide⟩, trivial⟩
  · intro x hx
    rw [hdec] at hx
    simp only [List.mem_singleton] at hx
    subst hx
    exact ⟨⟨by decide, fun _ => by decide⟩, fun _ => by decide, by decide⟩

end Rs
