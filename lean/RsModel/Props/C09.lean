import RsModel.Model.Combined
/-!
# C09 — combined source maps compose outer and inner attribution
(the pass-through and removal branches; the composition through the inner map is tied by correspondence)
-/
namespace Rs

/-- an unmapped outer chunk stays unmapped and keeps its text and position -/
theorem c09_unmapped_passthrough (cfg : CombCfg) (st : CombSt) (text : Option Text) (gl gc : Nat)
    (h : st.innerSourceIndex ≠ -1) :
    (combOnChunk cfg st text ⟨gl, gc, none⟩).2 = [.chunk text ⟨gl, gc, none⟩] := by
  simp [combOnChunk, h.symm, combPass]

/-- a chunk pointing to a source other than the inner one is passed through with the same original line and
column, under the globally announced index of that source -/
theorem c09_other_source_passthrough (cfg : CombCfg) (st : CombSt) (text : Option Text) (gl gc : Nat) (o : Orig)
    (hother : (o.src : Int) ≠ st.innerSourceIndex) (g : Int) (hg : st.sourceIndexMapping[o.src]? = some g) (hg0 : 0 ≤ g)
    (hn : o.name = none) :
    (combOnChunk cfg st text ⟨gl, gc, some o⟩).2 = [.chunk text ⟨gl, gc, some ⟨g.toNat, o.line, o.col, none⟩⟩] := by
  have h1 : ((o.src : Int) == st.innerSourceIndex) = false := by simpa using hother
  have h2 : ¬ ((o.src : Int) < 0) := by omega
  have h3 : ¬ (g < 0) := by omega
  simp [combOnChunk, h1, combPass, h2, hg, h3, hn]

/-- the hand-written bisection never returns an index beyond the segment list -/
theorem c09_bisect_le (segs : List InnerSeg) (col : Int) : ∀ (fuel l r : Nat), l ≤ r → r ≤ segs.length →
    bisect segs col fuel l r ≤ segs.length := by
  intro fuel
  induction fuel with
  | zero => intro l r h1 h2; simp [bisect]; omega
  | succ n ih =>
    intro l r h1 h2
    simp only [bisect]
    split
    · split
      · exact ih _ _ (by omega) h2
      · exact ih _ _ (by omega) (by omega)
    · omega

end Rs
