import RsModel.Model.Tree
import RsModel.Lemmas.RopeTree
/-!
# C07 — all content views of a source agree
-/
namespace Rs

mutual
/-- `size()` equals `buffer().len()` for every tree -/
theorem Src.size_eq_buffer : (s : Src) → s.size = s.buffer.length
  | .raw _ _ _ => by simp [Src.size, Src.buffer]
  | .rawStr _ => by simp [Src.size, Src.buffer]
  | .rawBuf _ _ => by simp [Src.size, Src.buffer]
  | .orig _ _ => by simp [Src.size, Src.buffer]
  | .sms _ _ _ _ _ _ => by simp [Src.size, Src.buffer]
  | .concat cs => by simp [Src.size, Src.buffer, SrcList.sizes_eq_buffers cs]
  | .replace _ _ => by simp [Src.size, Src.buffer]
  | .cached _ inner => by simp [Src.size, Src.buffer, Src.size_eq_buffer inner]
theorem SrcList.sizes_eq_buffers : (l : SrcList) → l.sizes = l.buffers.length
  | .nil => by simp [SrcList.sizes, SrcList.buffers]
  | .cons s r => by simp [SrcList.sizes, SrcList.buffers, Src.size_eq_buffer s, SrcList.sizes_eq_buffers r]
end

theorem c07_size (s : Src) : s.size = s.buffer.length := Src.size_eq_buffer s

theorem writeAll_ok (b : Nat) (w d : Text) (h : d.length ≤ b) : writeAll b w d = (true, b - d.length, w ++ d) := by
  simp [writeAll, h]

mutual
/-- with enough budget `to_writer` succeeds and appends exactly `buffer()` -/
theorem Src.toWriter_ok : (s : Src) → (b : Nat) → (w : Text) → s.buffer.length ≤ b →
    s.toWriter b w = (true, b - s.buffer.length, w ++ s.buffer)
  | .raw _ _ _, b, w, h => by simpa [Src.toWriter, Src.buffer] using writeAll_ok b w _ h
  | .rawStr _, b, w, h => by simpa [Src.toWriter, Src.buffer] using writeAll_ok b w _ h
  | .rawBuf _ _, b, w, h => by simpa [Src.toWriter, Src.buffer] using writeAll_ok b w _ h
  | .orig _ _, b, w, h => by simpa [Src.toWriter, Src.buffer] using writeAll_ok b w _ h
  | .sms _ _ _ _ _ _, b, w, h => by simpa [Src.toWriter, Src.buffer] using writeAll_ok b w _ h
  | .concat cs, b, w, h => by simpa [Src.toWriter, Src.buffer] using SrcList.toWriters_ok cs b w h
  | .replace _ _, b, w, h => by simpa [Src.toWriter, Src.buffer] using writeAll_ok b w _ h
  | .cached _ inner, b, w, h => by simpa [Src.toWriter, Src.buffer] using Src.toWriter_ok inner b w h
theorem SrcList.toWriters_ok : (l : SrcList) → (b : Nat) → (w : Text) → l.buffers.length ≤ b →
    l.toWriters b w = (true, b - l.buffers.length, w ++ l.buffers)
  | .nil, b, w, _ => by simp [SrcList.toWriters, SrcList.buffers]
  | .cons s r, b, w, h => by
    simp only [SrcList.buffers, List.length_append] at h
    rw [SrcList.toWriters, Src.toWriter_ok s b w (by omega)]
    simp only
    rw [SrcList.toWriters_ok r _ _ (by omega)]
    simp [SrcList.buffers, Nat.sub_sub]
end

/-- `to_writer` into a writer that does not fail writes exactly `buffer()` -/
theorem c07_to_writer (s : Src) (b : Nat) (h : s.buffer.length ≤ b) :
    (s.toWriter b []).1 = true ∧ (s.toWriter b []).2.2 = s.buffer := by
  rw [Src.toWriter_ok s b [] h]; simp

theorem writeAll_fail (b : Nat) (w d : Text) (h : b < d.length) : (writeAll b w d).1 = false := by
  unfold writeAll
  have : ¬ d.length ≤ b := by omega
  simp [this]

theorem writeAll_prefix (b : Nat) (w d : Text) : ∃ x, (writeAll b w d).2.2 = w ++ x ∧ x <+: d := by
  unfold writeAll; split
  · exact ⟨d, rfl, List.prefix_refl d⟩
  · exact ⟨d.take b, rfl, List.take_prefix b d⟩

mutual
/-- whatever the writer's budget, what was written (beyond `w`) is a prefix of `buffer()` -/
theorem Src.toWriter_prefix : (s : Src) → (b : Nat) → (w : Text) →
    ∃ x, (s.toWriter b w).2.2 = w ++ x ∧ x <+: s.buffer
  | .raw _ _ _, b, w => by simpa [Src.toWriter, Src.buffer] using writeAll_prefix b w _
  | .rawStr _, b, w => by simpa [Src.toWriter, Src.buffer] using writeAll_prefix b w _
  | .rawBuf _ _, b, w => by simpa [Src.toWriter, Src.buffer] using writeAll_prefix b w _
  | .orig _ _, b, w => by simpa [Src.toWriter, Src.buffer] using writeAll_prefix b w _
  | .sms _ _ _ _ _ _, b, w => by simpa [Src.toWriter, Src.buffer] using writeAll_prefix b w _
  | .concat cs, b, w => by simpa [Src.toWriter, Src.buffer] using SrcList.toWriters_prefix cs b w
  | .replace _ _, b, w => by simpa [Src.toWriter, Src.buffer] using writeAll_prefix b w _
  | .cached _ inner, b, w => by simpa [Src.toWriter, Src.buffer] using Src.toWriter_prefix inner b w
theorem SrcList.toWriters_prefix : (l : SrcList) → (b : Nat) → (w : Text) →
    ∃ x, (l.toWriters b w).2.2 = w ++ x ∧ x <+: l.buffers
  | .nil, b, w => ⟨[], by simp [SrcList.toWriters], by simp⟩
  | .cons s r, b, w => by
    obtain ⟨x, hx, px⟩ := Src.toWriter_prefix s b w
    rw [SrcList.toWriters]
    rcases hs : s.toWriter b w with ⟨ok, b', w'⟩
    rw [hs] at hx
    simp only at hx
    cases ok
    · exact ⟨x, hx, List.IsPrefix.trans px (by simp [SrcList.buffers])⟩
    · -- success implies everything of `s.buffer` was written; shown via the budget lemma below
      simp only
      obtain ⟨y, hy, py⟩ := SrcList.toWriters_prefix r b' w'
      by_cases hb : s.buffer.length ≤ b
      · have := Src.toWriter_ok s b w hb
        rw [hs] at this
        simp only [Prod.mk.injEq, true_and] at this
        refine ⟨s.buffer ++ y, ?_, ?_⟩
        · rw [hy, this.2]; simp
        · simp only [SrcList.buffers]
          exact (List.prefix_append_right_inj _).mpr py
      · -- cannot succeed without budget
        exfalso
        have := Src.toWriter_fail s b w (by omega)
        rw [hs] at this
        simp at this
/-- without enough budget `to_writer` reports the error -/
theorem Src.toWriter_fail : (s : Src) → (b : Nat) → (w : Text) → b < s.buffer.length → (s.toWriter b w).1 = false
  | .raw _ _ _, b, w, h => by simpa [Src.toWriter, Src.buffer] using writeAll_fail b w _ (by simpa [Src.buffer] using h)
  | .rawStr _, b, w, h => by simpa [Src.toWriter, Src.buffer] using writeAll_fail b w _ (by simpa [Src.buffer] using h)
  | .rawBuf _ _, b, w, h => by simpa [Src.toWriter, Src.buffer] using writeAll_fail b w _ (by simpa [Src.buffer] using h)
  | .orig _ _, b, w, h => by simpa [Src.toWriter, Src.buffer] using writeAll_fail b w _ (by simpa [Src.buffer] using h)
  | .sms _ _ _ _ _ _, b, w, h => by simpa [Src.toWriter, Src.buffer] using writeAll_fail b w _ (by simpa [Src.buffer] using h)
  | .concat cs, b, w, h => by simpa [Src.toWriter, Src.buffer] using SrcList.toWriters_fail cs b w (by simpa [Src.buffer] using h)
  | .replace _ _, b, w, h => by simpa [Src.toWriter, Src.buffer] using writeAll_fail b w _ (by simpa [Src.buffer] using h)
  | .cached _ inner, b, w, h => by simpa [Src.toWriter, Src.buffer] using Src.toWriter_fail inner b w (by simpa [Src.buffer] using h)
theorem SrcList.toWriters_fail : (l : SrcList) → (b : Nat) → (w : Text) → b < l.buffers.length → (l.toWriters b w).1 = false
  | .nil, b, w, h => by simp [SrcList.buffers] at h
  | .cons s r, b, w, h => by
    simp only [SrcList.buffers, List.length_append] at h
    rw [SrcList.toWriters]
    by_cases hb : s.buffer.length ≤ b
    · rw [Src.toWriter_ok s b w hb]
      simp only
      exact SrcList.toWriters_fail r _ _ (by omega)
    · have := Src.toWriter_fail s b w (by omega)
      rcases hs : s.toWriter b w with ⟨ok, b', w'⟩
      rw [hs] at this
      simp only at this
      subst this
      rfl
end

/-- a writer failing after `k < len` bytes: `to_writer` returns the error having written a prefix of `buffer()` -/
theorem c07_failing_writer (s : Src) (k : Nat) (h : k < s.buffer.length) :
    (s.toWriter k []).1 = false ∧ (s.toWriter k []).2.2 <+: s.buffer := by
  refine ⟨Src.toWriter_fail s k [] h, ?_⟩
  obtain ⟨x, hx, px⟩ := Src.toWriter_prefix s k []
  rw [hx]; simpa using px

/-- a ConcatSource's source and buffer are the concatenations of its children's, in order -/
theorem c07_concat (cs : SrcList) : (Src.concat cs).src = cs.srcs ∧ (Src.concat cs).buffer = cs.buffers :=
  ⟨by simp [Src.src], by simp [Src.buffer]⟩

/-- binary leaf: `buffer()` is the exact bytes, `source()` their lossy decoding (std's, a parameter of the model) -/
theorem c07_binary (b l : Text) : (Src.rawBuf b l).buffer = b ∧ (Src.rawBuf b l).src = l := ⟨by simp [Src.buffer], by simp [Src.src]⟩

example : (Src.concat (.cons (.rawStr [97]) (.cons (.rawBuf [255] [239, 191, 189]) .nil))).size = 2 := by decide


/-- **`rope()` renders to `source()`** for every tree (all node kinds, any depth): it does not panic, and the rope it
returns stands for exactly the string `source()` returns.  `Src.RopeOK` = every text is a `&str` (does not start inside
a character) and the ends of every replacement, clamped to the wrapped text, are char boundaries of it — the property's
domain.  The proof goes through the binary searches and the piece cutting of `Rope::byte_slice` (`byteSlice_spec`). -/
theorem c07_rope (s : Src) (h : s.RopeOK) : ∃ r, s.rope = .ok r ∧ r.render = s.src :=
  let ⟨r, h1, h2, _⟩ := Src.rope_spec s h
  ⟨r, h1, h2⟩

/-- non-vacuity: a replacement across a two-child concat with a multi-byte character, one end beyond the text -/
example : (Src.replace (.concat (.cons (.rawStr [97, 0xC3, 0xA9]) (.cons (.orig [98, 99] [102]) .nil)))
    [⟨1, 3, [120], none, 1⟩, ⟨4, 99, [], none, 1⟩]).RopeOK := by
  refine ⟨⟨by simp only [Src.RopeOK]; decide, by simp only [Src.RopeOK]; decide, trivial⟩, ?_⟩
  intro r hr
  simp only [List.mem_cons, List.not_mem_nil, or_false] at hr
  rcases hr with rfl | rfl <;> exact ⟨by decide, by decide, by decide⟩


mutual
/-- every leaf holds valid UTF-8: the lossy decoding of a buffer leaf is the buffer itself -/
def Src.Utf8Leaves : Src → Prop
  | .raw _ bytes lossy => bytes = lossy
  | .rawStr _ => True
  | .rawBuf bytes lossy => bytes = lossy
  | .orig _ _ => True
  | .sms _ _ _ _ _ _ => True
  | .concat cs => cs.Utf8Leavess
  | .replace inner _ => inner.Utf8Leaves
  | .cached _ inner => inner.Utf8Leaves
def SrcList.Utf8Leavess : SrcList → Prop
  | .nil => True
  | .cons s r => s.Utf8Leaves ∧ r.Utf8Leavess
end

mutual
theorem Src.buffer_eq_src : (s : Src) → s.Utf8Leaves → s.buffer = s.src
  | .raw _ _ _, h => by simpa [Src.buffer, Src.src, Src.Utf8Leaves] using h
  | .rawStr _, _ => rfl
  | .rawBuf _ _, h => by simpa [Src.buffer, Src.src, Src.Utf8Leaves] using h
  | .orig _ _, _ => rfl
  | .sms _ _ _ _ _ _, _ => rfl
  | .concat cs, h => by simp only [Src.buffer, Src.src]; exact SrcList.buffers_eq_srcs cs h
  | .replace _ _, _ => rfl
  | .cached _ inner, h => by simp only [Src.buffer, Src.src]; exact Src.buffer_eq_src inner h
theorem SrcList.buffers_eq_srcs : (l : SrcList) → l.Utf8Leavess → l.buffers = l.srcs
  | .nil, _ => rfl
  | .cons s r, h => by
    simp only [SrcList.buffers, SrcList.srcs]
    rw [Src.buffer_eq_src s h.1, SrcList.buffers_eq_srcs r h.2]
end

/-- when every leaf holds valid UTF-8, `buffer()` is the bytes of `source()` -/
theorem c07_utf8 (s : Src) (h : s.Utf8Leaves) : s.buffer = s.src := Src.buffer_eq_src s h

end Rs
