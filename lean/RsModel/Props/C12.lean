import RsModel.Lemmas.CodecLookup
import RsModel.Lemmas.CodecGrammar
import RsModel.Lemmas.CodecLines
/-!
# C12 — mappings codec round-trips and matches the source-map v3 format

Property theorems only (helper lemmas live in `Lemmas/`).  Domain: mapping lists whose generated
positions do not go backwards and whose numbers are `< 2^31` (`Mapping.small`), which is what keeps every
`u32` delta of the encoder and every `as u32` store of the decoder from wrapping.
-/
namespace Rs

/-- one VLQ field: the decoder adds exactly the signed delta the encoder wrote -/
theorem c12_vlq_roundtrip (a b : Nat) (ha : a < 2 ^ 31) (hb : b < 2 ^ 31) (s : DecSt)
    (h0 : s.value = 0) (h1 : s.valuePos = 0) :
    decBytes s (vlqChars a b) = (s.setField (vlqNum a b), []) ∧ addField b (vlqNum a b) = a :=
  ⟨dec_field a b s h0 h1, addField_vlq a b ha hb⟩

/-- decoding `encode_mappings ms` yields exactly the segments the encoder kept -/
theorem c12_decode_encode (ms : List Mapping) (hs : ∀ m ∈ ms, m.small) (h : sortedFrom 1 0 ms) :
    decode (encodeFull ms) = keptFrom {} ms := by
  apply decode_encode ms hs
  -- sortedness implies non-decreasing lines
  have : ∀ (ms : List Mapping) (l c : Nat), sortedFrom l c ms → linesOK l ms := by
    intro ms
    induction ms with
    | nil => intros; trivial
    | cons m ms ih => intro l c ⟨h1, h2⟩; exact ⟨by omega, ih _ _ h2⟩
  exact this ms 1 0 h

/-- the kept segments attribute every position exactly as the input did -/
theorem c12_kept_lookup (ms : List Mapping) (h : sortedFrom 1 0 ms) (l c : Nat) :
    lookupCols (keptFrom {} ms) l c = lookupCols ms l c := by
  unfold lookupCols
  exact kept_lookupGo l c ms {} none none h
    ⟨rfl, fun _ => rfl, fun _ => rfl, fun _ => rfl, fun h => by simp at h⟩

/-- hence: decode ∘ encode preserves the attribution of every position -/
theorem c12_roundtrip_lookup (ms : List Mapping) (hs : ∀ m ∈ ms, m.small) (h : sortedFrom 1 0 ms) (l c : Nat) :
    lookupCols (decode (encodeFull ms)) l c = lookupCols ms l c := by
  rw [c12_decode_encode ms hs h, c12_kept_lookup ms h]

/-- re-encoding the decoded segments gives the same string -/
theorem c12_reencode (ms : List Mapping) (hs : ∀ m ∈ ms, m.small) (h : sortedFrom 1 0 ms) :
    encodeFull (decode (encodeFull ms)) = encodeFull ms := by
  rw [c12_decode_encode ms hs h]
  exact encodeFrom_kept ms {}

/-! non-vacuity: a concrete sorted list with 1-, 4- and 5-field segments, a gap line and a dropped repeat -/
def c12_sample : List Mapping :=
  [⟨1, 0, some ⟨0, 1, 0, none⟩⟩, ⟨1, 2, none⟩, ⟨2, 2, some ⟨1, 3, 4, some 2⟩⟩, ⟨2, 4, some ⟨1, 3, 4, some 2⟩⟩,
   ⟨4, 0, some ⟨0, 1, 7, none⟩⟩, ⟨4, 3, some ⟨0, 1, 7, none⟩⟩]

example : sortedFrom 1 0 c12_sample ∧ (∀ m ∈ c12_sample, m.small) := by
  constructor
  · simp [c12_sample, sortedFrom]
  · intro m hm
    simp only [c12_sample, List.mem_cons, List.not_mem_nil, or_false] at hm
    rcases hm with rfl | rfl | rfl | rfl | rfl | rfl <;>
      simp [Mapping.small, Orig.small, U31]
-- the encoder drops exactly the repeat `⟨4, 3, …⟩` of the active location (the model's output
-- "AAAA,E;ECEIE,EAAAA;;AFFG" for this sample is compared with `encode_mappings` by the harness corpus)
example : (keptFrom {} c12_sample).length = 5 := by decide


/-! ## the decoder on every string of the v3 grammar -/

/-- on ANY string of the grammar — any number of digits per field (redundant continuation digits included), any number
of fields per segment, empty segments, several `;` in a row — the byte-level decoder is the token-level decoder -/
theorem c12_decode_grammar (lns : List (List (List VField))) :
    decode (allChars lns) = (allLines decInitSt lns).2 ++ (allLines decInitSt lns).1.pending :=
  decode_grammar lns

/-- **`decode_mappings` returns exactly the segments the format defines**: whenever the reference v3 decoder (zig-zag
deltas added to running values with range checks, column reset at `;`, segments of 1, 4 or 5 fields, empty segments
allowed, columns may go backwards) accepts a string of the grammar, the crate's decoder yields the same mappings -/
theorem c12_decode_v3 (lns : List (List (List VField))) (ms : List Mapping) (h : refAll {} 1 lns = some ms) :
    decode (allChars lns) = ms := decode_v3 lns ms h

/-- non-vacuity: `"AAAA,gB;;ECDQA"` with a redundant continuation digit, an empty line, a negative line delta and a name -/
example : refAll {} 1 [[[⟨[], 0⟩, ⟨[], 0⟩, ⟨[], 0⟩, ⟨[], 0⟩], [⟨[0], 1⟩]], [], [[⟨[], 4⟩, ⟨[], 2⟩, ⟨[], 3⟩, ⟨[], 8⟩, ⟨[], 0⟩]]]
    = some [⟨1, 0, some ⟨0, 1, 0, none⟩⟩, ⟨1, 16, none⟩, ⟨3, 2, some ⟨1, 0, 4, some 0⟩⟩] := by decide

/-! ## the lines-only encoder (`columns: false`) -/

/-- decoding what the lines-only encoder wrote yields exactly the first mapped segment of each generated line, at
column 0, original column 0, without name -/
theorem c12_lines_encoder (ms : List Mapping) (hs : ∀ m ∈ ms, ∀ o, m.orig = some o → o.src < U31 ∧ o.line < U31)
    (h : linesOK 1 ms) : decode (encodeLines ms) = keptLines {} ms := decode_lencode ms hs h

/-- … and those segments attribute every generated line (file, line) as the input did -/
theorem c12_lines_lookup (ms : List Mapping) (l : Nat) (hl : 0 < l) : lookupLines (keptLines {} ms) l = lookupLines ms l :=
  keptLines_lookup l ms {} (by simp; omega)

end Rs
