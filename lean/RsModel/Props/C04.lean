import RsModel.Model.Stream
import RsModel.Lemmas.ProvTree3
import RsModel.Lemmas.ReplaceOrig
import RsModel.Lemmas.ProvChunks
import RsModel.Lemmas.ProvBytes
import RsModel.Lemmas.SourcesOnce
import RsModel.Lemmas.ProvLines
import RsModel.Lemmas.ColdStrip
import RsModel.Lemmas.ProvRepl
import RsModel.Lemmas.ProvNest
import RsModel.Lemmas.ProvWarm
import RsModel.Lemmas.WarmLinesF
/-!
# C04 — mappings point to where the text really came from
(leaf level: an OriginalSource maps every token to its own position; the composites are tied by correspondence)
-/
namespace Rs

/-- every chunk an OriginalSource streams with columns is either unmapped (an empty line) or mapped to
exactly its own generated line and column in source 0, without name -/
theorem c04_original_identity (final : Bool) : ∀ (toks : List Text) (l c : Nat),
    ∀ e ∈ (origTokChunks final l c toks).1, ∀ t m, e = .chunk t m → m.orig = none ∨ m.orig = some ⟨0, m.gl, m.gc, none⟩ := by
  intro toks
  induction toks with
  | nil => intro l c e he; simp [origTokChunks] at he
  | cons tok toks ih =>
    intro l c e he t m hm
    simp only [origTokChunks, List.mem_append] at he
    rcases he with he | he
    · split at he
      · split at he
        · simp at he
        · simp at he; subst he; injection hm with h1 h2; subst h2; exact Or.inl rfl
      · simp at he; subst he; injection hm with h1 h2; subst h2; exact Or.inr rfl
    · split at he
      · exact ih _ _ e he t m hm
      · exact ih _ _ e he t m hm

/-- with `columns = false` every line is mapped to its own line at column 0 -/
theorem c04_original_lines : ∀ (ls : List Text) (l : Nat),
    ∀ e ∈ origLineChunks l ls, ∃ t k, e = .chunk (some t) ⟨k, 0, some ⟨0, k, 0, none⟩⟩ := by
  intro ls
  induction ls with
  | nil => intro l e he; simp [origLineChunks] at he
  | cons t ts ih =>
    intro l e he
    simp only [origLineChunks, List.mem_cons] at he
    rcases he with rfl | he
    · exact ⟨t, l, rfl⟩
    · exact ih _ e he

/-- the OriginalSource announces exactly one source: its name with its full text as content -/
theorem c04_original_announces (t name : Text) (o : Opts) :
    (streamOriginal t name o).evs.head? = some (.source 0 name (some t)) := by
  unfold streamOriginal
  split
  · rfl
  · split
    · simp only; split <;> rfl
    · rfl


/-! ## provenance: where every byte is attributed (columns = true)

`prov s` is computed from the tree alone: for every byte of `source()` the file it was copied from, that file's text and the
byte's offset in it (`none` for raw text).  `GoodN r p` says that the resolved attribution `r` (file name, embedded content, line,
column, name) is right for provenance `p`: raw text is unmapped; a byte copied from offset `k` of file `name` with text `t`
resolves to that file with that content, to the byte's own original line, and to the column at which the potential token that
contains the byte starts — never after the byte's own column, exactly its column when it starts a token — without name; the only
exception is the line break of an empty line, which is unmapped. -/

/-- OriginalSource leaf: every byte is attributed to its own line and to the start column of its potential token -/
theorem c04_original_attr (t name : Text) (j : Nat) (hj : j < t.length) :
    ((attrOf (streamOriginal t name ⟨true, false⟩).evs)[j]? = some none ∧ t[j]? = some NL ∧ (adv startPos (t.take j)).col = 0)
    ∨ ∃ k len, k ≤ j ∧ j < k + len ∧ (k, len) ∈ tokOffs 0 (tokens t) ∧ j - k ≤ (adv startPos (t.take j)).col
        ∧ (attrOf (streamOriginal t name ⟨true, false⟩).evs)[j]? = some (some ⟨0, (adv startPos (t.take j)).line, (adv startPos (t.take j)).col - (j - k), none⟩) :=
  original_attr t name j hj

/-- **C04, chunk stream**: for every tree of OriginalSource and raw leaves under ConcatSource (any nesting; one content per
file name), the stream an outside caller obtains attributes every byte rightly for its provenance -/
theorem c04_stream (cons : Text → Option Text) (s : Src) (hs : s.OrigTree) (hw : Src.WD cons true s) (σ : Store) :
    AllGood (s.attr true σ) s.prov := Src.prov_stream cons s hs hw σ

/-- **C04, through `map()`**: resolving the position of every byte of `source()` through the SourceMap `get_map` returns (= `map()`
for OriginalSource and ConcatSource roots) — greatest segment at or before the position on its line, then the map's own
`sources` / `sourcesContent` tables — is right for the byte's provenance.  Chain: codec round trip (C12) ∘ text-less = normal
mode (C03 T3) ∘ true positions (C02) ∘ ConcatSource attribution (C06) ∘ OriginalSource leaf.
PARTIAL: ReplaceSource and CachedSource nodes (in the property's quantifier) are decided by correspondence + oracle. -/
theorem c04_map (cons : Text → Option Text) (s : Src) (hs : s.OrigTree) (hw : Src.WD cons true s) (final : Bool)
    (hsmall : ∀ m ∈ chunkMs (s.stream ⟨true, true⟩ []).1.evs, m.small) (sm : SMap) (hm : (getMap s ⟨true, final⟩ []).1 = some sm) :
    AllGood ((attrFrom (decode sm.mappings) startPos s.src).map (Option.map (resolveM sm))) s.prov :=
  origTree_map cons s hs hw final hsmall sm hm

/-- read per byte: the j-th lookup is right for the j-th provenance, and there are as many as bytes -/
theorem c04_map_pointwise (cons : Text → Option Text) (s : Src) (hs : s.OrigTree) (hw : Src.WD cons true s) (final : Bool)
    (hsmall : ∀ m ∈ chunkMs (s.stream ⟨true, true⟩ []).1.evs, m.small) (sm : SMap) (hm : (getMap s ⟨true, final⟩ []).1 = some sm) :
    ∀ (j : Nat) r p, ((attrFrom (decode sm.mappings) startPos s.src).map (Option.map (resolveM sm)))[j]? = some r → s.prov[j]? = some p → GoodN r p :=
  (allGood_index _ _ (origTree_map cons s hs hw final hsmall sm hm)).2

/-- non-vacuity: two OriginalSources with different names around raw text are in the domain, and the provenance of byte 4 of
`"x;\ny" ++ ";" ++ "z"` is raw text while byte 5 comes from offset 0 of `b` -/
example : (Src.concat (.cons (.orig [120, 59, 10, 121] [97]) (.cons (.rawStr [59]) (.cons (.orig [122] [98]) .nil)))).OrigTree
    ∧ (Src.concat (.cons (.orig [120, 59, 10, 121] [97]) (.cons (.rawStr [59]) (.cons (.orig [122] [98]) .nil)))).prov
        = [some ([97], [120, 59, 10, 121], 0), some ([97], [120, 59, 10, 121], 1), some ([97], [120, 59, 10, 121], 2),
           some ([97], [120, 59, 10, 121], 3), none, some ([98], [122], 0)] := by
  constructor
  · exact ⟨trivial, trivial, trivial, trivial⟩
  · decide

/-! ## ReplaceSource over an OriginalSource -/

/-- **C04, ReplaceSource over an (ASCII) OriginalSource, chunk stream**: every chunk the ReplaceSource delivers is unmapped, or
reports source 0 at the *true* line and column, in the original text `T`, of byte `k + p` — `k` being the start of a potential
token `tok` of `T` and `p < |tok|` the offset inside it at which the delivered piece was cut (or replacement content spliced in);
and the delivered text is exactly that piece `tok[p..q)` — the bytes `T[k+p .. k+q)`, so the chunk *starts on the very byte whose
position it reports* and every following byte of the piece is an original byte of the same line with a larger column — or it is a
line of the content of one of the replacements.
Chain: token positions of the OriginalSource (C02) ∘ token lies in its line ∘ the recorded content spells out the chunk (`FM`) ∘
the advance rule of `ReplaceSource` (C06). -/
theorem c04_replace_original_stream (T name : Text) (ha : IsAscii T) (hl : T.length < USIZE_MAX) (rs : List Repl) (final : Bool) (σ : Store) :
    ∀ t' mm, Ev.chunk t' mm ∈ ((Src.replace (.orig T name) rs).stream ⟨true, final⟩ σ).1.evs →
      mm.orig = none ∨ ∃ tok k p y, k + p < T.length ∧ p < tok.length ∧ tok <+: T.drop k ∧ TokOK tok ∧ mm.orig = some y ∧ y.src = 0
        ∧ adv startPos (T.take (k + p)) = ⟨y.line, y.col⟩
        ∧ ((∃ q, p < q ∧ q ≤ tok.length ∧ t' = some (bsub tok p q))
            ∨ (∃ r ∈ sortRepls rs, ∃ cl ∈ splitLines r.content, t' = some cl)) :=
  replace_original_true T name ha hl (sortRepls rs)

/-- **C04, the same through `map()`**: whatever the SourceMap `get_map` returns for the ReplaceSource resolves a byte of `source()`
to, is source 0 at a real position (line, column of some byte) of the original text.
PARTIAL (w.r.t. the property): says the position exists in the original, not which replacement-free byte it is the image of; that
clause is decided by the correspondence check + provenance oracle. -/
theorem c04_replace_original_map (T name : Text) (ha : IsAscii T) (hl : T.length < USIZE_MAX) (rs : List Repl)
    (hr : ∀ r ∈ rs, r.start ≤ r.stop) (hlen : (replaceSource T rs).length + 1 < 2 ^ 32) (final : Bool)
    (hsmall : ∀ m ∈ chunkMs ((Src.replace (.orig T name) rs).stream ⟨true, true⟩ []).1.evs, m.small)
    (sm : SMap) (hm : (getMap (.replace (.orig T name) rs) ⟨true, final⟩ []).1 = some sm) :
    ∀ o, some o ∈ attrFrom (decode sm.mappings) startPos (replaceSource T rs) → TruePos T o :=
  replace_original_map T name ha hl rs hr hlen final hsmall sm hm

/-- non-vacuity: replacing `b` in `"abc\nd"` by `"XY"` delivers the replacement content mapped to (1, 1) — where `b` stood — and the
rest of the token, `"c\n"`, mapped to (1, 2) although it is delivered at generated column 3 -/
example : (replaceStream (sortRepls [⟨1, 2, [88, 89], none, 1⟩]) (streamOriginal [97, 98, 99, 10, 100] [102] ⟨true, false⟩)).evs
    = [.source 0 [102] (some [97, 98, 99, 10, 100]),
       .chunk (some [97]) ⟨1, 0, some ⟨0, 1, 0, none⟩⟩,
       .chunk (some [88, 89]) ⟨1, 1, some ⟨0, 1, 1, none⟩⟩,
       .chunk (some [99, 10]) ⟨1, 3, some ⟨0, 1, 2, none⟩⟩,
       .chunk (some [100]) ⟨2, 0, some ⟨0, 2, 0, none⟩⟩] := by decide

/-! ## ReplaceSource over any tree of OriginalSource and raw leaves under ConcatSource -/

/-- **C04, ReplaceSource over a ConcatSource tree of OriginalSource / raw leaves, chunk stream** (ASCII file contents, one content
per file name): every chunk the ReplaceSource delivers is unmapped, or names — through the files the stream itself announces — a
file with its content `T` and a line and column that are the *true* position in `T` of some byte `q` of `T`; and the delivered
text is the bytes `T[q..q')` of that very file starting at that very byte, byte `j` of the chunk being the byte of `T` whose true
position is the reported line and the reported column plus `j` (so every surviving original character is covered by a segment
of its own file and its own original line whose column is not after it, and the segment starts on the character it names), or a line of
the content of one of the replacements (generated text, attributed to the byte `q` it was spliced in at).
Chain: every mapped chunk of the inner tree's stream is a token of its file at its true position (`ProvOK`: OriginalSource leaf,
kept by ConcatSource's renumbering) ∘ the ReplaceSource records the announced contents under the same indices ∘ the recorded
content spells out the inner chunk (`FM`) ∘ the advance rule (C06). -/
theorem c04_replace_tree_stream (cons : Text → Option Text) (inner : Src) (ho : inner.OrigTree) (hw : Src.WD cons true inner)
    (hasc : ∀ n T, cons n = some T → IsAscii T ∧ T.length < USIZE_MAX) (rs : List Repl) (final : Bool) (σ : Store) :
    ∀ t' mm, Ev.chunk t' mm ∈ ((Src.replace inner rs).stream ⟨true, final⟩ σ).1.evs →
      mm.orig = none ∨ ∃ name T q y, mm.orig = some y
        ∧ tblS emptyS ((Src.replace inner rs).stream ⟨true, final⟩ σ).1.evs y.src = some (name, some T)
        ∧ q < T.length ∧ adv startPos (T.take q) = ⟨y.line, y.col⟩
        ∧ ((∃ q', q < q' ∧ q' ≤ T.length ∧ t' = some (bsub T q q')
              ∧ (∀ j, j < q' - q → adv startPos (T.take (q + j)) = ⟨y.line, y.col + j⟩)
              ∧ ∃ tok k0 l0 c0, TokPos T tok l0 c0 k0 ∧ k0 ≤ q ∧ q' ≤ k0 + tok.length)
            ∨ (∃ r ∈ sortRepls rs, ∃ cl ∈ splitLines r.content, t' = some cl)) :=
  replace_origTree_true cons inner ho hw hasc rs final σ

/-- **… and through `map()`**: whatever the SourceMap returned for such a ReplaceSource resolves a byte of `source()` to — through
the map's own `sources` / `sourcesContent` tables — is a file with its exact content and the true line and column of some byte of it.
PARTIAL (w.r.t. the property): "a true position of the named file", not yet "the position the delivered byte was copied from"
(that identification is decided by the provenance oracle). -/
theorem c04_replace_tree_map (cons : Text → Option Text) (inner : Src) (ho : inner.OrigTree) (hw : Src.WD cons true inner)
    (hasc : ∀ n T, cons n = some T → IsAscii T ∧ T.length < USIZE_MAX) (rs : List Repl)
    (hr : ∀ r ∈ rs, r.start ≤ r.stop) (hlen : (replaceSource inner.src rs).length + 1 < 2 ^ 32) (final : Bool)
    (hsmall : ∀ m ∈ chunkMs ((Src.replace inner rs).stream ⟨true, true⟩ []).1.evs, m.small)
    (sm : SMap) (hm : (getMap (.replace inner rs) ⟨true, final⟩ []).1 = some sm) :
    ∀ o, some o ∈ attrFrom (decode sm.mappings) startPos (replaceSource inner.src rs) →
      ∃ name T q, sm.sources[o.src]? = some name ∧ sm.sourcesContent[o.src]? = some T ∧ q < T.length
        ∧ adv startPos (T.take q) = ⟨o.line, o.col⟩ :=
  replace_origTree_map cons inner ho hw hasc rs hr hlen final hsmall sm hm


/-- **C04 through `map()`, byte by byte** (ReplaceSource over any ConcatSource tree of OriginalSource / raw leaves): for every byte
`i` of `source()` whose position the returned SourceMap resolves to `o`: through the map's own `sources` / `sourcesContent`, `o`
names a file with its exact content `T` and the true line and column of a byte `q` of `T`; and either byte `i` *is* the original
byte `T[q + d]`, whose own true position is `o`'s line and `o`'s column plus `d` — a surviving original character is attributed to
its own file and its own original line, at a column not after its own, by a segment that starts on an original character —
or byte `i` belongs to the content of one of the replacements (generated text, attributed to where it was spliced in).
The segment start and the byte lie in one potential token of `T` that starts at `k0 ≤ q`; a surviving byte that begins a
potential token — a statement start — therefore has `q = k0`, `d = 0`: it resolves to exactly its own original line and column
(`c04_statement_start_exact`).  This is the property's statement for columns = true on this family of trees; chain: C12 (codec) ∘ C03-T3 (text-less = normal
mode) ∘ `attrOf` (bytes of a chunk share its mapping) ∘ `c04_replace_tree_stream` ∘ the table relation `mapAcc_tblRel`. -/
theorem c04_replace_tree_map_bytes (cons : Text → Option Text) (inner : Src) (ho : inner.OrigTree) (hw : Src.WD cons true inner)
    (hasc : ∀ n T, cons n = some T → IsAscii T ∧ T.length < USIZE_MAX) (rs : List Repl)
    (hr : ∀ r ∈ rs, r.start ≤ r.stop) (hlen : (replaceSource inner.src rs).length + 1 < 2 ^ 32) (final : Bool)
    (hsmall : ∀ m ∈ chunkMs ((Src.replace inner rs).stream ⟨true, true⟩ []).1.evs, m.small)
    (sm : SMap) (hm : (getMap (.replace inner rs) ⟨true, final⟩ []).1 = some sm) :
    ∀ (i : Nat) (o : Orig), (attrFrom (decode sm.mappings) startPos (replaceSource inner.src rs))[i]? = some (some o) →
      ∃ (name T : Text) (q d : Nat), sm.sources[o.src]? = some name ∧ sm.sourcesContent[o.src]? = some T ∧ q < T.length
        ∧ adv startPos (T.take q) = ⟨o.line, o.col⟩
        ∧ ((q + d < T.length ∧ (replaceSource inner.src rs)[i]? = T[q + d]?
              ∧ adv startPos (T.take (q + d)) = ⟨o.line, o.col + d⟩
              ∧ ∃ tok k0 l0 c0, TokPos T tok l0 c0 k0 ∧ k0 ≤ q ∧ q + d < k0 + tok.length)
            ∨ (∃ r ∈ sortRepls rs, ∃ cl ∈ splitLines r.content, d < cl.length ∧ (replaceSource inner.src rs)[i]? = cl[d]?)) :=
  replace_origTree_map_bytes cons inner ho hw hasc rs hr hlen final hsmall sm hm


/-! ## `sources` lists each original file once -/

/-- **a ConcatSource announces every file name at most once**, whatever its children are and stream (any node kinds, any maps,
either mode): a source is announced only when its name is not yet a key of the name-keyed table, and is then entered -/
theorem c04_concat_sources_once (final : Bool) (cs : List SResult) : (annS (concatStream final cs).evs).Nodup :=
  concatStream_annS_nodup final cs

/-- **`sources` of `map()` lists each original file once** — for every tree of OriginalSource / raw leaves under ConcatSource
(any nesting), and for a ReplaceSource over such a tree; both column settings: the `sources` table of the SourceMap is exactly the
list of files the (text-less) stream announces (the indices are dense: C11), and that list has no repetition -/
theorem c04_sources_once (inner : Src) (ho : inner.OrigTree) (o : Opts) (σ : Store) :
    (∀ sm, (getMap inner o σ).1 = some sm → sm.sources.Nodup)
    ∧ (∀ rs sm, (getMap (.replace inner rs) o σ).1 = some sm → sm.sources.Nodup) := by
  have hnc := Src.origTree_nc inner ho
  have hnodes := Src.nc_nodes inner hnc
  have key : ∀ (s : Src), s.IdxHyp → s.cachedNodes = [] → (annS (s.stream ⟨o.columns, true⟩ σ).1.evs).Nodup →
      ∀ sm, (getMap s o σ).1 = some sm → sm.sources.Nodup := by
    intro s hidx hn hnd sm hm
    have hdecl : DeclOK 0 0 (s.stream ⟨o.columns, true⟩ σ).1.evs :=
      Src.stream_declOK s _ σ hidx (by simp [Src.ids, hn]) (fun p hp => by rw [hn] at hp; simp at hp)
    simp only [getMap, mapOfEvs] at hm
    split at hm
    · cases hm
    · simp only [Option.some.injEq] at hm
      rw [← hm]
      simp only
      rw [mapAcc_sources_annS _ 0 0 {} hdecl rfl]
      simpa using hnd
  refine ⟨key inner (Src.origTree_idx inner ho) hnodes (Src.origTree_annS_nodup inner _ σ ho), fun rs => ?_⟩
  exact key (.replace inner rs) (Src.origTree_idx inner ho) (by simp [Src.cachedNodes, hnodes]) (replace_origTree_annS_nodup inner rs _ σ ho)


/-! ## columns = false -/

/-- **C04, columns = false** (every tree of OriginalSource / raw leaves under ConcatSource, any nesting): when the SourceMap
returned for `columns = false` resolves the generated line `L` to (source `si`, original line `ol`) — first mapped segment of the
line, the lines-only reading of a map — then, through the map's own `sources` / `sourcesContent`, `si` is a file with its exact
content `T`; `(si, ol)` is what the *first mapped chunk on line `L`* of the source's own lines-mode stream says; and that chunk is
the line `ln` of `T` standing at the true position (`ol`, `c`) of `T`.  Raw text is never mapped, so this chunk is the first
original text on the line: every output line is attributed to the file and line of the first original text on it.
Chain: C12 lines (the lines-only encoder writes the first mapped chunk per line) ∘ C03 lines (text-less = normal mode) ∘ the
provenance invariant `ProvOK` for lines-mode streams (OriginalSource: one chunk per line of its text; kept by ConcatSource's
renumbering) ∘ the table relation `mapAcc_tblRel`. -/
theorem c04_lines_map (cons : Text → Option Text) (inner : Src) (ho : inner.OrigTree) (hw : Src.WD cons false inner) (final : Bool)
    (hsmall : ∀ m ∈ chunkMs (inner.stream ⟨false, true⟩ []).1.evs, ∀ o, m.orig = some o → o.src < U31 ∧ o.line < U31)
    (sm : SMap) (hm : (getMap inner ⟨false, final⟩ []).1 = some sm) (L si ol : Nat) (hL : 0 < L)
    (hlook : lookupLines (decode sm.mappings) L = some (si, ol)) :
    lookupLines (chunkMs (inner.stream ⟨false, false⟩ []).1.evs) L = some (si, ol)
    ∧ ∃ (name T ln : Text) (c k : Nat) (m : Mapping), sm.sources[si]? = some name ∧ sm.sourcesContent[si]? = some T
        ∧ Ev.chunk (some ln) m ∈ (inner.stream ⟨false, false⟩ []).1.evs ∧ m.gl = L ∧ TokPos T ln ol c k :=
  origTree_lines_map cons inner ho hw final hsmall sm hm L si ol hL hlook


/-- a surviving byte that begins a potential token of its file — a statement start — is the first byte of its segment: exact
line and column (arithmetic corollary of the token clause of `c04_replace_tree_map_bytes`) -/
theorem c04_statement_start_exact (q d k0 : Nat) (hk : k0 ≤ q) (hstart : q + d = k0) : d = 0 ∧ q = k0 := by omega


/-! ## CachedSource nodes -/

/-- **C04 with CachedSource nodes on cold caches**: the map (and every stream) of a tree with CachedSource wrappers, all cold, is
the map of the same tree without them (`Src.strip`), whose text is the same — so the provenance theorems above (`c04_map`,
`c04_replace_tree_map_bytes`, `c04_lines_map`, `c04_sources_once`, stated for cache-free trees) hold for the first `map()` of
such a tree as they stand. -/
theorem c04_cold_caches (s : Src) (o : Opts) (σ : Store) (hn : s.ids.Nodup) (hc : Cold σ s.ids) :
    (getMap s o σ).1 = (getMap s.strip o []).1 ∧ s.src = s.strip.src ∧ s.strip.NoCached :=
  ⟨getMap_strip s o σ hn hc, (Src.strip_src s).symm, Src.strip_nc s⟩


/-! ## the bundler's shape: ReplaceSource nodes over OriginalSource trees, anywhere under ConcatSource nodes -/

/-- **C04, chunk stream, for every tree of raw / OriginalSource leaves, ReplaceSource nodes over trees of those, and ConcatSource at
any nesting** (`Src.ReplWD`: e.g. a ConcatSource of modules each wrapped in a ReplaceSource; one content per file name): every
mapped chunk names — through the files announced so far in the stream — a file with its content `T` and the true line and column
of a byte `q` of `T`, and is the piece `T[q..q')` of that very file starting at that very byte, inside one potential token, byte `j`
of the chunk being at the reported column plus `j` — or it is a line of the content of one of the tree's replacements.
(`ProvQ`: the invariant is kept by ConcatSource's renumbering whatever the chunks say about their files.) -/
theorem c04_bundle_stream (cons : Text → Option Text) (hasc : ∀ n T, cons n = some T → IsAscii T ∧ T.length < USIZE_MAX)
    (s : Src) (h : s.ReplWD cons) (σ : Store) :
    ProvQ (TrueQ (GenOf s.allRepls)) emptyS (s.stream ⟨true, false⟩ σ).1.evs :=
  Src.stream_provQ cons hasc s h σ

/-- **… and through `map()`, byte by byte**: for every byte `i` of `source()` that the returned SourceMap resolves to `o`: through the
map's own tables `o` names the file the byte was copied from, with its exact content `T`, and the true position of a byte `q` of
`T`; the byte is the original byte `T[q + d]` whose own true position is `o`'s line and `o`'s column plus `d` (own file, own line,
column not after its own; a byte that begins the potential token has `d = 0`), or it belongs to the content of a replacement. -/
theorem c04_bundle_map_bytes (cons : Text → Option Text) (s : Src) (h : s.ReplWD cons) (hz : s.ReplSized)
    (hasc : ∀ n T, cons n = some T → IsAscii T ∧ T.length < USIZE_MAX) (final : Bool)
    (hsmall : ∀ m ∈ chunkMs (s.stream ⟨true, true⟩ []).1.evs, m.small)
    (sm : SMap) (hm : (getMap s ⟨true, final⟩ []).1 = some sm) :
    ∀ (i : Nat) (o : Orig), (attrFrom (decode sm.mappings) startPos s.src)[i]? = some (some o) →
      ∃ (name T : Text) (q d : Nat), sm.sources[o.src]? = some name ∧ sm.sourcesContent[o.src]? = some T ∧ q < T.length
        ∧ adv startPos (T.take q) = ⟨o.line, o.col⟩
        ∧ ((q + d < T.length ∧ s.src[i]? = T[q + d]? ∧ adv startPos (T.take (q + d)) = ⟨o.line, o.col + d⟩
              ∧ ∃ tok k0 l0 c0, TokPos T tok l0 c0 k0 ∧ k0 ≤ q ∧ q + d < k0 + tok.length)
            ∨ (∃ r ∈ s.allRepls, ∃ cl ∈ splitLines r.content, d < cl.length ∧ s.src[i]? = cl[d]?)) :=
  replTree_map_bytes cons s h hz hasc final hsmall sm hm

/-- non-vacuity: `ConcatSource[ReplaceSource(OriginalSource("a;b", "f")), OriginalSource("c", "g")]` is such a tree -/
example : (Src.concat (.cons (.replace (.orig [97, 59, 98] [102]) [⟨1, 2, [88], none, 1⟩]) (.cons (.orig [99] [103]) .nil))).ReplWD
    (fun n => if n = [102] then some [97, 59, 98] else if n = [103] then some [99] else none) := by
  simp [Src.ReplWD, SrcList.ReplWDs, Src.OrigTree, Src.WD]

/-! ## ReplaceSource inside ReplaceSource -/

/-- **C04, chunk stream, for every cache-free tree of raw / OriginalSource leaves under ConcatSource and ReplaceSource nodes nested
in any way** (`Src.NestWD`: ReplaceSource over ReplaceSource, directly or through ConcatSource, included; one content per file
name, ASCII): every mapped chunk names — through the files announced so far in the stream — a file with its content `T` and is
either a *surviving piece* `T[q..q')` of that very file inside one potential token, attributed to the true line and column of byte
`q`, byte `j` of the piece at the reported column plus `j`; or *generated text*: a slice of a line of the content of one of the
tree's replacements (the property's don't-care — an outer ReplaceSource may cut generated text of an inner one into pieces and
computes columns for them that mean nothing; nothing is claimed about them).  (`rEvs_survQ`: a ReplaceSource keeps this for any
inner stream that has it.) -/
theorem c04_nested_stream (cons : Text → Option Text) (hasc : ∀ n T, cons n = some T → IsAscii T ∧ T.length < USIZE_MAX)
    (s : Src) (h : s.NestWD cons) (σ : Store) :
    ProvQ (SurvQ (GenIn s.allReplsN)) emptyS (s.stream ⟨true, false⟩ σ).1.evs :=
  Src.stream_survQ cons hasc s h σ

/-- **… and through `map()`, byte by byte**: every byte `i` of `source()` that the returned SourceMap resolves to `o` is, through
the map's own `sources` / `sourcesContent`, either the original byte `T[q + d]` of the file `o` names, inside a surviving piece
starting at byte `q` whose true position is `o`'s line and column, the byte's own true position being that line and that column
plus `d` — or a byte of a line of the content of one of the tree's replacements. -/
theorem c04_nested_map_bytes (cons : Text → Option Text) (s : Src) (h : s.NestWD cons) (hz : s.NestSized)
    (hasc : ∀ n T, cons n = some T → IsAscii T ∧ T.length < USIZE_MAX) (final : Bool)
    (hsmall : ∀ m ∈ chunkMs (s.stream ⟨true, true⟩ []).1.evs, m.small)
    (sm : SMap) (hm : (getMap s ⟨true, final⟩ []).1 = some sm) :
    ∀ (i : Nat) (o : Orig), (attrFrom (decode sm.mappings) startPos s.src)[i]? = some (some o) →
      ∃ (name T : Text), sm.sources[o.src]? = some name ∧ sm.sourcesContent[o.src]? = some T
        ∧ ((∃ q d, q + d < T.length ∧ adv startPos (T.take q) = ⟨o.line, o.col⟩ ∧ s.src[i]? = T[q + d]?
              ∧ adv startPos (T.take (q + d)) = ⟨o.line, o.col + d⟩
              ∧ ∃ tok k0 l0 c0, TokPos T tok l0 c0 k0 ∧ k0 ≤ q ∧ q + d < k0 + tok.length)
            ∨ (∃ r ∈ s.allReplsN, ∃ cl ∈ splitLines r.content, ∃ e, e < cl.length ∧ s.src[i]? = cl[e]?)) :=
  nestTree_map_bytes cons s h hz hasc final hsmall sm hm

/-- non-vacuity: `ReplaceSource(ConcatSource[ReplaceSource(OriginalSource("a;b", "f")), OriginalSource("c", "g")])` is such a tree -/
example : (Src.replace (Src.concat (.cons (.replace (.orig [97, 59, 98] [102]) [⟨1, 2, [88], none, 1⟩]) (.cons (.orig [99] [103]) .nil)))
      [⟨0, 2, [89, 90], none, 2⟩]).NestWD
    (fun n => if n = [102] then some [97, 59, 98] else if n = [103] then some [99] else none) := by
  simp [Src.NestWD, SrcList.NestWDs]

/-! ## warm caches -/

/-- **C04 for the second `map()` of a tree with CachedSource nodes** (the two-call history `map(); map()`, columns = true):
CachedSource nodes at any depth and in any number (none beneath a ReplaceSource — K5) over a tree of raw / OriginalSource leaves,
ConcatSource and ReplaceSource nodes; the first `get_map` ran on cold caches.  Every byte `i` of `source()` that the *second* map —
built by replaying the maps the first call stored — resolves to `o2` is resolved by the first map to an `o1` with the same file name
(each map through its own `sources`), the same line and the same column; and that file, with the content the first map lists for
it, holds the byte as a surviving original byte at exactly that line and that column plus `d` — or the byte is generated text.
Chain: `c10_map_twice` ∘ `c04_cold_caches` ∘ `c04_nested_map_bytes`. -/
theorem c04_second_map_bytes (cons : Text → Option Text) (s : Src) (σ : Store) (h : s.ModeHypC) (hk : s.CachedOK) (hs : s.SmallF)
    (hn : s.ids.Nodup) (hc : Cold σ s.ids) (hW : s.strip.NestWD cons) (hz : s.strip.NestSized)
    (hasc : ∀ n T, cons n = some T → IsAscii T ∧ T.length < USIZE_MAX) (f1 f2 : Bool)
    (hsmall1 : ∀ m ∈ chunkMs (s.stream ⟨true, true⟩ σ).1.evs, m.small)
    (hsmall2 : ∀ m ∈ chunkMs ((s.warm ⟨true, true⟩).stream ⟨true, true⟩ []).1.evs, m.small)
    (sm1 sm2 : SMap) (h1 : (getMap s ⟨true, f1⟩ σ).1 = some sm1) (h2 : (getMap s ⟨true, f2⟩ (getMap s ⟨true, f1⟩ σ).2).1 = some sm2) :
    ∀ (i : Nat) (o2 : Orig), (attrFrom (decode sm2.mappings) startPos s.src)[i]? = some (some o2) →
      ∃ (o1 : Orig) (name T : Text), (attrFrom (decode sm1.mappings) startPos s.src)[i]? = some (some o1)
        ∧ sm2.sources[o2.src]? = some name ∧ sm1.sources[o1.src]? = some name ∧ o2.line = o1.line ∧ o2.col = o1.col
        ∧ sm1.sourcesContent[o1.src]? = some T
        ∧ ((∃ q d, q + d < T.length ∧ adv startPos (T.take q) = ⟨o2.line, o2.col⟩ ∧ s.src[i]? = T[q + d]?
              ∧ adv startPos (T.take (q + d)) = ⟨o2.line, o2.col + d⟩
              ∧ ∃ tok k0 l0 c0, TokPos T tok l0 c0 k0 ∧ k0 ≤ q ∧ q + d < k0 + tok.length)
            ∨ (∃ r ∈ s.strip.allReplsN, ∃ cl ∈ splitLines r.content, ∃ e, e < cl.length ∧ s.src[i]? = cl[e]?)) :=
  nestTree_second_map_bytes cons s σ h hk hs hn hc hW hz hasc f1 f2 hsmall1 hsmall2 sm1 sm2 h1 h2

/-- non-vacuity: `ConcatSource[CachedSource(OriginalSource("a;b", "f")), RawSource("x")]` has such a cache-free form -/
example : (Src.concat (.cons (.cached 0 (.orig [97, 59, 98] [102])) (.cons (.rawStr [120]) .nil))).strip.NestWD
    (fun n => if n = [102] then some [97, 59, 98] else none) := by
  simp [Src.strip, SrcList.stripL, Src.NestWD, SrcList.NestWDs]

/-- **C04 for every `get_map` of every call history** (columns = true): in any history of streaming / `get_map` calls — any length,
options in any order, cold caches at the start — on a tree with CachedSource nodes (none beneath a ReplaceSource) over raw /
OriginalSource leaves, ConcatSource and ReplaceSource nodes: whatever map `sm2` a `get_map` of the history returns, every byte it
resolves is resolved alike (same file name, line, column) by the map `sm1` of the cache-free tree, and is a surviving original byte
of that file at exactly that line and that column plus `d`, or generated text.  `c10_every_history` ∘ `c04_second_map_bytes`'s
argument. -/
theorem c04_every_history_map_bytes (cons : Text → Option Text) (s : Src) (hk : s.NoCR) (hn : s.ids.Nodup) (σ : Store) (hc : Cold σ s.ids)
    (h : s.ModeHypC) (hs : s.SmallF) (hW : s.strip.NestWD cons) (hz : s.strip.NestSized)
    (hasc : ∀ n T, cons n = some T → IsAscii T ∧ T.length < USIZE_MAX)
    (hsmall1 : ∀ m ∈ chunkMs (s.strip.stream ⟨true, true⟩ []).1.evs, m.small)
    (hsmall2 : ∀ m ∈ chunkMs ((s.warm ⟨true, true⟩).stream ⟨true, true⟩ []).1.evs, m.small)
    (sm1 : SMap) (h1 : (getMap s.strip ⟨true, true⟩ []).1 = some sm1)
    (calls : List Opts) (k : Nat) (hcall : calls[k]? = some ⟨true, true⟩) :
    ∃ r, (runCalls s calls σ).1[k]? = some r ∧ ∀ sm2, mapOfEvs true r.evs = some sm2 →
      ∀ (i : Nat) (o2 : Orig), (attrFrom (decode sm2.mappings) startPos s.src)[i]? = some (some o2) →
      ∃ (o1 : Orig) (name T : Text), (attrFrom (decode sm1.mappings) startPos s.src)[i]? = some (some o1)
        ∧ sm2.sources[o2.src]? = some name ∧ sm1.sources[o1.src]? = some name ∧ o2.line = o1.line ∧ o2.col = o1.col
        ∧ sm1.sourcesContent[o1.src]? = some T
        ∧ ((∃ q d, q + d < T.length ∧ adv startPos (T.take q) = ⟨o2.line, o2.col⟩ ∧ s.src[i]? = T[q + d]?
              ∧ adv startPos (T.take (q + d)) = ⟨o2.line, o2.col + d⟩
              ∧ ∃ tok k0 l0 c0, TokPos T tok l0 c0 k0 ∧ k0 ≤ q ∧ q + d < k0 + tok.length)
            ∨ (∃ r ∈ s.strip.allReplsN, ∃ cl ∈ splitLines r.content, ∃ e, e < cl.length ∧ s.src[i]? = cl[e]?)) :=
  history_map_bytes cons s hk hn σ hc h hs hW hz hasc hsmall1 hsmall2 sm1 h1 calls k hcall

/-- **C04 for every `get_map(columns = false)` of every call history**: CachedSource nodes (none beneath a ReplaceSource) over a tree
of OriginalSource / raw leaves under ConcatSource; cold caches at the start; any history.  Whatever map `sm2` a
`get_map(columns = false)` of the history returns: if it resolves generated line `L` to file name `fname` and original line `ol`
(first mapped segment of the line, through its own `sources`), then the map `sm1` of the cache-free tree resolves `L` alike, and —
through `sm1`'s own `sources` / `sourcesContent` — that file has content `T` whose line `ol` is a whole line `ln` of `T` at its true
position, delivered on generated line `L` by the stream.  `c10_every_history_map_lines` ∘ `c03_lines` at name level ∘ `c04_lines_map`. -/
theorem c04_every_history_lines (cons : Text → Option Text) (s : Src) (hk : s.NoCR) (hn : s.ids.Nodup) (σ : Store) (hc : Cold σ s.ids)
    (h : s.ModeHypL) (hs : s.SmallFL) (ho : s.strip.OrigTree) (hw : Src.WD cons false s.strip)
    (hsmall1 : ∀ m ∈ chunkMs (s.strip.stream ⟨false, true⟩ []).1.evs, ∀ o, m.orig = some o → o.src < U31 ∧ o.line < U31)
    (hsmall2 : ∀ m ∈ chunkMs ((s.warm ⟨false, true⟩).stream ⟨false, true⟩ []).1.evs, ∀ o, m.orig = some o → o.src < U31 ∧ o.line < U31)
    (sm1 : SMap) (h1 : (getMap s.strip ⟨false, true⟩ []).1 = some sm1)
    (calls : List Opts) (k : Nat) (hcall : calls[k]? = some ⟨false, true⟩) :
    ∃ r, (runCalls s calls σ).1[k]? = some r ∧ ∀ sm2, mapOfEvs false r.evs = some sm2 → ∀ L fname ol, 0 < L →
      LNameM sm2 L = some (fname, ol) →
      ∃ (si : Nat) (name T ln : Text) (c q : Nat) (m : Mapping), lookupLines (decode sm1.mappings) L = some (si, ol)
        ∧ fname = some name ∧ sm1.sources[si]? = some name ∧ sm1.sourcesContent[si]? = some T
        ∧ Ev.chunk (some ln) m ∈ (s.strip.stream ⟨false, false⟩ []).1.evs ∧ m.gl = L ∧ TokPos T ln ol c q := by
  obtain ⟨r, a1, a2⟩ := history_map_lname s hk hn σ hc h hs hsmall1 hsmall2 calls k hcall
  refine ⟨r, a1, fun sm2 hsm2 L fname ol hL hres => ?_⟩
  have hsn := Src.strip_nc s
  obtain ⟨hn', _, _⟩ := nc_facts _ hsn
  have e1 := getMap_lname s.strip (Src.strip_modeHypL s h) hn' [] [] (cold_nil _) (cold_nil _) true hsmall1 sm1 h1 L hL
  have e2 := a2 sm2 hsm2 L hL
  rw [e2, ← e1] at hres
  unfold LNameM at hres
  cases hq : lookupLines (decode sm1.mappings) L with
  | none => rw [hq] at hres; cases hres
  | some p =>
    obtain ⟨si, ol'⟩ := p
    rw [hq] at hres
    simp only [Option.map_some, Option.some.injEq, Prod.mk.injEq] at hres
    obtain ⟨hf, hol⟩ := hres
    subst hol
    obtain ⟨_, name, T, ln, c, q, m, b1, b2, b3, b4, b5⟩ := c04_lines_map cons s.strip ho hw true hsmall1 sm1 h1 L si ol' hL hq
    exact ⟨si, name, T, ln, c, q, m, rfl, by rw [← hf, b1], b1, b2, b3, b4, b5⟩

end Rs
