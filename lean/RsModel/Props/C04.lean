import RsModel.Model.Stream
/-!
# C04 — mappings point to where the text really came from
(leaf level: an OriginalSource maps every token to its own position; the composites are tied by correspondence)
-/
namespace Rs

/-- every chunk an OriginalSource streams with columns is either unmapped (an empty line) or mapped to
exactly its own generated line and column in source 0, without name -/
theorem c04_original_identity (final : Bool) : ∀ (toks : List Text) (l c : Nat),
    ∀ e ∈ (origTokChunks final l c toks).1, ∀ t m, e = .chunk t m → m.orig = none ∨ m.orig = some ⟨0, m.gl, m.gc, none⟩ := by
  intro toks
  induction toks with
  | nil => intro l c e he; simp [origTokChunks] at he
  | cons tok toks ih =>
    intro l c e he t m hm
    simp only [origTokChunks, List.mem_append] at he
    rcases he with he | he
    · split at he
      · split at he
        · simp at he
        · simp at he; subst he; injection hm with h1 h2; subst h2; exact Or.inl rfl
      · simp at he; subst he; injection hm with h1 h2; subst h2; exact Or.inr rfl
    · split at he
      · exact ih _ _ e he t m hm
      · exact ih _ _ e he t m hm

/-- with `columns = false` every line is mapped to its own line at column 0 -/
theorem c04_original_lines : ∀ (ls : List Text) (l : Nat),
    ∀ e ∈ origLineChunks l ls, ∃ t k, e = .chunk (some t) ⟨k, 0, some ⟨0, k, 0, none⟩⟩ := by
  intro ls
  induction ls with
  | nil => intro l e he; simp [origLineChunks] at he
  | cons t ts ih =>
    intro l e he
    simp only [origLineChunks, List.mem_cons] at he
    rcases he with rfl | he
    · exact ⟨t, l, rfl⟩
    · exact ih _ e he

/-- the OriginalSource announces exactly one source: its name with its full text as content -/
theorem c04_original_announces (t name : Text) (o : Opts) :
    (streamOriginal t name o).evs.head? = some (.source 0 name (some t)) := by
  unfold streamOriginal
  split
  · rfl
  · split
    · simp only; split <;> rfl
    · rfl

end Rs
