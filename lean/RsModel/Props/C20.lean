import RsModel.Lemmas.EqHash
import RsModel.Lemmas.HashInj
/-!
# C20 — hashes separate observably different sources and are reproducible
Statements are about the hasher *input* (`calls`): two different inputs hash differently up to
collisions of the 64-bit hasher, which is the property's own proviso.
-/
namespace Rs

/-- reproducible: the hasher input is a function of the constructor data and of nothing else -/
theorem c20_deterministic (fxh : List HCall → Nat) (a b : Src) (h : a = b) : a.calls fxh = b.calls fxh := by rw [h]

/-- a changed leaf text changes the hasher input (raw leaves) -/
theorem c20_leaf_text (fxh : List HCall → Nat) (t t' : Text) (h : t ≠ t') :
    (Src.rawStr t).calls fxh ≠ (Src.rawStr t').calls fxh := by
  intro e
  simp only [Src.calls] at e
  have := (hStr_inj _ _ _ _ e).2
  have := (hBytes_inj t t' [] [] (by simpa using this)).1
  exact h this

/-- a changed text or a changed file name of an OriginalSource changes the hasher input -/
theorem c20_original (fxh : List HCall → Nat) (t t' n n' : Text) (h : t ≠ t' ∨ n ≠ n') :
    (Src.orig t n).calls fxh ≠ (Src.orig t' n').calls fxh := by
  intro e
  simp only [Src.calls, List.append_assoc] at e
  have h1 := (hStr_inj _ _ _ _ e).2
  have h2 := hBytes_inj _ _ _ _ h1
  have h3 : n = n' := by simpa [hStr] using h2.2
  rcases h with h | h
  · exact h h2.1
  · exact h h3

/-- sources of different types feed different tags -/
theorem c20_tags_distinct :
    Generated.tagRawSource ≠ Generated.tagRawStringSource ∧ Generated.tagRawSource ≠ Generated.tagRawBufferSource
    ∧ Generated.tagRawStringSource ≠ Generated.tagRawBufferSource ∧ Generated.tagOriginalSource ≠ Generated.tagSourceMapSource
    ∧ Generated.tagConcatSource ≠ Generated.tagReplaceSource ∧ Generated.tagOriginalSource ≠ Generated.tagRawSource
    ∧ Generated.tagConcatSource ≠ Generated.tagRawSource ∧ Generated.tagReplaceSource ≠ Generated.tagRawSource := by decide

/-- a changed range, content, name or enforcement of a replacement changes its record -/
theorem c20_replacement (r r' : Repl) (h : r ≠ r') (hs : r.start < 2 ^ 32 ∧ r'.start < 2 ^ 32) : hRepl r ≠ hRepl r' := by
  intro e
  obtain ⟨s, e', c, n, f⟩ := r
  obtain ⟨s', e'', c', n', f'⟩ := r'
  simp only [hRepl, List.cons_append, List.nil_append, List.cons.injEq, HCall.u32.injEq] at e
  obtain ⟨h1, h2, h3⟩ := e
  have h4 := hStr_inj _ _ _ _ h3
  have h5 := hOpt_hStr_inj _ _ _ _ h4.2
  have h6 : f = f' := by simpa using h5.2
  exact h (by simp [h1, h2, h4.1, h5.1, h6])

/-- context: what surrounds a child of a ConcatSource does not depend on the child, so a change of the
child's hasher input changes the parent's (append cancellation), at any position -/
theorem c20_concat_child (fxh : List HCall → Nat) (pre : List Src) (a b : Src) (post : SrcList)
    (h : a.calls fxh ≠ b.calls fxh) (hlen : (a.calls fxh).length = (b.calls fxh).length) :
    (SrcList.ofList pre).callsL fxh ++ (a.calls fxh ++ post.callsL fxh)
      ≠ (SrcList.ofList pre).callsL fxh ++ (b.calls fxh ++ post.callsL fxh) := by
  intro e
  have e1 := List.append_cancel_left e
  exact h (List.append_inj_left e1 hlen)


/-! ## one edit, at any depth -/

/-- **context theorem**: whatever surrounds the edited node — any nesting of ConcatSource (any position among its children),
ReplaceSource and CachedSource, to any depth — if the edit changes the hasher input of the node, it changes the hasher input
of the whole tree.  `fxh` is the memoising hasher of CachedSource; "no collisions" is the property's own proviso. -/
theorem c20_one_edit (fxh : List HCall → Nat) (hinj : ∀ x y, fxh x = fxh y → x = y) (c : Ctx) (a b : Src)
    (h : a.calls fxh ≠ b.calls fxh) : (c.fill a).calls fxh ≠ (c.fill b).calls fxh :=
  fun e => h (ctx_calls_inj fxh hinj a b c e)

/-- edits of a raw / buffer leaf -/
theorem c20_raw_leaf (fxh : List HCall → Nat) (f f' : Bool) (t t' l l' : Text) (h : t ≠ t') :
    (Src.raw f t l).calls fxh ≠ (Src.raw f' t' l').calls fxh ∧ (Src.rawBuf t l).calls fxh ≠ (Src.rawBuf t' l').calls fxh := by
  constructor <;>
  · intro e
    simp only [Src.calls] at e
    have := (hStr_inj _ _ _ _ e).2
    exact h (hBytes_inj t t' [] [] (by simpa using this)).1

/-- edits of the replacement set: any change that survives sorting (range, content, name, enforcement of a replacement, an
added or removed replacement) changes the hasher input; the wrapped source may change too -/
theorem c20_replacements (fxh : List HCall → Nat) (x x' : Src) (rs rs' : List Repl) (h : sortRepls rs ≠ sortRepls rs') :
    (Src.replace x rs).calls fxh ≠ (Src.replace x' rs').calls fxh := by
  intro e
  simp only [Src.calls, List.append_assoc] at e
  have e1 := (hStr_inj _ _ _ _ e).2
  exact h (hRepls_inj _ _ _ _ (calls_noU32Head fxh x) (calls_noU32Head fxh x') e1).1

/-- edits of a SourceMapSource: its text, any field of the attached map, the original source, any field of the inner map or
the remove flag (the *name* is deliberately not hashed) -/
theorem c20_source_map_source (fxh : List HCall → Nat) (t t' n n' : Text) (m m' : SMap) (o o' : Option Text) (i i' : Option SMap)
    (r r' : Bool) (h : t ≠ t' ∨ m ≠ m' ∨ o ≠ o' ∨ i ≠ i' ∨ r ≠ r') :
    (Src.sms t n m o i r).calls fxh ≠ (Src.sms t' n' m' o' i' r').calls fxh := by
  intro e
  simp only [Src.calls, List.append_assoc] at e
  have e1 := (hStr_inj _ _ _ _ e).2
  obtain ⟨ht, e2⟩ := hBytes_inj _ _ _ _ e1
  have nb : ∀ (o : Option Text) (z : List HCall), NoBytesHead (hOpt hStr o ++ z) := by
    intro o z b tl; cases o <;> simp [hOpt]
  obtain ⟨hm, e3⟩ := hSMap_inj _ _ _ _ (nb _ _) (nb _ _) e2
  obtain ⟨ho, e4⟩ := hOpt_hStr_inj _ _ _ _ e3
  have hi : i = i' ∧ r = r' := by
    cases i with
    | none =>
      cases i' with
      | none => simp [hOpt] at e4; exact ⟨rfl, by cases r <;> cases r' <;> simp_all⟩
      | some x => simp [hOpt] at e4
    | some x =>
      cases i' with
      | none => simp [hOpt] at e4
      | some x' =>
        simp only [hOpt, List.cons_append, List.cons.injEq, true_and] at e4
        have nb2 : ∀ (q : Bool), NoBytesHead [HCall.u8 (if q then 1 else 0)] := by intro q b tl; simp
        obtain ⟨hx, e5⟩ := hSMap_inj _ _ _ _ (nb2 _) (nb2 _) e4
        exact ⟨by rw [hx], by cases r <;> cases r' <;> simp_all⟩
  rcases h with h | h | h | h | h
  · exact h ht
  · exact h hm
  · exact h ho
  · exact h hi.1
  · exact h hi.2

/-- a changed, added or removed child of a ConcatSource whose own hasher input differs (same surroundings) -/
theorem c20_concat_child' (fxh : List HCall → Nat) (pre post : SrcList) (a b : Src) (h : a.calls fxh ≠ b.calls fxh) :
    (Src.concat (pre.append (.cons a post))).calls fxh ≠ (Src.concat (pre.append (.cons b post))).calls fxh := by
  intro e
  simp only [Src.calls, SrcList.callsL_append, SrcList.callsL] at e
  exact h (List.append_cancel_right (List.append_cancel_left (List.append_cancel_left e)))

/-- … and such values compare unequal (contrapositive of `a == b ⇒ equal hasher input`) -/
theorem c20_unequal (fxh : List HCall → Nat) (a b : Src) (h : a.calls fxh ≠ b.calls fxh) : a.eqv b = false := by
  cases he : a.eqv b with
  | false => rfl
  | true => exact absurd (Src.eqv_calls fxh a b he) h

end Rs
