import RsModel.Lemmas.EqHash
/-!
# C20 — hashes separate observably different sources and are reproducible
Statements are about the hasher *input* (`calls`): two different inputs hash differently up to
collisions of the 64-bit hasher, which is the property's own proviso.
-/
namespace Rs

/-- reproducible: the hasher input is a function of the constructor data and of nothing else -/
theorem c20_deterministic (fxh : List HCall → Nat) (a b : Src) (h : a = b) : a.calls fxh = b.calls fxh := by rw [h]

/-- a changed leaf text changes the hasher input (raw leaves) -/
theorem c20_leaf_text (fxh : List HCall → Nat) (t t' : Text) (h : t ≠ t') :
    (Src.rawStr t).calls fxh ≠ (Src.rawStr t').calls fxh := by
  intro e
  simp only [Src.calls] at e
  have := (hStr_inj _ _ _ _ e).2
  have := (hBytes_inj t t' [] [] (by simpa using this)).1
  exact h this

/-- a changed text or a changed file name of an OriginalSource changes the hasher input -/
theorem c20_original (fxh : List HCall → Nat) (t t' n n' : Text) (h : t ≠ t' ∨ n ≠ n') :
    (Src.orig t n).calls fxh ≠ (Src.orig t' n').calls fxh := by
  intro e
  simp only [Src.calls, List.append_assoc] at e
  have h1 := (hStr_inj _ _ _ _ e).2
  have h2 := hBytes_inj _ _ _ _ h1
  have h3 : n = n' := by simpa [hStr] using h2.2
  rcases h with h | h
  · exact h h2.1
  · exact h h3

/-- sources of different types feed different tags -/
theorem c20_tags_distinct :
    Generated.tagRawSource ≠ Generated.tagRawStringSource ∧ Generated.tagRawSource ≠ Generated.tagRawBufferSource
    ∧ Generated.tagRawStringSource ≠ Generated.tagRawBufferSource ∧ Generated.tagOriginalSource ≠ Generated.tagSourceMapSource
    ∧ Generated.tagConcatSource ≠ Generated.tagReplaceSource ∧ Generated.tagOriginalSource ≠ Generated.tagRawSource
    ∧ Generated.tagConcatSource ≠ Generated.tagRawSource ∧ Generated.tagReplaceSource ≠ Generated.tagRawSource := by decide

/-- a changed range, content, name or enforcement of a replacement changes its record -/
theorem c20_replacement (r r' : Repl) (h : r ≠ r') (hs : r.start < 2 ^ 32 ∧ r'.start < 2 ^ 32) : hRepl r ≠ hRepl r' := by
  intro e
  obtain ⟨s, e', c, n, f⟩ := r
  obtain ⟨s', e'', c', n', f'⟩ := r'
  simp only [hRepl, List.cons_append, List.nil_append, List.cons.injEq, HCall.u32.injEq] at e
  obtain ⟨h1, h2, h3⟩ := e
  have h4 := hStr_inj _ _ _ _ h3
  have h5 := hOpt_hStr_inj _ _ _ _ h4.2
  have h6 : f = f' := by simpa using h5.2
  exact h (by simp [h1, h2, h4.1, h5.1, h6])

/-- context: what surrounds a child of a ConcatSource does not depend on the child, so a change of the
child's hasher input changes the parent's (append cancellation), at any position -/
theorem c20_concat_child (fxh : List HCall → Nat) (pre : List Src) (a b : Src) (post : SrcList)
    (h : a.calls fxh ≠ b.calls fxh) (hlen : (a.calls fxh).length = (b.calls fxh).length) :
    (SrcList.ofList pre).callsL fxh ++ (a.calls fxh ++ post.callsL fxh)
      ≠ (SrcList.ofList pre).callsL fxh ++ (b.calls fxh ++ post.callsL fxh) := by
  intro e
  have e1 := List.append_cancel_left e
  exact h (List.append_inj_left e1 hlen)

end Rs
