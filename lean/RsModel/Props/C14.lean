import RsModel.Lemmas.EqHash
import RsModel.Lemmas.EqViews
import RsModel.Lemmas.WarmMap
import RsModel.Lemmas.HistoryAnswers
import RsModel.Lemmas.WarmLinesF
/-!
# C14 — equality, hashing and cloning are coherent and history-independent
-/
namespace Rs

/-- `a == b` implies identical hasher input, for every behaviour of the memoising `FxHasher` -/
theorem c14_eq_hash (fxh : List HCall → Nat) (a b : Src) (h : a.eqv b = true) : a.calls fxh = b.calls fxh :=
  Src.eqv_calls fxh a b h

/-- a clone (the same value) is equal to its original; sources built from the same constructor calls are equal -/
theorem c14_clone_eq (a : Src) : a.eqv a = true := Src.eqv_refl a

/-- the lazily filled decode cache of a buffer leaf (`OnceLock<String>`), as explicit state -/
structure BufState where
  value : Text
  cache : Option Text := none

/-- any observer that needs the text: `get_or_init(|| from_utf8_lossy(value))` -/
def BufState.observe (s : BufState) (lossy : Text) : BufState := { s with cache := some (s.cache.getD lossy) }
/-- `impl PartialEq for RawBufferSource` (compares `value` only) -/
def BufState.eq (a b : BufState) : Bool := a.value == b.value

/-- neither equality nor the hasher input of a buffer leaf changes because its cache was filled, on either side,
any number of times -/
theorem c14_buffer_cache_irrelevant (a b : BufState) (ls ls' : List Text) :
    (ls.foldl BufState.observe a).eq (ls'.foldl BufState.observe b) = a.eq b := by
  have hv : ∀ (ls : List Text) (s : BufState), (ls.foldl BufState.observe s).value = s.value := by
    intro ls; induction ls with
    | nil => intro s; rfl
    | cons l ls ih => intro s; rw [List.foldl_cons, ih]; rfl
  simp [BufState.eq, hv]

/-- the call list the driver computes from a table of memoised hashes is the model's, when the table is right -/
theorem c14_callsT_leaf (tbl : Nat → Nat) (fxh : List HCall → Nat) (t name : Text) :
    (Src.orig t name).callsT tbl = (Src.orig t name).calls fxh := by simp [Src.callsT, Src.calls]

example : (Src.rawBuf [255] [239, 191, 189]).eqv (.rawBuf [255] []) = true := by decide


/-- **`a == b` implies equal answers from the observers that never look at a cache**: text, bytes, size and rope.
(`from_utf8_lossy` is a function `f` of the bytes.) -/
theorem c14_eq_views (f : Text → Text) (a b : Src) (h : a.eqv b = true) (ha : a.LossyFun f) (hb : b.LossyFun f) :
    a.src = b.src ∧ a.buffer = b.buffer ∧ a.size = b.size ∧ a.rope = b.rope := by
  have he := Src.eqv_erase f a b h ha hb
  obtain ⟨a1, a2, a3, a4⟩ := Src.erase_views a
  obtain ⟨b1, b2, b3, b4⟩ := Src.erase_views b
  rw [he] at a1 a2 a3 a4
  exact ⟨a1.symm.trans b1, a2.symm.trans b2, a3.symm.trans b3, a4.symm.trans b4⟩

/-- **for values that own no cache, `a == b` is identity**: the two values are the same tree, so *every* observer —
`map`, chunk streaming with either column setting, hashing, in any order and from any cache state of enclosing
sources — answers identically.  (For trees containing a `CachedSource` the two values own different caches; what can
differ then is exactly known finding K3.) -/
theorem c14_eq_identity (f : Text → Text) (a b : Src) (h : a.eqv b = true) (ha : a.LossyFun f) (hb : b.LossyFun f)
    (na : a.NoCached) (nb : b.NoCached) : a = b := by
  have he := Src.eqv_erase f a b h ha hb
  rwa [Src.erase_noCached a na, Src.erase_noCached b nb] at he

theorem c14_eq_observers (f : Text → Text) (a b : Src) (h : a.eqv b = true) (ha : a.LossyFun f) (hb : b.LossyFun f)
    (na : a.NoCached) (nb : b.NoCached) (o : Opts) (σ : Store) :
    a.stream o σ = b.stream o σ ∧ a.map o σ = b.map o σ := by
  rw [c14_eq_identity f a b h ha hb na nb]; exact ⟨rfl, rfl⟩


/-- **`a == b` with CachedSource nodes, each value on its own cold caches: equal first answers** — `a` and `b` are the same tree up to
which caches their CachedSource nodes own; their first streams (every mode) and first `get_map` results are identical. -/
theorem c14_eq_first_calls (f : Text → Text) (a b : Src) (h : a.eqv b = true) (ha : a.LossyFun f) (hb : b.LossyFun f)
    (o : Opts) (σa σb : Store) (hna : a.ids.Nodup) (hnb : b.ids.Nodup) (hca : Cold σa a.ids) (hcb : Cold σb b.ids) :
    (a.stream o σa).1 = (b.stream o σb).1 ∧ (getMap a o σa).1 = (getMap b o σb).1 := by
  have he := Src.eqv_erase f a b h ha hb
  have hs : a.strip = b.strip := by rw [← Src.strip_eraseIds a, ← Src.strip_eraseIds b, he]
  exact ⟨by rw [Src.stream_strip a o σa hna hca, Src.stream_strip b o σb hnb hcb, hs],
    by rw [getMap_strip a o σa hna hca, getMap_strip b o σb hnb hcb, hs]⟩

/-- **… and equal second answers at name level**: streamed twice (columns = true), each on its own caches, `a` and `b` resolve every
byte of the second stream to the same file name, original line, original column and name — the representation differences of
known finding K3 (which call filled a cache) do not reach the attribution.  (No CachedSource beneath a ReplaceSource: K5.) -/
theorem c14_eq_second_stream (f : Text → Text) (a b : Src) (h : a.eqv b = true) (ha : a.LossyFun f) (hb : b.LossyFun f)
    (σa σb : Store) (hna : a.ids.Nodup) (hnb : b.ids.Nodup) (hca : Cold σa a.ids) (hcb : Cold σb b.ids)
    (hka : a.CachedOK) (hkb : b.CachedOK) (hwa : a.WarmHyp) (hwb : b.WarmHyp) :
    NA (a.stream ⟨true, false⟩ (a.stream ⟨true, false⟩ σa).2).1.evs = NA (b.stream ⟨true, false⟩ (b.stream ⟨true, false⟩ σb).2).1.evs := by
  rw [Src.second_stream_NA a σa hna hca hka hwa, Src.second_stream_NA b σb hnb hcb hkb hwb,
    (c14_eq_first_calls f a b h ha hb ⟨true, false⟩ σa σb hna hnb hca hcb).1]

/-- **`a == b` after arbitrary observer histories, at name level** (columns = true): `a` and `b` are equal values with CachedSource
nodes (none beneath a ReplaceSource), each on its own caches, cold at the start, and each is observed through its OWN history of
streaming / `get_map` calls — any lengths, any option orders, the two histories unrelated.  Then any normal-mode stream of `a`'s
history and any normal-mode stream of `b`'s history resolve every byte to the same file name, original line, original column and
name; and so do the maps any two `get_map`s of the two histories return.  (What differs between equal values after different
histories is the *representation* of what a cache replays — known finding K3 — never the attribution.) -/
theorem c14_eq_every_history (f : Text → Text) (a b : Src) (h : a.eqv b = true) (ha : a.LossyFun f) (hb : b.LossyFun f)
    (σa σb : Store) (hna : a.ids.Nodup) (hnb : b.ids.Nodup) (hca : Cold σa a.ids) (hcb : Cold σb b.ids)
    (hka : a.NoCR) (hkb : b.NoCR) (callsA callsB : List Opts) :
    (a.WarmHyp → b.WarmHyp → ∀ ka kb : Nat, callsA[ka]? = some (⟨true, false⟩ : Opts) → callsB[kb]? = some (⟨true, false⟩ : Opts) →
      ∃ ra rb : SResult, (runCalls a callsA σa).1[ka]? = some ra ∧ (runCalls b callsB σb).1[kb]? = some rb ∧ NA ra.evs = NA rb.evs)
    ∧ (a.ModeHypC → b.ModeHypC → a.SmallF → b.SmallF →
        (∀ m ∈ chunkMs (a.strip.stream ⟨true, true⟩ []).1.evs, m.small) →
        (∀ m ∈ chunkMs ((a.warm ⟨true, true⟩).stream ⟨true, true⟩ []).1.evs, m.small) →
        (∀ m ∈ chunkMs ((b.warm ⟨true, true⟩).stream ⟨true, true⟩ []).1.evs, m.small) →
        ∀ ka kb : Nat, callsA[ka]? = some (⟨true, true⟩ : Opts) → callsB[kb]? = some (⟨true, true⟩ : Opts) →
        ∃ ra rb : SResult, (runCalls a callsA σa).1[ka]? = some ra ∧ (runCalls b callsB σb).1[kb]? = some rb ∧
          ∀ sma smb, mapOfEvs true ra.evs = some sma → mapOfEvs true rb.evs = some smb →
            (attrFrom (decode sma.mappings) startPos a.src).map (Option.map (resolveMF sma))
              = (attrFrom (decode smb.mappings) startPos b.src).map (Option.map (resolveMF smb))) := by
  have he := Src.eqv_erase f a b h ha hb
  have hs : a.strip = b.strip := by rw [← Src.strip_eraseIds a, ← Src.strip_eraseIds b, he]
  constructor
  · intro hwa hwb ka kb h1 h2
    obtain ⟨ra, a1, a2⟩ := history_stream_NA a hka hna σa hca hwa callsA ka h1
    obtain ⟨rb, b1, b2⟩ := history_stream_NA b hkb hnb σb hcb hwb callsB kb h2
    exact ⟨ra, rb, a1, b1, by rw [a2, b2, hs]⟩
  · intro hma hmb hsa hsb hs1 hs2a hs2b ka kb h1 h2
    obtain ⟨ra, a1, a2⟩ := history_map_NA a hka hna σa hca hma hsa hs1 hs2a callsA ka h1
    obtain ⟨rb, b1, b2⟩ := history_map_NA b hkb hnb σb hcb hmb hsb (by rw [← hs]; exact hs1) hs2b callsB kb h2
    exact ⟨ra, rb, a1, b1, fun sma smb ea eb => by rw [a2 sma ea, b2 smb eb, hs]⟩

/-- **… and with columns = false** (file and line granularity): equal values, each observed through its own arbitrary history — any
normal-mode stream with columns = false of the one and of the other resolve the first mapped chunk of every generated line to the
same file name and original line; and so do the maps any two `get_map(columns = false)` calls return (lines ≥ 1). -/
theorem c14_eq_every_history_lines (f : Text → Text) (a b : Src) (h : a.eqv b = true) (ha : a.LossyFun f) (hb : b.LossyFun f)
    (σa σb : Store) (hna : a.ids.Nodup) (hnb : b.ids.Nodup) (hca : Cold σa a.ids) (hcb : Cold σb b.ids)
    (hka : a.NoCR) (hkb : b.NoCR) (callsA callsB : List Opts) :
    (a.WF → b.WF → a.PosHyp false → b.PosHyp false → a.WarmHypL → b.WarmHypL →
      ∀ ka kb : Nat, callsA[ka]? = some (⟨false, false⟩ : Opts) → callsB[kb]? = some (⟨false, false⟩ : Opts) →
      ∃ ra rb : SResult, (runCalls a callsA σa).1[ka]? = some ra ∧ (runCalls b callsB σb).1[kb]? = some rb
        ∧ ∀ L, LNameOf ra.evs L = LNameOf rb.evs L)
    ∧ (a.ModeHypL → b.ModeHypL → a.SmallFL → b.SmallFL →
        (∀ m ∈ chunkMs (a.strip.stream ⟨false, true⟩ []).1.evs, ∀ o, m.orig = some o → o.src < U31 ∧ o.line < U31) →
        (∀ m ∈ chunkMs ((a.warm ⟨false, true⟩).stream ⟨false, true⟩ []).1.evs, ∀ o, m.orig = some o → o.src < U31 ∧ o.line < U31) →
        (∀ m ∈ chunkMs ((b.warm ⟨false, true⟩).stream ⟨false, true⟩ []).1.evs, ∀ o, m.orig = some o → o.src < U31 ∧ o.line < U31) →
        ∀ ka kb : Nat, callsA[ka]? = some (⟨false, true⟩ : Opts) → callsB[kb]? = some (⟨false, true⟩ : Opts) →
        ∃ ra rb : SResult, (runCalls a callsA σa).1[ka]? = some ra ∧ (runCalls b callsB σb).1[kb]? = some rb ∧
          ∀ sma smb, mapOfEvs false ra.evs = some sma → mapOfEvs false rb.evs = some smb → ∀ L, 0 < L → LNameM sma L = LNameM smb L) := by
  have he := Src.eqv_erase f a b h ha hb
  have hs : a.strip = b.strip := by rw [← Src.strip_eraseIds a, ← Src.strip_eraseIds b, he]
  constructor
  · intro wa wb pa pb hwa hwb ka kb h1 h2
    obtain ⟨ra, a1, a2⟩ := history_stream_lname a hka hna σa hca wa pa hwa callsA ka h1
    obtain ⟨rb, b1, b2⟩ := history_stream_lname b hkb hnb σb hcb wb pb hwb callsB kb h2
    exact ⟨ra, rb, a1, b1, fun L => by rw [a2 L, b2 L, hs]⟩
  · intro hma hmb hsa hsb hs1 hs2a hs2b ka kb h1 h2
    obtain ⟨ra, a1, a2⟩ := history_map_lname a hka hna σa hca hma hsa hs1 hs2a callsA ka h1
    obtain ⟨rb, b1, b2⟩ := history_map_lname b hkb hnb σb hcb hmb hsb (by rw [← hs]; exact hs1) hs2b callsB kb h2
    exact ⟨ra, rb, a1, b1, fun sma smb ea eb L hL => by rw [a2 sma ea L hL, b2 smb eb L hL, hs]⟩

/-! ## the boundary: which call filled a cache shows in the representation (known finding K3) -/

/-- `CachedSource(SourceMapSource("a", "f"))` with attached map `AAAA`, source `x`, sourceRoot `r` -/
def k3Witness : Src := .cached 0 (.sms [97] [102] ⟨[65, 65, 65, 65], [[120]], [], [], none, some [114], none⟩ none none false)

/-- **"equal values answer alike whatever was observed before" fails at the level of representation** (known finding K3): on
`k3Witness`, `map()` on the cold cache returns the attached map verbatim (source `x`, sourceRoot `r`), while `map()` after a
`stream_chunks` returns the map re-encoded from the streamed chunks (source `r/x`, no sourceRoot) — two different SourceMap values
that resolve every position alike (file `r/x`, line 1, column 0): the attribution statements of `c14_eq_every_history` hold, equality
of the returned values does not. -/
theorem c14_k3_witness :
    ((k3Witness.map ⟨true, false⟩ []).1.map fun m => (m.mappings, m.sources, m.sourceRoot)) = some ([65, 65, 65, 65], [[120]], some [114])
    ∧ ((k3Witness.map ⟨true, false⟩ (k3Witness.stream ⟨true, false⟩ []).2).1.map fun m => (m.mappings, m.sources, m.sourceRoot))
        = some ([65, 65, 65, 65], [[114, 47, 120]], none) := by
  refine ⟨by decide +kernel, by decide +kernel⟩

/-! ## the boundary: column units under non-ASCII text (known finding K4) -/

/-- `CachedSource(ConcatSource[OriginalSource("é;", "f"), OriginalSource("b", "g")])` -/
def k4Witness : Src := .cached 0 (.concat (.cons (.orig [195, 169, 59] [102]) (.cons (.orig [98] [103]) .nil)))

/-- **repeating a call changes its answer when the text is not ASCII** (known finding K4; outside C10's quantifier, inside C14's): the
first stream of `k4Witness` reports the second child at column 3 — ConcatSource counts the *bytes* of `"é;"` — and stores that; the
second stream replays the stored map through the map-driven splitter, which counts *chars* (`"é;b"` has three), so column 3 lies
beyond the line: one chunk `"é;b"` comes out, attributed to file `f` alone — the byte `b` has moved from `g` to `f`. -/
theorem c14_k4_witness :
    chunkMs (k4Witness.stream ⟨true, false⟩ []).1.evs = [⟨1, 0, some ⟨0, 1, 0, none⟩⟩, ⟨1, 3, some ⟨1, 1, 0, none⟩⟩]
    ∧ chunkMs (k4Witness.stream ⟨true, false⟩ (k4Witness.stream ⟨true, false⟩ []).2).1.evs = [⟨1, 0, some ⟨0, 1, 0, none⟩⟩]
    ∧ evsText (k4Witness.stream ⟨true, false⟩ (k4Witness.stream ⟨true, false⟩ []).2).1.evs = [195, 169, 59, 98] := by
  refine ⟨by decide +kernel, by decide +kernel, by decide +kernel⟩

end Rs
