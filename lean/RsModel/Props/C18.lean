import RsModel.Lemmas.Conc
/-!
# C18 — concurrent readers get sequential answers; cached maps are never replaced
Any number of threads, any operation lists, every interleaving of the schedule points.
-/
namespace Rs.Conc

/-- every call that has completed, in every thread, under every schedule, returned the sequential answer
(the sorted replacement order / a consistent clone / a correct cached map / the memoised value) -/
theorem c18_sequential_answers (progs : List (List Op)) (sched : List Nat) :
    ∀ t ∈ (run (initSys progs) sched).ths, t.ok = true := by
  intro t ht
  have h := inv_run sched _ (inv_init progs)
  obtain ⟨i, hi, rfl⟩ := List.getElem_of_mem ht
  exact (h.threads i hi).ok

/-- the lazily sorted index: whenever the flag is set the index is the sorted one, in every reachable state -/
theorem c18_flag_implies_sorted (progs : List (List Op)) (sched : List Nat) :
    (run (initSys progs) sched).sh.flag = true → (run (initSys progs) sched).sh.idxSorted = true :=
  (inv_run sched _ (inv_init progs)).flagIdx

/-- once a map has been cached it is never removed or replaced: any step from any reachable state keeps it -/
theorem c18_write_once (progs : List (List Op)) (sched : List Nat) (i : Nat) (v : Val) (s' : Sys)
    (hv : (run (initSys progs) sched).sh.entry = some v) (hs : step (run (initSys progs) sched) i = some s') :
    s'.sh.entry = some v := by
  have h := inv_run sched _ (inv_init progs)
  generalize run (initSys progs) sched = s at *
  unfold step at hs
  cases hti : s.ths[i]? with
  | none => simp [hti] at hs
  | some t =>
    simp only [hti, Option.map_eq_some_iff] at hs
    obtain ⟨⟨sh', t'⟩, hst, rfl⟩ := hs
    have hi : i < s.ths.length := by
      rcases Nat.lt_or_ge i s.ths.length with h | h
      · exact h
      · rw [List.getElem?_eq_none h] at hti; cases hti
    have hget : s.ths[i] = t := by rw [List.getElem?_eq_getElem hi] at hti; injection hti
    exact (stepThread_spec s.sh i t sh' t' h.flagIdx h.lockVacant (hget ▸ h.threads i hi) hst).1.entry v hv

/-- no deadlock: in every reachable state, if some thread has work left then some thread can take a step
(the holder of the shard lock is never blocked) -/
theorem c18_no_deadlock (progs : List (List Op)) (sched : List Nat)
    (hwork : ∃ t ∈ (run (initSys progs) sched).ths, t.ops ≠ []) :
    ∃ i, (step (run (initSys progs) sched) i).isSome = true := by
  have h := inv_run sched _ (inv_init progs)
  generalize run (initSys progs) sched = s at *
  -- if the lock is held, its holder can step; otherwise any unfinished thread can
  cases hl : s.sh.lock with
  | some k =>
    have hk := h.lockValid k hl
    have ht := (h.threads k hk).holder.mp hl
    refine ⟨k, ?_⟩
    simp only [step, List.getElem?_eq_getElem hk, Option.isSome_map]
    cases hops : s.ths[k].ops with
    | nil => simp [hops] at ht
    | cons op rest =>
      simp only [hops, List.head?_cons, Option.some.injEq] at ht
      obtain ⟨rfl, hpc⟩ := ht
      simp only [stepThread, hops, hl]
      have : ¬ ((some k).isSome = true ∧ (some k : Option Nat) ≠ some k) := by simp
      simp only [this, if_false]
      match hp : s.ths[k].pc with
      | 0 => omega
      | 1 => simp
      | n + 2 => simp
  | none =>
    obtain ⟨t, ht, hne⟩ := hwork
    obtain ⟨i, hi, rfl⟩ := List.getElem_of_mem ht
    refine ⟨i, ?_⟩
    simp only [step, List.getElem?_eq_getElem hi, Option.isSome_map]
    cases hops : s.ths[i].ops with
    | nil => exact absurd hops hne
    | cons op rest =>
      cases op <;> simp only [stepThread, hops, hl] <;>
        (first
          | (match s.ths[i].pc with | 0 => simp | 1 => simp | 2 => simp | n + 3 => simp)
          | skip)
      all_goals (try (simp only [Option.isSome_none, Bool.false_eq_true, false_and, if_false]))
      all_goals (try (match s.ths[i].pc with | 0 => (cases s.sh.entry <;> simp) | 1 => simp | n + 2 => simp))
      all_goals (try (match s.ths[i].pc with | 0 => (cases s.sh.once <;> simp) | n + 1 => simp))

/-! non-vacuity: a clone racing a sort, and `map()` racing `stream_chunks`, under a schedule that interleaves
them inside the critical windows -/
example : (run (initSys [[.clone], [.sorted]]) [0, 1, 1, 1, 1, 0, 0]).ths.all (fun t => t.ok && t.ops.isEmpty) = true := by decide
example : (run (initSys [[.cmap], [.cstream]]) [0, 0, 1, 1, 1, 0]).sh.entry = some .S := by decide

end Rs.Conc
