import RsModel.Lemmas.Conc
import RsModel.Lemmas.ConcV
import RsModel.Props.C10
/-!
# C18 — concurrent readers get sequential answers; cached maps are never replaced
Any number of threads, any operation lists, every interleaving of the schedule points.
-/
namespace Rs.Conc

/-- every call that has completed, in every thread, under every schedule, returned the sequential answer
(the sorted replacement order / a consistent clone / a correct cached map / the memoised value) -/
theorem c18_sequential_answers (progs : List (List Op)) (sched : List Nat) :
    ∀ t ∈ (run (initSys progs) sched).ths, t.ok = true := by
  intro t ht
  have h := inv_run sched _ (inv_init progs)
  obtain ⟨i, hi, rfl⟩ := List.getElem_of_mem ht
  exact (h.threads i hi).ok

/-- the lazily sorted index: whenever the flag is set the index is the sorted one, in every reachable state -/
theorem c18_flag_implies_sorted (progs : List (List Op)) (sched : List Nat) :
    (run (initSys progs) sched).sh.flag = true → (run (initSys progs) sched).sh.idxSorted = true :=
  (inv_run sched _ (inv_init progs)).flagIdx

/-- once a map has been cached it is never removed or replaced: any step from any reachable state keeps it -/
theorem c18_write_once (progs : List (List Op)) (sched : List Nat) (i : Nat) (v : Val) (s' : Sys)
    (hv : (run (initSys progs) sched).sh.entry = some v) (hs : step (run (initSys progs) sched) i = some s') :
    s'.sh.entry = some v := by
  have h := inv_run sched _ (inv_init progs)
  generalize run (initSys progs) sched = s at *
  unfold step at hs
  cases hti : s.ths[i]? with
  | none => simp [hti] at hs
  | some t =>
    simp only [hti, Option.map_eq_some_iff] at hs
    obtain ⟨⟨sh', t'⟩, hst, rfl⟩ := hs
    have hi : i < s.ths.length := by
      rcases Nat.lt_or_ge i s.ths.length with h | h
      · exact h
      · rw [List.getElem?_eq_none h] at hti; cases hti
    have hget : s.ths[i] = t := by rw [List.getElem?_eq_getElem hi] at hti; injection hti
    exact (stepThread_spec s.sh i t sh' t' h.flagIdx h.lockVacant (hget ▸ h.threads i hi) hst).1.entry v hv

/-- no deadlock: in every reachable state, if some thread has work left then some thread can take a step
(the holder of the shard lock is never blocked) -/
theorem c18_no_deadlock (progs : List (List Op)) (sched : List Nat)
    (hwork : ∃ t ∈ (run (initSys progs) sched).ths, t.ops ≠ []) :
    ∃ i, (step (run (initSys progs) sched) i).isSome = true := by
  have h := inv_run sched _ (inv_init progs)
  generalize run (initSys progs) sched = s at *
  -- if the lock is held, its holder can step; otherwise any unfinished thread can
  cases hl : s.sh.lock with
  | some k =>
    have hk := h.lockValid k hl
    have ht := (h.threads k hk).holder.mp hl
    refine ⟨k, ?_⟩
    simp only [step, List.getElem?_eq_getElem hk, Option.isSome_map]
    cases hops : s.ths[k].ops with
    | nil => simp [hops] at ht
    | cons op rest =>
      simp only [hops, List.head?_cons, Option.some.injEq] at ht
      obtain ⟨rfl, hpc⟩ := ht
      simp only [stepThread, hops, hl]
      have : ¬ ((some k).isSome = true ∧ (some k : Option Nat) ≠ some k) := by simp
      simp only [this, if_false]
      match hp : s.ths[k].pc with
      | 0 => omega
      | 1 => simp
      | n + 2 => simp
  | none =>
    obtain ⟨t, ht, hne⟩ := hwork
    obtain ⟨i, hi, rfl⟩ := List.getElem_of_mem ht
    refine ⟨i, ?_⟩
    simp only [step, List.getElem?_eq_getElem hi, Option.isSome_map]
    cases hops : s.ths[i].ops with
    | nil => exact absurd hops hne
    | cons op rest =>
      cases op <;> simp only [stepThread, hops, hl] <;>
        (first
          | (match s.ths[i].pc with | 0 => simp | 1 => simp | 2 => simp | n + 3 => simp)
          | skip)
      all_goals (try (simp only [Option.isSome_none, Bool.false_eq_true, false_and, if_false]))
      all_goals (try (match s.ths[i].pc with | 0 => (cases s.sh.entry <;> simp) | 1 => simp | n + 2 => simp))
      all_goals (try (match s.ths[i].pc with | 0 => (cases s.sh.once <;> simp) | n + 1 => simp))

/-! non-vacuity: a clone racing a sort, and `map()` racing `stream_chunks`, under a schedule that interleaves
them inside the critical windows -/
example : (run (initSys [[.clone], [.sorted]]) [0, 1, 1, 1, 1, 0, 0]).ths.all (fun t => t.ok && t.ops.isEmpty) = true := by decide
example : (run (initSys [[.cmap], [.cstream]]) [0, 0, 1, 1, 1, 0]).sh.entry = some .S := by decide

end Rs.Conc


/-!
## The same protocol with the values (`Model/ConcV.lean`)

The theorems above are about the shared cells alone.  The ones below carry the values the crate computes: the shared ReplaceSource
is the `RState` of C05, the shared CachedSource is the cache store of the sequential model of C10 and its calls act through the
sequential functions.  Any number of threads, any operation lists, every interleaving of the schedule points; the state the
concurrent phase starts from is any state a sequential history can leave behind (`r.Inv`; any store `σ`).
-/
namespace Rs.ConcV
open Rs

/-- **every `sorted_replacement()` under every interleaving returns the stably sorted replacement list, and every clone taken while
other threads read is a consistent value** — so `source()` (and every other observer, all of which are functions of that list)
of the shared object, and of the clone, is the reference replacement model of C05 applied to the replacements, exactly as
single-threaded -/
theorem c18_replace_answers (P : Params) (hnc : P.inner.NoCached) (r : RState) (hr : r.Inv) (σ : Store) (progs : List (List Op))
    (sched : List Nat) (inner : Text) :
    ∀ t ∈ (run P (initSys r σ progs) sched).ths, ∀ a ∈ t.outs,
      (match a with
       | .sorted rs => rs = sortRepls r.repls
           ∧ RState.source inner { repls := r.repls, sorted := rs, isSorted := true } = applyRepls inner r.repls
       | .cloned c => c.repls = r.repls ∧ c.source inner = applyRepls inner r.repls
       | _ => True) := by
  intro t ht a ha
  have h := inv_run P hnc r.repls σ sched _ (inv_init P r hr σ progs)
  obtain ⟨i, hi, rfl⟩ := List.getElem_of_mem ht
  have hok := (h.threads i hi).outs a ha
  cases a with
  | sorted rs =>
    simp only [AnsOK] at hok
    refine ⟨hok, ?_⟩
    rw [RState.source_of_inv inner _ (fun _ => hok), replaceSource_eq_applyRepls]
  | cloned c =>
    simp only [AnsOK] at hok
    refine ⟨hok.1, ?_⟩
    rw [RState.source_of_inv inner _ hok.2, replaceSource_eq_applyRepls, hok.1]
  | call c x => trivial
  | once v => trivial

/-- the lazily sorted index, with its value: in every reachable state, flag set ⇒ the index is the sorted order; the replacement
list itself is never touched -/
theorem c18_flag_implies_sorted_value (P : Params) (hnc : P.inner.NoCached) (r : RState) (hr : r.Inv) (σ : Store)
    (progs : List (List Op)) (sched : List Nat) :
    (run P (initSys r σ progs) sched).sh.r.Inv ∧ (run P (initSys r σ progs) sched).sh.r.repls = r.repls := by
  have h := inv_run P hnc r.repls σ sched _ (inv_init P r hr σ progs)
  refine ⟨?_, h.sh.repls⟩
  intro hf
  rw [h.sh.repls]
  exact h.sh.flagIdx hf

/-- **linearisability of the shared CachedSource**: in every reachable state of every interleaving, the `map()` / `stream_chunks`
/ text-view calls completed so far — in the order of the accesses that decided them (`log`) — are a run of the *sequential* model
from the store the phase started with: the sequential run returns exactly the answers the threads got and ends in exactly the
current store; and every answer any thread holds is in that log -/
theorem c18_linearizable (P : Params) (hnc : P.inner.NoCached) (r : RState) (hr : r.Inv) (σ : Store) (progs : List (List Op))
    (sched : List Nat) :
    let fin := run P (initSys r σ progs) sched
    runRoot3 P.id P.inner (fin.sh.log.map Prod.fst) σ = (fin.sh.log, fin.sh.σ)
    ∧ ∀ t ∈ fin.ths, ∀ c x, Ans.call c x ∈ t.outs → (c, x) ∈ fin.sh.log := by
  intro fin
  have h := inv_run P hnc r.repls σ sched _ (inv_init P r hr σ progs)
  refine ⟨h.sh.lin, ?_⟩
  intro t ht c x hx
  obtain ⟨i, hi, rfl⟩ := List.getElem_of_mem ht
  exact (h.threads i hi).outs _ hx

/-- **… hence every concurrent answer is a sequential answer**: on a cold cache, whatever the interleaving, every `stream_chunks`
answer attributes every byte (columns) / every line (no columns) exactly as the wrapped source's own stream, every `map()` answer
resolves every position alike and is absent exactly when nothing is mapped, and the text views are the wrapped source's — the
statement of `c10_root_history_full`, now for calls racing on several threads -/
theorem c18_cached_answers (P : Params) (hnc : P.inner.NoCached) (h2 : RootHyp2 P.id P.inner) (hT : RootHyp P.inner.strip)
    (hL : RootHypL P.inner.strip) (r : RState) (hr : r.Inv) (σ : Store) (h0 : ∀ o, σ.get? (P.id, o) = none)
    (hc : Cold σ P.inner.ids) (progs : List (List Op)) (sched : List Nat) :
    ∀ t ∈ (run P (initSys r σ progs) sched).ths, ∀ c x, Ans.call c x ∈ t.outs →
      (match c, x with
       | .src, .text t => t = P.inner.src
       | .buffer, .text t => t = P.inner.buffer
       | .size, .num n => n = P.inner.size
       | .io c2, .io (.stream r) =>
          (c2.1 = true → attrOf r.evs = attrOf (P.inner.strip.stream ⟨true, false⟩ []).1.evs)
          ∧ (c2.1 = false → ∀ L, LNameOf r.evs L = LNameOf (P.inner.strip.stream ⟨false, false⟩ []).1.evs L)
       | .io c2, .io (.map m) =>
          (c2.1 = true → (∀ sm, m = some sm → attrFrom (decode sm.mappings) startPos P.inner.src = attrOf (P.inner.strip.stream ⟨true, false⟩ []).1.evs)
              ∧ (m = none → attrOf (P.inner.strip.stream ⟨true, false⟩ []).1.evs = List.replicate P.inner.src.length none))
          ∧ (c2.1 = false → ∀ sm, m = some sm → ∀ L, 0 < L → LNameM sm L = LNameOf (P.inner.strip.stream ⟨false, false⟩ []).1.evs L)
       | _, _ => False) := by
  intro t ht c x hx
  obtain ⟨hlin, hmem⟩ := c18_linearizable P hnc r hr σ progs sched
  have hin := hmem t ht c x hx
  have := c10_root_history_full P.id P.inner h2 hT hL _ σ h0 hc (c, x) (by rw [hlin]; exact hin)
  exact this

/-- the same from *any* store a sequential history can leave behind (`RootInv2`: every entry of the wrapper absent or one of the two
fills) — a concurrent phase that follows earlier sequential or concurrent use: every answer is the fresh stream of the cache-free
tree, the replay of one of the two fills, one of the two fills itself, or the wrapped source's text / size (`AnsOK3`) -/
theorem c18_cached_answers_any_start (P : Params) (hnc : P.inner.NoCached) (h2 : RootHyp2 P.id P.inner) (r : RState) (hr : r.Inv)
    (σ : Store) (hσ : RootInv2 P.id P.inner σ) (progs : List (List Op)) (sched : List Nat) :
    ∀ t ∈ (run P (initSys r σ progs) sched).ths, ∀ c x, Ans.call c x ∈ t.outs → AnsOK3 P.inner c x := by
  intro t ht c x hx
  obtain ⟨hlin, hmem⟩ := c18_linearizable P hnc r hr σ progs sched
  have hin := hmem t ht c x hx
  exact runRoot3_answers P.id P.inner h2 _ σ hσ (c, x) (by rw [hlin]; exact hin)

/-- … and the invariant survives the phase: the store it leaves behind is again one a sequential history could have produced -/
theorem c18_store_after_phase (P : Params) (hnc : P.inner.NoCached) (r : RState) (hr : r.Inv) (σ : Store) (progs : List (List Op))
    (sched : List Nat) :
    (run P (initSys r σ progs) sched).sh.σ
      = (runRoot3 P.id P.inner ((run P (initSys r σ progs) sched).sh.log.map Prod.fst) σ).2 := by
  rw [(c18_linearizable P hnc r hr σ progs sched).1]

/-- **all concurrent `map()` calls with one column setting get the same map**: whichever threads call `map(columns)` on the shared
CachedSource or its clones, whenever, under every interleaving (also racing with `stream_chunks`, which may be the one to fill the
entry), any two of the answers are equal — the value side of "the cached value is never replaced" and of "repeating a call never
changes its answer" (C10) -/
theorem c18_map_answers_agree (P : Params) (hnc : P.inner.NoCached) (r : RState) (hr : r.Inv) (σ : Store) (progs : List (List Op))
    (sched : List Nat) (col : Bool) :
    ∀ t₁ ∈ (run P (initSys r σ progs) sched).ths, ∀ t₂ ∈ (run P (initSys r σ progs) sched).ths, ∀ x₁ x₂,
      Ans.call (.io (col, .map)) x₁ ∈ t₁.outs → Ans.call (.io (col, .map)) x₂ ∈ t₂.outs → x₁ = x₂ := by
  intro t₁ h₁ t₂ h₂ x₁ x₂ m₁ m₂
  obtain ⟨hlin, hmem⟩ := c18_linearizable P hnc r hr σ progs sched
  have a := hmem t₁ h₁ _ _ m₁
  have b := hmem t₂ h₂ _ _ m₂
  have := map_answers_agree P.id P.inner hnc col _ σ (_, x₁) (by rw [hlin]; exact a) (_, x₂) (by rw [hlin]; exact b) rfl rfl
  exact this

/-- **once a map has been cached it is never removed or replaced**, with its value: any step of any thread from any reachable
state keeps every stored entry -/
theorem c18_entry_never_replaced (P : Params) (hnc : P.inner.NoCached) (r : RState) (hr : r.Inv) (σ : Store) (progs : List (List Op))
    (sched : List Nat) (i : Nat) (s' : Sys) (k : Nat × Opts) (v : Option SMap)
    (hv : (run P (initSys r σ progs) sched).sh.σ.get? k = some v) (hs : step P (run P (initSys r σ progs) sched) i = some s') :
    s'.sh.σ.get? k = some v :=
  (step_spec P hnc r.repls σ _ s' i (inv_run P hnc r.repls σ sched _ (inv_init P r hr σ progs)) hs).2.entry k v hv

/-- **no deadlock with both column settings** (two cache keys, two entry locks): in every reachable state of every interleaving, if
some thread has work left then some thread can take a step.  (The model gives every key its own lock; DashMap may make two keys
share a shard lock, which only removes interleavings — the holder of a shard lock still waits for nothing.) -/
theorem c18_no_deadlock_two_keys (P : Params) (hnc : P.inner.NoCached) (r : RState) (hr : r.Inv) (σ : Store) (progs : List (List Op))
    (sched : List Nat) (hwork : ∃ t ∈ (run P (initSys r σ progs) sched).ths, t.ops ≠ []) :
    ∃ i, (step P (run P (initSys r σ progs) sched) i).isSome = true :=
  no_deadlock_of_inv P r.repls σ _ (inv_run P hnc r.repls σ sched _ (inv_init P r hr σ progs)) hwork

/-- the memoised hash: every `get_or_init` returns the one value -/
theorem c18_once_value (P : Params) (hnc : P.inner.NoCached) (r : RState) (hr : r.Inv) (σ : Store) (progs : List (List Op))
    (sched : List Nat) : ∀ t ∈ (run P (initSys r σ progs) sched).ths, ∀ v, Ans.once v ∈ t.outs → v = P.hv := by
  intro t ht v hv
  have h := inv_run P hnc r.repls σ sched _ (inv_init P r hr σ progs)
  obtain ⟨i, hi, rfl⟩ := List.getElem_of_mem ht
  exact (h.threads i hi).outs _ hv

/-! non-vacuity: `map()` racing `stream_chunks` on a cold `CachedSource(OriginalSource("a;b", "f"))` — the stream takes the entry lock,
`map()` misses before that and stores after the stream has stored (so it returns the *stream's* map, by `or_insert`); a clone racing a
sort of two replacements with colliding keys -/
def exP : Params := { id := 0, inner := .orig [97, 59, 98] [102], hv := 7 }
example : exP.inner.NoCached := trivial
example : RootHyp2 exP.id exP.inner := ⟨by simp [exP, Src.NoCR], by decide, by decide, fun _ _ => rfl⟩
example : (run exP (initSys {} [] [[.call (.io (true, .map))], [.call (.io (true, .stream))]]) [0, 1, 1, 1, 0, 0]).sh.log.map
      (fun p => match p.1 with | .io (_, .stream) => 1 | .io (_, .map) => 2 | _ => 0) = [1, 2] := by decide
def exR : RState := { repls := [⟨1, 2, [88], none, 1⟩, ⟨1, 2, [89], none, 0⟩], sorted := [], isSorted := false }
example : exR.Inv := fun h => by cases h
example : (run exP (initSys exR [] [[.clone], [.sorted]]) [0, 1, 1, 1, 1, 0, 0]).ths.all (fun t => t.ops.isEmpty && t.outs.length == 1) = true := by
  decide

/-! ## the whole life of a shared ReplaceSource

Mutators need `&mut self`, so the life of a value alternates between *exclusive* phases — any sequence of `replace` / `insert`
calls, observers and clones by the one owner (the histories of C05) — and *shared* phases in which any number of threads read
concurrently.  The hypothesis `r.Inv` of the theorems above is met at the start of every phase of every such life, and the
replacement list at that point is the list of all `replace` / `insert` calls so far. -/

inductive Phase where
  | excl (ops : List ROp)
  | shared (progs : List (List Op)) (sched : List Nat)

def runPhase (P : Params) (s : RState × Store) : Phase → RState × Store
  | .excl ops => (ops.foldl RState.step s.1, s.2)
  | .shared progs sched => ((run P (initSys s.1 s.2 progs) sched).sh.r, (run P (initSys s.1 s.2 progs) sched).sh.σ)

def lifeEnd (P : Params) : RState × Store → List Phase → RState × Store
  | s, [] => s
  | s, ph :: rest => lifeEnd P (runPhase P s ph) rest

/-- the `replace` / `insert` calls of a life, in call order -/
def lifeRepls : List Phase → List Repl
  | [] => []
  | .excl ops :: rest => histRepls ops ++ lifeRepls rest
  | .shared _ _ :: rest => lifeRepls rest

theorem lifeEnd_inv (P : Params) (hnc : P.inner.NoCached) : ∀ (phases : List Phase) (s : RState × Store), s.1.Inv →
    (lifeEnd P s phases).1.Inv ∧ (lifeEnd P s phases).1.repls = s.1.repls ++ lifeRepls phases := by
  intro phases
  induction phases with
  | nil => intro s h; exact ⟨h, by simp [lifeEnd, lifeRepls]⟩
  | cons ph rest ih =>
    intro s h
    cases ph with
    | excl ops =>
      obtain ⟨h1, h2⟩ := RState.run_inv ops s.1 h
      obtain ⟨a, b⟩ := ih (runPhase P s (.excl ops)) h1
      refine ⟨a, ?_⟩
      simp only [lifeEnd, lifeRepls]
      rw [b]
      simp only [runPhase]
      rw [h2, List.append_assoc]
    | shared progs sched =>
      obtain ⟨h1, h2⟩ := c18_flag_implies_sorted_value P hnc s.1 h s.2 progs sched
      obtain ⟨a, b⟩ := ih (runPhase P s (.shared progs sched)) h1
      refine ⟨a, ?_⟩
      simp only [lifeEnd, lifeRepls]
      rw [b]
      simp only [runPhase]
      rw [h2]

/-- **every concurrent read in every shared phase of every life of a ReplaceSource** (created empty; any exclusive and shared
phases before): each `sorted_replacement()` returns the stable sort of all replacements registered so far, and `source()` of the
object or of a clone taken meanwhile is the reference model of C05 applied to them -/
theorem c18_life (P : Params) (hnc : P.inner.NoCached) (σ : Store) (pre : List Phase) (progs : List (List Op)) (sched : List Nat)
    (inner : Text) :
    ∀ t ∈ (run P (initSys (lifeEnd P ({}, σ) pre).1 (lifeEnd P ({}, σ) pre).2 progs) sched).ths, ∀ a ∈ t.outs,
      (match a with
       | .sorted rs => rs = sortRepls (lifeRepls pre)
           ∧ RState.source inner { repls := lifeRepls pre, sorted := rs, isSorted := true } = applyRepls inner (lifeRepls pre)
       | .cloned c => c.repls = lifeRepls pre ∧ c.source inner = applyRepls inner (lifeRepls pre)
       | _ => True) := by
  have hinit : ({} : RState).Inv := fun _ => rfl
  obtain ⟨h1, h2⟩ := lifeEnd_inv P hnc pre ({}, σ) hinit
  have h2' : (lifeEnd P ({}, σ) pre).1.repls = lifeRepls pre := by rw [h2]; rfl
  intro t ht a ha
  have := c18_replace_answers P hnc _ h1 _ progs sched inner t ht a ha
  rw [h2'] at this
  exact this

/-- non-vacuity: a life with two exclusive phases around a shared one -/
example : lifeRepls [.excl [.replace ⟨1, 2, [88], none, 1⟩, .observe], .shared [[.sorted], [.clone]] [0, 1, 0, 1], .excl [.replace ⟨0, 1, [89], none, 1⟩]]
    = [⟨1, 2, [88], none, 1⟩, ⟨0, 1, [89], none, 1⟩] := by decide

end Rs.ConcV
