import RsModel.Model.Tree
import RsModel.Props.C01
/-!
# C10 — CachedSource is transparent for every call history
-/
namespace Rs

/-- text, buffer and size never touch the cache -/
theorem c10_views (id : Nat) (s : Src) :
    (Src.cached id s).src = s.src ∧ (Src.cached id s).buffer = s.buffer ∧ (Src.cached id s).size = s.size :=
  ⟨by simp [Src.src], by simp [Src.buffer], by simp [Src.size]⟩

theorem Store.get_insertNew_other (σ : Store) (k k' : Nat × Opts) (v : Option SMap) (h : k ≠ k') :
    (σ.insertNew k v).get? k' = σ.get? k' := by
  unfold Store.insertNew
  split
  · rfl
  · unfold Store.get?
    rw [List.find?_append]
    have : (k == k') = false := by simpa using h
    cases σ.find? (fun e => e.1 == k') <;> simp [List.find?, this]

/-- results cached for one option set are never served for another: filling the entry for `(id, o)` leaves
the entry of every other key — in particular the other column setting — as it was -/
theorem c10_keys (σ : Store) (id : Nat) (o o' : Opts) (v : Option SMap) (h : o ≠ o') :
    (σ.insertNew (id, o) v).get? (id, o') = σ.get? (id, o') :=
  Store.get_insertNew_other σ _ _ v (by intro e; exact h (by injection e))

/-- once stored, an entry is never replaced (`entry().or_insert`) -/
theorem c10_write_once (σ : Store) (k : Nat × Opts) (v w : Option SMap) (h : σ.get? k = some v) :
    (σ.insertNew k w).get? k = some v := by
  unfold Store.insertNew
  simp [h]

/-- a cold `map()` on a CachedSource returns what the wrapped source's `map()` returns -/
theorem c10_map_cold (id : Nat) (s : Src) (o : Opts) (σ : Store) (h : σ.get? (id, o) = none) :
    ((Src.cached id s).map o σ).1 = (s.map o σ).1 := by
  simp [Src.map, h]

/-- a repeated `map()` returns the stored answer -/
theorem c10_map_warm (id : Nat) (s : Src) (o : Opts) (σ : Store) (m : Option SMap) (h : σ.get? (id, o) = some m) :
    (Src.cached id s).map o σ = (m, σ) := by
  simp [Src.map, h]

/-- whatever earlier calls have left in the cache (any history, any store `σ`), a stream of the wrapper delivers
exactly the text of the wrapped source, in both column settings -/
theorem c10_stream_text (id : Nat) (s : Src) (c : Bool) (σ : Store) (h : (Src.cached id s).WF) :
    evsText ((Src.cached id s).stream ⟨c, false⟩ σ).1.evs = s.src :=
  (c01 (.cached id s) c σ h).1

/-- repeating a stream never changes the delivered text: after the first call has filled the cache (store `σ'`),
the second call delivers the same text -/
theorem c10_stream_text_repeat (id : Nat) (s : Src) (c : Bool) (σ : Store) (h : (Src.cached id s).WF) :
    evsText ((Src.cached id s).stream ⟨c, false⟩ ((Src.cached id s).stream ⟨c, false⟩ σ).2).1.evs
      = evsText ((Src.cached id s).stream ⟨c, false⟩ σ).1.evs := by
  rw [c10_stream_text id s c _ h, c10_stream_text id s c σ h]

end Rs
