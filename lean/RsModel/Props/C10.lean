import RsModel.Model.Tree
/-!
# C10 — CachedSource is transparent for every call history
-/
namespace Rs

/-- text, buffer and size never touch the cache -/
theorem c10_views (id : Nat) (s : Src) :
    (Src.cached id s).src = s.src ∧ (Src.cached id s).buffer = s.buffer ∧ (Src.cached id s).size = s.size :=
  ⟨by simp [Src.src], by simp [Src.buffer], by simp [Src.size]⟩

theorem Store.get_insertNew_other (σ : Store) (k k' : Nat × Opts) (v : Option SMap) (h : k ≠ k') :
    (σ.insertNew k v).get? k' = σ.get? k' := by
  unfold Store.insertNew
  split
  · rfl
  · unfold Store.get?
    rw [List.find?_append]
    have : (k == k') = false := by simpa using h
    cases σ.find? (fun e => e.1 == k') <;> simp [List.find?, this]

/-- results cached for one option set are never served for another: filling the entry for `(id, o)` leaves
the entry of every other key — in particular the other column setting — as it was -/
theorem c10_keys (σ : Store) (id : Nat) (o o' : Opts) (v : Option SMap) (h : o ≠ o') :
    (σ.insertNew (id, o) v).get? (id, o') = σ.get? (id, o') :=
  Store.get_insertNew_other σ _ _ v (by intro e; exact h (by injection e))

/-- once stored, an entry is never replaced (`entry().or_insert`) -/
theorem c10_write_once (σ : Store) (k : Nat × Opts) (v w : Option SMap) (h : σ.get? k = some v) :
    (σ.insertNew k w).get? k = some v := by
  unfold Store.insertNew
  simp [h]

/-- a cold `map()` on a CachedSource returns what the wrapped source's `map()` returns -/
theorem c10_map_cold (id : Nat) (s : Src) (o : Opts) (σ : Store) (h : σ.get? (id, o) = none) :
    ((Src.cached id s).map o σ).1 = (s.map o σ).1 := by
  simp [Src.map, h]

/-- a repeated `map()` returns the stored answer -/
theorem c10_map_warm (id : Nat) (s : Src) (o : Opts) (σ : Store) (m : Option SMap) (h : σ.get? (id, o) = some m) :
    (Src.cached id s).map o σ = (m, σ) := by
  simp [Src.map, h]

end Rs
