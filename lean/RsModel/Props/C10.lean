import RsModel.Model.Tree
import RsModel.Props.C01
import RsModel.Lemmas.Replay
import RsModel.Lemmas.PosTree
import RsModel.Lemmas.ReplayNames
import RsModel.Lemmas.ReplayLines
import RsModel.Lemmas.MappedNE
import RsModel.Lemmas.ReplayMap
import RsModel.Lemmas.ColdStrip
import RsModel.Lemmas.WarmTree
import RsModel.Lemmas.WarmMap
import RsModel.Lemmas.HistoryAnswers
import RsModel.Lemmas.WarmLinesF
import RsModel.Lemmas.RootHistory
import RsModel.Lemmas.RootHistoryL
import RsModel.Lemmas.RootNested
/-!
# C10 — CachedSource is transparent for every call history
-/
namespace Rs

/-- text, buffer and size never touch the cache -/
theorem c10_views (id : Nat) (s : Src) :
    (Src.cached id s).src = s.src ∧ (Src.cached id s).buffer = s.buffer ∧ (Src.cached id s).size = s.size :=
  ⟨by simp [Src.src], by simp [Src.buffer], by simp [Src.size]⟩

theorem Store.get_insertNew_other (σ : Store) (k k' : Nat × Opts) (v : Option SMap) (h : k ≠ k') :
    (σ.insertNew k v).get? k' = σ.get? k' := by
  unfold Store.insertNew
  split
  · rfl
  · unfold Store.get?
    rw [List.find?_append]
    have : (k == k') = false := by simpa using h
    cases σ.find? (fun e => e.1 == k') <;> simp [List.find?, this]

/-- results cached for one option set are never served for another: filling the entry for `(id, o)` leaves
the entry of every other key — in particular the other column setting — as it was -/
theorem c10_keys (σ : Store) (id : Nat) (o o' : Opts) (v : Option SMap) (h : o ≠ o') :
    (σ.insertNew (id, o) v).get? (id, o') = σ.get? (id, o') :=
  Store.get_insertNew_other σ _ _ v (by intro e; exact h (by injection e))

/-- once stored, an entry is never replaced (`entry().or_insert`) -/
theorem c10_write_once (σ : Store) (k : Nat × Opts) (v w : Option SMap) (h : σ.get? k = some v) :
    (σ.insertNew k w).get? k = some v := by
  unfold Store.insertNew
  simp [h]

/-- a cold `map()` on a CachedSource returns what the wrapped source's `map()` returns -/
theorem c10_map_cold (id : Nat) (s : Src) (o : Opts) (σ : Store) (h : σ.get? (id, o) = none) :
    ((Src.cached id s).map o σ).1 = (s.map o σ).1 := by
  simp [Src.map, h]

/-- a repeated `map()` returns the stored answer -/
theorem c10_map_warm (id : Nat) (s : Src) (o : Opts) (σ : Store) (m : Option SMap) (h : σ.get? (id, o) = some m) :
    (Src.cached id s).map o σ = (m, σ) := by
  simp [Src.map, h]

/-- whatever earlier calls have left in the cache (any history, any store `σ`), a stream of the wrapper delivers
exactly the text of the wrapped source, in both column settings -/
theorem c10_stream_text (id : Nat) (s : Src) (c : Bool) (σ : Store) (h : (Src.cached id s).WF) :
    evsText ((Src.cached id s).stream ⟨c, false⟩ σ).1.evs = s.src :=
  (c01 (.cached id s) c σ h).1

/-- repeating a stream never changes the delivered text: after the first call has filled the cache (store `σ'`),
the second call delivers the same text -/
theorem c10_stream_text_repeat (id : Nat) (s : Src) (c : Bool) (σ : Store) (h : (Src.cached id s).WF) :
    evsText ((Src.cached id s).stream ⟨c, false⟩ ((Src.cached id s).stream ⟨c, false⟩ σ).2).1.evs
      = evsText ((Src.cached id s).stream ⟨c, false⟩ σ).1.evs := by
  rw [c10_stream_text id s c _ h, c10_stream_text id s c σ h]


theorem get_insertNew_self (σ : Store) (k : Nat × Opts) (v : Option SMap) (h : σ.get? k = none) : (σ.insertNew k v).get? k = some v := by
  unfold Store.insertNew
  rw [h]
  simp only [Option.isSome_none, Bool.false_eq_true, if_false]
  unfold Store.get? at h ⊢
  rw [List.find?_append]
  have hf : List.find? (fun x => x.1 == k) σ = none := by simpa using h
  simp [hf]

/-- **the cache filled by streaming replays the same attribution** (columns = true).  Let `r` be what the wrapped source streams
the first time (cold cache).  That call stores `get_map`'s result; every later stream of the wrapper replays `inner.src` through the
map-driven splitter with the stored map (or as raw text when nothing was mapped).  The replay gives *every byte* the original
location (source, line, column, name indices) the first stream gave it.

The proof composes C02 (the first stream reports true positions), the bridge `attr_of_stream` (chunk attribution = lookup in the
chunk mappings), C12 (`decode ∘ encode` keeps exactly what lookup sees) and C08 (the splitter attributes like a lookup).
Hypotheses: the tree satisfies the domain of C02; mapping values are below `2^31`.  That mapped chunks carry text is a theorem
(`Src.stream_mappedNE'`, `Lemmas/MappedNE.lean`) for every tree, the combinator included. -/
theorem c10_replay_attribution (id : Nat) (inner : Src) (σ : Store)
    (hw : inner.WF) (hp : inner.PosHyp true) (hn : inner.ids.Nodup) (hs : StoreHyp true σ inner.cachedNodes)
    (ha : IsAscii inner.src) (hl : inner.src.length ≤ USIZE_MAX)
    (hsmall : ∀ m ∈ chunkMs (inner.stream ⟨true, false⟩ σ).1.evs, m.small)
    (hcold : σ.get? (id, ⟨true, false⟩) = none) (hfresh : id ∉ inner.ids) :
    let first := (Src.cached id inner).stream ⟨true, false⟩ σ
    let second := (Src.cached id inner).stream ⟨true, false⟩ first.2
    attrOf second.1.evs = attrOf first.1.evs ∧ evsText second.1.evs = evsText first.1.evs := by
  intro first second
  have hMN := Src.stream_mappedNE' inner true σ
  have hpos := Src.stream_posOK inner true σ hw hp hn hs
  have htok := Src.stream_tok inner true σ
  have htl := Src.stream_tl inner true σ
  have htext := Src.stream_text inner true σ hw
  -- what the first call returns and stores
  have hfirst : first = ((inner.stream ⟨true, false⟩ σ).1,
      (inner.stream ⟨true, false⟩ σ).2.insertNew (id, ⟨true, false⟩) (mapOfEvs true (inner.stream ⟨true, false⟩ σ).1.evs)) := by
    show (Src.cached id inner).stream ⟨true, false⟩ σ = _
    simp only [Src.stream, hcold]
  have hstill : (inner.stream ⟨true, false⟩ σ).2.get? (id, ⟨true, false⟩) = none := by
    rw [Src.stream_store_other inner _ σ (id, ⟨true, false⟩) hfresh]; exact hcold
  have hget : first.2.get? (id, ⟨true, false⟩) = some (mapOfEvs true (inner.stream ⟨true, false⟩ σ).1.evs) := by
    rw [hfirst]; exact get_insertNew_self _ _ _ hstill
  have hsecond : second = (Src.cached id inner).stream ⟨true, false⟩ first.2 := rfl
  rw [hsecond]
  simp only [Src.stream, hget]
  rw [hfirst]
  simp only
  cases hm : mapOfEvs true (inner.stream ⟨true, false⟩ σ).1.evs with
  | none =>
    simp only
    have hnone := mapOfEvs_none _ hm
    have := replay_none (inner.stream ⟨true, false⟩ σ).1 hpos htok htl hsmall hnone
    rw [htext] at this
    exact ⟨this, by rw [streamRaw_text, htext]⟩
  | some sm =>
    simp only
    have hmm := mapOfEvs_mappings _ sm hm
    have := replay_attr (inner.stream ⟨true, false⟩ σ).1 hpos htok htl hMN (by rw [htext]; exact ha) (by rw [htext]; exact hl) hsmall sm hmm
    rw [htext] at this
    refine ⟨by simpa [streamSM] using this, ?_⟩
    rw [htext]
    exact streamSM_text inner.src sm true (textOK_of_ascii _ ha hl)


/-- **… and the same file names and names** (columns = true): resolved through the announcements of each stream — the replay
announces the `sources` / `names` of the stored map, the first stream announced them itself — every byte of the replay resolves to
the same file name, original line, original column and name as in the first stream. -/
theorem c10_replay_names (id : Nat) (inner : Src) (σ : Store)
    (hw : inner.WF) (hp : inner.PosHyp true) (hi : inner.IdxHyp) (hn : inner.ids.Nodup) (hs : StoreHyp true σ inner.cachedNodes)
    (hsi : StoreIdx σ inner.cachedNodes)
    (ha : IsAscii inner.src) (hl : inner.src.length ≤ USIZE_MAX)
    (hsmall : ∀ m ∈ chunkMs (inner.stream ⟨true, false⟩ σ).1.evs, m.small)
    (hcold : σ.get? (id, ⟨true, false⟩) = none) (hfresh : id ∉ inner.ids)
    (sm : SMap) (hm : mapOfEvs true (inner.stream ⟨true, false⟩ σ).1.evs = some sm) :
    let first := (Src.cached id inner).stream ⟨true, false⟩ σ
    let second := (Src.cached id inner).stream ⟨true, false⟩ first.2
    (attrN emptyS emptyN second.1.evs).map (Option.map RLoc.toN) = (attrN emptyS emptyN first.1.evs).map (Option.map RLoc.toN) := by
  intro first second
  have hMN := Src.stream_mappedNE' inner true σ
  have hpos := Src.stream_posOK inner true σ hw hp hn hs
  have htok := Src.stream_tok inner true σ
  have htl := Src.stream_tl inner true σ
  have htext := Src.stream_text inner true σ hw
  have hdecl := Src.stream_declOK inner ⟨true, false⟩ σ hi hn hsi
  have hfirst : first = ((inner.stream ⟨true, false⟩ σ).1,
      (inner.stream ⟨true, false⟩ σ).2.insertNew (id, ⟨true, false⟩) (mapOfEvs true (inner.stream ⟨true, false⟩ σ).1.evs)) := by
    show (Src.cached id inner).stream ⟨true, false⟩ σ = _
    simp only [Src.stream, hcold]
  have hstill : (inner.stream ⟨true, false⟩ σ).2.get? (id, ⟨true, false⟩) = none := by
    rw [Src.stream_store_other inner _ σ (id, ⟨true, false⟩) hfresh]; exact hcold
  have hget : first.2.get? (id, ⟨true, false⟩) = some (mapOfEvs true (inner.stream ⟨true, false⟩ σ).1.evs) := by
    rw [hfirst]; exact get_insertNew_self _ _ _ hstill
  have hsecond : second = (Src.cached id inner).stream ⟨true, false⟩ first.2 := rfl
  rw [hsecond]
  simp only [Src.stream, hget]
  rw [hfirst]
  simp only [hm]
  have := replay_names (inner.stream ⟨true, false⟩ σ).1 hpos htok htl hMN (by rw [htext]; exact ha) (by rw [htext]; exact hl) hsmall hdecl sm hm
  rw [htext] at this
  simpa [streamSM] using this


/-- **the cache filled by streaming replays the same attribution, columns = false**: for every generated line that carries text,
the first mapped chunk of the replay points to the same source index and original line as the first mapped chunk of the first
stream on that line (file and line granularity, as the property demands for columns=false) -/
theorem c10_replay_lines (id : Nat) (inner : Src) (σ : Store)
    (hw : inner.WF) (hp : inner.PosHyp false) (hn : inner.ids.Nodup) (hs : StoreHyp false σ inner.cachedNodes)
    (hsmall : ∀ m ∈ chunkMs (inner.stream ⟨false, false⟩ σ).1.evs, ∀ o, m.orig = some o → o.src < U31 ∧ o.line < U31)
    (hcold : σ.get? (id, ⟨false, false⟩) = none) (hfresh : id ∉ inner.ids)
    (sm : SMap) (hm : mapOfEvs false (inner.stream ⟨false, false⟩ σ).1.evs = some sm)
    (L : Nat) (h1 : 1 ≤ L) (hL : L ≤ (splitLines inner.src).length) :
    let first := (Src.cached id inner).stream ⟨false, false⟩ σ
    let second := (Src.cached id inner).stream ⟨false, false⟩ first.2
    lookupLines (chunkMs second.1.evs) L = lookupLines (chunkMs first.1.evs) L := by
  intro first second
  have hpos := Src.stream_posOK inner false σ hw hp hn hs
  have htl := Src.stream_tl inner false σ
  have htext := Src.stream_text inner false σ hw
  have hfirst : first = ((inner.stream ⟨false, false⟩ σ).1,
      (inner.stream ⟨false, false⟩ σ).2.insertNew (id, ⟨false, false⟩) (mapOfEvs false (inner.stream ⟨false, false⟩ σ).1.evs)) := by
    show (Src.cached id inner).stream ⟨false, false⟩ σ = _
    simp only [Src.stream, hcold]
  have hstill : (inner.stream ⟨false, false⟩ σ).2.get? (id, ⟨false, false⟩) = none := by
    rw [Src.stream_store_other inner _ σ (id, ⟨false, false⟩) hfresh]; exact hcold
  have hget : first.2.get? (id, ⟨false, false⟩) = some (mapOfEvs false (inner.stream ⟨false, false⟩ σ).1.evs) := by
    rw [hfirst]; exact get_insertNew_self _ _ _ hstill
  have hsecond : second = (Src.cached id inner).stream ⟨false, false⟩ first.2 := rfl
  rw [hsecond]
  simp only [Src.stream, hget]
  rw [hfirst]
  simp only [hm]
  have := replay_lines (inner.stream ⟨false, false⟩ σ).1 hpos htl hsmall sm hm L h1 (by rw [htext]; exact hL)
  rw [htext] at this
  simpa [streamSM] using this


/-- **C10, cache filled by `map()`** (columns = true): let `inner` be a tree of the domain of C03 whose `map()` is `get_map`
(OriginalSource, ConcatSource, ReplaceSource with replacements), wrapped in a CachedSource with a cold cache.  After `map()` has
filled the cache, streaming the wrapper replays the text through the stored map — and attributes every byte to exactly the
original location the wrapped source's own stream attributes it to. -/
theorem c10_replay_after_map (id : Nat) (inner : Src) (σ σN : Store) (h : inner.ModeHypC) (hn : inner.ids.Nodup) (hc : Cold σ inner.ids) (hcN : Cold σN inner.ids)
    (ha : IsAscii inner.src) (hl : inner.src.length ≤ USIZE_MAX)
    (hsmall : ∀ m ∈ chunkMs (inner.stream ⟨true, true⟩ σ).1.evs, m.small)
    (hmap : inner.map ⟨true, false⟩ σ = getMap inner ⟨true, false⟩ σ)
    (hcold : σ.get? (id, ⟨true, false⟩) = none) (hfresh : id ∉ inner.ids)
    (sm : SMap) (hm : (getMap inner ⟨true, false⟩ σ).1 = some sm) :
    let first := (Src.cached id inner).map ⟨true, false⟩ σ
    let second := (Src.cached id inner).stream ⟨true, false⟩ first.2
    first.1 = some sm ∧ attrOf second.1.evs = attrOf (inner.stream ⟨true, false⟩ σN).1.evs := by
  intro first second
  have hfirst : first = ((getMap inner ⟨true, false⟩ σ).1, (getMap inner ⟨true, false⟩ σ).2.insertNew (id, ⟨true, false⟩) (getMap inner ⟨true, false⟩ σ).1) := by
    show (Src.cached id inner).map ⟨true, false⟩ σ = _
    simp only [Src.map, hcold, hmap]
  have hstill : (getMap inner ⟨true, false⟩ σ).2.get? (id, ⟨true, false⟩) = none := by
    simp only [getMap]
    rw [Src.stream_store_other inner _ σ (id, ⟨true, false⟩) hfresh]; exact hcold
  have hget : first.2.get? (id, ⟨true, false⟩) = some (some sm) := by
    rw [hfirst]
    simp only
    rw [get_insertNew_self _ _ _ hstill, hm]
  refine ⟨by rw [hfirst]; exact hm, ?_⟩
  have hsecond : second = (Src.cached id inner).stream ⟨true, false⟩ first.2 := rfl
  rw [hsecond]
  simp only [Src.stream, hget, streamSM]
  obtain ⟨b1, b2, b3, b4, _, _, b7⟩ := Src.base_factsC inner h hn σ σN hc hcN
  have hm3 := Src.m3c inner h hn σ σN hc hcN
  have hmm : sm.mappings = encodeFull (chunkMs (inner.stream ⟨true, true⟩ σ).1.evs) := by
    simp only [getMap] at hm
    exact mapOfEvs_mappings _ sm hm
  rw [replay_of_final inner.src _ b7 hm3.sorted (Src.strictC inner h hn σ hc) ha hl hsmall sm hmm]
  rw [(lookEq_iff inner.src _ _).1 hm3.look]
  have := attr_of_stream _ b1 b2 b3
  rw [b4] at this
  exact this



/-- **C10, text-less replay** (columns = true, `final_source = true` — what `map()` of an enclosing source consumes): let `inner` be a
tree of the domain of C03 wrapped in a CachedSource with a cold cache.  The first text-less stream of the wrapper fills the cache
with the map built from it; every later text-less stream replays the text through the stored map with the text-less splitter —
and its chunk mappings resolve the position of *every character* of the text to exactly the original location the wrapped
source's own (normal) stream attributes that character to.  So an enclosing source's `map()` sees the same attribution whether the
wrapper answers from its cache or not.  Chain: C08 text-less (`streamSMFinal_lookEq`) ∘ C12 (decode ∘ encode, lookup kept) ∘
C03-T3 (text-less = normal mode) ∘ `attr_of_stream`. -/
theorem c10_replay_final (id : Nat) (inner : Src) (σ σN : Store) (h : inner.ModeHypC) (hn : inner.ids.Nodup) (hc : Cold σ inner.ids) (hcN : Cold σN inner.ids)
    (hsmall : ∀ m ∈ chunkMs (inner.stream ⟨true, true⟩ σ).1.evs, m.small)
    (hcold : σ.get? (id, ⟨true, true⟩) = none) (hfresh : id ∉ inner.ids)
    (sm : SMap) (hm : mapOfEvs true (inner.stream ⟨true, true⟩ σ).1.evs = some sm) :
    let first := (Src.cached id inner).stream ⟨true, true⟩ σ
    let second := (Src.cached id inner).stream ⟨true, true⟩ first.2
    attrFrom (chunkMs second.1.evs) startPos inner.src = attrOf (inner.stream ⟨true, false⟩ σN).1.evs := by
  intro first second
  have hfirst : first = ((inner.stream ⟨true, true⟩ σ).1, (inner.stream ⟨true, true⟩ σ).2.insertNew (id, ⟨true, true⟩) (mapOfEvs true (inner.stream ⟨true, true⟩ σ).1.evs)) := by
    show (Src.cached id inner).stream ⟨true, true⟩ σ = _
    simp only [Src.stream, hcold]
  have hstill : (inner.stream ⟨true, true⟩ σ).2.get? (id, ⟨true, true⟩) = none := by
    rw [Src.stream_store_other inner _ σ (id, ⟨true, true⟩) hfresh]; exact hcold
  have hget : first.2.get? (id, ⟨true, true⟩) = some (some sm) := by
    rw [hfirst]
    simp only
    rw [get_insertNew_self _ _ _ hstill, hm]
  have hsecond : second = (Src.cached id inner).stream ⟨true, true⟩ first.2 := rfl
  rw [hsecond]
  simp only [Src.stream, hget, streamSM]
  obtain ⟨b1, b2, b3, b4, _, _, b7⟩ := Src.base_factsC inner h hn σ σN hc hcN
  have hm3 := Src.m3c inner h hn σ σN hc hcN
  rw [replay_final_of_final inner.src _ hm3.sorted hsmall sm (mapOfEvs_mappings _ sm hm)]
  rw [(lookEq_iff inner.src _ _).1 hm3.look]
  have := attr_of_stream _ b1 b2 b3
  rw [b4] at this
  exact this


/-- **C10, cold caches at any depth**: a tree whose CachedSource nodes (any number, anywhere — also beneath ReplaceSource and
ConcatSource nodes) all have cold caches streams, in every mode, exactly what the same tree without the CachedSource wrappers
streams; `get_map` returns the same map; `source()` is the same text.  (Distinct CachedSource nodes own distinct caches.) -/
theorem c10_cold_transparent (s : Src) (o : Opts) (σ : Store) (hn : s.ids.Nodup) (hc : Cold σ s.ids) :
    (s.stream o σ).1 = (s.strip.stream o []).1 ∧ (getMap s o σ).1 = (getMap s.strip o []).1 ∧ s.src = s.strip.src ∧ s.strip.NoCached :=
  ⟨Src.stream_strip s o σ hn hc, getMap_strip s o σ hn hc, (Src.strip_src s).symm, Src.strip_nc s⟩


/-- **C10, warm caches inside a tree** (columns = true, normal mode): `s` is any tree — leaves, ConcatSource at any nesting,
ReplaceSource, any number of CachedSource nodes at any depth, also nested in one another — in which no CachedSource sits beneath a
ReplaceSource (that case is the known finding K5), every cached subtree is in the domain of C02 with ASCII text and mapping values
below 2³¹ (`Src.WarmHyp`), and distinct CachedSource nodes own distinct caches.  Stream it on cold caches: every CachedSource
stores the map built from its subtree's stream.  Stream it again with the store the first call left: every outermost CachedSource
now answers from its entry, replaying its text through the stored map, and nothing beneath it is visited.  The second stream
delivers the same text and resolves *every byte* — through its own announcements — to the same file name, original line, original
column and name as the first.  Chain: the store only grows and the first call fills every node's entry with the map of its
cache-free stream (`Src.stream_fills`, `ColdStrip`) ∘ the second call is the stream of the replay tree (`Src.stream_warm`) ∘ the
replay of a subtree attributes like the subtree (`replay_names`: C02 ∘ C12 ∘ C08) ∘ ConcatSource composes attributions at name
level whatever the children's contents (`concatStream_NA`). -/
theorem c10_warm_tree (s : Src) (σ : Store) (hn : s.ids.Nodup) (hc : Cold σ s.ids) (hk : s.CachedOK) (h : s.WarmHyp) (hw : s.WF) :
    let first := s.stream ⟨true, false⟩ σ
    let second := s.stream ⟨true, false⟩ first.2
    NA second.1.evs = NA first.1.evs ∧ evsText second.1.evs = evsText first.1.evs := by
  intro first second
  exact ⟨Src.second_stream_NA s σ hn hc hk h, by rw [Src.stream_text s true _ hw, Src.stream_text s true σ hw]⟩


/-- non-vacuity: `ConcatSource[CachedSource(OriginalSource("a;b", "f")), RawSource("x")]` meets the hypotheses of `c10_warm_tree` -/
theorem c10_warm_example_ms : chunkMs ((Src.orig [97, 59, 98] [102]).stream { columns := true, final := false } []).fst.evs
    = [⟨1, 0, some ⟨0, 1, 0, none⟩⟩, ⟨1, 2, some ⟨0, 1, 2, none⟩⟩] := by decide
example : (Src.concat (.cons (.cached 0 (.orig [97, 59, 98] [102])) (.cons (.rawStr [120]) .nil))).WarmHyp
    ∧ (Src.concat (.cons (.cached 0 (.orig [97, 59, 98] [102])) (.cons (.rawStr [120]) .nil))).CachedOK := by
  simp only [Src.WarmHyp, SrcList.WarmHyps, Src.strip, Src.WF, Src.PosHyp, Src.IdxHyp, Src.src, Src.CachedOK, SrcList.CachedOKs]
  refine ⟨⟨⟨trivial, trivial, trivial, by decide, by decide, ?_⟩, trivial, trivial⟩, trivial, trivial, trivial⟩
  rw [c10_warm_example_ms]
  intro m hm
  simp only [List.mem_cons, List.mem_nil_iff, or_false] at hm
  rcases hm with rfl | rfl
  · exact ⟨by decide, fun o ho => by cases ho; exact ⟨by decide, by decide, by decide, fun k hk => by cases hk⟩⟩
  · exact ⟨by decide, fun o ho => by cases ho; exact ⟨by decide, by decide, by decide, fun k hk => by cases hk⟩⟩


/-- **`map()` twice on a tree with warm caches** (columns = true): `s` is a tree of the domain of C03 with CachedSource nodes at any
depth and in any number (none beneath a ReplaceSource — K5), on cold caches.  The first `get_map` stores, in every CachedSource, the
map built from its subtree's text-less stream; the second `get_map` finds those entries, and every outermost CachedSource replays its
text through the stored map.  Resolving every position of `source()` through the second map and its own `sources` / `names` tables
gives the same file name, original line, original column and name as through the first.  Chain: C03 name level on the cold tree
(`getMap_names`) ∘ the second call is the stream of the replay tree (`Src.stream_fills`, `Src.stream_warm`) ∘ the replay tree is in
the domain of C03 (`stored_map_ok`: a stored map is sorted, inside its text, with indices inside its tables) ∘ C03 name level on the
replay tree ∘ the replay of a subtree attributes like the subtree (C08 name level `streamSM_attrN` ∘ C03 on the subtree) ∘
ConcatSource composes at name level (`concatStream_NA`).  Mapping values below 2³¹ (`SmallF`, `hsmall*`: the codec's domain). -/
theorem c10_map_twice (s : Src) (σ : Store) (h : s.ModeHypC) (hk : s.CachedOK) (hs : s.SmallF) (hn : s.ids.Nodup) (hc : Cold σ s.ids)
    (f1 f2 : Bool)
    (hsmall1 : ∀ m ∈ chunkMs (s.stream ⟨true, true⟩ σ).1.evs, m.small)
    (hsmall2 : ∀ m ∈ chunkMs ((s.warm ⟨true, true⟩).stream ⟨true, true⟩ []).1.evs, m.small)
    (sm1 sm2 : SMap) (h1 : (getMap s ⟨true, f1⟩ σ).1 = some sm1) (h2 : (getMap s ⟨true, f2⟩ (getMap s ⟨true, f1⟩ σ).2).1 = some sm2) :
    (attrFrom (decode sm2.mappings) startPos s.src).map (Option.map (resolveMF sm2))
      = (attrFrom (decode sm1.mappings) startPos s.src).map (Option.map (resolveMF sm1)) :=
  getMap_twice s σ h hk hs hn hc f1 f2 hsmall1 hsmall2 sm1 sm2 h1 h2

/-! ## every call history -/

/-- **every call of every history** (any length, options in any order): `s` is any tree with no CachedSource beneath a
ReplaceSource (`Src.NoCR` — beneath one, K5), distinct caches, cold at the start.  `runCalls s calls σ` threads the store through
the streaming calls `calls` (a `get_map` is the text-less streaming call followed by the encoder).  The `k`-th call returns the
stream of the cache-free tree (`Src.strip`) if its options did not occur earlier in the history, and otherwise the stream of the
replay tree for its options (`Src.warm o`: every outermost CachedSource replays the map the first call with `o` stored) — always
one of the same two answers per option, whatever was called in between.  Invariant `HistInv`: the store is warm for the options
used so far and cold for the others; a call with options `o` reads and writes only entries keyed by `o`
(`Src.stream_store_opts`). -/
theorem c10_every_history (s : Src) (hk : s.NoCR) (hn : s.ids.Nodup) (σ : Store) (hc : Cold σ s.ids) (calls : List Opts) :
    ∀ k o, calls[k]? = some o → (runCalls s calls σ).1[k]? = some (answerOf s (calls.take k) o) :=
  runCalls_results s hk hn σ hc calls

/-- **… and what they answer, streams** (columns = true, normal mode): every such stream of every history delivers the text of
`source()` and resolves every byte to the same file name, original line, original column and name as the cache-free tree. -/
theorem c10_every_history_stream (s : Src) (hk : s.NoCR) (hn : s.ids.Nodup) (σ : Store) (hc : Cold σ s.ids) (h : s.WarmHyp) (hw : s.WF)
    (calls : List Opts) (k : Nat) (hcall : calls[k]? = some ⟨true, false⟩) :
    ∃ r, (runCalls s calls σ).1[k]? = some r ∧ NA r.evs = NA (s.strip.stream ⟨true, false⟩ []).1.evs ∧ evsText r.evs = s.src := by
  obtain ⟨r, h1, h2⟩ := history_stream_NA s hk hn σ hc h calls k hcall
  obtain ⟨σ', h3⟩ := runCalls_is_stream s calls σ k _ hcall
  rw [h1] at h3
  simp only [Option.some.injEq] at h3
  exact ⟨r, h1, h2, by rw [h3]; exact Src.stream_text s true σ' hw⟩

/-- **… and maps** (columns = true): the map built from every text-less stream of every history — what every `get_map` of the
history returns — resolves every byte of `source()`, through its own `sources` / `names` tables, to the same file name, original
line, original column and name as the cache-free tree's stream. -/
theorem c10_every_history_map (s : Src) (hk : s.NoCR) (hn : s.ids.Nodup) (σ : Store) (hc : Cold σ s.ids) (h : s.ModeHypC) (hs : s.SmallF)
    (hsmall1 : ∀ m ∈ chunkMs (s.strip.stream ⟨true, true⟩ []).1.evs, m.small)
    (hsmall2 : ∀ m ∈ chunkMs ((s.warm ⟨true, true⟩).stream ⟨true, true⟩ []).1.evs, m.small)
    (calls : List Opts) (k : Nat) (hcall : calls[k]? = some ⟨true, true⟩) :
    ∃ r, (runCalls s calls σ).1[k]? = some r ∧ ∀ sm, mapOfEvs true r.evs = some sm →
      (attrFrom (decode sm.mappings) startPos s.src).map (Option.map (resolveMF sm)) = NA (s.strip.stream ⟨true, false⟩ []).1.evs :=
  history_map_NA s hk hn σ hc h hs hsmall1 hsmall2 calls k hcall

/-- non-vacuity: the tree of `c10_warm_tree`'s example has no CachedSource beneath a ReplaceSource, and a five-call history on it
in mixed options returns five results -/
example : (Src.concat (.cons (.cached 0 (.orig [97, 59, 98] [102])) (.cons (.rawStr [120]) .nil))).NoCR
    ∧ (runCalls (Src.concat (.cons (.cached 0 (.orig [97, 59, 98] [102])) (.cons (.rawStr [120]) .nil)))
        [⟨true, false⟩, ⟨true, true⟩, ⟨false, false⟩, ⟨true, false⟩, ⟨true, true⟩] []).1.length = 5 := by
  refine ⟨by simp [Src.NoCR, SrcList.NoCRs], by decide⟩

/-! ## every call history, columns = false -/

/-- **… streams with columns = false** (file and line granularity, as the property demands): for every normal-mode stream with
columns = false of every history and every generated line `L`, the first mapped chunk on `L` resolves — through the stream's own
announcements (`LNameOf`) — to the same file name and original line as the first mapped chunk on `L` of the cache-free tree's
stream.  A CachedSource replays its text line by line through the stored lines-only map, so bytes are *not* attributed alike
(a whole line goes to its first mapped segment); what is preserved is exactly the line's first mapped chunk (`replayL_leaf`), and
that statement passes through ConcatSource nodes (`Lemmas/LineFirst.lean`: the first mapped byte of a line, `fsl_find`,
`fsl_append`; `Lemmas/WarmLines.lean`). -/
theorem c10_every_history_stream_lines (s : Src) (hk : s.NoCR) (hn : s.ids.Nodup) (σ : Store) (hc : Cold σ s.ids) (hw : s.WF)
    (hp : s.PosHyp false) (h : s.WarmHypL) (calls : List Opts) (k : Nat) (hcall : calls[k]? = some ⟨false, false⟩) :
    ∃ r, (runCalls s calls σ).1[k]? = some r ∧ ∀ L, LNameOf r.evs L = LNameOf (s.strip.stream ⟨false, false⟩ []).1.evs L :=
  history_stream_lname s hk hn σ hc hw hp h calls k hcall

/-- **… and maps with columns = false**: the map every `get_map(columns = false)` of every history returns resolves every generated
line `L ≥ 1` — first mapped segment of the line, through the map's own `sources` (`LNameM`) — to the same file name and original line
as the first mapped chunk on `L` of the cache-free tree's stream.  (`Lemmas/WarmLinesF.lean`: the replay tree of text-less fills
is again in the domain of C03 for columns = false.) -/
theorem c10_every_history_map_lines (s : Src) (hk : s.NoCR) (hn : s.ids.Nodup) (σ : Store) (hc : Cold σ s.ids) (h : s.ModeHypL) (hs : s.SmallFL)
    (hsmall1 : ∀ m ∈ chunkMs (s.strip.stream ⟨false, true⟩ []).1.evs, ∀ o, m.orig = some o → o.src < U31 ∧ o.line < U31)
    (hsmall2 : ∀ m ∈ chunkMs ((s.warm ⟨false, true⟩).stream ⟨false, true⟩ []).1.evs, ∀ o, m.orig = some o → o.src < U31 ∧ o.line < U31)
    (calls : List Opts) (k : Nat) (hcall : calls[k]? = some ⟨false, true⟩) :
    ∃ r, (runCalls s calls σ).1[k]? = some r ∧ ∀ sm, mapOfEvs false r.evs = some sm → ∀ L, 0 < L →
      LNameM sm L = LNameOf (s.strip.stream ⟨false, false⟩ []).1.evs L :=
  history_map_lname s hk hn σ hc h hs hsmall1 hsmall2 calls k hcall

/-- non-vacuity: on `ConcatSource[CachedSource(OriginalSource("a;b\nc", "f")), RawSource("x")]` the first stream with columns = false
resolves line 1 to file "f", original line 1, and line 2 to file "f", original line 2 -/
example : LNameOf ((Src.concat (.cons (.cached 0 (.orig [97, 59, 98, 10, 99] [102])) (.cons (.rawStr [120]) .nil))).stream ⟨false, false⟩ []).1.evs 1
      = some (some [102], 1)
    ∧ LNameOf ((Src.concat (.cons (.cached 0 (.orig [97, 59, 98, 10, 99] [102])) (.cons (.rawStr [120]) .nil))).stream ⟨false, false⟩ []).1.evs 2
      = some (some [102], 2) := by
  constructor <;> decide

/-! ## the wrapper itself: `map()` and `stream_chunks` of an outside caller share one entry -/

/-- **every call of every history on the CachedSource wrapper and its clones** (columns = true): an outside caller calls `map()` and
`stream_chunks` (always `final_source = false`) in any order, any number of times; both use the cache entry keyed `(true, false)`,
shared by all clones (the model's store).  Whichever comes first fills it — `map()` with the wrapped source's own map (`mapFill`),
`stream_chunks` with the map re-encoded from the streamed chunks (`streamFill`).  For a cache-free wrapped tree of the domain of C03
whose `map()` is `get_map`: in every history from a store where the entry is absent (or holds one of the two fills),
* every `stream_chunks` answer attributes every byte to exactly the original location (source index, line, column, name index) the
  wrapped source's own stream gives it, and delivers the wrapped text;
* every `map()` answer is one of the two fills, and each of them resolves every position of `source()` exactly as the wrapped
  source's stream does — and is absent exactly when nothing is mapped.
(`Lemmas/RootHistory.lean`: invariant `RootInv`; which of the two representations is returned depends on the history — known
finding K3 — the attribution does not.) -/
theorem c10_root_history (id : Nat) (inner : Src) (h : RootHyp inner) (hw : (Src.cached id inner).WF) (calls : List RCall) (σ : Store)
    (hi : RootInv id inner σ) :
    ∀ a ∈ (runRoot id inner calls σ).1,
      (match a with
       | .stream r => attrOf r.evs = attrOf (inner.stream ⟨true, false⟩ []).1.evs
       | .map m => (m = mapFill inner ∨ m = streamFill inner)
           ∧ (∀ sm, m = some sm → attrFrom (decode sm.mappings) startPos inner.src = attrOf (inner.stream ⟨true, false⟩ []).1.evs)
           ∧ (m = none → attrOf (inner.stream ⟨true, false⟩ []).1.evs = List.replicate inner.src.length none)) := by
  intro a ha
  have := runRoot_answers id inner h calls σ hi a ha
  cases a with
  | stream r => exact this
  | map m => exact ⟨this, fills_resolve inner h m this⟩

/-- a cold store satisfies the invariant -/
theorem c10_root_history_cold (id : Nat) (inner : Src) (σ : Store) (h : σ.get? (id, ⟨true, false⟩) = none) : RootInv id inner σ :=
  Or.inl h

/-- non-vacuity: a six-call history on `CachedSource(OriginalSource("a;b", "f"))` — `map()` first — returns six answers, and the
second one (a stream answered by replaying the stored map) has the wrapped source's chunk mappings -/
example : (runRoot 0 (.orig [97, 59, 98] [102]) [.map, .stream, .map, .stream, .stream, .map] []).1.length = 6 := by decide

/-- **… and with columns = false** (file and line granularity, as the property demands): every call of every history of `map(false)` /
`stream_chunks(false)` calls on the wrapper and its clones, sharing the entry keyed `(false, false)`: every stream answer resolves
the first mapped chunk of every generated line to the same file name and original line as the wrapped source's own stream; every
`map()` answer is one of the two fills (`mapFillL`: the wrapped source's lines-only map; `streamFillL`: the lines-only map re-encoded
from the streamed chunks), and each resolves every generated line `L ≥ 1` — first mapped segment, through its own `sources` — alike.
Results stored for one column setting are never served for the other: the keys `(true, false)` and `(false, false)` differ
(`c10_keys`). -/
theorem c10_root_history_lines (id : Nat) (inner : Src) (h : RootHypL inner) (calls : List RCall) (σ : Store) (hi : RootInvL id inner σ) :
    ∀ a ∈ (runRootL id inner calls σ).1,
      (match a with
       | .stream r => ∀ L, LNameOf r.evs L = LNameOf (inner.stream ⟨false, false⟩ []).1.evs L
       | .map m => (m = mapFillL inner ∨ m = streamFillL inner)
           ∧ ∀ sm, m = some sm → ∀ L, 0 < L → LNameM sm L = LNameOf (inner.stream ⟨false, false⟩ []).1.evs L) := by
  intro a ha
  have := runRootL_answers id inner h calls σ hi a ha
  cases a with
  | stream r => exact this
  | map m => exact ⟨this, fills_resolve_lines inner h m this⟩

/-- **every history of `map(columns)` / `stream_chunks(columns)` calls of an outside caller on the wrapper and its clones, both column
settings interleaved, the wrapped tree itself containing CachedSource nodes** (none beneath a ReplaceSource; distinct caches; the
wrapper's own cache distinct from them; everything cold at the start).  The first call with a column setting is the only one that
reaches the caches inside the wrapped tree, and it finds them cold for the keys it uses, so it streams the cache-free tree
`inner.strip`; every later call with that setting is answered from the wrapper's entry.  Hence, for every call of every history:
* `stream_chunks(true)`: every byte attributed exactly as by the cache-free tree's stream;
* `stream_chunks(false)`: the first mapped chunk of every generated line names the same file and original line;
* `map(true)`: the answer resolves every position of `source()` exactly as that stream (and is absent exactly when nothing is mapped);
* `map(false)`: the answer resolves every generated line `L ≥ 1` to the same file name and original line.
(`Lemmas/RootNested.lean`: invariant `RootInv2`, per-option coldness `ColdAt`; the replay lemmas of `c10_root_history(_lines)` applied
to `inner.strip`.) -/
theorem c10_root_history_nested (id : Nat) (inner : Src) (h : RootHyp2 id inner) (hT : RootHyp inner.strip) (hL : RootHypL inner.strip)
    (calls : List RCall2) (σ : Store) (h0 : ∀ o, σ.get? (id, o) = none) (hc : Cold σ inner.ids) :
    ∀ p ∈ (runRoot2 id inner calls σ).1,
      (match p.2 with
       | .stream r =>
          (p.1.1 = true → attrOf r.evs = attrOf (inner.strip.stream ⟨true, false⟩ []).1.evs)
          ∧ (p.1.1 = false → ∀ L, LNameOf r.evs L = LNameOf (inner.strip.stream ⟨false, false⟩ []).1.evs L)
       | .map m =>
          (p.1.1 = true → (∀ sm, m = some sm → attrFrom (decode sm.mappings) startPos inner.src = attrOf (inner.strip.stream ⟨true, false⟩ []).1.evs)
              ∧ (m = none → attrOf (inner.strip.stream ⟨true, false⟩ []).1.evs = List.replicate inner.src.length none))
          ∧ (p.1.1 = false → ∀ sm, m = some sm → ∀ L, 0 < L → LNameM sm L = LNameOf (inner.strip.stream ⟨false, false⟩ []).1.evs L)) := by
  intro p hp
  have hans := runRoot2_answers id inner h calls σ (rootInv2_cold id inner σ h0 hc) p hp
  have hsrc := Src.strip_src inner
  obtain ⟨⟨col, kind⟩, a⟩ := p
  cases a with
  | stream r =>
    simp only at hans ⊢
    constructor
    · intro hcol
      subst hcol
      rcases hans with rfl | ⟨e, he, rfl⟩
      · rfl
      · have := replay_fill_attr inner.strip hT e he
        rw [hsrc] at this
        exact this
    · intro hcol
      subst hcol
      intro L
      rcases hans with rfl | ⟨e, he, rfl⟩
      · rfl
      · have := replay_fill_lname id inner.strip hL e he L
        rw [hsrc] at this
        exact this
  | map m =>
    simp only at hans ⊢
    constructor
    · intro hcol
      subst hcol
      have := fills_resolve inner.strip hT m hans
      rw [hsrc] at this
      exact this
    · intro hcol
      subst hcol
      exact fills_resolve_lines inner.strip hL m hans

/-- non-vacuity: a six-call history with both column settings on `CachedSource(ConcatSource[CachedSource(OriginalSource("a;b\nc", "f")),
RawSource("x")])` returns six answers; the structural hypotheses hold -/
example : (runRoot2 0 (.concat (.cons (.cached 1 (.orig [97, 59, 98, 10, 99] [102])) (.cons (.rawStr [120]) .nil)))
      [(true, .map), (false, .stream), (true, .stream), (false, .map), (true, .map), (false, .stream)] []).1.length = 6
    ∧ RootHyp2 0 (.concat (.cons (.cached 1 (.orig [97, 59, 98, 10, 99] [102])) (.cons (.rawStr [120]) .nil))) := by
  refine ⟨by decide, ⟨by simp [Src.NoCR, SrcList.NoCRs], by decide, by decide, fun _ _ => rfl⟩⟩

/-- **the whole call alphabet of the property on the wrapper and its clones**: `source()` / `buffer()` / `size()` calls interleaved
with `map(columns)` / `stream_chunks(columns)` calls in any order, the wrapped tree containing CachedSource nodes of its own.  The
text views always answer as the wrapped source does (they never touch the caches); the `map` / `stream_chunks` answers are those of
`c10_root_history_nested`.  (`hash` feeds the hasher the wrapped source's hasher input — C14 / C20.) -/
theorem c10_root_history_full (id : Nat) (inner : Src) (h : RootHyp2 id inner) (hT : RootHyp inner.strip) (hL : RootHypL inner.strip)
    (calls : List RCall3) (σ : Store) (h0 : ∀ o, σ.get? (id, o) = none) (hc : Cold σ inner.ids) :
    ∀ p ∈ (runRoot3 id inner calls σ).1,
      (match p.1, p.2 with
       | .src, .text t => t = inner.src
       | .buffer, .text t => t = inner.buffer
       | .size, .num n => n = inner.size
       | .io c2, .io (.stream r) =>
          (c2.1 = true → attrOf r.evs = attrOf (inner.strip.stream ⟨true, false⟩ []).1.evs)
          ∧ (c2.1 = false → ∀ L, LNameOf r.evs L = LNameOf (inner.strip.stream ⟨false, false⟩ []).1.evs L)
       | .io c2, .io (.map m) =>
          (c2.1 = true → (∀ sm, m = some sm → attrFrom (decode sm.mappings) startPos inner.src = attrOf (inner.strip.stream ⟨true, false⟩ []).1.evs)
              ∧ (m = none → attrOf (inner.strip.stream ⟨true, false⟩ []).1.evs = List.replicate inner.src.length none))
          ∧ (c2.1 = false → ∀ sm, m = some sm → ∀ L, 0 < L → LNameM sm L = LNameOf (inner.strip.stream ⟨false, false⟩ []).1.evs L)
       | _, _ => False) := by
  intro p hp
  have hans := runRoot3_answers id inner h calls σ (rootInv2_cold id inner σ h0 hc) p hp
  have hsrc := Src.strip_src inner
  obtain ⟨c, a⟩ := p
  cases c with
  | src => cases a <;> simp only [AnsOK3] at hans ⊢ <;> first | exact hans | exact hans.elim
  | buffer => cases a <;> simp only [AnsOK3] at hans ⊢ <;> first | exact hans | exact hans.elim
  | size => cases a <;> simp only [AnsOK3] at hans ⊢ <;> first | exact hans | exact hans.elim
  | io c2 =>
    obtain ⟨col, kind⟩ := c2
    cases a with
    | text t => simp only [AnsOK3] at hans
    | num n => simp only [AnsOK3] at hans
    | io a2 =>
      cases a2 with
      | stream r =>
        simp only [AnsOK3] at hans ⊢
        constructor
        · intro hcol
          subst hcol
          rcases hans with rfl | ⟨e, he, rfl⟩
          · rfl
          · have := replay_fill_attr inner.strip hT e he
            rw [hsrc] at this
            exact this
        · intro hcol
          subst hcol
          intro L
          rcases hans with rfl | ⟨e, he, rfl⟩
          · rfl
          · have := replay_fill_lname id inner.strip hL e he L
            rw [hsrc] at this
            exact this
      | map m =>
        simp only [AnsOK3] at hans ⊢
        constructor
        · intro hcol
          subst hcol
          have := fills_resolve inner.strip hT m hans
          rw [hsrc] at this
          exact this
        · intro hcol
          subst hcol
          exact fills_resolve_lines inner.strip hL m hans


/-! ## the boundary: a CachedSource beneath a ReplaceSource (known finding K5) -/

/-- the witness of K5: `ReplaceSource(CachedSource(ConcatSource[RawBufferSource(";"), SourceMapSource("b", "CAAC")]))` with `"\n"`
inserted at 0; `source()` is `"\n;b"` -/
def k5Witness : Src :=
  .replace (.cached 0 (.concat (.cons (.rawBuf [59] [59]) (.cons (.sms [98] [115] ⟨[67, 65, 65, 67], [[115]], [], [], none, none, none⟩ none none false) .nil))))
    [⟨0, 0, [10], none, 1⟩]

/-- **the hypothesis `Src.NoCR` of the every-history theorems cannot be dropped — the property itself fails there** (known finding
K5, same witness replayed against the crate on every run: `corpus/C03/k5.case`): on `k5Witness` the first
`get_map(columns = false)` leaves generated line 1 (the inserted line break) unmapped, the second — the CachedSource now answers its
normal-mode stream from the lines-only map the first call stored, which attributes whole lines — maps it to file "s", line 1. -/
theorem c10_k5_witness :
    k5Witness.src = [10, 59, 98] ∧ ¬ k5Witness.NoCR ∧ k5Witness.ids.Nodup
    ∧ ((getMap k5Witness ⟨false, false⟩ []).1.map fun m => LNameM m 1) = some none
    ∧ ((getMap k5Witness ⟨false, false⟩ (getMap k5Witness ⟨false, false⟩ []).2).1.map fun m => LNameM m 1) = some (some (some [115], 1)) := by
  refine ⟨by decide +kernel, by simp [k5Witness, Src.NoCR, Src.NoCached], by decide +kernel, by decide +kernel, by decide +kernel⟩

end Rs
