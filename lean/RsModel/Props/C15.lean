import RsModel.Lemmas.JsonDoc
/-!
# C15 — SourceMap JSON serialisation is valid and round-trips

`writeSMap` = what `to_json` writes (serde field order, `Option`s and an all-empty `sourcesContent` skipped, the escapes
`simd_json` uses); `parse` = an RFC 8259 parser (the "independent JSON parser" of the property); `smapOfJson` = the serde
shape of `RawSourceMap` → `SourceMap` (null entries read as empty strings, missing arrays as empty, duplicate known keys
rejected).  `simd_json` itself is third-party code: it is validated against this model on every run, not verified.
-/
namespace Rs.Json

/-- **the written document is valid JSON with exactly the fields of the map**: an RFC 8259 parser reads it as the object
`toDoc m` (version 3, the fields in declaration order, optional fields present exactly when set) -/
theorem c15_parse_write (m : SMap) : parse (writeSMap m) = some (toDoc m) := parse_write m

/-- **round trip**: `from_json(to_json(m))` has the same mappings, sources, names, file, sourceRoot and debugId, and the same
sourcesContent — empty exactly when all entries are empty (it is then omitted from the document) -/
theorem c15_roundtrip (m : SMap) :
    fromJson (writeSMap m) = some { m with sourcesContent := if allEmpty m.sourcesContent then [] else m.sourcesContent } :=
  fromJson_writeSMap m

/-- the value level of the same statement -/
theorem c15_doc_roundtrip (m : SMap) :
    smapOfJson (toDoc m) = some { m with sourcesContent := if allEmpty m.sourcesContent then [] else m.sourcesContent } :=
  doc_roundtrip m

/-- `unescape ∘ escape = id`: what `to_json` writes for a string is parsed back to exactly that string, for every byte
sequence (quotes, backslashes, control characters, U+2028/2029, astral characters alike) -/
theorem c15_string_roundtrip (t rest : Text) :
    parseVal ((writeStr t ++ rest).length + 2) (writeStr t ++ rest) = some (.str t, rest) := string_roundtrip t rest

/-- null entries in `sources`, `sourcesContent` and `names` read as empty strings; a missing or null array as empty -/
theorem c15_nulls (l : List (Option Text)) :
    optStrArr (.arr (l.map fun | some s => .str s | none => .null)) = some (l.map fun | some s => s | none => []) ∧ optStrArr .null = some [] := by
  refine ⟨?_, rfl⟩
  simp only [optStrArr]
  induction l with
  | nil => rfl
  | cons a as ih =>
    rw [List.map_cons, List.mapM_cons, ih]
    cases a <;> rfl

/-- **reordered keys and foreign documents**: reading a document does not depend on the order of its members; a document whose
members are any permutation of what `to_json` writes reads back like the original -/
theorem c15_reordered (m : SMap) (kvs : List (Text × JVal)) (h : kvs.Perm (match toDoc m with | .obj l => l | _ => [])) :
    smapOfJson (.obj kvs) = some { m with sourcesContent := if allEmpty m.sourcesContent then [] else m.sourcesContent } := by
  have hd : toDoc m = .obj (match toDoc m with | .obj l => l | _ => []) := by simp [toDoc]
  rw [smapOfJson_perm kvs _ h, ← hd]
  exact doc_roundtrip m

/-- non-vacuity: a map with every optional field, a quote and a control character, parsed back from its bytes -/
example : fromJson (writeSMap (SMap.mk [65, 65, 65, 65] [[97, 34, 98]] [[10]] [[]] (some [102]) (some []) (some [100])))
    = some (SMap.mk [65, 65, 65, 65] [[97, 34, 98]] [[10]] [[]] (some [102]) (some []) (some [100])) := by
  rw [c15_roundtrip]; rfl

end Rs.Json
