import RsModel.Lemmas.Rope
import RsModel.Lemmas.RopeSlice
import RsModel.Lemmas.RopeStarts
import RsModel.Lemmas.RopeLines
import RsModel.Lemmas.RopeChars
/-!
# C16 — Rope behaves exactly like the string it represents
`render r` is the flat string a rope stands for.
-/
namespace Rs
open Rope

/-- construction programs without slicing -/
inductive RProg where
  | new | from_ (t : Text) | iter (ts : List Text) | add (p : RProg) (t : Text) | append (a b : RProg)

def RProg.eval : RProg → Rope
  | .new => Rope.new
  | .from_ t => .light t
  | .iter ts => Rope.fromIter ts
  | .add p t => p.eval.add t
  | .append a b => a.eval.append b.eval

/-- the flat string the program denotes -/
def RProg.flat : RProg → Text
  | .new => []
  | .from_ t => t
  | .iter ts => ts.flatten
  | .add p t => p.flat ++ t
  | .append a b => a.flat ++ b.flat

/-- every rope built by new / from / from_iter / add / append renders to the concatenation of its pieces,
whatever the grouping -/
theorem c16_render (p : RProg) : p.eval.render = p.flat := by
  induction p with
  | new => rfl
  | from_ t => rfl
  | iter ts => exact render_fromIter ts
  | add p t ih => simp [RProg.eval, RProg.flat, render_add, ih]
  | append a b iha ihb => simp [RProg.eval, RProg.flat, render_append, iha, ihb]

/-- … and satisfies the offset invariant (recorded offsets are the prefix sums of the piece lengths) -/
theorem c16_invariant (p : RProg) : p.eval.Inv := by
  induction p with
  | new => exact inv_new
  | from_ t => trivial
  | iter ts => exact inv_fromIter ts
  | add p t ih => exact inv_add _ t ih
  | append a b iha ihb => exact inv_append _ _ iha ihb

/-- `len`, `is_empty`, `to_bytes`/`to_string` answer as the flat string does -/
theorem c16_len_empty_bytes (p : RProg) :
    p.eval.len = p.flat.length ∧ p.eval.isEmpty = p.flat.isEmpty ∧ p.eval.toBytes = p.flat := by
  refine ⟨?_, ?_, ?_⟩
  · rw [len_eq_render _ (c16_invariant p), c16_render]
  · rw [isEmpty_eq, c16_render]
  · exact c16_render p

/-- independence of the division into pieces: two programs denoting the same string agree on these observers -/
theorem c16_chunking_irrelevant (p q : RProg) (h : p.flat = q.flat) :
    p.eval.len = q.eval.len ∧ p.eval.isEmpty = q.eval.isEmpty ∧ p.eval.toBytes = q.eval.toBytes := by
  obtain ⟨a1, a2, a3⟩ := c16_len_empty_bytes p
  obtain ⟨b1, b2, b3⟩ := c16_len_empty_bytes q
  simp [a1, a2, a3, b1, b2, b3, h]

/-! non-vacuity: an empty piece in the middle, a multi-piece append -/
example : (RProg.append (.add .new [97]) (.iter [[98], [], [99]])).eval = .full [([], 0), ([97], 0), ([98], 1), ([99], 2)] := by decide
example : (RProg.append (.add .new [97]) (.iter [[98], [], [99]])).flat = [97, 98, 99] := by decide


/-! ## programs with slicing, and the byte observer -/

/-- `str` slicing `&t[a..b]` with its three panics -/
def strSlice (t : Text) (a b : Nat) : Except SliceErr Text :=
  if a > b then .error .reversed
  else if b > t.length then .error .endOOB
  else if isBoundary t a && isBoundary t b then .ok (bsub t a b) else .error .boundary

/-- construction programs with `byte_slice` at any place -/
inductive RProgS where
  | new | from_ (t : Text) | iter (ts : List Text) | add (p : RProgS) (t : Text) | append (a b : RProgS)
  | slice (p : RProgS) (a b : Nat)

/-- the literals are `&str`s -/
def RProgS.TextsOK : RProgS → Prop
  | .new => True
  | .from_ t => pieceOK t = true
  | .iter ts => ∀ t ∈ ts, pieceOK t = true
  | .add p t => p.TextsOK ∧ pieceOK t = true
  | .append a b => a.TextsOK ∧ b.TextsOK
  | .slice p _ _ => p.TextsOK

def RProgS.eval : RProgS → Except SliceErr Rope
  | .new => .ok Rope.new
  | .from_ t => .ok (.light t)
  | .iter ts => .ok (Rope.fromIter ts)
  | .add p t => p.eval.map (·.add t)
  | .append a b => a.eval.bind fun x => b.eval.map fun y => x.append y
  | .slice p a b => p.eval.bind fun x => x.byteSlice a b

/-- the same program over plain strings -/
def RProgS.flat : RProgS → Except SliceErr Text
  | .new => .ok []
  | .from_ t => .ok t
  | .iter ts => .ok ts.flatten
  | .add p t => p.flat.map (· ++ t)
  | .append a b => a.flat.bind fun x => b.flat.map fun y => x ++ y
  | .slice p a b => p.flat.bind fun x => strSlice x a b

/-- `byte_slice` on a well-formed rope is `str` slicing of the flat string: same result text, same panic -/
theorem c16_slice (r : Rope) (h : r.WF) (a b : Nat) :
    (r.byteSlice a b).map Rope.render = strSlice r.render a b ∧ ∀ r', r.byteSlice a b = .ok r' → r'.WF := by
  unfold strSlice
  by_cases h1 : a > b
  · simp [byteSlice_reversed r a b h1, h1, Except.map]
  · by_cases h2 : b > r.render.length
    · simp [byteSlice_endOOB r h.inv a b (by omega) h2, h1, h2, Except.map]
    · obtain ⟨s1, s2⟩ := byteSlice_spec r h a b (by omega) (by omega)
      simp only [h1, h2, if_false]
      by_cases hb : (isBoundary r.render a && isBoundary r.render b) = true
      · obtain ⟨r', e1, e2, e3⟩ := s1 hb
        simp only [hb, if_true, e1, Except.map, e2]
        exact ⟨trivial, fun x hx => by cases hx; exact e3⟩
      · have hb' : (isBoundary r.render a && isBoundary r.render b) = false := by simpa using hb
        simp [s2 hb', hb', Except.map]

/-- **every program of constructors and slices behaves like the same program over strings**: it fails with the
same panic or yields a well-formed rope that renders to the string result -/
theorem c16_program (p : RProgS) (h : p.TextsOK) :
    p.eval.map Rope.render = p.flat ∧ ∀ r, p.eval = .ok r → r.WF := by
  induction p with
  | new => exact ⟨rfl, fun r hr => by cases hr; exact wf_new⟩
  | from_ t => exact ⟨rfl, fun r hr => by cases hr; exact h⟩
  | iter ts => exact ⟨by simp [RProgS.eval, RProgS.flat, Except.map, render_fromIter], fun r hr => by cases hr; exact wf_fromIter ts h⟩
  | add p t ih =>
    obtain ⟨i1, i2⟩ := ih h.1
    simp only [RProgS.eval, RProgS.flat]
    cases hp : p.eval with
    | error e =>
      rw [hp] at i1; simp only [Except.map] at i1; rw [← i1]
      exact ⟨rfl, fun r hr => by simp [Except.map] at hr⟩
    | ok x =>
      rw [hp] at i1; simp only [Except.map] at i1 ⊢
      rw [← i1]
      exact ⟨by simp [render_add], fun r hr => by cases hr; exact wf_add x t (i2 x hp) h.2⟩
  | append a b iha ihb =>
    obtain ⟨a1, a2⟩ := iha h.1
    obtain ⟨b1, b2⟩ := ihb h.2
    simp only [RProgS.eval, RProgS.flat]
    cases ha : a.eval with
    | error e =>
      rw [ha] at a1; simp only [Except.map] at a1; rw [← a1]
      exact ⟨rfl, fun r hr => by simp [Except.bind] at hr⟩
    | ok x =>
      rw [ha] at a1; simp only [Except.map] at a1; rw [← a1]
      cases hb : b.eval with
      | error e =>
        rw [hb] at b1; simp only [Except.map] at b1; rw [← b1]
        exact ⟨rfl, fun r hr => by simp [Except.bind, Except.map] at hr⟩
      | ok y =>
        rw [hb] at b1; simp only [Except.map] at b1; rw [← b1]
        simp only [Except.bind, Except.map]
        exact ⟨by simp [render_append], fun r hr => by cases hr; exact wf_append x y (a2 x ha) (b2 y hb)⟩
  | slice p a b ih =>
    obtain ⟨i1, i2⟩ := ih h
    simp only [RProgS.eval, RProgS.flat]
    cases hp : p.eval with
    | error e =>
      rw [hp] at i1; simp only [Except.map] at i1; rw [← i1]
      exact ⟨rfl, fun r hr => by simp [Except.bind] at hr⟩
    | ok x =>
      rw [hp] at i1; simp only [Except.map] at i1; rw [← i1]
      simp only [Except.bind]
      exact c16_slice x (i2 x hp) a b

/-- `get_byte(i)` of any such rope is the `i`-th byte of the string (no panic) -/
theorem c16_get_byte (p : RProgS) (h : p.TextsOK) (r : Rope) (hr : p.eval = .ok r) (t : Text) (ht : p.flat = .ok t) (i : Nat) :
    r.getByte i = .ok t[i]? := by
  obtain ⟨e1, e2⟩ := c16_program p h
  rw [hr, ht] at e1
  simp only [Except.map] at e1
  cases e1
  exact getByte_spec r (e2 r hr).inv i

/-- the hypotheses are satisfiable and slicing is exercised across pieces, inside a multi-byte char (error) and at borders -/
example : (match (RProgS.slice (.append (.from_ [97, 0xC3, 0xA9]) (.iter [[98], [], [99, 100]])) 1 5).eval with
      | .ok r => r.render == [0xC3, 0xA9, 98, 99] | .error _ => false) = true
    ∧ (match (RProgS.slice (.append (.from_ [97, 0xC3, 0xA9]) (.iter [[98], [], [99, 100]])) 2 5).eval with
      | .ok _ => false | .error e => e == .boundary) = true := by
  decide


/-! ## the remaining observers, for every rope a program can build -/

/-- `ends_with`, equality with a string, equality of ropes, `starts_with` and the offsets of `char_indices` answer as the
flat strings do, whatever the division into pieces — and none of them panics -/
theorem c16_observers (p q : RProgS) (hp : p.TextsOK) (hq : q.TextsOK) (r v : Rope) (hr : p.eval = .ok r) (hv : q.eval = .ok v)
    (c : UInt8) (o : Text) :
    r.endsWith c = (r.render.getLast? == some c)
    ∧ r.eqStr o = .ok (r.render == o)
    ∧ r.eqRope v = .ok (r.render == v.render)
    ∧ r.startsWith v = v.render.isPrefixOf r.render
    ∧ (r.charIndices.map (·.1)) = charStarts r.render := by
  have wr := (c16_program p hp).2 r hr
  have wv := (c16_program q hq).2 v hv
  exact ⟨endsWith_spec r c, eqStr_spec r wr.inv o, eqRope_spec r v wr.inv wv.inv, startsWith_spec r v, charIndices_offsets r wr.inv⟩

/-- the shape that exposed defect F14 (argument ending with an empty piece), now answering like the flat strings -/
example : (Rope.full [([97], 0)]).startsWith (.full [([97], 0), ([], 1)]) = true := by decide


/-- **`lines()` / `lines_impl(trailing)`**: on every rope a program can build, the items the `Lines` iterator yields render to
the lines of the flat string — `split_inclusive('\n')`, plus a final empty item when `trailing` and the text is empty or
ends with a line break — whatever the division into pieces (a line may span any number of pieces, pieces may be empty) -/
theorem c16_lines (p : RProgS) (hp : p.TextsOK) (r : Rope) (hr : p.eval = .ok r) (trailing : Bool) :
    (r.linesR trailing).map Rope.render = Rope.linesSpec r.render trailing := by
  rw [linesR_spec r ((c16_program p hp).2 r hr).inv trailing, lines_eq_spec]

example : ((Rope.full [([97, 10], 0), ([], 2), ([98], 2), ([99, 10], 3)]).linesR true).map Rope.render = [[97, 10], [98, 99, 10], []] := by decide


/-! ## `char_indices()`: offsets and scalar values -/

/-- the literals are valid UTF-8 (`&str`): besides starting on a char boundary, every lead byte is followed inside the literal by
the continuation bytes it announces -/
def RProgS.TextsV : RProgS → Prop
  | .new => True
  | .from_ t => Rope.Utf8V t ∧ pieceOK t = true
  | .iter ts => ∀ t ∈ ts, Rope.Utf8V t ∧ pieceOK t = true
  | .add p t => p.TextsV ∧ Rope.Utf8V t ∧ pieceOK t = true
  | .append a b => a.TextsV ∧ b.TextsV
  | .slice p _ _ => p.TextsV

theorem RProgS.TextsV.ok : ∀ (p : RProgS), p.TextsV → p.TextsOK
  | .new, _ => trivial
  | .from_ _, h => h.2
  | .iter _, h => fun t ht => (h t ht).2
  | .add p _, h => ⟨RProgS.TextsV.ok p h.1, h.2.2⟩
  | .append a b, h => ⟨RProgS.TextsV.ok a h.1, RProgS.TextsV.ok b h.2⟩
  | .slice p _ _, h => RProgS.TextsV.ok p h

/-- the string a program denotes is valid UTF-8 (slicing off a boundary fails instead) -/
theorem c16_flat_valid : ∀ (p : RProgS), p.TextsV → ∀ t, p.flat = .ok t → Rope.Utf8V t ∧ pieceOK t = true
  | .new, _, t, ht => by cases ht; exact ⟨Rope.utf8V_nil, rfl⟩
  | .from_ x, h, t, ht => by cases ht; exact h
  | .iter ts, h, t, ht => by cases ht; exact Rope.utf8V_flatten ts h
  | .add p x, h, t, ht => by
    simp only [RProgS.flat] at ht
    cases hp : p.flat with
    | error e => rw [hp] at ht; simp [Except.map] at ht
    | ok y =>
      rw [hp] at ht; simp only [Except.map, Except.ok.injEq] at ht; subst ht
      obtain ⟨a, b⟩ := c16_flat_valid p h.1 y hp
      exact ⟨Rope.utf8V_append _ _ a h.2.1, Rope.pieceOK_append _ _ b h.2.2⟩
  | .append a b, h, t, ht => by
    simp only [RProgS.flat] at ht
    cases ha : a.flat with
    | error e => rw [ha] at ht; simp [Except.bind] at ht
    | ok x =>
      cases hb : b.flat with
      | error e => rw [ha, hb] at ht; simp [Except.bind, Except.map] at ht
      | ok y =>
        rw [ha, hb] at ht; simp only [Except.bind, Except.map, Except.ok.injEq] at ht; subst ht
        obtain ⟨a1, a2⟩ := c16_flat_valid a h.1 x ha
        obtain ⟨b1, b2⟩ := c16_flat_valid b h.2 y hb
        exact ⟨Rope.utf8V_append _ _ a1 b1, Rope.pieceOK_append _ _ a2 b2⟩
  | .slice p a b, h, t, ht => by
    simp only [RProgS.flat] at ht
    cases hp : p.flat with
    | error e => rw [hp] at ht; simp [Except.bind] at ht
    | ok x =>
      rw [hp] at ht
      simp only [Except.bind, strSlice] at ht
      obtain ⟨v1, v2⟩ := c16_flat_valid p h x hp
      split at ht
      · cases ht
      · split at ht
        · cases ht
        · split at ht
          · rename_i h1 h2 h3
            cases ht
            simp only [Bool.and_eq_true] at h3
            exact Rope.utf8V_bsub x a b v1 v2 (by omega) (by omega) h3.1 h3.2
          · cases ht

/-- **`char_indices()`** of every rope a program can build yields exactly the (byte offset, scalar value) pairs of
`str::char_indices` on the flat string, whatever the division into pieces -/
theorem c16_char_indices (p : RProgS) (hp : p.TextsV) (r : Rope) (hr : p.eval = .ok r) :
    r.charIndices = Rope.strCharIndices 0 0 r.render := by
  obtain ⟨e1, e2⟩ := c16_program p (RProgS.TextsV.ok p hp)
  rw [hr] at e1
  simp only [Except.map] at e1
  exact Rope.charIndices_spec r (e2 r hr) (c16_flat_valid p hp r.render e1.symm).1

/-- non-vacuity: "aé" + "b€" split into pieces; the two-byte and three-byte chars decode to U+00E9 and U+20AC -/
example : (Rope.full [([97, 0xC3, 0xA9], 0), ([], 3), ([98, 0xE2, 0x82, 0xAC], 3)]).charIndices
    = [(0, 97), (1, 0xE9), (3, 98), (4, 0x20AC)] := by decide

end Rs
