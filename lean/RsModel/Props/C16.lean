import RsModel.Lemmas.Rope
/-!
# C16 — Rope behaves exactly like the string it represents
`render r` is the flat string a rope stands for.
-/
namespace Rs
open Rope

/-- construction programs without slicing -/
inductive RProg where
  | new | from_ (t : Text) | iter (ts : List Text) | add (p : RProg) (t : Text) | append (a b : RProg)

def RProg.eval : RProg → Rope
  | .new => Rope.new
  | .from_ t => .light t
  | .iter ts => Rope.fromIter ts
  | .add p t => p.eval.add t
  | .append a b => a.eval.append b.eval

/-- the flat string the program denotes -/
def RProg.flat : RProg → Text
  | .new => []
  | .from_ t => t
  | .iter ts => ts.flatten
  | .add p t => p.flat ++ t
  | .append a b => a.flat ++ b.flat

/-- every rope built by new / from / from_iter / add / append renders to the concatenation of its pieces,
whatever the grouping -/
theorem c16_render (p : RProg) : p.eval.render = p.flat := by
  induction p with
  | new => rfl
  | from_ t => rfl
  | iter ts => exact render_fromIter ts
  | add p t ih => simp [RProg.eval, RProg.flat, render_add, ih]
  | append a b iha ihb => simp [RProg.eval, RProg.flat, render_append, iha, ihb]

/-- … and satisfies the offset invariant (recorded offsets are the prefix sums of the piece lengths) -/
theorem c16_invariant (p : RProg) : p.eval.Inv := by
  induction p with
  | new => exact inv_new
  | from_ t => trivial
  | iter ts => exact inv_fromIter ts
  | add p t ih => exact inv_add _ t ih
  | append a b iha ihb => exact inv_append _ _ iha ihb

/-- `len`, `is_empty`, `to_bytes`/`to_string` answer as the flat string does -/
theorem c16_len_empty_bytes (p : RProg) :
    p.eval.len = p.flat.length ∧ p.eval.isEmpty = p.flat.isEmpty ∧ p.eval.toBytes = p.flat := by
  refine ⟨?_, ?_, ?_⟩
  · rw [len_eq_render _ (c16_invariant p), c16_render]
  · rw [isEmpty_eq, c16_render]
  · exact c16_render p

/-- independence of the division into pieces: two programs denoting the same string agree on these observers -/
theorem c16_chunking_irrelevant (p q : RProg) (h : p.flat = q.flat) :
    p.eval.len = q.eval.len ∧ p.eval.isEmpty = q.eval.isEmpty ∧ p.eval.toBytes = q.eval.toBytes := by
  obtain ⟨a1, a2, a3⟩ := c16_len_empty_bytes p
  obtain ⟨b1, b2, b3⟩ := c16_len_empty_bytes q
  simp [a1, a2, a3, b1, b2, b3, h]

/-! non-vacuity: an empty piece in the middle, a multi-piece append -/
example : (RProg.append (.add .new [97]) (.iter [[98], [], [99]])).eval = .full [([], 0), ([97], 0), ([98], 1), ([99], 2)] := by decide
example : (RProg.append (.add .new [97]) (.iter [[98], [], [99]])).flat = [97, 98, 99] := by decide

end Rs
