import RsModel.Model.Composite
import RsModel.Lemmas.AttrTree
import RsModel.Lemmas.ReplaceKeeps
import RsModel.Lemmas.ReplaceAdvance
import RsModel.Lemmas.WellDeclDecl
import RsModel.Lemmas.ReplaceNames
import RsModel.Lemmas.EraseContent
/-!
# C06 — composites preserve what their children attribute
(the index-translation tables every composite relies on; attribution itself is tied by correspondence)
-/
namespace Rs

/-- `LinearMap::insert` then `get` of the same key returns the inserted value -/
theorem c06_linear_map_get_insert {α} (d : α) (m : List α) (k : Nat) (v : α) : (lmInsert d m k v)[k]? = some v := by
  unfold lmInsert
  split
  · rename_i h; simp [h]
  · rename_i h
    have : (m ++ List.replicate (k - m.length) d).length = k := by simp; omega
    rw [List.getElem?_append_right (by omega)]
    simp [this]

/-- … and leaves every other declared key as it was -/
theorem c06_linear_map_get_other {α} (d : α) (m : List α) (k j : Nat) (v : α) (hj : j < m.length) (hne : j ≠ k) :
    (lmInsert d m k v)[j]? = m[j]? := by
  unfold lmInsert
  split
  · simp [List.getElem?_set, hne.symm]
  · rw [List.append_assoc, List.getElem?_append_left hj]

/-- an index that was never declared is not translated (`get` beyond the table is `None`): the chunk then
counts as unmapped instead of aliasing source 0 -/
theorem c06_undeclared_is_none (m : List Nat) (j : Nat) (h : m.length ≤ j) : m[j]? = none := by
  simp [h]

/-- ConcatSource forwards a child's chunk text unchanged in normal mode and shifts only line-1 columns -/
theorem c06_concat_chunk_text (st : CSt) (text : Option Text) (m : Mapping) :
    ∃ close out, (concatEv false st (.chunk text m)).2 = close ++ [out] ∧ out.text = (Ev.chunk text m).text
      ∧ (∀ e ∈ close, e.text = []) := by
  simp only [concatEv]
  refine ⟨_, _, rfl, ?_, ?_⟩
  · split <;> cases text <;> rfl
  · intro e he
    split at he
    · simp at he; subst he; rfl
    · simp at he

/-! ## ConcatSource: attribution of every byte is the child's own (PARTIAL: ConcatSource only, normal mode)

`attrN` resolves, for every byte of the delivered text, the chunk's original location through the tables the stream
itself announced (`on_source` / `on_name` events): file name, embedded content, original line and column, and name.
The hypothesis `WellDecl` is C11's "announced before used" for the child streams together with "one content per
file name" (`cons`): a ConcatSource deduplicates sources by name and keeps the first content. -/

/-- stream level: every byte contributed by child k is attributed exactly as child k attributes it on its own
(file name, embedded content, line, column and name), and nothing else is added. -/
theorem c06_concat (cons : Text → Option Text) (children : List SResult)
    (h : ∀ c ∈ children, WellDecl cons emptyS emptyN c.evs ∧ evsTL c.evs = false) :
    attrN emptyS emptyN (concatStream false children).evs = (children.map fun c => attrN emptyS emptyN c.evs).flatten :=
  concatStream_attrN cons children h

/-- … and what the ConcatSource delivers is again well declared, so the law composes through nesting -/
theorem c06_concat_well_declared (cons : Text → Option Text) (children : List SResult)
    (h : ∀ c ∈ children, WellDecl cons emptyS emptyN c.evs ∧ evsTL c.evs = false) :
    WellDecl cons emptyS emptyN (concatStream false children).evs :=
  concatStream_wellDecl cons children h

/-- tree level, any nesting of ConcatSource over Raw / Original / (well-declared) SourceMapSource leaves -/
theorem c06_concat_tree (cons : Text → Option Text) (c : Bool) (cs : SrcList) (h : SrcList.WD cons c cs) (σ : Store) :
    (Src.concat cs).attr c σ = ((cs.streams ⟨c, false⟩ σ).1.map fun r => attrN emptyS emptyN r.evs).flatten :=
  Src.attr_concat cons c cs h σ

/-- a ReplaceSource child is covered by the law: it keeps "announced before use, densely" (C11) and passes the announcements of its
inner stream through unchanged, so it is well declared whenever its inner tree is -/
theorem c06_replace_well_declared (cons : Text → Option Text) (sorted : List Repl) (inner : SResult)
    (hw : WellDecl cons emptyS emptyN inner.evs) (hd : DeclOK 0 0 inner.evs) :
    WellDecl cons emptyS emptyN (replaceStream sorted inner).evs :=
  replaceStream_wellDecl cons sorted inner hw hd

/-- the hypotheses are satisfiable: two OriginalSources with different names and a RawSource -/
example : SrcList.WD (fun n => if n = [97] then some [120, 10, 121] else some [122]) true
    (.cons (.orig [120, 10, 121] [97]) (.cons (.rawStr [59]) (.cons (.orig [122] [98]) .nil))) := by
  simp [SrcList.WD, Src.WD]


/-! ## ReplaceSource: what survives of the inner attribution (PARTIAL: index level; file/line/column rules, not yet names) -/

/-- per inner chunk: everything delivered while the inner chunk `(chunk, m)` is processed — pieces of its text and replacement
content spliced into it — is unmapped if `m` is unmapped and otherwise keeps `m`'s source index and original line; its column is
never before `m`'s column and equals it when no content is recorded for that source (the column advances only where the recorded
original content equals the preceding text) -/
theorem c06_replace_chunk (st : RSt) (chunk : Text) (m : Mapping) :
    ∀ t mm, Ev.chunk t mm ∈ (rOnChunk st chunk m).2 →
      (m.orig = none → mm.orig = none) ∧ ∀ y, mm.orig = some y → ∃ x, m.orig = some x ∧ y.src = x.src ∧ y.line = x.line ∧ x.col ≤ y.col
        ∧ ((∀ c, st.contents[x.src]? ≠ some (some c)) → y.col = x.col) :=
  (rOnChunk_keeps st chunk m).1

/-- whole stream, any inner stream, any sorted replacement list: every delivered chunk is unmapped (trailing replacement content,
or text of an unmapped inner chunk) or keeps source index and original line of an inner chunk with a column not before it; the
sources are announced exactly as the inner stream announces them, so the index means the same file with the same content -/
theorem c06_replace_stream (sorted : List Repl) (inner : SResult) :
    (∀ t' mm, Ev.chunk t' mm ∈ (replaceStream sorted inner).evs → mm.orig = none ∨ ∃ t m, Ev.chunk t m ∈ inner.evs ∧ KeepsW m.orig mm.orig)
    ∧ ∀ i s c, Ev.source i s c ∈ (replaceStream sorted inner).evs ↔ Ev.source i s c ∈ inner.evs :=
  replaceStream_keeps sorted inner


/-- **the advance rule** ("advanced by the length of the preceding text of that segment where the recorded original content
equals that text"): while the inner chunk `(chunk, m)` with original location `a` is processed and `check_original_content`
succeeds wherever it is asked (`FM`: the recorded content, read from `a`, spells out the chunk), every delivered chunk — the piece
`chunk[p..q)` of the inner text, or a line of the content of one of the pending replacements, spliced in at `p` — reports `a`'s source index and original line and exactly the column
`a.col + p`, `p < |chunk|` being the byte offset in the inner chunk at which the piece was cut or the content spliced in.
Together with `c06_replace_chunk` (no recorded content ⇒ no advance at all; never before `a.col`) this is the column rule. -/
theorem c06_replace_advance (st : RSt) (chunk : Text) (hne : chunk ≠ []) (m : Mapping) (a : Orig) (hm : m.orig = some a) (hfm : FM st.contents a chunk) :
    ∀ t mm, Ev.chunk t mm ∈ (rOnChunk st chunk m).2 →
      ∃ p, p < chunk.length ∧ (∃ y, mm.orig = some y ∧ y.src = a.src ∧ y.line = a.line ∧ y.col = a.col + p)
        ∧ ((∃ q, p < q ∧ q ≤ chunk.length ∧ t = some (bsub chunk p q))
           ∨ (∃ r ∈ st.rest, ∃ cl ∈ splitLines r.content, t = some cl)) :=
  (rOnChunk_adv st.rest st chunk hne m a hm hfm (fun r hr => hr)).1

/-- **C06, ReplaceSource, names**: a chunk a ReplaceSource delivers with a name carries — through the names the ReplaceSource itself
announces — either the name the inner stream announced for the inner chunk it was cut from (or its replacement content was spliced
into), or the name given with one of the replacements.  (Invariant `RN` on `name_mapping` / `name_index_mapping`; the inner stream
announces its names before use, densely: C11.) -/
theorem c06_replace_names (sorted : List Repl) (inner : SResult) (hd : DeclOK 0 0 inner.evs) :
    ∀ t' mm, Ev.chunk t' mm ∈ (replaceStream sorted inner).evs → ∀ y, mm.orig = some y → ∀ k, y.name = some k →
      (∃ t m a i, Ev.chunk t m ∈ inner.evs ∧ m.orig = some a ∧ a.name = some i
          ∧ (annN (replaceStream sorted inner).evs)[k]? = (annN inner.evs)[i]? ∧ i < (annN inner.evs).length)
      ∨ (∃ r ∈ sorted, ∃ nm, r.name = some nm ∧ (annN (replaceStream sorted inner).evs)[k]? = some nm) :=
  replaceStream_names sorted inner hd

/-- non-vacuity: replacing `b` in `a b` (an OriginalSource has no names) by `X` with the name `nm` delivers `X` under a name index that the
ReplaceSource announces as `nm` -/
example : annN (replaceStream (sortRepls [⟨2, 3, [88], some [110, 109], 1⟩]) (streamOriginal [97, 32, 98] [102] ⟨true, false⟩)).evs = [[110, 109]] := by decide


/-- **C06, ReplaceSource, the exact name of replacement content**: the first line of a replacement's content carries the name
given with the replacement — resolved through the ReplaceSource's own announcements — whenever the replacement has one and the
spot it is spliced into is mapped; otherwise it carries the name of the inner segment it is spliced into (the walker's
`l.orig.name`, which `OrigName` / `origName_adv` show is the inner chunk's name), translated by `name_index_mapping` (which `RN`
shows resolves to the inner stream's name).  (`rName` is the code of replace_source.rs:529-545.) -/
theorem c06_replacement_name_exact (RNs : List Text) (r : Repl) (st : RSt) (l : LSt) (N IN : List Text) (h : RN RNs st N IN) :
    (∀ nm x, r.name = some nm → l.orig = some x →
        (N ++ annN (rName r st l).2.1)[(rName r st l).2.2.getD 0]? = some nm ∧ ((rName r st l).2.2).isSome = true)
    ∧ ((r.name = none ∨ l.orig = none) → (rName r st l).2.2 = (l.orig.bind (·.name)).bind fun n => st.nim[n]?) :=
  rName_exact RNs r st l N IN h

/-- … and only that first line carries it: the following lines of the content are delivered without a name (as in
webpack-sources; the property's "carries the name" is read for the segment the content starts with, which is what the oracle
evaluates) -/
theorem c06_replacement_name_first_line (gc : Nat) (orig : Option Orig) (cls : List Text) (nameIdx : Option Nat) (st : RSt) (line : Int) :
    (chunkMs (emitContent gc orig cls nameIdx st line).2.1).map (fun m => m.orig.bind (·.name))
      = match cls with
        | [] => []
        | _ :: rest => (orig.bind fun _ => nameIdx) :: rest.map fun _ => none :=
  emitContent_names gc orig cls nameIdx st line


/-- **C06, ConcatSource at name level, no assumption on contents**: for *any* children — SourceMapSource, CachedSource replays,
ReplaceSource, nested ConcatSource — that merely announce their sources and names before use (C11) and deliver text, every byte
contributed by child k resolves, through the ConcatSource's announcements, to the same file name, original line, original column
and name as child k resolves it to on its own.  (`c06_concat` says the same *with* the embedded contents and needs "one content
per file name"; dropping the contents from the announcements commutes with ConcatSource, whose tables are keyed by name only:
`EraseContent.lean`.) -/
theorem c06_concat_names (cs : List SResult) (h : ∀ c ∈ cs, DeclOK 0 0 c.evs ∧ evsTL c.evs = false) :
    NA (concatStream false cs).evs = (cs.map fun c => NA c.evs).flatten :=
  concatStream_NA cs h

end Rs
