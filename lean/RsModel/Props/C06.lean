import RsModel.Model.Composite
/-!
# C06 — composites preserve what their children attribute
(the index-translation tables every composite relies on; attribution itself is tied by correspondence)
-/
namespace Rs

/-- `LinearMap::insert` then `get` of the same key returns the inserted value -/
theorem c06_linear_map_get_insert {α} (d : α) (m : List α) (k : Nat) (v : α) : (lmInsert d m k v)[k]? = some v := by
  unfold lmInsert
  split
  · rename_i h; simp [h]
  · rename_i h
    have : (m ++ List.replicate (k - m.length) d).length = k := by simp; omega
    rw [List.getElem?_append_right (by omega)]
    simp [this]

/-- … and leaves every other declared key as it was -/
theorem c06_linear_map_get_other {α} (d : α) (m : List α) (k j : Nat) (v : α) (hj : j < m.length) (hne : j ≠ k) :
    (lmInsert d m k v)[j]? = m[j]? := by
  unfold lmInsert
  split
  · simp [List.getElem?_set, hne.symm]
  · rw [List.append_assoc, List.getElem?_append_left hj]

/-- an index that was never declared is not translated (`get` beyond the table is `None`): the chunk then
counts as unmapped instead of aliasing source 0 -/
theorem c06_undeclared_is_none (m : List Nat) (j : Nat) (h : m.length ≤ j) : m[j]? = none := by
  simp [h]

/-- ConcatSource forwards a child's chunk text unchanged in normal mode and shifts only line-1 columns -/
theorem c06_concat_chunk_text (st : CSt) (text : Option Text) (m : Mapping) :
    ∃ close out, (concatEv false st (.chunk text m)).2 = close ++ [out] ∧ out.text = (Ev.chunk text m).text
      ∧ (∀ e ∈ close, e.text = []) := by
  simp only [concatEv]
  refine ⟨_, _, rfl, ?_, ?_⟩
  · split <;> cases text <;> rfl
  · intro e he
    split at he
    · simp at he; subst he; rfl
    · simp at he

end Rs
