import RsModel.Lemmas.ModeConcat2
/-!
# ConcatSource lookups, part 3: the index translation is the same in both modes

The translation tables evolve with the source / name events only; for a child that announces before use (`DeclOK`) every
chunk is translated as by the child's final tables.
-/
namespace Rs

/-- the source / name events of a stream -/
def declsOf : List Ev → List Ev
  | [] => []
  | .chunk _ _ :: es => declsOf es
  | e :: es => e :: declsOf es

theorem declsOf_append (a b : List Ev) : declsOf (a ++ b) = declsOf a ++ declsOf b := by
  induction a with
  | nil => rfl
  | cons e es ih => cases e <;> simp [declsOf, ih]

theorem declsOf_noChunk (evs : List Ev) (h : ∀ e ∈ evs, e.isChunk = false) : declsOf evs = evs := by
  induction evs with
  | nil => rfl
  | cons e es ih =>
    cases e with
    | chunk t m => have := h _ (List.mem_cons_self); simp [Ev.isChunk] at this
    | source i s c => simp [declsOf, ih (fun x hx => h x (by simp [hx]))]
    | name i n => simp [declsOf, ih (fun x hx => h x (by simp [hx]))]

/-- the part of the walker state the translation depends on -/
structure Tb where
  sm : Assoc
  nm : Assoc
  sim : List Nat
  nim : List Nat

def tbOf (st : CSt) : Tb := ⟨st.sourceMapping, st.nameMapping, st.sim, st.nim⟩

/-- the state after a declaration event, and what is announced to the consumer, as functions of the tables alone -/
def tbStep (tb : Tb) : Ev → Tb × List Ev
  | .chunk _ _ => (tb, [])
  | .source i s c => let g := globalSource tb.sm s c; ({ tb with sm := g.1, sim := lmInsert 0 tb.sim i g.2.2 }, g.2.1)
  | .name i n => let g := globalName tb.nm n; ({ tb with nm := g.1, nim := lmInsert 0 tb.nim i g.2.2 }, g.2.1)

def tbFold (tb : Tb) : List Ev → Tb × List Ev
  | [] => (tb, [])
  | e :: es => let r := tbStep tb e; let r2 := tbFold r.1 es; (r2.1, r.2 ++ r2.2)

theorem globalSource_noChunk (sm : Assoc) (s : Text) (c : Option Text) : ∀ e ∈ (globalSource sm s c).2.1, e.isChunk = false := by
  unfold globalSource; split <;> simp [Ev.isChunk]

theorem concatEv_tb (final : Bool) (st : CSt) (e : Ev) :
    tbOf (concatEv final st e).1 = (tbStep (tbOf st) e).1 ∧ declsOf (concatEv final st e).2 = (tbStep (tbOf st) e).2 := by
  cases e with
  | chunk t m =>
    rw [concatEv_chunk_st]
    refine ⟨rfl, ?_⟩
    simp only [concatEv, declsOf_append, tbStep]
    have h1 : declsOf (if (st.needClose && (m.gl != 1 || m.gc != 0)) = true then [Ev.chunk none ⟨st.lineOff + 1, st.colOff, none⟩] else []) = [] := by
      split <;> rfl
    rw [h1]
    split <;> rfl
  | source i s c =>
    simp only [concatEv, tbStep, tbOf]
    exact ⟨by first | rfl | trivial, declsOf_noChunk _ (globalSource_noChunk _ _ _)⟩
  | name i n =>
    simp only [concatEv, tbStep, tbOf]
    exact ⟨by first | rfl | trivial, declsOf_noChunk _ (globalName_noChunk _ _)⟩

theorem tbStep_chunk (tb : Tb) (e : Ev) (h : e.isChunk = true) : tbStep tb e = (tb, []) := by
  cases e <;> simp_all [Ev.isChunk, tbStep]

theorem tbFold_decls : ∀ (evs : List Ev) (tb : Tb), tbFold tb evs = tbFold tb (declsOf evs) := by
  intro evs
  induction evs with
  | nil => intro tb; rfl
  | cons e es ih =>
    intro tb
    cases e with
    | chunk t m => simp only [tbFold, tbStep, declsOf, List.nil_append]; exact ih tb
    | source i s c => simp only [tbFold, declsOf]; rw [ih]
    | name i n => simp only [tbFold, declsOf]; rw [ih]

theorem concatEvs_tb (final : Bool) : ∀ (evs : List Ev) (st : CSt),
    tbOf (concatEvs final st evs).1 = (tbFold (tbOf st) evs).1 ∧ declsOf (concatEvs final st evs).2 = (tbFold (tbOf st) evs).2 := by
  intro evs
  induction evs with
  | nil => intro st; exact ⟨rfl, rfl⟩
  | cons e es ih =>
    intro st
    obtain ⟨a, b⟩ := concatEv_tb final st e
    obtain ⟨c, d⟩ := ih (concatEv final st e).1
    simp only [concatEvs, tbFold, declsOf_append]
    rw [c, d, a, b]
    exact ⟨rfl, rfl⟩

/-- both modes: the same declarations from the same tables give the same tables and announce the same -/
theorem concatEvs_tb_modes (evsF evsN : List Ev) (stF stN : CSt) (ht : tbOf stF = tbOf stN) (hd : declsOf evsF = declsOf evsN) :
    tbOf (concatEvs true stF evsF).1 = tbOf (concatEvs false stN evsN).1
    ∧ declsOf (concatEvs true stF evsF).2 = declsOf (concatEvs false stN evsN).2 := by
  obtain ⟨a, b⟩ := concatEvs_tb true evsF stF
  obtain ⟨c, d⟩ := concatEvs_tb false evsN stN
  rw [a, b, c, d, ht, tbFold_decls evsF, tbFold_decls evsN, hd]
  exact ⟨rfl, rfl⟩

/-! ## a child that announces before use is translated by its final tables -/

theorem getElem?_prefix {α} (a b : List α) (i : Nat) (h : i < a.length) : (a ++ b)[i]? = a[i]? := List.getElem?_append_left h

theorem trans_prefix (sim nim es en : List Nat) (orig : Option Orig)
    (h : ∀ o, orig = some o → o.src < sim.length ∧ ∀ k, o.name = some k → k < nim.length) :
    trans (sim ++ es) (nim ++ en) orig = trans sim nim orig := by
  cases orig with
  | none => rfl
  | some o =>
    obtain ⟨h1, h2⟩ := h o rfl
    unfold trans
    simp only [Option.bind_some]
    rw [List.getElem?_append_left h1]
    cases hn : o.name with
    | none => rfl
    | some k =>
      have := h2 k hn
      simp only [Option.bind_some]
      rw [List.getElem?_append_left this]

theorem lmInsert_next (m : List Nat) (v : Nat) : lmInsert 0 m m.length v = m ++ [v] := by
  simp [lmInsert]

/-- for a child that announces before use, every chunk is translated as by the tables the child ends with -/
theorem trMs_final_tables (final : Bool) : ∀ (evs : List Ev) (st : CSt) (ns nn : Nat), DeclOK ns nn evs → st.sim.length = ns → st.nim.length = nn →
    (∃ es en, (concatEvs final st evs).1.sim = st.sim ++ es ∧ (concatEvs final st evs).1.nim = st.nim ++ en)
    ∧ trMs final st evs = (chunkMs evs).map fun m => ⟨m.gl, m.gc, trans (concatEvs final st evs).1.sim (concatEvs final st evs).1.nim m.orig⟩ := by
  intro evs
  induction evs with
  | nil => intro st ns nn _ _ _; exact ⟨⟨[], [], by simp [concatEvs], by simp [concatEvs]⟩, rfl⟩
  | cons e es ih =>
    intro st ns nn hd h1 h2
    simp only [concatEvs]
    cases e with
    | chunk t m =>
      obtain ⟨hdm, hdr⟩ := hd
      have hst := concatEv_chunk_st final st t m
      have hs1 : (concatEv final st (.chunk t m)).1.sim = st.sim := by rw [hst]
      have hs2 : (concatEv final st (.chunk t m)).1.nim = st.nim := by rw [hst]
      obtain ⟨⟨es', en', e1, e2⟩, i2⟩ := ih (concatEv final st (.chunk t m)).1 ns nn hdr (by rw [hs1]; exact h1) (by rw [hs2]; exact h2)
      rw [hs1] at e1; rw [hs2] at e2
      refine ⟨⟨es', en', e1, e2⟩, ?_⟩
      simp only [trMs, chunkMs, List.map_cons]
      rw [i2, e1, e2, trans_prefix st.sim st.nim es' en' m.orig (by rw [h1, h2]; exact hdm)]
    | source i s c =>
      obtain ⟨hi, hdr⟩ := hd
      have hs1 : (concatEv final st (.source i s c)).1.sim = st.sim ++ [(globalSource st.sourceMapping s c).2.2] := by
        simp only [concatEv]; rw [hi, ← h1]; exact lmInsert_next _ _
      have hs2 : (concatEv final st (.source i s c)).1.nim = st.nim := by simp only [concatEv]
      obtain ⟨⟨es', en', e1, e2⟩, i2⟩ := ih (concatEv final st (.source i s c)).1 (ns + 1) nn hdr (by rw [hs1]; simp [h1]) (by rw [hs2]; exact h2)
      rw [hs1] at e1; rw [hs2] at e2
      refine ⟨⟨(globalSource st.sourceMapping s c).2.2 :: es', en', by rw [e1]; simp, e2⟩, ?_⟩
      simp only [trMs, chunkMs]
      exact i2
    | name i n =>
      obtain ⟨hi, hdr⟩ := hd
      have hs1 : (concatEv final st (.name i n)).1.nim = st.nim ++ [(globalName st.nameMapping n).2.2] := by
        simp only [concatEv]; rw [hi, ← h2]; exact lmInsert_next _ _
      have hs2 : (concatEv final st (.name i n)).1.sim = st.sim := by simp only [concatEv]
      obtain ⟨⟨es', en', e1, e2⟩, i2⟩ := ih (concatEv final st (.name i n)).1 ns (nn + 1) hdr (by rw [hs2]; exact h1) (by rw [hs1]; simp [h2])
      rw [hs2] at e1; rw [hs1] at e2
      refine ⟨⟨es', (globalName st.nameMapping n).2.2 :: en', e1, by rw [e2]; simp⟩, ?_⟩
      simp only [trMs, chunkMs]
      exact i2

/-! ## lookups in translated mappings -/

theorem lookupGo_map (l c : Nat) (f : Option Orig → Option Orig) : ∀ (ms : List Mapping) (acc : Option (Option Orig)),
    lookupGo l c (acc.map f) (ms.map fun m => ⟨m.gl, m.gc, f m.orig⟩) = (lookupGo l c acc ms).map f := by
  intro ms
  induction ms with
  | nil => intro acc; rfl
  | cons m ms ih =>
    intro acc
    simp only [List.map_cons, lookupGo]
    rw [← ih]
    congr 1
    split <;> rfl

theorem join_map_trans (sim nim : List Nat) (x : Option (Option Orig)) : (x.map (trans sim nim)).join = trans sim nim x.join := by
  cases x with
  | none => rfl
  | some y => rfl

/-- **the translated child answers a lookup with the translation of what the child itself answers** -/
theorem trMs_look (final : Bool) (evs : List Ev) (st : CSt) (hd : DeclOK 0 0 evs) (l c : Nat) :
    (lookupGo l c none (trMs final (childStart st) evs)).join
      = trans (concatEvs final (childStart st) evs).1.sim (concatEvs final (childStart st) evs).1.nim (lookupCols (chunkMs evs) l c) := by
  obtain ⟨_, h⟩ := trMs_final_tables final evs (childStart st) 0 0 hd rfl rfl
  rw [h]
  have := lookupGo_map l c (trans (concatEvs final (childStart st) evs).1.sim (concatEvs final (childStart st) evs).1.nim) (chunkMs evs) none
  simp only [Option.map_none] at this
  rw [this, join_map_trans]
  rfl

end Rs
