import RsModel.Lemmas.DeclSM
/-! # DeclOK for ConcatSource (either mode): no hypothesis on the children is needed -/
namespace Rs

structure DInv (st : CSt) (ns nn : Nat) : Prop where
  s_len : st.sourceMapping.length = ns
  n_len : st.nameMapping.length = nn
  s_val : ∀ s g, st.sourceMapping.get? s = some g → g < ns
  n_val : ∀ n g, st.nameMapping.get? n = some g → g < nn
  sim : ∀ g ∈ st.sim, g < ns
  nim : ∀ g ∈ st.nim, g < nn

theorem lmInsert_bound (m : List Nat) (k v B : Nat) (hm : ∀ g ∈ m, g < B) (hv : v < B) : ∀ g ∈ lmInsert 0 m k v, g < B := by
  intro g hg
  unfold lmInsert at hg
  split at hg
  · rcases List.mem_or_eq_of_mem_set hg with h | h
    · exact hm g h
    · rw [h]; exact hv
  · simp only [List.mem_append, List.mem_replicate, List.mem_singleton] at hg
    rcases hg with (h | h) | h
    · exact hm g h
    · rw [h.2]; omega
    · rw [h]; exact hv

theorem getElem?_mem' {α} (l : List α) (i : Nat) (v : α) (h : l[i]? = some v) : v ∈ l := List.mem_of_getElem? h

theorem concatEv_chunk_shape (final : Bool) (st : CSt) (text : Option Text) (m : Mapping) :
    ∃ close out, (concatEv final st (.chunk text m)).2 = close ++ [out]
      ∧ (∀ e ∈ close, ∃ l c, e = Ev.chunk none ⟨l, c, none⟩)
      ∧ (∃ t mm, out = Ev.chunk t mm ∧ ∀ o, mm.orig = some o →
          ∃ o0, m.orig = some o0 ∧ st.sim[o0.src]? = some o.src ∧ o.name = o0.name.bind fun n => st.nim[n]?)
      ∧ (concatEv final st (.chunk text m)).1.sourceMapping = st.sourceMapping
      ∧ (concatEv final st (.chunk text m)).1.nameMapping = st.nameMapping
      ∧ (concatEv final st (.chunk text m)).1.sim = st.sim
      ∧ (concatEv final st (.chunk text m)).1.nim = st.nim := by
  simp only [concatEv]
  refine ⟨_, _, rfl, ?_, ?_, by first | rfl | trivial, by first | rfl | trivial, by first | rfl | trivial, by first | rfl | trivial⟩
  · intro e he
    split at he
    · simp only [List.mem_singleton] at he; exact ⟨_, _, he⟩
    · simp at he
  · split
    · rename_i si o hsi ho
      refine ⟨_, _, rfl, fun o' ho' => ?_⟩
      simp only [Option.some.injEq] at ho'
      subst ho'
      rw [ho] at hsi
      simp only [Option.bind_some] at hsi
      exact ⟨o, ho, hsi, by simp [ho]⟩
    · exact ⟨_, _, rfl, fun o ho => by cases ho⟩

theorem cnt_closes : ∀ (close : List Ev), (∀ e ∈ close, ∃ l c, e = Ev.chunk none ⟨l, c, none⟩) →
    cntS close = 0 ∧ cntN close = 0 ∧ ∀ ns nn, DeclOK ns nn close := by
  intro close
  induction close with
  | nil => intro _; exact ⟨rfl, rfl, fun _ _ => trivial⟩
  | cons a as ih =>
    intro h
    obtain ⟨l, c, rfl⟩ := h a (by simp)
    obtain ⟨i1, i2, i3⟩ := ih (fun e he => h e (by simp [he]))
    exact ⟨i1, i2, fun ns nn => ⟨fun o ho => (by cases ho), i3 ns nn⟩⟩

theorem concatEv_decl (final : Bool) (st : CSt) (ns nn : Nat) (hi : DInv st ns nn) (e : Ev) :
    DeclOK ns nn (concatEv final st e).2
    ∧ DInv (concatEv final st e).1 (ns + cntS (concatEv final st e).2) (nn + cntN (concatEv final st e).2) := by
  cases e with
  | chunk text m =>
    obtain ⟨close, out, e1, hcl, ⟨t, mm, rfl, hout⟩, f1, f2, f3, f4⟩ := concatEv_chunk_shape final st text m
    obtain ⟨c1, c2, c3⟩ := cnt_closes close hcl
    rw [e1, declOK_append, cntS_append, cntN_append, c1, c2]
    simp only [cntS, cntN, Nat.add_zero]
    refine ⟨⟨c3 ns nn, ⟨fun o ho => ?_, trivial⟩⟩, ?_⟩
    · obtain ⟨o0, h0, hs, hn⟩ := hout o ho
      refine ⟨hi.sim _ (List.mem_of_getElem? hs), fun k hk => ?_⟩
      rw [hn] at hk
      cases hn0 : o0.name with
      | none => rw [hn0] at hk; simp at hk
      | some n0 =>
        rw [hn0] at hk
        simp only [Option.bind_some] at hk
        exact hi.nim k (List.mem_of_getElem? hk)
    · exact ⟨by rw [f1]; exact hi.s_len, by rw [f2]; exact hi.n_len, by rw [f1]; exact hi.s_val, by rw [f2]; exact hi.n_val,
        by rw [f3]; exact hi.sim, by rw [f4]; exact hi.nim⟩
  | source i s c =>
    simp only [concatEv, globalSource]
    cases hget : st.sourceMapping.get? s with
    | some g =>
      simp only [cntS, cntN, Nat.add_zero]
      have hg := hi.s_val s g hget
      exact ⟨trivial, hi.s_len, hi.n_len, hi.s_val, hi.n_val, lmInsert_bound _ _ _ _ hi.sim hg, hi.nim⟩
    | none =>
      simp only [cntS, cntN, Nat.add_zero]
      refine ⟨⟨hi.s_len, trivial⟩, ?_, hi.n_len, ?_, hi.n_val, ?_, hi.nim⟩
      · rw [assoc_length_insert _ _ _ hget, hi.s_len]
      · intro s' g' hg'
        by_cases hs : s' = s
        · subst hs
          rw [assoc_get_insert_self _ _ _ hget] at hg'
          cases hg'; rw [hi.s_len]; omega
        · rw [assoc_get_insert_other _ _ _ _ hget hs] at hg'
          have := hi.s_val s' g' hg'; omega
      · apply lmInsert_bound
        · intro g hg; have := hi.sim g hg; omega
        · rw [hi.s_len]; omega
  | name i n =>
    simp only [concatEv, globalName]
    cases hget : st.nameMapping.get? n with
    | some g =>
      simp only [cntS, cntN, Nat.add_zero]
      have hg := hi.n_val n g hget
      exact ⟨trivial, hi.s_len, hi.n_len, hi.s_val, hi.n_val, hi.sim, lmInsert_bound _ _ _ _ hi.nim hg⟩
    | none =>
      simp only [cntS, cntN, Nat.add_zero]
      refine ⟨⟨hi.n_len, trivial⟩, hi.s_len, ?_, hi.s_val, ?_, hi.sim, ?_⟩
      · rw [assoc_length_insert _ _ _ hget, hi.n_len]
      · intro s' g' hg'
        by_cases hs : s' = n
        · subst hs
          rw [assoc_get_insert_self _ _ _ hget] at hg'
          cases hg'; rw [hi.n_len]; omega
        · rw [assoc_get_insert_other _ _ _ _ hget hs] at hg'
          have := hi.n_val s' g' hg'; omega
      · apply lmInsert_bound
        · intro g hg; have := hi.nim g hg; omega
        · rw [hi.n_len]; omega

theorem concatEvs_decl (final : Bool) : ∀ (evs : List Ev) (st : CSt) (ns nn : Nat), DInv st ns nn →
    DeclOK ns nn (concatEvs final st evs).2
    ∧ DInv (concatEvs final st evs).1 (ns + cntS (concatEvs final st evs).2) (nn + cntN (concatEvs final st evs).2) := by
  intro evs
  induction evs with
  | nil => intro st ns nn hi; exact ⟨trivial, by simpa [concatEvs, cntS, cntN] using hi⟩
  | cons e es ih =>
    intro st ns nn hi
    obtain ⟨a, b⟩ := concatEv_decl final st ns nn hi e
    obtain ⟨c, d⟩ := ih _ _ _ b
    simp only [concatEvs]
    rw [declOK_append, cntS_append, cntN_append]
    exact ⟨⟨a, c⟩, by simpa [Nat.add_assoc] using d⟩

theorem concatChild_decl (final : Bool) (st : CSt) (ns nn : Nat) (hi : DInv st ns nn) (child : SResult) :
    DeclOK ns nn (concatChild final st child).2
    ∧ DInv (concatChild final st child).1 (ns + cntS (concatChild final st child).2) (nn + cntN (concatChild final st child).2) := by
  have h0 : DInv { st with sim := [], nim := [], lastMappingLine := 0 } ns nn :=
    ⟨hi.s_len, hi.n_len, hi.s_val, hi.n_val, fun g hg => by simp at hg, fun g hg => by simp at hg⟩
  obtain ⟨a, b⟩ := concatEvs_decl final child.evs _ ns nn h0
  simp only [concatChild]
  rw [declOK_append, cntS_append, cntN_append]
  have hz : ∀ (x : Bool) (mm : Mapping), DeclOK (ns + cntS (concatEvs final { st with sim := [], nim := [], lastMappingLine := 0 } child.evs).2)
      (nn + cntN (concatEvs final { st with sim := [], nim := [], lastMappingLine := 0 } child.evs).2) (if x = true then [Ev.chunk none ⟨mm.gl, mm.gc, none⟩] else [])
      ∧ cntS (if x = true then [Ev.chunk none ⟨mm.gl, mm.gc, none⟩] else []) = 0 ∧ cntN (if x = true then [Ev.chunk none ⟨mm.gl, mm.gc, none⟩] else []) = 0 := by
    intro x mm
    cases x
    · exact ⟨trivial, rfl, rfl⟩
    · exact ⟨⟨fun o ho => (by cases ho), trivial⟩, rfl, rfl⟩
  obtain ⟨z1, z2, z3⟩ := hz ((concatEvs final { st with sim := [], nim := [], lastMappingLine := 0 } child.evs).1.needClose && (child.info.line != 1 || child.info.col != 0))
    ⟨(concatEvs final { st with sim := [], nim := [], lastMappingLine := 0 } child.evs).1.lineOff + 1, (concatEvs final { st with sim := [], nim := [], lastMappingLine := 0 } child.evs).1.colOff, none⟩
  refine ⟨⟨a, z1⟩, ?_⟩
  rw [z2, z3]
  exact ⟨b.s_len, b.n_len, b.s_val, b.n_val, b.sim, b.nim⟩

theorem concatGo_decl (final : Bool) : ∀ (children : List SResult) (st : CSt) (ns nn : Nat), DInv st ns nn →
    DeclOK ns nn (concatGo final st children).2 := by
  intro children
  induction children with
  | nil => intro st ns nn _; trivial
  | cons c cs ih =>
    intro st ns nn hi
    obtain ⟨a, b⟩ := concatChild_decl final st ns nn hi c
    simp only [concatGo]
    rw [declOK_append]
    exact ⟨a, ih _ _ _ b⟩

/-- **ConcatSource, either mode**: whatever the children deliver, the indices it reports are announced first and dense -/
theorem concatStream_declOK (final : Bool) (children : List SResult) : DeclOK 0 0 (concatStream final children).evs := by
  simp only [concatStream]
  exact concatGo_decl final children {} 0 0
    ⟨rfl, rfl, fun s g h => by simp [Assoc.get?] at h, fun s g h => by simp [Assoc.get?] at h, fun g hg => by simp at hg, fun g hg => by simp at hg⟩

end Rs
