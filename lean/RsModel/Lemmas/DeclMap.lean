import RsModel.Lemmas.DeclTree
import RsModel.Lemmas.Replay
/-! # C11, map clause: every index of the produced map lies inside its tables -/
namespace Rs

theorem tblSet_length_next (tbl : List Text) (v : Text) : (tblSet tbl tbl.length v).length = tbl.length + 1 := by
  simp [tblSet, lmInsert]

theorem mapAcc_tables : ∀ (evs : List Ev) (ns nn : Nat) (a : MapAcc), DeclOK ns nn evs → a.sources.length = ns → a.names.length = nn →
    (evs.foldl mapAccEv a).sources.length = ns + cntS evs ∧ (evs.foldl mapAccEv a).names.length = nn + cntN evs := by
  intro evs
  induction evs with
  | nil => intro ns nn a _ h1 h2; exact ⟨h1, h2⟩
  | cons e es ih =>
    intro ns nn a hd h1 h2
    rw [List.foldl_cons]
    cases e with
    | chunk t m =>
      obtain ⟨a1, a2⟩ := ih ns nn (mapAccEv a (.chunk t m)) hd.2 h1 h2
      exact ⟨a1, a2⟩
    | source i s c =>
      obtain ⟨hi, hr⟩ := hd
      have hl : (mapAccEv a (.source i s c)).sources.length = ns + 1 := by
        simp only [mapAccEv]; rw [hi, ← h1]; exact tblSet_length_next _ _
      obtain ⟨a1, a2⟩ := ih (ns + 1) nn (mapAccEv a (.source i s c)) hr hl (by simpa [mapAccEv] using h2)
      simp only [cntS, cntN]
      exact ⟨by omega, a2⟩
    | name i n =>
      obtain ⟨hi, hr⟩ := hd
      have hl : (mapAccEv a (.name i n)).names.length = nn + 1 := by
        simp only [mapAccEv]; rw [hi, ← h2]; exact tblSet_length_next _ _
      obtain ⟨a1, a2⟩ := ih ns (nn + 1) (mapAccEv a (.name i n)) hr (by simpa [mapAccEv] using h1) hl
      simp only [cntS, cntN]
      exact ⟨a1, by omega⟩

theorem declOK_chunkMs : ∀ (evs : List Ev) (ns nn : Nat), DeclOK ns nn evs →
    ∀ m ∈ chunkMs evs, ∀ o, m.orig = some o → IdxLt (ns + cntS evs) (nn + cntN evs) o := by
  intro evs
  induction evs with
  | nil => intro ns nn _ m hm; simp [chunkMs] at hm
  | cons e es ih =>
    intro ns nn hd m hm o ho
    cases e with
    | chunk t m0 =>
      simp only [chunkMs, List.mem_cons] at hm
      simp only [cntS, cntN]
      rcases hm with rfl | hm
      · obtain ⟨h1, h2⟩ := hd.1 o ho
        exact ⟨by omega, fun k hk => by have := h2 k hk; omega⟩
      · exact ih ns nn hd.2 m hm o ho
    | source i s c =>
      simp only [chunkMs] at hm
      have := ih (ns + 1) nn hd.2 m hm o ho
      simp only [cntS, cntN]
      exact ⟨by have := this.1; omega, this.2⟩
    | name i n =>
      simp only [chunkMs] at hm
      have := ih ns (nn + 1) hd.2 m hm o ho
      simp only [cntS, cntN]
      exact ⟨this.1, fun k hk => by have := this.2 k hk; omega⟩

/-- **the map `get_map` builds from a well-announced stream references only entries of its own tables** -/
theorem mapOfEvs_idxOK (evs : List Ev) (hd : DeclOK 0 0 evs) (hs : ∀ m ∈ chunkMs evs, m.small) (hl : linesOK 1 (chunkMs evs))
    (sm : SMap) (h : mapOfEvs true evs = some sm) : MapIdxOK sm := by
  have hm := mapOfEvs_mappings evs sm h
  obtain ⟨t1, t2⟩ := mapAcc_tables evs 0 0 {} hd rfl rfl
  have hsrc : sm.sources.length = cntS evs ∧ sm.names.length = cntN evs := by
    unfold mapOfEvs at h
    dsimp only at h
    split at h
    · cases h
    · simp only [Option.some.injEq] at h
      rw [← h]
      exact ⟨by simpa using t1, by simpa using t2⟩
  intro m hmem o ho
  rw [hm, decode_encode _ hs hl] at hmem
  have := declOK_chunkMs evs 0 0 hd m ((keptFrom_sublist _ _).subset hmem) o ho
  rw [hsrc.1, hsrc.2]
  simpa using this

end Rs
