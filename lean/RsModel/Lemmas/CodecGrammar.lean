import RsModel.Lemmas.Codec
/-!
# The decoder on *any* string of the source-map v3 `mappings` grammar

`mappings  ::= line (';' line)*`, `line ::= (segment (',' segment)*)?`, `segment ::= field*`,
`field ::= (continuation digit)* final digit`.  A field may be written with any number of digits (also with
redundant leading-zero groups, which other producers emit); segments may have any number of fields.
-/
namespace Rs

/-- a field: the 5-bit groups carried by continuation digits (least significant first) and the final group -/
structure VField where
  groups : List Nat
  last : Nat

/-- its characters: `B64_CHARS[g % 32 + 32]` for each continuation digit, `B64_CHARS[last % 32]` -/
def VField.chars (f : VField) : Text := f.groups.map (fun g => b64At (g % 32 + 32)) ++ [b64At (f.last % 32)]

/-- the unsigned VLQ value it denotes -/
def VField.raw (f : VField) : Nat := undigits (f.groups ++ [f.last])

theorem undigits_append_single (gs : List Nat) (l : Nat) : undigits (gs ++ [l]) = undigits gs + 32 ^ gs.length * (l % 32) := by
  induction gs with
  | nil => simp [undigits]
  | cons g gs ih => simp only [List.cons_append, undigits, ih, List.length_cons, Nat.pow_succ]; rw [Nat.mul_add]; ac_rfl

theorem dec_vfield_go : ∀ (gs : List Nat) (l : Nat) (s : DecSt),
    decBytes s (gs.map (fun g => b64At (g % 32 + 32)) ++ [b64At (l % 32)])
      = (s.setField (s.value + undigits (gs ++ [l]) * 2 ^ s.valuePos), []) := by
  intro gs
  induction gs with
  | nil =>
    intro l s
    have hd : l % 32 < 64 := by omega
    simp only [List.map_nil, List.nil_append, decBytes, decByte_digit s _ hd, show l % 32 < 32 from Nat.mod_lt _ (by decide), if_true,
      List.append_nil, undigits, Nat.mod_mod]
    simp
  | cons g gs ih =>
    intro l s
    have hd : g % 32 + 32 < 64 := by omega
    have hnot : ¬ (g % 32 + 32 < 32) := by omega
    simp only [List.map_cons, List.cons_append, decBytes, decByte_digit s _ hd, hnot, if_false]
    rw [ih l]
    simp only [List.nil_append]
    rw [setField_congr]
    congr 2
    have e1 : (g % 32 + 32) % 32 = g % 32 := by omega
    simp only [undigits, e1, Nat.pow_add]
    have : (2:Nat)^5 = 32 := rfl
    rw [this, Nat.add_mul, Nat.add_assoc]
    congr 1
    rw [Nat.mul_assoc, Nat.mul_comm 32 (undigits (gs ++ [l]) * _), Nat.mul_assoc]

/-- the decoder consumes one field of the grammar and stores its value into the current slot -/
theorem dec_vfield (f : VField) (s : DecSt) (h0 : s.value = 0) (h1 : s.valuePos = 0) :
    decBytes s f.chars = (s.setField f.raw, []) := by
  unfold VField.chars VField.raw
  rw [dec_vfield_go]; simp [h0, h1]

/-! ## token-level decoder -/

/-- the decoder state between fields -/
def DecSt.Idle (s : DecSt) : Prop := s.value = 0 ∧ s.valuePos = 0

theorem setField_idle (s : DecSt) (v : Nat) : (s.setField v).Idle := ⟨rfl, rfl⟩

/-- all fields of a segment -/
def segFields (s : DecSt) (seg : List VField) : DecSt := seg.foldl (fun s f => s.setField f.raw) s

def segChars (seg : List VField) : Text := (seg.map VField.chars).flatten

theorem dec_segment : ∀ (seg : List VField) (s : DecSt), s.Idle → decBytes s (segChars seg) = (segFields s seg, []) ∧ (segFields s seg).Idle := by
  intro seg
  induction seg with
  | nil => intro s h; exact ⟨rfl, h⟩
  | cons f fs ih =>
    intro s h
    obtain ⟨i1, i2⟩ := ih (s.setField f.raw) (setField_idle _ _)
    simp only [segChars, List.map_cons, List.flatten_cons, segFields, List.foldl_cons] at i1 i2 ⊢
    rw [decBytes_append, dec_vfield f s h.1 h.2]
    exact ⟨by simp only [i1, List.nil_append], i2⟩

/-- the segments of one line, separated by commas: state after the last segment (still pending) and the mappings emitted -/
def lineSegs : DecSt → List (List VField) → DecSt × List Mapping
  | s, [] => (s, [])
  | s, [seg] => (segFields s seg, [])
  | s, seg :: rest =>
    let s1 := segFields s seg
    let r := lineSegs { s1 with dataPos := 0 } rest
    (r.1, s1.pending ++ r.2)

def lineChars : List (List VField) → Text
  | [] => []
  | [seg] => segChars seg
  | seg :: rest => segChars seg ++ [COMMA] ++ lineChars rest

theorem idle_with (s : DecSt) (h : s.Idle) (dp : Nat) : ({ s with dataPos := dp } : DecSt).Idle := h

theorem dec_line : ∀ (segs : List (List VField)) (s : DecSt), s.Idle →
    decBytes s (lineChars segs) = lineSegs s segs ∧ (lineSegs s segs).1.Idle := by
  intro segs
  induction segs with
  | nil => intro s h; exact ⟨rfl, h⟩
  | cons seg rest ih =>
    intro s h
    cases rest with
    | nil =>
      obtain ⟨a, b⟩ := dec_segment seg s h
      exact ⟨by simpa [lineChars, lineSegs] using a, by simpa [lineSegs] using b⟩
    | cons seg2 rest2 =>
      obtain ⟨a, b⟩ := dec_segment seg s h
      obtain ⟨i1, i2⟩ := ih { segFields s seg with dataPos := 0 } (idle_with _ b 0)
      simp only [lineChars, lineSegs]
      rw [List.append_assoc, decBytes_append, a]
      simp only [List.nil_append]
      rw [List.singleton_append, decBytes]
      simp only [decByte_comma]
      rw [i1]
      exact ⟨rfl, i2⟩

/-- all lines, separated by semicolons -/
def allLines : DecSt → List (List (List VField)) → DecSt × List Mapping
  | s, [] => (s, [])
  | s, [ln] => lineSegs s ln
  | s, ln :: rest =>
    let r1 := lineSegs s ln
    let r := allLines { r1.1 with dataPos := 0, genLine := r1.1.genLine + 1, d0 := 0 } rest
    (r.1, r1.2 ++ r1.1.pending ++ r.2)

def allChars : List (List (List VField)) → Text
  | [] => []
  | [ln] => lineChars ln
  | ln :: rest => lineChars ln ++ [SEMI] ++ allChars rest

theorem dec_all : ∀ (lns : List (List (List VField))) (s : DecSt), s.Idle →
    decBytes s (allChars lns) = allLines s lns ∧ (allLines s lns).1.Idle := by
  intro lns
  induction lns with
  | nil => intro s h; exact ⟨rfl, h⟩
  | cons ln rest ih =>
    intro s h
    cases rest with
    | nil =>
      obtain ⟨a, b⟩ := dec_line ln s h
      exact ⟨by simpa [allChars, allLines] using a, by simpa [allLines] using b⟩
    | cons ln2 rest2 =>
      obtain ⟨a, b⟩ := dec_line ln s h
      obtain ⟨i1, i2⟩ := ih { (lineSegs s ln).1 with dataPos := 0, genLine := (lineSegs s ln).1.genLine + 1, d0 := 0 } b
      simp only [allChars, allLines]
      rw [List.append_assoc, decBytes_append, a]
      rw [List.singleton_append, decBytes]
      simp only [decByte_semi]
      rw [i1]
      exact ⟨by simp only [List.append_assoc], i2⟩

/-- **the byte-level decoder is the token-level decoder on every string of the grammar** -/
theorem decode_grammar (lns : List (List (List VField))) :
    decode (allChars lns) = (allLines decInitSt lns).2 ++ (allLines decInitSt lns).1.pending := by
  unfold decode
  have h : decInitSt.Idle := by rw [decInit_eq]; exact ⟨rfl, rfl⟩
  rw [(dec_all lns decInitSt h).1]

end Rs

namespace Rs

/-! ## what a v3 string means: signed deltas added to running absolute values

The reference decoder below is the textbook reading of the format (zig-zag sign in bit 0, deltas relative to the previous
segment, the generated column reset at every `;`, segments of 1, 4 or 5 fields) with explicit range checks instead of machine
arithmetic.  Whenever it accepts a string, the crate's decoder returns the same mappings. -/

/-- zig-zag: sign in bit 0 -/
def zz (v : Nat) : Int := if v % 2 = 1 then -((v / 2 : Nat) : Int) else ((v / 2 : Nat) : Int)

/-- add a delta; reject values that leave `0 .. 2^32` or VLQs beyond 63 bits -/
def addD (cur raw : Nat) : Option Nat :=
  if raw < 2 ^ 63 ∧ 0 ≤ (cur : Int) + zz raw ∧ (cur : Int) + zz raw < 2 ^ 32 then some ((cur : Int) + zz raw).toNat else none

theorem addField_of_addD (cur raw x : Nat) (h : addD cur raw = some x) : addField cur raw = x := by
  unfold addD at h
  split at h
  · rename_i hc
    cases h
    obtain ⟨h1, h2, h3⟩ := hc
    unfold addField finalValue
    have h64 : raw % 2 ^ 64 = raw := Nat.mod_eq_of_lt (by omega)
    simp only [h64, show raw < 2 ^ 63 from h1, if_true]
    have hz : (if raw % 2 = 1 then -(((raw : Nat) : Int) / 2) else ((raw : Nat) : Int) / 2) = zz raw := by
      unfold zz; split <;> simp [Int.natCast_ediv]
    rw [hz, Int.emod_eq_of_lt h2 h3]
  · cases h

structure RefSt where
  col : Nat := 0
  src : Nat := 0
  line : Nat := 1
  ocol : Nat := 0
  name : Nat := 0

def refSeg (st : RefSt) (g : Nat) (seg : List VField) : Option (RefSt × List Mapping) :=
  match seg with
  | [] => some (st, [])
  | [c] => (addD st.col c.raw).map fun col => ({ st with col }, [⟨g, col, none⟩])
  | [c, s, l, oc] =>
    (addD st.col c.raw).bind fun col => (addD st.src s.raw).bind fun src => (addD st.line l.raw).bind fun line =>
    (addD st.ocol oc.raw).map fun ocol => ({ st with col, src, line, ocol }, [⟨g, col, some ⟨src, line, ocol, none⟩⟩])
  | [c, s, l, oc, n] =>
    (addD st.col c.raw).bind fun col => (addD st.src s.raw).bind fun src => (addD st.line l.raw).bind fun line =>
    (addD st.ocol oc.raw).bind fun ocol => (addD st.name n.raw).map fun name =>
      ({ col, src, line, ocol, name }, [⟨g, col, some ⟨src, line, ocol, some name⟩⟩])
  | _ => none

def refLine : RefSt → Nat → List (List VField) → Option (RefSt × List Mapping)
  | st, _, [] => some (st, [])
  | st, g, seg :: rest =>
    (refSeg st g seg).bind fun r => (refLine r.1 g rest).map fun r2 => (r2.1, r.2 ++ r2.2)

def refAll : RefSt → Nat → List (List (List VField)) → Option (List Mapping)
  | _, _, [] => some []
  | st, g, ln :: rest =>
    (refLine st g ln).bind fun r => (refAll { r.1 with col := 0 } (g + 1) rest).map fun ms => r.2 ++ ms

/-- decoder state and reference state agree -/
def RelRef (st : RefSt) (g : Nat) (s : DecSt) : Prop :=
  s.d0 = st.col ∧ s.d1 = st.src ∧ s.d2 = st.line ∧ s.d3 = st.ocol ∧ s.d4 = st.name ∧ s.genLine = g ∧ s.value = 0 ∧ s.valuePos = 0

theorem ref_segment (st : RefSt) (g : Nat) (s : DecSt) (seg : List VField) (hr : RelRef st g s) (hp : s.dataPos = 0)
    (st' : RefSt) (ms : List Mapping) (h : refSeg st g seg = some (st', ms)) :
    (segFields s seg).pending = ms ∧ RelRef st' g (segFields s seg) := by
  obtain ⟨r0, r1, r2, r3, r4, r5, r6, r7⟩ := hr
  match seg, h with
  | [], h =>
    simp only [refSeg, Option.some.injEq, Prod.mk.injEq] at h
    obtain ⟨rfl, rfl⟩ := h
    exact ⟨by simp [segFields, DecSt.pending, hp], r0, r1, r2, r3, r4, r5, r6, r7⟩
  | [c], h =>
    simp only [refSeg, Option.map_eq_some_iff] at h
    obtain ⟨col, hc, he⟩ := h
    cases he
    have := addField_of_addD _ _ _ hc
    refine ⟨?_, ?_⟩
    · simp [segFields, DecSt.setField, DecSt.pending, hp, r0, this, r5]
    · simp [RelRef, segFields, DecSt.setField, hp, r0, this, r1, r2, r3, r4, r5]
  | [c, sf, l, oc], h =>
    simp only [refSeg, Option.bind_eq_some_iff, Option.map_eq_some_iff] at h
    obtain ⟨col, hc, src, hs, line, hl, ocol, ho, he⟩ := h
    cases he
    have e0 := addField_of_addD _ _ _ hc
    have e1 := addField_of_addD _ _ _ hs
    have e2 := addField_of_addD _ _ _ hl
    have e3 := addField_of_addD _ _ _ ho
    refine ⟨?_, ?_⟩
    · simp [segFields, DecSt.setField, DecSt.pending, hp, r0, r1, r2, r3, e0, e1, e2, e3, r5]
    · simp [RelRef, segFields, DecSt.setField, hp, r0, r1, r2, r3, r4, r5, e0, e1, e2, e3]
  | [c, sf, l, oc, n], h =>
    simp only [refSeg, Option.bind_eq_some_iff, Option.map_eq_some_iff] at h
    obtain ⟨col, hc, src, hs, line, hl, ocol, ho, name, hn, he⟩ := h
    cases he
    have e0 := addField_of_addD _ _ _ hc
    have e1 := addField_of_addD _ _ _ hs
    have e2 := addField_of_addD _ _ _ hl
    have e3 := addField_of_addD _ _ _ ho
    have e4 := addField_of_addD _ _ _ hn
    refine ⟨?_, ?_⟩
    · simp [segFields, DecSt.setField, DecSt.pending, hp, r0, r1, r2, r3, r4, e0, e1, e2, e3, e4, r5]
    · simp [RelRef, segFields, DecSt.setField, hp, r0, r1, r2, r3, r4, r5, e0, e1, e2, e3, e4]

theorem relRef_dataPos (st : RefSt) (g : Nat) (s : DecSt) (h : RelRef st g s) (dp : Nat) : RelRef st g { s with dataPos := dp } := h

/-- one line: what has been emitted plus the still pending last segment is what the reference decoder yields -/
theorem ref_line : ∀ (segs : List (List VField)) (st : RefSt) (g : Nat) (s : DecSt), RelRef st g s → s.dataPos = 0 →
    ∀ st' ms, refLine st g segs = some (st', ms) →
      (lineSegs s segs).2 ++ (lineSegs s segs).1.pending = ms ∧ RelRef st' g (lineSegs s segs).1 := by
  intro segs
  induction segs with
  | nil =>
    intro st g s hr hp st' ms h
    simp only [refLine, Option.some.injEq, Prod.mk.injEq] at h
    obtain ⟨rfl, rfl⟩ := h
    exact ⟨by simp [lineSegs, DecSt.pending, hp], hr⟩
  | cons seg rest ih =>
    intro st g s hr hp st' ms h
    simp only [refLine, Option.bind_eq_some_iff, Option.map_eq_some_iff] at h
    obtain ⟨⟨st1, m1⟩, h1, ⟨st2, m2⟩, h2, he⟩ := h
    cases he
    obtain ⟨a, b⟩ := ref_segment st g s seg hr hp st1 m1 h1
    cases rest with
    | nil =>
      simp only [refLine, Option.some.injEq, Prod.mk.injEq] at h2
      obtain ⟨rfl, rfl⟩ := h2
      exact ⟨by simp [lineSegs, a], by simpa [lineSegs] using b⟩
    | cons seg2 rest2 =>
      obtain ⟨i1, i2⟩ := ih st1 g { segFields s seg with dataPos := 0 } (relRef_dataPos _ _ _ b 0) rfl st2 m2 h2
      simp only [lineSegs]
      exact ⟨by rw [List.append_assoc, i1, a], i2⟩

theorem ref_all : ∀ (lns : List (List (List VField))) (st : RefSt) (g : Nat) (s : DecSt), RelRef st g s → s.dataPos = 0 →
    ∀ ms, refAll st g lns = some ms → lns ≠ [] →
      (allLines s lns).2 ++ (allLines s lns).1.pending = ms := by
  intro lns
  induction lns with
  | nil => intro st g s _ _ ms _ hne; exact absurd rfl hne
  | cons ln rest ih =>
    intro st g s hr hp ms h _
    simp only [refAll, Option.bind_eq_some_iff, Option.map_eq_some_iff] at h
    obtain ⟨⟨st1, m1⟩, h1, m2, h2, he⟩ := h
    subst he
    obtain ⟨a, b⟩ := ref_line ln st g s hr hp st1 m1 h1
    cases rest with
    | nil =>
      simp only [refAll, Option.some.injEq] at h2
      subst h2
      simpa [allLines] using a
    | cons ln2 rest2 =>
      obtain ⟨b0, b1, b2, b3, b4, b5, b6, b7⟩ := b
      have hrel : RelRef { st1 with col := 0 } (g + 1)
          { (lineSegs s ln).1 with dataPos := 0, genLine := (lineSegs s ln).1.genLine + 1, d0 := 0 } :=
        ⟨rfl, b1, b2, b3, b4, by simp [b5], b6, b7⟩
      have := ih { st1 with col := 0 } (g + 1) _ hrel rfl m2 h2 (by simp)
      simp only [allLines]
      rw [List.append_assoc, this, a]

/-- **whenever the reference v3 decoder accepts a string of the grammar, `decode_mappings` returns the same mappings** -/
theorem decode_v3 (lns : List (List (List VField))) (ms : List Mapping) (h : refAll {} 1 lns = some ms) :
    decode (allChars lns) = ms := by
  rw [decode_grammar]
  by_cases hne : lns = []
  · subst hne
    simp only [refAll, Option.some.injEq] at h
    subst h
    rw [decInit_eq]; rfl
  · have hrel : RelRef {} 1 decInitSt := by rw [decInit_eq]; exact ⟨rfl, rfl, rfl, rfl, rfl, rfl, rfl, rfl⟩
    exact ref_all lns {} 1 decInitSt hrel (by rw [decInit_eq]) ms h hne

end Rs
