import RsModel.Lemmas.HistoryLines
import RsModel.Lemmas.LinesTree
/-!
# `map()` with columns = false over every call history

The text-less fill: a `get_map(columns = false)` streams the tree in text-less mode; every CachedSource stores the lines-only map of
its subtree's text-less stream.  Later calls replay it.  `getMap_lname`: C03 (columns = false) at name level — through the map's own
`sources`.  `replayLF_leaf`: the replay of such a stored map agrees with the subtree's own normal-mode stream on the first mapped
chunk of every line, and is again in the domain of C03 (columns = false).
-/
namespace Rs

/-- what a consumer of a columns = false SourceMap resolves generated line `L` to: file name (through the map's own `sources`) and
original line of the line's first mapped segment -/
def LNameM (sm : SMap) (L : Nat) : Option (Option Text × Nat) :=
  (lookupLines (decode sm.mappings) L).map fun p => (sm.sources[p.1]?, p.2)

theorem lookupLines_idx (evs : List Ev) (hd : DeclOK 0 0 evs) (L si ol : Nat) (h : lookupLines (chunkMs evs) L = some (si, ol)) : si < cntS evs := by
  unfold lookupLines at h
  cases hf : (chunkMs evs).find? (fun m => m.gl == L && m.orig.isSome) with
  | none => rw [hf] at h; cases h
  | some m =>
    rw [hf] at h
    dsimp only at h
    cases ho : m.orig with
    | none => rw [ho] at h; cases h
    | some o =>
      rw [ho] at h
      simp only [Option.map_some, Option.some.injEq, Prod.mk.injEq] at h
      have := declOK_chunkMs _ 0 0 hd m (List.mem_of_find?_eq_some hf) o ho
      rw [← h.1]
      simpa using this.1

/-- **C03, columns = false, at name level** (cold caches): every generated line resolves through the returned map — its own `sources` —
to the file name and original line of the first mapped chunk on that line of the normal-mode stream -/
theorem getMap_lname (s : Src) (h : s.ModeHypL) (hn : s.ids.Nodup) (σF σN : Store) (hcF : Cold σF s.ids) (hcN : Cold σN s.ids) (final : Bool)
    (hsmall : ∀ m ∈ chunkMs (s.stream ⟨false, true⟩ σF).1.evs, ∀ o, m.orig = some o → o.src < U31 ∧ o.line < U31)
    (sm : SMap) (hm : (getMap s ⟨false, final⟩ σF).1 = some sm) (L : Nat) (hL : 0 < L) :
    LNameM sm L = LNameOf (s.stream ⟨false, false⟩ σN).1.evs L := by
  obtain ⟨_, _, _, _, b5, _, _⟩ := Src.base_factsL s h hn σF σN hcF hcN
  have hm3 := Src.m3l s h hn σF σN hcF hcN
  have hlook := getMap_lines s h hn σF σN hcF hcN final hsmall sm hm L hL
  have hrel := mapAcc_tblRelF (s.stream ⟨false, false⟩ σN).1.evs 0 0 {} emptyS emptyN b5 ⟨rfl, rfl, fun i hi => by omega, fun i hi => by omega⟩
  obtain ⟨d1, _, _⟩ := mapAcc_decls (s.stream ⟨false, true⟩ σF).1.evs {}
  obtain ⟨e1, _, _⟩ := mapAcc_decls (s.stream ⟨false, false⟩ σN).1.evs {}
  have hsm : sm.sources = ((s.stream ⟨false, false⟩ σN).1.evs.foldl mapAccEv {}).sources := by
    simp only [getMap, mapOfEvs] at hm
    split at hm
    · cases hm
    · simp only [Option.some.injEq] at hm
      rw [← hm]
      simp only
      rw [d1, e1, hm3.decls]
  obtain ⟨_, _, r4, _⟩ := hrel
  simp only [Nat.zero_add] at r4
  unfold LNameM LNameOf
  rw [hlook]
  cases hq : lookupLines (chunkMs (s.stream ⟨false, false⟩ σN).1.evs) L with
  | none => rfl
  | some p =>
    obtain ⟨si, ol⟩ := p
    have hsi := lookupLines_idx _ b5 L si ol hq
    simp only [Option.map_some, Option.some.injEq, Prod.mk.injEq, and_true]
    rw [r4 si hsi, hsm]

/-- the replay of a lines-only map, from what the map decodes to -/
theorem replay_lines_dec (T : Text) (sm : SMap) (ms : List Mapping) (hdec : decode sm.mappings = keptLines {} ms) (hlo : linesOK 1 ms)
    (L : Nat) (h1 : 1 ≤ L) (hL : L ≤ (splitLines T).length) :
    lookupLines (chunkMs (streamSMLinesFull T sm).evs) L = lookupLines ms L := by
  unfold streamSMLinesFull
  dsimp only
  split
  · rename_i he
    have : (splitLines T).length = 0 := by simpa using he
    omega
  · simp only [chunkMs_app, chunkMs_smSourceEvs, List.nil_append]
    rw [lookupLines_append_none L _ _ (fun x hx => by
      intro ⟨_, h2⟩
      rw [chunkMs_wholeLines _ _ _ x hx] at h2; cases h2)]
    rw [smLinesFullGo_lines (splitLines T) _ 1 L (by rw [hdec]; exact keptLines_linesOK _ _ _ (linesOK_mono (Nat.zero_le _) _ hlo)) h1 hL,
      hdec, keptLines_lookup L _ {} (by simp; omega)]

theorem keptLines_sortedFrom (ms : List Mapping) (hlo : linesOK 1 ms) : sortedFrom 1 0 (keptLines {} ms) := by
  obtain ⟨a, b⟩ := keptLines_facts ms {} (linesOK_mono (Nat.zero_le 1) _ hlo)
  rw [sortedFrom_iff]
  constructor
  · intro x hx
    obtain ⟨x1, x2, _⟩ := a x hx
    have : 0 < x.gl := x2
    by_cases h : 1 < x.gl
    · exact Or.inl h
    · exact Or.inr ⟨by omega, Nat.zero_le _⟩
  · exact b.imp (fun hab => Or.inl hab)

mutual
theorem Src.strip_modeHypL : ∀ (s : Src), s.ModeHypL → s.strip.ModeHypL
  | .raw .., _ | .rawStr .., _ | .rawBuf .., _ | .orig .., _ => trivial
  | .sms .., h => h
  | .concat cs, h => by simp only [Src.ModeHypL] at h; simp only [Src.strip, Src.ModeHypL]; exact SrcList.stripL_modeHypsL cs h
  | .replace inner rs, h => by
    simp only [Src.ModeHypL] at h
    simp only [Src.strip, Src.ModeHypL]
    exact ⟨Src.strip_modeHypL inner h.1, h.2.1, by rw [Src.strip_src]; exact h.2.2⟩
  | .cached _ inner, h => by simp only [Src.ModeHypL] at h; simp only [Src.strip]; exact Src.strip_modeHypL inner h.1
theorem SrcList.stripL_modeHypsL : ∀ (l : SrcList), l.ModeHypsL → l.stripL.ModeHypsL
  | .nil, _ => trivial
  | .cons s r, h => ⟨Src.strip_modeHypL s h.1, SrcList.stripL_modeHypsL r h.2⟩
end

/-- **the replay of a lines-only map filled by a text-less stream**, streamed in normal mode -/
theorem replayLF_leaf (id : Nat) (inner : Src) (h : inner.strip.ModeHypL) (ha : IsAscii inner.src) (hl : inner.src.length ≤ USIZE_MAX)
    (hsmall : ∀ m ∈ chunkMs (inner.strip.stream ⟨false, true⟩ []).1.evs, ∀ o, m.orig = some o → o.src < U31 ∧ o.line < U31) :
    (∀ L cur, (fsl L cur inner.src (NA (((Src.cached id inner).warm ⟨false, true⟩).stream ⟨false, false⟩ []).1.evs)).map fl
      = (fsl L cur inner.src (NA (inner.strip.stream ⟨false, false⟩ []).1.evs)).map fl)
    ∧ ((Src.cached id inner).warm ⟨false, true⟩).ModeHypL := by
  have hnc := Src.strip_nc inner
  obtain ⟨hn, _, hnodes⟩ := nc_facts inner.strip hnc
  have hcold : Cold [] inner.strip.ids := cold_nil _
  obtain ⟨hpos, htok, htl, htext, hd, hdF, _⟩ := Src.base_factsL inner.strip h hn [] [] hcold hcold
  have hm3 := Src.m3l inner.strip h hn [] [] hcold hcold
  have hMN := Src.stream_mappedNE' inner.strip false []
  rw [Src.strip_src] at htext
  have hloF := linesOK_of_sorted _ 1 0 hm3.sorted
  simp only [Src.warm]
  cases hm : mapOfEvs false (inner.strip.stream ⟨false, true⟩ []).1.evs with
  | some sm =>
    have hidx := mapOfEvs_idxOK_lines _ hdF hsmall hloF sm hm
    have hdec : decode sm.mappings = keptLines {} (chunkMs (inner.strip.stream ⟨false, true⟩ []).1.evs) := by
      rw [mapOfEvs_mappings_lines _ sm hm]; exact decode_lencode _ hsmall hloF
    refine ⟨?_, ⟨fun im him => (by cases him), ha, hl, (by rw [hdec]; exact keptLines_sortedFrom _ hloF), hidx⟩⟩
    apply fsl_any_cur
    intro L
    have hwR : (Src.sms inner.src [] sm none none false).WF := textOK_of_ascii inner.src ha hl
    have hpR : (Src.sms inner.src [] sm none none false).PosHyp false := ⟨ha, hl, fun h => by cases h⟩
    have hnR : (Src.sms inner.src [] sm none none false).ids.Nodup := by simp [Src.ids, Src.cachedNodes]
    have hposR := Src.stream_posOK (Src.sms inner.src [] sm none none false) false [] hwR hpR hnR (fun p hp' => by simp [Src.cachedNodes] at hp')
    have htextR := Src.stream_text (Src.sms inner.src [] sm none none false) false [] hwR
    have hdR := stream_declOK_nc (Src.sms inner.src [] sm none none false) ⟨false, false⟩ trivial hidx
    have b1 := lfirst_eq_lname _ hposR (Src.stream_tl _ false []) (Src.stream_mappedNE' _ false []) (Src.stream_tok _ false []) hdR L
    have b2 := lfirst_eq_lname _ hpos htl hMN htok hd L
    rw [htextR] at b1
    rw [htext] at b2
    simp only [Src.src] at b1
    rw [b1, b2]
    by_cases hL : 1 ≤ L ∧ L ≤ (splitLines inner.src).length
    · have hrl := replay_lines_dec inner.src sm _ hdec hloF L hL.1 hL.2
      rw [hm3.look L] at hrl
      have hstream : ((Src.sms inner.src [] sm none none false).stream ⟨false, false⟩ []).1 = streamSMLinesFull inner.src sm := by
        simp [Src.stream, streamSM]
      rw [hstream]
      unfold LNameOf
      rw [hrl]
      cases hq : lookupLines (chunkMs (inner.strip.stream ⟨false, false⟩ []).1.evs) L with
      | none => rfl
      | some p =>
        obtain ⟨si, ol⟩ := p
        simp only [Option.map_some, Option.some.injEq, Prod.mk.injEq, and_true]
        have hsi := lookupLines_idx _ hd L si ol hq
        have hrel := mapAcc_tblRelF (inner.strip.stream ⟨false, false⟩ []).1.evs 0 0 {} emptyS emptyN hd ⟨rfl, rfl, fun i hi => by omega, fun i hi => by omega⟩
        obtain ⟨r1, _, r4, _⟩ := hrel
        simp only [Nat.zero_add] at r1 r4
        obtain ⟨d1, _, _⟩ := mapAcc_decls (inner.strip.stream ⟨false, true⟩ []).1.evs {}
        obtain ⟨e1, _, _⟩ := mapAcc_decls (inner.strip.stream ⟨false, false⟩ []).1.evs {}
        have hsm : sm.sources = ((inner.strip.stream ⟨false, false⟩ []).1.evs.foldl mapAccEv {}).sources ∧ sm.sourceRoot = none := by
          unfold mapOfEvs at hm
          dsimp only at hm
          split at hm
          · cases hm
          · simp only [Option.some.injEq] at hm
            rw [← hm]
            simp only
            rw [d1, e1, hm3.decls]
            exact ⟨rfl, by first | rfl | trivial⟩
        have hne : (splitLines inner.src).isEmpty = false := by
          cases hx : (splitLines inner.src).isEmpty with
          | false => rfl
          | true =>
            have : (splitLines inner.src).length = 0 := by simpa using hx
            omega
        have hs1 : si < sm.sources.length := by rw [hsm.1, r1]; exact hsi
        rw [streamSMLinesFull_tables inner.src sm hne si hs1, r4 si hsi, hsm.2, ← hsm.1]
        simp only [applyRoot]
        rw [List.getD_eq_getElem?_getD, List.getElem?_eq_getElem hs1]
        rfl
    · rw [← b1, ← b2]
      by_cases h0 : L < 1
      · rw [fsl_lt L _ 1 _ h0, fsl_lt L _ 1 _ h0]
      · have hbig : 1 + (splitLines inner.src).length ≤ L := by omega
        have hj := splitLines_join inner.src
        have e1 := fsl_lines_none (α := NLoc) L (splitLines inner.src) (lines_of_splitLines _) 1
        rw [hj] at e1
        rw [e1 _ hbig, e1 _ hbig]
  | none =>
    refine ⟨?_, trivial⟩
    apply fsl_any_cur
    intro L
    have b2 := lfirst_eq_lname _ hpos htl hMN htok hd L
    rw [htext] at b2
    rw [b2]
    have hposR := Src.stream_posOK (Src.rawStr inner.src) false [] trivial trivial (by simp [Src.ids, Src.cachedNodes]) (fun p hp' => by simp [Src.cachedNodes] at hp')
    have b1 := lfirst_eq_lname _ hposR (Src.stream_tl _ false []) (Src.stream_mappedNE' _ false []) (Src.stream_tok _ false [])
      (stream_declOK_nc (Src.rawStr inner.src) ⟨false, false⟩ trivial trivial) L
    rw [Src.stream_text (Src.rawStr inner.src) false [] trivial] at b1
    simp only [Src.src] at b1
    rw [b1]
    have e2 : (chunkMs ((Src.rawStr inner.src).stream ⟨false, false⟩ []).1.evs).find? (fun m => m.gl == L && m.orig.isSome) = none := by
      apply List.find?_eq_none.2
      intro m hmem
      obtain ⟨t, ht⟩ := chunkMs_mem_ev _ m hmem
      simp only [Src.stream, streamRaw, Bool.false_eq_true, if_false] at ht
      rw [rawChunks_unmapped _ _ t m ht]; simp
    have hL0 : LNameOf ((Src.rawStr inner.src).stream ⟨false, false⟩ []).1.evs L = none := by
      unfold LNameOf lookupLines; rw [e2]; rfl
    rw [hL0]
    -- the text-less stream of the subtree maps nothing, hence neither does its normal-mode stream on any line
    have henc : encodeLines (chunkMs (inner.strip.stream ⟨false, true⟩ []).1.evs) = [] := by
      unfold mapOfEvs at hm
      simp only [encodeWith, Bool.false_eq_true, if_false] at hm
      split at hm
      · rename_i he
        rw [mapAcc_ms] at he
        simpa using he
      · cases hm
    have hdec := decode_lencode _ hsmall hloF
    rw [henc] at hdec
    have hdn : decode ([] : List UInt8) = [] := by decide
    rw [hdn] at hdec
    unfold LNameOf
    by_cases h0 : L = 0
    · -- no chunk is on line 0
      subst h0
      have : lookupLines (chunkMs (inner.strip.stream ⟨false, false⟩ []).1.evs) 0 = none := by
        unfold lookupLines
        have : (chunkMs (inner.strip.stream ⟨false, false⟩ []).1.evs).find? (fun m => m.gl == 0 && m.orig.isSome) = none := by
          apply List.find?_eq_none.2
          intro m hmem
          have hge := linesOK_ge _ 1 (linesOK_of_sorted _ 1 0 (chunkMs_sorted _ [] hpos.1 htl)) m hmem
          have : (m.gl == 0) = false := by simpa using (by omega : m.gl ≠ 0)
          simp [this]
        rw [this]
      rw [this]; rfl
    · have hk := keptLines_lookup L (chunkMs (inner.strip.stream ⟨false, true⟩ []).1.evs) {} (by simpa using h0)
      rw [← hdec] at hk
      rw [← hm3.look L, ← hk]
      rfl

mutual
/-- source indices and original lines of the text-less stream of every cached subtree are below 2³¹ (the codec's domain) -/
def Src.SmallFL : Src → Prop
  | .concat cs => cs.SmallFLs
  | .cached _ inner => ∀ m ∈ chunkMs (inner.strip.stream ⟨false, true⟩ []).1.evs, ∀ o, m.orig = some o → o.src < U31 ∧ o.line < U31
  | _ => True
def SrcList.SmallFLs : SrcList → Prop
  | .nil => True
  | .cons s r => s.SmallFL ∧ r.SmallFLs
end

mutual
theorem Src.warmFL : ∀ (s : Src), s.ModeHypL → s.CachedOK → s.SmallFL → s.LeafOK true ∧ (s.warm ⟨false, true⟩).ModeHypL
  | .raw .., _, _, _ | .rawStr .., _, _, _ | .rawBuf .., _, _, _ | .orig .., _, _, _ => ⟨trivial, trivial⟩
  | .sms t n map os inner rm, h, _, _ => ⟨(Src.modeHypL_base _ h).2.2, h⟩
  | .concat cs, h, hk, hs => by
    simp only [Src.ModeHypL] at h
    simp only [Src.CachedOK] at hk
    simp only [Src.SmallFL] at hs
    simp only [Src.LeafOK, Src.warm, Src.ModeHypL]
    exact SrcList.warmFLs cs h hk hs
  | .replace inner rs, h, hk, _ => by
    simp only [Src.CachedOK] at hk
    simp only [Src.LeafOK, Src.warm]
    have hb := Src.modeHypL_base _ h
    simp only [Src.IdxHyp] at hb
    exact ⟨⟨hk, hb.2.2⟩, h⟩
  | .cached id inner, h, _, hs => by
    simp only [Src.ModeHypL] at h
    simp only [Src.SmallFL] at hs
    have hst := Src.strip_modeHypL inner h.1
    obtain ⟨a, b⟩ := replayLF_leaf id inner hst h.2.1 h.2.2 hs
    simp only [Src.LeafOK]
    exact ⟨⟨a, (Src.modeHypL_base _ b).2.2, (Src.modeHypL_base _ hst).2.2⟩, b⟩
theorem SrcList.warmFLs : ∀ (l : SrcList), l.ModeHypsL → l.CachedOKs → l.SmallFLs → l.LeafOKs true ∧ (l.warmL ⟨false, true⟩).ModeHypsL
  | .nil, _, _, _ => ⟨trivial, trivial⟩
  | .cons s r, h, hk, hs => by
    obtain ⟨a1, a2⟩ := Src.warmFL s h.1 hk.1 hs.1
    obtain ⟨b1, b2⟩ := SrcList.warmFLs r h.2 hk.2 hs.2
    exact ⟨⟨a1, b1⟩, ⟨a2, b2⟩⟩
end

/-- **every `get_map` with columns = false of every history**: each generated line resolves, through the returned map's own `sources`,
to the file name and original line of the first mapped chunk on that line of the cache-free tree's stream -/
theorem history_map_lname (s : Src) (hk : s.NoCR) (hn : s.ids.Nodup) (σ : Store) (hc : Cold σ s.ids) (h : s.ModeHypL) (hs : s.SmallFL)
    (hsmall1 : ∀ m ∈ chunkMs (s.strip.stream ⟨false, true⟩ []).1.evs, ∀ o, m.orig = some o → o.src < U31 ∧ o.line < U31)
    (hsmall2 : ∀ m ∈ chunkMs ((s.warm ⟨false, true⟩).stream ⟨false, true⟩ []).1.evs, ∀ o, m.orig = some o → o.src < U31 ∧ o.line < U31)
    (calls : List Opts) (k : Nat) (hcall : calls[k]? = some ⟨false, true⟩) :
    ∃ r, (runCalls s calls σ).1[k]? = some r ∧ ∀ sm, mapOfEvs false r.evs = some sm → ∀ L, 0 < L →
      LNameM sm L = LNameOf (s.strip.stream ⟨false, false⟩ []).1.evs L := by
  refine ⟨_, runCalls_results s hk hn σ hc calls k _ hcall, ?_⟩
  intro sm hsm L hL
  unfold answerOf at hsm
  have hck := Src.noCR_cachedOK s hk
  obtain ⟨hw, hp, _⟩ := Src.modeHypL_base s h
  split at hsm
  · obtain ⟨a1, a2⟩ := Src.warmFL s h hck hs
    have hwnc := Src.warm_nc s ⟨false, true⟩ hck
    obtain ⟨hwn, _, _⟩ := nc_facts _ hwnc
    rw [getMap_lname (s.warm ⟨false, true⟩) a2 hwn [] [] (cold_nil _) (cold_nil _) true hsmall2 sm (by simp only [getMap]; exact hsm) L hL]
    exact warmG_lname true s hw hp a1 hck L
  · have hsn := Src.strip_nc s
    obtain ⟨hn', _, _⟩ := nc_facts _ hsn
    exact getMap_lname s.strip (Src.strip_modeHypL s h) hn' [] [] (cold_nil _) (cold_nil _) true hsmall1 sm (by simp only [getMap]; exact hsm) L hL

end Rs
