import RsModel.Lemmas.ProvTree2
import RsModel.Lemmas.ModeMap
import RsModel.Lemmas.DeclMap
/-! # C04: through `map()` — every position of `source()` resolved through the returned SourceMap is right for its provenance -/
namespace Rs

mutual
theorem Src.origTree_mode : ∀ (s : Src), s.OrigTree → s.ModeHyp
  | .raw .., _ | .rawStr .., _ | .rawBuf .., _ | .orig .., _ => trivial
  | .concat cs, h => by simp only [Src.OrigTree] at h; simp only [Src.ModeHyp]; exact SrcList.origTrees_mode cs h
  | .sms .., h | .replace .., h | .cached .., h => by simp [Src.OrigTree] at h
theorem SrcList.origTrees_mode : ∀ (l : SrcList), l.OrigTrees → l.ModeHyps
  | .nil, _ => trivial
  | .cons s r, h => by simp only [SrcList.OrigTrees] at h; exact ⟨Src.origTree_mode s h.1, SrcList.origTrees_mode r h.2⟩
end

/-! ## every announced file carries its content -/

theorem allContent_append : ∀ (a b : List Ev), AllContent (a ++ b) ↔ AllContent a ∧ AllContent b := by
  intro a
  induction a with
  | nil => intro b; simp [AllContent]
  | cons e es ih =>
    intro b
    cases e with
    | chunk t m => simp only [List.cons_append, AllContent, ih]
    | source i s c => simp only [List.cons_append, AllContent, ih, and_assoc]
    | name i n => simp only [List.cons_append, AllContent, ih]

theorem allContent_chunks (P : Orig → Prop) : ∀ (evs : List Ev), ChunkOrigs P evs → AllContent evs := by
  intro evs
  induction evs with
  | nil => intro _; trivial
  | cons e es ih =>
    intro h
    obtain ⟨t, m, rfl, _⟩ := h e (by simp)
    exact ih (fun x hx => h x (by simp [hx]))

theorem concatEv_allContent (final : Bool) (st : CSt) (e : Ev) (h : AllContent [e]) : AllContent (concatEv final st e).2 := by
  cases e with
  | chunk t m =>
    obtain ⟨close, out, e1, hcl, ⟨t', mm, rfl, _⟩, _⟩ := concatEv_chunk_shape final st t m
    rw [e1, allContent_append]
    refine ⟨?_, trivial⟩
    apply allContent_chunks (fun _ => True)
    intro x hx
    obtain ⟨l, c, rfl⟩ := hcl x hx
    exact ⟨_, _, rfl, fun _ _ => trivial⟩
  | source i s c =>
    simp only [concatEv, globalSource]
    cases st.sourceMapping.get? s with
    | some g => trivial
    | none => exact ⟨h.1, trivial⟩
  | name i n =>
    simp only [concatEv, globalName]
    cases st.nameMapping.get? n <;> trivial

theorem concatEvs_allContent (final : Bool) : ∀ (evs : List Ev) (st : CSt), AllContent evs → AllContent (concatEvs final st evs).2 := by
  intro evs
  induction evs with
  | nil => intro st _; trivial
  | cons e es ih =>
    intro st h
    have hsplit : AllContent [e] ∧ AllContent es := by
      have := (allContent_append [e] es).1 (by simpa using h)
      exact this
    simp only [concatEvs]
    rw [allContent_append]
    exact ⟨concatEv_allContent final st e hsplit.1, ih _ hsplit.2⟩

theorem concatGo_allContent (final : Bool) : ∀ (cs : List SResult) (st : CSt), (∀ c ∈ cs, AllContent c.evs) → AllContent (concatGo final st cs).2 := by
  intro cs
  induction cs with
  | nil => intro st _; trivial
  | cons c cs ih =>
    intro st h
    simp only [concatGo]
    rw [allContent_append]
    refine ⟨?_, ih _ (fun x hx => h x (by simp [hx]))⟩
    simp only [concatChild]
    rw [allContent_append]
    refine ⟨concatEvs_allContent final c.evs _ (h c (by simp)), ?_⟩
    split <;> trivial

mutual
theorem Src.origTree_allContent : ∀ (s : Src) (o : Opts) (σ : Store), s.OrigTree → AllContent (s.stream o σ).1.evs
  | .raw _ _ lossy, o, σ, _ => by
    simp only [Src.stream, streamRaw]; split
    · trivial
    · exact allContent_chunks (fun _ => True) _ (rawChunks_origs _ _ _)
  | .rawStr t, o, σ, _ => by
    simp only [Src.stream, streamRaw]; split
    · trivial
    · exact allContent_chunks (fun _ => True) _ (rawChunks_origs _ _ _)
  | .rawBuf _ lossy, o, σ, _ => by
    simp only [Src.stream, streamRaw]; split
    · trivial
    · exact allContent_chunks (fun _ => True) _ (rawChunks_origs _ _ _)
  | .orig t name, o, σ, _ => by
    simp only [Src.stream, streamOriginal]
    split
    · exact ⟨rfl, allContent_chunks _ _ (origTokChunks_origs _ _ _ _)⟩
    · split
      · split
        · exact ⟨rfl, allContent_chunks _ _ (origFinalLines_origs _ _)⟩
        · exact ⟨rfl, allContent_chunks _ _ (origFinalLines_origs _ _)⟩
      · exact ⟨rfl, allContent_chunks _ _ (origLineChunks_origs _ _)⟩
  | .concat .nil, o, σ, _ => by simp only [Src.stream, concatStream, concatGo]; trivial
  | .concat (.cons s rest), o, σ, h => by
    simp only [Src.OrigTree, SrcList.OrigTrees] at h
    cases hr : rest with
    | nil => simp only [Src.stream]; exact Src.origTree_allContent s o σ h.1
    | cons s2 rest2 =>
      simp only [Src.stream, concatStream]
      apply concatGo_allContent
      intro c hc
      simp only [List.mem_cons] at hc
      rcases hc with rfl | hc
      · exact Src.origTree_allContent s o σ h.1
      · exact SrcList.origTrees_allContent (.cons s2 rest2) o _ (hr ▸ h.2) c hc
  | .sms .., _, _, h | .replace .., _, _, h | .cached .., _, _, h => by simp [Src.OrigTree] at h
theorem SrcList.origTrees_allContent : ∀ (l : SrcList) (o : Opts) (σ : Store), l.OrigTrees → ∀ c ∈ (l.streams o σ).1, AllContent c.evs
  | .nil, o, σ, _ => by intro c hc; simp [SrcList.streams] at hc
  | .cons s r, o, σ, h => by
    simp only [SrcList.OrigTrees] at h
    intro c hc
    simp only [SrcList.streams, List.mem_cons] at hc
    rcases hc with rfl | hc
    · exact Src.origTree_allContent s o σ h.1
    · exact SrcList.origTrees_allContent r o _ h.2 c hc
end

/-! ## resolving through the map's own tables -/

/-- what a consumer of the SourceMap resolves an original location to -/
def resolveM (sm : SMap) (o : Orig) : RLoc :=
  ⟨(sm.sources[o.src]?).map fun f => (f, sm.sourcesContent[o.src]?), o.line, o.col, o.name.map fun k => sm.names[k]?⟩

theorem attrOf_mem : ∀ (evs : List Ev), ∀ a ∈ attrOf evs, ∃ m ∈ chunkMs evs, a = m.orig := by
  intro evs
  induction evs with
  | nil => intro a ha; simp [attrOf] at ha
  | cons e es ih =>
    intro a ha
    cases e with
    | chunk t m =>
      cases t with
      | none =>
        obtain ⟨m', hm', e⟩ := ih a (by simpa [attrOf] using ha)
        exact ⟨m', by simp [chunkMs, hm'], e⟩
      | some t =>
        simp only [attrOf, List.mem_append, List.mem_replicate] at ha
        rcases ha with ha | ha
        · exact ⟨m, by simp [chunkMs], ha.2⟩
        · obtain ⟨m', hm', e⟩ := ih a ha
          exact ⟨m', by simp [chunkMs, hm'], e⟩
    | source i s c =>
      obtain ⟨m', hm', e⟩ := ih a (by simpa [attrOf] using ha)
      exact ⟨m', by simpa [chunkMs] using hm', e⟩
    | name i n =>
      obtain ⟨m', hm', e⟩ := ih a (by simpa [attrOf] using ha)
      exact ⟨m', by simpa [chunkMs] using hm', e⟩

/-- **C04 through `map()`**: for every tree of OriginalSource and raw leaves under ConcatSource (any nesting; a file name stands
for one content, `cons`), resolving the position of every byte of `source()` through the SourceMap returned by `get_map` (= `map()`
for such roots) and through that map's own `sources` / `sourcesContent` tables is right for the byte's provenance (`GoodN`). -/
theorem origTree_map (cons : Text → Option Text) (s : Src) (hs : s.OrigTree) (hw : Src.WD cons true s) (final : Bool)
    (hsmall : ∀ m ∈ chunkMs (s.stream ⟨true, true⟩ []).1.evs, m.small) (sm : SMap) (hm : (getMap s ⟨true, final⟩ []).1 = some sm) :
    AllGood ((attrFrom (decode sm.mappings) startPos s.src).map (Option.map (resolveM sm))) s.prov := by
  have hmode := Src.origTree_mode s hs
  obtain ⟨b1, b2, b3, b4, b5, b6, b7⟩ := Src.base_facts s hmode
  have hm3 := Src.m3 s hmode
  rw [(getMap_attr s hmode final hsmall).1 sm hm]
  -- the tables of the map are the tables the normal stream ends with
  have hAC := Src.origTree_allContent s ⟨true, false⟩ [] hs
  have hrel := mapAcc_tblRel (s.stream ⟨true, false⟩ []).1.evs 0 0 {} emptyS emptyN b5 hAC
    ⟨rfl, rfl, rfl, fun i hi => by omega, fun i hi => by omega⟩
  obtain ⟨d1, d2, d3⟩ := mapAcc_decls (s.stream ⟨true, true⟩ []).1.evs {}
  obtain ⟨e1, e2, e3⟩ := mapAcc_decls (s.stream ⟨true, false⟩ []).1.evs {}
  have hsm : sm.sources = ((s.stream ⟨true, false⟩ []).1.evs.foldl mapAccEv {}).sources
      ∧ sm.sourcesContent = ((s.stream ⟨true, false⟩ []).1.evs.foldl mapAccEv {}).contents
      ∧ sm.names = ((s.stream ⟨true, false⟩ []).1.evs.foldl mapAccEv {}).names := by
    simp only [getMap, mapOfEvs] at hm
    split at hm
    · cases hm
    · simp only [Option.some.injEq] at hm
      rw [← hm]
      simp only
      rw [d1, d2, d3, e1, e2, e3, hm3.decls]
      exact ⟨rfl, rfl, rfl⟩
  obtain ⟨r1, r2, r3, r4, r5⟩ := hrel
  -- resolving through the map = resolving through the end tables, for every location a chunk carries
  have hres : (attrOf (s.stream ⟨true, false⟩ []).1.evs).map (Option.map (resolveM sm))
      = (attrOf (s.stream ⟨true, false⟩ []).1.evs).map (Option.map (resolveO (tblS emptyS (s.stream ⟨true, false⟩ []).1.evs) (tblN emptyN (s.stream ⟨true, false⟩ []).1.evs))) := by
    apply List.map_congr_left
    intro a ha
    obtain ⟨m, hmm, rfl⟩ := attrOf_mem _ a ha
    cases ho : m.orig with
    | none => rfl
    | some o =>
      have hidx := declOK_chunkMs _ 0 0 b5 m hmm o ho
      simp only [Option.map_some, resolveM, resolveO, Option.some.injEq, RLoc.mk.injEq, true_and]
      simp only [Nat.zero_add] at hidx r4 r5
      refine ⟨?_, ?_⟩
      · rw [r4 o.src hidx.1, hsm.1, hsm.2.1]
      · cases hn : o.name with
        | none => rfl
        | some k => simp only [Option.map_some]; rw [r5 k (hidx.2 k hn), hsm.2.2]
  rw [hres, ← attrN_end_tables _ 0 0 emptyS emptyN b5]
  exact Src.prov_stream cons s hs hw []

end Rs
