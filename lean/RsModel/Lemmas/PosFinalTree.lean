import RsModel.Lemmas.PosFinalLeaves
/-! # final-mode contract: ConcatSource and whole trees -/
namespace Rs

theorem isPos_mono (A B : Text) (p : Pos) (h : IsPos A p) : IsPos (A ++ B) p := by
  obtain ⟨k, hk, he⟩ := h
  exact ⟨k, by simp; omega, by rw [List.take_append_of_le_length hk]; exact he⟩

/-- a position of the child's text, shifted to where the child starts, is a position of the whole text -/
theorem isPos_shift (gpre Tc : Text) (P : Pos) (hP : adv startPos gpre = P) (l c : Nat) (h : IsPos Tc ⟨l, c⟩) :
    IsPos (gpre ++ Tc) ⟨l + P.line - 1, if l = 1 then c + P.col else c⟩ := by
  obtain ⟨k, hk, he⟩ := h
  refine ⟨gpre.length + k, by simp; omega, ?_⟩
  rw [List.take_length_add_append, adv_append, hP, adv_shift _ P, he]

/-- the offsets of the concat walker agree with the position `P` where the current child starts -/
def FRel (st : CSt) (P : Pos) : Prop := st.lineOff + 1 = P.line ∧ st.colOff = P.col

theorem concatEv_fin (final : Bool) (st : CSt) (P : Pos) (hr : FRel st P) (gpre Tc : Text) (hP : adv startPos gpre = P) (e : Ev)
    (hpos : ∀ k ∈ evsKeys [e], IsPos Tc ⟨k.2.1, k.2.2⟩) :
    (∀ k ∈ evsKeys (concatEv final st e).2, IsPos (gpre ++ Tc) ⟨k.2.1, k.2.2⟩) ∧ FRel (concatEv final st e).1 P := by
  obtain ⟨r1, r2⟩ := hr
  cases e with
  | chunk text m =>
    have hm := hpos (text, m.gl, m.gc) (by simp [evsKeys, Ev.key])
    simp only at hm
    have hs := isPos_shift gpre Tc P hP m.gl m.gc hm
    have hclose : IsPos (gpre ++ Tc) ⟨st.lineOff + 1, st.colOff⟩ := by
      have := isPos_prefix gpre Tc
      rw [hP] at this
      rw [r1, r2]; exact this
    have hout : IsPos (gpre ++ Tc) ⟨m.gl + st.lineOff, if (m.gl == 1) = true then m.gc + st.colOff else m.gc⟩ := by
      have e1 : m.gl + P.line - 1 = m.gl + st.lineOff := by omega
      rw [e1, ← r2] at hs
      by_cases h1 : m.gl = 1
      · simpa [h1] using hs
      · simpa [h1] using hs
    simp only [concatEv]
    refine ⟨fun k hk => ?_, ⟨r1, r2⟩⟩
    rw [evsKeys_append, List.mem_append] at hk
    rcases hk with hk | hk
    · split at hk
      · simp only [evsKeys, List.filterMap_cons, Ev.key, List.filterMap_nil, List.mem_singleton] at hk
        subst hk; exact hclose
      · simp [evsKeys] at hk
    · split at hk <;>
      · simp only [evsKeys, List.filterMap_cons, Ev.key, List.filterMap_nil, List.mem_singleton] at hk
        subst hk; exact hout
  | source i s c =>
    simp only [concatEv]
    refine ⟨fun k hk => ?_, ⟨r1, r2⟩⟩
    unfold globalSource at hk; split at hk <;> simp [evsKeys, Ev.key] at hk
  | name i n =>
    simp only [concatEv]
    refine ⟨fun k hk => ?_, ⟨r1, r2⟩⟩
    unfold globalName at hk; split at hk <;> simp [evsKeys, Ev.key] at hk

theorem concatEvs_fin (final : Bool) : ∀ (evs : List Ev) (st : CSt) (P : Pos) (gpre Tc : Text), FRel st P → adv startPos gpre = P →
    (∀ k ∈ evsKeys evs, IsPos Tc ⟨k.2.1, k.2.2⟩) →
    (∀ k ∈ evsKeys (concatEvs final st evs).2, IsPos (gpre ++ Tc) ⟨k.2.1, k.2.2⟩) ∧ FRel (concatEvs final st evs).1 P := by
  intro evs
  induction evs with
  | nil => intro st P gpre Tc hr _ _; exact ⟨fun k hk => by simp [concatEvs, evsKeys] at hk, hr⟩
  | cons e es ih =>
    intro st P gpre Tc hr hP hpos
    have hpe : ∀ k ∈ evsKeys [e], IsPos Tc ⟨k.2.1, k.2.2⟩ := fun k hk => hpos k (by
      have : evsKeys (e :: es) = evsKeys [e] ++ evsKeys es := evsKeys_append [e] es
      rw [this]; exact List.mem_append_left _ hk)
    have hpes : ∀ k ∈ evsKeys es, IsPos Tc ⟨k.2.1, k.2.2⟩ := fun k hk => hpos k (by
      have : evsKeys (e :: es) = evsKeys [e] ++ evsKeys es := evsKeys_append [e] es
      rw [this]; exact List.mem_append_right _ hk)
    obtain ⟨a, b⟩ := concatEv_fin final st P hr gpre Tc hP e hpe
    obtain ⟨c, d⟩ := ih (concatEv final st e).1 P gpre Tc b hP hpes
    simp only [concatEvs]
    refine ⟨fun k hk => ?_, d⟩
    rw [evsKeys_append, List.mem_append] at hk
    rcases hk with hk | hk
    · exact a k hk
    · exact c k hk

theorem concatChild_fin (final : Bool) (st : CSt) (P : Pos) (gpre Tc : Text) (child : SResult) (hr : FRel st P) (hP : adv startPos gpre = P)
    (hc : FinOK Tc child) :
    (∀ k ∈ evsKeys (concatChild final st child).2, IsPos (gpre ++ Tc) ⟨k.2.1, k.2.2⟩)
    ∧ FRel (concatChild final st child).1 (adv startPos (gpre ++ Tc)) := by
  obtain ⟨h1, h2⟩ := hc
  have hr0 : FRel { st with sim := [], nim := [], lastMappingLine := 0 } P := hr
  obtain ⟨a, b1, b2⟩ := concatEvs_fin final child.evs _ P gpre Tc hr0 hP h1
  have hl : 1 ≤ child.info.line := by rw [h2, adv_char]; simp [startPos]
  simp only [concatChild]
  refine ⟨fun k hk => ?_, ?_, ?_⟩
  · rw [evsKeys_append, List.mem_append] at hk
    rcases hk with hk | hk
    · exact a k hk
    · split at hk
      · simp only [evsKeys, List.filterMap_cons, Ev.key, List.filterMap_nil, List.mem_singleton] at hk
        subst hk
        have := isPos_prefix gpre Tc
        rw [hP] at this
        simp only
        rw [b1, b2]; exact this
      · simp [evsKeys] at hk
  · rw [adv_append, hP, adv_shift _ P, ← h2]; simp only; omega
  · rw [adv_append, hP, adv_shift _ P, ← h2]
    simp only
    by_cases hgt : child.info.line > 1
    · have : ¬ child.info.line = 1 := by omega
      simp [hgt, this]
    · have : child.info.line = 1 := by omega
      simp [hgt, this, b2]; omega

/-- children paired with the texts they stream -/
inductive FinAll : List SResult → List Text → Prop where
  | nil : FinAll [] []
  | cons (r : SResult) (T : Text) (rs : List SResult) (Ts : List Text) : FinOK T r → FinAll rs Ts → FinAll (r :: rs) (T :: Ts)

theorem concatGo_fin (final : Bool) : ∀ (children : List SResult) (Ts : List Text), FinAll children Ts → ∀ (st : CSt) (gpre : Text),
    FRel st (adv startPos gpre) →
    (∀ k ∈ evsKeys (concatGo final st children).2, IsPos (gpre ++ Ts.flatten) ⟨k.2.1, k.2.2⟩)
    ∧ FRel (concatGo final st children).1 (adv startPos (gpre ++ Ts.flatten)) := by
  intro children Ts h
  induction h with
  | nil => intro st gpre hr; exact ⟨fun k hk => by simp [concatGo, evsKeys] at hk, by simpa [concatGo] using hr⟩
  | cons r T rs Ts hr hrs ih =>
    intro st gpre hrel
    obtain ⟨a, b⟩ := concatChild_fin final st _ gpre T r hrel rfl hr
    obtain ⟨i1, i2⟩ := ih (concatChild final st r).1 (gpre ++ T) b
    simp only [concatGo, List.flatten_cons]
    rw [← List.append_assoc]
    refine ⟨fun k hk => ?_, i2⟩
    rw [evsKeys_append, List.mem_append] at hk
    rcases hk with hk | hk
    · exact isPos_mono _ _ _ (a k hk)
    · exact i1 k hk

/-- **ConcatSource, either mode**: every reported position is a position of the concatenated text, and the end
information is its end -/
theorem concatStream_finOK (final : Bool) (children : List SResult) (Ts : List Text) (h : FinAll children Ts) :
    FinOK Ts.flatten (concatStream final children) := by
  obtain ⟨a, b1, b2⟩ := concatGo_fin final children Ts h {} [] ⟨rfl, rfl⟩
  simp only [List.nil_append] at a b1 b2
  refine ⟨a, ?_⟩
  simp only [concatStream]
  rw [b1, b2]

/-! ## whole trees -/

/-- as `StoreHyp`, for cache entries of either mode -/
def StoreHypB (c : Bool) (σ : Store) (nodes : List (Nat × Src)) : Prop :=
  ∀ p ∈ nodes, ∀ f m, σ.get? (p.1, ⟨c, f⟩) = some (some m) → c = true → MapInside p.2.src m

theorem storeHypB_normal (c : Bool) (σ : Store) (nodes : List (Nat × Src)) (h : StoreHypB c σ nodes) : StoreHyp c σ nodes :=
  fun p hp m hm hc => h p hp false m hm hc

theorem storeHypB_sub (c : Bool) (σ : Store) (a b : List (Nat × Src)) (h : StoreHypB c σ (a ++ b)) : StoreHypB c σ a ∧ StoreHypB c σ b :=
  ⟨fun p hp => h p (List.mem_append_left _ hp), fun p hp => h p (List.mem_append_right _ hp)⟩

theorem storeHypB_transfer (c : Bool) (σ σ' : Store) (nodes : List (Nat × Src)) (h : StoreHypB c σ nodes)
    (hsame : ∀ p ∈ nodes, ∀ f, σ'.get? (p.1, ⟨c, f⟩) = σ.get? (p.1, ⟨c, f⟩)) : StoreHypB c σ' nodes := by
  intro p hp f m hm hc
  rw [hsame p hp f] at hm
  exact h p hp f m hm hc

def SrcList.srcList : SrcList → List Text
  | .nil => []
  | .cons s r => s.src :: r.srcList

theorem SrcList.srcList_flatten : ∀ (l : SrcList), l.srcList.flatten = l.srcs
  | .nil => rfl
  | .cons s r => by simp [SrcList.srcList, SrcList.srcs, SrcList.srcList_flatten r]

mutual
/-- **C02 for every tree, text-less mode**: every reported position is a position of `source()`, and the returned
generated info is the position after its last character (the same the normal mode returns) -/
theorem Src.stream_finOK : ∀ (s : Src) (c : Bool) (σ : Store), s.WF → s.PosHyp c → s.ids.Nodup → StoreHypB c σ s.cachedNodes →
    FinOK s.src (s.stream ⟨c, true⟩ σ).1
  | .raw _ _ lossy, c, σ, _, _, _, _ => by simp only [Src.stream, Src.src]; exact streamRaw_finOK lossy c
  | .rawStr t, c, σ, _, _, _, _ => by simp only [Src.stream, Src.src]; exact streamRaw_finOK t c
  | .rawBuf _ lossy, c, σ, _, _, _, _ => by simp only [Src.stream, Src.src]; exact streamRaw_finOK lossy c
  | .orig t name, c, σ, _, _, _, _ => by simp only [Src.stream, Src.src]; exact streamOriginal_finOK t name c
  | .sms t name map origSrc inner remove, c, σ, _, hp, _, _ => by
    simp only [Src.PosHyp] at hp
    have hsm := streamSM_finOK t map c hp.1 hp.2.1 hp.2.2
    simp only [Src.stream, Src.src]
    cases inner with
    | none => exact hsm
    | some im => exact streamCombined_finOK t map name origSrc im remove c hsm
  | .concat .nil, c, σ, _, _, _, _ => by
    simp only [Src.stream, Src.src, SrcList.srcs]
    exact concatStream_finOK true [] [] FinAll.nil
  | .concat (.cons s rest), c, σ, hw, hp, hn, hs => by
    simp only [Src.WF, SrcList.WFs] at hw
    simp only [Src.PosHyp, SrcList.PosHyps] at hp
    simp only [Src.ids, Src.cachedNodes, SrcList.cachedNodesL, List.map_append] at hn hs
    obtain ⟨hs1, hs2⟩ := storeHypB_sub c σ _ _ hs
    have hn1 := (List.nodup_append.1 hn).1
    have hn2 := (List.nodup_append.1 hn).2.1
    have hdisj := (List.nodup_append.1 hn).2.2
    have h1 := Src.stream_finOK s c σ hw.1 hp.1 hn1 hs1
    cases hr : rest with
    | nil => simp only [Src.stream, Src.src, SrcList.srcs, List.append_nil]; exact h1
    | cons s2 rest2 =>
      simp only [Src.stream, Src.src]
      have hrest : FinAll ((SrcList.cons s2 rest2).streams ⟨c, true⟩ (s.stream ⟨c, true⟩ σ).2).1 (SrcList.cons s2 rest2).srcList := by
        refine SrcList.streams_finOK (.cons s2 rest2) c _ (hr ▸ hw.2) (hr ▸ hp.2) (hr ▸ hn2) ?_
        rw [← hr]
        apply storeHypB_transfer c σ _ _ hs2
        intro p hpm f
        apply Src.stream_store_other s _ σ
        intro hmem
        exact hdisj p.1 hmem p.1 (List.mem_map_of_mem hpm) rfl
      have := concatStream_finOK true _ _ (FinAll.cons _ _ _ _ h1 hrest)
      rw [List.flatten_cons, SrcList.srcList_flatten] at this
      simpa [SrcList.srcs] using this
  | .replace inner rs, c, σ, hw, hp, hn, hs => by
    -- a ReplaceSource streams the same way in both modes (its child is always streamed with text)
    have hN := Src.stream_posOK (.replace inner rs) c σ hw hp hn (storeHypB_normal c σ _ hs)
    have hT := Src.stream_text (.replace inner rs) c σ hw
    have hTL := Src.stream_tl (.replace inner rs) c σ
    have := finOK_of_posOK _ hN hTL
    rw [hT] at this
    simpa [Src.stream] using this
  | .cached id inner, c, σ, hw, hp, hn, hs => by
    simp only [Src.WF] at hw
    simp only [Src.PosHyp] at hp
    simp only [Src.ids, Src.cachedNodes, List.map_cons, List.nodup_cons] at hn
    simp only [Src.stream, Src.src]
    cases hg : Store.get? σ (id, ⟨c, true⟩) with
    | none =>
      simp only
      exact Src.stream_finOK inner c σ hw.1 hp.1 hn.2 (fun p hpm => hs p (by simp [Src.cachedNodes, hpm]))
    | some v =>
      cases v with
      | none => simp only; exact streamRaw_finOK inner.src c
      | some m =>
        simp only
        exact streamSM_finOK inner.src m c hp.2.1 hp.2.2 (fun hc => hs (id, inner) (by simp [Src.cachedNodes]) true m hg hc)
theorem SrcList.streams_finOK : ∀ (l : SrcList) (c : Bool) (σ : Store), l.WFs → l.PosHyps c → l.idsL.Nodup → StoreHypB c σ l.cachedNodesL →
    FinAll (l.streams ⟨c, true⟩ σ).1 l.srcList
  | .nil, c, σ, _, _, _, _ => by simp only [SrcList.streams, SrcList.srcList]; exact FinAll.nil
  | .cons s rest, c, σ, hw, hp, hn, hs => by
    simp only [SrcList.WFs] at hw
    simp only [SrcList.PosHyps] at hp
    simp only [SrcList.idsL, SrcList.cachedNodesL, List.map_append] at hn hs
    obtain ⟨hs1, hs2⟩ := storeHypB_sub c σ _ _ hs
    have hn1 := (List.nodup_append.1 hn).1
    have hn2 := (List.nodup_append.1 hn).2.1
    have hdisj := (List.nodup_append.1 hn).2.2
    simp only [SrcList.streams, SrcList.srcList]
    refine FinAll.cons _ _ _ _ (Src.stream_finOK s c σ hw.1 hp.1 hn1 hs1) ?_
    refine SrcList.streams_finOK rest c _ hw.2 hp.2 hn2 ?_
    apply storeHypB_transfer c σ _ _ hs2
    intro p hpm f
    apply Src.stream_store_other s _ σ
    intro hmem
    exact hdisj p.1 hmem p.1 (List.mem_map_of_mem hpm) rfl
end

/-- both modes return the same generated info -/
theorem Src.stream_info_modes (s : Src) (c : Bool) (σ σ' : Store) (hw : s.WF) (hp : s.PosHyp c) (hn : s.ids.Nodup)
    (hs : StoreHypB c σ s.cachedNodes) (hs' : StoreHypB c σ' s.cachedNodes) :
    (s.stream ⟨c, true⟩ σ).1.info = (s.stream ⟨c, false⟩ σ').1.info := by
  rw [(Src.stream_finOK s c σ hw hp hn hs).2, (Src.stream_posOK s c σ' hw hp hn (storeHypB_normal c σ' _ hs')).2,
    Src.stream_text s c σ' hw]

end Rs
