import RsModel.Model.Rope
/-! # Rope: invariant (offsets are prefix sums), rendering of the constructors -/
namespace Rs
namespace Rope

/-- the recorded start offsets are the prefix sums of the piece lengths, starting at `start` -/
def OffsOK : Nat → List (Text × Nat) → Prop
  | _, [] => True
  | s, (c, o) :: rest => o = s ∧ OffsOK (s + c.length) rest

def Inv : Rope → Prop
  | .light _ => True
  | .full ps => OffsOK 0 ps

def total (ps : List (Text × Nat)) : Nat := (ps.map (·.1.length)).sum

theorem total_append (a b : List (Text × Nat)) : total (a ++ b) = total a + total b := by
  simp [total, List.sum_append]

theorem render_length_full (ps : List (Text × Nat)) : (Rope.full ps).render.length = total ps := by
  simp only [render, total]
  induction ps with
  | nil => rfl
  | cons p ps ih => simp [ih]

theorem offsOK_append (s : Nat) (a b : List (Text × Nat)) :
    OffsOK s (a ++ b) ↔ OffsOK s a ∧ OffsOK (s + total a) b := by
  induction a generalizing s with
  | nil => simp [OffsOK, total]
  | cons p ps ih =>
    obtain ⟨c, o⟩ := p
    simp only [List.cons_append, OffsOK, ih, total, List.map_cons, List.sum_cons]
    constructor
    · rintro ⟨h1, h2, h3⟩; exact ⟨⟨h1, h2⟩, by simpa [Nat.add_assoc] using h3⟩
    · rintro ⟨⟨h1, h2⟩, h3⟩; exact ⟨h1, h2, by simpa [Nat.add_assoc] using h3⟩

/-- under the invariant the recorded end equals the total length -/
theorem endOf_eq (s : Nat) (ps : List (Text × Nat)) (h : OffsOK s ps) (hne : ps ≠ []) : endOf ps = s + total ps := by
  induction ps generalizing s with
  | nil => exact absurd rfl hne
  | cons p rest ih =>
    obtain ⟨c, o⟩ := p
    obtain ⟨h1, h2⟩ := h
    cases rest with
    | nil => simp [endOf, total, h1]
    | cons q rest' =>
      have := ih (s + c.length) h2 (by simp)
      simp only [endOf, List.getLast?_cons_cons] at this ⊢
      rw [this]; simp [total]; omega

theorem len_eq_render (r : Rope) (h : r.Inv) : r.len = r.render.length := by
  cases r with
  | light s => rfl
  | full ps =>
    rw [render_length_full]
    by_cases hne : ps = []
    · subst hne; rfl
    · show endOf ps = total ps
      simpa using endOf_eq 0 ps h hne

/-! ## constructors -/

theorem render_new : Rope.new.render = [] := rfl
theorem inv_new : Rope.new.Inv := trivial

theorem render_add (r : Rope) (v : Text) : (r.add v).render = r.render ++ v := by
  unfold add
  split
  · rename_i h; simp at h; simp [h]
  · cases r with
    | light s => simp [render]
    | full ps => simp [render]

theorem inv_add (r : Rope) (v : Text) (h : r.Inv) : (r.add v).Inv := by
  unfold add
  split
  · exact h
  · cases r with
    | light s => simp [Inv, OffsOK]
    | full ps =>
      simp only [Inv]
      rw [offsOK_append]
      refine ⟨h, ?_⟩
      by_cases hne : ps = []
      · subst hne; simp [OffsOK, endOf, total]
      · simp [OffsOK, endOf_eq 0 ps h hne]

theorem pushAll_spec (acc : List (Text × Nat)) (l : Nat) (os : List (Text × Nat)) :
    ∃ os', pushAll acc l os = acc ++ os' ∧ os'.map (·.1) = os.map (·.1) ∧ OffsOK l os' := by
  induction os generalizing acc l with
  | nil => exact ⟨[], by simp [pushAll], rfl, trivial⟩
  | cons p rest ih =>
    obtain ⟨c, o⟩ := p
    obtain ⟨os', h1, h2, h3⟩ := ih (acc ++ [(c, l)]) (l + c.length)
    exact ⟨(c, l) :: os', by simp [pushAll, h1], by simp [h2], ⟨rfl, h3⟩⟩

theorem render_append (a b : Rope) : (a.append b).render = a.render ++ b.render := by
  cases a with
  | light s =>
    cases b with
    | light o =>
      simp only [append]; split
      · rename_i h; simp at h; simp [render, h]
      · simp [render]
    | full os =>
      simp only [append]; split
      · rename_i h; simp at h; simp [render, h]
      · obtain ⟨os', h1, h2, _⟩ := pushAll_spec [(s, 0)] s.length os
        simp [render, h1, h2]
  | full ps =>
    cases b with
    | light o =>
      simp only [append]; split
      · rename_i h; simp at h; simp [render, h]
      · simp [render]
    | full os =>
      simp only [append]; split
      · rename_i h; simp at h; simp [render, h]
      · obtain ⟨os', h1, h2, _⟩ := pushAll_spec ps (endOf ps) os
        simp [render, h1, h2]

theorem inv_append (a b : Rope) (ha : a.Inv) (hb : b.Inv) : (a.append b).Inv := by
  cases a with
  | light s =>
    cases b with
    | light o => simp only [append]; split <;> simp [Inv, OffsOK]
    | full os =>
      simp only [append]; split
      · exact hb
      · obtain ⟨os', h1, _, h3⟩ := pushAll_spec [(s, 0)] s.length os
        simp only [Inv, h1]
        rw [offsOK_append]
        exact ⟨by simp [OffsOK], by simpa [total] using h3⟩
  | full ps =>
    cases b with
    | light o =>
      simp only [append]; split
      · exact ha
      · simp only [Inv]; rw [offsOK_append]
        refine ⟨ha, ?_⟩
        by_cases hne : ps = []
        · subst hne; simp [OffsOK, endOf, total]
        · simp [OffsOK, endOf_eq 0 ps ha hne]
    | full os =>
      simp only [append]; split
      · exact ha
      · obtain ⟨os', h1, _, h3⟩ := pushAll_spec ps (endOf ps) os
        simp only [Inv, h1]
        rw [offsOK_append]
        refine ⟨ha, ?_⟩
        by_cases hne : ps = []
        · subst hne; simpa [endOf, total] using h3
        · simpa [endOf_eq 0 ps ha hne] using h3

theorem fromIterGo_spec (l : Nat) (cs : List Text) :
    ((fromIterGo l cs).map (·.1)).flatten = cs.flatten ∧ OffsOK l (fromIterGo l cs) ∧ ∀ p ∈ fromIterGo l cs, p.1 ≠ [] := by
  induction cs generalizing l with
  | nil => simp [fromIterGo, OffsOK]
  | cons c cs ih =>
    simp only [fromIterGo]
    split
    · rename_i h; simp at h; subst h; simpa using ih l
    · rename_i h
      obtain ⟨h1, h2, h3⟩ := ih (l + c.length)
      refine ⟨by simp [h1], ⟨rfl, h2⟩, ?_⟩
      intro p hp
      simp only [List.mem_cons] at hp
      rcases hp with rfl | hp
      · simpa using h
      · exact h3 p hp

theorem render_fromIter (cs : List Text) : (fromIter cs).render = cs.flatten := (fromIterGo_spec 0 cs).1
theorem inv_fromIter (cs : List Text) : (fromIter cs).Inv := (fromIterGo_spec 0 cs).2.1

theorem isEmpty_eq (r : Rope) : r.isEmpty = r.render.isEmpty := by
  cases r with
  | light s => rfl
  | full ps =>
    simp only [isEmpty, render]
    induction ps with
    | nil => rfl
    | cons p ps ih =>
      obtain ⟨c, o⟩ := p
      simp only [List.all_cons, List.map_cons, List.flatten_cons, ih]
      cases c <;> simp

end Rope
end Rs
