import RsModel.Lemmas.TrapsDomain
import RsModel.Lemmas.MappedNE
/-!
# C17: `OriginalSource::stream_chunks` cannot trap

The `u32` line and column counters (`line += 1`, `column += token.len() as u32`, `line - 1`) stay below the text length plus one.
-/
namespace Rs
namespace Chk

theorem origTokChunksC_eq (final : Bool) : ∀ (toks : List Text) (l c : Nat), (∀ x ∈ toks, x ≠ []) →
    l + toks.length < 2 ^ 32 → c + toks.flatten.length < 2 ^ 32 →
    origTokChunksC final l c toks = some (origTokChunks final l c toks) := by
  intro toks
  induction toks with
  | nil => intro l c _ _ _; rfl
  | cons tok toks ih =>
    intro l c hne hl hc
    have hne' : ∀ x ∈ toks, x ≠ [] := fun x hx => hne x (List.mem_cons_of_mem _ hx)
    simp only [List.length_cons, List.flatten_cons, List.length_append] at hl hc
    simp only [origTokChunksC, origTokChunks]
    by_cases he : endsWithNL tok = true
    · simp only [he, if_true]
      rw [add32_one l (by omega)]
      simp only []
      rw [ih (l + 1) 0 hne' (by omega) (by omega)]
    · simp only [he, Bool.false_eq_true, if_false]
      have hlt : tok.length < 2 ^ 32 := by omega
      have ha : add32 c (tok.length % 2 ^ 32) = some (c + tok.length) := by
        rw [Nat.mod_eq_of_lt hlt]; simp [add32]; omega
      rw [ha]
      simp only []
      rw [ih l (c + tok.length) hne' (by omega) (by omega)]

theorem origLineChunksC_eq : ∀ (ts : List Text) (l : Nat), l + ts.length < 2 ^ 32 →
    origLineChunksC l ts = some (origLineChunks l ts, l + ts.length) := by
  intro ts
  induction ts with
  | nil => intro l _; rfl
  | cons t ts ih =>
    intro l h
    simp only [origLineChunksC, origLineChunks, List.length_cons] at h ⊢
    rw [add32_one l (by omega)]
    simp only []
    rw [ih (l + 1) (by omega)]
    simp only [Option.some.injEq, Prod.mk.injEq, true_and]
    omega

theorem length_le_of_ne : ∀ (L : List Text), (∀ x ∈ L, x ≠ []) → L.length ≤ L.flatten.length := by
  intro L
  induction L with
  | nil => intro _; exact Nat.le_refl _
  | cons x xs ih =>
    intro h
    have hx : 0 < x.length := List.length_pos_iff.2 (h x (by simp))
    have := ih (fun y hy => h y (List.mem_cons_of_mem _ hy))
    simp only [List.length_cons, List.flatten_cons, List.length_append]
    omega

/-- **`OriginalSource::stream_chunks` cannot panic**, every text below 4 GiB, all four modes -/
theorem streamOriginalC_total (t name : Text) (o : Opts) (ht : t.length + 1 < 2 ^ 32) :
    streamOriginalC t name o = some (streamOriginal t name o) := by
  unfold streamOriginalC streamOriginal
  by_cases hc : o.columns = true
  · simp only [hc, if_true]
    have hj := tokens_join t
    have hn := tokens_ne t
    have hlen := length_le_of_ne (tokens t) hn
    rw [hj] at hlen
    rw [origTokChunksC_eq o.final (tokens t) 1 0 hn (by omega) (by rw [hj]; omega)]
  · simp only [hc, Bool.false_eq_true, if_false]
    by_cases hf : o.final = true
    · simp only [hf, if_true]
      split <;> rfl
    · simp only [hf, Bool.false_eq_true, if_false]
      have hcnt := splitLines_count t
      rw [origLineChunksC_eq (splitLines t) 1 (by omega)]
      simp only []
      unfold lineLoopInfo
      cases hl : (splitLines t).getLast? with
      | none =>
        simp only []
        have : splitLines t = [] := List.getLast?_eq_none_iff.1 hl
        rw [this]; rfl
      | some last =>
        simp only []
        have hxl : last.length < 2 ^ 32 := by
          have := splitLines_line_le t last (List.mem_of_getLast? hl)
          omega
        by_cases he : endsWithNL last = true
        · simp only [he, Bool.not_true, Bool.false_eq_true, if_false, if_true]
          rw [Nat.add_comm]
        · simp only [he, Bool.not_false, if_true, if_false, Bool.false_eq_true]
          have hpos : 1 ≤ 1 + (splitLines t).length := by omega
          rw [sub_one _ hpos, Nat.mod_eq_of_lt hxl]
          simp only [Nat.add_sub_cancel_left]

end Chk
end Rs
