import RsModel.Lemmas.ProvBytes
import RsModel.Lemmas.ProvLines
import RsModel.Lemmas.LeavesAttr
/-!
# C04 for the bundler shape: ReplaceSource nodes over OriginalSource trees, anywhere under ConcatSource nodes

`ProvQ Q S evs`: every mapped chunk names a file of the table with its content `T`, and `Q T text line col` holds — a statement
about the chunk's text and its original line and column relative to `T` only.  It is kept by ConcatSource (which changes source
and name indices, nothing else).  With `Q = TrueQ G` — the chunk stands at the true position of a byte `q` of `T` and is the piece
`T[q..q')` inside one potential token, or a generated line satisfying `G` — it holds for OriginalSource (whole tokens), raw text
(unmapped) and ReplaceSource over a tree of those (`rEvs_provQ`), hence for every tree built from them with ConcatSource.
-/
namespace Rs

def ProvQ (Q : Text → Option Text → Nat → Nat → Prop) : SrcTbl → List Ev → Prop
  | _, [] => True
  | S, .chunk t m :: es => (∀ a, m.orig = some a → ∃ name T, S a.src = some (name, some T) ∧ Q T t a.line a.col) ∧ ProvQ Q S es
  | S, .source i s c :: es => ProvQ Q (upd S i (s, c)) es
  | S, .name _ _ :: es => ProvQ Q S es

theorem provQ_append (Q : Text → Option Text → Nat → Nat → Prop) : ∀ (a b : List Ev) (S : SrcTbl),
    ProvQ Q S (a ++ b) ↔ ProvQ Q S a ∧ ProvQ Q (tblS S a) b := by
  intro a
  induction a with
  | nil => intro b S; simp [ProvQ, tblS]
  | cons e es ih =>
    intro b S
    cases e with
    | chunk t m => simp only [List.cons_append, ProvQ, tblS, ih, and_assoc]
    | source i s c => simp only [List.cons_append, ProvQ, tblS, ih]
    | name i n => simp only [List.cons_append, ProvQ, tblS, ih]

theorem provQ_mono (Q Q' : Text → Option Text → Nat → Nat → Prop) (h : ∀ T t l c, Q T t l c → Q' T t l c) :
    ∀ (evs : List Ev) (S : SrcTbl), ProvQ Q S evs → ProvQ Q' S evs := by
  intro evs
  induction evs with
  | nil => intro _ _; trivial
  | cons e es ih =>
    intro S hp
    cases e with
    | chunk t m => exact ⟨fun a ha => (by obtain ⟨name, T, h1, h2⟩ := hp.1 a ha; exact ⟨name, T, h1, h _ _ _ _ h2⟩), ih S hp.2⟩
    | source i s c => exact ih _ hp
    | name i n => exact ih _ hp

theorem provQ_unmapped (Q : Text → Option Text → Nat → Nat → Prop) : ∀ (evs : List Ev) (S : SrcTbl),
    (∀ e ∈ evs, ∃ t m, e = Ev.chunk t m ∧ m.orig = none) → ProvQ Q S evs := by
  intro evs
  induction evs with
  | nil => intro S _; trivial
  | cons e es ih =>
    intro S h
    obtain ⟨t, m, rfl, hm⟩ := h e (by simp)
    exact ⟨fun a ha => (by rw [hm] at ha; cases ha), ih S (fun x hx => h x (by simp [hx]))⟩

/-! ### ConcatSource -/

theorem concatEv_provQ (Q : Text → Option Text → Nat → Nat → Prop) (cons : Text → Option Text) (st : CSt) (S Sc : SrcTbl) (N Nc : NameTbl) (e : Ev) (rest : List Ev)
    (hg : GInv cons st S N) (hc : CInv st Sc Nc S N) (hd : WellDecl cons Sc Nc (e :: rest)) (hTL : e.textless = false)
    (hp : ProvQ Q Sc [e]) : ProvQ Q S (concatEv false st e).2 := by
  cases e with
  | chunk text m =>
    cases text with
    | none => simp [Ev.textless] at hTL
    | some t =>
      obtain ⟨hdm, _⟩ := hd
      cases ho : m.orig with
      | none =>
        simp only [concatEv, hg.nc, ho, Bool.false_and, Bool.false_eq_true, if_false, List.nil_append, Option.bind_none]
        exact ⟨fun a ha => (by cases ha), trivial⟩
      | some o =>
        obtain ⟨name, T, p1, p2⟩ := hp.1 o ho
        obtain ⟨g, g1, g2, _⟩ := hc.src o.src name (some T) p1
        simp only [concatEv, hg.nc, ho, Bool.false_and, Bool.false_eq_true, if_false, List.nil_append, Option.bind_some, g1]
        refine ⟨fun a ha => ?_, trivial⟩
        simp only [Option.some.injEq] at ha
        subst ha
        exact ⟨name, T, g2, by simpa using p2⟩
  | source i s c =>
    simp only [concatEv]
    unfold globalSource
    split <;> trivial
  | name i n =>
    simp only [concatEv]
    unfold globalName
    split <;> trivial

theorem concatEvs_provQ (Q : Text → Option Text → Nat → Nat → Prop) (cons : Text → Option Text) : ∀ (evs : List Ev) (st : CSt) (S Sc : SrcTbl) (N Nc : NameTbl),
    GInv cons st S N → CInv st Sc Nc S N → WellDecl cons Sc Nc evs → evsTL evs = false → ProvQ Q Sc evs →
    ProvQ Q S (concatEvs false st evs).2 := by
  intro evs
  induction evs with
  | nil => intro st S Sc N Nc _ _ _ _ _; trivial
  | cons e es ih =>
    intro st S Sc N Nc hg hc hd hTL hp
    simp only [evsTL_cons, Bool.or_eq_false_iff] at hTL
    obtain ⟨_, a2, a3, a4⟩ := concatEv_attrN cons st S Sc N Nc e es hg hc hd hTL.1
    have hp' : ProvQ Q Sc [e] ∧ ProvQ Q (tblS Sc [e]) es := (provQ_append Q [e] es Sc).1 hp
    simp only [concatEvs]
    rw [provQ_append]
    exact ⟨concatEv_provQ Q cons st S Sc N Nc e es hg hc hd hTL.1 hp'.1, ih _ _ _ _ _ a2 a3 a4 hTL.2 hp'.2⟩

theorem concatGo_provQ (Q : Text → Option Text → Nat → Nat → Prop) (cons : Text → Option Text) : ∀ (children : List SResult) (st : CSt) (S : SrcTbl) (N : NameTbl),
    GInv cons st S N → (∀ c ∈ children, WellDecl cons emptyS emptyN c.evs ∧ evsTL c.evs = false ∧ ProvQ Q emptyS c.evs) →
    ProvQ Q S (concatGo false st children).2 := by
  intro children
  induction children with
  | nil => intro st S N _ _; trivial
  | cons c cs ih =>
    intro st S N hg hc
    obtain ⟨hd, hTL, hp⟩ := hc c (by simp)
    have hg0 : GInv cons { st with sim := [], nim := [], lastMappingLine := 0 } S N := ⟨hg.srcs, hg.names, hg.nc⟩
    obtain ⟨_, a2⟩ := concatEvs_attrN cons c.evs _ S emptyS N emptyN hg0 (cinv_fresh st S N) hd hTL
    have w := concatEvs_provQ Q cons c.evs _ S emptyS N emptyN hg0 (cinv_fresh st S N) hd hTL hp
    simp only [concatGo, concatChild, a2.nc, Bool.false_and, Bool.false_eq_true, if_false, List.append_nil, Bool.or_self]
    rw [provQ_append]
    exact ⟨w, ih _ _ _ ⟨a2.srcs, a2.names, rfl⟩ (fun x hx => hc x (by simp [hx]))⟩

/-- a ConcatSource keeps what its children's mapped chunks say about their files -/
theorem concatStream_provQ (Q : Text → Option Text → Nat → Nat → Prop) (cons : Text → Option Text) (children : List SResult)
    (h : ∀ c ∈ children, WellDecl cons emptyS emptyN c.evs ∧ evsTL c.evs = false ∧ ProvQ Q emptyS c.evs) :
    ProvQ Q emptyS (concatStream false children).evs := by
  simp only [concatStream]
  exact concatGo_provQ Q cons children {} emptyS emptyN
    ⟨fun s g h => by simp [Assoc.get?] at h, fun n g h => by simp [Assoc.get?] at h, rfl⟩ h


/-! ### what a mapped chunk says: the true position of a byte of its file, and a piece of that file or generated text -/

def TrueQ (G : Text → Prop) (T : Text) (t : Option Text) (l c : Nat) : Prop :=
  ∃ q, q < T.length ∧ adv startPos (T.take q) = ⟨l, c⟩
    ∧ ((∃ q', q < q' ∧ q' ≤ T.length ∧ t = some (bsub T q q') ∧ (∀ j, j < q' - q → adv startPos (T.take (q + j)) = ⟨l, c + j⟩)
          ∧ ∃ tok k0 l0 c0, TokPos T tok l0 c0 k0 ∧ k0 ≤ q ∧ q' ≤ k0 + tok.length)
       ∨ (∃ cl, t = some cl ∧ G cl))

theorem trueQ_mono (G G' : Text → Prop) (h : ∀ cl, G cl → G' cl) (T : Text) (t : Option Text) (l c : Nat) (hq : TrueQ G T t l c) : TrueQ G' T t l c := by
  obtain ⟨q, h1, h2, h3⟩ := hq
  refine ⟨q, h1, h2, ?_⟩
  rcases h3 with h3 | ⟨cl, e, g⟩
  · exact Or.inl h3
  · exact Or.inr ⟨cl, e, h cl g⟩

theorem trueQ_of_tokPos (G : Text → Prop) (T tok : Text) (l c k : Nat) (h : TokPos T tok l c k) : TrueQ G T (some tok) l c := by
  have hlen : k + tok.length ≤ T.length := by
    obtain ⟨r, hr⟩ := h.pre
    have := congrArg List.length hr
    have hk := h.lt
    simp only [List.length_append, List.length_drop] at this
    omega
  have hpos : 0 < tok.length := List.length_pos_iff.2 h.ne
  refine ⟨k, h.lt, h.pos, Or.inl ⟨k + tok.length, by omega, hlen, ?_, ?_, tok, k, l, c, h, Nat.le_refl _, Nat.le_refl _⟩⟩
  · have := bsub_of_prefix_drop T tok k 0 tok.length h.pre (Nat.le_refl _)
    simp only [Nat.add_zero] at this
    rw [← this]
    simp [bsub]
  · intro j hj
    exact (tokPos_advance T tok l c k j h (by omega)).2

theorem provOK_provQ (G : Text → Prop) : ∀ (evs : List Ev) (S : SrcTbl), ProvOK S evs → ProvQ (TrueQ G) S evs := by
  intro evs
  induction evs with
  | nil => intro _ _; trivial
  | cons e es ih =>
    intro S hp
    cases e with
    | chunk t m =>
      refine ⟨fun a ha => ?_, ih S hp.2⟩
      obtain ⟨name, T, tok, k, h1, h2, h3, _⟩ := hp.1 a ha
      subst h2
      exact ⟨name, T, h1, trueQ_of_tokPos G T tok a.line a.col k h3⟩
    | source i s c => exact ih _ hp
    | name i n => exact ih _ hp

theorem provQ_noSrc (Q : Text → Option Text → Nat → Nat → Prop) : ∀ (l : List Ev) (S : SrcTbl), NoSrc l →
    (∀ t m, Ev.chunk t m ∈ l → ∀ a, m.orig = some a → ∃ name T, S a.src = some (name, some T) ∧ Q T t a.line a.col) → ProvQ Q S l := by
  intro l
  induction l with
  | nil => intro _ _ _; trivial
  | cons e es ih =>
    intro S hn h
    have hn' : NoSrc es := fun i s c hm => hn i s c (List.mem_cons_of_mem _ hm)
    cases e with
    | chunk t m => exact ⟨h t m (by simp), ih S hn' (fun t' m' hm => h t' m' (List.mem_cons_of_mem _ hm))⟩
    | name i n => exact ih S hn' (fun t' m' hm => h t' m' (List.mem_cons_of_mem _ hm))
    | source i s c => exact absurd (List.mem_cons_self) (hn i s c)

/-- **ReplaceSource over a stream of tokens at their true positions**: every chunk it delivers is at the true position of a byte
of its file and is the piece of the file starting there (inside one potential token), or a line of a replacement's content -/
theorem rEvs_provQ (RS : List Repl) :
    ∀ (evs : List Ev) (st : RSt) (S : SrcTbl), CT st S → ProvOK S evs →
    (∀ i name T, S i = some (name, some T) → IsAscii T ∧ T.length < USIZE_MAX) →
    (∀ i s T, Ev.source i s (some T) ∈ evs → IsAscii T ∧ T.length < USIZE_MAX) →
    (∀ r ∈ st.rest, r ∈ RS) →
    ProvQ (TrueQ fun cl => ∃ r ∈ RS, cl ∈ splitLines r.content) S (rEvs st evs).2 := by
  intro evs
  induction evs with
  | nil => intro st S _ _ _ _ _; trivial
  | cons e es ih =>
    intro st S hct hp hS hE hrest
    have hE' : ∀ i s T, Ev.source i s (some T) ∈ es → IsAscii T ∧ T.length < USIZE_MAX := fun i s T hm => hE i s T (List.mem_cons_of_mem _ hm)
    simp only [rEvs]
    rw [provQ_append]
    cases e with
    | chunk t m =>
      simp only [rEv]
      have hns := rOnChunk_noSrc st (t.getD []) m
      constructor
      · apply provQ_noSrc _ _ S hns
        intro t' mm hmem y hy
        cases hmo : m.orig with
        | none =>
          have := ((rOnChunk_keeps st (t.getD []) m).1 _ mm hmem).1 hmo
          rw [this] at hy; cases hy
        | some a =>
          obtain ⟨name, T, tok, k, p1, p2, p3, _⟩ := hp.1 a hmo
          subst p2
          obtain ⟨hTa, hTl⟩ := hS a.src name T p1
          have hfm := fm_of_tokPos T hTa hTl tok a k p3 st.contents (hct a.src name (some T) p1)
          obtain ⟨p, hpl, ⟨y', y1, y2, y3, y4⟩, hkind⟩ := (rOnChunk_adv RS st tok p3.ne m a hmo hfm hrest).1 _ mm hmem
          rw [y1] at hy
          simp only [Option.some.injEq] at hy
          subst hy
          obtain ⟨q1, q2⟩ := tokPos_advance T tok a.line a.col k p p3 hpl
          refine ⟨name, T, by rw [y2]; exact p1, k + p, q1, by rw [y3, y4]; exact q2, ?_⟩
          rcases hkind with ⟨q, hq1, hq2, hq3⟩ | ⟨r, hr, cl, hcl, hq3⟩
          · refine Or.inl ⟨k + q, by omega, ?_, by rw [hq3, bsub_of_prefix_drop T tok k p q p3.pre hq2], ?_, tok, k, a.line, a.col, p3, by omega, by omega⟩
            · obtain ⟨r, hr⟩ := p3.pre
              have := congrArg List.length hr
              simp only [List.length_append, List.length_drop] at this
              omega
            · intro j hj
              have := (tokPos_advance T tok a.line a.col k (p + j) p3 (by omega)).2
              rw [y3, y4, Nat.add_assoc k p j, this, Nat.add_assoc]
          · exact Or.inr ⟨cl, hq3, r, hr, hcl⟩
      · rw [tblS_noSrc _ S hns]
        have hct' : CT (rOnChunk st (t.getD []) m).1 S := by
          intro i name c hi
          rw [(rOnChunk_keeps st (t.getD []) m).2.1]
          exact hct i name c hi
        exact ih _ S hct' hp.2 hS hE' (fun r hr => hrest r (rOnChunk_restSub st (t.getD []) m r hr))
    | source i s c =>
      simp only [rEv, ProvQ, tblS]
      have hct' : CT ({ st with contents := lmInsert none st.contents i c } : RSt) (upd S i (s, c)) := by
        intro j name cc hj
        unfold upd at hj
        by_cases hji : j = i
        · subst hji
          simp only [if_true, Option.some.injEq, Prod.mk.injEq] at hj
          rw [lm_get_insert]; rw [hj.2]
        · simp only [hji, if_false] at hj
          have := hct j name cc hj
          rw [lm_get_other _ _ _ _ _ (List.getElem?_eq_some_iff.1 this).1 hji]
          exact this
      have hS' : ∀ j name T, upd S i (s, c) j = some (name, some T) → IsAscii T ∧ T.length < USIZE_MAX := by
        intro j name T hj
        unfold upd at hj
        by_cases hji : j = i
        · subst hji
          simp only [if_true, Option.some.injEq, Prod.mk.injEq] at hj
          exact hE j s T (by rw [← hj.2]; simp)
        · simp only [hji, if_false] at hj
          exact hS j name T hj
      exact ⟨trivial, ih _ _ hct' hp hS' hE' hrest⟩
    | name i n =>
      simp only [rEv]
      have hns := globalName_noSrc st.nameMapping n
      constructor
      · apply provQ_noSrc _ _ S hns
        intro t' mm hmem
        exact absurd hmem (globalName_noChunkMem _ _ t' mm)
      · rw [tblS_noSrc _ S hns]
        exact ih _ S (fun j name c hj => hct j name c hj) hp hS hE' hrest


/-! ### the trees: raw / OriginalSource leaves, ReplaceSource over trees of those, ConcatSource at any nesting -/

mutual
/-- `cons` = one content per file name; every ReplaceSource wraps a tree of OriginalSource / raw leaves -/
def Src.ReplWD (cons : Text → Option Text) : Src → Prop
  | .raw .. => True
  | .rawStr .. => True
  | .rawBuf .. => True
  | .orig t name => cons name = some t
  | .concat cs => cs.ReplWDs cons
  | .replace inner _ => inner.OrigTree ∧ Src.WD cons true inner
  | _ => False
def SrcList.ReplWDs (cons : Text → Option Text) : SrcList → Prop
  | .nil => True
  | .cons s r => s.ReplWD cons ∧ r.ReplWDs cons
end

mutual
def Src.allRepls : Src → List Repl
  | .concat cs => cs.allReplsL
  | .replace _ rs => rs
  | _ => []
def SrcList.allReplsL : SrcList → List Repl
  | .nil => []
  | .cons s r => s.allRepls ++ r.allReplsL
end

/-- a line of the content of one of the replacements of the tree -/
def GenOf (rs : List Repl) (cl : Text) : Prop := ∃ r ∈ rs, cl ∈ splitLines r.content

mutual
theorem Src.replWD_wd (cons : Text → Option Text) : ∀ (s : Src), s.ReplWD cons → Src.WD cons true s
  | .raw .., _ | .rawStr .., _ | .rawBuf .., _ => trivial
  | .orig t name, h => h
  | .concat cs, h => by simp only [Src.ReplWD] at h; simp only [Src.WD]; exact SrcList.replWDs_wd cons cs h
  | .replace inner rs, h => by simp only [Src.ReplWD] at h; exact Src.wd_replace cons inner rs h.2 (Src.origTree_idx inner h.1)
  | .sms .., h | .cached .., h => by simp [Src.ReplWD] at h
theorem SrcList.replWDs_wd (cons : Text → Option Text) : ∀ (l : SrcList), l.ReplWDs cons → SrcList.WD cons true l
  | .nil, _ => trivial
  | .cons s r, h => ⟨Src.replWD_wd cons s h.1, SrcList.replWDs_wd cons r h.2⟩
end

theorem replace_provQ (cons : Text → Option Text) (inner : Src) (ho : inner.OrigTree) (hw : Src.WD cons true inner)
    (hasc : ∀ n T, cons n = some T → IsAscii T ∧ T.length < USIZE_MAX) (rs : List Repl) (σ : Store) :
    ProvQ (TrueQ (GenOf rs)) emptyS ((Src.replace inner rs).stream ⟨true, false⟩ σ).1.evs := by
  simp only [Src.stream]
  generalize hr : (inner.stream ⟨true, false⟩ σ).1 = r
  have hprov : ProvOK emptyS r.evs := by rw [← hr]; exact Src.stream_prov cons inner ho hw σ
  have hwd : WellDecl cons emptyS emptyN r.evs := by rw [← hr]; exact Src.stream_wd cons true inner hw σ
  have hcont := wellDecl_contOK cons _ _ _ hwd
  have hE : ∀ i s T, Ev.source i s (some T) ∈ r.evs → IsAscii T ∧ T.length < USIZE_MAX := by
    intro i s T hm
    exact hasc s T (hcont i s (some T) hm).symm
  simp only [replaceStream]
  rw [provQ_append]
  constructor
  · have := rEvs_provQ (sortRepls rs) r.evs { rest := sortRepls rs } emptyS (fun i name c h => by simp [emptyS] at h) hprov
      (fun i name T h => by simp [emptyS] at h) hE (fun r hr => hr)
    exact provQ_mono _ _ (fun T t l c hq => trueQ_mono _ _ (fun cl ⟨r, h1, h2⟩ => ⟨r, (mem_sortRepls rs r).1 h1, h2⟩) T t l c hq) _ _ this
  · apply provQ_noSrc _ _ _ (rRemainder_unmapped _ _ _ _).2
    intro t m hm a ha
    rw [(rRemainder_unmapped _ _ _ _).1 t m hm] at ha
    cases ha

mutual
theorem Src.stream_provQ (cons : Text → Option Text) (hasc : ∀ n T, cons n = some T → IsAscii T ∧ T.length < USIZE_MAX) :
    ∀ (s : Src), s.ReplWD cons → ∀ σ, ProvQ (TrueQ (GenOf s.allRepls)) emptyS (s.stream ⟨true, false⟩ σ).1.evs
  | .raw _ _ lossy, _, σ => by simp only [Src.stream]; exact provOK_provQ _ _ _ (streamRaw_provOK lossy _)
  | .rawStr t, _, σ => by simp only [Src.stream]; exact provOK_provQ _ _ _ (streamRaw_provOK t _)
  | .rawBuf _ lossy, _, σ => by simp only [Src.stream]; exact provOK_provQ _ _ _ (streamRaw_provOK lossy _)
  | .orig t name, _, σ => by simp only [Src.stream]; exact provOK_provQ _ _ _ (streamOriginal_provOK t name)
  | .sms .., h, _ | .cached .., h, _ => by simp [Src.ReplWD] at h
  | .replace inner rs, h, σ => by
    simp only [Src.ReplWD] at h
    exact replace_provQ cons inner h.1 h.2 hasc rs σ
  | .concat .nil, _, σ => by
    simp only [Src.stream]; exact concatStream_provQ _ cons [] (by simp)
  | .concat (.cons s rest), h, σ => by
    simp only [Src.ReplWD, SrcList.ReplWDs] at h
    have hw := SrcList.replWDs_wd cons (.cons s rest) h
    simp only [SrcList.WD] at hw
    have hmono1 : ∀ T t l c, TrueQ (GenOf s.allRepls) T t l c → TrueQ (GenOf (Src.concat (.cons s rest)).allRepls) T t l c :=
      fun T t l c hq => trueQ_mono _ _ (fun cl ⟨r, h1, h2⟩ => ⟨r, by simp only [Src.allRepls, SrcList.allReplsL, List.mem_append]; exact Or.inl h1, h2⟩) T t l c hq
    cases hr : rest with
    | nil =>
      simp only [Src.stream]
      have := Src.stream_provQ cons hasc s h.1 σ
      exact provQ_mono _ _ (fun T t l c hq => by rw [← hr]; exact hmono1 T t l c hq) _ _ this
    | cons s2 rest2 =>
      simp only [Src.stream]
      rw [hr] at h hw
      apply concatStream_provQ _ cons
      intro x hx
      simp only [List.mem_cons] at hx
      rcases hx with rfl | hx
      · exact ⟨Src.stream_wd cons true s hw.1 σ, Src.stream_tl s true σ,
          provQ_mono _ _ (fun T t l c hq => by have := hmono1 T t l c hq; rw [hr] at this; exact this) _ _ (Src.stream_provQ cons hasc s h.1 σ)⟩
      · refine ⟨SrcList.streams_wd cons true (.cons s2 rest2) hw.2 _ x hx, SrcList.streams_mem_tl _ true _ x hx, ?_⟩
        have := SrcList.streams_provQ cons hasc (.cons s2 rest2) h.2 _ x hx
        exact provQ_mono _ _ (fun T t l c hq => trueQ_mono _ _ (fun cl ⟨r, h1, h2⟩ => ⟨r, by simp only [Src.allRepls, SrcList.allReplsL, List.mem_append] at h1 ⊢; exact Or.inr h1, h2⟩) T t l c hq) _ _ this
theorem SrcList.streams_provQ (cons : Text → Option Text) (hasc : ∀ n T, cons n = some T → IsAscii T ∧ T.length < USIZE_MAX) :
    ∀ (l : SrcList), l.ReplWDs cons → ∀ σ, ∀ r ∈ (l.streams ⟨true, false⟩ σ).1, ProvQ (TrueQ (GenOf l.allReplsL)) emptyS r.evs
  | .nil, _, σ => by intro r hr; simp [SrcList.streams] at hr
  | .cons s rest, h, σ => by
    simp only [SrcList.ReplWDs] at h
    intro r hr
    simp only [SrcList.streams, List.mem_cons] at hr
    rcases hr with rfl | hr
    · exact provQ_mono _ _ (fun T t l c hq => trueQ_mono _ _ (fun cl ⟨r, h1, h2⟩ => ⟨r, by simp only [SrcList.allReplsL, List.mem_append]; exact Or.inl h1, h2⟩) T t l c hq) _ _
        (Src.stream_provQ cons hasc s h.1 σ)
    · exact provQ_mono _ _ (fun T t l c hq => trueQ_mono _ _ (fun cl ⟨r, h1, h2⟩ => ⟨r, by simp only [SrcList.allReplsL, List.mem_append]; exact Or.inr h1, h2⟩) T t l c hq) _ _
        (SrcList.streams_provQ cons hasc rest h.2 _ r hr)
end


/-! ### through `map()` -/

theorem provQ_at (Q : Text → Option Text → Nat → Nat → Prop) : ∀ (evs : List Ev) (S : SrcTbl) (ns nn : Nat), ProvQ Q S evs → DeclOK ns nn evs →
    (∀ i, ns ≤ i → S i = none) → ∀ t m a, Ev.chunk t m ∈ evs → m.orig = some a →
      ∃ name T, tblS S evs a.src = some (name, some T) ∧ Q T t a.line a.col := by
  intro evs
  induction evs with
  | nil => intro S ns nn _ _ _ t m a h; cases h
  | cons e es ih =>
    intro S ns nn hp hd hS t m a hm ha
    cases e with
    | chunk t0 m0 =>
      simp only [tblS]
      rcases List.mem_cons.1 hm with h | h
      · cases h
        obtain ⟨name, T, h1, h2⟩ := hp.1 a ha
        exact ⟨name, T, (tblS_mono es ns nn S hd.2 hS).1 _ _ h1, h2⟩
      · exact ih S ns nn hp.2 hd.2 hS t m a h ha
    | source i s c =>
      obtain ⟨rfl, hd2⟩ := hd
      simp only [tblS]
      rcases List.mem_cons.1 hm with h | h
      · cases h
      · refine ih _ (i + 1) nn hp hd2 ?_ t m a h ha
        intro j hj
        unfold upd
        have : j ≠ i := by omega
        simp only [this, if_false]; exact hS j (by omega)
    | name i n =>
      obtain ⟨rfl, hd2⟩ := hd
      simp only [tblS]
      rcases List.mem_cons.1 hm with h | h
      · cases h
      · exact ih S ns (i + 1) hp hd2 hS t m a h ha

mutual
/-- replacements have `start ≤ end`, outputs below 4 GiB -/
def Src.ReplSized : Src → Prop
  | .concat cs => cs.ReplSizeds
  | .replace inner rs => (∀ r ∈ rs, r.start ≤ r.stop) ∧ (replaceSource inner.src rs).length + 1 < 2 ^ 32
  | _ => True
def SrcList.ReplSizeds : SrcList → Prop
  | .nil => True
  | .cons s r => s.ReplSized ∧ r.ReplSizeds
end

mutual
theorem Src.replWD_mode (cons : Text → Option Text) : ∀ (s : Src), s.ReplWD cons → s.ReplSized → s.ModeHyp
  | .raw .., _, _ | .rawStr .., _, _ | .rawBuf .., _, _ | .orig .., _, _ => trivial
  | .concat cs, h, hz => by simp only [Src.ReplWD] at h; simp only [Src.ReplSized] at hz; simp only [Src.ModeHyp]; exact SrcList.replWDs_mode cons cs h hz
  | .replace inner rs, h, hz => by
    simp only [Src.ReplWD] at h
    simp only [Src.ReplSized] at hz
    exact ⟨Src.origTree_mode inner h.1, hz.1, hz.2⟩
  | .sms .., h, _ | .cached .., h, _ => by simp [Src.ReplWD] at h
theorem SrcList.replWDs_mode (cons : Text → Option Text) : ∀ (l : SrcList), l.ReplWDs cons → l.ReplSizeds → l.ModeHyps
  | .nil, _, _ => trivial
  | .cons s r, h, hz => ⟨Src.replWD_mode cons s h.1 hz.1, SrcList.replWDs_mode cons r h.2 hz.2⟩
end

mutual
theorem Src.replWD_allContent (cons : Text → Option Text) : ∀ (s : Src) (o : Opts) (σ : Store), s.ReplWD cons → AllContent (s.stream o σ).1.evs
  | .raw _ _ lossy, o, σ, _ => Src.origTree_allContent (.raw _ _ lossy) o σ trivial
  | .rawStr t, o, σ, _ => Src.origTree_allContent (.rawStr t) o σ trivial
  | .rawBuf _ lossy, o, σ, _ => Src.origTree_allContent (.rawBuf _ lossy) o σ trivial
  | .orig t name, o, σ, _ => Src.origTree_allContent (.orig t name) o σ trivial
  | .sms .., _, _, h | .cached .., _, _, h => by simp [Src.ReplWD] at h
  | .replace inner rs, o, σ, h => by
    simp only [Src.ReplWD] at h
    rw [allContent_iff]
    intro i s c hs
    simp only [Src.stream] at hs
    have := ((replaceStream_keeps (sortRepls rs) _).2 i s c).1 hs
    exact (allContent_iff _).1 (Src.origTree_allContent inner ⟨o.columns, false⟩ σ h.1) i s c this
  | .concat .nil, o, σ, _ => by simp only [Src.stream, concatStream, concatGo]; trivial
  | .concat (.cons s rest), o, σ, h => by
    simp only [Src.ReplWD, SrcList.ReplWDs] at h
    cases hr : rest with
    | nil => simp only [Src.stream]; exact Src.replWD_allContent cons s o σ h.1
    | cons s2 rest2 =>
      simp only [Src.stream, concatStream]
      apply concatGo_allContent
      intro c hc
      simp only [List.mem_cons] at hc
      rcases hc with rfl | hc
      · exact Src.replWD_allContent cons s o σ h.1
      · exact SrcList.replWDs_allContent cons (.cons s2 rest2) o _ (hr ▸ h.2) c hc
theorem SrcList.replWDs_allContent (cons : Text → Option Text) : ∀ (l : SrcList) (o : Opts) (σ : Store), l.ReplWDs cons → ∀ c ∈ (l.streams o σ).1, AllContent c.evs
  | .nil, o, σ, _ => by intro c hc; simp [SrcList.streams] at hc
  | .cons s r, o, σ, h => by
    simp only [SrcList.ReplWDs] at h
    intro c hc
    simp only [SrcList.streams, List.mem_cons] at hc
    rcases hc with rfl | hc
    · exact Src.replWD_allContent cons s o σ h.1
    · exact SrcList.replWDs_allContent cons r o _ h.2 c hc
end

/-- **C04 through `map()`, byte by byte, for every tree of raw / OriginalSource leaves, ReplaceSource nodes over trees of those,
and ConcatSource at any nesting** (the bundler's shape: a ConcatSource of modules each wrapped in a ReplaceSource): if the returned
SourceMap resolves the position of byte `i` of `source()` to `o`, then — through the map's own `sources` / `sourcesContent` — `o`
names a file with its exact content `T` and the true line and column of a byte `q` of `T`; and the chunk covering byte `i` is the
piece `T[q..q')` of that file inside one potential token, byte `i` being the original byte `T[q + d]` whose own true position is
`o`'s line and `o`'s column plus `d`, or it is a line of the content of one of the tree's replacements -/
theorem replTree_map_bytes (cons : Text → Option Text) (s : Src) (h : s.ReplWD cons) (hz : s.ReplSized)
    (hasc : ∀ n T, cons n = some T → IsAscii T ∧ T.length < USIZE_MAX) (final : Bool)
    (hsmall : ∀ m ∈ chunkMs (s.stream ⟨true, true⟩ []).1.evs, m.small)
    (sm : SMap) (hm : (getMap s ⟨true, final⟩ []).1 = some sm) :
    ∀ (i : Nat) (o : Orig), (attrFrom (decode sm.mappings) startPos s.src)[i]? = some (some o) →
      ∃ (name T : Text) (q d : Nat), sm.sources[o.src]? = some name ∧ sm.sourcesContent[o.src]? = some T ∧ q < T.length
        ∧ adv startPos (T.take q) = ⟨o.line, o.col⟩
        ∧ ((q + d < T.length ∧ s.src[i]? = T[q + d]? ∧ adv startPos (T.take (q + d)) = ⟨o.line, o.col + d⟩
              ∧ ∃ tok k0 l0 c0, TokPos T tok l0 c0 k0 ∧ k0 ≤ q ∧ q + d < k0 + tok.length)
            ∨ (∃ r ∈ s.allRepls, ∃ cl ∈ splitLines r.content, d < cl.length ∧ s.src[i]? = cl[d]?)) := by
  intro i o hget
  have hmode := Src.replWD_mode cons s h hz
  obtain ⟨b1, b2, b3, b4, b5, b6, b7⟩ := Src.base_facts _ hmode
  have hm3 := Src.m3 _ hmode
  have hattr := (getMap_attr s hmode final hsmall).1 sm hm
  rw [hattr] at hget
  obtain ⟨t, m, d, hmem, hd, hmo, hbyte⟩ := attrOf_at _ i (some o) hget
  rw [b4] at hbyte
  have hm1 : m ∈ chunkMs (s.stream ⟨true, false⟩ []).1.evs := mem_chunkMs_of_mem' _ _ _ hmem
  have hprov := Src.stream_provQ cons hasc s h []
  obtain ⟨name, T, y2, q, y3, y4, y5⟩ := provQ_at _ _ emptyS 0 0 hprov b5 (fun i _ => rfl) (some t) m o hmem hmo.symm
  -- the tables of the map are the tables the stream ends with
  have hAC := Src.replWD_allContent cons s ⟨true, false⟩ [] h
  have hrel := mapAcc_tblRel (s.stream ⟨true, false⟩ []).1.evs 0 0 {} emptyS emptyN b5 hAC
    ⟨rfl, rfl, rfl, fun i hi => by omega, fun i hi => by omega⟩
  obtain ⟨d1, d2, d3⟩ := mapAcc_decls (s.stream ⟨true, true⟩ []).1.evs {}
  obtain ⟨e1, e2, e3⟩ := mapAcc_decls (s.stream ⟨true, false⟩ []).1.evs {}
  have hsm : sm.sources = ((s.stream ⟨true, false⟩ []).1.evs.foldl mapAccEv {}).sources
      ∧ sm.sourcesContent = ((s.stream ⟨true, false⟩ []).1.evs.foldl mapAccEv {}).contents := by
    simp only [getMap, mapOfEvs] at hm
    split at hm
    · cases hm
    · simp only [Option.some.injEq] at hm
      rw [← hm]
      simp only
      cases final <;> (rw [d1, d2, e1, e2, hm3.decls]; exact ⟨rfl, rfl⟩)
  obtain ⟨r1, r2, r3, r4, r5⟩ := hrel
  have hidx := declOK_chunkMs _ 0 0 b5 m hm1 o hmo.symm
  simp only [Nat.zero_add] at hidx r4
  have hfile := r4 o.src hidx.1
  rw [y2] at hfile
  have hS : sm.sources[o.src]? = some name ∧ sm.sourcesContent[o.src]? = some T := by
    rw [hsm.1, hsm.2]
    cases hq : (((s.stream ⟨true, false⟩ []).1.evs.foldl mapAccEv {}).sources)[o.src]? with
    | none => rw [hq] at hfile; simp at hfile
    | some f =>
      rw [hq] at hfile
      simp only [Option.map_some, Option.some.injEq, Prod.mk.injEq] at hfile
      exact ⟨by rw [hfile.1], hfile.2.symm⟩
  refine ⟨name, T, q, d, hS.1, hS.2, y3, y4, ?_⟩
  rcases y5 with ⟨q', hq1, hq2, hq3, hq4, tok, k0, l0, c0, hq5, hq6, hq7⟩ | ⟨cl, hq3, r, hr1, hcl⟩
  · simp only [Option.some.injEq] at hq3
    subst hq3
    have hlen' : (bsub T q q').length = q' - q := by unfold bsub; simp only [List.length_take, List.length_drop]; omega
    rw [hlen'] at hd
    refine Or.inl ⟨by omega, ?_, hq4 d hd, tok, k0, l0, c0, hq5, hq6, by omega⟩
    rw [hbyte]
    exact (bsub_get T q q' d hq2 hd).1
  · simp only [Option.some.injEq] at hq3
    subst hq3
    exact Or.inr ⟨r, hr1, t, hcl, hd, hbyte⟩

end Rs
