import RsModel.Lemmas.RopeSlice
import RsModel.Lemmas.Replace
import RsModel.Model.Tree
/-!
# `Source::rope()` renders to `Source::source()` for every tree (C07), and never slices off a boundary
-/
namespace Rs
open Rope

theorem mem_sortRepls' (rs : List Repl) (r : Repl) : r ∈ sortRepls rs ↔ r ∈ rs := by
  rw [sortRepls_eq_mergeSort]
  exact (List.mergeSort_perm rs Repl.le).mem_iff

/-- what a replacement must satisfy for `rope()`: its content is a `&str`, its (clamped) ends are char boundaries -/
def ReplOK (t : Text) (r : Repl) : Prop :=
  pieceOK r.content = true ∧ isBoundary t (min r.start t.length) = true ∧ isBoundary t (min r.stop t.length) = true

theorem bsub_to_end (t : Text) (pos : Nat) : bsub t pos t.length = t.drop pos := by
  unfold bsub; rw [List.take_of_length_le (by simp)]

theorem take_min (t : Text) (pos s : Nat) (hp : pos ≤ t.length) : bsub t pos (min s t.length) = (t.drop pos).take (s - pos) := by
  unfold bsub
  rcases Nat.le_total s t.length with h | h
  · rw [Nat.min_eq_left h]
  · rw [Nat.min_eq_right h, List.take_of_length_le (by simp), List.take_of_length_le (by simp; omega)]

theorem ropeSplice_spec (inner : Rope) (hw : inner.WF) :
    ∀ (rs : List Repl) (pos : Nat) (acc : Rope), pos ≤ inner.render.length → isBoundary inner.render pos = true → acc.WF →
      (∀ r ∈ rs, ReplOK inner.render r) →
      ∃ out, ropeSplice inner pos rs acc = .ok out
        ∧ out.render = acc.render ++ specGo pos (inner.render.drop pos) rs ∧ out.WF := by
  have hlen := len_eq_render inner hw.inv
  intro rs
  induction rs with
  | nil =>
    intro pos acc hpos hbp hacc _
    unfold ropeSplice
    rw [hlen]
    obtain ⟨s1, _⟩ := byteSlice_spec inner hw pos inner.render.length hpos (Nat.le_refl _)
    obtain ⟨x, e1, e2, e3⟩ := s1 (by rw [hbp, isBoundary_len]; rfl)
    rw [e1]
    exact ⟨_, rfl, by simp [Except.map, render_append, e2, bsub_to_end, specGo], wf_append _ _ hacc e3⟩
  | cons r rs ih =>
    intro pos acc hpos hbp hacc hrs
    obtain ⟨hc, hbs, hbe⟩ := hrs r (by simp)
    unfold ropeSplice
    simp only [hlen]
    -- the text before the replacement
    have hstep : ∃ acc1, (if pos < r.start then (inner.byteSlice pos (min r.start inner.render.length)).map acc.append else .ok acc) = .ok acc1
        ∧ acc1.render = acc.render ++ (inner.render.drop pos).take (r.start - pos) ∧ acc1.WF := by
      by_cases hlt : pos < r.start
      · simp only [hlt, if_true]
        obtain ⟨s1, _⟩ := byteSlice_spec inner hw pos (min r.start inner.render.length) (by omega) (Nat.min_le_right _ _)
        obtain ⟨x, e1, e2, e3⟩ := s1 (by rw [hbp, hbs]; rfl)
        rw [e1]
        exact ⟨_, rfl, by simp [render_append, e2, take_min _ _ _ hpos], wf_append _ _ hacc e3⟩
      · simp only [hlt, if_false]
        have : r.start - pos = 0 := by omega
        exact ⟨acc, rfl, by simp [this], hacc⟩
    obtain ⟨acc1, e1, e2, e3⟩ := hstep
    rw [e1]
    simp only [Except.bind]
    have hnp : min (max pos r.stop) inner.render.length ≤ inner.render.length := Nat.min_le_right _ _
    have hnb : isBoundary inner.render (min (max pos r.stop) inner.render.length) = true := by
      rcases Nat.le_total r.stop pos with h | h
      · rw [Nat.max_eq_left h, Nat.min_eq_left hpos]; exact hbp
      · rw [Nat.max_eq_right h]; exact hbe
    obtain ⟨out, o1, o2, o3⟩ := ih (min (max pos r.stop) inner.render.length) (acc1.add r.content) hnp hnb (wf_add _ _ e3 hc)
      (fun x hx => hrs x (by simp [hx]))
    refine ⟨out, o1, ?_, o3⟩
    rw [o2, render_add, e2]
    simp only [specGo, List.append_assoc, List.length_drop]
    have hpos' : pos + min (max pos r.stop - pos) (inner.render.length - pos) = min (max pos r.stop) inner.render.length := by
      simp only [Nat.max_def, Nat.min_def]
      repeat' split
      all_goals omega
    rw [hpos', List.drop_drop]
    congr 3
    -- dropping beyond the end is dropping to the end
    rcases Nat.le_total (max pos r.stop) inner.render.length with h | h
    · rw [Nat.min_eq_left h, Nat.add_sub_cancel' (Nat.le_max_left _ _)]
    · have := Nat.le_max_left pos r.stop
      rw [Nat.min_eq_right h, List.drop_eq_nil_of_le (by omega), List.drop_eq_nil_of_le (by omega)]

mutual
/-- the hypotheses of the rope theorem: every text is a `&str`; replacement ends are char boundaries of the wrapped text -/
def Src.RopeOK : Src → Prop
  | .raw _ _ lossy => pieceOK lossy = true
  | .rawStr t => pieceOK t = true
  | .rawBuf _ lossy => pieceOK lossy = true
  | .orig t _ => pieceOK t = true
  | .sms t _ _ _ _ _ => pieceOK t = true
  | .concat cs => cs.RopeOKs
  | .replace inner rs => inner.RopeOK ∧ ∀ r ∈ rs, ReplOK inner.src r
  | .cached _ inner => inner.RopeOK
def SrcList.RopeOKs : SrcList → Prop
  | .nil => True
  | .cons s r => s.RopeOK ∧ r.RopeOKs
end

mutual
theorem Src.rope_spec : ∀ (s : Src), s.RopeOK → ∃ r, s.rope = .ok r ∧ r.render = s.src ∧ r.WF
  | .raw _ _ lossy, h => ⟨_, rfl, rfl, h⟩
  | .rawStr t, h => ⟨_, rfl, rfl, h⟩
  | .rawBuf _ lossy, h => ⟨_, rfl, rfl, h⟩
  | .orig t _, h => ⟨_, rfl, rfl, h⟩
  | .sms t _ _ _ _ _, h => ⟨_, rfl, rfl, h⟩
  | .concat .nil, _ => ⟨_, rfl, rfl, wf_new⟩
  | .concat (.cons s rest), h => by
    simp only [Src.RopeOK, SrcList.RopeOKs] at h
    obtain ⟨x, x1, x2, x3⟩ := Src.rope_spec s h.1
    cases hr : rest with
    | nil => exact ⟨x, by simp only [Src.rope]; exact x1, by simp [Src.src, SrcList.srcs, x2], x3⟩
    | cons s2 rest2 =>
      obtain ⟨y, y1, y2, y3⟩ := SrcList.ropes_spec (.cons s2 rest2) (Rope.new.append x) (hr ▸ h.2) (wf_append _ _ wf_new x3)
      refine ⟨y, ?_, ?_, y3⟩
      · simp only [Src.rope, x1, Except.bind]; exact y1
      · rw [y2, render_append, x2]; simp [Src.src, SrcList.srcs, Rope.new, Rope.render]
  | .replace inner rs, h => by
    simp only [Src.RopeOK] at h
    obtain ⟨x, x1, x2, x3⟩ := Src.rope_spec inner h.1
    simp only [Src.rope, x1, Except.bind, Src.src, replaceSource]
    by_cases he : rs.isEmpty = true
    · simp only [he, if_true]; exact ⟨x, rfl, x2, x3⟩
    · simp only [he, Bool.false_eq_true, if_false]
      obtain ⟨out, o1, o2, o3⟩ := ropeSplice_spec x x3 (sortRepls rs) 0 Rope.new (Nat.zero_le _) (isBoundary_zero _) wf_new
        (fun r hr => by rw [x2]; exact h.2 r ((mem_sortRepls' rs r).1 hr))
      exact ⟨out, o1, by rw [o2, x2]; simp [Rope.new, Rope.render], o3⟩
  | .cached _ inner, h => by
    simp only [Src.RopeOK] at h
    obtain ⟨x, x1, x2, x3⟩ := Src.rope_spec inner h
    exact ⟨x, by simp only [Src.rope]; exact x1, by simp only [Src.src]; exact x2, x3⟩
theorem SrcList.ropes_spec : ∀ (l : SrcList) (acc : Rope), l.RopeOKs → acc.WF →
    ∃ r, l.ropes acc = .ok r ∧ r.render = acc.render ++ l.srcs ∧ r.WF
  | .nil, acc, _, ha => ⟨acc, rfl, by simp [SrcList.srcs], ha⟩
  | .cons s rest, acc, h, ha => by
    simp only [SrcList.RopeOKs] at h
    obtain ⟨x, x1, x2, x3⟩ := Src.rope_spec s h.1
    obtain ⟨y, y1, y2, y3⟩ := SrcList.ropes_spec rest (acc.append x) h.2 (wf_append _ _ ha x3)
    refine ⟨y, ?_, ?_, y3⟩
    · simp only [SrcList.ropes, x1, Except.bind]; exact y1
    · rw [y2, render_append, x2]; simp [SrcList.srcs]
end

end Rs
