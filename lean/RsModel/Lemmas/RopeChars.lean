import RsModel.Lemmas.RopeObs
/-!
# `Rope::char_indices`: the scalar values

Each piece decodes its chars on its own (`chunk.char_indices()`); the flat string decodes them from the whole text.
They agree because every piece is a `&str`: a lead byte's continuation bytes lie inside the same piece.
`Utf8V t`: every lead byte of `t` is followed, inside `t`, by as many continuation bytes as it announces.
-/
namespace Rs
namespace Rope

/-- number of continuation bytes the lead byte announces (the case split of `utf8Decode`) -/
def need (b : UInt8) : Nat := if b.toNat < 128 then 0 else if b.toNat < 224 then 1 else if b.toNat < 240 then 2 else 3

def Utf8V (c : Text) : Prop :=
  ∀ pre b post, c = pre ++ b :: post → isCont b = false → need b ≤ post.length ∧ ∀ j, j < need b → isCont (post.getD j 0) = true

/-- weaker: the announced bytes are there -/
def Complete (c : Text) : Prop := ∀ pre b post, c = pre ++ b :: post → isCont b = false → need b ≤ post.length

theorem Utf8V.complete {c : Text} (h : Utf8V c) : Complete c := fun pre b post e hb => (h pre b post e hb).1

theorem utf8V_nil : Utf8V [] := by
  intro pre b post e; simp at e

theorem utf8V_suffix (x y : Text) (h : Utf8V (x ++ y)) : Utf8V y := by
  intro pre b post e hb
  exact h (x ++ pre) b post (by rw [e, List.append_assoc]) hb

theorem utf8V_prefix (x y : Text) (h : Utf8V (x ++ y)) (hy : pieceOK y = true) : Utf8V x := by
  intro pre b post e hb
  obtain ⟨h1, h2⟩ := h pre b (post ++ y) (by rw [e]; simp) hb
  rcases Nat.lt_or_ge post.length (need b) with hlt | hge
  · -- the announced bytes would reach into `y`, whose first byte is not a continuation byte
    exfalso
    have := h2 post.length hlt
    cases y with
    | nil => simp at h1; omega
    | cons y0 ys =>
      simp only [pieceOK, Bool.not_eq_true'] at hy
      rw [List.getD_eq_getElem?_getD, List.getElem?_append_right (Nat.le_refl _)] at this
      simp at this
      rw [hy] at this; cases this
  · refine ⟨hge, fun j hj => ?_⟩
    have := h2 j hj
    rw [List.getD_eq_getElem?_getD, List.getElem?_append_left (by omega)] at this
    rw [List.getD_eq_getElem?_getD]; exact this

theorem utf8V_append (x y : Text) (hx : Utf8V x) (hy : Utf8V y) : Utf8V (x ++ y) := by
  intro pre b post e hb
  rcases List.append_eq_append_iff.1 e with ⟨a', e1, e2⟩ | ⟨c', e1, e2⟩
  · -- pre = x ++ a', y = a' ++ b :: post
    exact hy a' b post e2 hb
  · -- x = pre ++ c', b :: post = c' ++ y
    cases c' with
    | nil =>
      simp only [List.nil_append] at e2
      exact hy [] b post (by simpa using e2.symm) hb
    | cons c0 cs =>
      simp only [List.cons_append, List.cons.injEq] at e2
      obtain ⟨rfl, e3⟩ := e2
      obtain ⟨h1, h2⟩ := hx pre b cs e1 hb
      subst e3
      refine ⟨by simp; omega, fun j hj => ?_⟩
      have := h2 j hj
      rw [List.getD_eq_getElem?_getD] at this ⊢
      rw [List.getElem?_append_left (by omega)]; exact this

theorem complete_tail (b : UInt8) (bs : Text) (h : Complete (b :: bs)) : Complete bs := by
  intro pre b' post e hb
  exact h (b :: pre) b' post (by rw [e]; rfl) hb

theorem utf8Decode_append (b : UInt8) (post more : Text) (h : need b ≤ post.length) :
    utf8Decode b (post ++ more) = utf8Decode b post := by
  unfold need at h
  unfold utf8Decode
  have g : ∀ j, j < post.length → (post ++ more).getD j 0 = post.getD j 0 := by
    intro j hj
    rw [List.getD_eq_getElem?_getD, List.getD_eq_getElem?_getD, List.getElem?_append_left hj]
  simp only
  split
  · rfl
  · split
    · rename_i h1 h2
      simp only [h1, h2, if_false, if_true] at h
      rw [g 0 (by omega)]
    · split
      · rename_i h1 h2 h3
        simp only [h1, h2, h3, if_false, if_true] at h
        rw [g 0 (by omega), g 1 (by omega)]
      · rename_i h1 h2 h3
        simp only [h1, h2, h3, if_false] at h
        rw [g 0 (by omega), g 1 (by omega), g 2 (by omega)]

theorem strCharIndices_append : ∀ (x y : Text) (off i : Nat), Complete x →
    strCharIndices off i (x ++ y) = strCharIndices off i x ++ strCharIndices off (i + x.length) y := by
  intro x
  induction x with
  | nil => intro y off i _; simp [strCharIndices]
  | cons b bs ih =>
    intro y off i hc
    have e : i + (b :: bs).length = i + 1 + bs.length := by simp; omega
    simp only [List.cons_append, strCharIndices]
    split
    · rw [ih y off (i + 1) (complete_tail b bs hc), e]
    · rename_i hb
      rw [ih y off (i + 1) (complete_tail b bs hc), e, utf8Decode_append b bs y (hc [] b bs rfl (by simpa using hb))]
      rfl

theorem strCharIndices_shift : ∀ (t : Text) (off i k : Nat), strCharIndices (off + k) i t = strCharIndices off (k + i) t := by
  intro t
  induction t with
  | nil => intros; rfl
  | cons b bs ih =>
    intro off i k
    simp only [strCharIndices]
    have e : off + k + i = off + (k + i) := by omega
    have e2 : k + i + 1 = k + (i + 1) := by omega
    split
    · rw [ih off (i + 1) k, e2]
    · rw [ih off (i + 1) k, e, e2]

/-- every piece of a well-formed rope over a valid text is complete -/
theorem pieces_complete : ∀ (ps : List (Text × Nat)), PiecesOK ps → Utf8V (flat ps) → ∀ p ∈ ps, Complete p.1 := by
  intro ps
  induction ps with
  | nil => intro _ _ p hp; simp at hp
  | cons q rest ih =>
    intro hp hv p hmem
    have hflat : flat (q :: rest) = q.1 ++ flat rest := by simp [flat]
    rw [hflat] at hv
    have hrest : PiecesOK rest := fun x hx => hp x (by simp [hx])
    simp only [List.mem_cons] at hmem
    rcases hmem with rfl | hmem
    · exact (utf8V_prefix _ _ hv (pieceOK_flat rest hrest)).complete
    · exact ih hrest (utf8V_suffix _ _ hv) p hmem

/-- **`char_indices()`**: offsets *and* scalar values are those of the flat string -/
theorem charIndices_spec (r : Rope) (h : r.WF) (hv : Utf8V r.render) : r.charIndices = strCharIndices 0 0 r.render := by
  cases r with
  | light s => rfl
  | full ps =>
    obtain ⟨hoff, hp⟩ := h
    simp only [charIndices, render_full] at hv ⊢
    have hc := pieces_complete ps hp hv
    suffices hs : ∀ (ps : List (Text × Nat)) (s : Nat), OffsOK s ps → (∀ p ∈ ps, Complete p.1) →
        (ps.map fun p => strCharIndices p.2 0 p.1).flatten = strCharIndices 0 s (flat ps) by
      exact hs ps 0 hoff hc
    intro ps
    induction ps with
    | nil => intro s _ _; rfl
    | cons p rest ih =>
      intro s hof hcs
      obtain ⟨c, o⟩ := p
      obtain ⟨h1, h2⟩ := hof
      subst h1
      have hflat : flat ((c, o) :: rest) = c ++ flat rest := by simp [flat]
      rw [hflat, strCharIndices_append c (flat rest) 0 o (hcs (c, o) (by simp)), List.map_cons, List.flatten_cons,
        ih (o + c.length) h2 (fun x hx => hcs x (by simp [hx]))]
      congr 1
      have := strCharIndices_shift c 0 0 o
      simpa using this

/-! ## valid texts stay valid under the string operations -/

theorem pieceOK_drop_boundary (t : Text) (i : Nat) (ht : pieceOK t = true) (h : isBoundary t i = true) : pieceOK (t.drop i) = true := by
  unfold isBoundary at h
  by_cases h0 : i = 0
  · subst h0; simpa using ht
  · simp only [h0, if_false] at h
    cases hg : t[i]? with
    | none =>
      have : t.length ≤ i := by
        rcases Nat.lt_or_ge i t.length with hlt | hge
        · rw [List.getElem?_eq_getElem hlt] at hg; cases hg
        · exact hge
      rw [List.drop_eq_nil_of_le this]; rfl
    | some b =>
      rw [hg] at h
      have hlt : i < t.length := by
        rcases Nat.lt_or_ge i t.length with hlt | hge
        · exact hlt
        · rw [List.getElem?_eq_none hge] at hg; cases hg
      rw [List.drop_eq_getElem_cons hlt]
      rw [List.getElem?_eq_getElem hlt] at hg
      cases hg
      simpa [pieceOK] using h

theorem pieceOK_append (x y : Text) (hx : pieceOK x = true) (hy : pieceOK y = true) : pieceOK (x ++ y) = true := by
  cases x with
  | nil => simpa using hy
  | cons b bs => simpa [pieceOK] using hx

theorem pieceOK_prefix (x y : Text) (h : pieceOK (x ++ y) = true) : pieceOK x = true := by
  cases x with
  | nil => rfl
  | cons b bs => simpa [pieceOK] using h

/-- slicing a valid text at char boundaries gives a valid text -/
theorem utf8V_bsub (t : Text) (a b : Nat) (hv : Utf8V t) (ht : pieceOK t = true) (hab : a ≤ b) (hb : b ≤ t.length)
    (ha' : isBoundary t a = true) (hb' : isBoundary t b = true) : Utf8V (bsub t a b) ∧ pieceOK (bsub t a b) = true := by
  have hsplit : t.drop a = bsub t a b ++ t.drop b := by
    unfold bsub
    have : t.drop b = (t.drop a).drop (b - a) := by rw [List.drop_drop]; congr 1; omega
    rw [this, List.take_append_drop]
  have hva : Utf8V (t.drop a) := utf8V_suffix (t.take a) _ (by rw [List.take_append_drop]; exact hv)
  have hpa := pieceOK_drop_boundary t a ht ha'
  have hpb := pieceOK_drop_boundary t b ht hb'
  rw [hsplit] at hva hpa
  exact ⟨utf8V_prefix _ _ hva hpb, pieceOK_prefix _ _ hpa⟩

theorem utf8V_flatten : ∀ (ts : List Text), (∀ t ∈ ts, Utf8V t ∧ pieceOK t = true) → Utf8V ts.flatten ∧ pieceOK ts.flatten = true := by
  intro ts
  induction ts with
  | nil => intro _; exact ⟨utf8V_nil, rfl⟩
  | cons t rest ih =>
    intro h
    obtain ⟨a, b⟩ := h t (by simp)
    obtain ⟨c, d⟩ := ih (fun x hx => h x (by simp [hx]))
    simp only [List.flatten_cons]
    exact ⟨utf8V_append _ _ a c, pieceOK_append _ _ b d⟩

end Rope
end Rs
