import RsModel.Lemmas.WarmLines
import RsModel.Lemmas.HistoryAnswers
/-!
# Every call history, columns = false: normal-mode streams at file-and-line granularity
-/
namespace Rs

/-- every normal-mode stream with columns = false of every history: for every generated line, the first mapped chunk resolves to the
same file name and original line as in the cache-free tree's stream -/
theorem history_stream_lname (s : Src) (hk : s.NoCR) (hn : s.ids.Nodup) (σ : Store) (hc : Cold σ s.ids) (hw : s.WF) (hp : s.PosHyp false)
    (h : s.WarmHypL) (calls : List Opts) (k : Nat) (hcall : calls[k]? = some ⟨false, false⟩) :
    ∃ r, (runCalls s calls σ).1[k]? = some r ∧ ∀ L, LNameOf r.evs L = LNameOf (s.strip.stream ⟨false, false⟩ []).1.evs L := by
  refine ⟨_, runCalls_results s hk hn σ hc calls k _ hcall, ?_⟩
  intro L
  unfold answerOf
  split
  · exact warmL_lname s hw hp h (Src.noCR_cachedOK s hk) L
  · rfl

end Rs
