import RsModel.Lemmas.WarmMap
import RsModel.Spec.RootCalls
import RsModel.Lemmas.ReplayMap
/-!
# Call histories on a CachedSource wrapper itself: `map()` and `stream_chunks` share one cache entry (C10)

An outside caller can call `map(columns)` and `stream_chunks(columns)` (always `final_source = false`) on the wrapper and on its
clones; both use the entry keyed `(columns, false)`.  Whichever call comes first fills it: `map()` stores the wrapped source's own
map, `stream_chunks` stores the map re-encoded from the streamed chunks.  Later `map()` calls return the entry, later
`stream_chunks` calls replay the text through it.  For columns = true and a cache-free wrapped tree: in every history, of any
length, every stream attributes every byte exactly as the wrapped source's stream does, and every `map()` returns one of the two
maps, each of which resolves every position exactly as that stream does.
-/
namespace Rs

/-- the wrapped source's own map (what `map()` stores) and the map re-encoded from its normal-mode stream (what streaming stores) -/
def mapFill (inner : Src) : Option SMap := (getMap inner ⟨true, false⟩ []).1
def streamFill (inner : Src) : Option SMap := mapOfEvs true (inner.stream ⟨true, false⟩ []).1.evs

/-- the entry is absent, or one of the two fills -/
def RootInv (id : Nat) (inner : Src) (σ : Store) : Prop :=
  σ.get? (rootKey id) = none ∨ σ.get? (rootKey id) = some (mapFill inner) ∨ σ.get? (rootKey id) = some (streamFill inner)

structure RootHyp (inner : Src) : Prop where
  nc : inner.NoCached
  mode : inner.ModeHypC
  ascii : IsAscii inner.src
  len : inner.src.length ≤ USIZE_MAX
  smallF : ∀ m ∈ chunkMs (inner.stream ⟨true, true⟩ []).1.evs, m.small
  smallN : ∀ m ∈ chunkMs (inner.stream ⟨true, false⟩ []).1.evs, m.small
  /-- the wrapped source's `map()` is `get_map` (OriginalSource, ConcatSource, ReplaceSource with replacements, combined SourceMapSource) -/
  isGetMap : ∀ σ, inner.map ⟨true, false⟩ σ = getMap inner ⟨true, false⟩ σ

theorem getMap_nc (inner : Src) (h : inner.NoCached) (o : Opts) (σ : Store) : getMap inner o σ = ((getMap inner o []).1, σ) := by
  simp only [getMap]
  obtain ⟨a, b⟩ := Src.stream_nc inner ⟨o.columns, true⟩ σ h
  rw [a, b]

/-- replaying either fill attributes every byte like the wrapped source's own stream -/
theorem replay_fill_attr (inner : Src) (h : RootHyp inner) (e : Option SMap) (he : e = mapFill inner ∨ e = streamFill inner) :
    attrOf (match e with
      | some m => streamSM inner.src m ⟨true, false⟩
      | none => streamRaw inner.src ⟨true, false⟩).evs = attrOf (inner.stream ⟨true, false⟩ []).1.evs := by
  obtain ⟨hn, _, _⟩ := nc_facts inner h.nc
  have hcold : Cold [] inner.ids := cold_nil _
  obtain ⟨b1, b2, b3, b4, _, _, b7⟩ := Src.base_factsC inner h.mode hn [] [] hcold hcold
  have hm3 := Src.m3c inner h.mode hn [] [] hcold hcold
  have hraw : attrOf (streamRaw inner.src ⟨true, false⟩).evs = List.replicate inner.src.length none := by
    have hall : ∀ a ∈ attrOf (streamRaw inner.src ⟨true, false⟩).evs, a = none := by
      intro a ha'
      obtain ⟨m, hm1, rfl⟩ := attrOf_mem _ a ha'
      obtain ⟨t, ht⟩ := chunkMs_mem_ev _ m hm1
      simp only [streamRaw, Bool.false_eq_true, if_false] at ht
      exact rawChunks_unmapped _ _ t m ht
    have hlen : (attrOf (streamRaw inner.src ⟨true, false⟩).evs).length = inner.src.length := by
      rw [attrOf_length, streamRaw_text]
    rw [← hlen]; exact List.eq_replicate_iff.2 ⟨rfl, hall⟩
  rcases he with rfl | rfl
  · -- filled by `map()`
    cases hm : mapFill inner with
    | some sm =>
      simp only [streamSM]
      have hmm : sm.mappings = encodeFull (chunkMs (inner.stream ⟨true, true⟩ []).1.evs) := by
        simp only [mapFill, getMap] at hm
        exact mapOfEvs_mappings _ sm hm
      rw [replay_of_final inner.src _ b7 hm3.sorted (Src.strictC inner h.mode hn [] hcold) h.ascii h.len h.smallF sm hmm]
      rw [(lookEq_iff inner.src _ _).1 hm3.look]
      have := attr_of_stream _ b1 b2 b3
      rw [b4] at this
      exact this
    | none =>
      simp only []
      rw [hraw]
      exact ((getMap_attrC inner h.mode hn [] [] hcold hcold false h.smallF).2 hm).symm
  · -- filled by streaming
    cases hm : streamFill inner with
    | some sm =>
      simp only [streamSM]
      have := replay_attr (inner.stream ⟨true, false⟩ []).1 b1 b2 b3 (Src.stream_mappedNE' inner true [])
        (by rw [b4]; exact h.ascii) (by rw [b4]; exact h.len) h.smallN sm (mapOfEvs_mappings _ sm hm)
      rw [b4] at this
      exact this
    | none =>
      simp only []
      have := replay_none (inner.stream ⟨true, false⟩ []).1 b1 b2 b3 h.smallN (mapOfEvs_none _ hm)
      rw [b4] at this
      exact this

theorem rootInv_step (id : Nat) (inner : Src) (h : RootHyp inner) (σ : Store) (hi : RootInv id inner σ) (c : RCall) :
    RootInv id inner (rootCall id inner c σ).2
    ∧ (match (rootCall id inner c σ).1 with
       | .stream r => attrOf r.evs = attrOf (inner.stream ⟨true, false⟩ []).1.evs
       | .map m => m = mapFill inner ∨ m = streamFill inner) := by
  have hs := Src.stream_nc inner ⟨true, false⟩ σ h.nc
  cases c with
  | stream =>
    simp only [rootCall, Src.stream]
    rcases hi with h0 | h1 | h2
    · -- cold: streams the wrapped source and stores the re-encoded map
      simp only [rootKey] at h0
      rw [h0]
      simp only []
      rw [hs.1, hs.2]
      refine ⟨Or.inr (Or.inr ?_), rfl⟩
      simp only [rootKey]
      rw [insertNew_self _ _ _ h0]
      rfl
    · simp only [rootKey] at h1
      rw [h1]
      have := replay_fill_attr inner h (mapFill inner) (Or.inl rfl)
      cases hm : mapFill inner with
      | some sm => rw [hm] at this; exact ⟨Or.inr (Or.inl (by simp only [rootKey]; rw [h1, hm])), this⟩
      | none => rw [hm] at this; exact ⟨Or.inr (Or.inl (by simp only [rootKey]; rw [h1, hm])), this⟩
    · simp only [rootKey] at h2
      rw [h2]
      have := replay_fill_attr inner h (streamFill inner) (Or.inr rfl)
      cases hm : streamFill inner with
      | some sm => rw [hm] at this; exact ⟨Or.inr (Or.inr (by simp only [rootKey]; rw [h2, hm])), this⟩
      | none => rw [hm] at this; exact ⟨Or.inr (Or.inr (by simp only [rootKey]; rw [h2, hm])), this⟩
  | map =>
    simp only [rootCall, Src.map]
    rcases hi with h0 | h1 | h2
    · simp only [rootKey] at h0
      rw [h0]
      simp only []
      rw [h.isGetMap σ, getMap_nc inner h.nc ⟨true, false⟩ σ]
      refine ⟨Or.inr (Or.inl ?_), Or.inl rfl⟩
      simp only [rootKey]
      rw [insertNew_self _ _ _ h0]
      rfl
    · simp only [rootKey] at h1
      rw [h1]
      exact ⟨Or.inr (Or.inl h1), Or.inl rfl⟩
    · simp only [rootKey] at h2
      rw [h2]
      exact ⟨Or.inr (Or.inr h2), Or.inr rfl⟩

/-- **every call of every history on the wrapper** (columns = true) -/
theorem runRoot_answers (id : Nat) (inner : Src) (h : RootHyp inner) : ∀ (calls : List RCall) (σ : Store), RootInv id inner σ →
    ∀ a ∈ (runRoot id inner calls σ).1,
      (match a with
       | .stream r => attrOf r.evs = attrOf (inner.stream ⟨true, false⟩ []).1.evs
       | .map m => m = mapFill inner ∨ m = streamFill inner) := by
  intro calls
  induction calls with
  | nil => intro σ _ a ha; simp [runRoot] at ha
  | cons c cs ih =>
    intro σ hi a ha
    obtain ⟨s1, s2⟩ := rootInv_step id inner h σ hi c
    simp only [runRoot, List.mem_cons] at ha
    rcases ha with rfl | ha
    · exact s2
    · exact ih _ s1 a ha

/-- both fills resolve every position of `source()` like the wrapped source's stream; and there is none exactly when nothing is mapped -/
theorem fills_resolve (inner : Src) (h : RootHyp inner) (m : Option SMap) (hm : m = mapFill inner ∨ m = streamFill inner) :
    (∀ sm, m = some sm → attrFrom (decode sm.mappings) startPos inner.src = attrOf (inner.stream ⟨true, false⟩ []).1.evs)
    ∧ (m = none → attrOf (inner.stream ⟨true, false⟩ []).1.evs = List.replicate inner.src.length none) := by
  obtain ⟨hn, _, _⟩ := nc_facts inner h.nc
  have hcold : Cold [] inner.ids := cold_nil _
  obtain ⟨b1, b2, b3, b4, _, _, _⟩ := Src.base_factsC inner h.mode hn [] [] hcold hcold
  rcases hm with rfl | rfl
  · exact getMap_attrC inner h.mode hn [] [] hcold hcold false h.smallF
  · constructor
    · intro sm hsm
      have hsorted : sortedFrom 1 0 (chunkMs (inner.stream ⟨true, false⟩ []).1.evs) := chunkMs_sorted _ [] b1.1 b3
      have hdec : decode sm.mappings = keptFrom {} (chunkMs (inner.stream ⟨true, false⟩ []).1.evs) := by
        rw [mapOfEvs_mappings _ sm hsm]; exact decode_encode _ h.smallN (linesOK_of_sorted _ 1 0 hsorted)
      have := attr_of_stream _ b1 b2 b3
      rw [b4] at this
      rw [← this]
      apply attrFrom_congr
      intro q _ _
      rw [hdec]
      unfold lookupCols
      exact kept_lookupGo q.line q.col _ {} none none hsorted ⟨rfl, fun _ => rfl, fun _ => rfl, fun _ => rfl, fun h => by simp at h⟩
    · intro hnone
      have := replay_none (inner.stream ⟨true, false⟩ []).1 b1 b2 b3 h.smallN (mapOfEvs_none _ hnone)
      rw [b4] at this
      rw [← this]
      have hall : ∀ a ∈ attrOf (streamRaw inner.src ⟨true, false⟩).evs, a = none := by
        intro a ha'
        obtain ⟨m, hm1, rfl⟩ := attrOf_mem _ a ha'
        obtain ⟨t, ht⟩ := chunkMs_mem_ev _ m hm1
        simp only [streamRaw, Bool.false_eq_true, if_false] at ht
        exact rawChunks_unmapped _ _ t m ht
      have hlen : (attrOf (streamRaw inner.src ⟨true, false⟩).evs).length = inner.src.length := by
        rw [attrOf_length, streamRaw_text]
      rw [← hlen]; exact List.eq_replicate_iff.2 ⟨rfl, hall⟩

end Rs
