import RsModel.Lemmas.ProvChunks
import RsModel.Lemmas.LinesTree
/-!
# C04 with columns = false: every output line is attributed to the file and line of the first original text on it

In lines mode an OriginalSource delivers one chunk per line of its text, mapped to (its file, that line, column 0); raw text is
unmapped; ConcatSource renumbers.  `ProvOK` — the provenance invariant of `ProvChunks.lean` — holds for these streams as well, the
"token" of a chunk being the whole line.  The lines-only map `map(columns = false)` writes, per generated line, the first mapped
chunk on it (C12 lines, C03 lines): so a generated line resolves to the file and original line of the first OriginalSource text on it.
-/
namespace Rs

theorem origLineChunks_tokAt : ∀ (ls : List Text), Lines ls → ∀ (pre : Text) (l : Nat), adv startPos pre = ⟨l, 0⟩ →
    ∀ e ∈ origLineChunks l ls, ∃ t m, e = Ev.chunk t m ∧
      ∃ tok a k, t = some tok ∧ m.orig = some a ∧ TokAt (pre ++ ls.flatten) tok a k ∧ a.name = none := by
  intro ls h
  induction h with
  | nil => intro pre l _ e he; simp [origLineChunks] at he
  | last t hne hno =>
    intro pre l hp e he
    simp only [origLineChunks, List.mem_singleton] at he
    subst he
    refine ⟨some t, _, rfl, t, ⟨0, l, 0, none⟩, pre.length, rfl, rfl, ⟨?_, ?_, ⟨t, hno, Or.inl rfl⟩, hne, rfl, ?_⟩, rfl⟩
    · have := List.length_pos_iff.2 hne; simp; omega
    · simp
    · rw [List.take_left' rfl]; exact hp
  | lastNL t hno =>
    intro pre l hp e he
    simp only [origLineChunks, List.mem_singleton] at he
    subst he
    refine ⟨some (t ++ [NL]), _, rfl, t ++ [NL], ⟨0, l, 0, none⟩, pre.length, rfl, rfl, ⟨?_, ?_, ⟨t, hno, Or.inr rfl⟩, by simp, rfl, ?_⟩, rfl⟩
    · simp
    · simp
    · rw [List.take_left' rfl]; exact hp
  | cons t rest hno hrne _ ih =>
    intro pre l hp e he
    simp only [origLineChunks, List.mem_cons] at he
    rcases he with rfl | he
    · refine ⟨some (t ++ [NL]), _, rfl, t ++ [NL], ⟨0, l, 0, none⟩, pre.length, rfl, rfl, ⟨?_, ?_, ⟨t, hno, Or.inr rfl⟩, by simp, rfl, ?_⟩, rfl⟩
      · simp; omega
      · simp [List.flatten_cons]
      · rw [List.take_left' rfl]; exact hp
    · have hnext : adv startPos (pre ++ (t ++ [NL])) = ⟨l + 1, 0⟩ := by rw [adv_append, hp, adv_line t _ hno]
      obtain ⟨tt, m, e1, tok, a, k, e2, e3, e4, e5⟩ := ih (pre ++ (t ++ [NL])) (l + 1) hnext e he
      refine ⟨tt, m, e1, tok, a, k, e2, e3, ?_, e5⟩
      simpa [List.flatten_cons, List.append_assoc] using e4

theorem streamOriginal_provOK_lines (T name : Text) : ProvOK emptyS (streamOriginal T name ⟨false, false⟩).evs := by
  simp only [streamOriginal, Bool.false_eq_true, if_false]
  simp only [ProvOK]
  apply provOK_chunks _ T name (by simp [upd])
  intro e he
  obtain ⟨t, m, e1, tok, a, k, e2, e3, e4, e5⟩ := origLineChunks_tokAt (splitLines T) (lines_of_splitLines T) [] 1 rfl e he
  rw [List.nil_append, splitLines_join] at e4
  exact ⟨t, m, e1, Or.inr ⟨tok, a, k, e2, e3, e4, e5⟩⟩

theorem streamRaw_provOK' (t : Text) (c : Bool) (S : SrcTbl) : ProvOK S (streamRaw t ⟨c, false⟩).evs := by
  simp only [streamRaw, Bool.false_eq_true, if_false]
  apply provOK_unmapped
  intro e he
  have : ∀ (ls : List Text) (l : Nat), ∀ e ∈ rawChunks l ls, ∃ t m, e = Ev.chunk t m ∧ m.orig = none := by
    intro ls
    induction ls with
    | nil => intro l e h; cases h
    | cons x xs ih =>
      intro l e h
      simp only [rawChunks, List.mem_cons] at h
      rcases h with rfl | h
      · exact ⟨_, _, rfl, rfl⟩
      · exact ih _ e h
  exact this _ _ e he

mutual
theorem Src.stream_provL (cons : Text → Option Text) : ∀ (s : Src), s.OrigTree → Src.WD cons false s → ∀ σ,
    ProvOK emptyS (s.stream ⟨false, false⟩ σ).1.evs
  | .raw _ _ lossy, _, _, σ => by simp only [Src.stream]; exact streamRaw_provOK' lossy _ _
  | .rawStr t, _, _, σ => by simp only [Src.stream]; exact streamRaw_provOK' t _ _
  | .rawBuf _ lossy, _, _, σ => by simp only [Src.stream]; exact streamRaw_provOK' lossy _ _
  | .orig t name, _, _, σ => by simp only [Src.stream]; exact streamOriginal_provOK_lines t name
  | .sms .., h, _, _ | .replace .., h, _, _ | .cached .., h, _, _ => by simp [Src.OrigTree] at h
  | .concat .nil, _, _, σ => by
    simp only [Src.stream]; exact concatStream_prov cons [] (by simp)
  | .concat (.cons s rest), ho, hw, σ => by
    simp only [Src.OrigTree, SrcList.OrigTrees] at ho
    simp only [Src.WD, SrcList.WD] at hw
    cases hr : rest with
    | nil =>
      simp only [Src.stream]
      exact Src.stream_provL cons s ho.1 hw.1 σ
    | cons s2 rest2 =>
      simp only [Src.stream]
      rw [hr] at ho hw
      apply concatStream_prov cons
      intro x hx
      simp only [List.mem_cons] at hx
      rcases hx with rfl | hx
      · exact ⟨Src.stream_wd cons false s hw.1 σ, Src.stream_tl s false σ, Src.stream_provL cons s ho.1 hw.1 σ⟩
      · exact ⟨SrcList.streams_wd cons false (.cons s2 rest2) hw.2 _ x hx, SrcList.streams_mem_tl _ false _ x hx,
          SrcList.streams_provL cons (.cons s2 rest2) ho.2 hw.2 _ x hx⟩
theorem SrcList.streams_provL (cons : Text → Option Text) : ∀ (l : SrcList), l.OrigTrees → SrcList.WD cons false l → ∀ σ,
    ∀ r ∈ (l.streams ⟨false, false⟩ σ).1, ProvOK emptyS r.evs
  | .nil, _, _, σ => by intro r hr; simp [SrcList.streams] at hr
  | .cons s rest, ho, hw, σ => by
    simp only [SrcList.OrigTrees] at ho
    simp only [SrcList.WD] at hw
    intro r hr
    simp only [SrcList.streams, List.mem_cons] at hr
    rcases hr with rfl | hr
    · exact Src.stream_provL cons s ho.1 hw.1 σ
    · exact SrcList.streams_provL cons rest ho.2 hw.2 _ r hr
end


mutual
theorem Src.origTree_modeL : ∀ (s : Src), s.OrigTree → s.ModeHypL
  | .raw .., _ | .rawStr .., _ | .rawBuf .., _ | .orig .., _ => trivial
  | .concat cs, h => by simp only [Src.OrigTree] at h; simp only [Src.ModeHypL]; exact SrcList.origTrees_modeL cs h
  | .sms .., h | .replace .., h | .cached .., h => by simp [Src.OrigTree] at h
theorem SrcList.origTrees_modeL : ∀ (l : SrcList), l.OrigTrees → l.ModeHypsL
  | .nil, _ => trivial
  | .cons s r, h => by simp only [SrcList.OrigTrees] at h; exact ⟨Src.origTree_modeL s h.1, SrcList.origTrees_modeL r h.2⟩
end

/-- the provenance of one chunk, through the files the whole stream announces -/
theorem provOK_at : ∀ (evs : List Ev) (S : SrcTbl) (ns nn : Nat), ProvOK S evs → DeclOK ns nn evs → (∀ i, ns ≤ i → S i = none) →
    ∀ t m a, Ev.chunk t m ∈ evs → m.orig = some a →
      ∃ name T tok k, tblS S evs a.src = some (name, some T) ∧ t = some tok ∧ TokPos T tok a.line a.col k := by
  intro evs
  induction evs with
  | nil => intro S ns nn _ _ _ t m a h; cases h
  | cons e es ih =>
    intro S ns nn hp hd hS t m a hm ha
    cases e with
    | chunk t0 m0 =>
      simp only [tblS]
      rcases List.mem_cons.1 hm with h | h
      · cases h
        obtain ⟨name, T, tok, k, h1, h2, h3, _⟩ := hp.1 a ha
        exact ⟨name, T, tok, k, (tblS_mono es ns nn S hd.2 hS).1 _ _ h1, h2, h3⟩
      · exact ih S ns nn hp.2 hd.2 hS t m a h ha
    | source i s c =>
      obtain ⟨rfl, hd2⟩ := hd
      simp only [tblS]
      rcases List.mem_cons.1 hm with h | h
      · cases h
      · refine ih _ (i + 1) nn hp hd2 ?_ t m a h ha
        intro j hj
        unfold upd
        have : j ≠ i := by omega
        simp only [this, if_false]; exact hS j (by omega)
    | name i n =>
      obtain ⟨rfl, hd2⟩ := hd
      simp only [tblS]
      rcases List.mem_cons.1 hm with h | h
      · cases h
      · exact ih S ns (i + 1) hp hd2 hS t m a h ha

theorem lookupLines_some (ms : List Mapping) (L si ol : Nat) (h : lookupLines ms L = some (si, ol)) :
    ∃ m a, m ∈ ms ∧ m.gl = L ∧ m.orig = some a ∧ a.src = si ∧ a.line = ol := by
  unfold lookupLines at h
  cases hf : ms.find? (fun m => m.gl == L && m.orig.isSome) with
  | none => rw [hf] at h; cases h
  | some m =>
    rw [hf] at h
    simp only [] at h
    have hmem := List.mem_of_find?_eq_some hf
    have hp := List.find?_some hf
    simp only [Bool.and_eq_true, beq_iff_eq] at hp
    cases ho : m.orig with
    | none => rw [ho] at h; cases h
    | some a =>
      rw [ho] at h
      simp only [Option.map_some, Option.some.injEq, Prod.mk.injEq] at h
      exact ⟨m, a, hmem, hp.1, ho, h.1, h.2⟩

/-- **C04, columns = false, through `map()`** (every tree of OriginalSource / raw leaves under ConcatSource): if the SourceMap
returned for `columns = false` resolves the generated line `L` to (source `si`, original line `ol`), then — through the map's
own `sources` / `sourcesContent` — `si` is a file `name` with its exact content `T`, and the *first mapped chunk* the (normal,
lines-mode) stream delivers on line `L` is the line `ln` of `T` that begins at the true position (`ol`, `c`) of `T`: the generated
line is attributed to the file and the original line of the first original text on it. -/
theorem origTree_lines_map (cons : Text → Option Text) (inner : Src) (ho : inner.OrigTree) (hw : Src.WD cons false inner) (final : Bool)
    (hsmall : ∀ m ∈ chunkMs (inner.stream ⟨false, true⟩ []).1.evs, ∀ o, m.orig = some o → o.src < U31 ∧ o.line < U31)
    (sm : SMap) (hm : (getMap inner ⟨false, final⟩ []).1 = some sm) (L si ol : Nat) (hL : 0 < L)
    (hlook : lookupLines (decode sm.mappings) L = some (si, ol)) :
    lookupLines (chunkMs (inner.stream ⟨false, false⟩ []).1.evs) L = some (si, ol)
    ∧ ∃ (name T ln : Text) (c k : Nat) (m : Mapping), sm.sources[si]? = some name ∧ sm.sourcesContent[si]? = some T
        ∧ Ev.chunk (some ln) m ∈ (inner.stream ⟨false, false⟩ []).1.evs ∧ m.gl = L ∧ TokPos T ln ol c k := by
  have hmode := Src.origTree_modeL inner ho
  have hnc := Src.origTree_nc inner ho
  have hnodes := Src.nc_nodes inner hnc
  have hn : inner.ids.Nodup := by simp [Src.ids, hnodes]
  have hcold : Cold [] inner.ids := by intro i hi; simp [Src.ids, hnodes] at hi
  have hlines := getMap_lines inner hmode hn [] [] hcold hcold final hsmall sm hm L hL
  rw [hlines] at hlook
  refine ⟨hlook, ?_⟩
  obtain ⟨m, a, hmem, hgl, hmo, ha1, ha2⟩ := lookupLines_some _ L si ol hlook
  obtain ⟨t, ht⟩ := chunkMs_mem_ev _ m hmem
  have hprov := Src.stream_provL cons inner ho hw []
  obtain ⟨_, _, _, _, b5, _, _⟩ := Src.base_factsL inner hmode hn [] [] hcold hcold
  obtain ⟨name, T, tok, k, h1, h2, h3⟩ := provOK_at _ emptyS 0 0 hprov b5 (fun i _ => rfl) t m a ht hmo
  subst h2
  -- the tables of the map are the tables the normal stream ends with
  have hAC := Src.origTree_allContent inner ⟨false, false⟩ [] ho
  have hrel := mapAcc_tblRel (inner.stream ⟨false, false⟩ []).1.evs 0 0 {} emptyS emptyN b5 hAC
    ⟨rfl, rfl, rfl, fun i hi => by omega, fun i hi => by omega⟩
  have hm3 := Src.m3l inner hmode hn [] [] hcold hcold
  obtain ⟨d1, d2, d3⟩ := mapAcc_decls (inner.stream ⟨false, true⟩ []).1.evs {}
  obtain ⟨e1, e2, e3⟩ := mapAcc_decls (inner.stream ⟨false, false⟩ []).1.evs {}
  have hsm : sm.sources = ((inner.stream ⟨false, false⟩ []).1.evs.foldl mapAccEv {}).sources
      ∧ sm.sourcesContent = ((inner.stream ⟨false, false⟩ []).1.evs.foldl mapAccEv {}).contents := by
    simp only [getMap, mapOfEvs] at hm
    split at hm
    · cases hm
    · simp only [Option.some.injEq] at hm
      rw [← hm]
      simp only
      rw [d1, d2, e1, e2, hm3.decls]; exact ⟨rfl, rfl⟩
  obtain ⟨r1, r2, r3, r4, r5⟩ := hrel
  have hidx := declOK_chunkMs _ 0 0 b5 m hmem a hmo
  simp only [Nat.zero_add] at hidx r4
  have hfile := r4 a.src hidx.1
  rw [h1] at hfile
  have hS : sm.sources[a.src]? = some name ∧ sm.sourcesContent[a.src]? = some T := by
    rw [hsm.1, hsm.2]
    cases hq : (((inner.stream ⟨false, false⟩ []).1.evs.foldl mapAccEv {}).sources)[a.src]? with
    | none => rw [hq] at hfile; simp at hfile
    | some f =>
      rw [hq] at hfile
      simp only [Option.map_some, Option.some.injEq, Prod.mk.injEq] at hfile
      exact ⟨by rw [hfile.1], hfile.2.symm⟩
  rw [ha1] at hS
  rw [ha2] at h3
  exact ⟨name, T, tok, a.col, k, m, hS.1, hS.2, ht, hgl, h3⟩

end Rs
