import RsModel.Lemmas.Decl
/-! # DeclOK for the map-driven splitters (all four modes) -/
namespace Rs

/-- the segments reference existing sources / names ("consistent map") -/
def MapIdxOK (sm : SMap) : Prop := ∀ m ∈ decode sm.mappings, ∀ o, m.orig = some o → IdxLt sm.sources.length sm.names.length o

theorem sourceEvs_decl (f : Nat → Text) (g : Nat → Option Text) : ∀ (n s nn : Nat),
    DeclOK s nn ((List.range' s n).map fun i => Ev.source i (f i) (g i)) ∧ cntS ((List.range' s n).map fun i => Ev.source i (f i) (g i)) = n
    ∧ cntN ((List.range' s n).map fun i => Ev.source i (f i) (g i)) = 0 := by
  intro n
  induction n with
  | zero => intro s nn; exact ⟨trivial, rfl, rfl⟩
  | succ n ih =>
    intro s nn
    obtain ⟨a, b, c⟩ := ih (s + 1) nn
    simp only [List.range'_succ, List.map_cons, DeclOK, cntS, cntN]
    exact ⟨⟨trivial, a⟩, by omega, c⟩

theorem nameEvs_decl (f : Nat → Text) : ∀ (n ns s : Nat),
    DeclOK ns s ((List.range' s n).map fun i => Ev.name i (f i)) ∧ cntS ((List.range' s n).map fun i => Ev.name i (f i)) = 0
    ∧ cntN ((List.range' s n).map fun i => Ev.name i (f i)) = n := by
  intro n
  induction n with
  | zero => intro ns s; exact ⟨trivial, rfl, rfl⟩
  | succ n ih =>
    intro ns s
    obtain ⟨a, b, c⟩ := ih ns (s + 1)
    simp only [List.range'_succ, List.map_cons, DeclOK, cntS, cntN]
    exact ⟨⟨trivial, a⟩, b, by omega⟩

theorem smSourceEvs_decl (sm : SMap) (nn : Nat) :
    DeclOK 0 nn (smSourceEvs sm) ∧ cntS (smSourceEvs sm) = sm.sources.length ∧ cntN (smSourceEvs sm) = 0 := by
  unfold smSourceEvs
  rw [List.range_eq_range']
  exact sourceEvs_decl _ _ _ 0 nn

theorem smNameEvs_decl (sm : SMap) (ns : Nat) :
    DeclOK ns 0 (smNameEvs sm) ∧ cntS (smNameEvs sm) = 0 ∧ cntN (smNameEvs sm) = sm.names.length := by
  unfold smNameEvs
  rw [List.range_eq_range']
  exact nameEvs_decl _ _ ns 0

/-! ### the chunks carry original locations taken from the segments -/

theorem optChunk_origs (P : Orig → Prop) (ch : Text) (m : Mapping) (h : ∀ o, m.orig = some o → P o) :
    ChunkOrigs P (if ch.isEmpty then [] else [Ev.chunk (some ch) m]) := by
  split
  · exact chunkOrigs_nil P
  · exact chunkOrigs_single P _ _ h

theorem smWholeLines_origs (P : Orig → Prop) (lines : List Text) (a b : Nat) : ChunkOrigs P (smWholeLines lines a b) := by
  intro e he
  simp only [smWholeLines, List.mem_flatten, List.mem_map, List.mem_range] at he
  obtain ⟨l, ⟨k, _, rfl⟩, he⟩ := he
  split at he
  · simp only [List.mem_singleton] at he
    exact ⟨_, _, he, fun o ho => by cases ho⟩
  · simp at he

theorem smFullStep_origs (P : Orig → Prop) (lines : List Text) (fl fc : Nat) (s : FullSt) (m : Mapping)
    (hs : ∀ o, s.orig = some o → P o) (hm : ∀ o, m.orig = some o → P o) :
    ChunkOrigs P (smFullStep lines fl fc s m).2 ∧ ∀ o, (smFullStep lines fl fc s m).1.orig = some o → P o := by
  unfold smFullStep
  split
  · exact ⟨chunkOrigs_nil P, hs⟩
  · have h1 : ChunkOrigs P (smStep1 lines s m).2 ∧ (smStep1 lines s m).1.orig = s.orig := by
      unfold smStep1
      split
      · split
        · exact ⟨optChunk_origs P _ _ hs, rfl⟩
        · exact ⟨optChunk_origs P _ _ hs, rfl⟩
      · exact ⟨chunkOrigs_nil P, rfl⟩
    have h2 : ∀ s1, ChunkOrigs P (smStep2 lines s1 m).2 ∧ (smStep2 lines s1 m).1.orig = s1.orig := by
      intro s1
      unfold smStep2
      split
      · refine ⟨?_, rfl⟩
        split
        · exact chunkOrigs_single P _ _ (fun o ho => by cases ho)
        · exact chunkOrigs_nil P
      · exact ⟨chunkOrigs_nil P, rfl⟩
    have h4 : ∀ s3, ChunkOrigs P (smStep4 lines s3 m).2 ∧ (smStep4 lines s3 m).1.orig = s3.orig := by
      intro s3
      unfold smStep4
      split
      · refine ⟨?_, rfl⟩
        split
        · exact chunkOrigs_single P _ _ (fun o ho => by cases ho)
        · exact chunkOrigs_nil P
      · exact ⟨chunkOrigs_nil P, rfl⟩
    dsimp only
    refine ⟨?_, ?_⟩
    · exact chunkOrigs_append P _ _ (chunkOrigs_append P _ _ (chunkOrigs_append P _ _ h1.1 (h2 _).1) (smWholeLines_origs P _ _ _)) (h4 _).1
    · intro o ho
      unfold smStep5 at ho
      split at ho
      · rename_i o' ho'
        split at ho
        · simp only [Option.some.injEq] at ho; subst ho; exact hm o' ho'
        · rw [(h4 _).2] at ho
          simp only at ho
          rw [(h2 _).2, h1.2] at ho
          exact hs o ho
      · rw [(h4 _).2] at ho
        simp only at ho
        rw [(h2 _).2, h1.2] at ho
        exact hs o ho

theorem smFullGo_origs (P : Orig → Prop) (lines : List Text) (fl fc : Nat) : ∀ (ms : List Mapping) (s : FullSt),
    (∀ o, s.orig = some o → P o) → (∀ m ∈ ms, ∀ o, m.orig = some o → P o) → ChunkOrigs P (smFullGo lines fl fc s ms) := by
  intro ms
  induction ms with
  | nil => intro s _ _; exact chunkOrigs_nil P
  | cons m ms ih =>
    intro s hs hm
    obtain ⟨a, b⟩ := smFullStep_origs P lines fl fc s m hs (hm m (by simp))
    simp only [smFullGo]
    exact chunkOrigs_append P _ _ a (ih _ b (fun x hx => hm x (by simp [hx])))

theorem smFinalGo_origs (P : Orig → Prop) (r : Info) : ∀ (ms : List Mapping) (act : Nat),
    (∀ m ∈ ms, ∀ o, m.orig = some o → P o) → ChunkOrigs P (smFinalGo r act ms) := by
  intro ms
  induction ms with
  | nil => intro act _; exact chunkOrigs_nil P
  | cons m ms ih =>
    intro act hm
    have hrest := fun x hx => hm x (List.mem_cons_of_mem m hx)
    simp only [smFinalGo]
    split
    · exact ih act hrest
    · split
      · exact chunkOrigs_cons P _ _ _ (hm m (by simp)) (ih _ hrest)
      · split
        · exact chunkOrigs_cons P _ _ _ (fun o ho => by cases ho) (ih _ hrest)
        · exact ih _ hrest

theorem smLinesFullGo_origs (ns : Nat) (lines : List Text) : ∀ (ms : List Mapping) (cur : Nat),
    (∀ m ∈ ms, ∀ o, m.orig = some o → o.src < ns) → ChunkOrigs (IdxLt ns 0) (smLinesFullGo lines cur ms).1 := by
  intro ms
  induction ms with
  | nil => intro cur _; exact chunkOrigs_nil _
  | cons m ms ih =>
    intro cur hm
    have hrest := fun x hx => hm x (List.mem_cons_of_mem m hx)
    simp only [smLinesFullGo]
    split
    · exact ih cur hrest
    · rename_i o ho
      split
      · exact ih cur hrest
      · dsimp only
        apply chunkOrigs_append _ _ _ (smWholeLines_origs _ _ _ _)
        exact chunkOrigs_cons _ _ _ _ (fun o' ho' => by
          simp only [Option.some.injEq] at ho'; subst ho'
          exact ⟨hm m (by simp) o ho, fun k hk => by cases hk⟩) (ih _ hrest)

theorem smLinesFinalGo_origs (ns : Nat) (fl : Nat) : ∀ (ms : List Mapping) (cur : Nat),
    (∀ m ∈ ms, ∀ o, m.orig = some o → o.src < ns) → ChunkOrigs (IdxLt ns 0) (smLinesFinalGo fl cur ms) := by
  intro ms
  induction ms with
  | nil => intro cur _; exact chunkOrigs_nil _
  | cons m ms ih =>
    intro cur hm
    have hrest := fun x hx => hm x (List.mem_cons_of_mem m hx)
    simp only [smLinesFinalGo]
    split
    · rename_i o ho
      split
      · exact chunkOrigs_cons _ _ _ _ (fun o' ho' => by
          simp only [Option.some.injEq] at ho'; subst ho'
          exact ⟨hm m (by simp) o ho, fun k hk => by cases hk⟩) (ih _ hrest)
      · exact ih _ hrest
    · exact ih _ hrest

/-- **SourceMapSource leaf, all four modes** -/
theorem streamSM_declOK (t : Text) (sm : SMap) (o : Opts) (h : MapIdxOK sm) : DeclOK 0 0 (streamSM t sm o).evs := by
  obtain ⟨s1, s2, s3⟩ := smSourceEvs_decl sm 0
  obtain ⟨n1, n2, n3⟩ := smNameEvs_decl sm sm.sources.length
  have hsrc : ∀ m ∈ decode sm.mappings, ∀ o, m.orig = some o → o.src < sm.sources.length := fun m hm o ho => (h m hm o ho).1
  unfold streamSM
  split
  · -- columns, final
    unfold streamSMFinal
    dsimp only
    split
    · trivial
    · rw [declOK_append, declOK_append]
      refine ⟨⟨s1, ?_⟩, ?_⟩
      · rw [s2, s3]; simpa using n1
      · rw [cntS_append, cntN_append, s2, s3, n2, n3]
        simp only [Nat.zero_add, Nat.add_zero]
        exact declOK_chunks _ _ _ (smFinalGo_origs _ _ _ _ h)
  · -- columns, normal
    unfold streamSMFull
    dsimp only
    split
    · trivial
    · rw [declOK_append, declOK_append]
      refine ⟨⟨s1, ?_⟩, ?_⟩
      · rw [s2, s3]; simpa using n1
      · rw [cntS_append, cntN_append, s2, s3, n2, n3]
        simp only [Nat.zero_add, Nat.add_zero]
        apply declOK_chunks
        apply smFullGo_origs _ _ _ _ _ _ (fun o ho => by cases ho)
        intro m hm
        rcases List.mem_append.1 hm with hm | hm
        · exact h m hm
        · simp only [List.mem_singleton] at hm; subst hm; intro o ho; cases ho
  · -- lines, final
    unfold streamSMLinesFinal
    dsimp only
    split
    · trivial
    · rw [declOK_append]
      refine ⟨s1, ?_⟩
      rw [s2, s3]
      simp only [Nat.zero_add]
      exact declOK_chunks _ _ _ (smLinesFinalGo_origs _ _ _ _ hsrc)
  · -- lines, normal
    unfold streamSMLinesFull
    dsimp only
    split
    · trivial
    · rw [declOK_append, declOK_append]
      refine ⟨⟨s1, ?_⟩, ?_⟩
      · rw [s2, s3]
        simp only [Nat.zero_add]
        exact declOK_chunks _ _ _ (smLinesFullGo_origs _ _ _ _ hsrc)
      · exact declOK_chunks _ _ _ (smWholeLines_origs _ _ _ _)

end Rs
