import RsModel.Lemmas.ProvRepl
import RsModel.Lemmas.ReplaceTexts
/-!
# C04 with ReplaceSource inside ReplaceSource

`SurvQ G`: a mapped chunk is a *surviving piece of its original file at its true position* — the bytes `T[q..q')` inside one
potential token, attributed to the true line and column of byte `q`, each of its bytes at the column plus its offset — or it is
generated text satisfying `G` (the property's don't-care: replacement content, about whose attribution nothing is claimed).

A ReplaceSource keeps this for ANY inner stream that has it (`rEvs_survQ`): a surviving piece is cut into surviving pieces (the
recorded content spells it out, so columns advance exactly), and generated text stays generated text — whatever columns the
ReplaceSource computes for its pieces.  So it holds for every cache-free tree of raw / OriginalSource leaves under ConcatSource
and ReplaceSource nodes nested in any way.
-/
namespace Rs

def SurvQ (G : Text → Prop) (T : Text) (t : Option Text) (l c : Nat) : Prop :=
  (∃ q q', q < q' ∧ q' ≤ T.length ∧ adv startPos (T.take q) = ⟨l, c⟩ ∧ t = some (bsub T q q')
      ∧ (∀ j, j < q' - q → adv startPos (T.take (q + j)) = ⟨l, c + j⟩)
      ∧ ∃ tok k0 l0 c0, TokPos T tok l0 c0 k0 ∧ k0 ≤ q ∧ q' ≤ k0 + tok.length)
  ∨ (∃ cl, t = some cl ∧ G cl)

theorem survQ_mono (G G' : Text → Prop) (h : ∀ cl, G cl → G' cl) (T : Text) (t : Option Text) (l c : Nat) (hq : SurvQ G T t l c) : SurvQ G' T t l c := by
  rcases hq with h3 | ⟨cl, e, g⟩
  · exact Or.inl h3
  · exact Or.inr ⟨cl, e, h cl g⟩

theorem survQ_of_trueQ (G : Text → Prop) (T : Text) (t : Option Text) (l c : Nat) (hq : TrueQ G T t l c) : SurvQ G T t l c := by
  obtain ⟨q, _, h2, h3⟩ := hq
  rcases h3 with ⟨q', a1, a2, a3, a4, a5⟩ | h3
  · exact Or.inl ⟨q, q', a1, a2, h2, a3, a4, a5⟩
  · exact Or.inr h3

/-- a piece of a potential token, at its own true position, is a potential token there -/
theorem tokPos_piece (T tok : Text) (l0 c0 k0 q q' l c : Nat) (h : TokPos T tok l0 c0 k0) (h1 : k0 ≤ q) (h2 : q < q') (h3 : q' ≤ k0 + tok.length)
    (hpos : adv startPos (T.take q) = ⟨l, c⟩) : TokPos T (bsub T q q') l c q := by
  have hlen : k0 + tok.length ≤ T.length := by
    obtain ⟨r, hr⟩ := h.pre
    have := congrArg List.length hr
    have hk := h.lt
    simp only [List.length_append, List.length_drop] at this
    omega
  have hb := bsub_of_prefix_drop T tok k0 (q - k0) (q' - k0) h.pre (by omega)
  rw [show k0 + (q - k0) = q by omega, show k0 + (q' - k0) = q' by omega] at hb
  refine ⟨by omega, by unfold bsub; exact List.take_prefix _ _, by rw [← hb]; exact tokOK_bsub tok h.ok _ _, ?_, hpos⟩
  intro he
  have := bsub_length T q q' (by omega) (by omega)
  rw [he] at this
  simp at this
  omega

/-- slices of lines of replacement contents -/
def GenIn (rs : List Repl) (x : Text) : Prop := ∃ r ∈ rs, ∃ cl ∈ splitLines r.content, ∃ p q, p < q ∧ q ≤ cl.length ∧ x = bsub cl p q

theorem bsub_bsub (t : Text) (p q p' q' : Nat) (hq : q ≤ t.length) (h' : q' ≤ q - p) : bsub (bsub t p q) p' q' = bsub t (p + p') (p + q') := by
  unfold bsub
  rw [List.drop_take, List.drop_drop, List.take_take]
  congr 1
  omega

theorem genIn_slice (rs : List Repl) (x : Text) (h : GenIn rs x) (p q : Nat) (h1 : p < q) (h2 : q ≤ x.length) : GenIn rs (bsub x p q) := by
  obtain ⟨r, hr, cl, hcl, p0, q0, a1, a2, rfl⟩ := h
  have hl := bsub_length cl p0 q0 (by omega) a2
  rw [hl] at h2
  exact ⟨r, hr, cl, hcl, p0 + p, p0 + q, by omega, by omega, bsub_bsub cl p0 q0 p q a2 h2⟩

theorem genIn_line (rs : List Repl) (r : Repl) (hr : r ∈ rs) (cl : Text) (hcl : cl ∈ splitLines r.content) : GenIn rs cl := by
  have hne := lines_ne _ (lines_of_splitLines r.content) cl hcl
  refine ⟨r, hr, cl, hcl, 0, cl.length, List.length_pos_iff.2 hne, Nat.le_refl _, ?_⟩
  unfold bsub
  simp

/-- **a ReplaceSource over any stream of surviving pieces and generated text delivers surviving pieces and generated text** -/
theorem rEvs_survQ (RS : List Repl) (G : Text → Prop) (hG : ∀ x p q, G x → p < q → q ≤ x.length → G (bsub x p q)) :
    ∀ (evs : List Ev) (st : RSt) (S : SrcTbl), CT st S → ProvQ (SurvQ G) S evs →
    (∀ i name T, S i = some (name, some T) → IsAscii T ∧ T.length < USIZE_MAX) →
    (∀ i s T, Ev.source i s (some T) ∈ evs → IsAscii T ∧ T.length < USIZE_MAX) →
    (∀ r ∈ st.rest, r ∈ RS) →
    ProvQ (SurvQ fun x => G x ∨ GenIn RS x) S (rEvs st evs).2 := by
  intro evs
  induction evs with
  | nil => intro st S _ _ _ _ _; trivial
  | cons e es ih =>
    intro st S hct hp hS hE hrest
    have hE' : ∀ i s T, Ev.source i s (some T) ∈ es → IsAscii T ∧ T.length < USIZE_MAX := fun i s T hm => hE i s T (List.mem_cons_of_mem _ hm)
    simp only [rEvs]
    rw [provQ_append]
    cases e with
    | chunk t m =>
      simp only [rEv]
      have hns := rOnChunk_noSrc st (t.getD []) m
      constructor
      · apply provQ_noSrc _ _ S hns
        intro t' mm hmem y hy
        cases hmo : m.orig with
        | none =>
          have := ((rOnChunk_keeps st (t.getD []) m).1 _ mm hmem).1 hmo
          rw [this] at hy; cases hy
        | some a =>
          obtain ⟨name, T, p1, hs⟩ := hp.1 a hmo
          rcases hs with ⟨q, q', s1, s2, s3, s4, s5, tok0, k0, l0, c0, s6, s7, s8⟩ | ⟨cl, s1, s2⟩
          · subst s4
            have p3 := tokPos_piece T tok0 l0 c0 k0 q q' a.line a.col s6 s7 s1 s8 s3
            have hplen : (bsub T q q').length = q' - q := bsub_length T q q' (by omega) s2
            obtain ⟨hTa, hTl⟩ := hS a.src name T p1
            have hfm := fm_of_tokPos T hTa hTl (bsub T q q') a q p3 st.contents (hct a.src name (some T) p1)
            obtain ⟨p, hpl, ⟨y', y1, y2, y3, y4⟩, hkind⟩ := (rOnChunk_adv RS st (bsub T q q') p3.ne m a hmo hfm hrest).1 _ mm hmem
            rw [y1] at hy
            simp only [Option.some.injEq] at hy
            subst hy
            obtain ⟨q1, q2⟩ := tokPos_advance T (bsub T q q') a.line a.col q p p3 hpl
            refine ⟨name, T, by rw [y2]; exact p1, ?_⟩
            rcases hkind with ⟨qq, hq1, hq2, hq3⟩ | ⟨r, hr, cl, hcl, hq3⟩
            · refine Or.inl ⟨q + p, q + qq, by omega, by omega, by rw [y3, y4]; exact q2,
                by rw [hq3, bsub_of_prefix_drop T (bsub T q q') q p qq p3.pre hq2], ?_, tok0, k0, l0, c0, s6, by omega, by omega⟩
              intro j hj
              have := (tokPos_advance T (bsub T q q') a.line a.col q (p + j) p3 (by omega)).2
              rw [y3, y4, Nat.add_assoc q p j, this, Nat.add_assoc]
            · exact Or.inr ⟨cl, hq3, Or.inr (genIn_line RS r hr cl hcl)⟩
          · subst s1
            obtain ⟨x, hx, hsrc, _⟩ := ((rOnChunk_keeps st ((some cl).getD []) m).1 _ mm hmem).2 y hy
            rw [hmo] at hx
            simp only [Option.some.injEq] at hx
            subst hx
            refine ⟨name, T, by rw [hsrc]; exact p1, Or.inr ?_⟩
            rcases rOnChunk_text RS st cl m hrest t' mm hmem with ⟨p, qq, h1, h2, h3⟩ | ⟨r, hr, cl', hcl', h3⟩
            · exact ⟨_, h3, Or.inl (hG cl p qq s2 h1 h2)⟩
            · exact ⟨cl', h3, Or.inr (genIn_line RS r hr cl' hcl')⟩
      · rw [tblS_noSrc _ S hns]
        have hct' : CT (rOnChunk st (t.getD []) m).1 S := by
          intro i name c hi
          rw [(rOnChunk_keeps st (t.getD []) m).2.1]
          exact hct i name c hi
        exact ih _ S hct' hp.2 hS hE' (fun r hr => hrest r (rOnChunk_restSub st (t.getD []) m r hr))
    | source i s c =>
      simp only [rEv, ProvQ, tblS]
      have hct' : CT ({ st with contents := lmInsert none st.contents i c } : RSt) (upd S i (s, c)) := by
        intro j name cc hj
        unfold upd at hj
        by_cases hji : j = i
        · subst hji
          simp only [if_true, Option.some.injEq, Prod.mk.injEq] at hj
          rw [lm_get_insert]; rw [hj.2]
        · simp only [hji, if_false] at hj
          have := hct j name cc hj
          rw [lm_get_other _ _ _ _ _ (List.getElem?_eq_some_iff.1 this).1 hji]
          exact this
      have hS' : ∀ j name T, upd S i (s, c) j = some (name, some T) → IsAscii T ∧ T.length < USIZE_MAX := by
        intro j name T hj
        unfold upd at hj
        by_cases hji : j = i
        · subst hji
          simp only [if_true, Option.some.injEq, Prod.mk.injEq] at hj
          exact hE j s T (by rw [← hj.2]; simp)
        · simp only [hji, if_false] at hj
          exact hS j name T hj
      exact ⟨trivial, ih _ _ hct' hp hS' hE' hrest⟩
    | name i n =>
      simp only [rEv]
      have hns := globalName_noSrc st.nameMapping n
      constructor
      · apply provQ_noSrc _ _ S hns
        intro t' mm hmem
        exact absurd hmem (globalName_noChunkMem _ _ t' mm)
      · rw [tblS_noSrc _ S hns]
        exact ih _ S (fun j name c hj => hct j name c hj) hp hS hE' hrest


/-! ### the trees: raw / OriginalSource leaves under ConcatSource and ReplaceSource nodes nested in any way -/

mutual
def Src.NestWD (cons : Text → Option Text) : Src → Prop
  | .raw .. => True
  | .rawStr .. => True
  | .rawBuf .. => True
  | .orig t name => cons name = some t
  | .concat cs => cs.NestWDs cons
  | .replace inner _ => inner.NestWD cons
  | _ => False
def SrcList.NestWDs (cons : Text → Option Text) : SrcList → Prop
  | .nil => True
  | .cons s r => s.NestWD cons ∧ r.NestWDs cons
end

mutual
/-- all replacements of all ReplaceSource nodes of the tree -/
def Src.allReplsN : Src → List Repl
  | .concat cs => cs.allReplsNL
  | .replace inner rs => rs ++ inner.allReplsN
  | _ => []
def SrcList.allReplsNL : SrcList → List Repl
  | .nil => []
  | .cons s r => s.allReplsN ++ r.allReplsNL
end

mutual
theorem Src.nestWD_idx (cons : Text → Option Text) : ∀ (s : Src), s.NestWD cons → s.IdxHyp
  | .raw .., _ | .rawStr .., _ | .rawBuf .., _ | .orig .., _ => trivial
  | .concat cs, h => by simp only [Src.NestWD] at h; simp only [Src.IdxHyp]; exact SrcList.nestWDs_idx cons cs h
  | .replace inner rs, h => by simp only [Src.NestWD] at h; simp only [Src.IdxHyp]; exact Src.nestWD_idx cons inner h
  | .sms .., h | .cached .., h => by simp [Src.NestWD] at h
theorem SrcList.nestWDs_idx (cons : Text → Option Text) : ∀ (l : SrcList), l.NestWDs cons → l.IdxHyps
  | .nil, _ => trivial
  | .cons s r, h => ⟨Src.nestWD_idx cons s h.1, SrcList.nestWDs_idx cons r h.2⟩
end

mutual
theorem Src.nestWD_wd (cons : Text → Option Text) : ∀ (s : Src), s.NestWD cons → Src.WD cons true s
  | .raw .., _ | .rawStr .., _ | .rawBuf .., _ => trivial
  | .orig t name, h => h
  | .concat cs, h => by simp only [Src.NestWD] at h; simp only [Src.WD]; exact SrcList.nestWDs_wd cons cs h
  | .replace inner rs, h => by
    simp only [Src.NestWD] at h
    exact Src.wd_replace cons inner rs (Src.nestWD_wd cons inner h) (Src.nestWD_idx cons inner h)
  | .sms .., h | .cached .., h => by simp [Src.NestWD] at h
theorem SrcList.nestWDs_wd (cons : Text → Option Text) : ∀ (l : SrcList), l.NestWDs cons → SrcList.WD cons true l
  | .nil, _ => trivial
  | .cons s r, h => ⟨Src.nestWD_wd cons s h.1, SrcList.nestWDs_wd cons r h.2⟩
end

theorem genIn_mono (a b : List Repl) (h : ∀ r ∈ a, r ∈ b) (x : Text) (hx : GenIn a x) : GenIn b x := by
  obtain ⟨r, hr, rest⟩ := hx
  exact ⟨r, h r hr, rest⟩

theorem replace_survQ (cons : Text → Option Text) (inner : Src) (hw : Src.WD cons true inner) (G : Text → Prop)
    (hG : ∀ x p q, G x → p < q → q ≤ x.length → G (bsub x p q))
    (hasc : ∀ n T, cons n = some T → IsAscii T ∧ T.length < USIZE_MAX) (rs : List Repl) (σ : Store)
    (hin : ProvQ (SurvQ G) emptyS (inner.stream ⟨true, false⟩ σ).1.evs) :
    ProvQ (SurvQ fun x => G x ∨ GenIn rs x) emptyS ((Src.replace inner rs).stream ⟨true, false⟩ σ).1.evs := by
  simp only [Src.stream]
  generalize hr : (inner.stream ⟨true, false⟩ σ).1 = r at hin
  have hwd : WellDecl cons emptyS emptyN r.evs := by rw [← hr]; exact Src.stream_wd cons true inner hw σ
  have hcont := wellDecl_contOK cons _ _ _ hwd
  have hE : ∀ i s T, Ev.source i s (some T) ∈ r.evs → IsAscii T ∧ T.length < USIZE_MAX := by
    intro i s T hm
    exact hasc s T (hcont i s (some T) hm).symm
  simp only [replaceStream]
  rw [provQ_append]
  constructor
  · have := rEvs_survQ (sortRepls rs) G hG r.evs { rest := sortRepls rs } emptyS (fun i name c h => by simp [emptyS] at h) hin
      (fun i name T h => by simp [emptyS] at h) hE (fun r hr => hr)
    refine provQ_mono _ _ (fun T t l c hq => survQ_mono _ _ (fun x hx => ?_) T t l c hq) _ _ this
    rcases hx with hx | hx
    · exact Or.inl hx
    · exact Or.inr (genIn_mono _ _ (fun r h1 => (mem_sortRepls rs r).1 h1) x hx)
  · apply provQ_noSrc _ _ _ (rRemainder_unmapped _ _ _ _).2
    intro t m hm a ha
    rw [(rRemainder_unmapped _ _ _ _).1 t m hm] at ha
    cases ha

mutual
/-- **every cache-free tree of raw / OriginalSource leaves, ConcatSource and ReplaceSource nodes, nested in any way**: each mapped
chunk of its stream is a surviving piece of its file at its true position, or generated text (a slice of a line of the content of
one of the tree's replacements) -/
theorem Src.stream_survQ (cons : Text → Option Text) (hasc : ∀ n T, cons n = some T → IsAscii T ∧ T.length < USIZE_MAX) :
    ∀ (s : Src), s.NestWD cons → ∀ σ, ProvQ (SurvQ (GenIn s.allReplsN)) emptyS (s.stream ⟨true, false⟩ σ).1.evs
  | .raw _ _ lossy, _, σ => by
    simp only [Src.stream]
    exact provQ_mono _ _ (survQ_of_trueQ _) _ _ (provOK_provQ _ _ _ (streamRaw_provOK lossy _))
  | .rawStr t, _, σ => by
    simp only [Src.stream]
    exact provQ_mono _ _ (survQ_of_trueQ _) _ _ (provOK_provQ _ _ _ (streamRaw_provOK t _))
  | .rawBuf _ lossy, _, σ => by
    simp only [Src.stream]
    exact provQ_mono _ _ (survQ_of_trueQ _) _ _ (provOK_provQ _ _ _ (streamRaw_provOK lossy _))
  | .orig t name, _, σ => by
    simp only [Src.stream]
    exact provQ_mono _ _ (survQ_of_trueQ _) _ _ (provOK_provQ _ _ _ (streamOriginal_provOK t name))
  | .sms .., h, _ | .cached .., h, _ => by simp [Src.NestWD] at h
  | .replace inner rs, h, σ => by
    simp only [Src.NestWD] at h
    have hin := Src.stream_survQ cons hasc inner h σ
    have := replace_survQ cons inner (Src.nestWD_wd cons inner h) (GenIn inner.allReplsN) (fun x p q hx h1 h2 => genIn_slice _ x hx p q h1 h2) hasc rs σ hin
    refine provQ_mono _ _ (fun T t l c hq => survQ_mono _ _ (fun x hx => ?_) T t l c hq) _ _ this
    simp only [Src.allReplsN]
    rcases hx with hx | hx
    · exact genIn_mono _ _ (fun r hr => List.mem_append_right _ hr) x hx
    · exact genIn_mono _ _ (fun r hr => List.mem_append_left _ hr) x hx
  | .concat .nil, _, σ => by
    simp only [Src.stream]; exact concatStream_provQ _ cons [] (by simp)
  | .concat (.cons s rest), h, σ => by
    simp only [Src.NestWD, SrcList.NestWDs] at h
    have hw := SrcList.nestWDs_wd cons (.cons s rest) h
    simp only [SrcList.WD] at hw
    have hmono1 : ∀ T t l c, SurvQ (GenIn s.allReplsN) T t l c → SurvQ (GenIn (Src.concat (.cons s rest)).allReplsN) T t l c :=
      fun T t l c hq => survQ_mono _ _ (genIn_mono _ _ (fun r h1 => by simp only [Src.allReplsN, SrcList.allReplsNL, List.mem_append]; exact Or.inl h1)) T t l c hq
    cases hr : rest with
    | nil =>
      simp only [Src.stream]
      have := Src.stream_survQ cons hasc s h.1 σ
      exact provQ_mono _ _ (fun T t l c hq => by rw [← hr]; exact hmono1 T t l c hq) _ _ this
    | cons s2 rest2 =>
      simp only [Src.stream]
      rw [hr] at h hw
      apply concatStream_provQ _ cons
      intro x hx
      simp only [List.mem_cons] at hx
      rcases hx with rfl | hx
      · exact ⟨Src.stream_wd cons true s hw.1 σ, Src.stream_tl s true σ,
          provQ_mono _ _ (fun T t l c hq => by have := hmono1 T t l c hq; rw [hr] at this; exact this) _ _ (Src.stream_survQ cons hasc s h.1 σ)⟩
      · refine ⟨SrcList.streams_wd cons true (.cons s2 rest2) hw.2 _ x hx, SrcList.streams_mem_tl _ true _ x hx, ?_⟩
        have := SrcList.streams_survQ cons hasc (.cons s2 rest2) h.2 _ x hx
        exact provQ_mono _ _ (fun T t l c hq => survQ_mono _ _ (genIn_mono _ _ (fun r h1 => by
          simp only [Src.allReplsN, SrcList.allReplsNL, List.mem_append] at h1 ⊢; exact Or.inr h1)) T t l c hq) _ _ this
theorem SrcList.streams_survQ (cons : Text → Option Text) (hasc : ∀ n T, cons n = some T → IsAscii T ∧ T.length < USIZE_MAX) :
    ∀ (l : SrcList), l.NestWDs cons → ∀ σ, ∀ r ∈ (l.streams ⟨true, false⟩ σ).1, ProvQ (SurvQ (GenIn l.allReplsNL)) emptyS r.evs
  | .nil, _, σ => by intro r hr; simp [SrcList.streams] at hr
  | .cons s rest, h, σ => by
    simp only [SrcList.NestWDs] at h
    intro r hr
    simp only [SrcList.streams, List.mem_cons] at hr
    rcases hr with rfl | hr
    · exact provQ_mono _ _ (fun T t l c hq => survQ_mono _ _ (genIn_mono _ _ (fun r h1 => by
        simp only [SrcList.allReplsNL, List.mem_append]; exact Or.inl h1)) T t l c hq) _ _ (Src.stream_survQ cons hasc s h.1 σ)
    · exact provQ_mono _ _ (fun T t l c hq => survQ_mono _ _ (genIn_mono _ _ (fun r h1 => by
        simp only [SrcList.allReplsNL, List.mem_append]; exact Or.inr h1)) T t l c hq) _ _ (SrcList.streams_survQ cons hasc rest h.2 _ r hr)
end

/-! ### through `map()` -/

mutual
/-- replacements have `start ≤ end`, outputs below 4 GiB — at every ReplaceSource node -/
def Src.NestSized : Src → Prop
  | .concat cs => cs.NestSizeds
  | .replace inner rs => inner.NestSized ∧ (∀ r ∈ rs, r.start ≤ r.stop) ∧ (replaceSource inner.src rs).length + 1 < 2 ^ 32
  | _ => True
def SrcList.NestSizeds : SrcList → Prop
  | .nil => True
  | .cons s r => s.NestSized ∧ r.NestSizeds
end

mutual
theorem Src.nestWD_mode (cons : Text → Option Text) : ∀ (s : Src), s.NestWD cons → s.NestSized → s.ModeHyp
  | .raw .., _, _ | .rawStr .., _, _ | .rawBuf .., _, _ | .orig .., _, _ => trivial
  | .concat cs, h, hz => by simp only [Src.NestWD] at h; simp only [Src.NestSized] at hz; simp only [Src.ModeHyp]; exact SrcList.nestWDs_mode cons cs h hz
  | .replace inner rs, h, hz => by
    simp only [Src.NestWD] at h
    simp only [Src.NestSized] at hz
    exact ⟨Src.nestWD_mode cons inner h hz.1, hz.2.1, hz.2.2⟩
  | .sms .., h, _ | .cached .., h, _ => by simp [Src.NestWD] at h
theorem SrcList.nestWDs_mode (cons : Text → Option Text) : ∀ (l : SrcList), l.NestWDs cons → l.NestSizeds → l.ModeHyps
  | .nil, _, _ => trivial
  | .cons s r, h, hz => ⟨Src.nestWD_mode cons s h.1 hz.1, SrcList.nestWDs_mode cons r h.2 hz.2⟩
end

mutual
theorem Src.nestWD_allContent (cons : Text → Option Text) : ∀ (s : Src) (o : Opts) (σ : Store), s.NestWD cons → AllContent (s.stream o σ).1.evs
  | .raw _ _ lossy, o, σ, _ => Src.origTree_allContent (.raw _ _ lossy) o σ trivial
  | .rawStr t, o, σ, _ => Src.origTree_allContent (.rawStr t) o σ trivial
  | .rawBuf _ lossy, o, σ, _ => Src.origTree_allContent (.rawBuf _ lossy) o σ trivial
  | .orig t name, o, σ, _ => Src.origTree_allContent (.orig t name) o σ trivial
  | .sms .., _, _, h | .cached .., _, _, h => by simp [Src.NestWD] at h
  | .replace inner rs, o, σ, h => by
    simp only [Src.NestWD] at h
    rw [allContent_iff]
    intro i s c hs
    simp only [Src.stream] at hs
    have := ((replaceStream_keeps (sortRepls rs) _).2 i s c).1 hs
    exact (allContent_iff _).1 (Src.nestWD_allContent cons inner ⟨o.columns, false⟩ σ h) i s c this
  | .concat .nil, o, σ, _ => by simp only [Src.stream, concatStream, concatGo]; trivial
  | .concat (.cons s rest), o, σ, h => by
    simp only [Src.NestWD, SrcList.NestWDs] at h
    cases hr : rest with
    | nil => simp only [Src.stream]; exact Src.nestWD_allContent cons s o σ h.1
    | cons s2 rest2 =>
      simp only [Src.stream, concatStream]
      apply concatGo_allContent
      intro c hc
      simp only [List.mem_cons] at hc
      rcases hc with rfl | hc
      · exact Src.nestWD_allContent cons s o σ h.1
      · exact SrcList.nestWDs_allContent cons (.cons s2 rest2) o _ (hr ▸ h.2) c hc
theorem SrcList.nestWDs_allContent (cons : Text → Option Text) : ∀ (l : SrcList) (o : Opts) (σ : Store), l.NestWDs cons → ∀ c ∈ (l.streams o σ).1, AllContent c.evs
  | .nil, o, σ, _ => by intro c hc; simp [SrcList.streams] at hc
  | .cons s r, o, σ, h => by
    simp only [SrcList.NestWDs] at h
    intro c hc
    simp only [SrcList.streams, List.mem_cons] at hc
    rcases hc with rfl | hc
    · exact Src.nestWD_allContent cons s o σ h.1
    · exact SrcList.nestWDs_allContent cons r o _ h.2 c hc
end

/-- **C04 through `map()`, byte by byte, for every cache-free tree of raw / OriginalSource leaves under ConcatSource and
ReplaceSource nodes nested in any way** (ReplaceSource inside ReplaceSource included): if the returned SourceMap resolves the
position of byte `i` of `source()` to `o`, then `o` names — through the map's own `sources` / `sourcesContent` — a file with its
exact content `T`, and the chunk covering byte `i` is a surviving piece `T[q..q')` of that file inside one potential token,
attributed to the true line and column of byte `q`, byte `i` being the original byte `T[q + d]` whose own true position is `o`'s
line and `o`'s column plus `d`; or byte `i` is generated text — a byte of a line of the content of one of the tree's replacements
(the don't-care of the property: nothing is claimed about where generated text is attributed) -/
theorem nestTree_map_bytes (cons : Text → Option Text) (s : Src) (h : s.NestWD cons) (hz : s.NestSized)
    (hasc : ∀ n T, cons n = some T → IsAscii T ∧ T.length < USIZE_MAX) (final : Bool)
    (hsmall : ∀ m ∈ chunkMs (s.stream ⟨true, true⟩ []).1.evs, m.small)
    (sm : SMap) (hm : (getMap s ⟨true, final⟩ []).1 = some sm) :
    ∀ (i : Nat) (o : Orig), (attrFrom (decode sm.mappings) startPos s.src)[i]? = some (some o) →
      ∃ (name T : Text), sm.sources[o.src]? = some name ∧ sm.sourcesContent[o.src]? = some T
        ∧ ((∃ q d, q + d < T.length ∧ adv startPos (T.take q) = ⟨o.line, o.col⟩ ∧ s.src[i]? = T[q + d]?
              ∧ adv startPos (T.take (q + d)) = ⟨o.line, o.col + d⟩
              ∧ ∃ tok k0 l0 c0, TokPos T tok l0 c0 k0 ∧ k0 ≤ q ∧ q + d < k0 + tok.length)
            ∨ (∃ r ∈ s.allReplsN, ∃ cl ∈ splitLines r.content, ∃ e, e < cl.length ∧ s.src[i]? = cl[e]?)) := by
  intro i o hget
  have hmode := Src.nestWD_mode cons s h hz
  obtain ⟨b1, b2, b3, b4, b5, b6, b7⟩ := Src.base_facts _ hmode
  have hm3 := Src.m3 _ hmode
  have hattr := (getMap_attr s hmode final hsmall).1 sm hm
  rw [hattr] at hget
  obtain ⟨t, m, d, hmem, hd, hmo, hbyte⟩ := attrOf_at _ i (some o) hget
  rw [b4] at hbyte
  have hm1 : m ∈ chunkMs (s.stream ⟨true, false⟩ []).1.evs := mem_chunkMs_of_mem' _ _ _ hmem
  have hprov := Src.stream_survQ cons hasc s h []
  obtain ⟨name, T, y2, y5⟩ := provQ_at _ _ emptyS 0 0 hprov b5 (fun i _ => rfl) (some t) m o hmem hmo.symm
  have hAC := Src.nestWD_allContent cons s ⟨true, false⟩ [] h
  have hrel := mapAcc_tblRel (s.stream ⟨true, false⟩ []).1.evs 0 0 {} emptyS emptyN b5 hAC
    ⟨rfl, rfl, rfl, fun i hi => by omega, fun i hi => by omega⟩
  obtain ⟨d1, d2, d3⟩ := mapAcc_decls (s.stream ⟨true, true⟩ []).1.evs {}
  obtain ⟨e1, e2, e3⟩ := mapAcc_decls (s.stream ⟨true, false⟩ []).1.evs {}
  have hsm : sm.sources = ((s.stream ⟨true, false⟩ []).1.evs.foldl mapAccEv {}).sources
      ∧ sm.sourcesContent = ((s.stream ⟨true, false⟩ []).1.evs.foldl mapAccEv {}).contents := by
    simp only [getMap, mapOfEvs] at hm
    split at hm
    · cases hm
    · simp only [Option.some.injEq] at hm
      rw [← hm]
      simp only
      cases final <;> (rw [d1, d2, e1, e2, hm3.decls]; exact ⟨rfl, rfl⟩)
  obtain ⟨r1, r2, r3, r4, r5⟩ := hrel
  have hidx := declOK_chunkMs _ 0 0 b5 m hm1 o hmo.symm
  simp only [Nat.zero_add] at hidx r4
  have hfile := r4 o.src hidx.1
  rw [y2] at hfile
  have hS : sm.sources[o.src]? = some name ∧ sm.sourcesContent[o.src]? = some T := by
    rw [hsm.1, hsm.2]
    cases hq : (((s.stream ⟨true, false⟩ []).1.evs.foldl mapAccEv {}).sources)[o.src]? with
    | none => rw [hq] at hfile; simp at hfile
    | some f =>
      rw [hq] at hfile
      simp only [Option.map_some, Option.some.injEq, Prod.mk.injEq] at hfile
      exact ⟨by rw [hfile.1], hfile.2.symm⟩
  refine ⟨name, T, hS.1, hS.2, ?_⟩
  rcases y5 with ⟨q, q', hq1, hq2, hq0, hq3, hq4, tok, k0, l0, c0, hq5, hq6, hq7⟩ | ⟨cl, hq3, r, hr1, cl0, hcl0, p0, q0, g1, g2, g3⟩
  · simp only [Option.some.injEq] at hq3
    subst hq3
    have hlen' : (bsub T q q').length = q' - q := by unfold bsub; simp only [List.length_take, List.length_drop]; omega
    rw [hlen'] at hd
    refine Or.inl ⟨q, d, by omega, hq0, ?_, hq4 d hd, tok, k0, l0, c0, hq5, hq6, by omega⟩
    rw [hbyte]
    exact (bsub_get T q q' d hq2 hd).1
  · simp only [Option.some.injEq] at hq3
    subst hq3
    subst g3
    have hl := bsub_length cl0 p0 q0 (by omega) g2
    rw [hl] at hd
    refine Or.inr ⟨r, hr1, cl0, hcl0, p0 + d, by omega, ?_⟩
    rw [hbyte]
    exact (bsub_get cl0 p0 q0 d g2 hd).1

end Rs
