import RsModel.Lemmas.PosConcat
import RsModel.Lemmas.ReplaceText
/-!
# C02 for ReplaceSource

`RInv st op il ic`: the walker's offsets translate the inner position `(il, ic)` into the output position `op`.
Reported positions are `u32` conversions of `Int`s; `posOKW` states the contract modulo that conversion, which is the identity
when the output is shorter than `2^32`.
-/
namespace Rs

def posOKW : Text → List Ev → Prop
  | _, [] => True
  | pre, .chunk (some t) m :: es =>
    (m.gl = u32 (adv startPos pre).line ∧ m.gc = u32 (adv startPos pre).col) ∧ posOKW (pre ++ t) es
  | pre, _ :: es => posOKW pre es

theorem posOKW_append : ∀ (a b : List Ev) (pre : Text), posOKW pre (a ++ b) ↔ posOKW pre a ∧ posOKW (pre ++ evsText a) b := by
  intro a
  induction a with
  | nil => intro b pre; simp [posOKW, evsText]
  | cons e es ih =>
    intro b pre
    cases e with
    | chunk t m =>
      cases t with
      | none => simp only [List.cons_append, posOKW, ih, evsText_cons, Ev.text, List.nil_append]
      | some t =>
        simp only [List.cons_append, posOKW, ih, evsText_cons, Ev.text, List.append_assoc]
        exact and_assoc.symm
    | source i s c => simp only [List.cons_append, posOKW, ih, evsText_cons, Ev.text, List.nil_append]
    | name i n => simp only [List.cons_append, posOKW, ih, evsText_cons, Ev.text, List.nil_append]

structure RInv (st : RSt) (op : Pos) (il ic : Nat) : Prop where
  line : (op.line : Int) = (il : Int) + st.lineOff
  col : (op.col : Int) = (ic : Int) + (if (op.line : Int) = st.colOffLine then st.colOff else 0)
  ord : st.colOffLine ≤ (op.line : Int)

/-- a chunk emitted now is reported at the output position -/
theorem rinv_report (st : RSt) (op : Pos) (il ic : Nat) (h : RInv st op il ic) :
    u32 ((il : Int) + st.lineOff) = u32 op.line ∧ gcolOf st ((il : Int) + st.lineOff) ic = u32 op.col := by
  obtain ⟨h1, h2, _⟩ := h
  refine ⟨by rw [h1], ?_⟩
  unfold gcolOf
  rw [← h1, h2]
  congr 2
  by_cases hc : (op.line : Int) = st.colOffLine <;> simp [hc]

theorem posOKW_single (pre t : Text) (m : Mapping) (h : m.gl = u32 (adv startPos pre).line ∧ m.gc = u32 (adv startPos pre).col) :
    posOKW pre [Ev.chunk (some t) m] := ⟨h, trivial⟩

/-- the lines of a replacement's content: output advances, the inner position stays -/
theorem emitContent_pos (gc : Nat) (orig : Option Orig) : ∀ (cls : List Text), Lines cls → ∀ (n : Option Nat) (st : RSt) (pre : Text) (il : Nat),
    RInv st (adv startPos pre) il gc →
    posOKW pre (emitContent gc orig cls n st ((il : Int) + st.lineOff)).2.1
    ∧ RInv (emitContent gc orig cls n st ((il : Int) + st.lineOff)).1 (adv startPos (pre ++ cls.flatten)) il gc := by
  intro cls hL
  induction hL with
  | nil => intro n st pre il h; simpa [emitContent, posOKW] using h
  | last t hne hno =>
    intro n st pre il h
    obtain ⟨r1, r2⟩ := rinv_report st _ il gc h
    have hnl := endsWithNL_noNL t hno
    simp only [emitContent, List.isEmpty_nil, hnl, Bool.not_false, Bool.and_self, if_true, List.flatten_cons, List.flatten_nil, List.append_nil]
    refine ⟨⟨⟨r1, r2⟩, trivial⟩, ?_⟩
    obtain ⟨h1, h2, h3⟩ := h
    rw [adv_append, adv_noNL t _ hno]
    by_cases hc : (st.colOffLine == (il : Int) + st.lineOff) = true
    · have hc' : st.colOffLine = (il : Int) + st.lineOff := by simpa using hc
      simp only [hc, if_true]
      refine ⟨h1, ?_, h3⟩
      simp only [h1, hc', if_true] at h2 ⊢
      push_cast; omega
    · have hc' : ¬ st.colOffLine = (il : Int) + st.lineOff := by simpa using hc
      simp only [hc, Bool.false_eq_true, if_false]
      refine ⟨h1, ?_, by simp only; omega⟩
      have hne' : ¬ ((adv startPos pre).line : Int) = st.colOffLine := fun e => hc' (by rw [← e, h1])
      simp only [hne', if_false, Int.add_zero] at h2
      simp only [h1, if_true]
      push_cast; omega
  | lastNL t hno =>
    intro n st pre il h
    obtain ⟨r1, r2⟩ := rinv_report st _ il gc h
    simp only [emitContent, List.isEmpty_nil, endsWithNL_snoc, Bool.not_true, Bool.and_false, Bool.false_eq_true, if_false,
      List.flatten_cons, List.flatten_nil, List.append_nil]
    refine ⟨⟨⟨r1, r2⟩, trivial⟩, ?_⟩
    obtain ⟨h1, h2, h3⟩ := h
    rw [adv_append, adv_line t _ hno]
    refine ⟨by simp only; push_cast; omega, ?_, by simp only; push_cast; omega⟩
    simp only
    have : ((((adv startPos pre).line + 1 : Nat) : Int) = (il : Int) + st.lineOff + 1) := by push_cast; omega
    simp [this]; omega
  | cons t rest hno hne hr ih =>
    intro n st pre il h
    obtain ⟨r1, r2⟩ := rinv_report st _ il gc h
    have hie : rest.isEmpty = false := by cases rest <;> simp_all
    simp only [emitContent, hie, Bool.false_and, Bool.false_eq_true, if_false, List.flatten_cons]
    obtain ⟨h1, h2, h3⟩ := h
    have hl : (il : Int) + st.lineOff + 1 = (il : Int) + (st.lineOff + 1) := by omega
    rw [hl]
    have hinv : RInv { st with lineOff := st.lineOff + 1, colOff := -(gc : Int), colOffLine := (il : Int) + (st.lineOff + 1) }
        (adv startPos (pre ++ (t ++ [NL]))) il gc := by
      rw [adv_append, adv_line t _ hno]
      refine ⟨by simp only; push_cast; omega, ?_, by simp only; push_cast; omega⟩
      simp only
      have : ((((adv startPos pre).line + 1 : Nat) : Int) = (il : Int) + (st.lineOff + 1)) := by push_cast; omega
      simp [this]; omega
    obtain ⟨i1, i2⟩ := ih none _ (pre ++ (t ++ [NL])) il hinv
    refine ⟨⟨⟨r1, r2⟩, i1⟩, ?_⟩
    rw [← List.append_assoc]; exact i2

end Rs

namespace Rs

/-! ## pieces of a chunk -/

theorem tok_prefix_noNL (chunk : Text) (h : TokOK chunk) (b : Nat) (hb : b < chunk.length) : ∀ x ∈ chunk.take b, x ≠ NL := by
  obtain ⟨s, hs, hc⟩ := h
  rcases hc with rfl | rfl
  · exact fun x hx => hs x (List.mem_of_mem_take hx)
  · intro x hx
    rw [List.take_append_of_le_length (by simp at hb; omega)] at hx
    exact hs x (List.mem_of_mem_take hx)

theorem bsub_noNL (chunk : Text) (h : TokOK chunk) (a b : Nat) (hb : b < chunk.length) : ∀ x ∈ bsub chunk a b, x ≠ NL := by
  intro x hx
  unfold bsub at hx
  have h1 : x ∈ chunk.drop a := List.mem_of_mem_take hx
  -- an element of the window lies in the prefix of length `b`
  have : (chunk.drop a).take (b - a) = (chunk.take b).drop a := by
    rw [List.drop_take]
  rw [this] at hx
  exact tok_prefix_noNL chunk h b hb x (List.mem_of_mem_drop hx)

theorem bsub_length (chunk : Text) (a b : Nat) (hab : a ≤ b) (hb : b ≤ chunk.length) : (bsub chunk a b).length = b - a := by
  unfold bsub; simp; omega

/-- the rest of a chunk from `cp` on -/
theorem adv_rest (chunk : Text) (h : TokOK chunk) (cp : Nat) (hcp : cp < chunk.length) (p : Pos) :
    adv p (chunk.drop cp) = if endsWithNL chunk then ⟨p.line + 1, 0⟩ else ⟨p.line, p.col + (chunk.length - cp)⟩ := by
  obtain ⟨s, hs, hc⟩ := h
  rcases hc with rfl | rfl
  · rw [endsWithNL_noNL chunk hs, adv_noNL _ _ (fun x hx => hs x (List.mem_of_mem_drop hx))]
    simp
  · rw [endsWithNL_snoc]
    simp only [if_true]
    have hcs : cp ≤ s.length := by simp at hcp; omega
    rw [List.drop_append_of_le_length hcs, adv_line _ _ (fun x hx => hs x (List.mem_of_mem_drop hx))]

/-! ## state updates keep the invariant -/

theorem rinv_pos (st : RSt) (op : Pos) (il ic : Nat) (h : RInv st op il ic) (p : Nat) : RInv { st with pos := p } op il ic := ⟨h.1, h.2, h.3⟩

/-- `k` inner bytes (no line break) are dropped: the inner column moves, the output does not -/
theorem colShift_inv (st : RSt) (op : Pos) (il ic k : Nat) (h : RInv st op il ic) :
    RInv (colShift st ((il : Int) + st.lineOff) (k : Int)) op il (ic + k) := by
  obtain ⟨h1, h2, h3⟩ := h
  unfold colShift
  by_cases hc : (st.colOffLine == (il : Int) + st.lineOff) = true
  · have hc' : st.colOffLine = (il : Int) + st.lineOff := by simpa using hc
    simp only [hc, if_true]
    refine ⟨h1, ?_, h3⟩
    simp only [h1, hc', if_true] at h2 ⊢
    push_cast; omega
  · have hc' : ¬ st.colOffLine = (il : Int) + st.lineOff := by simpa using hc
    simp only [hc, Bool.false_eq_true, if_false]
    have hne' : ¬ (op.line : Int) = st.colOffLine := fun e => hc' (by rw [← e, h1])
    simp only [hne', if_false, Int.add_zero] at h2
    refine ⟨h1, ?_, by simp only; omega⟩
    simp only [h1, if_true]
    push_cast; omega

/-- the rest of the chunk (`remain` bytes from inner column `ic`) is dropped -/
theorem skipWhole_inv (st : RSt) (op : Pos) (chunk : Text) (il ic remain endPos : Nat) (h : RInv st op il ic) :
    RInv (skipWhole st chunk il ic remain endPos) op (if endsWithNL chunk then il + 1 else il) (if endsWithNL chunk then 0 else ic + remain) := by
  obtain ⟨h1, h2, h3⟩ := h
  unfold skipWhole
  by_cases hnl : endsWithNL chunk = true
  · simp only [hnl, if_true]
    by_cases hc : (st.colOffLine == (il : Int) + st.lineOff) = true
    · have hc' : st.colOffLine = (il : Int) + st.lineOff := by simpa using hc
      simp only [hc, if_true]
      refine ⟨by simp only; push_cast; omega, ?_, h3⟩
      simp only [h1, hc', if_true] at h2 ⊢
      push_cast; omega
    · have hc' : ¬ st.colOffLine = (il : Int) + st.lineOff := by simpa using hc
      simp only [hc, Bool.false_eq_true, if_false]
      have hne' : ¬ (op.line : Int) = st.colOffLine := fun e => hc' (by rw [← e, h1])
      simp only [hne', if_false, Int.add_zero] at h2
      refine ⟨by simp only; push_cast; omega, ?_, by simp only; omega⟩
      simp only [h1, if_true]
      push_cast; omega
  · simp only [hnl, Bool.false_eq_true, if_false]
    by_cases hc : (st.colOffLine == (il : Int) + st.lineOff) = true
    · have hc' : st.colOffLine = (il : Int) + st.lineOff := by simpa using hc
      simp only [hc, if_true]
      refine ⟨h1, ?_, h3⟩
      simp only [h1, hc', if_true] at h2 ⊢
      push_cast; omega
    · have hc' : ¬ st.colOffLine = (il : Int) + st.lineOff := by simpa using hc
      simp only [hc, Bool.false_eq_true, if_false]
      have hne' : ¬ (op.line : Int) = st.colOffLine := fun e => hc' (by rw [← e, h1])
      simp only [hne', if_false, Int.add_zero] at h2
      refine ⟨h1, ?_, by simp only; omega⟩
      simp only [h1, if_true]
      push_cast; omega

/-- text without a line break passes from the inner stream to the output: both columns advance -/
theorem rinv_pass (st : RSt) (pre t : Text) (il ic : Nat) (h : RInv st (adv startPos pre) il ic) (hno : ∀ x ∈ t, x ≠ NL) :
    RInv st (adv startPos (pre ++ t)) il (ic + t.length) := by
  obtain ⟨h1, h2, h3⟩ := h
  rw [adv_append, adv_noNL t _ hno]
  refine ⟨h1, ?_, h3⟩
  simp only at h2 ⊢
  push_cast; omega

/-- text ending with the line break passes through: both go to the next line, where no column offset applies -/
theorem rinv_pass_nl (st : RSt) (pre t : Text) (il ic : Nat) (h : RInv st (adv startPos pre) il ic) (hno : ∀ x ∈ t, x ≠ NL) :
    RInv st (adv startPos (pre ++ (t ++ [NL]))) (il + 1) 0 := by
  obtain ⟨h1, h2, h3⟩ := h
  rw [adv_append, adv_line t _ hno]
  refine ⟨by simp only; push_cast; omega, ?_, by simp only; push_cast; omega⟩
  have : ¬ ((((adv startPos pre).line + 1 : Nat) : Int) = st.colOffLine) := by push_cast; omega
  simp only [this, if_false]; simp

end Rs

namespace Rs

/-- loop invariant inside one chunk: `cs` = inner offset of the chunk, `(gl, gc0)` its reported (= true inner) position -/
structure LInv (chunk : Text) (gl gc0 cs : Nat) (st : RSt) (l : LSt) (pre : Text) : Prop where
  pos : st.pos = cs + l.chunkPos
  gcol : l.gc = gc0 + l.chunkPos
  inb : l.chunkPos < chunk.length ∨ (chunk = [] ∧ l.chunkPos = 0)
  inv : RInv st (adv startPos pre) gl l.gc

theorem posOKW_noChunk : ∀ (evs : List Ev) (pre : Text), (∀ e ∈ evs, e.isChunk = false) → posOKW pre evs := by
  intro evs
  induction evs with
  | nil => intro _ _; trivial
  | cons e es ih =>
    intro pre h
    have he := h e (by simp)
    cases e with
    | chunk t m => simp [Ev.isChunk] at he
    | source i s c => exact ih pre (fun x hx => h x (by simp [hx]))
    | name i n => exact ih pre (fun x hx => h x (by simp [hx]))

theorem globalName_noChunk (nm : Assoc) (n : Text) : ∀ e ∈ (globalName nm n).2.1, e.isChunk = false := by
  unfold globalName; split <;> simp [Ev.isChunk]

theorem rName_facts (r : Repl) (st : RSt) (l : LSt) :
    (∀ e ∈ (rName r st l).2.1, e.isChunk = false) ∧ (rName r st l).1.lineOff = st.lineOff ∧ (rName r st l).1.colOff = st.colOff
    ∧ (rName r st l).1.colOffLine = st.colOffLine ∧ (rName r st l).1.pos = st.pos := by
  unfold rName
  split
  · exact ⟨globalName_noChunk _ _, rfl, rfl, rfl, rfl⟩
  · exact ⟨by simp, rfl, rfl, rfl, rfl⟩

theorem rinv_congr (st st' : RSt) (op : Pos) (il ic : Nat) (h : RInv st op il ic)
    (h1 : st'.lineOff = st.lineOff) (h2 : st'.colOff = st.colOff) (h3 : st'.colOffLine = st.colOffLine) : RInv st' op il ic := by
  obtain ⟨a, b, c⟩ := h
  exact ⟨by rw [h1]; exact a, by rw [h2, h3]; exact b, by rw [h3]; exact c⟩

/-- position of the inner stream after the chunk -/
def innerAfter (chunk : Text) (gl gc0 : Nat) : Nat × Nat := if endsWithNL chunk then (gl + 1, 0) else (gl, gc0 + chunk.length)

/-- "emit chunk until replacement" -/
theorem rBefore_pos (chunk : Text) (hT : TokOK chunk) (gl gc0 cs : Nat) (r : Repl) (st : RSt) (l : LSt) (pre : Text)
    (hL : LInv chunk gl gc0 cs st l pre) (hr : r.start < cs + chunk.length) :
    posOKW pre (rBefore chunk ((gl : Int) + st.lineOff) r st l).2.2
    ∧ LInv chunk gl gc0 cs (rBefore chunk ((gl : Int) + st.lineOff) r st l).1 (rBefore chunk ((gl : Int) + st.lineOff) r st l).2.1
        (pre ++ evsText (rBefore chunk ((gl : Int) + st.lineOff) r st l).2.2)
    ∧ (rBefore chunk ((gl : Int) + st.lineOff) r st l).1.lineOff = st.lineOff := by
  obtain ⟨p1, p2, p3, p4⟩ := hL
  unfold rBefore
  by_cases hgt : r.start > st.pos
  · simp only [hgt, if_true, evsText_singleton, Ev.text]
    obtain ⟨r1, r2⟩ := rinv_report st _ gl l.gc p4
    have hend : l.chunkPos + (r.start - st.pos) < chunk.length := by omega
    have hno := bsub_noNL chunk hT l.chunkPos (l.chunkPos + (r.start - st.pos)) hend
    have hlen := bsub_length chunk l.chunkPos (l.chunkPos + (r.start - st.pos)) (by omega) (by omega)
    refine ⟨posOKW_single _ _ _ ⟨r1, r2⟩, ⟨by simp only; omega, by simp only; omega, Or.inl hend, ?_⟩, trivial⟩
    have := rinv_pass st pre _ gl l.gc p4 hno
    rw [hlen, Nat.add_sub_cancel_left] at this
    exact rinv_pos _ _ _ _ this _
  · simp only [hgt, if_false, evsText_nil, List.append_nil]
    exact ⟨trivial, ⟨p1, p2, p3, p4⟩, trivial⟩

end Rs

namespace Rs

theorem innerAfter_eq (chunk : Text) (gl gc0 : Nat) :
    (innerAfter chunk gl gc0).1 = (if endsWithNL chunk then gl + 1 else gl) ∧ (innerAfter chunk gl gc0).2 = (if endsWithNL chunk then 0 else gc0 + chunk.length) := by
  unfold innerAfter; split <;> exact ⟨rfl, rfl⟩

/-- one iteration of the replacement loop -/
theorem rIter_pos (chunk : Text) (hT : TokOK chunk) (gl gc0 cs : Nat) (r : Repl) (rs : List Repl) (st : RSt) (l : LSt) (pre : Text)
    (hL : LInv chunk gl gc0 cs st l pre) (hr : r.start < cs + chunk.length) :
    posOKW pre (rIter chunk gl (cs + chunk.length) r rs st l).1
    ∧ (match (rIter chunk gl (cs + chunk.length) r rs st l).2 with
       | .done st' => RInv st' (adv startPos (pre ++ evsText (rIter chunk gl (cs + chunk.length) r rs st l).1))
            (innerAfter chunk gl gc0).1 (innerAfter chunk gl gc0).2
       | .cont st' l' => LInv chunk gl gc0 cs st' l' (pre ++ evsText (rIter chunk gl (cs + chunk.length) r rs st l).1)) := by
  obtain ⟨pb, Lb, _⟩ := rBefore_pos chunk hT gl gc0 cs r st l pre hL hr
  have hblo : (rBefore chunk ((gl : Int) + st.lineOff) r st l).1.lineOff = st.lineOff := by
    unfold rBefore; split <;> rfl
  unfold rIter
  simp only
  generalize hb : rBefore chunk ((gl : Int) + st.lineOff) r st l = b at *
  obtain ⟨n0, n1, n2, n3, n4⟩ := rName_facts r b.1 b.2.1
  generalize hn : rName r b.1 b.2.1 = n at *
  obtain ⟨Lb1, Lb2, Lb3, Lb4⟩ := Lb
  have hinvN : RInv n.1 (adv startPos (pre ++ evsText b.2.2)) gl b.2.1.gc := rinv_congr _ _ _ _ _ Lb4 n1 n2 n3
  have hline : (gl : Int) + st.lineOff = (gl : Int) + n.1.lineOff := by rw [n1, hblo]
  rw [hline]
  obtain ⟨pc, Lc⟩ := emitContent_pos b.2.1.gc b.2.1.orig (splitLines r.content) (lines_of_splitLines r.content) n.2.2 n.1
    (pre ++ evsText b.2.2) gl hinvN
  obtain ⟨c1, c2, _, _⟩ := emitContent_spec b.2.1.gc b.2.1.orig (splitLines r.content) n.2.2 n.1 ((gl : Int) + n.1.lineOff)
  generalize hc : emitContent b.2.1.gc b.2.1.orig (splitLines r.content) n.2.2 n.1 ((gl : Int) + n.1.lineOff) = c at *
  have hntext : evsText n.2.1 = [] := by
    have : ∀ (evs : List Ev), (∀ e ∈ evs, e.isChunk = false) → evsText evs = [] := by
      intro evs; induction evs with
      | nil => intro _; rfl
      | cons e es ih =>
        intro h
        have he := h e (by simp)
        rw [evsText_cons, ih (fun x hx => h x (by simp [hx]))]
        cases e <;> simp_all [Ev.isChunk, Ev.text]
    exact this _ n0
  have htext : evsText (b.2.2 ++ n.2.1 ++ c.2.1) = evsText b.2.2 ++ (splitLines r.content).flatten := by
    rw [evsText_append, evsText_append, hntext, c1, List.append_nil]
  have hpos : posOKW pre (b.2.2 ++ n.2.1 ++ c.2.1) := by
    rw [posOKW_append, posOKW_append]
    refine ⟨⟨pb, posOKW_noChunk _ _ n0⟩, ?_⟩
    rw [evsText_append, hntext, List.append_nil]; exact pc
  have hpre : pre ++ evsText (b.2.2 ++ n.2.1 ++ c.2.1) = pre ++ evsText b.2.2 ++ (splitLines r.content).flatten := by
    rw [htext, List.append_assoc]
  -- the state after the content
  have hinv4 : ∀ (re' : Option Nat) (rest : List Repl) (p : Nat), RInv { c.1 with re := re', rest := rest, pos := p }
      (adv startPos (pre ++ evsText (b.2.2 ++ n.2.1 ++ c.2.1))) gl b.2.1.gc := by
    intro re' rest p; rw [hpre]; exact ⟨Lc.1, Lc.2, Lc.3⟩
  have hcpos : c.1.pos = cs + b.2.1.chunkPos := by rw [c2, n4, Lb1]
  by_cases hoff : ((chunk.length : Int) - ((cs + chunk.length : Nat) : Int) + (max (reOf c.1) r.stop : Nat) - (b.2.1.chunkPos : Int)) > 0
  · simp only [hoff, if_true]
    by_cases hend : max (reOf c.1) r.stop ≥ cs + chunk.length
    · simp only [hend, if_true]
      refine ⟨hpos, ?_⟩
      have hsk := skipWhole_inv { c.1 with re := some (max (reOf c.1) r.stop), rest := rs } _ chunk gl b.2.1.gc
        (chunk.length - b.2.1.chunkPos) (cs + chunk.length) (by have := hinv4 (some (max (reOf c.1) r.stop)) rs c.1.pos; exact ⟨this.1, this.2, this.3⟩)
      obtain ⟨ia1, ia2⟩ := innerAfter_eq chunk gl gc0
      rw [ia1, ia2]
      have hle : b.2.1.chunkPos ≤ chunk.length := by rcases Lb3 with h | h <;> omega
      have hg : b.2.1.gc + (chunk.length - b.2.1.chunkPos) = gc0 + chunk.length := by omega
      rw [hg] at hsk
      exact hsk
    · simp only [hend, if_false]
      refine ⟨hpos, ?_⟩
      have hlt : max (reOf c.1) r.stop < cs + chunk.length := by omega
      have hoffv : ((chunk.length : Int) - ((cs + chunk.length : Nat) : Int) + (max (reOf c.1) r.stop : Nat) - (b.2.1.chunkPos : Int))
          = (((max (reOf c.1) r.stop - (cs + b.2.1.chunkPos) : Nat)) : Int) := by push_cast at hoff ⊢; omega
      have hk := colShift_inv { c.1 with re := some (max (reOf c.1) r.stop), rest := rs, pos := c.1.pos + (max (reOf c.1) r.stop - (cs + b.2.1.chunkPos)) } _ gl b.2.1.gc (max (reOf c.1) r.stop - (cs + b.2.1.chunkPos)) (hinv4 _ _ _)
      rw [hoffv]
      simp only [Int.toNat_natCast]
      refine ⟨by rw [(colShift_spec _ _ _).1]; simp only; omega, by simp only; omega, Or.inl (by simp only; push_cast at hoff; omega), ?_⟩
      exact hk
  · simp only [hoff, if_false]
    exact ⟨hpos, ⟨hcpos, Lb2, Lb3, by have := hinv4 (some (max (reOf c.1) r.stop)) rs c.1.pos; exact ⟨this.1, this.2, this.3⟩⟩⟩

end Rs

namespace Rs

theorem linv_rest (chunk : Text) (gl gc0 cs : Nat) (st : RSt) (l : LSt) (pre : Text) (h : LInv chunk gl gc0 cs st l pre) (rs : List Repl) :
    LInv chunk gl gc0 cs { st with rest := rs } l pre := ⟨h.1, h.2, h.3, ⟨h.4.1, h.4.2, h.4.3⟩⟩

theorem rLoop_pos (chunk : Text) (hT : TokOK chunk) (gl gc0 cs : Nat) : ∀ (rs : List Repl) (st : RSt) (l : LSt) (pre : Text),
    LInv chunk gl gc0 cs st l pre →
    posOKW pre (rLoop chunk gl (cs + chunk.length) rs st l).2.1
    ∧ (match (rLoop chunk gl (cs + chunk.length) rs st l).2.2 with
       | none => RInv (rLoop chunk gl (cs + chunk.length) rs st l).1 (adv startPos (pre ++ evsText (rLoop chunk gl (cs + chunk.length) rs st l).2.1))
            (innerAfter chunk gl gc0).1 (innerAfter chunk gl gc0).2
       | some l' => LInv chunk gl gc0 cs (rLoop chunk gl (cs + chunk.length) rs st l).1 l'
            (pre ++ evsText (rLoop chunk gl (cs + chunk.length) rs st l).2.1)) := by
  intro rs
  induction rs with
  | nil =>
    intro st l pre hL
    simp only [rLoop, evsText_nil, List.append_nil]
    exact ⟨trivial, linv_rest _ _ _ _ _ _ _ hL []⟩
  | cons r rs ih =>
    intro st l pre hL
    unfold rLoop
    by_cases hlt : r.start < cs + chunk.length
    · simp only [hlt, if_true]
      obtain ⟨p1, p2⟩ := rIter_pos chunk hT gl gc0 cs r rs st l pre hL hlt
      generalize rIter chunk gl (cs + chunk.length) r rs st l = it at *
      obtain ⟨evs, nx⟩ := it
      cases nx with
      | done st' => exact ⟨p1, p2⟩
      | cont st' l' =>
        simp only at p2 ⊢
        obtain ⟨i1, i2⟩ := ih st' l' (pre ++ evs.foldr (fun e acc => e.text ++ acc) [] |> fun _ => pre ++ evsText evs) p2
        refine ⟨?_, ?_⟩
        · rw [posOKW_append]; exact ⟨p1, i1⟩
        · rw [evsText_append, ← List.append_assoc]; exact i2
    · simp only [hlt, if_false, evsText_nil, List.append_nil]
      exact ⟨trivial, linv_rest _ _ _ _ _ _ _ hL _⟩

/-- the rest of a chunk passes through -/
theorem rinv_rest (st : RSt) (pre chunk : Text) (hT : TokOK chunk) (cp il ic : Nat) (hcp : cp < chunk.length)
    (h : RInv st (adv startPos pre) il ic) :
    RInv st (adv startPos (pre ++ chunk.drop cp)) (if endsWithNL chunk then il + 1 else il) (if endsWithNL chunk then 0 else ic + (chunk.length - cp)) := by
  obtain ⟨s, hs, hc⟩ := hT
  rcases hc with rfl | rfl
  · rw [endsWithNL_noNL chunk hs]
    simp only [Bool.false_eq_true, if_false]
    have := rinv_pass st pre (chunk.drop cp) il ic h (fun x hx => hs x (List.mem_of_mem_drop hx))
    simpa using this
  · rw [endsWithNL_snoc]
    simp only [if_true]
    have hcs : cp ≤ s.length := by simp at hcp; omega
    rw [List.drop_append_of_le_length hcs]
    exact rinv_pass_nl st pre (s.drop cp) il ic h (fun x hx => hs x (List.mem_of_mem_drop hx))

/-- **the `on_chunk` callback**: from the invariant at the start of the inner chunk to the invariant after it -/
theorem rOnChunk_pos (st : RSt) (chunk : Text) (hT : TokOK chunk) (m : Mapping) (pre : Text) (h : RInv st (adv startPos pre) m.gl m.gc) :
    posOKW pre (rOnChunk st chunk m).2
    ∧ RInv (rOnChunk st chunk m).1 (adv startPos (pre ++ evsText (rOnChunk st chunk m).2)) (innerAfter chunk m.gl m.gc).1 (innerAfter chunk m.gl m.gc).2 := by
  obtain ⟨ia1, ia2⟩ := innerAfter_eq chunk m.gl m.gc
  -- after the starting point has been fixed
  have after : ∀ (st1 : RSt) (l1 : LSt), LInv chunk m.gl m.gc st.pos st1 l1 pre →
      posOKW pre (match rLoop chunk m.gl (st.pos + chunk.length) st1.rest st1 l1 with
        | (st2, evs, none) => (st2, evs)
        | (st2, evs, some l2) =>
          ({ st2 with pos := st.pos + chunk.length },
            evs ++ (if l2.chunkPos < chunk.length then
              [Ev.chunk (some (chunk.drop l2.chunkPos)) ⟨u32 ((m.gl : Int) + st2.lineOff), gcolOf st2 ((m.gl : Int) + st2.lineOff) l2.gc, mapName st2.nim l2.orig⟩]
              else []))).2
      ∧ RInv (match rLoop chunk m.gl (st.pos + chunk.length) st1.rest st1 l1 with
        | (st2, evs, none) => (st2, evs)
        | (st2, evs, some l2) =>
          ({ st2 with pos := st.pos + chunk.length },
            evs ++ (if l2.chunkPos < chunk.length then
              [Ev.chunk (some (chunk.drop l2.chunkPos)) ⟨u32 ((m.gl : Int) + st2.lineOff), gcolOf st2 ((m.gl : Int) + st2.lineOff) l2.gc, mapName st2.nim l2.orig⟩]
              else []))).1
        (adv startPos (pre ++ evsText (match rLoop chunk m.gl (st.pos + chunk.length) st1.rest st1 l1 with
        | (st2, evs, none) => (st2, evs)
        | (st2, evs, some l2) =>
          ({ st2 with pos := st.pos + chunk.length },
            evs ++ (if l2.chunkPos < chunk.length then
              [Ev.chunk (some (chunk.drop l2.chunkPos)) ⟨u32 ((m.gl : Int) + st2.lineOff), gcolOf st2 ((m.gl : Int) + st2.lineOff) l2.gc, mapName st2.nim l2.orig⟩]
              else []))).2))
        (innerAfter chunk m.gl m.gc).1 (innerAfter chunk m.gl m.gc).2 := by
    intro st1 l1 hL
    obtain ⟨q1, q2⟩ := rLoop_pos chunk hT m.gl m.gc st.pos st1.rest st1 l1 pre hL
    generalize rLoop chunk m.gl (st.pos + chunk.length) st1.rest st1 l1 = R at *
    obtain ⟨st2, evs, ol⟩ := R
    cases ol with
    | none => exact ⟨q1, q2⟩
    | some l2 =>
      simp only at q1 q2 ⊢
      obtain ⟨l21, l22, l23, l24⟩ := q2
      by_cases hcp : l2.chunkPos < chunk.length
      · simp only [hcp, if_true]
        obtain ⟨r1, r2⟩ := rinv_report st2 _ m.gl l2.gc l24
        refine ⟨?_, ?_⟩
        · rw [posOKW_append]; exact ⟨q1, posOKW_single _ _ _ ⟨r1, r2⟩⟩
        · rw [evsText_append, evsText_singleton, ← List.append_assoc, ia1, ia2]
          have := rinv_rest st2 (pre ++ evsText evs) chunk hT l2.chunkPos m.gl l2.gc hcp l24
          have hg : l2.gc + (chunk.length - l2.chunkPos) = m.gc + chunk.length := by omega
          rw [hg] at this
          exact ⟨this.1, this.2, this.3⟩
      · simp only [hcp, if_false, List.append_nil]
        have hemp : chunk = [] ∧ l2.chunkPos = 0 := by rcases l23 with h | h; exact absurd h hcp; exact h
        refine ⟨q1, ?_⟩
        rw [ia1, ia2, hemp.1]
        simp only [endsWithNL, List.getLast?_nil, List.length_nil, Nat.add_zero]
        have : l2.gc = m.gc := by omega
        rw [this] at l24
        exact ⟨l24.1, l24.2, l24.3⟩
  unfold rOnChunk
  simp only
  cases hre : st.re with
  | none =>
    simp only
    exact after st { chunkPos := 0, gc := m.gc, orig := m.orig }
      ⟨by simp, by simp, (by by_cases hc : chunk = []; exact Or.inr ⟨hc, rfl⟩; exact Or.inl (List.length_pos_iff.mpr hc)), h⟩
  | some e =>
    by_cases h1 : e > st.pos
    · simp only [h1, if_true]
      by_cases h2 : e ≥ st.pos + chunk.length
      · simp only [h2, if_true, evsText_nil, List.append_nil]
        refine ⟨trivial, ?_⟩
        have := skipWhole_inv st _ chunk m.gl m.gc chunk.length (st.pos + chunk.length) h
        rw [ia1, ia2]; exact this
      · simp only [h2, if_false]
        have hk := colShift_inv { st with pos := st.pos + (e - st.pos), re := some e } _ m.gl m.gc (e - st.pos) ⟨h.1, h.2, h.3⟩
        apply after
        refine ⟨by rw [(colShift_spec _ _ _).1], by simp, Or.inl (by simp only; omega), ?_⟩
        exact hk
    · simp only [h1, if_false]
      exact after st { chunkPos := 0, gc := m.gc, orig := m.orig }
        ⟨by simp, by simp, (by by_cases hc : chunk = []; exact Or.inr ⟨hc, rfl⟩; exact Or.inl (List.length_pos_iff.mpr hc)), h⟩

end Rs

namespace Rs

/-- every chunk text is a token: at most one line break, at its end -/
def ChunksTok (evs : List Ev) : Prop := ∀ t m, Ev.chunk (some t) m ∈ evs → TokOK t

theorem adv_tok (chunk : Text) (hT : TokOK chunk) (gl gc : Nat) :
    adv ⟨gl, gc⟩ chunk = ⟨(innerAfter chunk gl gc).1, (innerAfter chunk gl gc).2⟩ := by
  obtain ⟨s, hs, hc⟩ := hT
  unfold innerAfter
  rcases hc with rfl | rfl
  · rw [endsWithNL_noNL chunk hs, adv_noNL chunk _ hs]; rfl
  · rw [endsWithNL_snoc, adv_line s _ hs]; rfl

theorem rEvs_pos : ∀ (evs : List Ev) (st : RSt) (opre ipre : Text), posOKT ipre evs → ChunksTok evs → evsTL evs = false →
    RInv st (adv startPos opre) (adv startPos ipre).line (adv startPos ipre).col →
    posOKW opre (rEvs st evs).2
    ∧ RInv (rEvs st evs).1 (adv startPos (opre ++ evsText (rEvs st evs).2)) (adv startPos (ipre ++ evsText evs)).line (adv startPos (ipre ++ evsText evs)).col := by
  intro evs
  induction evs with
  | nil => intro st opre ipre _ _ _ h; simpa [rEvs, evsText_nil, posOKW] using h
  | cons e es ih =>
    intro st opre ipre hp hT hTL h
    have hTs : ChunksTok es := fun t m hm => hT t m (by simp [hm])
    have hTLs : evsTL es = false := by simp only [evsTL_cons, Bool.or_eq_false_iff] at hTL; exact hTL.2
    unfold rEvs
    simp only
    cases e with
    | chunk t m =>
      cases t with
      | none => simp [evsTL_cons, Ev.textless] at hTL
      | some t =>
        simp only [posOKT] at hp
        obtain ⟨hpos, hrest⟩ := hp
        have htok := hT t m (by simp)
        have hstart : RInv st (adv startPos opre) m.gl m.gc := by
          have e1 : (adv startPos ipre).line = m.gl := by rw [← hpos]
          have e2 : (adv startPos ipre).col = m.gc := by rw [← hpos]
          rw [e1, e2] at h; exact h
        obtain ⟨q1, q2⟩ := rOnChunk_pos st t htok m opre hstart
        simp only [rEv, Option.getD_some]
        have hinner : adv startPos (ipre ++ t) = ⟨(innerAfter t m.gl m.gc).1, (innerAfter t m.gl m.gc).2⟩ := by
          rw [adv_append, ← hpos, adv_tok t htok]
        obtain ⟨i1, i2⟩ := ih (rOnChunk st t m).1 (opre ++ evsText (rOnChunk st t m).2) (ipre ++ t) hrest hTs hTLs (by rw [hinner]; exact q2)
        refine ⟨?_, ?_⟩
        · rw [posOKW_append]; exact ⟨q1, i1⟩
        · rw [evsText_append, ← List.append_assoc, evsText_cons]
          simp only [Ev.text]
          rw [← List.append_assoc]; exact i2
    | source i s c =>
      simp only [rEv]
      obtain ⟨i1, i2⟩ := ih { st with contents := lmInsert none st.contents i c } opre ipre hp hTs hTLs ⟨h.1, h.2, h.3⟩
      refine ⟨i1, ?_⟩
      rw [evsText_append, evsText_singleton, evsText_cons]
      simpa [Ev.text] using i2
    | name i n =>
      simp only [rEv]
      have hno := globalName_noChunk st.nameMapping n
      obtain ⟨i1, i2⟩ := ih { st with nameMapping := (globalName st.nameMapping n).1, nim := lmInsert 0 st.nim i (globalName st.nameMapping n).2.2 }
        opre ipre hp hTs hTLs ⟨h.1, h.2, h.3⟩
      have htx : evsText (globalName st.nameMapping n).2.1 = [] := globalName_notext _ _
      refine ⟨?_, ?_⟩
      · rw [posOKW_append, htx, List.append_nil]; exact ⟨posOKW_noChunk _ _ hno, i1⟩
      · rw [evsText_append, htx, List.nil_append, evsText_cons]
        simpa [Ev.text] using i2

end Rs

namespace Rs

theorem rRemainder_eq (gcInfo : Nat) : ∀ (cls : List Text) (n : Option Nat) (st : RSt) (line : Int),
    rRemainder gcInfo cls st line = emitContent gcInfo none cls n st line := by
  intro cls
  induction cls with
  | nil => intro n st line; rfl
  | cons cl cls ih =>
    intro n st line
    simp only [rRemainder, emitContent, Option.map_none]
    split <;> simp only [ih none]

theorem emitContent_line (gc : Nat) (orig : Option Orig) : ∀ (cls : List Text) (n : Option Nat) (st : RSt) (line : Int),
    (emitContent gc orig cls n st line).2.2 - (emitContent gc orig cls n st line).1.lineOff = line - st.lineOff := by
  intro cls
  induction cls with
  | nil => intro n st line; rfl
  | cons cl cls ih =>
    intro n st line
    simp only [emitContent]
    split
    · rw [ih]; split <;> rfl
    · rw [ih]; simp only; omega

theorem nlCount_le (t : Text) : nlCount t ≤ t.length := by
  induction t with
  | nil => simp [nlCount]
  | cons c cs ih => simp only [nlCount, List.length_cons]; split <;> omega

theorem lastLen_le (t : Text) : lastLen t ≤ t.length := by
  induction t with
  | nil => simp [lastLen]
  | cons c cs ih => simp only [lastLen, List.length_cons]; repeat' split
                    all_goals omega

theorem adv_bound (t : Text) : (adv startPos t).line ≤ t.length + 1 ∧ (adv startPos t).col ≤ t.length := by
  rw [adv_char]
  have h1 := nlCount_le t
  have h2 := lastLen_le t
  simp only [startPos]
  refine ⟨by omega, ?_⟩
  split <;> omega

theorem u32_small (n : Nat) (h : n < 2 ^ 32) : u32 (n : Int) = n := by
  unfold u32
  rw [Int.emod_eq_of_lt (by omega) (by omega)]; simp

/-- below `2^32` bytes the `u32` conversions are the identity -/
theorem posOKW_posOKT : ∀ (evs : List Ev) (pre : Text), posOKW pre evs → (pre ++ evsText evs).length + 1 < 2 ^ 32 → posOKT pre evs := by
  intro evs
  induction evs with
  | nil => intro _ _ _; trivial
  | cons e es ih =>
    intro pre h hb
    cases e with
    | chunk t m =>
      cases t with
      | none => exact ih pre h (by simpa [evsText_cons, Ev.text] using hb)
      | some t =>
        obtain ⟨⟨h1, h2⟩, h3⟩ := h
        have hlen : pre.length + 1 < 2 ^ 32 := by simp [evsText_cons, Ev.text] at hb; omega
        obtain ⟨b1, b2⟩ := adv_bound pre
        refine ⟨?_, ih (pre ++ t) h3 (by simpa [evsText_cons, Ev.text, List.append_assoc] using hb)⟩
        rw [u32_small _ (by omega)] at h1 h2
        cases hp : adv startPos pre
        rw [hp] at h1 h2
        simp only at h1 h2
        rw [h1, h2]
    | source i s c => exact ih pre h (by simpa [evsText_cons, Ev.text] using hb)
    | name i n => exact ih pre h (by simpa [evsText_cons, Ev.text] using hb)

/-- **ReplaceSource**: if the inner stream reports true positions, carries its texts and cuts them into tokens, then the
spliced stream reports true positions too (output shorter than `2^32` bytes) -/
theorem replaceStream_posOK (sorted : List Repl) (inner : SResult) (hp : PosOK inner) (hT : ChunksTok inner.evs) (hTL : evsTL inner.evs = false)
    (hb : (evsText (replaceStream sorted inner).evs).length + 1 < 2 ^ 32) : PosOK (replaceStream sorted inner) := by
  obtain ⟨hp1, hp2⟩ := hp
  have hinit : RInv { rest := sorted } (adv startPos []) (adv startPos []).line (adv startPos []).col :=
    ⟨by simp [adv, startPos], by simp [adv, startPos], by simp [adv, startPos]⟩
  obtain ⟨q1, q2⟩ := rEvs_pos inner.evs { rest := sorted } [] [] hp1 hT hTL hinit
  simp only [List.nil_append] at q2
  rw [← hp2] at q2
  unfold replaceStream at hb ⊢
  simp only at hb ⊢
  generalize hR : rEvs { rest := sorted } inner.evs = R at *
  obtain ⟨st, evs⟩ := R
  simp only at q1 q2 hb ⊢
  rw [rRemainder_eq _ _ none] at hb ⊢
  obtain ⟨c1, c2⟩ := emitContent_pos inner.info.col none (splitLines ((st.rest.map (·.content)).flatten)) (lines_of_splitLines _) none st
    (evsText evs) inner.info.line q2
  have hline := emitContent_line inner.info.col none (splitLines ((st.rest.map (·.content)).flatten)) none st ((inner.info.line : Int) + st.lineOff)
  obtain ⟨t1, _, _, _⟩ := emitContent_spec inner.info.col none (splitLines ((st.rest.map (·.content)).flatten)) none st ((inner.info.line : Int) + st.lineOff)
  generalize hC : emitContent inner.info.col none (splitLines ((st.rest.map (·.content)).flatten)) none st ((inner.info.line : Int) + st.lineOff) = C at *
  obtain ⟨st', evR, line⟩ := C
  simp only at c1 c2 hline t1 hb ⊢
  have hW : posOKW [] (evs ++ evR) := by rw [posOKW_append]; exact ⟨q1, by simpa using c1⟩
  refine ⟨posOKW_posOKT _ _ hW (by simpa using hb), ?_⟩
  have hl : line = (inner.info.line : Int) + st'.lineOff := by omega
  obtain ⟨r1, r2⟩ := rinv_report st' _ inner.info.line inner.info.col c2
  rw [hl, r1, r2, evsText_append, t1]
  have hlen : (evsText evs ++ (splitLines ((st.rest.map (·.content)).flatten)).flatten).length + 1 < 2 ^ 32 := by
    rw [evsText_append, t1] at hb; exact hb
  obtain ⟨b1, b2⟩ := adv_bound (evsText evs ++ (splitLines ((st.rest.map (·.content)).flatten)).flatten)
  rw [u32_small _ (by omega), u32_small _ (by omega)]

end Rs
