import RsModel.Lemmas.StrictIn
import RsModel.Lemmas.DeclMap
/-! # C10: a cache filled by `map()` replays the attribution of the wrapped source's stream -/
namespace Rs

/-- the replay through a map built from a *text-less* stream `F` of the text `T` attributes every byte as a lookup in `F`'s chunk
mappings does -/
theorem replay_of_final (T : Text) (F : SResult) (hf : FinOK T F) (hsorted : sortedFrom 1 0 (chunkMs F.evs)) (hst : StrictK T F.evs)
    (ha : IsAscii T) (hl : T.length ≤ USIZE_MAX) (hsmall : ∀ m ∈ chunkMs F.evs, m.small)
    (sm : SMap) (hm : sm.mappings = encodeFull (chunkMs F.evs)) :
    attrOf (streamSMFull T sm).evs = attrFrom (chunkMs F.evs) startPos T := by
  have hdec : decode sm.mappings = keptFrom {} (chunkMs F.evs) := by
    rw [hm]; exact decode_encode _ hsmall (linesOK_of_sorted _ 1 0 hsorted)
  have hsub := keptFrom_sublist (chunkMs F.evs) {}
  rw [streamSMFull_attr T sm ha hl (by rw [hdec]; exact sortedFrom_sublist _ _ 1 0 hsorted hsub) ?_]
  · apply attrFrom_congr
    intro q _ _
    rw [hdec]
    unfold lookupCols
    exact kept_lookupGo q.line q.col (chunkMs F.evs) {} none none hsorted
      ⟨rfl, fun _ => rfl, fun _ => rfl, fun _ => rfl, fun h => by simp at h⟩
  · intro m hmem
    rw [hdec] at hmem
    have hmF := hsub.subset hmem
    obtain ⟨k, hk, e⟩ := finOK_ms T F hf m hmF
    have hpre : T.take k <+: (splitLines T).flatten := by rw [splitLines_join]; exact List.take_prefix _ _
    obtain ⟨i1, i2⟩ := prefix_pos_inside (splitLines T) (lines_of_splitLines _) (T.take k) 1 hpre
    have e' : adv ⟨1, 0⟩ (T.take k) = ⟨m.gl, m.gc⟩ := e
    rw [e'] at i1 i2
    simp only at i1 i2
    have hend : adv startPos T = adv ⟨m.gl, m.gc⟩ (T.drop k) := by
      rw [← e, ← adv_append, List.take_append_drop]
    refine ⟨⟨i1, fun hle => ?_⟩, fun ho => ?_, ?_⟩
    · have := i2 (by omega)
      simpa [lineAt] using this
    · -- mapped: the segment stands on a character
      obtain ⟨t, hmem'⟩ : ∃ t, Ev.chunk t m ∈ F.evs := by
        have : ∀ (evs : List Ev), m ∈ chunkMs evs → ∃ t, Ev.chunk t m ∈ evs := by
          intro evs
          induction evs with
          | nil => intro h; simp [chunkMs] at h
          | cons e es ih =>
            intro h
            cases e with
            | chunk t0 m0 =>
              simp only [chunkMs, List.mem_cons] at h
              rcases h with rfl | h
              · exact ⟨t0, by simp⟩
              · obtain ⟨t, ht⟩ := ih h; exact ⟨t, by simp [ht]⟩
            | source i s c => obtain ⟨t, ht⟩ := ih (by simpa [chunkMs] using h); exact ⟨t, by simp [ht]⟩
            | name i n => obtain ⟨t, ht⟩ := ih (by simpa [chunkMs] using h); exact ⟨t, by simp [ht]⟩
        exact this F.evs hmF
      obtain ⟨k2, hk2, e2⟩ := hst t m hmem' ho
      have := charPos_lt_end' startPos T k2 hk2
      rw [e2] at this
      exact this
    · rw [hend]
      have := adv_ge (T.drop k) ⟨m.gl, m.gc⟩
      rcases this with h | h
      · exact Or.inl h
      · exact Or.inr h


/-- the *text-less* replay through a map built from a text-less stream `F` of the text `T` resolves every character as a lookup in
`F`'s chunk mappings does -/
theorem replay_final_of_final (T : Text) (F : SResult) (hsorted : sortedFrom 1 0 (chunkMs F.evs))
    (hsmall : ∀ m ∈ chunkMs F.evs, m.small) (sm : SMap) (hm : sm.mappings = encodeFull (chunkMs F.evs)) :
    attrFrom (chunkMs (streamSMFinal T sm).evs) startPos T = attrFrom (chunkMs F.evs) startPos T := by
  have hdec : decode sm.mappings = keptFrom {} (chunkMs F.evs) := by
    rw [hm]; exact decode_encode _ hsmall (linesOK_of_sorted _ 1 0 hsorted)
  have hsub := keptFrom_sublist (chunkMs F.evs) {}
  rw [(lookEq_iff T _ _).1 (streamSMFinal_lookEq T sm (by rw [hdec]; exact sortedFrom_sublist _ _ 1 0 hsorted hsub))]
  apply attrFrom_congr
  intro q _ _
  rw [hdec]
  unfold lookupCols
  exact kept_lookupGo q.line q.col (chunkMs F.evs) {} none none hsorted
    ⟨rfl, fun _ => rfl, fun _ => rfl, fun _ => rfl, fun h => by simp at h⟩


/-- **the map stored from a text-less stream is in the domain of the map-driven splitter**: sorted, every segment inside the
text — mapped ones on a character — and indices inside the tables -/
theorem stored_map_ok (T : Text) (F : SResult) (hf : FinOK T F) (hsorted : sortedFrom 1 0 (chunkMs F.evs)) (hst : StrictK T F.evs)
    (hd : DeclOK 0 0 F.evs) (hsmall : ∀ m ∈ chunkMs F.evs, m.small) (sm : SMap) (hm : mapOfEvs true F.evs = some sm) :
    sortedFrom 1 0 (decode sm.mappings)
    ∧ (∀ m ∈ decode sm.mappings, SegOK (splitLines T) (adv startPos T).line (adv startPos T).col m)
    ∧ MapIdxOK sm := by
  have hmm := mapOfEvs_mappings _ sm hm
  have hdec : decode sm.mappings = keptFrom {} (chunkMs F.evs) := by
    rw [hmm]; exact decode_encode _ hsmall (linesOK_of_sorted _ 1 0 hsorted)
  have hsub := keptFrom_sublist (chunkMs F.evs) {}
  refine ⟨by rw [hdec]; exact sortedFrom_sublist _ _ 1 0 hsorted hsub, ?_,
    mapOfEvs_idxOK _ hd hsmall (linesOK_of_sorted _ 1 0 hsorted) sm hm⟩
  intro m hmem
  rw [hdec] at hmem
  have hmF := hsub.subset hmem
  obtain ⟨k, hk, e⟩ := finOK_ms T F hf m hmF
  have hpre : T.take k <+: (splitLines T).flatten := by rw [splitLines_join]; exact List.take_prefix _ _
  obtain ⟨i1, i2⟩ := prefix_pos_inside (splitLines T) (lines_of_splitLines _) (T.take k) 1 hpre
  have e' : adv ⟨1, 0⟩ (T.take k) = ⟨m.gl, m.gc⟩ := e
  rw [e'] at i1 i2
  simp only at i1 i2
  have hend : adv startPos T = adv ⟨m.gl, m.gc⟩ (T.drop k) := by
    rw [← e, ← adv_append, List.take_append_drop]
  refine ⟨⟨i1, fun hle => ?_⟩, fun ho => ?_, ?_⟩
  · have := i2 (by omega)
    simpa [lineAt] using this
  · obtain ⟨t, hmem'⟩ : ∃ t, Ev.chunk t m ∈ F.evs := by
      have : ∀ (evs : List Ev), m ∈ chunkMs evs → ∃ t, Ev.chunk t m ∈ evs := by
        intro evs
        induction evs with
        | nil => intro h; simp [chunkMs] at h
        | cons e es ih =>
          intro h
          cases e with
          | chunk t0 m0 =>
            simp only [chunkMs, List.mem_cons] at h
            rcases h with rfl | h
            · exact ⟨t0, by simp⟩
            · obtain ⟨t, ht⟩ := ih h; exact ⟨t, by simp [ht]⟩
          | source i s c => obtain ⟨t, ht⟩ := ih (by simpa [chunkMs] using h); exact ⟨t, by simp [ht]⟩
          | name i n => obtain ⟨t, ht⟩ := ih (by simpa [chunkMs] using h); exact ⟨t, by simp [ht]⟩
      exact this F.evs hmF
    obtain ⟨k2, hk2, e2⟩ := hst t m hmem' ho
    have := charPos_lt_end' startPos T k2 hk2
    rw [e2] at this
    exact this
  · rw [hend]
    have := adv_ge (T.drop k) ⟨m.gl, m.gc⟩
    rcases this with h | h
    · exact Or.inl h
    · exact Or.inr h

end Rs
