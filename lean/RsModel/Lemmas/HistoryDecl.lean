import RsModel.Lemmas.WarmLinesF
/-!
# C11 (stream clause) over every call history: sources and names are announced before use, densely, in every call
-/
namespace Rs

theorem history_decl (s : Src) (hk : s.NoCR) (hn : s.ids.Nodup) (σ : Store) (hc : Cold σ s.ids)
    (calls : List Opts) (k : Nat) (o : Opts) (hcall : calls[k]? = some o) :
    ∃ r, (runCalls s calls σ).1[k]? = some r
      ∧ (o = ⟨true, false⟩ → s.WarmHyp → DeclOK 0 0 r.evs)
      ∧ (o = ⟨true, true⟩ → s.ModeHypC → s.SmallF → DeclOK 0 0 r.evs)
      ∧ (o = ⟨false, false⟩ → s.WF → s.WarmHypL → DeclOK 0 0 r.evs)
      ∧ (o = ⟨false, true⟩ → s.ModeHypL → s.SmallFL → DeclOK 0 0 r.evs) := by
  have hck := Src.noCR_cachedOK s hk
  refine ⟨_, runCalls_results s hk hn σ hc calls k o hcall, ?_, ?_, ?_, ?_⟩
  · intro ho hw
    subst ho
    obtain ⟨_, a2, a3⟩ := Src.warm_NA s hw hck
    unfold answerOf
    split
    · exact stream_declOK_nc _ _ (Src.warm_nc s _ hck) a2
    · exact stream_declOK_nc _ _ (Src.strip_nc s) a3
  · intro ho hm hs
    subst ho
    obtain ⟨_, a2⟩ := Src.warmF_NA s hm hck hs
    unfold answerOf
    split
    · exact stream_declOK_nc _ _ (Src.warm_nc s _ hck) (Src.modeHypC_base _ a2).2.2
    · exact stream_declOK_nc _ _ (Src.strip_nc s) (Src.modeHypC_base _ (Src.strip_modeHypC s hm)).2.2
  · intro ho hw hwl
    subst ho
    obtain ⟨_, a2, a3⟩ := Src.warmG_LN false s hw (Src.warmHypL_leafOK s hwl) hck
    unfold answerOf
    split
    · exact stream_declOK_nc _ _ (Src.warm_nc s _ hck) a2
    · exact stream_declOK_nc _ _ (Src.strip_nc s) a3
  · intro ho hm hs
    subst ho
    obtain ⟨_, a2⟩ := Src.warmFL s hm hck hs
    unfold answerOf
    split
    · exact stream_declOK_nc _ _ (Src.warm_nc s _ hck) (Src.modeHypL_base _ a2).2.2
    · exact stream_declOK_nc _ _ (Src.strip_nc s) (Src.modeHypL_base _ (Src.strip_modeHypL s hm)).2.2

end Rs
